#!/usr/bin/env python3
# builder F: the text template the five Props/TieA/MacCmdFrame<Set>.lean files were instantiated from (reads Gen/CmdTables.lean;
# usage: gen.py <Set>:<tableName>:<toEnd|status> ...; paths point to /work/F/verif - adjust). Not part of any build.
import re, sys
tables = open('/work/F/verif/lean/LoraVerif/Gen/CmdTables.lean').read()
unit_payloads = set(re.search(r'def unitPayloads : List String := \[(.*?)\]', tables).group(1).replace('"','').split(', '))
def rows(tbl):
    m = re.search(r'def %s : List Row := \[(.*?)\]\n' % tbl, tables, re.S)
    out = []
    for r in re.findall(r'\((\d+), (some \d+|none), "(\w+)", "(\w+)"\)', m.group(1)):
        out.append((int(r[0]), None if r[1]=='none' else int(r[1].split()[1]), r[2], r[3]))
    return out
EX = {
 'UplinkMacCommand': ([3, 7, 6, 0x55], '[some (3, [7]), none], ([6, 0x55], true)'),
 'DownlinkDUTCommand': ([6, 5, 7, 1, 2, 3], '[some (6, [5]), some (7, [1, 2, 3])], ([], false)'),
 'UplinkDUTCommand': ([9, 1, 2, 8, 0xAA], '[some (9, [1, 2]), some (8, [0xAA])], ([], false)'),
 'DownlinkRemoteSetup': ([1, 0x0F, 3], '[some (1, [0x0F]), none], ([3], true)'),
 'UplinkRemoteSetup': ([1, 0x11, 0, 1, 2, 3, 4, 2, 9, 1, 0x13, 7], '[some (1, [0x11, 0, 1, 2, 3, 4]), some (2, [9]), none], ([1, 0x13, 7], true)'),
}
def gen(setn, tbl, varkind):
    R = rows(tbl)
    G = 'Gen.MacCmdFn' + setn
    hasvar = any(l is None for _, l, _, _ in R)
    cids = [c for c, _, _, _ in R]
    cl = ', '.join(map(str, cids))
    o = []
    w = o.append
    w(f'''import LoraVerif.Props.TieA.MacCmdFrameGen
import LoraVerif.{G}
/-!
# Tie A for the framing step of `{setn}` (builder F, C03)

`Gen/MacCmdFn{setn}.lean` holds what `#[derive(CommandHandler)]` generates for `{setn}` (payload structs,
`new_from_raw` / `max_len`, `MacCommandSet::parse_one`, expanded from the `quote!` templates with the `#[cmd]` attributes of
the current source), the hand-written `len()` helpers of its variable-length payloads, and the source's
`MacCommands::next` for `T = {setn}`.  Here: the regenerated framing IS the hand model `Model/MacCmd.lean` over the
regenerated table `Gen.CmdTables.{tbl}`, for every octet stream.  The set-independent part of the argument is
`Props/TieA/MacCmdFrameGen.lean`; this file supplies the reading of the set's own types (`infoOf` …), one lemma per
`match` arm, and the bridge `next_bridge` (the unit's `next` is `gNext` of the unit's `parse_one`).
-/
set_option linter.unusedSimpArgs false
set_option linter.unusedVariables false
namespace TieA.Frame{setn}
open MacCmd TieA.MacCmdFrame TieA.FrameGen

/-- the table of the set, regenerated from the `#[cmd]` attributes (C03's `T`) -/
def TS : Table := C03.T Gen.CmdTables.{tbl}

/-- what a yielded command is: CID, variant, payload type, the octets its payload view borrows -/
def infoOf : {G}.{setn} → Info''')
    for c, l, v, p in R:
        if p in unit_payloads:
            w(f'  | .{v} _ => ({c}, "{v}", "{p}", [])')
        else:
            w(f'  | .{v} p => ({c}, "{v}", "{p}", p._0)')
    w(f'''
def errOf : {G}.ParseError → MacCmd.ParseError
  | .UnknownCid c => .unknownCid c.toNat
  | .Truncated c => .truncated c.toNat

def oneOf : {G}.ParseOne → POne
  | .Ok c n => .ok (infoOf c, n)
  | .Err e => .error (errOf e)

def itemOf : {G}.NextItem → GItem
  | .Ok c => .ok (infoOf c)
  | .Err e => .error (errOf e)

def stOf (g : {G}.MacCommands) : GSt := (g.data, g.errored)

/-- the regenerated `parse_one` in set-independent vocabulary -/
def P (d : List Int) : Option POne := ({G}.{setn}.parse_one d).map oneOf
''')
    names = []
    for c, l, v, p in R:
        names.append(f'{G}.{p}.new_from_raw')
        if l is not None: names.append(f'{G}.{p}.max_len')
        else:
            names += [f'{G}.{p}.len'] + ([f'{G}.{p}.min_len'] if varkind=='toEnd' else [f'{G}.{p}.required_len', f'{G}.McGroupStatusItem.len'])
    w('attribute [local simp] infoOf errOf oneOf ' + ' '.join(names) + '\n')
    hl = ' (hlen : (%s :: rest).length < 2 ^ 64)'
    for c, l, v, p in R:
        if l is not None:
            w(f'''theorem arm{c} : ∀ rest : List Nat, ({G}.{setn}.parse_one (ints ({c} :: rest))).map oneOf
    = (toOpt (parseOne TS varLen ({c} :: rest))).map oneUp := by
  arm_fixed {G}.{setn}.parse_one {l}
''')
        else:
            w(f'''theorem arm{c} : ∀ rest : List Nat, ({c} :: rest).length < 2 ^ 64 → ({G}.{setn}.parse_one (ints ({c} :: rest))).map oneOf
    = (toOpt (parseOne TS varLen ({c} :: rest))).map oneUp := by
  arm_{varkind} {G}.{setn}.parse_one
''')
    hs = ', '.join(f'h{c}' for c in cids)
    es = ', '.join(f'e _ h{c}' for c in cids)
    w(f'''theorem lookup_none (cid : Nat) (h : cid ∉ [{cl}]) : TS.lookup cid = none := by
  simp only [List.mem_cons, List.not_mem_nil, or_false, not_or] at h
  obtain ⟨{hs}⟩ := h
  have e : ∀ k : Nat, cid ≠ k → (k == cid) = false := fun k hk => by simp; omega
  simp [TS, C03.T, Table.ofRows, Gen.CmdTables.{tbl}, Table.lookup, Entry.ofRow, List.find?, {es}]

theorem arm_unknown (cid : Nat) (h : cid ∉ [{cl}]) (rest : List Nat) :
    ({G}.{setn}.parse_one (ints (cid :: rest))).map oneOf = (toOpt (parseOne TS varLen (cid :: rest))).map oneUp := by
  rw [model_unknown' TS varLen cid rest (lookup_none cid h)]
  simp only [List.mem_cons, List.not_mem_nil, or_false, not_or] at h
  obtain ⟨{hs}⟩ := h
  unfold {G}.{setn}.parse_one
  simp only [idx0', Option.bind_eq_bind, Option.bind_some]''')
    for c in cids:
        w(f'  have e{c} : ¬ ((cid : Int) = {c}) := by omega')
    w('  simp [' + ', '.join(f'e{c}' for c in cids) + ', ' + hs + ', toOpt, oneUp]\n')
    hyp = ' (hlen : data.length < 2 ^ 64)' if hasvar else ''
    w(f'''/-- the regenerated `parse_one` of `{setn}` IS the model's `parseOne` over the regenerated table, on every octet string -/
theorem parse_one_tie (data : List Nat){hyp} :
    ({G}.{setn}.parse_one (ints data)).map oneOf = (toOpt (parseOne TS varLen data)).map oneUp := by
  cases data with
  | nil => rfl
  | cons cid rest =>
    by_cases h : cid ∈ [{cl}]
    · simp only [List.mem_cons, List.not_mem_nil, or_false] at h
      rcases h with {' | '.join('rfl' for _ in cids)}''')
    for c, l, v, p in R:
        w(f'      · exact arm{c} rest' + (' hlen' if l is None else ''))
    w(f'''    · exact arm_unknown cid h rest

/-- the length bound under which the regenerated `parse_one` cannot overflow `1 + len` -/
def Q (n : Nat) : Prop := {'n < 2 ^ 64' if hasvar else 'True'}

theorem Q_down (a b : Nat) (h : a ≤ b) (hb : Q b) : Q a := by
  {'unfold Q at *; omega' if hasvar else 'trivial'}

theorem P_tie (data : List Nat) (hq : Q data.length) : P (ints data) = (toOpt (parseOne TS varLen data)).map oneUp :=
  parse_one_tie data{' hq' if hasvar else ''}

/-- the unit's `MacCommands::next` (for `T = {setn}`), read through `itemOf` / `stOf`, is `gNext` of the unit's `parse_one` -/
theorem next_bridge (s : {G}.MacCommands) :
    ({G}.MacCommands.next s).map (fun r => (r.1.map itemOf, stOf r.2)) = gNext P (stOf s) := by
  obtain ⟨d, e⟩ := s
  unfold {G}.MacCommands.next gNext P
  cases e with
  | true => simp [stOf]
  | false =>
    cases d with
    | nil => simp [stOf]
    | cons a t =>
      simp only [stOf, List.isEmpty_cons, Bool.or_self, Bool.or_false, Bool.false_or, Bool.false_eq_true, if_false,
        Option.bind_eq_bind]
      cases hp : {G}.{setn}.parse_one (a :: t) with
      | none => simp
      | some r =>
        cases r with
        | Err x => simp [itemOf, stOf]
        | Ok c n =>
          simp only [Option.bind_some, Option.map_some, oneOf]
          cases hs : Rt.sliceFrom (a :: t) n with
          | none => simp
          | some d' => simp [itemOf, stOf]

def runOf (r : List {G}.NextItem × {G}.MacCommands × Bool) := (r.1.map itemOf, stOf r.2.1, r.2.2)

end TieA.Frame{setn}

namespace C03
open MacCmd TieA.MacCmdFrame TieA.FrameGen TieA.Frame{setn}

/-- builder F — the derive-generated `parse_one` of `{setn}` (expanded from the `quote!` templates of the `CommandHandler`
derive with the `#[cmd(cid, len)]` attributes of the current source{', with the hand-written `len()` helpers of the variable-length payloads' if hasvar else ''}) IS the
model's `parseOne` over the regenerated table, for EVERY octet string{' (of a length a Rust slice can have)' if hasvar else ''}: same variant, payload type, payload octets and
consumed count, `UnknownCid` / `Truncated` with the same CID on the same inputs, a panic exactly on the empty slice. -/
theorem tieA_parse_one_{setn} (data : List Nat){hyp} :
    ({G}.{setn}.parse_one (ints data)).map TieA.Frame{setn}.oneOf = (toOpt (parseOne TieA.Frame{setn}.TS varLen data)).map oneUp :=
  TieA.Frame{setn}.parse_one_tie data{' hlen' if hasvar else ''}

/-- builder F — the source's `MacCommands::next` for `T = {setn}` IS the model's `next` in every state. -/
theorem tieA_next_{setn} (data : List Nat) (err : Bool){hyp} :
    ({G}.MacCommands.next ⟨ints data, err⟩).map (fun r => (r.1.map TieA.Frame{setn}.itemOf, TieA.Frame{setn}.stOf r.2))
      = (toOpt (MacCmd.next TieA.Frame{setn}.TS varLen ⟨data, err⟩)).map (fun r => (r.1.map itemUp, stUp r.2)) := by
  rw [TieA.Frame{setn}.next_bridge]
  exact gNext_tie _ _ _ TieA.Frame{setn}.Q TieA.Frame{setn}.P_tie data err {'hlen' if hasvar else 'trivial'}

/-- builder F — the `{setn}` iterator over `data`, drained through the REGENERATED `next` (`MacCommands::new(data)`, then
`next` until `None`, budget `data.len() + 2`), is the model's run, for every octet stream: the same items in the same order,
the same final state, within the same budget. -/
theorem tieA_iterator_{setn} (data : List Nat){hyp} :
    (runFuelOf {G}.MacCommands.next (data.length + 2) ⟨ints data, false⟩).map TieA.Frame{setn}.runOf
      = (toOpt (run TieA.Frame{setn}.TS varLen data)).map runUp := by
  have h := runFuelOf_sim {G}.MacCommands.next (gNext TieA.Frame{setn}.P) TieA.Frame{setn}.itemOf TieA.Frame{setn}.stOf
    TieA.Frame{setn}.next_bridge (data.length + 2) ⟨ints data, false⟩
  unfold TieA.Frame{setn}.runOf
  rw [h]
  exact gRun_tie _ _ _ TieA.Frame{setn}.Q TieA.Frame{setn}.Q_down TieA.Frame{setn}.P_tie _ data false {'hlen' if hasvar else 'trivial'}

/-! non-vacuity: a concrete stream through the regenerated iterator (CID and payload octets of every item, `none` = the
error item; the unread rest and the `errored` flag; budget not exhausted){'; the length hypothesis holds of it' if hasvar else ''} -/
example : (runFuelOf {G}.MacCommands.next ({len(EX[setn][0])} + 2) ⟨{EX[setn][0]}, false⟩).map
    (fun r => (r.1.map (fun i => (TieA.Frame{setn}.itemOf i).toOption.map (fun c => (c.1, c.2.2.2))), TieA.Frame{setn}.stOf r.2.1, r.2.2))
    = some ({EX[setn][1]}, false) := by decide
{('example : (' + str(EX[setn][0]) + ' : List Nat).length < 2 ^ 64 := by decide') if hasvar else ''}

#print axioms tieA_parse_one_{setn}
#print axioms tieA_next_{setn}
#print axioms tieA_iterator_{setn}
end C03
''')
    open(f'/work/F/verif/lean/LoraVerif/Props/TieA/MacCmdFrame{setn}.lean', 'w').write('\n'.join(o))
for a in sys.argv[1:]:
    setn, tbl, vk = a.split(':')
    gen(setn, tbl, vk)
