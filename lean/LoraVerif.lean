import LoraVerif.Rt
import LoraVerif.Gen.Modulation
