import LoraVerif.Rt
/-!
Runtime prelude for the GENERATED command encoders of the PHY drivers (`Gen/PhyEnc*.lean`, builder O).

A driver method `async fn f(&mut self, ..) -> Result<T, RadioError>` that talks to the chip through
`self.intf` (`lora-phy/src/interface.rs`) is translated into a value of `IoM ε σ T`:

    (device answering the reads) → (device state) → (requests so far) →
        Option (Result × device state × requests so far and of this call)

`none` is a Rust panic (checked arithmetic, index out of bounds).  The *device* is the oracle of
register contents: a state `σ` and a transfer function `σ → bytes written → number of bytes read →
bytes read × σ`; nothing else is known about it, so a statement about the generated function holds
for every chip content and every way the chip reacts to writes.  The requests are a value: every
SPI transaction (all bytes written in it, the number of bytes read) and every wait for the BUSY
line, in program order.  Faults of the SPI bus / BUSY line are not part of this denotation (the
fault-free run).  The four `SpiInterface` methods are written here by hand (they are four lines each
in `interface.rs`); everything above them is generated.  Import-free.
-/
namespace RtPhy end RtPhy

namespace Rt.Phy

/-- one request of a driver to the board -/
inductive Ev where
  /-- one SPI transaction: all bytes written (the write operations concatenated), bytes read -/
  | spi (w : List Int) (n : Nat)
  /-- `iv.wait_on_busy()` -/
  | busy
  /-- any other `InterfaceVariant` call, by name -/
  | iv (name : String)
  deriving DecidableEq, Repr

/-- the device: written bytes, number of bytes to read ↦ bytes read and the device afterwards -/
abbrev Dev (σ : Type) := σ → List Int → Nat → List Int × σ

def IoM (ε σ α : Type) : Type := Dev σ → σ → List Ev → Option (Except ε α × σ × List Ev)

namespace IoM
def pure {ε σ α : Type} (a : α) : IoM ε σ α := fun _ s log => some (.ok a, s, log)
def bind {ε σ α β : Type} (m : IoM ε σ α) (f : α → IoM ε σ β) : IoM ε σ β := fun dev s log =>
  match m dev s log with
  | none => none
  | some (.error e, s1, log1) => some (.error e, s1, log1)
  | some (.ok a, s1, log1) => f a dev s1 log1
end IoM

instance {ε σ : Type} : Monad (IoM ε σ) where
  pure := IoM.pure
  bind := IoM.bind

/-- `Err(e)` / `return Err(e)` / the error arm of `?` -/
def throw {ε σ α : Type} (e : ε) : IoM ε σ α := fun _ s log => some (.error e, s, log)
/-- a Rust panic -/
def panic {ε σ α : Type} : IoM ε σ α := fun _ _ _ => none
/-- a checked primitive (`none` = panic) -/
def ofOpt {ε σ α : Type} (o : Option α) : IoM ε σ α := fun _ s log =>
  match o with
  | some a => some (.ok a, s, log)
  | none => none

/-- one SPI transaction -/
def xfer {ε σ : Type} (w : List Int) (n : Nat) : IoM ε σ (List Int) := fun dev s log =>
  let (bs, s1) := dev s w n
  some (.ok bs, s1, log ++ [.spi w n])

def waitOnBusy {ε σ : Type} : IoM ε σ Unit := fun _ s log => some (.ok (), s, log ++ [.busy])
def iv {ε σ : Type} (name : String) : IoM ε σ Unit := fun _ s log => some (.ok (), s, log ++ [.iv name])

/-- the caller's buffer after a read of `buf.length` bytes answered by `ans` (a device delivers
exactly the bytes clocked; a short answer leaves the rest of the buffer as it was) -/
def fill (buf ans : List Int) : List Int := ans.take buf.length ++ buf.drop ans.length

/-- `SpiInterface::write(write_buffer, is_sleep_command)` -/
def write {ε σ : Type} (w : List Int) (isSleep : Bool) : IoM ε σ Unit := do
  let _ ← xfer w 0
  if isSleep then pure () else waitOnBusy

/-- `SpiInterface::write_with_payload(write_buffer, payload, is_sleep_command)`: one transaction -/
def writeWithPayload {ε σ : Type} (w payload : List Int) (isSleep : Bool) : IoM ε σ Unit := do
  let _ ← xfer (w ++ payload) 0
  if isSleep then pure () else waitOnBusy

/-- `SpiInterface::read(write_buffer, read_buffer)`: the new content of `read_buffer` -/
def read {ε σ : Type} (w buf : List Int) : IoM ε σ (List Int) := do
  let bs ← xfer w buf.length
  waitOnBusy
  pure (fill buf bs)

/-- `SpiInterface::read_with_status(write_buffer, read_buffer)`: the status byte and the buffer -/
def readWithStatus {ε σ : Type} (w buf : List Int) : IoM ε σ (Int × List Int) := do
  let bs ← xfer w (1 + buf.length)
  waitOnBusy
  pure ((fill [0] bs).headD 0, fill buf (bs.drop 1))

/-- `to_be_bytes` of an unsigned integer -/
def beBytes (t : Rt.ITy) (x : Int) : List Int :=
  (List.range (t.bits / 8)).reverse.map (fun k => (x / (256 ^ k : Int)) % 256)

end Rt.Phy
