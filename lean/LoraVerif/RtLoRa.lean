/-!
Runtime prelude for the GENERATED `LoRa<RK, DLY>` API programs (`Gen/LoRaApiFn.lean`, builder G).

A method `async fn f(&mut self, ..) -> Result<T, RadioError>` of `LoRa` becomes a value of
`LM σ ω ε η T`: a function of the driver struct `σ` (state in) and an abstract world `ω` (whatever
the `RadioKind` operations act on) returning an outcome, the struct afterwards (state out) and the
world afterwards.  Outcomes: `ok`, `err e` (what `?` propagates and `match … { Err(e) => … }`
catches), `halt h` (anything that ends the call and cannot be caught: a panic, a future dropped at a
pending await, the fuel of a `loop` running out).  As in Rust, field assignments made before an
`err` / `halt` persist.  Import-free.
-/
namespace Rt.LoRa

inductive Out (ε η α : Type) where
  | ok (a : α)
  | err (e : ε)
  | halt (h : η)

/-- an action on the world only (a `RadioKind` operation applied to its receiver) -/
abbrev Act (ω ε η α : Type) := ω → Out ε η α × ω

def LM (σ ω ε η α : Type) := σ × ω → Out ε η α × (σ × ω)

namespace LM
variable {σ ω ε η α β : Type}

def pure (a : α) : LM σ ω ε η α := fun s => (.ok a, s)
def bind (m : LM σ ω ε η α) (f : α → LM σ ω ε η β) : LM σ ω ε η β := fun s =>
  match m s with
  | (.ok a, s') => f a s'
  | (.err e, s') => (.err e, s')
  | (.halt h, s') => (.halt h, s')
/-- the struct (`self`) as it is now -/
def get : LM σ ω ε η σ := fun s => (.ok s.1, s)
/-- `self.field = value` -/
def modify (f : σ → σ) : LM σ ω ε η Unit := fun s => (.ok (), (f s.1, s.2))
/-- `Err(e)` / `return Err(e)` -/
def throw (e : ε) : LM σ ω ε η α := fun s => (.err e, s)
/-- a panic, a dropped future, divergence -/
def halt (h : η) : LM σ ω ε η α := fun s => (.halt h, s)
/-- a `Result` bound without `?` (`match fut.await { Ok(..) => .., Err(..) => .. }`) -/
def attempt (m : LM σ ω ε η α) : LM σ ω ε η (Except ε α) := fun s =>
  match m s with
  | (.ok a, s') => (.ok (.ok a), s')
  | (.err e, s') => (.ok (.error e), s')
  | (.halt h, s') => (.halt h, s')
/-- `pure_result?` of a function that does no I/O -/
def ofExcept (r : Except ε α) : LM σ ω ε η α := fun s =>
  match r with
  | .ok a => (.ok a, s)
  | .error e => (.err e, s)
end LM

end Rt.LoRa
