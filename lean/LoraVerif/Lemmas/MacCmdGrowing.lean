import LoraVerif.Lemmas.MacCmdSetAgree
import LoraVerif.Lemmas.MacCmdBuild
/-! The two growing (variable-length) creators: `EchoIncPayloadAnsCreator` and `McGroupStatusAnsCreator`, on every reachable state. -/
set_option linter.unusedSimpArgs false
namespace MacCmd

def eEcho : Entry := ⟨8, none, "EchoIncPayloadAns", "EchoIncPayloadAnsPayload"⟩

/-- **EchoIncPayloadAnsCreator::payload**, any creator state (also after earlier, longer payloads): the built answer is the CID
followed by the first 241 octets of the argument, each incremented modulo 256 — the specification's answer. -/
theorem echo_payload_build (cid : Nat) (tail : Bytes) (ht : tail.length = 241) (cnt : Nat) (b : Bytes) (wrap : Bytes → Bytes) (p : Bytes) :
    ∃ c', setEchoIncPayloadAns { data := cid :: tail, count := cnt } "payload" (.bytes b) = .ok (.ok, c') ∧
      c'.build eEcho = .ok (cid :: (b.take 241).map (fun x => (x + 1) % 256)) ∧
      (∃ tail', c'.data = cid :: tail' ∧ tail'.length = 241) ∧
      Spec.MacCmd.applySetter wrap "EchoIncPayloadAns" p "payload" (.bytes b) = some (none, (b.take 241).map (fun x => (x + 1) % 256)) := by
  have hmin : min b.length 241 ≤ b.length := Nat.min_le_left _ _
  have hsl : slice "payload: &data[..min]" b 0 (min b.length 241) = .ok (b.take 241) := by
    rw [slice_ok (by omega) hmin]
    simp only [List.drop_zero, Nat.sub_zero]
    congr 1
    rw [List.take_eq_take_iff]
    omega
  have hn : (b.take 241).length ≤ 241 := by simp; omega
  refine ⟨{ data := cid :: ((b.take 241).map (fun x => (x + 1) % 256) ++ tail.drop (b.take 241).length), count := (b.take 241).length }, ?_, ?_, ?_, rfl⟩
  · simp only [setEchoIncPayloadAns, hsl, Outcome.ok_bind, copyInto, List.length_cons, ht, List.length_map]
    rw [if_pos ⟨by omega, by omega, by omega⟩]
    simp [Nat.add_comm 1]
  · simp only [Creator.build, Creator.len, eEcho]
    have hs : ("EchoIncPayloadAnsPayload" = "McGroupStatusAnsPayload") = False := by decide
    simp only [hs, if_false]
    rw [slice_ok (by omega) (by simp [ht])]
    simp only [List.drop_zero, Nat.sub_zero, List.take_succ_cons]
    congr 2
    have : ((b.take 241).map (fun x => (x + 1) % 256)).length = (b.take 241).length := by simp
    rw [← this, List.take_left']
    rfl
  · refine ⟨_, rfl, ?_⟩
    simp [ht]; omega

def eGroupStatus : Entry := ⟨1, none, "McGroupStatusAns", "McGroupStatusAnsPayload"⟩

/-- reachable states of `McGroupStatusAnsCreator`: 22 octets, `items` = number of bits set in AnsGroupMask -/
structure GroupStatusInv (c : Creator) (cid st : Nat) (area : Bytes) : Prop where
  hdata : c.data = cid :: st :: area
  harea : area.length = 20
  hst : st < 256
  hcount : c.count = popcount4 (st &&& 15)

theorem popcount_push : ∀ st, st < 256 → ∀ id, id < 4 → (st &&& (1 <<< id) != 0) = false →
    popcount4 ((st ||| (1 <<< id)) &&& 15) = popcount4 (st &&& 15) + 1 ∧ (st ||| (1 <<< id)) < 256 ∧ popcount4 (st &&& 15) ≤ 3 := by
  decide +kernel

/-- **McGroupStatusAnsCreator::push** on every reachable state: ids outside AnsGroupMask and groups already reported are
refused and nothing changes; otherwise the mask bit is set, the item (`group id ‖ McAddr`) is appended after the items
already present, the invariant is kept and nothing panics (a fifth item cannot occur). -/
theorem push_ok (c : Creator) (cid st : Nat) (area : Bytes) (inv : GroupStatusInv c cid st area) (id : Nat) (addr : Bytes)
    (ha : addr.length = 4) :
    (id ≥ 4 ∨ (st &&& (1 <<< id) != 0) = true → setMcGroupStatusAns c "push" (.item id addr) = .ok (.err "InvalidIndex", c)) ∧
    (id < 4 → (st &&& (1 <<< id) != 0) = false →
      ∃ c', setMcGroupStatusAns c "push" (.item id addr) = .ok (.ok, c') ∧
        GroupStatusInv c' cid (st ||| (1 <<< id)) (area.take (c.count * 5) ++ (id :: addr) ++ area.drop (c.count * 5 + 5))) := by
  obtain ⟨hd, hal, hst, hc⟩ := inv
  constructor
  · intro h
    simp only [setMcGroupStatusAns, hd, index, List.getElem?_cons_succ, List.getElem?_cons_zero, Outcome.ok_bind]
    rcases h with h | h
    · simp [h, refuse]
    · by_cases h4 : id ≥ 4
      · simp [h4, refuse]
      · simp [h4, h, refuse]
  · intro hid hbit
    obtain ⟨hp1, hp2, hp3⟩ := popcount_push st hst id hid hbit
    have hcnt : c.count ≤ 3 := by rw [hc]; exact hp3
    refine ⟨{ data := cid :: (st ||| (1 <<< id)) :: (area.take (c.count * 5) ++ (id :: addr) ++ area.drop (c.count * 5 + 5)),
              count := c.count + 1 }, ?_, ⟨rfl, ?_, hp2, by simp only; rw [hp1, hc]⟩⟩
    · simp only [setMcGroupStatusAns, hd, index, List.getElem?_cons_succ, List.getElem?_cons_zero, Outcome.ok_bind,
        show ¬ id ≥ 4 by omega, hbit, if_false, Bool.false_eq_true, modByte, setByte, List.length_cons, hal]
      rw [if_pos (by omega)]
      simp only [Outcome.ok_bind, List.set_cons_succ, List.set_cons_zero]
      rw [if_pos (by simp [hal]; omega)]
      simp only [Outcome.ok_bind, copyInto, List.length_set, List.length_cons, hal]
      rw [if_pos ⟨by omega, by omega, by omega⟩]
      have hw := set_then_copy (cid :: (st ||| 1 <<< id) :: area) (2 + c.count * 5) id addr (by simp [hal, ha]; omega)
      rw [ha] at hw
      simp only [Outcome.ok_bind]
      rw [show 2 + c.count * 5 + 5 = 2 + c.count * 5 + 1 + 4 by omega, hw]
      simp only [writeAt, List.length_cons, ha]
      have e2 : 2 + c.count * 5 = c.count * 5 + 1 + 1 := by omega
      have e7 : c.count * 5 + 1 + 1 + (4 + 1) = (c.count * 5 + 5) + 1 + 1 := by omega
      rw [e2, e7]
      simp only [List.take_succ_cons, List.drop_succ_cons, List.cons_append, List.append_assoc]
    · simp [hal]; omega


theorem pat_nb : ∀ st, st < 256 → ∀ m, m < 8 →
    ((st &&& 15) ||| ((m <<< 4) % 256)) &&& 15 = st &&& 15 ∧ ((st &&& 15) ||| ((m <<< 4) % 256)) < 256 ∧
    (((st &&& 15) ||| ((m <<< 4) % 256)) >>> 4) &&& 7 = m := by decide +kernel

/-- **McGroupStatusAnsCreator::nb_total_groups**: writes NbTotalGroups (`v mod 8`) and leaves AnsGroupMask, the items and the
invariant alone -/
theorem nb_total_groups_ok (c : Creator) (cid st : Nat) (area : Bytes) (inv : GroupStatusInv c cid st area) (v : Nat) :
    ∃ st', setMcGroupStatusAns c "nb_total_groups" (.n v) = .ok (.ok, { c with data := cid :: st' :: area }) ∧
      GroupStatusInv { c with data := cid :: st' :: area } cid st' area ∧
      st' &&& 15 = st &&& 15 ∧ (st' >>> 4) &&& 7 = v % 8 := by
  obtain ⟨hd, hal, hst, hc⟩ := inv
  have hm : v % 8 < 8 := Nat.mod_lt _ (by omega)
  obtain ⟨p1, p2, p3⟩ := pat_nb st hst (v % 8) hm
  refine ⟨(st &&& 15) ||| (((v % 8) <<< 4) % 256), ?_, ⟨rfl, hal, p2, by simp only; rw [p1, hc]⟩, p1, p3⟩
  simp [setMcGroupStatusAns, hd, modByte, index, setByte, okD, and7]

/-- `build()` of a reachable McGroupStatusAns creator: CID, status octet, and the `items` items written so far -/
theorem groupStatus_build (c : Creator) (cid st : Nat) (area : Bytes) (inv : GroupStatusInv c cid st area) :
    c.build eGroupStatus = .ok (cid :: st :: area.take (c.count * 5)) := by
  obtain ⟨hd, hal, hst, hc⟩ := inv
  have h4 : c.count ≤ 4 := by rw [hc]; exact popcount4_le _
  simp only [Creator.build, Creator.len, eGroupStatus, hd]
  rw [slice_ok (by omega) (by simp [hal]; omega)]
  simp only [if_true, List.drop_zero, Nat.sub_zero]
  rw [show 1 + 1 + c.count * 5 = c.count * 5 + 1 + 1 by omega]
  simp only [List.take_succ_cons]

/-- a fresh McGroupStatusAns creator satisfies the invariant -/
theorem groupStatus_new : ∃ c, Creator.new eGroupStatus = .ok c ∧ GroupStatusInv c 1 0 (List.replicate 20 0) := by
  refine ⟨_, rfl, ⟨rfl, by simp, by omega, by decide⟩⟩

end MacCmd
