import LoraVerif.Lemmas.PhyInv
/-!
# A small calculus for configuration operations (`Cfg`) and the SX126x / SX127x tracker steps

`Cfg p g`: on an awake chip with the flags down, `p` keeps the flags down, only adds programmed
items (among them `g` on success) and fails only with infrastructure errors.  Closed under `?`-
sequencing, `if`, `pure`, `fail`; the leaves are single SPI transactions whose command is benign
(not a sleep / start command).
-/
namespace Model.Phy

instance (a b : Items) : Decidable (a.le b) := by unfold Items.le; infer_instance

section
variable {kind : Kind} {n : Needs}

theorem Cfg.pure {α : Type} (a : α) : Cfg kind n (Pure.pure a : Prog α) {} :=
  fun _ hc _ => ⟨Ext.refl hc, Items.none_le _⟩

theorem Cfg.ret {α : Type} (a : α) : Cfg kind n (Prog.ret a : Prog α) {} :=
  fun _ hc _ => ⟨Ext.refl hc, Items.none_le _⟩

theorem Cfg.fail {α : Type} (e : RadioError) (g : Items) (he : Abort.infra (.err e)) : Cfg kind n (Prog.fail e : Prog α) g :=
  fun _ hc _ => ⟨Ext.refl hc, he⟩

theorem Cfg.panic {α : Type} (s : String) (g : Items) : Cfg kind n (Prog.panic s : Prog α) g :=
  fun _ hc _ => ⟨Ext.refl hc, rfl⟩

theorem Cfg.weaken {α : Type} {p : Prog α} {g g' : Items} (h : Cfg kind n p g) (hg : g'.le g) : Cfg kind n p g' :=
  fun t hc ha => wp_mono _ _ _ (h t hc ha) (fun _ _ hq => ⟨hq.1, Items.le_trans hg hq.2⟩) (fun _ _ he => he)

theorem Cfg.zero {α : Type} {p : Prog α} {g : Items} (h : Cfg kind n p g) : Cfg kind n p {} := h.weaken (Items.none_le _)

/-- sequencing: both gains -/
theorem Cfg.bind {α β : Type} {p : Prog α} {f : α → Prog β} {g1 g2 : Items} (h1 : Cfg kind n p g1) (h2 : ∀ a, Cfg kind n (f a) g2) :
    Cfg kind n (p >>= f) (g1.union g2) := by
  intro t hc ha
  show wp kind n (Prog.bind p f) _ _ t
  rw [wp_bind]
  refine wp_mono _ _ _ (h1 t hc ha) (fun a t1 hq => ?_) (fun _ _ he => he)
  refine wp_mono _ _ _ (h2 a t1 hq.1.clean (hq.1.aw ha)) (fun _ t2 hq2 => ?_) (fun _ t2 he => ⟨hq.1.trans he.1, he.2⟩)
  exact ⟨hq.1.trans hq2.1, Items.union_le (hq2.1.le hq.2) hq2.2⟩

theorem Cfg.bind_l {α β : Type} {p : Prog α} {f : α → Prog β} {g : Items} (h1 : Cfg kind n p g) (h2 : ∀ a, Cfg kind n (f a) {}) :
    Cfg kind n (p >>= f) g :=
  (Cfg.bind h1 h2).weaken (by simp only [Items.le, Items.union, Bool.or_false]; simp)

theorem Cfg.bind_r {α β : Type} {p : Prog α} {f : α → Prog β} {g : Items} (h1 : Cfg kind n p {}) (h2 : ∀ a, Cfg kind n (f a) g) :
    Cfg kind n (p >>= f) g :=
  (Cfg.bind h1 h2).weaken (by simp only [Items.le, Items.union, Bool.false_or]; simp)

theorem Cfg.bind0 {α β : Type} {p : Prog α} {f : α → Prog β} (h1 : Cfg kind n p {}) (h2 : ∀ a, Cfg kind n (f a) {}) :
    Cfg kind n (p >>= f) {} := Cfg.bind_r h1 h2

/-- sequencing against a fixed goal: what the first part programs need not be programmed by the rest -/
theorem Cfg.step {α β : Type} {p : Prog α} {f : α → Prog β} {g g1 : Items} (h1 : Cfg kind n p g1)
    (h2 : ∀ a, Cfg kind n (f a) (g.diff g1)) : Cfg kind n (p >>= f) g :=
  (Cfg.bind h1 h2).weaken (Items.le_union_diff g g1)

theorem Cfg.ite {α : Type} {c : Prop} [Decidable c] {p q : Prog α} {g : Items} (h1 : Cfg kind n p g) (h2 : Cfg kind n q g) :
    Cfg kind n (if c then p else q) g := by split <;> assumption

theorem cfg_busy : Cfg kind n (Prog.req .busy) {} := by
  intro t hc _
  rw [wp_req_plain kind n (Or.inl rfl)]
  exact ⟨⟨Ext.refl hc, rfl⟩, Ext.refl hc, Items.none_le _⟩

theorem cfg_plain {r : Io} (hr : r = .busy ∨ r = .rfRx ∨ r = .rfTx ∨ r = .rfOff) : Cfg kind n (Prog.req r) {} := by
  intro t hc _
  rw [wp_req_plain kind n hr]
  refine ⟨⟨Ext.refl hc, ?_⟩, Ext.refl hc, Items.none_le _⟩
  rcases hr with rfl | rfl | rfl | rfl <;> rfl

/-- a single transaction whose tracker step is benign -/
theorem cfg_of_step {g : Items} {w : Bytes} (h : ∀ t, Clean t → Aw t → Ext t (spiStep kind n t w) ∧ g.le (spiStep kind n t w).items) :
    Cfg kind n (intfWrite w) g := by
  intro t hc ha
  rw [wp_intfWrite]
  have := h t hc ha
  exact ⟨⟨Ext.refl hc, rfl⟩, ⟨this.1, rfl⟩, this⟩

theorem cfg_of_step_payload {g : Items} {w p : Bytes}
    (h : ∀ t, Clean t → Aw t → Ext t (spiStep kind n t (w ++ p)) ∧ g.le (spiStep kind n t (w ++ p)).items) :
    Cfg kind n (intfWriteWithPayload w p) g := by
  intro t hc ha
  rw [wp_intfWriteWithPayload]
  have := h t hc ha
  exact ⟨⟨Ext.refl hc, rfl⟩, ⟨this.1, rfl⟩, this⟩

theorem cfg_of_step_read {w : Bytes} {r : Nat} (h : ∀ t, Clean t → Aw t → Ext t (spiStep kind n t w)) :
    Cfg kind n (intfRead w r) {} := by
  intro t hc ha
  rw [wp_intfRead]
  have := h t hc ha
  exact ⟨⟨Ext.refl hc, rfl⟩, ⟨this, rfl⟩, fun _ => ⟨this, Items.none_le _⟩⟩

theorem cfg_of_step_readStatus {w : Bytes} {r : Nat} (h : ∀ t, Clean t → Aw t → Ext t (spiStep kind n t w)) :
    Cfg kind n (intfReadWithStatus w r) {} := by
  intro t hc ha
  have := h t hc ha
  exact wp_intfReadWithStatus kind n w r _ _ t ⟨Ext.refl hc, rfl⟩ ⟨this, rfl⟩ (fun _ => ⟨this, Items.none_le _⟩)

end

/-! ## read-out operations: the tracker stays where it is -/
section
variable (kind : Kind) (n : Needs)

/-- `p` never moves the tracker from `t`; its abnormal endings satisfy `A` -/
def RO (A : Abort → Prop) {α : Type} (p : Prog α) (t : ChipTrack) : Prop :=
  wp kind n p (fun _ t' => t' = t) (fun a t' => t' = t ∧ A a) t

variable {kind n} {A : Abort → Prop}

theorem RO.pure {α : Type} (a : α) (t : ChipTrack) : RO kind n A (Pure.pure a : Prog α) t := rfl
theorem RO.ret {α : Type} (a : α) (t : ChipTrack) : RO kind n A (Prog.ret a : Prog α) t := rfl
theorem RO.fail {α : Type} (e : RadioError) (t : ChipTrack) (h : A (.err e)) : RO kind n A (Prog.fail e : Prog α) t := ⟨rfl, h⟩
theorem RO.panic {α : Type} (s : String) (t : ChipTrack) (h : A .panic) : RO kind n A (Prog.panic s : Prog α) t := ⟨rfl, h⟩

theorem RO.bind {α β : Type} {p : Prog α} {f : α → Prog β} {t : ChipTrack} (h1 : RO kind n A p t) (h2 : ∀ a, RO kind n A (f a) t) :
    RO kind n A (p >>= f) t := by
  show wp kind n (Prog.bind p f) _ _ t
  rw [wp_bind]
  exact wp_mono _ _ _ h1 (fun a t1 hq => hq ▸ h2 a) (fun _ _ he => he)

theorem RO.ite {α : Type} {c : Prop} [Decidable c] {p q : Prog α} {t : ChipTrack} (h1 : RO kind n A p t) (h2 : RO kind n A q t) :
    RO kind n A (if c then p else q) t := by split <;> assumption

theorem RO.mono {α : Type} {A' : Abort → Prop} {p : Prog α} {t : ChipTrack} (h : RO kind n A p t) (ha : ∀ a, A a → A' a) :
    RO kind n A' p t := wp_mono _ _ _ h (fun _ _ hq => hq) (fun _ _ he => ⟨he.1, ha _ he.2⟩)

theorem RO.plain {r : Io} (hr : r = .busy ∨ r = .rfRx ∨ r = .rfTx ∨ r = .rfOff) (t : ChipTrack) (h : A (.err (errOf r))) :
    RO kind n A (Prog.req r) t := by
  unfold RO
  rw [wp_req_plain kind n hr]
  exact ⟨⟨rfl, h⟩, rfl⟩

theorem RO.write {w : Bytes} {t : ChipTrack} (hs : spiStep kind n t w = t) (h1 : A (.err .SPI)) (h2 : A (.err .Busy)) :
    RO kind n A (intfWrite w) t := by
  unfold RO; rw [wp_intfWrite, hs]; exact ⟨⟨rfl, h1⟩, ⟨rfl, h2⟩, rfl⟩

theorem RO.read {w : Bytes} {r : Nat} {t : ChipTrack} (hs : spiStep kind n t w = t) (h1 : A (.err .SPI)) (h2 : A (.err .Busy)) :
    RO kind n A (intfRead w r) t := by
  unfold RO; rw [wp_intfRead, hs]; exact ⟨⟨rfl, h1⟩, ⟨rfl, h2⟩, fun _ => rfl⟩

theorem RO.readStatus {w : Bytes} {r : Nat} {t : ChipTrack} (hs : spiStep kind n t w = t) (h1 : A (.err .SPI)) (h2 : A (.err .Busy)) :
    RO kind n A (intfReadWithStatus w r) t :=
  wp_intfReadWithStatus kind n w r _ _ t ⟨rfl, h1⟩ ⟨hs, h2⟩ (fun _ => hs)

theorem RO.readStatusE {w : Bytes} {r : Nat} {t : ChipTrack} (hs : spiStep kind n t w = t) :
    RO kind n A (intfReadWithStatusE w r) t := by
  simp only [RO, intfReadWithStatusE, wp, Io.isDelay, reduceCtorEq, false_implies, true_and, trackEv_spi, hs, trackEv_busy,
    forall_const, and_self]

theorem RO.readE {w : Bytes} {r : Nat} {t : ChipTrack} (hs : spiStep kind n t w = t) :
    RO kind n A (intfReadE w r) t := by
  simp only [RO, intfReadE, wp, Io.isDelay, reduceCtorEq, false_implies, true_and, trackEv_spi, hs, trackEv_busy,
    forall_const, and_self]

theorem RO.awaitIrq (t : ChipTrack) (h1 : A (.err .Irq)) (h2 : A .dropped) : RO kind n A (Prog.req .irq) t := by
  unfold RO; rw [wp_awaitIrq]; exact ⟨⟨rfl, h1⟩, ⟨rfl, h2⟩, rfl⟩

/-- `attempt` of a program that performs no I/O -/
theorem RO.attempt_noio {α : Type} {p : Prog α} (t : ChipTrack)
    (h : (∃ v, p = .ret v) ∨ (∃ e, p = .fail e) ∨ (∃ s, p = .panic s)) (hp : A .panic) :
    RO kind n A (attempt p) t := by
  rcases h with ⟨v, rfl⟩ | ⟨e, rfl⟩ | ⟨s, rfl⟩
  · exact rfl
  · exact rfl
  · exact ⟨rfl, hp⟩

/-- a configuration operation followed by anything -/
theorem wp_cfg_bind {α β : Type} {p : Prog α} {f : α → Prog β} {g : Items} (hp : Cfg kind n p g)
    {Q : β → ChipTrack → Prop} {E : Abort → ChipTrack → Prop} {t : ChipTrack} (hc : Clean t) (ha : Aw t)
    (hq : ∀ a t', Ext t t' → g.le t'.items → wp kind n (f a) Q E t') (he : ∀ a t', Ext t t' → a.infra → E a t') :
    wp kind n (p >>= f) Q E t := by
  show wp kind n (Prog.bind p f) _ _ t
  rw [wp_bind]
  exact wp_mono _ _ _ (hp t hc ha) (fun a t' h => hq a t' h.1 h.2) (fun a t' h => he a t' h.1 h.2)

end

/-! ## SX126x tracker steps -/

theorem pre126_aw {t : ChipTrack} (h : Aw t) (op : UInt8) : pre126 t op = t := by
  obtain ⟨h1, h2⟩ := h
  simp [pre126, h1, h2]

theorem step126_aw {n : Needs} {t : ChipTrack} (h : Aw t) (op : UInt8) (args : Bytes) :
    step126 n t (op :: args) = apply126 n t op args := by
  simp [step126, pre126_aw h]

/-- commands that neither put the chip to sleep nor start an operation -/
def benign126 : Cmd126 → Bool
  | .setSleep | .setTx | .setRx | .setRxDutyCycle | .setCad => false
  | _ => true

/-- the item a command programs -/
def gain126 (op : UInt8) (args : Bytes) : Items :=
  match decode126 op with
  | .packetType => { packetType := true }
  | .regulator => { regulator := true }
  | .tcxo => { tcxo := true }
  | .bufferBase => { bufferBase := true }
  | .modulation => { modulation := true }
  | .packet => { packet := true }
  | .irq => { irq := true }
  | .frequency => { frequency := true }
  | .pa => { pa := true }
  | .writeRegister =>
    match args with
    | 0x07 :: 0x40 :: _ => { syncWord := true }
    | _ => {}
  | _ => {}

theorem apply126_benign {n : Needs} {t : ChipTrack} (hc : Clean t) (op : UInt8) (args : Bytes)
    (hb : benign126 (decode126 op) = true) :
    Ext t (apply126 n t op args) ∧ (gain126 op args).le (apply126 n t op args).items := by
  obtain ⟨c1, c2⟩ := hc
  unfold apply126 gain126
  cases hd : decode126 op <;> simp [hd, benign126] at hb ⊢
  all_goals first
    | (split <;> simp [Ext, Clean, NNS, Items.le, c1, c2])
    | simp [Ext, Clean, NNS, Items.le, c1, c2]

theorem step126_benign {n : Needs} {t : ChipTrack} (hc : Clean t) (ha : Aw t) (op : UInt8) (args : Bytes)
    (hb : benign126 (decode126 op) = true) :
    Ext t (spiStep .sx126x n t (op :: args)) ∧ (gain126 op args).le (spiStep .sx126x n t (op :: args)).items := by
  show Ext t (step126 n t (op :: args)) ∧ _
  show _ ∧ (gain126 op args).le (step126 n t (op :: args)).items
  rw [step126_aw ha]
  exact apply126_benign hc op args hb

/-- SX126x: a write of a benign command -/
theorem cfg_write126 {n : Needs} (op : UInt8) (args : Bytes) (hb : benign126 (decode126 op) = true) :
    Cfg .sx126x n (intfWrite (op :: args)) (gain126 op args) :=
  cfg_of_step fun _ hc ha => step126_benign hc ha op args hb

theorem cfg_writeP126 {n : Needs} (op : UInt8) (args p : Bytes) (hb : benign126 (decode126 op) = true) :
    Cfg .sx126x n (intfWriteWithPayload (op :: args) p) (gain126 op (args ++ p)) :=
  cfg_of_step_payload fun _ hc ha => step126_benign hc ha op (args ++ p) hb

theorem cfg_read126 {n : Needs} (op : UInt8) (args : Bytes) (r : Nat) (hb : benign126 (decode126 op) = true) :
    Cfg .sx126x n (intfRead (op :: args) r) {} :=
  cfg_of_step_read fun _ hc ha => (step126_benign hc ha op args hb).1

theorem cfg_readStatus126 {n : Needs} (op : UInt8) (args : Bytes) (r : Nat) (hb : benign126 (decode126 op) = true) :
    Cfg .sx126x n (intfReadWithStatus (op :: args) r) {} :=
  cfg_of_step_readStatus fun _ hc ha => (step126_benign hc ha op args hb).1

end Model.Phy
