import LoraVerif.Model.FrameShape
import LoraVerif.Lemmas.MacCmdIter
/-! Totality lemmas for the structural frame-parser model (`Model/FrameShape.lean`), used by `Props/C03`. -/
namespace FrameShape
open MacCmd

theorem index_ok {s : String} {d : Bytes} {i : Nat} (h : i < d.length) : index s d i = .ok d[i] := by
  simp [index, h]
theorem exact_ok {s : String} {n : Nat} {d : Bytes} (h : d.length = n) : exact s n d = .ok d := by simp [exact, h]
theorem subU_ok {s : String} {a b : Nat} (h : b ≤ a) : subU s a b = .ok (a - b) := by simp [subU, h]

/-- what `Layout::validate` guarantees about a layout, relative to the buffer length `n` -/
structure LayoutOk (l : Layout) (n : Nat) : Prop where
  n12 : 12 ≤ n
  fhdr : 7 ≤ l.fhdrLen ∧ 1 + l.fhdrLen ≤ n - 4
  frmEnd : l.frmEnd = n - 4
  frm : l.frmStart ≤ l.frmEnd
  port : ∀ off, l.fPortOffset = some off → off = 1 + l.fhdrLen ∧ off < n - 4 ∧ l.frmStart = off + 1
  noport : l.fPortOffset = none → l.frmStart = 1 + l.fhdrLen

theorem validate_total (b : Bytes) : ∃ r, validate b = .ok r ∧ ∀ l, r = .ok l → LayoutOk l b.length := by
  unfold validate
  split
  · exact ⟨_, rfl, by intro l h; cases h⟩
  · rename_i h12
    rw [index_ok (by omega)]
    simp only [Outcome.ok_bind]
    split
    · exact ⟨_, rfl, by intro l h; cases h⟩
    · split
      · exact ⟨_, rfl, by intro l h; cases h⟩
      · rw [index_ok (by omega), subU_ok (by omega)]
        simp only [Outcome.ok_bind]
        split
        · exact ⟨_, rfl, by intro l h; cases h⟩
        · rename_i hfit
          split
          · refine ⟨_, rfl, ?_⟩
            intro l h; cases h
            refine ⟨by omega, ⟨by dsimp only; omega, by dsimp only; omega⟩, rfl, by dsimp only; omega, ?_, by simp⟩
            intro off ho; simp at ho; subst ho; simp; omega
          · refine ⟨_, rfl, ?_⟩
            intro l h; cases h
            refine ⟨by omega, ⟨by dsimp only; omega, by dsimp only; omega⟩, rfl, by dsimp only; omega, by simp, by simp⟩

macro "sl" : tactic => `(tactic| (rw [slice_ok ?_ ?_]; try simp only [Outcome.ok_bind]))
macro "sf" : tactic => `(tactic| (rw [sliceFrom_ok ?_]; try simp only [Outcome.ok_bind]))
macro "ix" : tactic => `(tactic| (rw [index_ok ?_]; try simp only [Outcome.ok_bind]))
macro "ex" : tactic => `(tactic| (rw [exact_ok ?_]; try simp only [Outcome.ok_bind]))
macro "su" : tactic => `(tactic| (rw [subU_ok ?_]; try simp only [Outcome.ok_bind]))
macro "lens" : tactic => `(tactic| (all_goals ((try simp only [List.length_take, List.length_drop] at *); omega)))

theorem helperBlockReads_ok {d : Bytes} (h : 5 ≤ d.length) : helperBlockReads d = .ok () := by
  unfold helperBlockReads
  ix; sl; ex
  lens

theorem dataAccessors_total {b : Bytes} {l : Layout} (ok : LayoutOk l b.length) : ∃ v, dataAccessors b l = .ok v := by
  obtain ⟨n12, ⟨f7, ffit⟩, hend, hfrm, hport, hnoport⟩ := ok
  unfold dataAccessors
  sl; sl; ex; ix; ix; ix; sf
  cases hp : l.fPortOffset with
  | none =>
    simp only [Outcome.ok_bind]
    su; sf; ix; ix; ix; ix; sl
    rw [helperBlockReads_ok ?_]; simp only [Outcome.ok_bind]
    sl
    exact ⟨_, rfl⟩
    lens
  | some off =>
    obtain ⟨h1, h2, h3⟩ := hport off hp
    simp only [Outcome.ok_bind]
    ix; su; sf; ix; ix; ix; ix; sl
    rw [helperBlockReads_ok ?_]; simp only [Outcome.ok_bind]
    sl
    exact ⟨_, rfl⟩
    lens
  lens

theorem encLoop_ok (bufLen start : Nat) : ∀ (rem i ctr : Nat), ctr = 1 + (i + 15) / 16 → start + i + rem ≤ bufLen →
    i + rem ≤ 4064 → ∃ c, encLoop bufLen start rem i ctr = .ok c := by
  intro rem
  induction rem with
  | zero => intro i ctr _ _ _; exact ⟨_, rfl⟩
  | succ rem ih =>
    intro i ctr hc hb hl
    have h15 : i &&& 0x0f = i % 16 := Nat.and_two_pow_sub_one_eq_mod i 4
    unfold encLoop
    rw [h15]
    by_cases hz : i % 16 = 0
    · rw [if_pos hz, if_pos (by omega)]
      simp only [Outcome.ok_bind]
      rw [if_pos (by omega)]
      exact ih (i + 1) (ctr + 1) (by omega) (by omega) (by omega)
    · rw [if_neg hz]
      simp only [Outcome.ok_bind]
      rw [if_pos (by omega)]
      exact ih (i + 1) ctr (by omega) (by omega) (by omega)

theorem decryptData_total {b : Bytes} (hlen : b.length ≤ 4076) (hasNwk hasApp : Bool) :
    ∃ r, decryptData b hasNwk hasApp = .ok r ∧ ∀ l, r = .ok l → LayoutOk l b.length := by
  obtain ⟨r, hr, hok⟩ := validate_total b
  unfold decryptData
  simp only [hr, Outcome.ok_bind]
  match r, hok with
  | .error e, _ => exact ⟨_, rfl, by intro l h; cases h⟩
  | .ok l, hok =>
    have ok := hok l rfl
    obtain ⟨n12, ⟨f7, ffit⟩, hend, hfrm, hport, hnoport⟩ := ok
    have hs : 8 ≤ l.frmStart := by
      cases hp : l.fPortOffset with
      | none => have := hnoport hp; omega
      | some off => have := hport off hp; omega
    by_cases hlt : l.frmStart < l.frmEnd
    · simp only [hlt, if_true]
      obtain ⟨c, hc⟩ := encLoop_ok b.length l.frmStart (l.frmEnd - l.frmStart) 0 1 (by omega) (by omega) (by omega)
      cases hp : l.fPortOffset with
      | none =>
        simp only [Outcome.ok_bind, Bool.false_eq_true, if_false]
        cases hasNwk
        · refine ⟨_, rfl, ?_⟩; intro l h; cases h
        · simp only [Bool.not_true, Bool.false_eq_true, if_false]
          ix; ix; su
          rw [helperBlockReads_ok ?_]; simp only [Outcome.ok_bind, hc]
          refine ⟨_, rfl, ?_⟩
          intro l' h; cases h; exact hok l rfl
          lens
      | some off =>
        obtain ⟨h1, h2, h3⟩ := hport off hp
        simp only [Outcome.ok_bind]
        ix
        generalize (if (b[off] != 0) = true then hasApp else hasNwk) = k
        cases k
        · refine ⟨_, rfl, ?_⟩; intro l h; cases h
        · simp only [Bool.not_true, Bool.false_eq_true, if_false]
          ix; ix; su
          rw [helperBlockReads_ok ?_]; simp only [Outcome.ok_bind, hc]
          refine ⟨_, rfl, ?_⟩
          intro l' h; cases h; exact hok l rfl
          lens
        lens
    · simp only [hlt, if_false]
      refine ⟨_, rfl, ?_⟩
      intro l' h; cases h; exact hok l rfl

theorem extractMic_ok {b : Bytes} (h : 4 ≤ b.length) : ∃ m, extractMic b = .ok m := by
  unfold extractMic
  su; sf; ex
  exact ⟨_, rfl⟩
  lens

theorem joinRequestAccessors_total {b : Bytes} (h : b.length = 23) : ∃ v, joinRequestAccessors b = .ok v := by
  obtain ⟨m, hm⟩ := extractMic_ok (b := b) (by omega)
  unfold joinRequestAccessors
  sl; ex; sl; ex; sl; ex
  simp only [hm, Outcome.ok_bind]
  sl
  exact ⟨_, rfl⟩
  lens

theorem parseJoinRequest_len {b : Bytes} (h : parseJoinRequest b = .ok ()) : b.length = 23 := by
  unfold parseJoinRequest at h
  split at h
  · cases h
  · split at h
    · assumption
    · cases h

theorem validateJoinAccept_len {b : Bytes} (h : validateJoinAccept b = .ok ()) : b.length = 17 ∨ b.length = 33 := by
  unfold validateJoinAccept at h
  split at h
  · cases h
  · split at h
    · cases h
    · omega

/-- `encrypt_block` works in place: the block keeps its 16 octets -/
def _root_.MacCmd.Cipher.LenPres (c : Cipher) : Prop := ∀ blk : Bytes, blk.length = 16 → (c.enc blk).length = 16

theorem encryptChunks_ok {c : Cipher} (hc : c.LenPres) : ∀ (fuel : Nat) (d : Bytes),
    ∃ r, encryptChunks c fuel d = .ok r ∧ r.length = d.length := by
  intro fuel
  induction fuel with
  | zero => intro d; exact ⟨_, rfl, rfl⟩
  | succ fuel ih =>
    intro d
    unfold encryptChunks
    split
    · exact ⟨_, rfl, rfl⟩
    · rename_i h16
      have ht : (d.take 16).length = 16 := by simp; omega
      obtain ⟨r, hr, hl⟩ := ih (d.drop 16)
      simp only [Cipher.encryptBlock, ht, if_true, Outcome.ok_bind, hr]
      refine ⟨_, rfl, ?_⟩
      have := hc _ ht
      simp only [List.length_append, this, hl, List.length_drop]; omega

theorem decryptJoinAccept_total {c : Cipher} (hc : c.LenPres) (b : Bytes) :
    ∃ r, decryptJoinAccept c b = .ok r ∧ ∀ b', r = .ok b' → b'.length = b.length ∧ (b.length = 17 ∨ b.length = 33) := by
  unfold decryptJoinAccept
  split
  · exact ⟨_, rfl, by intro b' h; cases h⟩
  · rename_i hv
    have hl := validateJoinAccept_len hv
    obtain ⟨r, hr, hrl⟩ := encryptChunks_ok hc ((b.drop 1).length + 1) (b.drop 1)
    ix; sf
    simp only [hr, Outcome.ok_bind]
    refine ⟨_, rfl, ?_⟩
    intro b' h; cases h
    simp [hrl]; omega
    lens

theorem cfFreqs_ok : ∀ (k : Nat) (d : Bytes), ∃ r, cfFreqs k d = .ok r := by
  intro k
  induction k with
  | zero => intro d; exact ⟨_, rfl⟩
  | succ k ih =>
    intro d
    unfold cfFreqs
    split
    · exact ⟨_, rfl⟩
    · obtain ⟨r, hr⟩ := ih (d.drop 3)
      ex
      simp only [hr, Outcome.ok_bind]
      exact ⟨_, rfl⟩
      simp; omega

theorem joinAcceptAccessors_total {b : Bytes} (h : b.length = 17 ∨ b.length = 33) : ∃ v, joinAcceptAccessors b = .ok v := by
  obtain ⟨m, hm⟩ := extractMic_ok (b := b) (by omega)
  unfold joinAcceptAccessors
  sl; ex; sl; ex; sl; ex; ix; ix
  by_cases h17 : b.length = 17
  · rw [if_pos h17]
    simp only [hm, Outcome.ok_bind]
    su; sl
    exact ⟨_, rfl⟩
    lens
  · rw [if_neg h17]
    have h33 : b.length = 33 := by omega
    sl; ix
    obtain ⟨fs, hfs⟩ := cfFreqs_ok 5 ((b.drop 13).take (29 - 13))
    split
    · simp only [hfs, Outcome.ok_bind, hm]
      su; sl
      exact ⟨_, rfl⟩
      lens
    · split
      · sl; sl
        simp only [hm, Outcome.ok_bind]
        su; sl
        exact ⟨_, rfl⟩
        lens
      · simp only [hm, Outcome.ok_bind]
        su; sl
        exact ⟨_, rfl⟩
        lens
    lens
  lens

end FrameShape
