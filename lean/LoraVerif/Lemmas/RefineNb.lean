import LoraVerif.Lemmas.RefineOps
import LoraVerif.Lemmas.MacWFStep
/-!
# The non-blocking front-end refines the history semantics

`nbStep` (`Model/NbDevice.lean`) is a state machine over application / radio / timer events.  One
*exchange* runs from `Idle` (a `send` or `join` event) through `SendingData`, `WaitingForRxWindow`,
`WaitingForRx` (twice) back to `Idle`.  This file shows, for EVERY sequence of events and radio
answers — protocol violations answered with `Err(State: …)`, radio errors, `TxDone` delivered at once,
several frames in one window, stray timeouts —:

* `nbStep_inv`: an invariant `NbInv` ties the state machine to the history: while an exchange is in
  progress the MAC state is the one `Mac::send` / `Mac::join_otaa` left (every frame handled so far was
  answered `NoUpdate`, which changes nothing: `macHandleRx_noUpdate_state`), and when the exchange
  completes — a response in RX1 or RX2, the RX2 timeout, or the radio refusing the transmission — the MAC
  state, generator state and response are those of `History.step` on ONE event `uplink` / `joinOtaa`
  (`nbAbs`): the last frame heard in each window, no fault (or "after 0 windows" for a refused
  transmission), the payload limits of the windows the MAC handed out;
* `nbStep_state_error`: an event answered with `Err(State: …)` (other than the refused
  transmission) changes nothing at all;
* `nbRun_refines`: by induction, every event sequence from `Idle` refines `History.run` on the
  list of the completed exchanges' events.
-/
set_option linter.unusedSimpArgs false
namespace Model

/-! ## sessions of the non-blocking front-end -/

/-- one event, with the answers of the radio to the calls it causes -/
def nbEvent {σ} (g : Rng σ) (cfg : NbCfg) (r : NbRun) (rs : σ) (ev : NbEvent) (items : List NbItem) : M (NbResp × NbRun × σ) :=
  nbStep g cfg { r with script := items } ev rs

/-- the exchange in progress, as far as the history will need it -/
structure NbGhost where
  /-- `none`: a join; `some (data, port, confirmed)`: a data uplink -/
  kind : Option (List Nat × Nat × Bool)
  /-- the last frame handled in RX1 / RX2 -/
  rx1 : Option (RxView × Int)
  rx2 : Option (RxView × Int)
  deriving Repr

def NbItem.handled : NbItem → Bool
  | .err => false
  | .idle => false
  | _ => true

def headItem : List NbItem → NbItem
  | [] => .dflt
  | i :: _ => i

def NbState.isIdle : NbState → Bool
  | .idle => true
  | _ => false

/-- the event of the exchange `gh` that just completed without a fault -/
def ghostEv (gh : NbGhost) (tx : TxOut) : Ev :=
  match gh.kind with
  | some (d, p, c) => .uplink d p c none gh.rx1 gh.rx2 tx.rx1.maxPayload.toNat tx.rx2.maxPayload.toNat
  | none => .joinOtaa none gh.rx1 gh.rx2 tx.rx1.maxPayload.toNat tx.rx2.maxPayload.toNat

def NbGhost.heard (gh : NbGhost) (second : Bool) (f : RxView × Int) : NbGhost :=
  if second then { gh with rx2 := some f } else { gh with rx1 := some f }

/-- **the abstraction, event by event**: from the exchange in progress, the state before, the event,
the radio's (first) answer and the state after — the history event of the exchange if it completed
here, and the exchange still in progress -/
def nbAbs (gh : Option NbGhost) (st : NbState) (ev : NbEvent) (item : NbItem) (st' : NbState) : Option Ev × Option NbGhost :=
  match st, ev with
  | .idle, .send d p c =>
    if st'.isIdle then (some (.uplink d p c (some 0) none none 0 0), none)
    else (none, some { kind := some (d, p, c), rx1 := none, rx2 := none })
  | .idle, .join =>
    if st'.isIdle then (some (.joinOtaa (some 0) none none 0 0), none)
    else (none, some { kind := none, rx1 := none, rx2 := none })
  | .waitingForRx _ tx second _, .radio (.rx snr v) =>
    if item.handled then
      match gh with
      | some gh =>
        if st'.isIdle then (some (ghostEv (gh.heard second (v, snr)) tx), none) else (none, some (gh.heard second (v, snr)))
      | none => (none, none)
    else (none, gh)
  | .waitingForRx _ tx _ _, .timeout =>
    match gh with
    | some gh => if st'.isIdle then (some (ghostEv gh tx), none) else (none, some gh)
    | none => (none, none)
  | _, _ => (none, gh)

/-- how the exchange in progress began -/
def Started {σ} (g : Rng σ) (pre : MacState × σ) (kind : Option (List Nat × Nat × Bool)) (join : Bool) (tx : TxOut)
    (m1 : MacState) (rs : σ) : Prop :=
  match kind with
  | some (d, p, c) => join = false ∧ ∃ o, macSend g pre.1 d p c pre.2 = .ok (some o, m1, rs) ∧ o.tx = tx
  | none => join = true ∧ ∃ o, macJoinOtaa g pre.1 pre.2 = .ok (o, m1, rs) ∧ o.tx = tx

/-- the exchange in progress: it began at `pre`, and every frame handled since was answered `NoUpdate` -/
def InFlight {σ} (g : Rng σ) (pre : MacState × σ) (gh : Option NbGhost) (join : Bool) (tx : TxOut) (second : Bool)
    (m : MacState) (rs : σ) : Prop :=
  ∃ k rx1 rx2, gh = some { kind := k, rx1 := rx1, rx2 := rx2 } ∧ Started g pre k join tx m rs ∧
    window m rx1 tx.rx1.maxPayload.toNat = .ok (none, m) ∧ window m rx2 tx.rx2.maxPayload.toNat = .ok (none, m) ∧
    (second = false → rx2 = none)

/-- **the invariant**: `pre` is the state of the history (all completed exchanges), `gh` the
exchange in progress -/
def NbInv {σ} (g : Rng σ) (pre : MacState × σ) (gh : Option NbGhost) (r : NbRun) (rs : σ) : Prop :=
  match r.st with
  | .idle => gh = none ∧ pre = (r.m, rs)
  | .sendingData join tx => InFlight g pre gh join tx false r.m rs ∧ ∀ x, gh = some x → x.rx1 = none
  | .waitingForRxWindow join tx second _ => InFlight g pre gh join tx second r.m rs
  | .waitingForRx join tx second _ => InFlight g pre gh join tx second r.m rs

/-- the state machine's answer against the output of the completed exchange's event -/
def NbRespRel (resp : NbResp) : Out → Prop
  | .notJoined => resp = .errMac
  | .up _ (some r) _ => resp = .mac r
  | .up _ none _ => resp = .errRadio ∨ resp = .errState "UnexpectedRadioResponse"
  | .join _ (some r) => resp = .mac r
  | .join _ none => resp = .errRadio ∨ resp = .errState "UnexpectedRadioResponse"
  | _ => False

/-- what one event establishes -/
def NbStepPost {σ} (g : Rng σ) (pre : MacState × σ) (r r' : NbRun) (rs' : σ) (resp : NbResp) :
    Option Ev × Option NbGhost → Prop
  | (none, gh') => NbInv g pre gh' r' rs' ∧ r'.downlinks = r.downlinks
  | (some e, gh') => ∃ out, step g pre e = .ok ((r'.m, rs'), out) ∧ NbInv g (r'.m, rs') gh' r' rs' ∧ NbRespRel resp out ∧
      r'.downlinks = queueAfter r.dlCap r.downlinks out.downlink?

theorem next_eq (r : NbRun) (c : NbCall) :
    r.next c = (headItem r.script, { r with calls := c :: r.calls, script := r.script.tail }) := by
  unfold NbRun.next headItem
  cases r.script <;> rfl

/-- nothing the invariant looks at moved -/
theorem NbInv.same {σ} {g : Rng σ} {pre : MacState × σ} {gh : Option NbGhost} {r r' : NbRun} {rs : σ}
    (h : NbInv g pre gh r rs) (hm : r'.m = r.m) (hst : r'.st = r.st) : NbInv g pre gh r' rs := by
  unfold NbInv at h ⊢
  rw [hst, hm]; exact h

theorem faultAfterTx_otaa (m : MacState) (o : OtaaState) (h : m.st = .otaa o) :
    faultAfterTx m = m ∧ faultExpired m = false := by
  unfold faultAfterTx faultExpired macRx2Complete
  simp [h]

theorem window_none (m : MacState) (mp : Nat) : window m none mp = .ok (none, m) := rfl

theorem nbStep_idle {σ} (g : Rng σ) (cfg : NbCfg) (pre : MacState × σ) (gh : Option NbGhost) (r : NbRun) (rs : σ)
    (ev : NbEvent) (items : List NbItem) (resp : NbResp) (r' : NbRun) (rs' : σ) (hst : r.st = .idle)
    (hinv : NbInv g pre gh r rs) (h : nbEvent g cfg r rs ev items = .ok (resp, r', rs')) :
    NbStepPost g pre r r' rs' resp (nbAbs gh r.st ev (headItem items) r'.st) := by
  have hi : gh = none ∧ pre = (r.m, rs) := by unfold NbInv at hinv; rw [hst] at hinv; exact hinv
  obtain ⟨rfl, rfl⟩ := hi
  unfold nbEvent nbStep at h
  simp only [hst] at h
  rw [hst]
  cases ev with
  | timeout =>
    simp only [pure, Except.pure, Except.ok.injEq, Prod.mk.injEq] at h
    obtain ⟨rfl, rfl, rfl⟩ := h
    exact ⟨hinv.same rfl hst.symm, rfl⟩
  | radio e =>
    simp only [pure, Except.pure, Except.ok.injEq, Prod.mk.injEq] at h
    obtain ⟨rfl, rfl, rfl⟩ := h
    exact ⟨hinv.same rfl hst.symm, rfl⟩
  | join =>
    obtain ⟨⟨out, m1, rs1⟩, hjoin, hk⟩ := Except.bind_eq_ok h
    clear h
    obtain ⟨⟨resp1, r1⟩, hidle, hk2⟩ := Except.bind_eq_ok hk
    clear hk
    obtain ⟨dr, txc, region', pw, rx1c, rx2c, _, _, hm1, _, _⟩ := macJoinOtaa_ok g r.m rs rs1 out m1 hjoin
    simp only [pure, Except.pure, Except.ok.injEq, Prod.mk.injEq] at hk2
    obtain ⟨rfl, rfl, rfl⟩ := hk2
    have hot : m1.st = .otaa { devNonce := (draw g rs).1 % 65536 } := by rw [hm1]
    unfold idleTx at hidle
    simp only [next_eq] at hidle
    cases hit : headItem items with
    | dflt =>
      simp only [hit, pure, Except.pure, Except.ok.injEq, Prod.mk.injEq] at hidle
      obtain ⟨rfl, rfl⟩ := hidle
      simp only [nbAbs, NbState.isIdle, Bool.false_eq_true, if_false, NbStepPost]
      refine ⟨?_, by first | rfl | trivial⟩
      unfold NbInv
      exact ⟨⟨none, none, none, rfl, ⟨rfl, out, hjoin, rfl⟩, window_none _ _, window_none _ _, fun _ => rfl⟩, fun x hx => by cases hx; rfl⟩
    | txDoneNow ts =>
      simp only [hit, afterTxDone] at hidle
      obtain ⟨t1, _, hidle⟩ := Except.bind_eq_ok hidle
      simp only [pure, Except.pure, Except.ok.injEq, Prod.mk.injEq] at hidle
      obtain ⟨rfl, rfl⟩ := hidle
      simp only [nbAbs, NbState.isIdle, Bool.false_eq_true, if_false, NbStepPost]
      refine ⟨?_, by first | rfl | trivial⟩
      unfold NbInv
      exact ⟨none, none, none, rfl, ⟨rfl, out, hjoin, rfl⟩, window_none _ _, window_none _ _, fun _ => rfl⟩
    | idle =>
      simp only [hit, pure, Except.pure, Except.ok.injEq, Prod.mk.injEq] at hidle
      obtain ⟨rfl, rfl⟩ := hidle
      obtain ⟨hf1, hf2⟩ := faultAfterTx_otaa m1 _ hot
      simp only [hst, nbAbs, NbState.isIdle, if_true, NbStepPost]
      refine ⟨.join out none, ?_, ?_, ?_, ?_⟩
      · simp only [step, hjoin, faultedCycle, hf1, bind, Except.bind, pure, Except.pure]
      · unfold NbInv; simp only [hst]; exact ⟨by first | rfl | trivial, by first | rfl | trivial⟩
      · simp only [hf2, Bool.false_eq_true, if_false, NbRespRel]; exact Or.inr (by first | rfl | trivial)
      · first | rfl | trivial
    | err =>
      simp only [hit, pure, Except.pure, Except.ok.injEq, Prod.mk.injEq] at hidle
      obtain ⟨rfl, rfl⟩ := hidle
      obtain ⟨hf1, hf2⟩ := faultAfterTx_otaa m1 _ hot
      simp only [hst, nbAbs, NbState.isIdle, if_true, NbStepPost]
      refine ⟨.join out none, ?_, ?_, ?_, ?_⟩
      · simp only [step, hjoin, faultedCycle, hf1, bind, Except.bind, pure, Except.pure]
      · unfold NbInv; simp only [hst]; exact ⟨by first | rfl | trivial, by first | rfl | trivial⟩
      · simp only [hf2, Bool.false_eq_true, if_false, NbRespRel]; exact Or.inl (by first | rfl | trivial)
      · first | rfl | trivial
  | send data port conf =>
    obtain ⟨⟨o, m1, rs1⟩, hsend, hk⟩ := Except.bind_eq_ok h
    clear h
    cases o with
    | none =>
      simp only [pure, Except.pure, Except.ok.injEq, Prod.mk.injEq] at hk
      obtain ⟨rfl, rfl, rfl⟩ := hk
      simp only [hst, nbAbs, NbState.isIdle, if_true, NbStepPost]
      refine ⟨.notJoined, ?_, ?_, by first | rfl | trivial, by first | rfl | trivial⟩
      · simp only [step, hsend, bind, Except.bind, pure, Except.pure]
      · unfold NbInv; simp only [hst]; exact ⟨by first | rfl | trivial, by first | rfl | trivial⟩
    | some out =>
      simp only at hk
      obtain ⟨⟨resp1, r1⟩, hidle, hk2⟩ := Except.bind_eq_ok hk
      clear hk
      simp only [pure, Except.pure, Except.ok.injEq, Prod.mk.injEq] at hk2
      obtain ⟨rfl, rfl, rfl⟩ := hk2
      unfold idleTx at hidle
      simp only [next_eq] at hidle
      cases hit : headItem items with
      | dflt =>
        simp only [hit, pure, Except.pure, Except.ok.injEq, Prod.mk.injEq] at hidle
        obtain ⟨rfl, rfl⟩ := hidle
        simp only [nbAbs, NbState.isIdle, Bool.false_eq_true, if_false, NbStepPost]
        refine ⟨?_, by first | rfl | trivial⟩
        unfold NbInv
        exact ⟨⟨some (data, port, conf), none, none, rfl, ⟨rfl, out, hsend, rfl⟩, window_none _ _, window_none _ _, fun _ => rfl⟩,
          fun x hx => by cases hx; rfl⟩
      | txDoneNow ts =>
        simp only [hit, afterTxDone] at hidle
        obtain ⟨t1, _, hidle⟩ := Except.bind_eq_ok hidle
        simp only [pure, Except.pure, Except.ok.injEq, Prod.mk.injEq] at hidle
        obtain ⟨rfl, rfl⟩ := hidle
        simp only [nbAbs, NbState.isIdle, Bool.false_eq_true, if_false, NbStepPost]
        refine ⟨?_, by first | rfl | trivial⟩
        unfold NbInv
        exact ⟨some (data, port, conf), none, none, rfl, ⟨rfl, out, hsend, rfl⟩, window_none _ _, window_none _ _, fun _ => rfl⟩
      | idle =>
        simp only [hit, pure, Except.pure, Except.ok.injEq, Prod.mk.injEq] at hidle
        obtain ⟨rfl, rfl⟩ := hidle
        simp only [hst, nbAbs, NbState.isIdle, if_true, NbStepPost]
        refine ⟨.up out (if faultExpired m1 then some .sessionExpired else none) none, ?_, ?_, ?_, by first | rfl | trivial⟩
        · simp only [step, hsend, faultedCycle, bind, Except.bind, pure, Except.pure]
        · unfold NbInv; simp only [hst]; exact ⟨by first | rfl | trivial, by first | rfl | trivial⟩
        · by_cases hx : faultExpired m1 = true
          · simp only [hx, if_true, NbRespRel]
          · simp only [hx, Bool.false_eq_true, if_false, NbRespRel]; exact Or.inr (by first | rfl | trivial)
      | err =>
        simp only [hit, pure, Except.pure, Except.ok.injEq, Prod.mk.injEq] at hidle
        obtain ⟨rfl, rfl⟩ := hidle
        simp only [hst, nbAbs, NbState.isIdle, if_true, NbStepPost]
        refine ⟨.up out (if faultExpired m1 then some .sessionExpired else none) none, ?_, ?_, ?_, by first | rfl | trivial⟩
        · simp only [step, hsend, faultedCycle, bind, Except.bind, pure, Except.pure]
        · unfold NbInv; simp only [hst]; exact ⟨by first | rfl | trivial, by first | rfl | trivial⟩
        · by_cases hx : faultExpired m1 = true
          · simp only [hx, if_true, NbRespRel]
          · simp only [hx, Bool.false_eq_true, if_false, NbRespRel]; exact Or.inl (by first | rfl | trivial)

theorem nbStep_sending {σ} (g : Rng σ) (cfg : NbCfg) (pre : MacState × σ) (gh : Option NbGhost) (r : NbRun) (rs : σ)
    (ev : NbEvent) (items : List NbItem) (resp : NbResp) (r' : NbRun) (rs' : σ) (join : Bool) (tx : TxOut)
    (hst : r.st = .sendingData join tx)
    (hinv : NbInv g pre gh r rs) (h : nbEvent g cfg r rs ev items = .ok (resp, r', rs')) :
    NbStepPost g pre r r' rs' resp (nbAbs gh r.st ev (headItem items) r'.st) := by
  have hi : InFlight g pre gh join tx false r.m rs := by unfold NbInv at hinv; rw [hst] at hinv; exact hinv.1
  unfold nbEvent nbStep at h
  simp only [hst] at h
  have hab : ∀ st', nbAbs gh r.st ev (headItem items) st' = (none, gh) := by
    intro st'; rw [hst]; cases ev <;> rfl
  rw [hab]
  cases ev with
  | timeout =>
    simp only [pure, Except.pure, Except.ok.injEq, Prod.mk.injEq] at h
    obtain ⟨rfl, rfl, rfl⟩ := h
    exact ⟨hinv.same rfl hst.symm, rfl⟩
  | join =>
    simp only [pure, Except.pure, Except.ok.injEq, Prod.mk.injEq] at h
    obtain ⟨rfl, rfl, rfl⟩ := h
    exact ⟨hinv.same rfl hst.symm, rfl⟩
  | send d p c =>
    simp only [pure, Except.pure, Except.ok.injEq, Prod.mk.injEq] at h
    obtain ⟨rfl, rfl, rfl⟩ := h
    exact ⟨hinv.same rfl hst.symm, rfl⟩
  | radio e =>
    simp only [next_eq] at h
    cases hit : headItem items with
    | err =>
      simp only [hit, pure, Except.pure, Except.ok.injEq, Prod.mk.injEq] at h
      obtain ⟨rfl, rfl, rfl⟩ := h
      exact ⟨hinv.same rfl hst.symm, rfl⟩
    | idle =>
      simp only [hit] at h
      cases h
    | dflt =>
      simp only [hit] at h
      cases e with
      | rx snr v => cases h
      | txDone ts =>
        simp only [afterTxDone] at h
        obtain ⟨⟨resp1, r1⟩, h1, hk⟩ := Except.bind_eq_ok h
        obtain ⟨t1, _, h1⟩ := Except.bind_eq_ok h1
        simp only [pure, Except.pure, Except.ok.injEq, Prod.mk.injEq] at h1 hk
        obtain ⟨rfl, rfl⟩ := h1
        obtain ⟨rfl, rfl, rfl⟩ := hk
        refine ⟨?_, rfl⟩
        unfold NbInv
        exact hi
    | txDoneNow ts0 =>
      simp only [hit] at h
      cases e with
      | rx snr v => cases h
      | txDone ts =>
        simp only [afterTxDone] at h
        obtain ⟨⟨resp1, r1⟩, h1, hk⟩ := Except.bind_eq_ok h
        obtain ⟨t1, _, h1⟩ := Except.bind_eq_ok h1
        simp only [pure, Except.pure, Except.ok.injEq, Prod.mk.injEq] at h1 hk
        obtain ⟨rfl, rfl⟩ := h1
        obtain ⟨rfl, rfl, rfl⟩ := hk
        refine ⟨?_, rfl⟩
        unfold NbInv
        exact hi

theorem nbStep_waitWindow {σ} (g : Rng σ) (cfg : NbCfg) (pre : MacState × σ) (gh : Option NbGhost) (r : NbRun) (rs : σ)
    (ev : NbEvent) (items : List NbItem) (resp : NbResp) (r' : NbRun) (rs' : σ) (join : Bool) (tx : TxOut) (second : Bool)
    (t : Nat) (hst : r.st = .waitingForRxWindow join tx second t)
    (hinv : NbInv g pre gh r rs) (h : nbEvent g cfg r rs ev items = .ok (resp, r', rs')) :
    NbStepPost g pre r r' rs' resp (nbAbs gh r.st ev (headItem items) r'.st) := by
  have hi : InFlight g pre gh join tx second r.m rs := by unfold NbInv at hinv; rw [hst] at hinv; exact hinv
  unfold nbEvent nbStep at h
  simp only [hst] at h
  have hab : ∀ st', nbAbs gh r.st ev (headItem items) st' = (none, gh) := by
    intro st'; rw [hst]; cases ev <;> rfl
  rw [hab]
  cases ev with
  | radio e =>
    simp only [pure, Except.pure, Except.ok.injEq, Prod.mk.injEq] at h
    obtain ⟨rfl, rfl, rfl⟩ := h
    exact ⟨hinv.same rfl hst.symm, rfl⟩
  | join =>
    simp only [pure, Except.pure, Except.ok.injEq, Prod.mk.injEq] at h
    obtain ⟨rfl, rfl, rfl⟩ := h
    exact ⟨hinv.same rfl hst.symm, rfl⟩
  | send d p c =>
    simp only [pure, Except.pure, Except.ok.injEq, Prod.mk.injEq] at h
    obtain ⟨rfl, rfl, rfl⟩ := h
    exact ⟨hinv.same rfl hst.symm, rfl⟩
  | timeout =>
    simp only [next_eq] at h
    by_cases hit : headItem items = .err
    · simp only [hit, pure, Except.pure, Except.ok.injEq, Prod.mk.injEq] at h
      obtain ⟨rfl, rfl, rfl⟩ := h
      exact ⟨hinv.same rfl hst.symm, rfl⟩
    · have h2 : r'.m = r.m ∧ r'.st = .waitingForRx join tx second t ∧ rs' = rs ∧ r'.downlinks = r.downlinks := by
        cases hh : headItem items with
        | err => exact absurd hh hit
        | dflt =>
          simp only [hh] at h
          obtain ⟨close, _, h⟩ := Except.bind_eq_ok h
          simp only [pure, Except.pure, Except.ok.injEq, Prod.mk.injEq] at h
          obtain ⟨_, rfl, rfl⟩ := h
          exact ⟨rfl, rfl, rfl, rfl⟩
        | idle =>
          simp only [hh] at h
          obtain ⟨close, _, h⟩ := Except.bind_eq_ok h
          simp only [pure, Except.pure, Except.ok.injEq, Prod.mk.injEq] at h
          obtain ⟨_, rfl, rfl⟩ := h
          exact ⟨rfl, rfl, rfl, rfl⟩
        | txDoneNow ts =>
          simp only [hh] at h
          obtain ⟨close, _, h⟩ := Except.bind_eq_ok h
          simp only [pure, Except.pure, Except.ok.injEq, Prod.mk.injEq] at h
          obtain ⟨_, rfl, rfl⟩ := h
          exact ⟨rfl, rfl, rfl, rfl⟩
      obtain ⟨hm, hs', rfl, hd⟩ := h2
      refine ⟨?_, hd⟩
      unfold NbInv
      rw [hs', hm]
      exact hi

theorem classACycle_rx1 {m m' : MacState} {rx1 rx2 : Option (RxView × Int)} {mp1 mp2 : Nat} {o : RxOut}
    (h : window m rx1 mp1 = .ok (some o, m')) : classACycle m rx1 rx2 mp1 mp2 = .ok (o.resp, o.downlink, m') := by
  simp only [classACycle, h, bind, Except.bind, pure, Except.pure]

theorem classACycle_rx2 {m m1 m' : MacState} {rx1 rx2 : Option (RxView × Int)} {mp1 mp2 : Nat} {o : RxOut}
    (h1 : window m rx1 mp1 = .ok (none, m1)) (h2 : window m1 rx2 mp2 = .ok (some o, m')) :
    classACycle m rx1 rx2 mp1 mp2 = .ok (o.resp, o.downlink, m') := by
  simp only [classACycle, h1, h2, bind, Except.bind, pure, Except.pure]

theorem classACycle_timeout {m m1 m2 : MacState} {rx1 rx2 : Option (RxView × Int)} {mp1 mp2 : Nat}
    (h1 : window m rx1 mp1 = .ok (none, m1)) (h2 : window m1 rx2 mp2 = .ok (none, m2)) :
    classACycle m rx1 rx2 mp1 mp2 = .ok ((macRx2Complete m2).1, none, (macRx2Complete m2).2) := by
  simp only [classACycle, h1, h2, bind, Except.bind, pure, Except.pure]

/-- the completed exchange is one history step -/
theorem step_ghostEv {σ} (g : Rng σ) (pre : MacState × σ) (k : Option (List Nat × Nat × Bool)) (join : Bool) (tx : TxOut)
    (m1 m' : MacState) (rs : σ) (rx1 rx2 : Option (RxView × Int)) (resp : Response) (dl : Option (Nat × List Nat))
    (hs : Started g pre k join tx m1 rs)
    (hc : classACycle m1 rx1 rx2 tx.rx1.maxPayload.toNat tx.rx2.maxPayload.toNat = .ok (resp, dl, m')) :
    ∃ out, step g pre (ghostEv { kind := k, rx1 := rx1, rx2 := rx2 } tx) = .ok ((m', rs), out) ∧
      NbRespRel (.mac resp) out ∧ out.downlink? = dl := by
  cases k with
  | some dpc =>
    obtain ⟨d, p, c⟩ := dpc
    obtain ⟨_, o, hsend, rfl⟩ := hs
    refine ⟨.up o (some resp) dl, ?_, rfl, rfl⟩
    simp only [ghostEv, step, hsend, hc, bind, Except.bind, pure, Except.pure]
  | none =>
    obtain ⟨_, o, hjoin, rfl⟩ := hs
    obtain ⟨dr, txc, region', pw, r1, r2, _, _, hm1, _, _⟩ := macJoinOtaa_ok g pre.1 pre.2 rs o m1 hjoin
    have hst : m1.st = .otaa { devNonce := (draw g pre.2).1 % 65536 } := by rw [hm1]
    have hdl : dl = none := by
      rw [classACycle_otaa m1 _ hst] at hc
      split at hc
      · obtain ⟨m2, _, hc⟩ := Except.bind_eq_ok hc
        simp only [pure, Except.pure, Except.ok.injEq, Prod.mk.injEq] at hc
        exact hc.2.1.symm
      · simp only [pure, Except.pure, Except.ok.injEq, Prod.mk.injEq] at hc
        exact hc.2.1.symm
    subst hdl
    refine ⟨.join o (some resp), ?_, rfl, rfl⟩
    simp only [ghostEv, step, hjoin, hc, bind, Except.bind, pure, Except.pure]

theorem nbStep_waitRx {σ} (g : Rng σ) (cfg : NbCfg) (pre : MacState × σ) (gh : Option NbGhost) (r : NbRun) (rs : σ)
    (ev : NbEvent) (items : List NbItem) (resp : NbResp) (r' : NbRun) (rs' : σ) (join : Bool) (tx : TxOut) (second : Bool)
    (t : Nat) (hst : r.st = .waitingForRx join tx second t)
    (hinv : NbInv g pre gh r rs) (h : nbEvent g cfg r rs ev items = .ok (resp, r', rs')) :
    NbStepPost g pre r r' rs' resp (nbAbs gh r.st ev (headItem items) r'.st) := by
  have hi : InFlight g pre gh join tx second r.m rs := by unfold NbInv at hinv; rw [hst] at hinv; exact hinv
  obtain ⟨k, rx1, rx2, hgh, hstart, hw1, hw2, hsec⟩ := hi
  subst hgh
  unfold nbEvent nbStep at h
  simp only [hst] at h
  rw [hst]
  cases ev with
  | join =>
    simp only [pure, Except.pure, Except.ok.injEq, Prod.mk.injEq] at h
    obtain ⟨rfl, rfl, rfl⟩ := h
    exact ⟨hinv.same rfl hst.symm, rfl⟩
  | send d p c =>
    simp only [pure, Except.pure, Except.ok.injEq, Prod.mk.injEq] at h
    obtain ⟨rfl, rfl, rfl⟩ := h
    exact ⟨hinv.same rfl hst.symm, rfl⟩
  | timeout =>
    simp only [next_eq] at h
    by_cases hit : headItem items = .err
    · simp only [hit, pure, Except.pure, Except.ok.injEq, Prod.mk.injEq] at h
      obtain ⟨rfl, rfl, rfl⟩ := h
      simp only [nbAbs, NbState.isIdle, Bool.false_eq_true, if_false, NbStepPost]
      exact ⟨hinv.same rfl hst.symm, by first | rfl | trivial⟩
    · have h2 : (if second then
            (pure (NbResp.mac (macRx2Complete r.m).1,
              ({ m := (macRx2Complete r.m).2, st := .idle, script := items.tail, calls := NbCall.cancelRx :: r.calls,
                 downlinks := r.downlinks, dlCap := r.dlCap } : NbRun), rs) : M (NbResp × NbRun × σ))
          else do
            let between ← u32Sub (macRxDelay r.m join true) (macRxDelay r.m join false)
            let t2 ← u32Add t between
            pure (NbResp.timeoutRequest t2,
              ({ m := r.m, st := .waitingForRxWindow join tx true t2, script := items.tail, calls := NbCall.cancelRx :: r.calls,
                 downlinks := r.downlinks, dlCap := r.dlCap } : NbRun), rs)) = .ok (resp, r', rs') := by
        cases hh : headItem items with
        | err => exact absurd hh hit
        | dflt => simp only [hh] at h; exact h
        | idle => simp only [hh] at h; exact h
        | txDoneNow ts => simp only [hh] at h; exact h
      clear h
      cases second with
      | true =>
        simp only [if_true, pure, Except.pure, Except.ok.injEq, Prod.mk.injEq] at h2
        obtain ⟨rfl, rfl, rfl⟩ := h2
        simp only [nbAbs, NbState.isIdle, if_true, NbStepPost]
        obtain ⟨out, hstep, hresp, hdl⟩ := step_ghostEv g pre k join tx r.m _ rs rx1 rx2 _ _ hstart (classACycle_timeout hw1 hw2)
        refine ⟨out, hstep, ?_, hresp, ?_⟩
        · unfold NbInv; exact ⟨rfl, rfl⟩
        · rw [hdl]; rfl
      | false =>
        simp only [Bool.false_eq_true, if_false] at h2
        obtain ⟨between, _, h2⟩ := Except.bind_eq_ok h2
        obtain ⟨t2, _, h2⟩ := Except.bind_eq_ok h2
        simp only [pure, Except.pure, Except.ok.injEq, Prod.mk.injEq] at h2
        obtain ⟨rfl, rfl, rfl⟩ := h2
        simp only [nbAbs, NbState.isIdle, Bool.false_eq_true, if_false, NbStepPost]
        refine ⟨?_, by first | rfl | trivial⟩
        unfold NbInv
        exact ⟨k, rx1, rx2, rfl, hstart, hw1, hw2, fun e => by cases e⟩
  | radio e =>
    simp only [next_eq] at h
    -- the frame is not handled: nothing moves
    have quiet : r'.m = r.m → r'.st = .waitingForRx join tx second t → rs' = rs → r'.downlinks = r.downlinks →
        NbStepPost g pre r r' rs' resp (none, some { kind := k, rx1 := rx1, rx2 := rx2 }) := by
      intro e1 e2 e3 e4
      subst e3
      exact ⟨hinv.same e1 (by rw [e2, hst]), e4⟩
    cases hit : headItem items with
    | err =>
      simp only [hit, pure, Except.pure, Except.ok.injEq, Prod.mk.injEq] at h
      obtain ⟨_, rfl, rfl⟩ := h
      have hab : ∀ st', nbAbs (some { kind := k, rx1 := rx1, rx2 := rx2 }) (.waitingForRx join tx second t) (.radio e) .err st' =
          (none, some { kind := k, rx1 := rx1, rx2 := rx2 }) := by intro st'; cases e <;> rfl
      rw [hab]
      exact quiet rfl rfl rfl rfl
    | idle =>
      simp only [hit, pure, Except.pure, Except.ok.injEq, Prod.mk.injEq] at h
      obtain ⟨_, rfl, rfl⟩ := h
      have hab : ∀ st', nbAbs (some { kind := k, rx1 := rx1, rx2 := rx2 }) (.waitingForRx join tx second t) (.radio e) .idle st' =
          (none, some { kind := k, rx1 := rx1, rx2 := rx2 }) := by intro st'; cases e <;> rfl
      rw [hab]
      exact quiet rfl rfl rfl rfl
    | dflt =>
      simp only [hit] at h
      cases e with
      | txDone ts =>
        simp only [pure, Except.pure, Except.ok.injEq, Prod.mk.injEq] at h
        obtain ⟨_, rfl, rfl⟩ := h
        exact quiet rfl rfl rfl rfl
      | rx snr v =>
        obtain ⟨⟨o, m2⟩, hrx, hk⟩ := Except.bind_eq_ok h
        clear h
        cases o with
        | none => exact (macHandleRx_window_some _ _ _ _ _ hrx).elim
        | some o =>
          have hwin : window r.m (some (v, snr)) (if second then tx.rx2 else tx.rx1).maxPayload.toNat =
              .ok (swallow (some o), m2) := by
            rw [window_some, hrx]; rfl
          simp only at hk
          by_cases hn : (o.resp == Response.noUpdate) = true
          · simp only [hn, if_true, pure, Except.pure, Except.ok.injEq, Prod.mk.injEq] at hk
            obtain ⟨rfl, rfl, rfl⟩ := hk
            have hm2 : m2 = r.m := macHandleRx_noUpdate_state _ _ _ _ _ _ hrx (by simpa using hn)
            subst hm2
            simp only [swallow, hn, if_true] at hwin
            simp only [nbAbs, NbItem.handled, NbState.isIdle, if_true, Bool.false_eq_true, if_false, NbStepPost]
            refine ⟨?_, by first | rfl | trivial⟩
            unfold NbInv
            simp only
            cases second with
            | true =>
              simp only [if_true] at hwin
              exact ⟨k, rx1, some (v, snr), rfl, hstart, hw1, hwin, fun e => by cases e⟩
            | false =>
              simp only [Bool.false_eq_true, if_false] at hwin
              have : rx2 = none := hsec rfl
              subst this
              exact ⟨k, some (v, snr), none, rfl, hstart, hwin, hw2, fun _ => rfl⟩
          · simp only [hn, Bool.false_eq_true, if_false] at hk
            simp only [swallow, hn, Bool.false_eq_true, if_false] at hwin
            have hcy : classACycle r.m ((NbGhost.heard { kind := k, rx1 := rx1, rx2 := rx2 } second (v, snr)).rx1)
                ((NbGhost.heard { kind := k, rx1 := rx1, rx2 := rx2 } second (v, snr)).rx2)
                tx.rx1.maxPayload.toNat tx.rx2.maxPayload.toNat = .ok (o.resp, o.downlink, m2) := by
              cases second with
              | true =>
                simp only [if_true] at hwin
                exact classACycle_rx2 hw1 hwin
              | false =>
                simp only [Bool.false_eq_true, if_false] at hwin
                exact classACycle_rx1 hwin
            obtain ⟨out, hstep, hresp, hdl⟩ := step_ghostEv g pre k join tx r.m m2 rs _ _ _ _ hstart hcy
            have hheard : ∀ X : NbGhost, X = NbGhost.heard { kind := k, rx1 := rx1, rx2 := rx2 } second (v, snr) →
                (⟨k, X.rx1, X.rx2⟩ : NbGhost) = X := by
              intro X hX; subst hX; cases second <;> rfl
            rw [hheard _ rfl] at hstep
            have hr' : r'.m = m2 ∧ r'.st = .idle ∧ rs' = rs ∧ resp = .mac o.resp ∧
                r'.downlinks = queueAfter r.dlCap r.downlinks o.downlink := by
              cases hd : o.downlink with
              | none =>
                simp only [hd, pure, Except.pure, Except.ok.injEq, Prod.mk.injEq] at hk
                obtain ⟨rfl, rfl, rfl⟩ := hk
                exact ⟨rfl, rfl, rfl, rfl, rfl⟩
              | some d =>
                by_cases hl : r.downlinks.length < r.dlCap
                · simp only [hd, hl, if_true, pure, Except.pure, Except.ok.injEq, Prod.mk.injEq] at hk
                  obtain ⟨rfl, rfl, rfl⟩ := hk
                  exact ⟨rfl, rfl, rfl, rfl, by simp [queueAfter, hl]⟩
                · simp only [hd, hl, if_false, pure, Except.pure, Except.ok.injEq, Prod.mk.injEq] at hk
                  obtain ⟨rfl, rfl, rfl⟩ := hk
                  exact ⟨rfl, rfl, rfl, rfl, by simp [queueAfter, hl]⟩
            obtain ⟨e1, e2, rfl, rfl, e5⟩ := hr'
            simp only [nbAbs, NbItem.handled, e2, NbState.isIdle, if_true, NbStepPost]
            refine ⟨out, by rw [e1]; exact hstep, ?_, hresp, by rw [e5, hdl]⟩
            unfold NbInv
            rw [e2]
            exact ⟨rfl, rfl⟩
    | txDoneNow ts0 =>
      simp only [hit] at h
      cases e with
      | txDone ts =>
        simp only [pure, Except.pure, Except.ok.injEq, Prod.mk.injEq] at h
        obtain ⟨_, rfl, rfl⟩ := h
        exact quiet rfl rfl rfl rfl
      | rx snr v =>
        obtain ⟨⟨o, m2⟩, hrx, hk⟩ := Except.bind_eq_ok h
        clear h
        cases o with
        | none => exact (macHandleRx_window_some _ _ _ _ _ hrx).elim
        | some o =>
          have hwin : window r.m (some (v, snr)) (if second then tx.rx2 else tx.rx1).maxPayload.toNat =
              .ok (swallow (some o), m2) := by
            rw [window_some, hrx]; rfl
          simp only at hk
          by_cases hn : (o.resp == Response.noUpdate) = true
          · simp only [hn, if_true, pure, Except.pure, Except.ok.injEq, Prod.mk.injEq] at hk
            obtain ⟨rfl, rfl, rfl⟩ := hk
            have hm2 : m2 = r.m := macHandleRx_noUpdate_state _ _ _ _ _ _ hrx (by simpa using hn)
            subst hm2
            simp only [swallow, hn, if_true] at hwin
            simp only [nbAbs, NbItem.handled, NbState.isIdle, if_true, Bool.false_eq_true, if_false, NbStepPost]
            refine ⟨?_, by first | rfl | trivial⟩
            unfold NbInv
            simp only
            cases second with
            | true =>
              simp only [if_true] at hwin
              exact ⟨k, rx1, some (v, snr), rfl, hstart, hw1, hwin, fun e => by cases e⟩
            | false =>
              simp only [Bool.false_eq_true, if_false] at hwin
              have : rx2 = none := hsec rfl
              subst this
              exact ⟨k, some (v, snr), none, rfl, hstart, hwin, hw2, fun _ => rfl⟩
          · simp only [hn, Bool.false_eq_true, if_false] at hk
            simp only [swallow, hn, Bool.false_eq_true, if_false] at hwin
            have hcy : classACycle r.m ((NbGhost.heard { kind := k, rx1 := rx1, rx2 := rx2 } second (v, snr)).rx1)
                ((NbGhost.heard { kind := k, rx1 := rx1, rx2 := rx2 } second (v, snr)).rx2)
                tx.rx1.maxPayload.toNat tx.rx2.maxPayload.toNat = .ok (o.resp, o.downlink, m2) := by
              cases second with
              | true =>
                simp only [if_true] at hwin
                exact classACycle_rx2 hw1 hwin
              | false =>
                simp only [Bool.false_eq_true, if_false] at hwin
                exact classACycle_rx1 hwin
            obtain ⟨out, hstep, hresp, hdl⟩ := step_ghostEv g pre k join tx r.m m2 rs _ _ _ _ hstart hcy
            have hheard : ∀ X : NbGhost, X = NbGhost.heard { kind := k, rx1 := rx1, rx2 := rx2 } second (v, snr) →
                (⟨k, X.rx1, X.rx2⟩ : NbGhost) = X := by
              intro X hX; subst hX; cases second <;> rfl
            rw [hheard _ rfl] at hstep
            have hr' : r'.m = m2 ∧ r'.st = .idle ∧ rs' = rs ∧ resp = .mac o.resp ∧
                r'.downlinks = queueAfter r.dlCap r.downlinks o.downlink := by
              cases hd : o.downlink with
              | none =>
                simp only [hd, pure, Except.pure, Except.ok.injEq, Prod.mk.injEq] at hk
                obtain ⟨rfl, rfl, rfl⟩ := hk
                exact ⟨rfl, rfl, rfl, rfl, rfl⟩
              | some d =>
                by_cases hl : r.downlinks.length < r.dlCap
                · simp only [hd, hl, if_true, pure, Except.pure, Except.ok.injEq, Prod.mk.injEq] at hk
                  obtain ⟨rfl, rfl, rfl⟩ := hk
                  exact ⟨rfl, rfl, rfl, rfl, by simp [queueAfter, hl]⟩
                · simp only [hd, hl, if_false, pure, Except.pure, Except.ok.injEq, Prod.mk.injEq] at hk
                  obtain ⟨rfl, rfl, rfl⟩ := hk
                  exact ⟨rfl, rfl, rfl, rfl, by simp [queueAfter, hl]⟩
            obtain ⟨e1, e2, rfl, rfl, e5⟩ := hr'
            simp only [nbAbs, NbItem.handled, e2, NbState.isIdle, if_true, NbStepPost]
            refine ⟨out, by rw [e1]; exact hstep, ?_, hresp, by rw [e5, hdl]⟩
            unfold NbInv
            rw [e2]
            exact ⟨rfl, rfl⟩

/-- **one event of the non-blocking state machine, against the history**: either the exchange goes on
(invariant kept, nothing delivered), or it completes here and its whole MAC-level effect — state,
generator state, response, delivered downlink — is `History.step` on ONE event -/
theorem nbStep_inv {σ} (g : Rng σ) (cfg : NbCfg) (pre : MacState × σ) (gh : Option NbGhost) (r : NbRun) (rs : σ)
    (ev : NbEvent) (items : List NbItem) (resp : NbResp) (r' : NbRun) (rs' : σ)
    (hinv : NbInv g pre gh r rs) (h : nbEvent g cfg r rs ev items = .ok (resp, r', rs')) :
    NbStepPost g pre r r' rs' resp (nbAbs gh r.st ev (headItem items) r'.st) := by
  cases hst : r.st with
  | idle => rw [← hst]; exact nbStep_idle g cfg pre gh r rs ev items resp r' rs' hst hinv h
  | sendingData join tx => rw [← hst]; exact nbStep_sending g cfg pre gh r rs ev items resp r' rs' join tx hst hinv h
  | waitingForRxWindow join tx second t =>
    rw [← hst]; exact nbStep_waitWindow g cfg pre gh r rs ev items resp r' rs' join tx second t hst hinv h
  | waitingForRx join tx second t =>
    rw [← hst]; exact nbStep_waitRx g cfg pre gh r rs ev items resp r' rs' join tx second t hst hinv h

/-- **an event answered with a state error changes nothing** (MAC state, machine state, generator
state, downlink queue) — except `UnexpectedRadioResponse`, which is the radio refusing a transmission
and is a completed exchange (`nbStep_inv`) -/
theorem idleTx_errState {cfg : NbCfg} {r r1 : NbRun} {join : Bool} {tx : TxOut} {len n : Nat} {msg : String}
    (h : idleTx cfg r join tx len n = .ok (.errState msg, r1)) : msg = "UnexpectedRadioResponse" := by
  unfold idleTx at h
  simp only [next_eq] at h
  cases hit : headItem r.script with
  | dflt => simp [hit, pure, Except.pure] at h
  | txDoneNow ts =>
    simp only [hit, afterTxDone] at h
    obtain ⟨t1, _, h⟩ := Except.bind_eq_ok h
    simp [pure, Except.pure] at h
  | err =>
    simp only [hit, pure, Except.pure, Except.ok.injEq, Prod.mk.injEq] at h
    obtain ⟨hx, _⟩ := h
    split at hx <;> cases hx
  | idle =>
    simp only [hit, pure, Except.pure, Except.ok.injEq, Prod.mk.injEq] at h
    obtain ⟨hx, _⟩ := h
    split at hx
    · cases hx
    · simp only [NbResp.errState.injEq] at hx
      exact hx.symm

/-- **an event answered with a state error changes nothing** (MAC state, machine state, generator
state, downlink queue) — except `UnexpectedRadioResponse`, which is the radio refusing a transmission
and is a completed exchange (`nbStep_inv`) -/
theorem nbStep_state_error {σ} (g : Rng σ) (cfg : NbCfg) (r : NbRun) (rs : σ) (ev : NbEvent) (items : List NbItem)
    (msg : String) (r' : NbRun) (rs' : σ) (hmsg : msg ≠ "UnexpectedRadioResponse")
    (h : nbEvent g cfg r rs ev items = .ok (.errState msg, r', rs')) :
    r'.m = r.m ∧ r'.st = r.st ∧ rs' = rs ∧ r'.downlinks = r.downlinks := by
  unfold nbEvent nbStep at h
  cases hst : r.st with
  | idle =>
    simp only [hst] at h
    cases ev with
    | timeout => simp [pure, Except.pure] at h
    | radio e =>
      simp only [pure, Except.pure, Except.ok.injEq, Prod.mk.injEq] at h
      obtain ⟨_, rfl, rfl⟩ := h
      exact ⟨rfl, rfl, rfl, rfl⟩
    | join =>
      exfalso
      obtain ⟨⟨out, m1, rs1⟩, _, hk⟩ := Except.bind_eq_ok h
      obtain ⟨⟨resp1, r1⟩, hidle, hk2⟩ := Except.bind_eq_ok hk
      simp only [pure, Except.pure, Except.ok.injEq, Prod.mk.injEq] at hk2
      obtain ⟨rfl, _, _⟩ := hk2
      exact hmsg (idleTx_errState hidle)
    | send d p c =>
      exfalso
      obtain ⟨⟨o, m1, rs1⟩, _, hk⟩ := Except.bind_eq_ok h
      cases o with
      | none => simp [pure, Except.pure] at hk
      | some out =>
        simp only at hk
        obtain ⟨⟨resp1, r1⟩, hidle, hk2⟩ := Except.bind_eq_ok hk
        simp only [pure, Except.pure, Except.ok.injEq, Prod.mk.injEq] at hk2
        obtain ⟨rfl, _, _⟩ := hk2
        exact hmsg (idleTx_errState hidle)
  | sendingData join tx =>
    simp only [hst] at h
    cases ev with
    | timeout => simp [pure, Except.pure] at h
    | join =>
      simp only [pure, Except.pure, Except.ok.injEq, Prod.mk.injEq] at h
      obtain ⟨_, rfl, rfl⟩ := h
      exact ⟨rfl, rfl, rfl, rfl⟩
    | send d p c =>
      simp only [pure, Except.pure, Except.ok.injEq, Prod.mk.injEq] at h
      obtain ⟨_, rfl, rfl⟩ := h
      exact ⟨rfl, rfl, rfl, rfl⟩
    | radio e =>
      exfalso
      simp only [next_eq] at h
      cases hit : headItem items <;> simp only [hit] at h
      · cases e with
        | rx snr v => cases h
        | txDone ts =>
          simp only [afterTxDone] at h
          obtain ⟨⟨resp1, r1⟩, h1, hk⟩ := Except.bind_eq_ok h
          obtain ⟨t1, _, h1⟩ := Except.bind_eq_ok h1
          simp only [pure, Except.pure, Except.ok.injEq, Prod.mk.injEq] at h1 hk
          obtain ⟨rfl, _⟩ := h1
          obtain ⟨hx, _⟩ := hk
          cases hx
      · simp [pure, Except.pure] at h
      · cases e with
        | rx snr v => cases h
        | txDone ts =>
          simp only [afterTxDone] at h
          obtain ⟨⟨resp1, r1⟩, h1, hk⟩ := Except.bind_eq_ok h
          obtain ⟨t1, _, h1⟩ := Except.bind_eq_ok h1
          simp only [pure, Except.pure, Except.ok.injEq, Prod.mk.injEq] at h1 hk
          obtain ⟨rfl, _⟩ := h1
          obtain ⟨hx, _⟩ := hk
          cases hx
      · cases h
  | waitingForRxWindow join tx second t =>
    simp only [hst] at h
    cases ev with
    | radio e =>
      simp only [pure, Except.pure, Except.ok.injEq, Prod.mk.injEq] at h
      obtain ⟨_, rfl, rfl⟩ := h
      exact ⟨rfl, rfl, rfl, rfl⟩
    | join =>
      simp only [pure, Except.pure, Except.ok.injEq, Prod.mk.injEq] at h
      obtain ⟨_, rfl, rfl⟩ := h
      exact ⟨rfl, rfl, rfl, rfl⟩
    | send d p c =>
      simp only [pure, Except.pure, Except.ok.injEq, Prod.mk.injEq] at h
      obtain ⟨_, rfl, rfl⟩ := h
      exact ⟨rfl, rfl, rfl, rfl⟩
    | timeout =>
      exfalso
      simp only [next_eq] at h
      cases hit : headItem items <;> simp only [hit] at h
      · obtain ⟨close, _, h⟩ := Except.bind_eq_ok h
        simp [pure, Except.pure] at h
      · simp [pure, Except.pure] at h
      · obtain ⟨close, _, h⟩ := Except.bind_eq_ok h
        simp [pure, Except.pure] at h
      · obtain ⟨close, _, h⟩ := Except.bind_eq_ok h
        simp [pure, Except.pure] at h
  | waitingForRx join tx second t =>
    simp only [hst] at h
    cases ev with
    | join =>
      simp only [pure, Except.pure, Except.ok.injEq, Prod.mk.injEq] at h
      obtain ⟨_, rfl, rfl⟩ := h
      exact ⟨rfl, rfl, rfl, rfl⟩
    | send d p c =>
      simp only [pure, Except.pure, Except.ok.injEq, Prod.mk.injEq] at h
      obtain ⟨_, rfl, rfl⟩ := h
      exact ⟨rfl, rfl, rfl, rfl⟩
    | timeout =>
      exfalso
      simp only [next_eq] at h
      cases hit : headItem items <;> simp only [hit] at h
      all_goals first
        | (simp [pure, Except.pure] at h; done)
        | (cases second
           · simp only [Bool.false_eq_true, if_false] at h
             obtain ⟨between, _, h⟩ := Except.bind_eq_ok h
             obtain ⟨t2, _, h⟩ := Except.bind_eq_ok h
             simp [pure, Except.pure] at h
           · simp [pure, Except.pure] at h)
    | radio e =>
      exfalso
      simp only [next_eq] at h
      cases hit : headItem items <;> simp only [hit] at h
      all_goals first
        | (simp [pure, Except.pure] at h; done)
        | (cases e with
           | txDone ts => simp [pure, Except.pure] at h
           | rx snr v =>
             obtain ⟨⟨o, m2⟩, _, hk⟩ := Except.bind_eq_ok h
             cases o with
             | none => simp [pure, Except.pure] at hk
             | some o =>
               simp only at hk
               by_cases hn : (o.resp == Response.noUpdate) = true
               · simp only [hn, if_true, pure, Except.pure, Except.ok.injEq, Prod.mk.injEq] at hk
                 obtain ⟨hx, _⟩ := hk
                 cases hx
               · simp only [hn, Bool.false_eq_true, if_false, pure, Except.pure, Except.ok.injEq, Prod.mk.injEq] at hk
                 obtain ⟨hx, _⟩ := hk
                 cases hx)

/-! ## sessions -/

/-- a session of the non-blocking device: events in order, each with the radio's answers -/
def nbRun {σ} (g : Rng σ) (cfg : NbCfg) : NbRun → σ → List (NbEvent × List NbItem) → M (List NbResp × NbRun × σ)
  | r, rs, [] => pure ([], r, rs)
  | r, rs, (ev, items) :: rest => do
    let (resp, r, rs) ← nbEvent g cfg r rs ev items
    let (resps, r, rs) ← nbRun g cfg r rs rest
    pure (resp :: resps, r, rs)

/-- **the history of a session**: the events of the exchanges it completes, in order (`nbAbs` along
the states the machine goes through) -/
def nbAbstract {σ} (g : Rng σ) (cfg : NbCfg) : Option NbGhost → NbRun → σ → List (NbEvent × List NbItem) → List Ev
  | _, _, _, [] => []
  | gh, r, rs, (ev, items) :: rest =>
    match nbEvent g cfg r rs ev items with
    | .ok (_, r', rs') =>
      (nbAbs gh r.st ev (headItem items) r'.st).1.toList ++
        nbAbstract g cfg (nbAbs gh r.st ev (headItem items) r'.st).2 r' rs' rest
    | .error _ => []

theorem run_cons_ok {σ} (g : Rng σ) (ms ms1 ms2 : MacState × σ) (e : Ev) (o : Out) (rest : List Ev) (os : List Out)
    (h1 : step g ms e = .ok (ms1, o)) (h2 : run g ms1 rest = .ok (ms2, os)) : run g ms (e :: rest) = .ok (ms2, o :: os) := by
  simp only [run, h1, h2, bind, Except.bind, pure, Except.pure]

theorem nbInv_idle {σ} (g : Rng σ) (r : NbRun) (rs : σ) (h : r.st = .idle) : NbInv g (r.m, rs) none r rs := by
  unfold NbInv; rw [h]; exact ⟨rfl, rfl⟩

/-- **every event sequence of the non-blocking front-end refines `History.run`**: from any state
satisfying the invariant (in particular from `Idle`), if the session returns, the history of its
completed exchanges returns, and the invariant relates the final states — in `Idle` the MAC state
and the generator state ARE the history's -/
theorem nbRun_refines {σ} (g : Rng σ) (cfg : NbCfg) (pre : MacState × σ) (gh : Option NbGhost) (r : NbRun) (rs : σ)
    (evs : List (NbEvent × List NbItem)) (resps : List NbResp) (r' : NbRun) (rs' : σ)
    (hinv : NbInv g pre gh r rs) (h : nbRun g cfg r rs evs = .ok (resps, r', rs')) :
    ∃ pre' gh' outs, run g pre (nbAbstract g cfg gh r rs evs) = .ok (pre', outs) ∧ NbInv g pre' gh' r' rs' := by
  induction evs generalizing pre gh r rs resps with
  | nil =>
    simp only [nbRun, pure, Except.pure, Except.ok.injEq, Prod.mk.injEq] at h
    obtain ⟨_, rfl, rfl⟩ := h
    exact ⟨pre, gh, [], rfl, hinv⟩
  | cons x rest ih =>
    obtain ⟨ev, items⟩ := x
    unfold nbRun at h
    obtain ⟨⟨resp, r1, rs1⟩, hev, hk⟩ := Except.bind_eq_ok h
    obtain ⟨⟨resps1, r2, rs2⟩, hrun, hk2⟩ := Except.bind_eq_ok hk
    simp only [pure, Except.pure, Except.ok.injEq, Prod.mk.injEq] at hk2
    obtain ⟨_, rfl, rfl⟩ := hk2
    have hpost := nbStep_inv g cfg pre gh r rs ev items resp r1 rs1 hinv hev
    simp only [nbAbstract, hev]
    cases hab : nbAbs gh r.st ev (headItem items) r1.st with
    | mk e gh1 =>
      rw [hab] at hpost
      cases e with
      | none =>
        obtain ⟨pre', gh', outs, hr, hi⟩ := ih pre gh1 r1 rs1 resps1 hpost.1 hrun
        exact ⟨pre', gh', outs, by simpa using hr, hi⟩
      | some e =>
        obtain ⟨out, hstep, hinv1, _, _⟩ := hpost
        obtain ⟨pre', gh', outs, hr, hi⟩ := ih (r1.m, rs1) gh1 r1 rs1 resps1 hinv1 hrun
        exact ⟨pre', gh', out :: outs, by simpa using run_cons_ok g pre _ pre' e out _ outs hstep hr, hi⟩

/-! ## failures -/

/-- failures of the state machine that are not failures of the MAC: the `i32`/`u32` arithmetic on
timestamps and window times, and the `panic!` on a radio that answers a pending transmission with
anything but `TxDone` -/
def NbExtra : Fault → Prop
  | .panic s => s = "t1 i32 overflow" ∨ s = "u32 add overflow" ∨ s = "u32 sub underflow" ∨
      s = "SendingData: Unexpected radio response"
  | .hang _ => False

theorem ofGen_fault {α} {site : String} {x : Option α} {f : Fault} (h : ofGen site x = .error f) : f = .panic site := by
  cases x with
  | none => cases h; rfl
  | some a => cases h

theorem rx1Timeout_fault {d ts : Nat} {off : Int} {f : Fault} (h : rx1Timeout d ts off = .error f) : NbExtra f := by
  unfold rx1Timeout at h
  simp only at h
  cases h1 : ofGen "t1 i32 overflow" (Rt.ck .i32 (Rt.wrap .i32 (d : Int) + Rt.wrap .i32 (ts : Int))) with
  | error e =>
    rw [h1] at h
    cases h
    rw [ofGen_fault h1]; exact Or.inl rfl
  | ok s1 =>
    rw [h1] at h
    simp only [bind, Except.bind] at h
    cases h2 : ofGen "t1 i32 overflow" (Rt.ck .i32 (s1 + off)) with
    | error e =>
      rw [h2] at h
      cases h
      rw [ofGen_fault h2]; exact Or.inl rfl
    | ok s2 => rw [h2] at h; cases h

theorem u32Add_fault {a b : Nat} {f : Fault} (h : u32Add a b = .error f) : NbExtra f := by
  unfold u32Add at h
  split at h
  · cases h; exact Or.inr (Or.inl rfl)
  · cases h

theorem u32Sub_fault {a b : Nat} {f : Fault} (h : u32Sub a b = .error f) : NbExtra f := by
  unfold u32Sub at h
  split at h
  · cases h; exact Or.inr (Or.inr (Or.inl rfl))
  · cases h

theorem bind_error {α β} {x : M α} {k : α → M β} {f : Fault} (h : (x >>= k) = .error f) :
    x = .error f ∨ ∃ a, x = .ok a ∧ k a = .error f := by
  cases x with
  | error e => left; simpa [bind, Except.bind] using h
  | ok a => right; exact ⟨a, rfl, h⟩

theorem afterTxDone_fault {cfg : NbCfg} {r : NbRun} {join : Bool} {tx : TxOut} {ts : Nat} {f : Fault}
    (h : afterTxDone cfg r join tx ts = .error f) : NbExtra f := by
  unfold afterTxDone at h
  rcases bind_error h with h | ⟨t1, _, h⟩
  · exact rx1Timeout_fault h
  · cases h

theorem idleTx_fault {cfg : NbCfg} {r : NbRun} {join : Bool} {tx : TxOut} {len n : Nat} {f : Fault}
    (h : idleTx cfg r join tx len n = .error f) : NbExtra f := by
  unfold idleTx at h
  simp only [next_eq] at h
  cases hit : headItem r.script <;> simp only [hit] at h
  · cases h
  · cases h
  · exact afterTxDone_fault h
  · cases h

/-- the history event whose step fails where the state machine's MAC call fails -/
def FaultEv (gh : Option NbGhost) (st : NbState) (ev : NbEvent) (e : Ev) : Prop :=
  match st, ev with
  | .idle, .join => e = .joinOtaa (some 0) none none 0 0
  | .idle, .send d p c => e = .uplink d p c (some 0) none none 0 0
  | .waitingForRx _ tx second _, .radio (.rx snr v) => ∃ gh0, gh = some gh0 ∧ e = ghostEv (gh0.heard second (v, snr)) tx
  | _, _ => False

/-- **a failure of the state machine is one of its own (`NbExtra`) or the failure of a history step** -/
theorem nbStep_fault {σ} (g : Rng σ) (cfg : NbCfg) (pre : MacState × σ) (gh : Option NbGhost) (r : NbRun) (rs : σ)
    (ev : NbEvent) (items : List NbItem) (f : Fault)
    (hinv : NbInv g pre gh r rs) (h : nbEvent g cfg r rs ev items = .error f) :
    NbExtra f ∨ ∃ e, step g pre e = .error f ∧ FaultEv gh r.st ev e := by
  unfold nbEvent nbStep at h
  cases hst : r.st with
  | idle =>
    have hi : gh = none ∧ pre = (r.m, rs) := by unfold NbInv at hinv; rw [hst] at hinv; exact hinv
    obtain ⟨rfl, rfl⟩ := hi
    simp only [hst] at h
    cases ev with
    | timeout => cases h
    | radio e => cases h
    | join =>
      rcases bind_error h with h | ⟨⟨out, m1, rs1⟩, _, h⟩
      · right
        refine ⟨_, ?_, rfl⟩
        simp only [step, h, bind, Except.bind]
      · left
        rcases bind_error h with h | ⟨x, _, h⟩
        · exact idleTx_fault h
        · cases h
    | send d p c =>
      rcases bind_error h with h | ⟨⟨o, m1, rs1⟩, _, h⟩
      · right
        refine ⟨_, ?_, rfl⟩
        simp only [step, h, bind, Except.bind]
      · left
        cases o with
        | none => cases h
        | some out =>
          simp only at h
          rcases bind_error h with h | ⟨x, _, h⟩
          · exact idleTx_fault h
          · cases h
  | sendingData join tx =>
    left
    simp only [hst] at h
    cases ev with
    | timeout => cases h
    | join => cases h
    | send d p c => cases h
    | radio e =>
      simp only [next_eq] at h
      cases hit : headItem items <;> simp only [hit] at h
      · cases e with
        | rx snr v => cases h; exact Or.inr (Or.inr (Or.inr rfl))
        | txDone ts =>
          rcases bind_error h with h | ⟨x, _, h⟩
          · exact afterTxDone_fault h
          · cases h
      · cases h
      · cases e with
        | rx snr v => cases h; exact Or.inr (Or.inr (Or.inr rfl))
        | txDone ts =>
          rcases bind_error h with h | ⟨x, _, h⟩
          · exact afterTxDone_fault h
          · cases h
      · cases h; exact Or.inr (Or.inr (Or.inr rfl))
  | waitingForRxWindow join tx second t =>
    left
    simp only [hst] at h
    cases ev with
    | radio e => cases h
    | join => cases h
    | send d p c => cases h
    | timeout =>
      simp only [next_eq] at h
      have key : ∀ {β} (k : Nat → M β), ((if second then u32Add t cfg.duration else do
            let between ← u32Sub (macRxDelay r.m join true) (macRxDelay r.m join false)
            if between > cfg.duration then u32Add t cfg.duration else u32Add t between) >>= k) = .error f →
          (∀ c, k c ≠ .error f) → NbExtra f := by
        intro β k hk hne
        rcases bind_error hk with hk | ⟨c, _, hk⟩
        · cases second with
          | true => exact u32Add_fault hk
          | false =>
            simp only [Bool.false_eq_true, if_false] at hk
            rcases bind_error hk with hk | ⟨b, _, hk⟩
            · exact u32Sub_fault hk
            · split at hk <;> exact u32Add_fault hk
        · exact absurd hk (hne c)
      cases hit : headItem items <;> simp only [hit] at h
      · exact key _ h (fun c hc => by cases hc)
      · cases h
      · exact key _ h (fun c hc => by cases hc)
      · exact key _ h (fun c hc => by cases hc)
  | waitingForRx join tx second t =>
    have hi : InFlight g pre gh join tx second r.m rs := by unfold NbInv at hinv; rw [hst] at hinv; exact hinv
    obtain ⟨k, rx1, rx2, hgh, hstart, hw1, hw2, hsec⟩ := hi
    simp only [hst] at h
    cases ev with
    | join => cases h
    | send d p c => cases h
    | timeout =>
      left
      simp only [next_eq] at h
      have key : (if second then
            (pure (NbResp.mac (macRx2Complete r.m).1,
              ({ m := (macRx2Complete r.m).2, st := .idle, script := items.tail, calls := NbCall.cancelRx :: r.calls,
                 downlinks := r.downlinks, dlCap := r.dlCap } : NbRun), rs) : M (NbResp × NbRun × σ))
          else do
            let between ← u32Sub (macRxDelay r.m join true) (macRxDelay r.m join false)
            let t2 ← u32Add t between
            pure (NbResp.timeoutRequest t2,
              ({ m := r.m, st := .waitingForRxWindow join tx true t2, script := items.tail, calls := NbCall.cancelRx :: r.calls,
                 downlinks := r.downlinks, dlCap := r.dlCap } : NbRun), rs)) = .error f → NbExtra f := by
        intro hk
        cases second with
        | true => cases hk
        | false =>
          simp only [Bool.false_eq_true, if_false] at hk
          rcases bind_error hk with hk | ⟨b, _, hk⟩
          · exact u32Sub_fault hk
          · rcases bind_error hk with hk | ⟨t2, _, hk⟩
            · exact u32Add_fault hk
            · cases hk
      cases hit : headItem items <;> simp only [hit] at h
      · exact key h
      · cases h
      · exact key h
      · exact key h
    | radio e =>
      simp only [next_eq] at h
      have key : ∀ snr v, (macHandleRx r.m v (if second then tx.rx2 else tx.rx1).maxPayload.toNat snr false) = .error f →
          ∃ e, step g pre e = .error f ∧ FaultEv gh (.waitingForRx join tx second t) (.radio (.rx snr v)) e := by
        intro snr v hrx
        subst hgh
        refine ⟨_, ?_, ⟨_, rfl, rfl⟩⟩
        have hwin : window r.m (some (v, snr)) (if second then tx.rx2 else tx.rx1).maxPayload.toNat = .error f := by
          rw [window_some, hrx]; rfl
        have hcy : classACycle r.m ((NbGhost.heard { kind := k, rx1 := rx1, rx2 := rx2 } second (v, snr)).rx1)
            ((NbGhost.heard { kind := k, rx1 := rx1, rx2 := rx2 } second (v, snr)).rx2)
            tx.rx1.maxPayload.toNat tx.rx2.maxPayload.toNat = .error f := by
          cases second with
          | true =>
            simp only [if_true] at hwin
            simp only [NbGhost.heard, if_true, classACycle, hw1, hwin, bind, Except.bind]
          | false =>
            simp only [Bool.false_eq_true, if_false] at hwin
            simp only [NbGhost.heard, Bool.false_eq_true, if_false, classACycle, hwin, bind, Except.bind]
        have hk : (NbGhost.heard { kind := k, rx1 := rx1, rx2 := rx2 } second (v, snr)).kind = k := by
          cases second <;> rfl
        cases k with
        | some dpc =>
          obtain ⟨d, p, c⟩ := dpc
          obtain ⟨_, o, hsend, rfl⟩ := hstart
          simp only [ghostEv, hk, step, hsend, hcy, bind, Except.bind]
        | none =>
          obtain ⟨_, o, hjoin, rfl⟩ := hstart
          simp only [ghostEv, hk, step, hjoin, hcy, bind, Except.bind]
      cases hit : headItem items <;> simp only [hit] at h
      · cases e with
        | txDone ts => cases h
        | rx snr v =>
          rcases bind_error h with h | ⟨⟨o, m2⟩, _, h⟩
          · exact Or.inr (key snr v h)
          · exfalso
            cases o with
            | none => cases h
            | some o => simp only at h; split at h <;> cases h
      · cases h
      · cases e with
        | txDone ts => cases h
        | rx snr v =>
          rcases bind_error h with h | ⟨⟨o, m2⟩, _, h⟩
          · exact Or.inr (key snr v h)
          · exfalso
            cases o with
            | none => cases h
            | some o => simp only at h; split at h <;> cases h
      · cases h

/-! ## validity, and the absence of MAC panics -/

def kindOk : Option (List Nat × Nat × Bool) → Bool
  | none => true
  | some (d, p, _) => (p != 0 || d.isEmpty) && decide (d.length ≤ 222)

def ghOk : Option NbGhost → Bool
  | none => true
  | some x => kindOk x.kind && rxWF x.rx1 && rxWF x.rx2

/-- the application contract of an event (`send`: as `validEv`), and well-formed decoded views -/
def NbEvent.valid : NbEvent → Bool
  | .send d p _ => (p != 0 || d.isEmpty) && decide (d.length ≤ 222)
  | .radio (.rx _ v) => viewWF v
  | _ => true

theorem ghostEv_valid (rid : RegionId) (x : NbGhost) (tx : TxOut) (h : ghOk (some x) = true) :
    validEv rid (ghostEv x tx) = true := by
  simp only [ghOk, Bool.and_eq_true] at h
  obtain ⟨⟨hk, h1⟩, h2⟩ := h
  unfold ghostEv
  cases hkind : x.kind with
  | none => simp only [validEv, h1, h2, Bool.and_self]
  | some dpc =>
    obtain ⟨d, p, c⟩ := dpc
    rw [hkind] at hk
    simp only [kindOk, Bool.and_eq_true] at hk
    simp only [validEv, hk.1, hk.2, h1, h2, Bool.and_self]

theorem heard_ok (x : NbGhost) (second : Bool) (v : RxView) (snr : Int) (h : ghOk (some x) = true) (hv : viewWF v = true) :
    ghOk (some (x.heard second (v, snr))) = true := by
  simp only [ghOk, Bool.and_eq_true] at h ⊢
  obtain ⟨⟨hk, h1⟩, h2⟩ := h
  cases second with
  | true => exact ⟨⟨hk, h1⟩, hv⟩
  | false => exact ⟨⟨hk, hv⟩, h2⟩

theorem nbAbs_ok (rid : RegionId) (gh : Option NbGhost) (st : NbState) (ev : NbEvent) (item : NbItem) (st' : NbState)
    (hg : ghOk gh = true) (hv : ev.valid = true) :
    ghOk (nbAbs gh st ev item st').2 = true ∧ ∀ e, (nbAbs gh st ev item st').1 = some e → validEv rid e = true := by
  unfold nbAbs
  split
  · -- idle, send
    rename_i d p c
    simp only [NbEvent.valid, Bool.and_eq_true] at hv
    split
    · exact ⟨rfl, fun e he => by cases he; simp only [validEv, hv.1, hv.2, rxWF, Bool.and_self]⟩
    · exact ⟨by simp only [ghOk, kindOk, hv.1, hv.2, rxWF, Bool.and_self], fun e he => by cases he⟩
  · split
    · exact ⟨rfl, fun e he => by cases he; rfl⟩
    · exact ⟨rfl, fun e he => by cases he⟩
  · rename_i join tx second t snr v
    split
    · split
      · rename_i x
        have hx := heard_ok x second v snr hg hv
        split
        · exact ⟨rfl, fun e he => by cases he; exact ghostEv_valid rid _ tx hx⟩
        · exact ⟨hx, fun e he => by cases he⟩
      · exact ⟨rfl, fun e he => by cases he⟩
    · exact ⟨hg, fun e he => by cases he⟩
  · rename_i join tx second t
    split
    · rename_i x
      split
      · exact ⟨rfl, fun e he => by cases he; exact ghostEv_valid rid _ tx hg⟩
      · exact ⟨hg, fun e he => by cases he⟩
    · exact ⟨rfl, fun e he => by cases he⟩
  · exact ⟨hg, fun e he => by cases he⟩

theorem faultEv_valid (rid : RegionId) (gh : Option NbGhost) (st : NbState) (ev : NbEvent) (e : Ev)
    (hg : ghOk gh = true) (hv : ev.valid = true) (h : FaultEv gh st ev e) : validEv rid e = true := by
  unfold FaultEv at h
  split at h
  · subst h; rfl
  · subst h
    simp only [NbEvent.valid, Bool.and_eq_true] at hv
    simp only [validEv, hv.1, hv.2, rxWF, Bool.and_self]
  · obtain ⟨gh0, rfl, rfl⟩ := h
    exact ghostEv_valid rid _ _ (heard_ok gh0 _ _ _ hg hv)
  · exact h.elim

/-- **no session of the non-blocking front-end panics in the MAC**: a panic of `nbRun` is one of the
state machine's own (`NbExtra`) -/
theorem nbRun_fault {σ} (g : Rng σ) (cfg : NbCfg) (pre : MacState × σ) (gh : Option NbGhost) (r : NbRun) (rs : σ)
    (evs : List (NbEvent × List NbItem)) (site : String)
    (hinv : NbInv g pre gh r rs) (hwf : MacWF pre.1) (hg : ghOk gh = true) (hv : ∀ x ∈ evs, x.1.valid = true)
    (h : nbRun g cfg r rs evs = .error (.panic site)) : NbExtra (.panic site) := by
  induction evs generalizing pre gh r rs with
  | nil => cases h
  | cons x rest ih =>
    obtain ⟨ev, items⟩ := x
    have hvx : ev.valid = true := hv (ev, items) List.mem_cons_self
    unfold nbRun at h
    rcases bind_error h with h | ⟨⟨resp, r1, rs1⟩, hev, h⟩
    · rcases nbStep_fault g cfg pre gh r rs ev items _ hinv h with hx | ⟨e, hstep, hfe⟩
      · exact hx
      · exfalso
        obtain ⟨m0, s0⟩ := pre
        exact (step_safe g m0 s0 e hwf (faultEv_valid _ gh r.st ev e hg hvx hfe)).no_panic site hstep
    · rcases bind_error h with h | ⟨y, _, h⟩
      · have hpost := nbStep_inv g cfg pre gh r rs ev items resp r1 rs1 hinv hev
        have hok := nbAbs_ok pre.1.region.id gh r.st ev (headItem items) r1.st hg hvx
        cases hab : nbAbs gh r.st ev (headItem items) r1.st with
        | mk e gh1 =>
          rw [hab] at hpost hok
          have hrest : ∀ x ∈ rest, x.1.valid = true := fun x hx => hv x (List.mem_cons_of_mem _ hx)
          cases e with
          | none => exact ih pre gh1 r1 rs1 hpost.1 hwf hok.1 hrest h
          | some e =>
            obtain ⟨out, hstep, hinv1, _, _⟩ := hpost
            obtain ⟨m0, s0⟩ := pre
            have hwf1 : MacWF r1.m := ((step_safe g m0 s0 e hwf (hok.2 e rfl)).elim hstep).1
            exact ih (r1.m, rs1) gh1 r1 rs1 hinv1 hwf1 hok.1 hrest h
      · cases h

end Model
