import LoraVerif.Lemmas.C02Lemmas
/-!
# Lemmas for C02, join frames: `check_mhdr`, fixed-length decompositions, ECB inverse, reading back the
JoinAccept layout
-/
open Lora Lora.Codec Lora.CodecLemmas Lora.C01Lemmas Lora.C02Lemmas
set_option maxRecDepth 100000

namespace Lora.C02Lemmas

theorem mtype_ne (x : UInt8) (m : UInt8) (hm : m.toNat < 8) : (x >>> 5 ≠ m) ↔ (x.toNat / 32 ≠ m.toNat) := by
  rw [← mtype_shift x]
  constructor
  · intro h h2; exact h (UInt8.toNat_inj.mp h2)
  · intro h h2; exact h (by rw [h2])

/-- `check_mhdr(bytes, mtype)` in the specification's words -/
theorem checkMhdr_spec (mhdr : UInt8) (rest : Bytes) (m : UInt8) (hm : m.toNat < 8) :
    checkMhdr (mhdr :: rest) m =
      if mhdr.toNat % 4 ≠ 0 then .err .unsupportedMajorVersion
      else if mhdr.toNat / 32 ≠ m.toNat then .err .unexpectedMessageType else .ok () := by
  unfold checkMhdr
  have h1 := major_eq mhdr
  have h2 := mtype_ne mhdr m hm
  by_cases hmaj : mhdr.toNat % 4 ≠ 0
  · have : mhdr &&& 0b11 ≠ 0 := by simpa [hmaj] using h1
    simp only [this, hmaj, ne_eq, not_false_eq_true, if_true]
  · have : ¬ (mhdr &&& 0b11 ≠ 0) := by simpa [hmaj] using h1
    simp only [this, hmaj, if_false]
    by_cases ht : mhdr.toNat / 32 ≠ m.toNat
    · simp only [h2.mpr ht, ht, ne_eq, not_false_eq_true, if_true]
    · have : ¬ (mhdr >>> 5 ≠ m) := fun h => ht (h2.mp h)
      simp only [this, ht, if_false]

theorem leValue_eq (l : Bytes) : leValue l = Spec.fromLe l := by
  induction l with
  | nil => rfl
  | cons b bs ih => simp [leValue, Spec.fromLe, ih]

theorem take_drop_seg (l : Bytes) (lo hi : Nat) (h : lo ≤ hi) : (l.take hi).drop lo = (l.drop lo).take (hi - lo) := by
  rw [List.drop_take]

theorem slice_cons (x : UInt8) (l : Bytes) (lo hi : Nat) (hlo : 1 ≤ lo) (hh : lo ≤ hi) (hhi : hi ≤ l.length + 1) :
    slice (x :: l) lo hi = .ok ((l.drop (lo - 1)).take (hi - lo)) := by
  unfold slice
  have : lo ≤ hi ∧ hi ≤ (x :: l).length := by simp; omega
  rw [if_pos this]
  congr 1
  obtain ⟨lo', rfl⟩ : ∃ k, lo = k + 1 := ⟨lo - 1, by omega⟩
  obtain ⟨hi', rfl⟩ : ∃ k, hi = k + 1 := ⟨hi - 1, by omega⟩
  simp only [List.take_succ_cons, List.drop_succ_cons, Nat.add_sub_cancel]
  rw [List.drop_take]
  congr 1; omega

/-- structure check of a JoinAccept = the specification's -/
theorem validate_ja_structure_spec (b : Bytes) :
    validateJoinAcceptStructure b = Outcome.ofExcept (Spec.checkJoinAccept b) := by
  unfold validateJoinAcceptStructure Spec.checkJoinAccept
  cases b with
  | nil => rfl
  | cons mhdr rest =>
    simp only [bind, pure, checkMhdr_spec mhdr rest 1 (by decide)]
    by_cases hmaj : mhdr.toNat % 4 ≠ 0
    · simp only [hmaj, ne_eq, not_false_eq_true, if_true, Outcome.bind, Outcome.ofExcept]
    · simp only [hmaj, if_false]
      by_cases ht : mhdr.toNat / 32 ≠ (1 : UInt8).toNat
      · have ht' : mhdr.toNat / 32 ≠ 1 := ht
        simp only [ht, ht', ne_eq, not_false_eq_true, if_true, Outcome.bind, Outcome.ofExcept]
      · have ht' : ¬ mhdr.toNat / 32 ≠ 1 := ht
        simp only [ht, ht', if_false, bind_ok, List.length_cons]
        by_cases hl : rest.length + 1 ≠ 17 ∧ rest.length + 1 ≠ 33
        · have hl' : rest.length ≠ 16 ∧ rest.length ≠ 32 := by omega
          simp only [hl, hl', ne_eq, not_false_eq_true, and_self, if_true, Outcome.ofExcept]
        · have hl' : ¬ (rest.length ≠ 16 ∧ rest.length ≠ 32) := by omega
          simp only [hl, hl', if_false, Outcome.ofExcept]

theorem list16 (l : Bytes) (h : l.length = 16) :
    ∃ x0 x1 x2 x3 x4 x5 x6 x7 x8 x9 x10 x11 x12 x13 x14 x15, l = [x0, x1, x2, x3, x4, x5, x6, x7, x8, x9, x10, x11, x12, x13, x14, x15] := by
  rcases l with _ | ⟨x0, l⟩; · simp at h
  rcases l with _ | ⟨x1, l⟩; · simp at h
  rcases l with _ | ⟨x2, l⟩; · simp at h
  rcases l with _ | ⟨x3, l⟩; · simp at h
  rcases l with _ | ⟨x4, l⟩; · simp at h
  rcases l with _ | ⟨x5, l⟩; · simp at h
  rcases l with _ | ⟨x6, l⟩; · simp at h
  rcases l with _ | ⟨x7, l⟩; · simp at h
  rcases l with _ | ⟨x8, l⟩; · simp at h
  rcases l with _ | ⟨x9, l⟩; · simp at h
  rcases l with _ | ⟨x10, l⟩; · simp at h
  rcases l with _ | ⟨x11, l⟩; · simp at h
  rcases l with _ | ⟨x12, l⟩; · simp at h
  rcases l with _ | ⟨x13, l⟩; · simp at h
  rcases l with _ | ⟨x14, l⟩; · simp at h
  rcases l with _ | ⟨x15, l⟩; · simp at h
  rcases l with _ | ⟨y, l⟩
  · exact ⟨x0, x1, x2, x3, x4, x5, x6, x7, x8, x9, x10, x11, x12, x13, x14, x15, rfl⟩
  · simp at h

theorem list32 (l : Bytes) (h : l.length = 32) :
    ∃ x0 x1 x2 x3 x4 x5 x6 x7 x8 x9 x10 x11 x12 x13 x14 x15 x16 x17 x18 x19 x20 x21 x22 x23 x24 x25 x26 x27 x28 x29 x30 x31, l = [x0, x1, x2, x3, x4, x5, x6, x7, x8, x9, x10, x11, x12, x13, x14, x15, x16, x17, x18, x19, x20, x21, x22, x23, x24, x25, x26, x27, x28, x29, x30, x31] := by
  rcases l with _ | ⟨x0, l⟩; · simp at h
  rcases l with _ | ⟨x1, l⟩; · simp at h
  rcases l with _ | ⟨x2, l⟩; · simp at h
  rcases l with _ | ⟨x3, l⟩; · simp at h
  rcases l with _ | ⟨x4, l⟩; · simp at h
  rcases l with _ | ⟨x5, l⟩; · simp at h
  rcases l with _ | ⟨x6, l⟩; · simp at h
  rcases l with _ | ⟨x7, l⟩; · simp at h
  rcases l with _ | ⟨x8, l⟩; · simp at h
  rcases l with _ | ⟨x9, l⟩; · simp at h
  rcases l with _ | ⟨x10, l⟩; · simp at h
  rcases l with _ | ⟨x11, l⟩; · simp at h
  rcases l with _ | ⟨x12, l⟩; · simp at h
  rcases l with _ | ⟨x13, l⟩; · simp at h
  rcases l with _ | ⟨x14, l⟩; · simp at h
  rcases l with _ | ⟨x15, l⟩; · simp at h
  rcases l with _ | ⟨x16, l⟩; · simp at h
  rcases l with _ | ⟨x17, l⟩; · simp at h
  rcases l with _ | ⟨x18, l⟩; · simp at h
  rcases l with _ | ⟨x19, l⟩; · simp at h
  rcases l with _ | ⟨x20, l⟩; · simp at h
  rcases l with _ | ⟨x21, l⟩; · simp at h
  rcases l with _ | ⟨x22, l⟩; · simp at h
  rcases l with _ | ⟨x23, l⟩; · simp at h
  rcases l with _ | ⟨x24, l⟩; · simp at h
  rcases l with _ | ⟨x25, l⟩; · simp at h
  rcases l with _ | ⟨x26, l⟩; · simp at h
  rcases l with _ | ⟨x27, l⟩; · simp at h
  rcases l with _ | ⟨x28, l⟩; · simp at h
  rcases l with _ | ⟨x29, l⟩; · simp at h
  rcases l with _ | ⟨x30, l⟩; · simp at h
  rcases l with _ | ⟨x31, l⟩; · simp at h
  rcases l with _ | ⟨y, l⟩
  · exact ⟨x0, x1, x2, x3, x4, x5, x6, x7, x8, x9, x10, x11, x12, x13, x14, x15, x16, x17, x18, x19, x20, x21, x22, x23, x24, x25, x26, x27, x28, x29, x30, x31, rfl⟩
  · simp at h

theorem ja_cases (b : Bytes) (u : Unit) (h : Spec.checkJoinAccept b = .ok u) :
    ∃ mhdr rest, b = mhdr :: rest ∧ (rest.length = 16 ∨ rest.length = 32) := by
  cases b with
  | nil => simp [Spec.checkJoinAccept] at h
  | cons mhdr rest =>
    refine ⟨mhdr, rest, rfl, ?_⟩
    unfold Spec.checkJoinAccept at h
    simp only at h
    split at h; · cases h
    split at h; · cases h
    split at h; · cases h
    omega

theorem clear_length (c : Cipher) (k : Key) (mhdr : UInt8) (rest : Bytes) (hl : rest.length = 16 ∨ rest.length = 32) :
    (Spec.joinAcceptClear c k (mhdr :: rest)).length = rest.length + 1 := by
  simp only [Spec.joinAcceptClear, List.length_cons]
  rw [ecb_length _ _ _ (by omega)]

theorem vec2_toList (v : Vector UInt8 2) : ∃ d0 d1, v.toList = [d0, d1] := by
  rcases v with ⟨⟨l⟩, h⟩
  match l, h with
  | [a, b], _ => exact ⟨a, b, rfl⟩

theorem le3_fromLe (a b c : UInt8) : Spec.le 3 (Spec.fromLe [a, b, c]) = [a, b, c] := by
  have := le_leValue [a, b, c]
  rwa [leValue_eq] at this

theorem le2_fromLe (a b : UInt8) : Spec.le 2 (Spec.fromLe [a, b]) = [a, b] := by
  have := le_leValue [a, b]
  rwa [leValue_eq] at this

/-- what a classified payload says, via every accessor of its view -/
def phyToSpec : PhyPayload → Outcome Spec.Decoded
  | .joinRequest bytes => (joinRequestView bytes).map fun v => .joinRequest v.toSpec
  | .joinAccept bytes => .ok (.joinAccept bytes)
  | .data p => (p.view).map fun v => .data v.toSpec

theorem bind_bind {α β γ} (x : Outcome α) (f : α → Outcome β) (g : β → Outcome γ) :
    (x.bind f).bind g = x.bind fun a => (f a).bind g := by cases x <;> rfl

theorem bind_map_comp {α β γ} (x : Outcome α) (f : α → Outcome β) (g : β → γ) :
    x.bind (fun a => (f a).map g) = (x.bind f).map g := by cases x <;> rfl

theorem map_map {α β γ} (x : Outcome α) (f : α → β) (g : β → γ) : (x.map f).map g = x.map (g ∘ f) := by
  cases x <;> rfl

theorem ofExcept_map {α β} (x : Except Err α) (g : α → β) : Outcome.ofExcept (x.map g) = (Outcome.ofExcept x).map g := by
  cases x <;> rfl

theorem shift_lit (x : UInt8) (n : Nat) (hn : n < 8) (h : x.toNat / 32 = n) : x >>> 5 = UInt8.ofNat n := by
  apply UInt8.toNat_inj.mp
  rw [mtype_shift, h]
  simp; omega

theorem ecb_inv (f g : Block → Block) (hfg : ∀ x, f (g x) = x) (n : Nat) (X : Bytes) (h : 16 * n ≤ X.length) :
    Spec.ecb f n (Spec.ecb g n X) = X := by
  induction n generalizing X with
  | zero => rfl
  | succ n ih =>
    obtain ⟨b, hb, hbl⟩ := ofList?_take16 X (by omega)
    simp only [Spec.ecb, hb]
    have h1 : ((g b).toList ++ Spec.ecb g n (X.drop 16)).take 16 = (g b).toList := by
      rw [List.take_left']; simp
    have h2 : ((g b).toList ++ Spec.ecb g n (X.drop 16)).drop 16 = Spec.ecb g n (X.drop 16) := by
      rw [List.drop_left']; simp
    have h3 : Block.ofList? (g b).toList = some (g b) := by
      unfold Block.ofList?
      have hl : (g b).toList.length = 16 := by simp
      rw [dif_pos hl]
      congr 1
    rw [h1, h2, h3]
    simp only []
    rw [hfg, ih _ (by simp; omega), hbl, List.take_append_drop]

/-- the specification's view of a JoinAccept description as a receiver reads it back: RxDelay's RFU
bits are not transmitted -/
def jaExpected (s : Spec.JoinAcceptDesc) (mic : Bytes) : Spec.JoinAcceptView :=
  { joinNonce := s.joinNonce, netId := s.netId, devAddr := s.devAddr, dlSettings := s.dlSettings
    rxDelay := UInt8.ofNat (s.rxDelay.toNat % 16)
    cfList := s.cfList.map fun
      | .dynamic f0 f1 f2 f3 f4 => .dynamic [f0, f1, f2, f3, f4]
      | .fixed m => .fixed m
    mic := mic }

theorem le_cons3 (v : Nat) : ∃ a b c, Spec.le 3 v = [a, b, c] := ⟨_, _, _, rfl⟩
theorem le_cons9 (v : Nat) : ∃ a b c d e f g h i, Spec.le 9 v = [a, b, c, d, e, f, g, h, i] := ⟨_, _, _, _, _, _, _, _, _, rfl⟩

theorem fromLe3 (v : Nat) (a b c : UInt8) (h : Spec.le 3 v = [a, b, c]) (hv : v < 2 ^ 24) : Spec.fromLe [a, b, c] = v := by
  rw [← h, fromLe_le]; omega
theorem fromLe9 (v : Nat) (l : Bytes) (h : Spec.le 9 v = l) (hv : v < 2 ^ 72) : Spec.fromLe l = v := by
  rw [← h, fromLe_le]; omega
theorem fromLe4u (v : UInt32) (a b c d : UInt8) (h : Spec.le 4 v.toNat = [a, b, c, d]) :
    UInt32.ofNat (Spec.fromLe [a, b, c, d]) = v := by
  rw [← h, fromLe_le]
  apply UInt32.toNat_inj.mp
  have := v.toNat_lt
  simp [UInt32.toNat_ofNat']

/-- reading back what the JoinAccept encoder laid out (specification level) -/
theorem ja_view_of_msg (s : Spec.JoinAcceptDesc) (m0 m1 m2 m3 : UInt8)
    (hjn : s.joinNonce < 2 ^ 24) (hni : s.netId < 2 ^ 24)
    (hcf : ∀ l, s.cfList = some l → match l with
      | .dynamic f0 f1 f2 f3 f4 => f0 < 2 ^ 24 ∧ f1 < 2 ^ 24 ∧ f2 < 2 ^ 24 ∧ f3 < 2 ^ 24 ∧ f4 < 2 ^ 24
      | .fixed m => m < 2 ^ 72) :
    Spec.joinAcceptView (Spec.joinAcceptMsg s ++ [m0, m1, m2, m3]) = jaExpected s [m0, m1, m2, m3] := by
  obtain ⟨j0, j1, j2, hj⟩ := le_cons3 s.joinNonce
  obtain ⟨n0, n1, n2, hn⟩ := le_cons3 s.netId
  obtain ⟨a0, a1, a2, a3, ha⟩ := le_cons4 s.devAddr.toNat
  have e1 := fromLe3 _ _ _ _ hj hjn
  have e2 := fromLe3 _ _ _ _ hn hni
  have e3 := fromLe4u _ _ _ _ _ ha
  unfold Spec.joinAcceptMsg jaExpected
  rw [hj, hn, ha]
  cases hc : s.cfList with
  | none =>
    simp [Spec.joinAcceptView, Spec.mhdrJoinAccept, e1, e2, e3]
  | some l =>
    have hb := hcf l hc
    cases l with
    | dynamic f0 f1 f2 f3 f4 =>
      obtain ⟨p0, p1, p2, hp⟩ := le_cons3 f0
      obtain ⟨q0, q1, q2, hq⟩ := le_cons3 f1
      obtain ⟨r0, r1, r2, hr⟩ := le_cons3 f2
      obtain ⟨s0, s1, s2, hs⟩ := le_cons3 f3
      obtain ⟨t0, t1, t2, ht⟩ := le_cons3 f4
      simp only at hb
      have g0 := fromLe3 _ _ _ _ hp hb.1
      have g1 := fromLe3 _ _ _ _ hq hb.2.1
      have g2 := fromLe3 _ _ _ _ hr hb.2.2.1
      have g3 := fromLe3 _ _ _ _ hs hb.2.2.2.1
      have g4 := fromLe3 _ _ _ _ ht hb.2.2.2.2
      simp only [Spec.encodeCfList, hp, hq, hr, hs, ht]
      simp [Spec.joinAcceptView, Spec.mhdrJoinAccept, e1, e2, e3, Spec.decodeCfList, g0, g1, g2, g3, g4]
    | fixed m =>
      obtain ⟨b0, b1, b2, b3, b4, b5, b6, b7, b8, hm⟩ := le_cons9 m
      simp only at hb
      have g := fromLe9 _ _ hm hb
      simp only [Spec.encodeCfList, hm]
      simp [Spec.joinAcceptView, Spec.mhdrJoinAccept, e1, e2, e3, Spec.decodeCfList, g]

theorem joinMic_length (c : Cipher) (k : Key) (m : Bytes) : (Spec.joinMic c k m).length = 4 := by simp [Spec.joinMic]

theorem toSpec_bounds (d : JoinAccept) :
    d.toSpec.joinNonce < 2 ^ 24 ∧ d.toSpec.netId < 2 ^ 24 ∧
    (∀ l, d.toSpec.cfList = some l → match l with
      | .dynamic f0 f1 f2 f3 f4 => f0 < 2 ^ 24 ∧ f1 < 2 ^ 24 ∧ f2 < 2 ^ 24 ∧ f3 < 2 ^ 24 ∧ f4 < 2 ^ 24
      | .fixed m => m < 2 ^ 72) := by
  have h3 : ∀ v : Vector UInt8 3, leValue v.toList < 2 ^ 24 := fun v => by have := leValue_lt v.toList; simpa using this
  have h9 : ∀ v : Vector UInt8 9, leValue v.toList < 2 ^ 72 := fun v => by have := leValue_lt v.toList; simpa using this
  refine ⟨h3 _, h3 _, ?_⟩
  intro l hl
  unfold JoinAccept.toSpec at hl
  simp only at hl
  cases hcf : d.cFList with
  | none => rw [hcf] at hl; cases hl
  | some cf =>
    rw [hcf] at hl
    simp only [Option.map_some, Option.some.injEq] at hl
    subst hl
    cases cf with
    | dynamicChannel f => exact ⟨h3 _, h3 _, h3 _, h3 _, h3 _⟩
    | fixedChannel m => exact h9 _

end Lora.C02Lemmas
