import LoraVerif.Model.HistoryC
import LoraVerif.Lemmas.Cycle
/-!
Facts about `Mac::handle_rx` / `handle_rxc` the refinement proofs share: a frame answered `NoUpdate`
changes nothing; `handle_rx` in a window always answers; `handle_rxc` ignores MAC commands (the
configuration stands); a window without response leaves the configuration as it was.
-/
set_option linter.unusedSimpArgs false
namespace Model

/-! ## `NoUpdate` changes nothing -/

theorem sessionHandleRx_noUpdate_state (s : Session) (cfg : Config) (region : RegionState) (d : RxData) (mp : Nat)
    (snr : Int) (o : RxOut) (s' : Session) (cfg' : Config) (region' : RegionState)
    (h : sessionHandleRx s cfg region d mp snr false = .ok (o, s', cfg', region')) (hn : o.resp = .noUpdate) :
    s' = s ∧ cfg' = cfg ∧ region' = region := by
  unfold sessionHandleRx at h
  split at h
  · simp only [Bool.false_eq_true, if_false, pure, Except.pure, Except.ok.injEq, Prod.mk.injEq] at h
    obtain ⟨rfl, _, _, _⟩ := h
    simp only at hn
    have := rx2Complete_resp s cfg region.id
    rw [hn] at this
    cases this
  · split at h
    · simp only [pure, Except.pure, Except.ok.injEq, Prod.mk.injEq] at h
      exact ⟨h.2.1.symm, h.2.2.1.symm, h.2.2.2.symm⟩
    · split at h
      · simp only [pure, Except.pure, Except.ok.injEq, Prod.mk.injEq] at h
        exact ⟨h.2.1.symm, h.2.2.1.symm, h.2.2.2.symm⟩
      · simp only [] at h
        obtain ⟨ctx, _, h⟩ := Except.bind_eq_ok h
        by_cases hx : (s.fcntUp == 0xFFFFFFFF) = true
        · cases hc : d.confirmed <;>
            simp only [hc, hx, Bool.false_eq_true, if_false, if_true, pure, Except.pure, Except.ok.injEq,
              Prod.mk.injEq] at h <;>
            obtain ⟨rfl, _⟩ := h <;> cases hn
        · cases hc : d.confirmed <;>
            simp only [hc, hx, Bool.false_eq_true, if_false, if_true, pure, Except.pure, Except.ok.injEq,
              Prod.mk.injEq] at h <;>
            obtain ⟨rfl, _⟩ := h <;> cases hn

/-- **a frame the MAC answers with `NoUpdate` in a receive window leaves the MAC state as it was** -/
theorem macHandleRx_noUpdate_state (m : MacState) (v : RxView) (mp : Nat) (snr : Int) (o : RxOut) (m' : MacState)
    (h : macHandleRx m v mp snr false = .ok (some o, m')) (hn : o.resp = .noUpdate) : m' = m := by
  unfold macHandleRx at h
  split at h
  · rename_i s hst
    split at h
    · obtain ⟨⟨o', s', cfg', region'⟩, hs, h⟩ := Except.bind_eq_ok h
      simp only [pure, Except.pure, Except.ok.injEq, Prod.mk.injEq, Option.some.injEq] at h
      obtain ⟨rfl, rfl⟩ := h
      obtain ⟨rfl, rfl, rfl⟩ := sessionHandleRx_noUpdate_state _ _ _ _ _ _ _ _ _ _ hs hn
      exact MacState.eta_joined hst
    · cases h; rfl
  · simp only [Bool.false_eq_true, if_false] at h
    split at h
    · split at h
      · obtain ⟨m2, _, h⟩ := Except.bind_eq_ok h
        cases h; cases hn
      · cases h; rfl
    · cases h; rfl
  · simp only [Bool.false_eq_true, if_false] at h
    cases h; rfl

/-- in a window `handle_rx` always answers -/
theorem macHandleRx_window_some (m : MacState) (v : RxView) (mp : Nat) (snr : Int) (m' : MacState)
    (h : macHandleRx m v mp snr false = .ok (none, m')) : False := by
  unfold macHandleRx at h
  split at h
  · split at h
    · obtain ⟨⟨o', s', cfg', region'⟩, _, h⟩ := Except.bind_eq_ok h
      cases h
    · cases h
  · simp only [Bool.false_eq_true, if_false] at h
    split at h
    · split at h
      · obtain ⟨m2, _, h⟩ := Except.bind_eq_ok h
        cases h
      · cases h
    · cases h
  · simp only [Bool.false_eq_true, if_false] at h
    cases h

/-- `handle_rxc` ignores MAC commands: the configuration stands -/
theorem sessionHandleRx_c_cfg (s : Session) (cfg : Config) (region : RegionState) (d : RxData) (mp : Nat) (snr : Int)
    (o : RxOut) (s' : Session) (cfg' : Config) (region' : RegionState)
    (h : sessionHandleRx s cfg region d mp snr true = .ok (o, s', cfg', region')) : cfg' = cfg := by
  unfold sessionHandleRx at h
  split at h
  · simp only [if_true, pure, Except.pure, Except.ok.injEq, Prod.mk.injEq] at h
    exact h.2.2.1.symm
  · split at h
    · simp only [pure, Except.pure, Except.ok.injEq, Prod.mk.injEq] at h
      exact h.2.2.1.symm
    · split at h
      · simp only [pure, Except.pure, Except.ok.injEq, Prod.mk.injEq] at h
        exact h.2.2.1.symm
      · simp only [if_true, pure_bind] at h
        by_cases hx : (s.fcntUp == 0xFFFFFFFF) = true
        · cases hc : d.confirmed <;>
            simp only [hc, hx, Bool.false_eq_true, if_false, if_true, pure, Except.pure, Except.ok.injEq,
              Prod.mk.injEq] at h <;> exact h.2.2.1.symm
        · cases hc : d.confirmed <;>
            simp only [hc, hx, Bool.false_eq_true, if_false, if_true, pure, Except.pure, Except.ok.injEq,
              Prod.mk.injEq] at h <;> exact h.2.2.1.symm

theorem macHandleRx_c_cfg (m : MacState) (v : RxView) (mp : Nat) (snr : Int) (o : Option RxOut) (m' : MacState)
    (h : macHandleRx m v mp snr true = .ok (o, m')) : m'.cfg = m.cfg := by
  unfold macHandleRx at h
  split at h
  · split at h
    · obtain ⟨⟨o', s', cfg', region'⟩, hs, h⟩ := Except.bind_eq_ok h
      simp only [pure, Except.pure, Except.ok.injEq, Prod.mk.injEq] at h
      obtain ⟨_, rfl⟩ := h
      exact sessionHandleRx_c_cfg _ _ _ _ _ _ _ _ _ _ hs
    · cases h; rfl
  · simp only [if_true, pure, Except.pure, Except.ok.injEq, Prod.mk.injEq] at h
    rw [← h.2]
  · simp only [if_true, pure, Except.pure, Except.ok.injEq, Prod.mk.injEq] at h
    rw [← h.2]


theorem rxcs_cfg (m : MacState) (mp : Nat) (cs : List (RxView × Int)) (os : List RxOut) (fin : Bool) (m' : MacState)
    (h : rxcs m mp cs = .ok (os, fin, m')) : m'.cfg = m.cfg := by
  induction cs generalizing m os fin with
  | nil =>
    simp only [rxcs, pure, Except.pure, Except.ok.injEq, Prod.mk.injEq] at h
    rw [← h.2.2]
  | cons c rest ih =>
    obtain ⟨v, snr⟩ := c
    unfold rxcs at h
    obtain ⟨⟨o, m1⟩, hrx, hk⟩ := Except.bind_eq_ok h
    have h1 := macHandleRx_c_cfg _ _ _ _ _ _ hrx
    cases o with
    | none =>
      simp only at hk
      rw [ih m1 os fin hk, h1]
    | some o =>
      simp only at hk
      obtain ⟨⟨os2, fin2, m2⟩, hrest, hk2⟩ := Except.bind_eq_ok hk
      simp only [pure, Except.pure, Except.ok.injEq, Prod.mk.injEq] at hk2
      obtain ⟨_, _, rfl⟩ := hk2
      rw [ih m1 os2 fin2 hrest, h1]

theorem between_cfg (cc : Bool) (m : MacState) (cs : List (RxView × Int)) (os : List RxOut) (fin : Bool) (m' : MacState)
    (h : between cc m cs = .ok (os, fin, m')) : m'.cfg = m.cfg := by
  unfold between at h
  cases cc with
  | true =>
    simp only [if_true] at h
    obtain ⟨rf, _, h⟩ := Except.bind_eq_ok h
    exact rxcs_cfg _ _ _ _ _ _ h
  | false =>
    simp only [Bool.false_eq_true, if_false, pure, Except.pure, Except.ok.injEq, Prod.mk.injEq] at h
    rw [← h.2.2]

/-- a window that produced no response left the MAC state as it was -/
theorem window_none_state (m : MacState) (f : Option (RxView × Int)) (mp : Nat) (m' : MacState)
    (h : window m f mp = .ok (none, m')) : m' = m := by
  unfold window at h
  cases f with
  | none => cases h; rfl
  | some f =>
    obtain ⟨v, snr⟩ := f
    simp only at h
    obtain ⟨⟨o, m1⟩, hrx, hk⟩ := Except.bind_eq_ok h
    cases o with
    | none => exact (macHandleRx_window_some _ _ _ _ _ hrx).elim
    | some o =>
      simp only at hk
      split at hk
      · rename_i hn
        simp only [pure, Except.pure, Except.ok.injEq, Prod.mk.injEq] at hk
        rw [← hk.2]
        exact macHandleRx_noUpdate_state _ _ _ _ _ _ hrx (by simpa using hn)
      · cases hk

/-- a window (with the Class C listening before it) that was served without a response leaves the
configuration of the MAC — in particular the RX1 delay — as it was -/
theorem winC_none_cfg (cc : Bool) (m : MacState) (cs : List (RxView × Int)) (f : Option (RxView × Int)) (mp : Nat)
    (eb ea : Bool) (hd : List RxOut) (m' : MacState) (h : winC cc m cs f mp eb ea = .ok (some none, hd, m')) :
    m'.cfg = m.cfg := by
  unfold winC at h
  obtain ⟨⟨os, fin, m1⟩, hb, hk⟩ := Except.bind_eq_ok h
  have h1 := between_cfg _ _ _ _ _ _ hb
  simp only at hk
  split at hk
  · cases hk
  · obtain ⟨⟨o, m2⟩, hw, hk2⟩ := Except.bind_eq_ok hk
    obtain ⟨_, _, hk3⟩ := Except.bind_eq_ok hk2
    simp only at hk3
    split at hk3
    · cases hk3
    · simp only [pure, Except.pure, Except.ok.injEq, Prod.mk.injEq, Option.some.injEq] at hk3
      obtain ⟨rfl, _, rfl⟩ := hk3
      rw [window_none_state _ _ _ _ hw, h1]

end Model
