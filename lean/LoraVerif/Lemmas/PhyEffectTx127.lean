import LoraVerif.Lemmas.PhyEffect127
/-!
# SX127x TX power and ramp: register effect against `sx127x_set_pa_cfg` + `sx127x_set_tx_params` (C13)
-/
open Model.Phy Spec.Semtech
namespace C13
open Gen.PhyCodes127

/-- the compared bits of a TX-power effect (= `eff_mask("txpower", a)`): PaSelect and OutputPower
(and MaxPower on the SX1276 RFO pin — with PA_BOOST the reference keeps those bits, lora-phy clears
them), PaRamp[3:0], PaDac[2:0] of the variant's PaDac register -/
def txMask (cfg : Sx127x.Config) (a : Nat) : UInt8 :=
  if a = 0x09 then (if cfg.chip = .sx1276 ∧ cfg.txBoost = false then 0xff else 0x8f)
  else if a = 0x0a then 0x0f
  else if a = 0x4d then (if cfg.chip = .sx1276 then 0x07 else 0)
  else if a = 0x5a then (if cfg.chip = .sx1272 then 0x07 else 0)
  else 0

/-- the reference calls realising `set_tx_power_and_ramp_time(p, is_tx_prep)`: the caller clamps the
power to the range of the selected output, selects the +20 dBm option above 17 dBm on PA_BOOST, and
passes the ramp time 40 µs (TX preparation) or 250 µs -/
def refTxPower (cfg : Sx127x.Config) (p : Int) (prep : Bool) : Prog Unit :=
  let is1272 := cfg.chip == .sx1272
  let pc : Int :=
    if is1272 then (if cfg.txBoost then (if p > 17 then Sx127x.clampI p 5 20 else Sx127x.clampI p 2 17) else Sx127x.clampI p (-1) 14)
    else (if cfg.txBoost then Sx127x.clampI p 2 20 else Sx127x.clampI p (-4) 14)
  S127.setTxParams is1272 cfg.txBoost (cfg.txBoost && decide (pc > 17)) pc (if prep then 9 else 4)

theorem clampI_bounds (x lo hi : Int) (h : lo ≤ hi) : lo ≤ Sx127x.clampI x lo hi ∧ Sx127x.clampI x lo hi ≤ hi := by
  unfold Sx127x.clampI; omega

theorem tx_mask_close (cfg : Sx127x.Config) (L R : Nat → UInt8)
    (h09 : L 9 &&& (if cfg.chip = .sx1276 ∧ cfg.txBoost = false then 0xff else 0x8f) =
           R 9 &&& (if cfg.chip = .sx1276 ∧ cfg.txBoost = false then 0xff else 0x8f))
    (h0a : L 10 &&& 0x0f = R 10 &&& 0x0f)
    (h4d : cfg.chip = .sx1276 → L 77 &&& 7 = R 77 &&& 7) (h5a : cfg.chip = .sx1272 → L 90 &&& 7 = R 90 &&& 7) (a : Nat) :
    L a &&& txMask cfg a = R a &&& txMask cfg a := by
  unfold txMask
  by_cases h1 : a = 9; · subst h1; simpa using h09
  by_cases h2 : a = 10; · subst h2; simpa using h0a
  by_cases h3 : a = 77
  · subst h3
    by_cases hc : cfg.chip = .sx1276
    · simpa [hc] using h4d hc
    · simp [hc]
  by_cases h4 : a = 90
  · subst h4
    by_cases hc : cfg.chip = .sx1272
    · simpa [hc] using h5a hc
    · simp [hc]
  simp [h1, h2, h3, h4]

macro "bytes''" : tactic =>
  `(tactic| (first | rfl | (generalize Chip.regs _ _ = r; revert r; exact u8_forall _ (by decide +kernel))))

syntax "tx127" "[" Lean.Parser.Tactic.simpLemma,* "]" : tactic
macro_rules
  | `(tactic| tx127 [$ls,*]) => `(tactic|
    eff127 [$ls,*, Sx127x.setTxPowerAndRampTime, Sx127x.setTxPower, Sx127x.setOcp, Sx127x.rampValue, refTxPower, S127.setTxParams,
      S127.i2u8, S127.REG_PA_CONFIG, S127.REG_1276_PA_DAC, S127.REG_1272_PA_DAC,
      PaDac.value, PaDac.toInt, PaConfig.value, PaConfig.toInt, OcpTrim.value, OcpTrim.toInt, RampTime.value, RampTime.toInt])

/-- close a goal whose only power-dependent byte is `UInt8.ofNat ((t) % 256).toNat` with `0 ≤ t < 16` -/
macro "pw" t:term : tactic => `(tactic|
  (obtain ⟨n, hn⟩ : ∃ n : Fin 16, (($t) % 256).toNat = n.val := ⟨⟨(($t) % 256).toNat, by omega⟩, rfl⟩
   simp only [hn]
   clear hn
   first
     | (generalize Chip.regs _ _ = r; revert r; exact u8_forall _ (by revert n; decide +kernel))
     | (revert n; decide +kernel)))

set_option maxHeartbeats 4000000 in
/-- **SX127x TX power and ramp time**, SX1276 and SX1272, RFO and PA_BOOST pin, every requested power
(any integer: both sides clamp), both ramp selections, every prior content of RegPaConfig / RegPaRamp /
RegPaDac: same PaSelect, OutputPower (and MaxPower on the SX1276 RFO pin), PaRamp[3:0], PaDac[2:0]. -/
theorem sx127x_tx_power_effect_eq (cfg : Sx127x.Config) (p : Int) (prep : Bool) (c : Chip) (hk : c.kind = .sx127x) (a : Nat) :
    (trace (Sx127x.setTxPowerAndRampTime cfg p prep) c).2.1.regs a &&& txMask cfg a =
      (trace (refTxPower cfg p prep) c).2.1.regs a &&& txMask cfg a := by
  revert a
  cases hc : cfg.chip <;> cases hb : cfg.txBoost
  · -- SX1276, RFO
    obtain ⟨b1, b2⟩ := clampI_bounds p (-4) 14 (by decide)
    generalize htx : Sx127x.clampI p (-4) 14 = txp at *
    by_cases h0 : txp > 0
    · apply tx_mask_close <;> cases prep <;> tx127 [hc, hb, hk, htx, h0]
      all_goals first | bytes'' | pw txp
    · apply tx_mask_close <;> cases prep <;> tx127 [hc, hb, hk, htx, h0]
      all_goals first | bytes'' | pw (txp + 4)
  · -- SX1276, PA_BOOST
    obtain ⟨b1, b2⟩ := clampI_bounds p 2 20 (by decide)
    generalize htx : Sx127x.clampI p 2 20 = txp at *
    by_cases h17 : txp > 17
    · apply tx_mask_close <;> cases prep <;> tx127 [hc, hb, hk, htx, h17]
      all_goals first | bytes'' | pw (txp - 5)
    · apply tx_mask_close <;> cases prep <;> tx127 [hc, hb, hk, htx, h17]
      all_goals first | bytes'' | pw (txp - 2)
  · -- SX1272, RFO
    obtain ⟨b1, b2⟩ := clampI_bounds p (-1) 14 (by decide)
    generalize htx : Sx127x.clampI p (-1) 14 = txp at *
    have h17 : ¬ txp > 17 := by omega
    apply tx_mask_close <;> cases prep <;> tx127 [hc, hb, hk, htx, h17]
    all_goals first | bytes'' | pw (txp + 1)
  · -- SX1272, PA_BOOST
    by_cases hp : p > 17
    · obtain ⟨b1, b2⟩ := clampI_bounds p 5 20 (by decide)
      have b3 : 17 < Sx127x.clampI p 5 20 := by unfold Sx127x.clampI; omega
      generalize htx : Sx127x.clampI p 5 20 = txp at *
      apply tx_mask_close <;> cases prep <;> tx127 [hc, hb, hk, htx, hp, b3]
      all_goals first | bytes'' | pw (txp - 5)
    · obtain ⟨b1, b2⟩ := clampI_bounds p 2 17 (by decide)
      generalize htx : Sx127x.clampI p 2 17 = txp at *
      have h17 : ¬ txp > 17 := by omega
      apply tx_mask_close <;> cases prep <;> tx127 [hc, hb, hk, htx, hp, h17]
      all_goals first | bytes'' | pw (txp - 2)

end C13
