import LoraVerif.Model.History
import LoraVerif.Lemmas.ExceptLemmas
/-!
# Histories as chains of steps, and trace predicates driven by a ghost state

The history-level theorems (C05, C07, C08, C10, C12 …) all have the same skeleton: a *reference
machine* (ghost state `G`, written from the property text) is run alongside the model; a relation
`Rel : MacState → G → Prop` ties the two; ONE lemma per property shows that every `Model.step`
preserves `Rel` and that its output is what the reference machine allows (`P`); induction over the
event list — done here once — lifts it to every history.

* `Chain g ms t ms'`: `t : List (Ev × Out)` is the trace of a run from `ms` to `ms'` (each output is
  the one `step` produced, each state the one `step` left);
* `run_chain`: `run g ms evs = .ok (ms', outs)` ↔ the zipped trace is such a chain;
* `TraceD next P gh t`: at every position `P ghost event output`, the ghost moving by the
  deterministic `next`; `TraceR P gh t`: the same with a relational ghost move;
* `chain_traceD` / `chain_traceR`: the induction.
-/
namespace Model

/-- `t` is the trace (event, output) of a run of the history model from `ms` to `ms'` -/
def Chain {σ} (g : Rng σ) : MacState × σ → List (Ev × Out) → MacState × σ → Prop
  | ms, [], ms' => ms' = ms
  | ms, (ev, out) :: rest, ms' => ∃ ms1, step g ms ev = .ok (ms1, out) ∧ Chain g ms1 rest ms'

theorem run_outs_length {σ} (g : Rng σ) (ms ms' : MacState × σ) (evs : List Ev) (outs : List Out)
    (h : run g ms evs = .ok (ms', outs)) : outs.length = evs.length := by
  induction evs generalizing ms outs with
  | nil =>
    unfold run at h
    cases Except.pure_eq_ok h; rfl
  | cons ev rest ih =>
    unfold run at h
    obtain ⟨⟨ms1, o⟩, _, h⟩ := Except.bind_eq_ok h
    obtain ⟨⟨ms2, os⟩, hrun, h⟩ := Except.bind_eq_ok h
    cases Except.pure_eq_ok h
    simp [ih ms1 os hrun]

theorem run_chain {σ} (g : Rng σ) (ms ms' : MacState × σ) (evs : List Ev) (outs : List Out)
    (h : run g ms evs = .ok (ms', outs)) : Chain g ms (evs.zip outs) ms' := by
  induction evs generalizing ms outs with
  | nil =>
    unfold run at h
    cases Except.pure_eq_ok h
    simp [Chain]
  | cons ev rest ih =>
    unfold run at h
    obtain ⟨⟨ms1, o⟩, hstep, h⟩ := Except.bind_eq_ok h
    obtain ⟨⟨ms2, os⟩, hrun, h⟩ := Except.bind_eq_ok h
    cases Except.pure_eq_ok h
    simp only [List.zip_cons_cons, Chain]
    exact ⟨ms1, hstep, ih ms1 os hrun⟩

/-- conversely a chain is a run -/
theorem chain_run {σ} (g : Rng σ) (ms ms' : MacState × σ) (t : List (Ev × Out)) (h : Chain g ms t ms') :
    run g ms (t.map (·.1)) = .ok (ms', t.map (·.2)) := by
  induction t generalizing ms with
  | nil => simp only [Chain] at h; subst h; rfl
  | cons x rest ih =>
    obtain ⟨ev, out⟩ := x
    simp only [Chain] at h
    obtain ⟨ms1, hstep, hrest⟩ := h
    simp only [List.map_cons, run, hstep, ih ms1 hrest, bind, Except.bind, pure, Except.pure]

/-- a chain can be cut anywhere: the prefix is a chain to an intermediate state, the rest a chain from it -/
theorem chain_split {σ} (g : Rng σ) (ms ms' : MacState × σ) (t : List (Ev × Out)) (i : Nat) (h : Chain g ms t ms') :
    ∃ msi, Chain g ms (t.take i) msi ∧ Chain g msi (t.drop i) ms' := by
  induction t generalizing ms i with
  | nil => simp only [Chain] at h; subst h; exact ⟨ms', by simp [Chain], by simp [Chain]⟩
  | cons x rest ih =>
    obtain ⟨ev, out⟩ := x
    cases i with
    | zero => exact ⟨ms, by simp [Chain], by simpa using h⟩
    | succ i =>
      simp only [Chain] at h
      obtain ⟨ms1, hstep, hrest⟩ := h
      obtain ⟨msi, h1, h2⟩ := ih ms1 i hrest
      exact ⟨msi, by simp only [List.take_succ_cons, Chain]; exact ⟨ms1, hstep, h1⟩, by simpa using h2⟩

/-- the `i`-th step of a chain: the state before it, the step itself -/
theorem chain_at {σ} (g : Rng σ) (ms ms' : MacState × σ) (t : List (Ev × Out)) (i : Nat) (ev : Ev) (out : Out)
    (h : Chain g ms t ms') (hi : t[i]? = some (ev, out)) :
    ∃ msi msi', Chain g ms (t.take i) msi ∧ step g msi ev = .ok (msi', out) ∧ Chain g msi' (t.drop (i + 1)) ms' := by
  obtain ⟨msi, h1, h2⟩ := chain_split g ms ms' t i h
  have hd : t.drop i = (ev, out) :: t.drop (i + 1) := by
    have hlt : i < t.length := by
      rcases Nat.lt_or_ge i t.length with hlt | hge
      · exact hlt
      · rw [List.getElem?_eq_none hge] at hi; cases hi
    rw [List.getElem?_eq_getElem hlt] at hi
    rw [List.drop_eq_getElem_cons hlt]
    simp only [Option.some.injEq] at hi
    rw [hi]
  rw [hd] at h2
  simp only [Chain] at h2
  obtain ⟨msi', hstep, h3⟩ := h2
  exact ⟨msi, msi', h1, hstep, h3⟩

/-! ## ghost-driven trace predicates -/

/-- at every position `P ghost event output`; the ghost moves by `next` -/
def TraceD {G} (next : G → Ev → Out → G) (P : G → Ev → Out → Prop) : G → List (Ev × Out) → Prop
  | _, [] => True
  | gh, (ev, out) :: rest => P gh ev out ∧ TraceD next P (next gh ev out) rest

/-- the ghost after a trace -/
def ghostAfter {G} (next : G → Ev → Out → G) : G → List (Ev × Out) → G
  | gh, [] => gh
  | gh, (ev, out) :: rest => ghostAfter next (next gh ev out) rest

/-- relational ghost move: `P ghost event output ghost'` -/
def TraceR {G} (P : G → Ev → Out → G → Prop) : G → List (Ev × Out) → Prop
  | _, [] => True
  | gh, (ev, out) :: rest => ∃ gh', P gh ev out gh' ∧ TraceR P gh' rest

theorem chain_traceD {σ G} (g : Rng σ) (next : G → Ev → Out → G) (P : G → Ev → Out → Prop)
    (Rel : MacState → G → Prop) (V : Ev → Prop)
    (hstep : ∀ m s ev m' s' out gh, Rel m gh → V ev → step g (m, s) ev = .ok ((m', s'), out) →
      P gh ev out ∧ Rel m' (next gh ev out))
    (ms ms' : MacState × σ) (t : List (Ev × Out)) (gh : G) (hr : Rel ms.1 gh) (hv : ∀ x ∈ t, V x.1)
    (h : Chain g ms t ms') : TraceD next P gh t ∧ Rel ms'.1 (ghostAfter next gh t) := by
  induction t generalizing ms gh with
  | nil => simp only [Chain] at h; subst h; exact ⟨trivial, hr⟩
  | cons x rest ih =>
    obtain ⟨ev, out⟩ := x
    simp only [Chain] at h
    obtain ⟨⟨m1, s1⟩, hs, hrest⟩ := h
    obtain ⟨hp, hr1⟩ := hstep ms.1 ms.2 ev m1 s1 out gh hr (hv (ev, out) List.mem_cons_self) hs
    obtain ⟨ht, hr2⟩ := ih (m1, s1) (next gh ev out) hr1 (fun x hx => hv x (List.mem_cons_of_mem _ hx)) hrest
    exact ⟨⟨hp, ht⟩, hr2⟩

theorem chain_traceR {σ G} (g : Rng σ) (P : G → Ev → Out → G → Prop)
    (Rel : MacState → G → Prop) (V : Ev → Prop)
    (hstep : ∀ m s ev m' s' out gh, Rel m gh → V ev → step g (m, s) ev = .ok ((m', s'), out) →
      ∃ gh', P gh ev out gh' ∧ Rel m' gh')
    (ms ms' : MacState × σ) (t : List (Ev × Out)) (gh : G) (hr : Rel ms.1 gh) (hv : ∀ x ∈ t, V x.1)
    (h : Chain g ms t ms') : TraceR P gh t := by
  induction t generalizing ms gh with
  | nil => trivial
  | cons x rest ih =>
    obtain ⟨ev, out⟩ := x
    simp only [Chain] at h
    obtain ⟨⟨m1, s1⟩, hs, hrest⟩ := h
    obtain ⟨gh', hp, hr1⟩ := hstep ms.1 ms.2 ev m1 s1 out gh hr (hv (ev, out) List.mem_cons_self) hs
    exact ⟨gh', hp, ih (m1, s1) gh' hr1 (fun x hx => hv x (List.mem_cons_of_mem _ hx)) hrest⟩

/-- what a deterministic-ghost trace says about its `i`-th position -/
theorem traceD_at {G} (next : G → Ev → Out → G) (P : G → Ev → Out → Prop) (gh : G) (t : List (Ev × Out)) (i : Nat)
    (ev : Ev) (out : Out) (h : TraceD next P gh t) (hi : t[i]? = some (ev, out)) :
    P (ghostAfter next gh (t.take i)) ev out := by
  induction t generalizing gh i with
  | nil => simp at hi
  | cons x rest ih =>
    obtain ⟨e0, o0⟩ := x
    cases i with
    | zero =>
      simp only [List.getElem?_cons_zero, Option.some.injEq, Prod.mk.injEq] at hi
      obtain ⟨rfl, rfl⟩ := hi
      exact h.1
    | succ i =>
      simp only [List.getElem?_cons_succ] at hi
      simp only [List.take_succ_cons, ghostAfter]
      exact ih (next gh e0 o0) i h.2 hi

theorem traceD_drop {G} (next : G → Ev → Out → G) (P : G → Ev → Out → Prop) (gh : G) (t : List (Ev × Out)) (i : Nat)
    (h : TraceD next P gh t) : TraceD next P (ghostAfter next gh (t.take i)) (t.drop i) := by
  induction t generalizing gh i with
  | nil => simp [TraceD]
  | cons x rest ih =>
    obtain ⟨e0, o0⟩ := x
    cases i with
    | zero => simpa [ghostAfter] using h
    | succ i =>
      simp only [List.take_succ_cons, ghostAfter, List.drop_succ_cons]
      exact ih (next gh e0 o0) i h.2

end Model
