import LoraVerif.Rt
/-! Rewriting lemmas for the checked primitives of `Rt`, in a form `simp (disch := omega)` can use. -/
namespace Rt

theorem ck_i32 {x : Int} (h1 : -2147483648 ≤ x) (h2 : x ≤ 2147483647) : ck .i32 x = some x := by
  apply ck_eq_some; simp [ITy.lo, ITy.hi, ITy.signed, ITy.bits]; omega
theorem ck_u32 {x : Int} (h1 : 0 ≤ x) (h2 : x ≤ 4294967295) : ck .u32 x = some x := by
  apply ck_eq_some; simp [ITy.lo, ITy.hi, ITy.signed, ITy.bits]; omega
theorem ck_u64 {x : Int} (h1 : 0 ≤ x) (h2 : x ≤ 18446744073709551615) : ck .u64 x = some x := by
  apply ck_eq_some; simp [ITy.lo, ITy.hi, ITy.signed, ITy.bits]; omega
theorem ck_i16 {x : Int} (h1 : -32768 ≤ x) (h2 : x ≤ 32767) : ck .i16 x = some x := by
  apply ck_eq_some; simp [ITy.lo, ITy.hi, ITy.signed, ITy.bits]; omega
theorem ck_u16 {x : Int} (h1 : 0 ≤ x) (h2 : x ≤ 65535) : ck .u16 x = some x := by
  apply ck_eq_some; simp [ITy.lo, ITy.hi, ITy.signed, ITy.bits]; omega
theorem ck_u8 {x : Int} (h1 : 0 ≤ x) (h2 : x ≤ 255) : ck .u8 x = some x := by
  apply ck_eq_some; simp [ITy.lo, ITy.hi, ITy.signed, ITy.bits]; omega
theorem ck_i8 {x : Int} (h1 : -128 ≤ x) (h2 : x ≤ 127) : ck .i8 x = some x := by
  apply ck_eq_some; simp [ITy.lo, ITy.hi, ITy.signed, ITy.bits]; omega
theorem ck_i64 {x : Int} (h1 : -9223372036854775808 ≤ x) (h2 : x ≤ 9223372036854775807) : ck .i64 x = some x := by
  apply ck_eq_some; simp [ITy.lo, ITy.hi, ITy.signed, ITy.bits]; omega

theorem ck_i8_none {x : Int} (h : x < -128 ∨ 127 < x) : ck .i8 x = none := by
  apply ck_eq_none; simp [ITy.lo, ITy.hi, ITy.signed, ITy.bits]; omega
theorem ck_u32_none {x : Int} (h : x < 0 ∨ 4294967295 < x) : ck .u32 x = none := by
  apply ck_eq_none; simp [ITy.lo, ITy.hi, ITy.signed, ITy.bits]; omega

theorem tdiv_nonneg_eq {a b : Int} (ha : 0 ≤ a) : Int.tdiv a b = a / b :=
  Int.tdiv_eq_ediv_of_nonneg ha

theorem tdiv_neg_eq {a b : Int} (ha : a ≤ 0) : Int.tdiv a b = -((-a) / b) := by
  have : a = -(-a) := by omega
  rw [this, Int.neg_tdiv, Int.tdiv_eq_ediv_of_nonneg (by omega)]; simp

theorem divC_pos {t a b} (ha : 0 ≤ a) (hb : 0 < b) : divC t a b = ck t (a / b) := by
  have : b ≠ 0 := by omega
  simp [divC, this, tdiv_nonneg_eq ha]
theorem divC_neg {t a b} (ha : a ≤ 0) (hb : 0 < b) : divC t a b = ck t (-((-a) / b)) := by
  have : b ≠ 0 := by omega
  simp [divC, this, tdiv_neg_eq ha]

theorem wrap_id_i32 {x : Int} (h1 : -2147483648 ≤ x) (h2 : x ≤ 2147483647) : wrap .i32 x = x := by
  simp [wrap, ITy.bits, ITy.signed]; omega
theorem wrap_id_u32 {x : Int} (h1 : 0 ≤ x) (h2 : x ≤ 4294967295) : wrap .u32 x = x := by
  simp [wrap, ITy.bits, ITy.signed]; omega
theorem wrap_id_u16 {x : Int} (h1 : 0 ≤ x) (h2 : x ≤ 65535) : wrap .u16 x = x := by
  simp [wrap, ITy.bits, ITy.signed]; omega
theorem wrap_id_u8 {x : Int} (h1 : 0 ≤ x) (h2 : x ≤ 255) : wrap .u8 x = x := by
  simp [wrap, ITy.bits, ITy.signed]; omega
theorem wrap_id_i16 {x : Int} (h1 : -32768 ≤ x) (h2 : x ≤ 32767) : wrap .i16 x = x := by
  simp [wrap, ITy.bits, ITy.signed]; omega
theorem wrap_id_u64 {x : Int} (h1 : 0 ≤ x) (h2 : x ≤ 18446744073709551615) : wrap .u64 x = x := by
  simp [wrap, ITy.bits, ITy.signed]; omega

/-- The simp set that evaluates a generated `do` block step by step; side conditions by `omega`. -/
macro "rt_simp" : tactic =>
  `(tactic| simp (disch := omega) only [ck_i32, ck_u32, ck_u64, ck_i16, ck_u16, ck_u8, ck_i8, ck_i64,
      divC_pos, divC_neg, wrap_id_i32, wrap_id_u32, wrap_id_u16, wrap_id_u8, wrap_id_i16, wrap_id_u64,
      Option.bind_some, Option.bind_eq_bind, Option.pure_def, bind_pure, pure_bind])

end Rt

/-! builder J: `usize` arithmetic of the generated comparison helpers (`Gen/UplinkStatic`, `Gen/SessionStatic`) -/
namespace Rt

theorem ck_usize {x : Int} (h1 : 0 ≤ x) (h2 : x ≤ 18446744073709551615) : ck .usize x = some x := by
  apply ck_eq_some; simp [ITy.lo, ITy.hi, ITy.signed, ITy.bits]; omega

end Rt
