import LoraVerif.Lemmas.MacWFStep
/-!
The hang side of C04 / "channel selection always terminates" of C09: in every well-formed state the
accept set of every retry loop that `Mac::send` / `Mac::join_otaa` can enter is NOT EMPTY.
Stated end to end: there is a draw value `v < 64` such that with a generator that yields `v` the
whole call returns (`macSend_returns`, `macJoinOtaa_returns`) — every rejection-sampling loop accepts
at its first draw.  Ingredients: after the fallback a dynamic plan offers a usable channel whose index
is inside the range the draw is reduced to; a fixed plan's mask offers a channel of the bandwidth the
data rate needs; the join-channel walk always has a free channel in the bank it turns to (`AvInv`,
`Lemmas/JoinWalk.lean`).
-/
open Gen.Region Gen.Modulation

namespace Model

/-- the generator that always yields `v` -/
def constGen {σ} (v : Nat) : Rng σ := fun s => (v, s)

theorem draw_const {σ} (v : Nat) (s : σ) (hv : v < 4294967296) : draw (constGen v) s = (v, s) := by
  unfold draw constGen
  simp only [Nat.mod_eq_of_lt hv]

theorem dynJoinLoop_const {σ} (v n fuel : Nat) (s : σ) (hv : v < 4294967296) (h : v % 4 < n) :
    dynJoinLoop (constGen v) n (fuel + 1) s = .ok (v % 4, s) := by
  unfold dynJoinLoop
  simp only [draw_const v s hv]
  have : ¬ v % 4 ≥ n := by omega
  simp only [this, if_false]; rfl

theorem fixedMaskLoop_const {σ} (v : Nat) (mask : Mask) (bits base fuel : Nat) (s : σ) (hv : v < 4294967296)
    (h : mask.isEnabled (v % bits + base) = .ok true) :
    fixedMaskLoop (constGen v) mask bits base (fuel + 1) s = .ok (base + v % bits, s) := by
  unfold fixedMaskLoop
  simp only [draw_const v s hv, h, ok_bind', if_true]; rfl

theorem entropyLoop_first {σ} (g : Rng σ) (avail : Mask) (bank fuel e used : Nat) (s : σ)
    (h : avail.isEnabled (e % 8 + bank * 8) = .ok true) :
    entropyLoop g avail bank (fuel + 1) e used s = .ok (e % 8 + bank * 8, s) := by
  unfold entropyLoop
  simp only [h, ok_bind', if_true]; rfl

/-- a bank with a free channel: some 3-bit value names it -/
theorem bank_offer (m : Mask) (k : Nat) (hm : m.length = 9) (hlt : ∀ b ∈ m, b < 256) (hk : k < 9) (hc : 1 ≤ bankCnt m k) :
    ∃ j, j < 8 ∧ m.isEnabled (j + k * 8) = .ok true := by
  unfold bankCnt at hc
  have hidx : k < m.length := by omega
  rw [List.getElem?_eq_getElem hidx] at hc
  simp only at hc
  obtain ⟨j, hj, ht⟩ := byte_pos (hlt _ (List.getElem_mem hidx)) hc
  refine ⟨j, hj, ?_⟩
  unfold Mask.isEnabled
  have h1 : ¬ j + k * 8 > m.length * 8 - 1 := by omega
  have h2 : (j + k * 8) / 8 = k := by omega
  have h3 : (j + k * 8) % 8 = j := by omega
  simp only [h1, if_false, h2, h3]
  rw [List.getElem?_eq_getElem hidx]
  simp only [ht]

theorem Safe.to_tot {α} {x : M α} {P : α → Prop} (h : Safe x P) (hr : ∃ r, x = .ok r) : Tot x P := by
  obtain ⟨r, hr⟩ := hr
  exact ⟨r, hr, h.elim hr⟩

theorem Tot.returns {α} {x : M α} {P : α → Prop} (h : Tot x P) : ∃ r, x = .ok r := by
  obtain ⟨r, hr, _⟩ := h
  exact ⟨r, hr⟩

/-- **the walk always has a channel to offer**: outside the biased phase there is a 3-bit draw value
on which `AvailableChannels::get_next` returns (at once) -/
theorem availGetNext_returns (j : JoinChannels) (h : jcWF j = true)
    (hnb : ¬ (j.preferredSubband.isSome = true ∧ j.numRetries < j.maxRetries)) :
    ∃ v, v < 8 ∧ ∀ {σ : Type} (s : σ), Tot (availGetNext (constGen v) j s) (fun r => r.1 < 72 ∧ jcWF r.2.1 = true) := by
  obtain ⟨ha, hsb, hav, _⟩ := jcWF_iff.mp h
  -- the draw value: a free channel of the bank the walk turns to (0 when no loop can be entered)
  have hv : ∃ v, v < 8 ∧ (availIsExhausted j.avail = false → ∀ pv, j.availPrev = some pv →
      j.avail.isEnabled (v + ((pv / 8 + 1) % 9) * 8) = .ok true) := by
    by_cases hex : availIsExhausted j.avail = false
    · cases hp : j.availPrev with
      | none => exact ⟨0, by decide, fun _ pv e => by cases e⟩
      | some pv =>
        rw [hp] at hav
        have hne := avInv_next_nonempty j.avail pv hav hex
        obtain ⟨v, hv8, hen⟩ := bank_offer j.avail _ ha hav.2.1 (Nat.mod_lt _ (by decide)) hne
        exact ⟨v, hv8, fun _ pv' e => by cases e; exact hen⟩
    · exact ⟨0, by decide, fun e => absurd e hex⟩
  obtain ⟨v, hv8, hoffer⟩ := hv
  refine ⟨v, hv8, fun {σ} s => ?_⟩
  apply (availGetNext_safe (constGen v) j s h hnb).to_tot
  have hv32 : v < 4294967296 := by omega
  unfold availGetNext
  by_cases hex : availIsExhausted j.avail = true
  · simp only [hex, if_true, availGetNextInner, draw_const v s hv32, pure, Except.pure, ok_bind']
    have hch : v % 256 % 64 < 72 := by omega
    obtain ⟨a', hs', _⟩ := setChannel_tot Mask.default (v % 256 % 64) false (by decide) hch
    rw [hs']; exact ⟨_, rfl⟩
  · have hex' : availIsExhausted j.avail = false := by simpa using hex
    simp only [hex, Bool.false_eq_true, if_false]
    cases hp : j.availPrev with
    | none =>
      simp only [availGetNextInner, draw_const v s hv32, pure, Except.pure, ok_bind']
      have hch : v % 256 % 64 < 72 := by omega
      obtain ⟨a', hs', _⟩ := setChannel_tot j.avail (v % 256 % 64) false ha hch
      rw [hs']; exact ⟨_, rfl⟩
    | some pv =>
      rw [hp] at hav
      have hpv : pv < 72 := hav.2.2.1
      have hn : (pv + 8) % 72 < 72 := Nat.mod_lt _ (by decide)
      have hbank : (pv + 8) % 72 / 8 = (pv / 8 + 1) % 9 := by omega
      obtain ⟨b, hen, _⟩ := isEnabled_tot j.avail ((pv + 8) % 72) ha hn
      simp only [availGetNextInner, hen, ok_bind']
      cases b
      · simp only [Bool.false_eq_true, if_false, draw_const v s hv32]
        have hoff := hoffer hex' pv hp
        have hv8' : v % 8 = v := Nat.mod_eq_of_lt hv8
        have : entropyLoop (constGen v) j.avail ((pv + 8) % 72 / 8) loopFuel v 1 s = .ok (v % 8 + (pv + 8) % 72 / 8 * 8, s) :=
          entropyLoop_first (constGen v) j.avail _ 4095 v 1 s (by rw [hv8', hbank]; exact hoff)
        rw [this]
        simp only [ok_bind']
        obtain ⟨a', hs', _⟩ := setChannel_tot j.avail (v % 8 + (pv + 8) % 72 / 8 * 8) false ha (by omega)
        rw [hs']; exact ⟨_, rfl⟩
      · simp only [if_true, pure, Except.pure, ok_bind']
        obtain ⟨a', hs', _⟩ := setChannel_tot j.avail ((pv + 8) % 72) false ha hn
        rw [hs']; exact ⟨_, rfl⟩

theorem getNextChannel_returns (j : JoinChannels) (h : jcWF j = true) :
    ∃ v, v < 8 ∧ ∀ {σ : Type} (s : σ), Tot (j.getNextChannel (constGen v) s) (fun r => r.1 < 72 ∧ jcWF r.2.1 = true) := by
  obtain ⟨ha, hsb, hav, hbf⟩ := jcWF_iff.mp h
  by_cases hb : j.preferredSubband.isSome = true ∧ j.numRetries < j.maxRetries
  · -- biased attempt: no loop at all
    refine ⟨0, by decide, fun {σ} s => ?_⟩
    apply (getNextChannel_safe (constGen 0) j s h).to_tot
    obtain ⟨hfa, hfp⟩ := biasFresh_iff.mp hbf hb.1 hb.2
    unfold JoinChannels.getNextChannel
    cases hp : j.preferredSubband with
    | none => rw [hp] at hb; cases hb.1
    | some sb =>
      obtain ⟨hsb1, hsb8⟩ := hsb sb hp
      simp only [hb.2, if_true, draw_const 0 s (by decide)]
      have hsbm : (sb - 1) % 256 = sb - 1 := Nat.mod_eq_of_lt (by omega)
      have hng : ¬ 0 % 8 + (sb - 1) % 256 * 8 > 255 := by omega
      simp only [hng, if_false]
      split
      · obtain ⟨a', hs', _⟩ := setChannel_tot j.avail (0 % 8 + (sb - 1) % 256 * 8) false ha (by omega)
        simp only [hs', ok_bind', pure, Except.pure]; exact ⟨_, rfl⟩
      · simp only [pure, Except.pure, ok_bind']; exact ⟨_, rfl⟩
  · have hinc : jcWF { j with numRetries := j.numRetries + 1 } = true :=
      jcWF_iff.mpr ⟨ha, hsb, hav, biasFresh_iff.mpr (fun h1 h2 => by
        exfalso; apply hb; exact ⟨h1, by simp only at h2; omega⟩)⟩
    have hnb' : ¬ (({ j with numRetries := j.numRetries + 1 } : JoinChannels).preferredSubband.isSome = true ∧
        ({ j with numRetries := j.numRetries + 1 } : JoinChannels).numRetries <
          ({ j with numRetries := j.numRetries + 1 } : JoinChannels).maxRetries) := by
      intro ⟨h1, h2⟩; apply hb; exact ⟨h1, by simp only at h2; omega⟩
    obtain ⟨v, hv8, hret⟩ := availGetNext_returns _ hinc hnb'
    refine ⟨v, hv8, fun {σ} s => ?_⟩
    apply (getNextChannel_safe (constGen v) j s h).to_tot
    unfold JoinChannels.getNextChannel
    cases hp : j.preferredSubband with
    | none => simp only; rw [hp] at hret; exact (hret s).returns
    | some sb =>
      have : ¬ j.numRetries < j.maxRetries := fun hh => hb ⟨by rw [hp]; rfl, hh⟩
      simp only [this, if_false]
      rw [hp] at hret
      exact (hret s).returns

/-! ## dynamic plans: after the fallback some draw names a usable channel -/

theorem getLast_filter_range (P : Nat → Bool) (n i : Nat) (hi : i < n) (hP : P i = true) :
    ∃ y, ((List.range n).filter P).getLast? = some y ∧ i ≤ y ∧ y < n := by
  induction n with
  | zero => omega
  | succ n ih =>
    rw [List.range_succ, List.filter_append]
    by_cases hn : P n = true
    · refine ⟨n, ?_, by omega, by omega⟩
      simp [hn]
    · have hin : i ≠ n := fun e => hn (e ▸ hP)
      obtain ⟨y, hy, h1, h2⟩ := ih (by omega)
      refine ⟨y, ?_, h1, by omega⟩
      simp [hn, hy]

theorem usable_spec' (p : DynPlan) (i : Nat) (c : Channel) (h : p.usable i = .ok (some c)) :
    p.mask.isEnabled i = .ok true ∧ p.channels[i]? = some (some c) := by
  unfold DynPlan.usable at h
  obtain ⟨en, hen, h⟩ := Except.bind_eq_ok h
  cases en
  · simp [pure, Except.pure] at h
  · simp only [if_true] at h
    refine ⟨hen, ?_⟩
    split at h
    · rename_i c' hc'
      simp only [pure, Except.pure, Except.ok.injEq] at h
      rw [hc', h]
    · cases h

theorem range_gt (r : RegionId) (p : DynPlan) (h : dynWF r p = true) (i : Nat) (c : Channel)
    (hch : p.channels[i]? = some (some c)) : ∃ n, p.range = .ok n ∧ i < n ∧ n ≤ 16 := by
  obtain ⟨hc, _, _, _⟩ := dynWF_iff.mp h
  have hi : i < p.channels.length := (List.getElem?_eq_some_iff.mp hch).1
  obtain ⟨y, hy, h1, h2⟩ := getLast_filter_range
    (fun i => match p.channels[i]? with | some (some _) => true | _ => false) p.channels.length i hi (by simp only [hch])
  unfold DynPlan.range
  simp only
  generalize hl : (List.range p.channels.length).filter
    (fun i => match p.channels[i]? with | some (some _) => true | _ => false) = idxs
  have hy' : idxs.getLast? = some y := by rw [← hl]; exact hy
  rw [hy']
  exact ⟨y + 1, rfl, by omega, by omega⟩

/-- a draw that names a usable channel is inside the range the draw is reduced to -/
theorem randomInRange_const {σ} (r : RegionId) (p : DynPlan) (h : dynWF r p = true) (i : Nat) (c : Channel)
    (hu : p.usable i = .ok (some c)) (s : σ) : p.randomInRange (constGen i) s = .ok (i, s) := by
  obtain ⟨_, hch⟩ := usable_spec' p i c hu
  obtain ⟨n, hn, h1, h2⟩ := range_gt r p h i c hch
  unfold DynPlan.randomInRange
  simp only [hn, ok_bind', draw_const i s (by omega)]
  have h16 : ¬ n > 16 := by omega
  simp only [h16, if_false, pure, Except.pure]
  by_cases h8 : n > 8
  · simp only [h8, if_true]
    have : i % (15 + 1) = i := Nat.mod_eq_of_lt (by omega)
    rw [this]
  · simp only [h8, if_false]
    have : i % (7 + 1) = i := Nat.mod_eq_of_lt (by omega)
    rw [this]

theorem dynDataLoop_const {σ} (r : RegionId) (p : DynPlan) (h : dynWF r p = true) (i : Nat) (c : Channel)
    (hu : p.usable i = .ok (some c)) (fuel : Nat) (s : σ) : dynDataLoop (constGen i) p (fuel + 1) s = .ok (c, s) := by
  unfold dynDataLoop
  simp [randomInRange_const r p h i c hu s, hu, bind, Except.bind, pure, Except.pure]

theorem anyM_true {α} (f : α → M Bool) (l : List α) (h : anyM f l = .ok true) : ∃ a ∈ l, f a = .ok true := by
  induction l with
  | nil => simp [anyM] at h
  | cons a rest ih =>
    unfold anyM at h
    obtain ⟨b, hb, h⟩ := Except.bind_eq_ok h
    cases b
    · simp only [Bool.false_eq_true, if_false] at h
      obtain ⟨a', ha', hf⟩ := ih h
      exact ⟨a', List.mem_cons_of_mem _ ha', hf⟩
    · exact ⟨a, List.mem_cons_self, hb⟩

theorem setChannel_true_spec (m m' : Mask) (ch : Nat) (hm : m.length = 9) (hch : ch < 72)
    (hs : m.setChannel ch true = .ok m') :
    m'.isEnabled ch = .ok true ∧ ∀ c, c < 72 → m.isEnabled c = .ok true → m'.isEnabled c = .ok true := by
  have hidx : ch / 8 < m.length := by omega
  unfold Mask.setChannel at hs
  rw [List.getElem?_eq_getElem hidx] at hs
  simp only [if_true, Except.ok.injEq] at hs
  subst hs
  have hen : ∀ c, c < 72 → Mask.isEnabled (m.set (ch / 8) (m[ch / 8] ||| 1 <<< (ch % 8))) c =
      .ok (if c / 8 = ch / 8 then (m[ch / 8] ||| 1 <<< (ch % 8)).testBit (c % 8) else m[c / 8]!.testBit (c % 8)) := by
    intro c hc
    unfold Mask.isEnabled
    have h1 : ¬ c > (m.set (ch / 8) (m[ch / 8] ||| 1 <<< (ch % 8))).length * 8 - 1 := by simp [hm]; omega
    simp only [h1, if_false]
    by_cases hcc : c / 8 = ch / 8
    · rw [hcc, List.getElem?_set_self hidx]; simp
    · rw [List.getElem?_set_ne (Ne.symm hcc)]
      have hci : c / 8 < m.length := by omega
      rw [List.getElem?_eq_getElem hci]
      simp [hcc, getElem!_pos m (c / 8) hci]
  constructor
  · rw [hen ch hch]
    simp [Nat.testBit_or, Nat.testBit_shiftLeft]
  · intro c hc hcen
    rw [hen c hc]
    have hci : c / 8 < m.length := by omega
    have hold : m[c / 8].testBit (c % 8) = true := by
      unfold Mask.isEnabled at hcen
      have h1 : ¬ c > m.length * 8 - 1 := by omega
      simp only [h1, if_false] at hcen
      rw [List.getElem?_eq_getElem hci] at hcen
      exact Except.ok.inj hcen
    by_cases hcc : c / 8 = ch / 8
    · simp only [hcc, if_true, Nat.testBit_or]
      have : m[ch / 8] = m[c / 8] := by simp [hcc]
      rw [this, hold]; rfl
    · simp only [hcc, if_false, getElem!_pos m (c / 8) hci]
      rw [hold]

theorem foldlM_setChannel_enabled (l : List Nat) (m m' : Mask) (hm : m.length = 9) (hl : ∀ i ∈ l, i < 72)
    (hs : l.foldlM (fun m i => m.setChannel i true) m = .ok m') :
    (∀ i ∈ l, m'.isEnabled i = .ok true) ∧ ∀ c, c < 72 → m.isEnabled c = .ok true → m'.isEnabled c = .ok true := by
  induction l generalizing m with
  | nil =>
    simp only [List.foldlM_nil, pure, Except.pure, Except.ok.injEq] at hs
    subst hs
    exact ⟨fun i hi => (by cases hi), fun c _ h => h⟩
  | cons a rest ih =>
    rw [List.foldlM_cons] at hs
    obtain ⟨m1, h1, hs⟩ := Except.bind_eq_ok hs
    have ha := hl a List.mem_cons_self
    have hlen : m1.length = 9 := by
      obtain ⟨x, hx, hxl⟩ := setChannel_tot m a true hm ha
      rw [hx] at h1; cases h1; exact hxl
    obtain ⟨he1, hp1⟩ := setChannel_true_spec m m1 a hm ha h1
    obtain ⟨he2, hp2⟩ := ih m1 hlen (fun i hi => hl i (List.mem_cons_of_mem _ hi)) hs
    constructor
    · intro i hi
      rcases List.mem_cons.mp hi with rfl | hi
      · exact hp2 _ ha he1
      · exact he2 i hi
    · intro c hc hcen
      exact hp2 c hc (hp1 c hc hcen)

/-! ## fixed plans: after the fallback the mask offers a channel of the needed bandwidth -/

theorem fallback500 (m : Mask) (hm : m.length = 9) :
    ∃ (any : Bool) (m' : Mask) (v : Nat), anyM (fun i => m.isEnabled i) ((List.range 8).map (· + 64)) = .ok any ∧
      (if any = true then (pure m : M Mask) else m.setBank 8 255) = .ok m' ∧ m'.length = 9 ∧ v < 8 ∧
      m'.isEnabled (v % 8 + 64) = .ok true := by
  obtain ⟨any, hany, _⟩ := anyM_tot (fun i => m.isEnabled i) ((List.range 8).map (· + 64)) (fun i hi => by
    simp only [List.mem_map, List.mem_range] at hi
    obtain ⟨j, hj, rfl⟩ := hi
    exact isEnabled_tot m _ hm (by omega))
  cases any with
  | true =>
    obtain ⟨i, hi, hen⟩ := anyM_true _ _ hany
    simp only [List.mem_map, List.mem_range] at hi
    obtain ⟨j, hj, rfl⟩ := hi
    refine ⟨true, m, j, hany, rfl, hm, hj, ?_⟩
    rw [Nat.mod_eq_of_lt hj]; exact hen
  | false =>
    refine ⟨false, m.set 8 255, 0, hany, ?_, by simp [hm], by decide, ?_⟩
    · simp only [Bool.false_eq_true, if_false]
      unfold Mask.setBank
      simp [hm]
    · unfold Mask.isEnabled
      simp only [List.length_set, hm]
      have : (m.set 8 255)[(0 % 8 + 64) / 8]? = some 255 := by
        have : (0 % 8 + 64) / 8 = 8 := by decide
        rw [this, List.getElem?_set_self (by omega)]
      rw [this]
      rfl

theorem setBanks_all (m : Mask) (hm : m.length = 9) :
    ∃ a8, setBanks m ((List.range 8).map (fun i => (i, 255))) = .ok [255, 255, 255, 255, 255, 255, 255, 255, a8] := by
  rcases m with _ | ⟨a0, _ | ⟨a1, _ | ⟨a2, _ | ⟨a3, _ | ⟨a4, _ | ⟨a5, _ | ⟨a6, _ | ⟨a7, _ | ⟨a8, _ | ⟨a9, rest⟩⟩⟩⟩⟩⟩⟩⟩⟩⟩ <;>
    simp only [List.length_nil, List.length_cons] at hm <;> try omega
  exact ⟨a8, rfl⟩

theorem fallback125 (m : Mask) (hm : m.length = 9) :
    ∃ (any : Bool) (m' : Mask) (v : Nat), anyM (fun i => m.isEnabled i) (List.range 64) = .ok any ∧
      (if any = true then (pure m : M Mask) else setBanks m ((List.range 8).map (fun i => (i, 255)))) = .ok m' ∧
      m'.length = 9 ∧ v < 64 ∧ m'.isEnabled (v % 64 + 0) = .ok true := by
  obtain ⟨any, hany, _⟩ := anyM_tot (fun i => m.isEnabled i) (List.range 64) (fun i hi => by
    have := List.mem_range.mp hi
    exact isEnabled_tot m _ hm (by omega))
  cases any with
  | true =>
    obtain ⟨i, hi, hen⟩ := anyM_true _ _ hany
    have hi' := List.mem_range.mp hi
    refine ⟨true, m, i, hany, rfl, hm, hi', ?_⟩
    rw [Nat.mod_eq_of_lt hi']; exact hen
  | false =>
    obtain ⟨a8, hs⟩ := setBanks_all m hm
    refine ⟨false, [255, 255, 255, 255, 255, 255, 255, 255, a8], 0, hany, ?_, ?_, by decide, ?_⟩
    · simp only [Bool.false_eq_true, if_false]; exact hs
    · rfl
    · rfl

/-! ## `select_tx_channel` returns for some draw value -/

theorem getNextChannel_biased_returns {σ} (j : JoinChannels) (h : jcWF j = true)
    (hb : j.preferredSubband.isSome = true ∧ j.numRetries < j.maxRetries) (v : Nat) (hv : v < 4294967296) (s : σ) :
    ∃ r, j.getNextChannel (constGen v) s = .ok r := by
  obtain ⟨ha, hsb, hav, hbf⟩ := jcWF_iff.mp h
  unfold JoinChannels.getNextChannel
  cases hp : j.preferredSubband with
  | none => rw [hp] at hb; cases hb.1
  | some sb =>
    obtain ⟨hsb1, hsb8⟩ := hsb sb hp
    simp only [hb.2, if_true, draw_const v s hv]
    have hsbm : (sb - 1) % 256 = sb - 1 := Nat.mod_eq_of_lt (by omega)
    have hlt : v % 8 < 8 := Nat.mod_lt _ (by decide)
    have hng : ¬ v % 8 + (sb - 1) % 256 * 8 > 255 := by omega
    simp only [hng, if_false]
    split
    · obtain ⟨a', hs', _⟩ := setChannel_tot j.avail (v % 8 + (sb - 1) % 256 * 8) false ha (by omega)
      simp only [hs', ok_bind', pure, Except.pure]; exact ⟨_, rfl⟩
    · simp only [pure, Except.pure, ok_bind']; exact ⟨_, rfl⟩

theorem hasBias_iff (j : JoinChannels) (h : j.hasBiasAndNotExhausted = true) :
    j.preferredSubband.isSome = true ∧ j.numRetries < j.maxRetries := by
  unfold JoinChannels.hasBiasAndNotExhausted at h
  simp only [Bool.and_eq_true, decide_eq_true_eq] at h
  exact ⟨h.1.1, h.1.2⟩

/-- the tail of the fixed-plan selection returns once channel and data rate are in range -/
theorem fixTail_returns {σ} (rs : RegionState) (dr' : DR) (ch : Nat) (jc' : JoinChannels) (mask' : Mask) (s' : σ) (d : Datarate)
    (hd : getDatarate rs.id dr'.toInt.toNat = some d) (hch : ch < 72) :
    ∃ r : TxChannel × RegionState × σ, (do
      let d ← unwrapDatarate "datarates()[dr].unwrap" (← indexDatarate rs.id dr'.toInt.toNat)
      match (uplinkChannels rs.id)[ch]?, (downlinkChannels rs.id)[ch % 8]? with
      | some f, some f1 =>
        (pure (({ dr := dr', datarate := d, frequency := f.toNat, rx1Frequency := f1.toNat } : TxChannel),
          ({ rs with plan := .fix { mask := mask', jc := jc' } } : RegionState), s') : M (TxChannel × RegionState × σ))
      | _, _ => panic "uplink_channels()[channel]") = .ok r := by
  rw [indexDatarate_of_get hd]
  simp only [ok_bind', unwrapDatarate_some]
  rw [List.getElem?_eq_getElem (by rw [uplinkChannels_length]; exact hch),
    List.getElem?_eq_getElem (by rw [downlinkChannels_length]; exact Nat.mod_lt _ (by decide))]
  exact ⟨_, rfl⟩

theorem selectTxChannel_returns (rs : RegionState) (dr : DR) (frame : FrameKind) (h : regionWF rs = true)
    (hdr : isUplinkDatarate rs.id dr.toInt.toNat = true) :
    ∃ v, v < 64 ∧ ∀ {σ : Type} (s : σ), ∃ r, selectTxChannel (constGen v) rs dr frame s = .ok r := by
  obtain ⟨dd, hdd, hlt⟩ := isUplink_get hdr
  have hidx := indexDatarate_of_get hdd
  cases hp : rs.plan with
  | dyn p =>
    have hw := (regionWF_dyn hp).mp h
    obtain ⟨hc, hm, hd, hib⟩ := dynWF_iff.mp hw.2
    obtain ⟨c0, hc0⟩ := hd 0 (numJoinChannels_pos rs.id)
    cases frame with
    | join =>
      refine ⟨0, by decide, fun {σ} s => ?_⟩
      unfold selectTxChannel
      simp only [hp, hidx, ok_bind']
      have hl : dynJoinLoop (constGen 0) (numJoinChannels rs.id) loopFuel s = .ok (0 % 4, s) :=
        dynJoinLoop_const 0 _ 4095 s (by decide) (numJoinChannels_pos rs.id)
      rw [hl]
      simp only [ok_bind']
      have : (0 : Nat) % 4 = 0 := rfl
      rw [this, hc0]
      simp only [unwrapDatarate_some, ok_bind']
      exact ⟨_, rfl⟩
    | data =>
      -- the generator-independent part: is any channel usable, and the plan after the fallback
      obtain ⟨ua, hua, _⟩ := anyM_tot (fun i => do pure (← p.usable i).isSome) (List.range 16) (fun i hi =>
        Tot.bind (usable_tot rs.id p hw.2 i (List.mem_range.mp hi)) (fun _ _ => Tot.pure trivial))
      have hplan : ∃ (p' : DynPlan) (i : Nat) (c : Channel),
          (if ua = true then (pure p : M DynPlan) else do
            let m ← (List.range (numJoinChannels rs.id)).foldlM (fun m i => m.setChannel i true) p.mask
            pure { p with mask := m }) = .ok p' ∧ dynWF rs.id p' = true ∧ i < 16 ∧ p'.usable i = .ok (some c) := by
        cases ua with
        | true =>
          obtain ⟨i, hi, hu⟩ := anyM_true _ _ hua
          obtain ⟨u, hu1, hu2⟩ := Except.bind_eq_ok hu
          have hu3 := Except.pure_eq_ok hu2
          cases u with
          | none => simp at hu3
          | some c => exact ⟨p, i, c, rfl, hw.2, List.mem_range.mp hi, hu1⟩
        | false =>
          have hl72 : ∀ i ∈ List.range (numJoinChannels rs.id), i < 72 := by
            intro i hi
            have := List.mem_range.mp hi
            have := numJoinChannels_le rs.id
            omega
          obtain ⟨m', hm', hl'⟩ := foldlM_setChannel_tot (List.range (numJoinChannels rs.id)) p.mask hm hl72
          obtain ⟨hen, _⟩ := foldlM_setChannel_enabled _ p.mask m' hm hl72 hm'
          have hen0 := hen 0 (List.mem_range.mpr (numJoinChannels_pos rs.id))
          refine ⟨{ p with mask := m' }, 0, c0, ?_, dynWF_iff.mpr ⟨hc, hl', hd, hib⟩, by decide, ?_⟩
          · simp only [Bool.false_eq_true, if_false, hm', ok_bind']; rfl
          · unfold DynPlan.usable
            simp only [hen0, ok_bind', if_true, hc0]; rfl
      obtain ⟨p', i, c, hp', hwf', hi16, husable⟩ := hplan
      refine ⟨i, by omega, fun {σ} s => ?_⟩
      unfold selectTxChannel
      simp only [hp, hidx, ok_bind', hua, hp']
      have hl : dynDataLoop (constGen i) p' loopFuel s = .ok (c, s) := dynDataLoop_const rs.id p' hwf' i c husable 4095 s
      rw [hl]
      simp only [ok_bind', unwrapDatarate_some]
      exact ⟨_, rfl⟩
  | fix p =>
    obtain ⟨hfx, hm, hjc⟩ := (regionWF_fix hp).mp h
    cases frame with
    | join =>
      obtain ⟨v, hv8, hret⟩ := getNextChannel_returns p.jc hjc
      refine ⟨v, by omega, fun {σ} s => ?_⟩
      obtain ⟨⟨ch, jc', s'⟩, hgn, hch, _⟩ := hret s
      unfold selectTxChannel
      simp only [hp, hgn, ok_bind', pure, Except.pure]
      have hjd : ∃ d, getDatarate rs.id (if ch < 64 then DR._0 else join500kDr rs.id).toInt.toNat = some d := by
        split
        · exact (joinDr_defined rs.id hfx).1
        · exact (joinDr_defined rs.id hfx).2
      obtain ⟨d, hd⟩ := hjd
      exact fixTail_returns rs _ ch jc' p.mask s' d hd hch
    | data =>
      by_cases hbw : (dd.bandwidth == Bandwidth._500KHz) = true
      · obtain ⟨any, m', v, hany, hmk, hl', hvlt, hen⟩ := fallback500 p.mask hm
        have hv32 : v < 4294967296 := by omega
        simp only [pure, Except.pure] at hmk
        refine ⟨v, by omega, fun {σ} s => ?_⟩
        have hst1 : ∃ (biased : Option Nat) (jc0 : JoinChannels) (s0 : σ),
            (if p.jc.hasBiasAndNotExhausted = true then do
                let __x ← JoinChannels.getNextChannel (constGen v) p.jc s
                let en ← p.mask.isEnabled __x.fst
                (pure (if en = true then some __x.fst else none, __x.2.fst, __x.2.snd) : M (Option Nat × JoinChannels × σ))
              else pure (none, p.jc, s)) = .ok (biased, jc0, s0) ∧ jcWF jc0 = true ∧ ∀ ch, biased = some ch → ch < 72 := by
          by_cases hbias : p.jc.hasBiasAndNotExhausted = true
          · obtain ⟨⟨ch, jc', s'⟩, hgn⟩ := getNextChannel_biased_returns p.jc hjc (hasBias_iff _ hbias) v hv32 s
            obtain ⟨hch, hjc'⟩ := (getNextChannel_safe (constGen v) p.jc s hjc).elim hgn
            obtain ⟨en, hen', _⟩ := isEnabled_tot p.mask ch hm hch
            refine ⟨if en = true then some ch else none, jc', s', ?_, hjc', ?_⟩
            · simp only [hbias, if_true, hgn, ok_bind', hen']; rfl
            · intro ch' e
              cases en
              · simp at e
              · simp only [if_true, Option.some.injEq] at e; omega
          · exact ⟨none, p.jc, s, by simp only [hbias, Bool.false_eq_true, if_false]; rfl, hjc, fun ch e => by cases e⟩
        obtain ⟨biased, jc0, s0, hs1, hjc0, hb72⟩ := hst1
        unfold selectTxChannel
        simp only [hp, hs1, ok_bind']
        cases biased with
        | some ch =>
          simp only [pure, Except.pure, ok_bind']
          have hjd : ∃ d, getDatarate rs.id (if ch < 64 then DR._0 else join500kDr rs.id).toInt.toNat = some d := by
            split
            · exact (joinDr_defined rs.id hfx).1
            · exact (joinDr_defined rs.id hfx).2
          obtain ⟨d, hd⟩ := hjd
          exact fixTail_returns rs _ ch jc0 p.mask s0 d hd (hb72 ch rfl)
        | none =>
          simp only [hidx, ok_bind', unwrapDatarate_some]
          obtain ⟨hfd1, hfd2⟩ := firstDataChannel_wf (constGen v) jc0 s0 hjc0
          generalize JoinChannels.firstDataChannel (constGen v) jc0 s0 = fd at hfd1 hfd2 ⊢
          obtain ⟨pref, jcf, sf⟩ := fd
          simp only at hfd1 hfd2
          simp only [pure, Except.pure]
          cases pref with
          | none =>
            simp only [ok_bind']
            simp only [hbw, if_true, hany, ok_bind', hmk]
            have hl : fixedMaskLoop (constGen v) m' 8 64 loopFuel sf = .ok (64 + v % 8, sf) :=
              fixedMaskLoop_const v m' 8 64 4095 sf hv32 hen
            rw [hl]
            simp only [ok_bind']
            exact fixTail_returns rs dr _ jcf m' _ dd hdd (by omega)
          | some ch =>
            have hch64 := hfd2 ch rfl
            obtain ⟨en, hen', _⟩ := isEnabled_tot p.mask ch hm (by omega)
            simp only [hen', ok_bind']
            cases hcond : (en && dd.bandwidth == Bandwidth._125KHz) with
            | true =>
              simp only [ok_bind']
              exact fixTail_returns rs dr ch jcf p.mask sf dd hdd (by omega)
            | false =>
              simp only [ok_bind']
              simp only [hbw, if_true, hany, ok_bind', hmk]
              have hl : fixedMaskLoop (constGen v) m' 8 64 loopFuel sf = .ok (64 + v % 8, sf) :=
                fixedMaskLoop_const v m' 8 64 4095 sf hv32 hen
              rw [hl]
              simp only [ok_bind']
              exact fixTail_returns rs dr _ jcf m' _ dd hdd (by omega)
      · obtain ⟨any, m', v, hany, hmk, hl', hvlt, hen⟩ := fallback125 p.mask hm
        have hv32 : v < 4294967296 := by omega
        simp only [pure, Except.pure] at hmk
        refine ⟨v, hvlt, fun {σ} s => ?_⟩
        have hst1 : ∃ (biased : Option Nat) (jc0 : JoinChannels) (s0 : σ),
            (if p.jc.hasBiasAndNotExhausted = true then do
                let __x ← JoinChannels.getNextChannel (constGen v) p.jc s
                let en ← p.mask.isEnabled __x.fst
                (pure (if en = true then some __x.fst else none, __x.2.fst, __x.2.snd) : M (Option Nat × JoinChannels × σ))
              else pure (none, p.jc, s)) = .ok (biased, jc0, s0) ∧ jcWF jc0 = true ∧ ∀ ch, biased = some ch → ch < 72 := by
          by_cases hbias : p.jc.hasBiasAndNotExhausted = true
          · obtain ⟨⟨ch, jc', s'⟩, hgn⟩ := getNextChannel_biased_returns p.jc hjc (hasBias_iff _ hbias) v hv32 s
            obtain ⟨hch, hjc'⟩ := (getNextChannel_safe (constGen v) p.jc s hjc).elim hgn
            obtain ⟨en, hen', _⟩ := isEnabled_tot p.mask ch hm hch
            refine ⟨if en = true then some ch else none, jc', s', ?_, hjc', ?_⟩
            · simp only [hbias, if_true, hgn, ok_bind', hen']; rfl
            · intro ch' e
              cases en
              · simp at e
              · simp only [if_true, Option.some.injEq] at e; omega
          · exact ⟨none, p.jc, s, by simp only [hbias, Bool.false_eq_true, if_false]; rfl, hjc, fun ch e => by cases e⟩
        obtain ⟨biased, jc0, s0, hs1, hjc0, hb72⟩ := hst1
        unfold selectTxChannel
        simp only [hp, hs1, ok_bind']
        cases biased with
        | some ch =>
          simp only [pure, Except.pure, ok_bind']
          have hjd : ∃ d, getDatarate rs.id (if ch < 64 then DR._0 else join500kDr rs.id).toInt.toNat = some d := by
            split
            · exact (joinDr_defined rs.id hfx).1
            · exact (joinDr_defined rs.id hfx).2
          obtain ⟨d, hd⟩ := hjd
          exact fixTail_returns rs _ ch jc0 p.mask s0 d hd (hb72 ch rfl)
        | none =>
          simp only [hidx, ok_bind', unwrapDatarate_some]
          obtain ⟨hfd1, hfd2⟩ := firstDataChannel_wf (constGen v) jc0 s0 hjc0
          generalize JoinChannels.firstDataChannel (constGen v) jc0 s0 = fd at hfd1 hfd2 ⊢
          obtain ⟨pref, jcf, sf⟩ := fd
          simp only at hfd1 hfd2
          simp only [pure, Except.pure]
          cases pref with
          | none =>
            simp only [ok_bind']
            simp only [hbw, Bool.false_eq_true, if_false, hany, ok_bind', hmk]
            have hl : fixedMaskLoop (constGen v) m' 64 0 loopFuel sf = .ok (0 + v % 64, sf) :=
              fixedMaskLoop_const v m' 64 0 4095 sf hv32 hen
            rw [hl]
            simp only [ok_bind']
            exact fixTail_returns rs dr _ jcf m' _ dd hdd (by omega)
          | some ch =>
            have hch64 := hfd2 ch rfl
            obtain ⟨en, hen', _⟩ := isEnabled_tot p.mask ch hm (by omega)
            simp only [hen', ok_bind']
            cases hcond : (en && dd.bandwidth == Bandwidth._125KHz) with
            | true =>
              simp only [ok_bind']
              exact fixTail_returns rs dr ch jcf p.mask sf dd hdd (by omega)
            | false =>
              simp only [ok_bind']
              simp only [hbw, Bool.false_eq_true, if_false, hany, ok_bind', hmk]
              have hl : fixedMaskLoop (constGen v) m' 64 0 loopFuel sf = .ok (0 + v % 64, sf) :=
                fixedMaskLoop_const v m' 64 0 4095 sf hv32 hen
              rw [hl]
              simp only [ok_bind']
              exact fixTail_returns rs dr _ jcf m' _ dd hdd (by omega)

/-- **in a well-formed state the accept sets of `Mac::send` are not empty**: there is a draw value
`v` such that, if the generator yields `v`, the call returns (no retry loop spins) -/
theorem macSend_returns (m : MacState) (data : List Nat) (fport : Nat) (conf : Bool) (h : MacWF m)
    (h0 : fport = 0 → data = []) (hl : data.length ≤ 222) :
    ∃ v, v < 64 ∧ ∀ {σ : Type} (s : σ), ∃ r, macSend (constGen v) m data fport conf s = .ok r := by
  cases hst : m.st with
  | joined sess =>
    have hp : sess.pending.length ≤ 15 := by
      have := h.pending; rw [hst] at this; simpa [pendingOk] using this
    obtain ⟨⟨desc, s1⟩, hpb, _⟩ := prepareBuffer_tot sess m.cfg m.region.id data fport conf hp h0 hl
    obtain ⟨dr, hdr, hup⟩ := drOfNat_uplink (cfgWF_iff.mp h.cfg).1
    obtain ⟨v, hv, hsel⟩ := selectTxChannel_returns m.region dr .data h.region hup
    refine ⟨v, hv, fun {σ} s => ?_⟩
    obtain ⟨⟨tx, region, rs⟩, hs⟩ := hsel s
    obtain ⟨hr1, hr2⟩ := (selectTxChannel_safe (constGen v) m.region dr .data s h.region hup).elim hs
    unfold macSend
    simp only [hst, hpb, ok_bind', hdr, hs]
    have hpwAll : ∀ limit, ∃ pw, txPowerFor region.id limit m.antennaGain = .ok pw :=
      fun limit => (txPowerFor_tot region.id limit m.antennaGain (by rw [hr2]; exact h.gain)).returns
    obtain ⟨⟨rx1, rx2⟩, hrx, _⟩ := rxWindows_tot
      { cfg := m.cfg, region := region, maxPower := m.maxPower, antennaGain := m.antennaGain, st := .joined s1 } tx
      (cfgWF_iff.mp h.cfg).2
    cases htp : m.cfg.txPower with
    | none =>
      obtain ⟨pw, hpw⟩ := hpwAll m.maxPower
      simp only [hpw, ok_bind', hrx]
      exact ⟨_, rfl⟩
    | some p =>
      obtain ⟨pw, hpw⟩ := hpwAll (min p m.maxPower)
      simp only [hpw, ok_bind', hrx]
      exact ⟨_, rfl⟩
  | otaa o => exact ⟨0, by decide, fun {σ} s => ⟨_, by unfold macSend; simp only [hst]; rfl⟩⟩
  | unjoined => exact ⟨0, by decide, fun {σ} s => ⟨_, by unfold macSend; simp only [hst]; rfl⟩⟩

/-- … and so are those of `Mac::join_otaa` -/
theorem macJoinOtaa_returns (m : MacState) (h : MacWF m) :
    ∃ v, v < 64 ∧ ∀ {σ : Type} (s : σ), ∃ r, macJoinOtaa (constGen v) m s = .ok r := by
  obtain ⟨dr, hdr, hup⟩ := drOfNat_uplink (cfgWF_iff.mp h.cfg).1
  obtain ⟨v, hv, hsel⟩ := selectTxChannel_returns m.region dr .join h.region hup
  refine ⟨v, hv, fun {σ} s => ?_⟩
  obtain ⟨⟨tx, region, rs⟩, hs⟩ := hsel s
  obtain ⟨hr1, hr2⟩ := (selectTxChannel_safe (constGen v) m.region dr .join s h.region hup).elim hs
  unfold macJoinOtaa
  simp only [draw_const v s (by omega), hdr, ok_bind', hs]
  obtain ⟨pw, hpw, _⟩ := txPowerFor_tot region.id m.maxPower m.antennaGain (by rw [hr2]; exact h.gain)
  simp only [hpw, ok_bind']
  obtain ⟨⟨rx1, rx2⟩, hrx, _⟩ := rxWindows_tot
    { cfg := m.cfg, region := region, maxPower := m.maxPower, antennaGain := m.antennaGain,
      st := .otaa { devNonce := v % 65536 } } tx (cfgWF_iff.mp h.cfg).2
  simp only [hrx, ok_bind']
  exact ⟨_, rfl⟩

end Model
