import LoraVerif.Lemmas.PhyInv
/-!
# Every API program of `LoRa<RK>` preserves the C14 invariant (generic over the radio kind)

One lemma per program of `Model/PhyState.lean`: from `Inv`, under every chip answer, a fault at any
I/O step and a drop at any `await_irq`, it ends in `Inv`; when it reports the radio's own timeout,
driver and chip are in standby (`AbI4`; continuous reception exempt, as coded).
-/
namespace Model.Phy

theorem tx_items {reg tcxo : Bool} {x : Items} (b : (bringUp reg tcxo).le x) (g1 : Items.le { modulation := true } x)
    (g2 : Items.le { packet := true } x) (g3 : Items.le { frequency := true } x) : (needsFor reg tcxo).tx.le x := by
  simp only [Items.le, bringUp, baseItems, needsFor] at *
  simp_all

theorem rx_items {reg tcxo : Bool} {x : Items} (b : (bringUp reg tcxo).le x) (g1 : Items.le { modulation := true } x)
    (g3 : Items.le { frequency := true } x) : (needsFor reg tcxo).rx.le x := by
  simp only [Items.le, bringUp, baseItems, needsFor] at *
  simp_all

theorem cad_items {reg tcxo : Bool} {x : Items} (b : (bringUp reg tcxo).le x) (g1 : Items.le { modulation := true } x)
    (g3 : Items.le { frequency := true } x) : (needsFor reg tcxo).cad.le x := by
  simp only [Items.le, bringUp, baseItems, needsFor] at *
  simp_all

section
variable {kind : Kind} {reg tcxo : Bool} {sb : Items} {Rdy : ChipTrack → Prop} {σ μ : Type} {rk : RadioKindOps σ μ}
variable (S : OpsSpec kind reg tcxo sb Rdy rk)
include S

theorem sleep_inv (warm : Bool) {d : DriverState σ} {t : ChipTrack} (h : Inv reg tcxo sb d t) :
    mwp kind (needsFor reg tcxo) (sleep rk warm)
      (fun _ d' t' => Inv reg tcxo sb d' t') (fun a d' t' => Inv reg tcxo sb d' t' ∧ a.infra) d t := by
  unfold sleep
  refine mwp_bind (mwp_get ?_)
  by_cases hm : d.radioMode = .sleep
  · simp only [ne_eq, hm, not_true_eq_false, if_false]
    exact mwp_pure h
  · simp only [ne_eq, hm, not_false_eq_true, if_true]
    refine mwp_bind (mwp_call (wp_mono _ _ _ (S.ensureReady d.radioMode t h.clean h.link) (fun _ t1 h1 => ?_)
      (fun a t' h' => ⟨h.ext h'.1, h'.2⟩)))
    refine mwp_bind (mwp_call (wp_mono _ _ _ (S.setSleep warm t1 h1.1.clean h1.2) (fun _ t2 h2 => ?_)
      (fun a t' h' => ⟨h.ext (h1.1.trans h'.1), h'.2⟩)))
    cases warm with
    | true =>
      simp only [Bool.not_true, Bool.false_eq_true, if_false]
      refine mwp_bind (mwp_pure ?_)
      exact mwp_setMode ⟨h2.1, Link.sleep _, fun hc => Items.le_trans (h1.1.le (h.cold hc)) (h2.2 rfl), trivial⟩
    | false =>
      simp only [Bool.not_false, if_true]
      refine mwp_bind (mwp_modify ?_)
      exact mwp_setMode ⟨h2.1, Link.sleep _, fun hc => by simp at hc, trivial⟩

theorem setLoraSyncWord_inv (w : Nat) {d : DriverState σ} {t : ChipTrack} (h : Inv reg tcxo sb d t) :
    mwp kind (needsFor reg tcxo) (setLoraSyncWord rk w)
      (fun _ d' t' => Inv reg tcxo sb d' t') (fun a d' t' => Inv reg tcxo sb d' t' ∧ a.infra) d t := by
  unfold setLoraSyncWord
  refine mwp_bind (mwp_mono (toStandby_inv S h) (fun _ d1 t1 h1 => ?_) (fun a d' t' he => he))
  obtain ⟨hd1, e1, a1, s1⟩ := h1
  have i1 : Inv reg tcxo sb d1 t1 := hd1 ▸ h.standby e1 a1 s1
  refine mwp_bind (mwp_cfg (S.setLoraSyncWord _) e1.clean a1 (fun _ t2 e2 _ => ?_) (fun a t' e' ha' => ⟨i1.ext e', ha'⟩))
  exact mwp_modify ((i1.ext e2).congr rfl rfl)

theorem prepareForTx_inv (m : μ) (pkt : PacketParams) (power : Int) (payload : Bytes)
    {d : DriverState σ} {t : ChipTrack} (h : Inv reg tcxo sb d t) :
    mwp kind (needsFor reg tcxo) (prepareForTx rk m pkt power payload)
      (fun _ d' t' => Inv reg tcxo sb d' t' ∧ d'.radioMode = .transmit) (fun a d' t' => Inv reg tcxo sb d' t' ∧ a.infra) d t := by
  unfold prepareForTx
  refine mwp_bind (mwp_mono (prepareModem_inv S _ h) (fun _ d1 t1 h1 => ?_) (fun a d' t' he => he))
  obtain ⟨i1, a1, m1, c1⟩ := h1
  refine mwp_bind (mwp_get ?_)
  refine mwp_bind (mwp_cfg (S.setModulationParams _ _) i1.clean a1 (fun _ t2 e2 g2 => ?_) (fun a t' e' ha' => ⟨i1.ext e', ha'⟩))
  refine mwp_bind (mwp_cfg (S.setTxPower _ _ _) e2.clean (e2.aw a1) (fun _ t3 e3 _ => ?_)
    (fun a t' e' ha' => ⟨i1.ext (e2.trans e'), ha'⟩))
  have e13 := e2.trans e3
  have i3 := i1.ext e13
  refine mwp_bind (mwp_mono (toStandby_inv S i3) (fun _ d4 t4 h4 => ?_) (fun a d' t' he => he))
  obtain ⟨hd4, e4, a4, s4⟩ := h4
  have i4 : Inv reg tcxo sb d4 t4 := hd4 ▸ i3.standby e4 a4 s4
  have c4 : d4.coldStart = false := by rw [hd4]; exact c1
  clear hd4
  by_cases hp : payload.length > 255
  · simp only [hp, if_true]
    exact mwp_throw ⟨i4, rfl⟩
  · simp only [hp, if_false]
    refine mwp_bind (mwp_cfg (S.setPacketParams _) e4.clean a4 (fun _ t5 e5 g5 => ?_) (fun a t' e' ha' => ⟨i4.ext e', ha'⟩))
    refine mwp_bind (mwp_cfg (S.setChannel _) e5.clean (e5.aw a4) (fun _ t6 e6 g6 => ?_)
      (fun a t' e' ha' => ⟨i4.ext (e5.trans e'), ha'⟩))
    have e46 := e5.trans e6
    refine mwp_bind (mwp_cfg (S.setPayload _) e6.clean (e46.aw a4) (fun _ t7 e7 _ => ?_)
      (fun a t' e' ha' => ⟨i4.ext (e46.trans e'), ha'⟩))
    have e47 := e46.trans e7
    have it : (needsFor reg tcxo).tx.le t7.items :=
      tx_items (e47.le (i4.cold c4)) (((e3.trans e4).trans e47).le g2) ((e6.trans e7).le g5) (e7.le g6)
    have i7 : Inv reg tcxo sb { d4 with radioMode := .transmit } t7 :=
      ⟨e7.clean, Link.of_aw (e47.aw a4), fun hc => e47.le (i4.cold hc), it⟩
    refine mwp_bind (mwp_cfg (S.setIrqParams _) e7.clean (e47.aw a4) (fun _ t8 e8 _ => ?_)
      (fun a t' e' ha' => ⟨i4.ext (e47.trans e'), ha'⟩))
    exact mwp_setMode ⟨i7.ext e8, rfl⟩

theorem txLoop_inv (fuel : Nat) {d : DriverState σ} {t : ChipTrack} (h : Inv reg tcxo sb d t) (hm : d.radioMode = .transmit) :
    mwp kind (needsFor reg tcxo) (txLoop rk fuel) (fun _ d' t' => Inv reg tcxo sb d' t') (AbI4 reg tcxo sb False) d t := by
  have aw : Aw t := h.aw (by simp [hm]) (by simp [hm, RadioMode.isDuty])
  induction fuel with
  | zero => exact mwp_panic (AbI4.of_infra h rfl)
  | succ f ih =>
    unfold txLoop
    refine mwp_bind (mwp_ro (S.awaitIrq t) (fun _ => ?_) (fun a ha => AbI4.of_infra h ha))
    refine mwp_bind (mwp_get ?_)
    refine mwp_bind (mwp_attempt (mwp_call (wp_mono _ _ _
      (S.processIrqEvent d.radioMode none true t h.clean aw.1 (fun hx => absurd hx aw.2)) (fun r t' ht => ?_) (fun a t' ht => ?_))))
    · subst ht
      obtain ⟨st, c⟩ := r
      cases st with
      | none => exact ih
      | some s => exact mwp_setMode (h.standby (Ext.refl h.clean) aw (h.items.sb_le S.sb_le (by simp [hm])))
    · subst ht
      cases a with
      | err e => exact failToStandby_inv S e h _
      | panic => exact AbI4.of_infra h rfl
      | dropped => exact AbI4.of_infra h rfl

theorem tx_inv (fuel : Nat) {d : DriverState σ} {t : ChipTrack} (h : Inv reg tcxo sb d t) :
    mwp kind (needsFor reg tcxo) (tx rk fuel) (fun _ d' t' => Inv reg tcxo sb d' t') (AbI4 reg tcxo sb False) d t := by
  unfold tx
  refine mwp_bind (mwp_get ?_)
  by_cases hm : d.radioMode = .transmit
  · simp only [hm, if_true]
    have aw : Aw t := h.aw (by simp [hm]) (by simp [hm, RadioMode.isDuty])
    have hi : (needsFor reg tcxo).tx.le t.items := by have := h.items; rw [hm] at this; exact this
    refine mwp_bind (mwp_call (wp_mono _ _ _ (S.doTx t h.clean aw hi) (fun _ t1 e1 => ?_)
      (fun a t' h' => AbI4.of_infra (h.ext h'.1) h'.2)))
    exact txLoop_inv S fuel (h.ext e1) hm
  · simp only [hm, if_false]
    exact mwp_throw (AbI4.of_infra h rfl)

theorem prepareForRx_inv (mode : RxMode) (m : μ) (pkt : PacketParams)
    {d : DriverState σ} {t : ChipTrack} (h : Inv reg tcxo sb d t) :
    mwp kind (needsFor reg tcxo) (prepareForRx rk mode m pkt)
      (fun _ d' t' => Inv reg tcxo sb d' t' ∧ d'.radioMode = .receive mode) (fun a d' t' => Inv reg tcxo sb d' t' ∧ a.infra) d t := by
  unfold prepareForRx
  refine mwp_bind (mwp_mono (prepareModem_inv S _ h) (fun _ d1 t1 h1 => ?_) (fun a d' t' he => he))
  obtain ⟨i1, a1, m1, c1⟩ := h1
  refine mwp_bind (mwp_get ?_)
  refine mwp_bind (mwp_cfg (S.setModulationParams _ _) i1.clean a1 (fun _ t2 e2 g2 => ?_) (fun a t' e' ha' => ⟨i1.ext e', ha'⟩))
  refine mwp_bind (mwp_cfg (S.setPacketParams _) e2.clean (e2.aw a1) (fun _ t3 e3 _ => ?_)
    (fun a t' e' ha' => ⟨i1.ext (e2.trans e'), ha'⟩))
  have e13 := e2.trans e3
  refine mwp_bind (mwp_cfg (S.setChannel _) e3.clean (e13.aw a1) (fun _ t4 e4 g4 => ?_)
    (fun a t' e' ha' => ⟨i1.ext (e13.trans e'), ha'⟩))
  have e14 := e13.trans e4
  have it : (needsFor reg tcxo).rx.le t4.items := rx_items (e14.le (i1.cold c1)) ((e3.trans e4).le g2) g4
  have i4 : Inv reg tcxo sb { d1 with radioMode := .receive mode } t4 :=
    ⟨e4.clean, Link.of_aw (e14.aw a1), fun hc => e14.le (i1.cold hc), it⟩
  refine mwp_bind (mwp_cfg (S.setIrqParams _) e4.clean (e14.aw a1) (fun _ t5 e5 _ => ?_)
    (fun a t' e' ha' => ⟨i1.ext (e14.trans e'), ha'⟩))
  exact mwp_setMode ⟨i4.ext e5, rfl⟩

theorem prepareForCad_inv (m : μ) {d : DriverState σ} {t : ChipTrack} (h : Inv reg tcxo sb d t) :
    mwp kind (needsFor reg tcxo) (prepareForCad rk m)
      (fun _ d' t' => Inv reg tcxo sb d' t') (fun a d' t' => Inv reg tcxo sb d' t' ∧ a.infra) d t := by
  unfold prepareForCad
  refine mwp_bind (mwp_mono (prepareModem_inv S _ h) (fun _ d1 t1 h1 => ?_) (fun a d' t' he => he))
  obtain ⟨i1, a1, m1, c1⟩ := h1
  refine mwp_bind (mwp_get ?_)
  refine mwp_bind (mwp_cfg (S.setModulationParams _ _) i1.clean a1 (fun _ t2 e2 g2 => ?_) (fun a t' e' ha' => ⟨i1.ext e', ha'⟩))
  refine mwp_bind (mwp_cfg (S.setChannel _) e2.clean (e2.aw a1) (fun _ t3 e3 g3 => ?_)
    (fun a t' e' ha' => ⟨i1.ext (e2.trans e'), ha'⟩))
  have e13 := e2.trans e3
  have it : (needsFor reg tcxo).cad.le t3.items := cad_items (e13.le (i1.cold c1)) (e3.le g2) g3
  have i3 : Inv reg tcxo sb { d1 with radioMode := .cad } t3 :=
    ⟨e3.clean, Link.of_aw (e13.aw a1), fun hc => e13.le (i1.cold hc), it⟩
  refine mwp_bind (mwp_cfg (S.setIrqParams _) e3.clean (e13.aw a1) (fun _ t4 e4 _ => ?_)
    (fun a t' e' ha' => ⟨i1.ext (e13.trans e'), ha'⟩))
  exact mwp_setMode (i3.ext e4)

omit S in
/-- the state after `do_rx`: `radio_mode` is `Receive(mode)` and the chip may be duty-cycling -/
theorem Inv.afterRx {d : DriverState σ} {t t' : ChipTrack} {mode : RxMode} (h : Inv reg tcxo sb d t) (hm : d.radioMode = .receive mode)
    (hc : Clean t') (hi : t.items.le t'.items) (hl : Link (.receive mode) t') : Inv reg tcxo sb d t' :=
  ⟨hc, hm ▸ hl, fun hx => Items.le_trans (h.cold hx) hi, h.items.mono hi⟩

theorem startRx_inv {d : DriverState σ} {t : ChipTrack} (h : Inv reg tcxo sb d t) :
    mwp kind (needsFor reg tcxo) (startRx rk)
      (fun _ d' t' => Inv reg tcxo sb d' t' ∧ d' = d) (fun a d' t' => Inv reg tcxo sb d' t' ∧ a.infra) d t := by
  unfold startRx
  refine mwp_bind (mwp_get ?_)
  cases hm : d.radioMode with
  | receive mode =>
    simp only
    have hi : (needsFor reg tcxo).rx.le t.items := by have := h.items; rw [hm] at this; exact this
    refine mwp_bind (mwp_call (wp_mono _ _ _ (S.ensureReady _ t h.clean (hm ▸ h.link)) (fun _ t1 h1 => ?_)
      (fun a t' h' => ⟨h.ext h'.1, h'.2⟩)))
    have i1 := h.ext h1.1
    refine mwp_call (wp_mono _ _ _ (S.doRx mode t1 h1.1.clean h1.2 (hm ▸ i1.link) (h1.1.le hi)) (fun _ t2 h2 => ?_)
      (fun a t' h' => ⟨i1.afterRx hm h'.1.1 h'.1.2.1 h'.1.2.2, h'.2⟩))
    exact ⟨i1.afterRx hm h2.1 h2.2.1 h2.2.2, rfl⟩
  | _ => exact mwp_throw ⟨h, rfl⟩

theorem rxSwitchChannel_inv (freq : Nat) {d : DriverState σ} {t : ChipTrack} (h : Inv reg tcxo sb d t) :
    mwp kind (needsFor reg tcxo) (rxSwitchChannel rk freq)
      (fun _ d' t' => Inv reg tcxo sb d' t') (fun a d' t' => Inv reg tcxo sb d' t' ∧ a.infra) d t := by
  unfold rxSwitchChannel
  refine mwp_bind (mwp_get ?_)
  cases hm : d.radioMode with
  | receive mode =>
    simp only
    have hi : (needsFor reg tcxo).rx.le t.items := by have := h.items; rw [hm] at this; exact this
    refine mwp_bind (mwp_call (wp_mono _ _ _ (S.ensureReady _ t h.clean (hm ▸ h.link)) (fun _ t1 h1 => ?_)
      (fun a t' h' => ⟨h.ext h'.1, h'.2⟩)))
    refine mwp_bind (mwp_call (wp_mono _ _ _ (S.setStandby t1 h1.1.clean h1.2) (fun _ t2 h2 => ?_)
      (fun a t' h' => ⟨h.ext (h1.1.trans h'.1), h'.2⟩)))
    have e02 := h1.1.trans h2.1
    refine mwp_bind (mwp_cfg (S.setChannel _) e02.clean h2.2.1 (fun _ t3 e3 _ => ?_)
      (fun a t' e' ha' => ⟨h.ext (e02.trans e'), ha'⟩))
    have e03 := e02.trans e3
    have i3 := h.ext e03
    have a3 := e3.aw h2.2.1
    refine mwp_call (wp_mono _ _ _ (S.doRx mode t3 e3.clean (S.rdy_of_aw _ a3) (Link.of_aw a3) (e03.le hi)) (fun _ t4 h4 => ?_)
      (fun a t' h' => ⟨i3.afterRx hm h'.1.1 h'.1.2.1 h'.1.2.2, h'.2⟩))
    exact i3.afterRx hm h4.1 h4.2.1 h4.2.2
  | _ => exact mwp_throw ⟨h, rfl⟩

theorem completeRxLoop_inv (pkt : PacketParams) (buf : Bytes) (fuel : Nat) {d : DriverState σ} {t : ChipTrack}
    (h : Inv reg tcxo sb d t) {mode : RxMode} (hm : d.radioMode = .receive mode) :
    mwp kind (needsFor reg tcxo) (completeRxLoop rk pkt buf fuel) (fun _ d' t' => Inv reg tcxo sb d' t')
      (AbI4 reg tcxo sb (d.radioMode = .receive .continuous)) d t := by
  have ns : t.mode ≠ .sleep := fun hs => by have := h.link.1 hs; simp [hm] at this
  have nd : t.mode = .rxDuty → d.radioMode.isSingle = false := fun hs => by
    rcases h.link.2 hs with h1 | h1
    · simp [hm] at h1
    · rw [hm] at h1 ⊢; cases mode <;> simp_all [RadioMode.isDuty, RadioMode.isSingle, RxMode.isDuty]
  induction fuel with
  | zero => exact mwp_panic (AbI4.of_infra h rfl)
  | succ f ih =>
    unfold completeRxLoop
    refine mwp_bind (mwp_get ?_)
    refine mwp_bind (mwp_attempt (mwp_call (wp_mono _ _ _
      (S.processIrqEvent d.radioMode none true t h.clean ns nd) (fun r t' ht => ?_) (fun a t' ht => ?_))))
    · subst ht
      have waitAgain : mwp kind (needsFor reg tcxo)
          (do M.call rk.awaitIrq; completeRxLoop rk pkt buf f) (fun _ d' t' => Inv reg tcxo sb d' t')
          (AbI4 reg tcxo sb (d.radioMode = .receive .continuous)) d t' :=
        mwp_bind (mwp_ro (S.awaitIrq t') (fun _ => ih) (fun a ha => AbI4.of_infra h ha))
      obtain ⟨st, c⟩ := r
      cases st with
      | none => exact waitAgain
      | some s =>
        cases s with
        | preambleReceived => exact waitAgain
        | done =>
          refine mwp_bind (mwp_ro (S.getRxPayload pkt buf t' h.clean ns) (fun res => ?_) (fun a ha => AbI4.of_infra h ha))
          refine mwp_bind (mwp_ro (S.getRxPacketStatus t' h.clean ns) (fun _ => ?_) (fun a ha => AbI4.of_infra h ha))
          exact mwp_pure h
    · subst ht
      cases a with
      | err e =>
        refine mwp_bind (mwp_get ?_)
        by_cases hc : d.radioMode = .receive .continuous
        · simp only [ne_eq, hc, not_true_eq_false, if_false]
          exact mwp_throw ⟨h, fun _ hx => absurd trivial hx⟩
        · simp only [ne_eq, hc, not_false_eq_true, if_true]
          exact mwp_mono (failToStandby_inv S e h _) (fun _ _ _ hq => hq) (fun a d' t' he => ⟨he.1, fun ht _ => he.2 ht (fun f => f)⟩)
      | panic => exact AbI4.of_infra h rfl
      | dropped => exact AbI4.of_infra h rfl

theorem completeRx_inv (pkt : PacketParams) (buf : Bytes) (fuel : Nat) {d : DriverState σ} {t : ChipTrack}
    (h : Inv reg tcxo sb d t) :
    mwp kind (needsFor reg tcxo) (completeRx rk pkt buf fuel) (fun _ d' t' => Inv reg tcxo sb d' t')
      (AbI4 reg tcxo sb (d.radioMode = .receive .continuous)) d t := by
  unfold completeRx
  refine mwp_bind (mwp_get ?_)
  cases hm : d.radioMode with
  | receive mode => simp only; exact hm ▸ completeRxLoop_inv S pkt buf fuel h hm
  | _ => exact mwp_throw (AbI4.of_infra h rfl)

theorem rx_inv (pkt : PacketParams) (buf : Bytes) (fuel : Nat) {d : DriverState σ} {t : ChipTrack}
    (h : Inv reg tcxo sb d t) :
    mwp kind (needsFor reg tcxo) (rx rk pkt buf fuel) (fun _ d' t' => Inv reg tcxo sb d' t')
      (AbI4 reg tcxo sb (d.radioMode = .receive .continuous)) d t := by
  unfold rx
  refine mwp_bind (mwp_mono (startRx_inv S h) (fun _ d1 t1 h1 => ?_) (fun a d' t' he => AbI4.of_infra he.1 he.2))
  obtain ⟨i1, rfl⟩ := h1
  exact completeRx_inv S pkt buf fuel i1

theorem listen_inv (freq : Nat) (m : Except RadioError μ) (hwf : ∀ e, m = .error e → Abort.infra (.err e))
    {d : DriverState σ} {t : ChipTrack} (h : Inv reg tcxo sb d t) :
    mwp kind (needsFor reg tcxo) (listen rk freq m)
      (fun _ d' t' => Inv reg tcxo sb d' t') (fun a d' t' => Inv reg tcxo sb d' t' ∧ a.infra) d t := by
  unfold listen
  refine mwp_bind (mwp_mono (prepareModem_inv S _ h) (fun _ d1 t1 h1 => ?_) (fun a d' t' he => he))
  obtain ⟨i1, a1, m1, c1⟩ := h1
  refine mwp_bind (mwp_cfg (S.setChannel _) i1.clean a1 (fun _ t2 e2 g2 => ?_) (fun a t' e' ha' => ⟨i1.ext e', ha'⟩))
  cases m with
  | error e => exact mwp_throw ⟨i1.ext e2, hwf e rfl⟩
  | ok mp =>
    simp only
    refine mwp_bind (mwp_get ?_)
    refine mwp_bind (mwp_cfg (S.setModulationParams _ _) e2.clean (e2.aw a1) (fun _ t3 e3 g3 => ?_)
      (fun a t' e' ha' => ⟨i1.ext (e2.trans e'), ha'⟩))
    have e13 := e2.trans e3
    have a3 := e13.aw a1
    refine mwp_bind (mwp_setMode ?_)
    have it : (needsFor reg tcxo).rx.le t3.items := rx_items (e13.le (i1.cold c1)) g3 (e3.le g2)
    have post : ∀ t', Clean t' → t3.items.le t'.items → Link (.receive .continuous) t' →
        Inv reg tcxo sb { d1 with radioMode := .listen } t' := fun t' hc hi hl =>
      ⟨hc, ⟨fun hs => by have := hl.1 hs; simp at this, fun hs => by
          rcases hl.2 hs with h1 | h1 <;> simp [RadioMode.isDuty, RxMode.isDuty] at h1⟩,
        fun hx => Items.le_trans (e13.le (i1.cold hx)) hi,
        Items.le_trans (e13.le (i1.items.sb_le S.sb_le (by simp [m1]))) hi⟩
    refine mwp_call (wp_mono _ _ _ (S.doRx .continuous t3 e3.clean (S.rdy_of_aw _ a3) (Link.of_aw a3) it) (fun _ t4 h4 => ?_)
      (fun a t' h' => ⟨post t' h'.1.1 h'.1.2.1 h'.1.2.2, h'.2⟩))
    exact post t4 h4.1 h4.2.1 h4.2.2

theorem cad_inv (m : μ) {d : DriverState σ} {t : ChipTrack} (h : Inv reg tcxo sb d t) :
    mwp kind (needsFor reg tcxo) (cad rk m) (fun _ d' t' => Inv reg tcxo sb d' t') (AbI4 reg tcxo sb False) d t := by
  unfold cad
  refine mwp_bind (mwp_get ?_)
  by_cases hm : d.radioMode = .cad
  · simp only [hm, if_true]
    have aw : Aw t := h.aw (by simp [hm]) (by simp [hm, RadioMode.isDuty])
    have hi : (needsFor reg tcxo).cad.le t.items := by have := h.items; rw [hm] at this; exact this
    refine mwp_bind (mwp_call (wp_mono _ _ _ (S.doCad m t h.clean aw hi) (fun _ t1 e1 => ?_)
      (fun a t' h' => AbI4.of_infra (h.ext h'.1) h'.2)))
    have i1 := h.ext e1
    have a1 := e1.aw aw
    refine mwp_bind (mwp_ro (S.awaitIrq t1) (fun _ => ?_) (fun a ha => AbI4.of_infra i1 ha))
    refine mwp_bind (mwp_attempt (mwp_call (wp_mono _ _ _
      (S.processIrqEvent .cad (some false) true t1 e1.clean a1.1 (fun hx => absurd hx a1.2)) (fun r t' ht => ?_) (fun a t' ht => ?_))))
    · subst ht
      obtain ⟨st, det⟩ := r
      cases st with
      | none => exact mwp_panic (AbI4.of_infra i1 rfl)
      | some s =>
        cases s with
        | preambleReceived => exact mwp_panic (AbI4.of_infra i1 rfl)
        | done =>
          refine mwp_bind (mwp_call (wp_mono _ _ _ (S.setStandby t' e1.clean (S.rdy_of_aw _ a1)) (fun _ t2 h2 => ?_)
            (fun a t'' h' => AbI4.of_infra (i1.ext h'.1) h'.2)))
          refine mwp_bind (mwp_setMode ?_)
          exact mwp_pure (i1.standby h2.1 h2.2.1 h2.2.2.2)
    · subst ht
      cases a with
      | err e => exact failToStandby_inv S e i1 _
      | panic => exact AbI4.of_infra i1 rfl
      | dropped => exact AbI4.of_infra i1 rfl
  · simp only [hm, if_false]
    exact mwp_throw (AbI4.of_infra h rfl)

end
end Model.Phy
