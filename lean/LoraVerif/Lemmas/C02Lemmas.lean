import LoraVerif.Lemmas.C01Lemmas
/-!
# Lemmas for C02: the structure of a parsed frame, MIC validation and in-place decryption on pieces
-/
open Lora Lora.Codec Lora.CodecLemmas Lora.C01Lemmas
set_option maxRecDepth 100000

namespace Lora.C02Lemmas

@[simp] theorem bind_ok {α β} (a : α) (f : α → Outcome β) : (Outcome.ok a).bind f = f a := rfl

theorem uint8_forall (P : UInt8 → Prop) (h : ∀ i : Fin 256, P (UInt8.ofNat i.val)) (x : UInt8) : P x := by
  have := h ⟨x.toNat, x.toNat_lt⟩
  simpa using this

theorem major_eq : ∀ x : UInt8, (decide (x &&& 0b11 ≠ 0)) = decide (x.toNat % 4 ≠ 0) :=
  uint8_forall _ (by decide +kernel)

theorem ftype_code : ∀ x : UInt8, ftypeFromMhdr x = Spec.mtypeOfCode (x.toNat / 32) :=
  uint8_forall _ (by decide +kernel)

theorem foptslen_eq : ∀ x : UInt8, (x &&& 0x0f).toNat = x.toNat % 16 :=
  uint8_forall _ (by decide +kernel)

theorem flags_eq : ∀ x : UInt8, ∀ up : Bool,
    (FCtrl.adr ⟨x, up⟩ = Spec.testBit x 7) ∧ (FCtrl.adrAckReq ⟨x, up⟩ = (up && Spec.testBit x 6))
    ∧ (FCtrl.ack ⟨x, up⟩ = Spec.testBit x 5) ∧ (FCtrl.fPending ⟨x, up⟩ = (!up && Spec.testBit x 4))
    ∧ (FCtrl.fOptsLen ⟨x, up⟩ = x.toNat % 16) :=
  uint8_forall _ (by decide +kernel)

theorem mtype_shift : ∀ x : UInt8, (x >>> 5).toNat = x.toNat / 32 := uint8_forall _ (by decide +kernel)

theorem slice_seg (pre mid post : Bytes) (lo hi : Nat) (hlo : lo = pre.length) (hhi : hi = lo + mid.length) :
    slice (pre ++ mid ++ post) lo hi = .ok mid := by
  subst hlo hhi
  unfold slice
  have : pre.length ≤ pre.length + mid.length ∧ pre.length + mid.length ≤ (pre ++ mid ++ post).length := by
    simp
  rw [if_pos this]
  congr 1
  simp [List.take_append, List.drop_append]

theorem slice_suffix (pre post : Bytes) (lo hi : Nat) (hlo : lo = pre.length) (hhi : hi = lo + post.length) :
    slice (pre ++ post) lo hi = .ok post := by
  have := slice_seg pre post [] lo hi hlo hhi
  simpa using this

theorem getByte_at (pre post : Bytes) (x : UInt8) (i : Nat) (hi : i = pre.length) :
    getByte (pre ++ x :: post) i = .ok x := by
  subst hi
  simp [getByte, Outcome.ofOption]

theorem split3 (l : Bytes) (k n : Nat) (hk : k ≤ n) (hn : n + 4 = l.length) :
    ∃ fo body mic, l = fo ++ body ++ mic ∧ fo.length = k ∧ body.length = n - k ∧ mic.length = 4
      ∧ fo = l.take k ∧ body = (l.take n).drop k ∧ mic = l.drop n := by
  refine ⟨l.take k, (l.take n).drop k, l.drop n, ?_, ?_, ?_, ?_, rfl, rfl, rfl⟩
  · have h1 : l.take k = (l.take n).take k := by rw [List.take_take]; congr 1; omega
    rw [h1, List.take_append_drop, List.take_append_drop]
  · simp; omega
  · simp; omega
  · simp; omega

theorem list8 (l : Bytes) (h : 8 ≤ l.length) :
    ∃ x0 x1 x2 x3 x4 x5 x6 x7 t, l = x0 :: x1 :: x2 :: x3 :: x4 :: x5 :: x6 :: x7 :: t := by
  rcases l with _ | ⟨x0, l⟩; · simp at h
  rcases l with _ | ⟨x1, l⟩; · simp at h
  rcases l with _ | ⟨x2, l⟩; · simp at h
  rcases l with _ | ⟨x3, l⟩; · simp at h
  rcases l with _ | ⟨x4, l⟩; · simp at h
  rcases l with _ | ⟨x5, l⟩; · simp at h
  rcases l with _ | ⟨x6, l⟩; · simp at h
  rcases l with _ | ⟨x7, l⟩; · simp at h
  exact ⟨x0, x1, x2, x3, x4, x5, x6, x7, l, rfl⟩

theorem list4 (l : Bytes) (h : l.length = 4) : ∃ a b c d, l = [a, b, c, d] := by
  match l, h with
  | [a, b, c, d], _ => exact ⟨a, b, c, d, rfl⟩

/-- the composite "parse then run every accessor" -/
def dataViewOf (b : Bytes) : Outcome DataView := (parseData b).bind DataPayload.view

theorem parse_eq_spec (b : Bytes) : (dataViewOf b).map DataView.toSpec = Outcome.ofExcept (Spec.decodeData b) := by
  unfold dataViewOf parseData Layout.validate Spec.decodeData
  by_cases hlen : b.length < 12
  · simp only [hlen, if_true, bind, Outcome.bind, Outcome.map, Outcome.ofExcept]
  · simp only [hlen, if_false]
    obtain ⟨mhdr, a0, a1, a2, a3, fc, c0, c1, tail, rfl⟩ := list8 b (by omega)
    have htl : 4 ≤ tail.length := by simp at hlen; omega
    simp only [bind, Outcome.bind, getByte, List.getElem?_cons_zero, List.getElem?_cons_succ, Outcome.ofOption]
    have hmaj := major_eq mhdr
    by_cases hm : mhdr.toNat % 4 ≠ 0
    · have hm' : mhdr &&& 0b11 ≠ 0 := by simpa [hm] using hmaj
      simp only [hm', hm, ne_eq, not_false_eq_true, if_true, Outcome.map, Outcome.ofExcept]
    · have hm' : ¬ (mhdr &&& 0b11 ≠ 0) := by simpa [hm] using hmaj
      simp only [hm', hm, if_false]
      rw [ftype_code]
      cases hft : Spec.mtypeOfCode (mhdr.toNat / 32) with
      | none => simp only [Outcome.okOr, Outcome.map, Outcome.ofExcept]
      | some ft =>
        simp only [Outcome.okOr, foptslen_eq, usizeSub]
        have hl4 : 4 ≤ (mhdr :: a0 :: a1 :: a2 :: a3 :: fc :: c0 :: c1 :: tail).length := by simp
        have hle : (mhdr :: a0 :: a1 :: a2 :: a3 :: fc :: c0 :: c1 :: tail).length - 4 = tail.length - 4 + 8 := by
          simp; omega
        simp only [hl4, if_true, hle]
        have hfl := flags_eq fc ft.isUplink
        generalize hk : fc.toNat % 16 = k at *
        generalize hn : tail.length - 4 = n at *
        by_cases hkn : k > n
        · have : 1 + (7 + k) > n + 8 := by omega
          simp only [this, hkn, if_true, Outcome.map, Outcome.ofExcept]
        · have h1 : ¬ (1 + (7 + k) > n + 8) := by omega
          simp only [h1, hkn, if_false, pure]
          obtain ⟨fo, body, mic, htail, hfo, hbody, hmic, hfo', hbody', hmic'⟩ := split3 tail k n (by omega) (by omega)
          rw [← hfo', ← hmic']
          have hb2 : List.drop k (List.take n tail) = body := hbody'.symm
          rw [hb2]
          obtain ⟨m0, m1, m2, m3, rfl⟩ := list4 mic hmic
          clear hfo' hbody' hmic' hb2
          subst htail
          unfold DataPayload.view
          simp only [bind, pure]
          have hB : (mhdr :: a0 :: a1 :: a2 :: a3 :: fc :: c0 :: c1 :: (fo ++ body ++ [m0, m1, m2, m3])).length = n + 12 := by
            simp [hfo, hbody]; omega
          -- fhdr(): bytes[1 .. 1 + fhdr_len]
          have e1 : slice (mhdr :: a0 :: a1 :: a2 :: a3 :: fc :: c0 :: c1 :: (fo ++ body ++ [m0, m1, m2, m3])) 1 (1 + (7 + k))
              = .ok (a0 :: a1 :: a2 :: a3 :: fc :: c0 :: c1 :: fo) := by
            have := slice_seg [mhdr] ([a0, a1, a2, a3, fc, c0, c1] ++ fo) (body ++ [m0, m1, m2, m3]) 1 (1 + (7 + k)) rfl
              (by simp [hfo]; omega)
            simpa using this
          have e2 : (slice (a0 :: a1 :: a2 :: a3 :: fc :: c0 :: c1 :: fo) 0 4).bind (arr 4) = .ok [a0, a1, a2, a3] := by
            have := slice_seg [] [a0, a1, a2, a3] ([fc, c0, c1] ++ fo) 0 4 rfl rfl
            simp only [List.nil_append, List.cons_append] at this
            rw [this]; rfl
          have e3 : slice (a0 :: a1 :: a2 :: a3 :: fc :: c0 :: c1 :: fo) 7 (a0 :: a1 :: a2 :: a3 :: fc :: c0 :: c1 :: fo).length = .ok fo := by
            have := slice_suffix [a0, a1, a2, a3, fc, c0, c1] fo 7 (a0 :: a1 :: a2 :: a3 :: fc :: c0 :: c1 :: fo).length rfl (by simp; omega)
            simpa using this
          have e4 : slice (mhdr :: a0 :: a1 :: a2 :: a3 :: fc :: c0 :: c1 :: (fo ++ body ++ [m0, m1, m2, m3])) (n + 8)
              (mhdr :: a0 :: a1 :: a2 :: a3 :: fc :: c0 :: c1 :: (fo ++ body ++ [m0, m1, m2, m3])).length = .ok [m0, m1, m2, m3] := by
            have := slice_suffix ([mhdr, a0, a1, a2, a3, fc, c0, c1] ++ fo ++ body) [m0, m1, m2, m3] (n + 8)
              (mhdr :: a0 :: a1 :: a2 :: a3 :: fc :: c0 :: c1 :: (fo ++ body ++ [m0, m1, m2, m3])).length
              (by simp [hfo, hbody]; omega) (by rw [hB]; simp)
            simpa using this
          have e5 : usizeSub (mhdr :: a0 :: a1 :: a2 :: a3 :: fc :: c0 :: c1 :: (fo ++ body ++ [m0, m1, m2, m3])).length 4 = .ok (n + 8) := by
            rw [hB]; simp [usizeSub]
          have g4 : getByte (a0 :: a1 :: a2 :: a3 :: fc :: c0 :: c1 :: fo) 4 = .ok fc := rfl
          have g5 : getByte (a0 :: a1 :: a2 :: a3 :: fc :: c0 :: c1 :: fo) 5 = .ok c0 := rfl
          have g6 : getByte (a0 :: a1 :: a2 :: a3 :: fc :: c0 :: c1 :: fo) 6 = .ok c1 := rfl
          have gm0 : getByte [m0, m1, m2, m3] 0 = .ok m0 := rfl
          have gm1 : getByte [m0, m1, m2, m3] 1 = .ok m1 := rfl
          have gm2 : getByte [m0, m1, m2, m3] 2 = .ok m2 := rfl
          have gm3 : getByte [m0, m1, m2, m3] 3 = .ok m3 := rfl
          simp only [e1, bind_ok, e2, e3, e4, e5, g4, g5, g6, gm0, gm1, gm2, gm3]
          obtain ⟨hf1, hf2, hf3, hf4, hf5⟩ := hfl
          rw [hf1, hf2, hf3, hf4, hf5]
          have hval : UInt32.ofNat (leValue [a0, a1, a2, a3]) = UInt32.ofNat (Spec.fromLe [a0, a1, a2, a3]) := rfl
          have hcnt : u16FromLe c0 c1 = UInt16.ofNat (Spec.fromLe [c0, c1]) := by simp [u16FromLe, Spec.fromLe]
          cases body with
          | nil =>
            have hkn2 : k = n := by simp at hbody; omega
            have hlt : ¬ (1 + (7 + k) < n + 8) := by omega
            simp only [hlt, if_false, bind_ok]
            have e6 : slice (mhdr :: a0 :: a1 :: a2 :: a3 :: fc :: c0 :: c1 :: (fo ++ [] ++ [m0, m1, m2, m3])) (1 + (7 + k)) (n + 8)
                = .ok [] := by
              have := slice_seg ([mhdr, a0, a1, a2, a3, fc, c0, c1] ++ fo) [] [m0, m1, m2, m3] (1 + (7 + k)) (n + 8)
                (by simp [hfo]; omega) (by simp; omega)
              simpa using this
            simp only [e6, bind_ok, Outcome.map, Outcome.ofExcept, DataView.toSpec, hval, hcnt, List.head?_nil, List.drop_nil]
          | cons p frm =>
            have hlt : 1 + (7 + k) < n + 8 := by simp at hbody; omega
            simp only [hlt, if_true, bind_ok]
            have e6 : getByte (mhdr :: a0 :: a1 :: a2 :: a3 :: fc :: c0 :: c1 :: (fo ++ p :: frm ++ [m0, m1, m2, m3])) (1 + (7 + k))
                = .ok p := by
              have := getByte_at ([mhdr, a0, a1, a2, a3, fc, c0, c1] ++ fo) (frm ++ [m0, m1, m2, m3]) p (1 + (7 + k))
                (by simp [hfo]; omega)
              simpa using this
            have e7 : slice (mhdr :: a0 :: a1 :: a2 :: a3 :: fc :: c0 :: c1 :: (fo ++ p :: frm ++ [m0, m1, m2, m3])) (1 + (7 + k) + 1) (n + 8)
                = .ok frm := by
              have := slice_seg ([mhdr, a0, a1, a2, a3, fc, c0, c1] ++ fo ++ [p]) frm [m0, m1, m2, m3] (1 + (7 + k) + 1) (n + 8)
                (by simp [hfo]; omega) (by simp [hfo] at hbody ⊢; omega)
              simpa using this
            simp only [e6, e7, bind_ok, Outcome.map, Outcome.ofExcept, DataView.toSpec, hval, hcnt, List.head?_cons,
              List.drop_succ_cons, List.drop_zero]

/-- the specification's view of a frame given in pieces -/
def specViewOf (ft : FType) (a0 a1 a2 a3 fc c0 c1 : UInt8) (fo body mic : Bytes) : Spec.DataView :=
  { ftype := ft, uplink := ft.isUplink, confirmed := ft.isConfirmed
    devAddr := UInt32.ofNat (Spec.fromLe [a0, a1, a2, a3]), fctrl := fc, adr := Spec.testBit fc 7
    adrAckReq := ft.isUplink && Spec.testBit fc 6, ack := Spec.testBit fc 5
    fPending := !ft.isUplink && Spec.testBit fc 4, foptsLen := fc.toNat % 16
    fcnt16 := UInt16.ofNat (Spec.fromLe [c0, c1]), fopts := fo, port := body.head?, frm := body.drop 1, mic := mic }

/-- the layout `Layout::validate` computes for a frame given in pieces -/
def layoutOf (ft : FType) (fo body : Bytes) : Layout :=
  { frameType := ft, fhdrLen := 7 + fo.length
    fPortOffset := if body.length = 0 then none else some (1 + (7 + fo.length))
    frmStart := if body.length = 0 then 1 + (7 + fo.length) else 1 + (7 + fo.length) + 1
    frmEnd := 8 + fo.length + body.length }

/-- **Structure lemma.** Either model and specification refuse the byte string with the same error, or
it splits as MHDR | DevAddr | FCtrl | FCnt | FOpts | [FPort | FRMPayload] | MIC and both read it so. -/
theorem validate_cases (b : Bytes) :
    (∃ e, Layout.validate b = .err e ∧ Spec.decodeData b = .error e) ∨
    (∃ mhdr a0 a1 a2 a3 fc c0 c1 fo body m0 m1 m2 m3 ft,
      b = mhdr :: a0 :: a1 :: a2 :: a3 :: fc :: c0 :: c1 :: (fo ++ body ++ [m0, m1, m2, m3]) ∧
      fo.length = fc.toNat % 16 ∧ Spec.mtypeOfCode (mhdr.toNat / 32) = some ft ∧ mhdr.toNat % 4 = 0 ∧
      Layout.validate b = .ok (layoutOf ft fo body) ∧
      Spec.decodeData b = .ok (specViewOf ft a0 a1 a2 a3 fc c0 c1 fo body [m0, m1, m2, m3])) := by
  unfold Layout.validate Spec.decodeData
  by_cases hlen : b.length < 12
  · left; exact ⟨.tooShort, by simp only [hlen, if_true], by simp only [hlen, if_true]⟩
  · simp only [hlen, if_false]
    obtain ⟨mhdr, a0, a1, a2, a3, fc, c0, c1, tail, rfl⟩ := list8 b (by omega)
    have htl : 4 ≤ tail.length := by simp at hlen; omega
    simp only [bind, Outcome.bind, getByte, List.getElem?_cons_zero, List.getElem?_cons_succ, Outcome.ofOption]
    have hmaj := major_eq mhdr
    by_cases hm : mhdr.toNat % 4 ≠ 0
    · have hm' : mhdr &&& 0b11 ≠ 0 := by simpa [hm] using hmaj
      left; exact ⟨.unsupportedMajorVersion, by simp only [hm', ne_eq, not_false_eq_true, if_true], by simp only [hm, ne_eq, not_false_eq_true, if_true]⟩
    · have hm' : ¬ (mhdr &&& 0b11 ≠ 0) := by simpa [hm] using hmaj
      simp only [hm', hm, if_false]
      rw [ftype_code]
      cases hft : Spec.mtypeOfCode (mhdr.toNat / 32) with
      | none => left; exact ⟨.notADataFrame, rfl, rfl⟩
      | some ft =>
        simp only [Outcome.okOr, foptslen_eq, usizeSub]
        have hl4 : 4 ≤ (mhdr :: a0 :: a1 :: a2 :: a3 :: fc :: c0 :: c1 :: tail).length := by simp
        have hle : (mhdr :: a0 :: a1 :: a2 :: a3 :: fc :: c0 :: c1 :: tail).length - 4 = tail.length - 4 + 8 := by
          simp; omega
        simp only [hl4, if_true, hle]
        generalize hk : fc.toNat % 16 = k at *
        generalize hn : tail.length - 4 = n at *
        by_cases hkn : k > n
        · have : 1 + (7 + k) > n + 8 := by omega
          left; exact ⟨.truncatedFhdr, by simp only [this, if_true], by simp only [hkn, if_true]⟩
        · have h1 : ¬ (1 + (7 + k) > n + 8) := by omega
          simp only [h1, hkn, if_false, pure]
          obtain ⟨fo, body, mic, htail, hfo, hbody, hmic, hfo', hbody', hmic'⟩ := split3 tail k n (by omega) (by omega)
          obtain ⟨m0, m1, m2, m3, hm4⟩ := list4 mic hmic
          right
          refine ⟨mhdr, a0, a1, a2, a3, fc, c0, c1, fo, body, m0, m1, m2, m3, ft, by rw [htail, hm4], by rw [hfo, hk], hft, by omega, ?_, ?_⟩
          · congr 1
            unfold layoutOf
            rw [hfo, hbody]
            by_cases hb0 : n - k = 0
            · have : ¬ (1 + (7 + k) < n + 8) := by omega
              simp only [hb0, this, if_true, if_false]; congr 1; omega
            · have : (1 + (7 + k) < n + 8) := by omega
              simp only [hb0, this, if_true, if_false]; congr 1; omega
          · congr 1
            unfold specViewOf
            rw [← hfo', ← hbody', ← hmic', hm4, hk]

/-! ## MIC validation and in-place decryption of a frame given in pieces -/

theorem dir_of_code : ∀ x : UInt8, ∀ ft, Spec.mtypeOfCode (x.toNat / 32) = some ft → (x &&& 0x20) >>> 5 = Spec.dirOf ft :=
  uint8_forall _ (by decide +kernel)

theorem le4_fromLe (a0 a1 a2 a3 : UInt8) :
    Spec.le 4 (UInt32.ofNat (Spec.fromLe [a0, a1, a2, a3])).toNat = [a0, a1, a2, a3] := by
  have := le_devAddr #v[a0, a1, a2, a3]
  exact this

/-- the frame in pieces -/
abbrev frameOf (mhdr a0 a1 a2 a3 fc c0 c1 : UInt8) (fo body mic : Bytes) : Bytes :=
  mhdr :: a0 :: a1 :: a2 :: a3 :: fc :: c0 :: c1 :: (fo ++ body ++ mic)

theorem frame_length (mhdr a0 a1 a2 a3 fc c0 c1 : UInt8) (fo body mic : Bytes) :
    (frameOf mhdr a0 a1 a2 a3 fc c0 c1 fo body mic).length = 8 + fo.length + body.length + mic.length := by
  simp [frameOf]; omega

theorem validateMic_pieces (c : Cipher) (k : Key) (fcnt : UInt32) (mhdr a0 a1 a2 a3 fc c0 c1 : UInt8)
    (fo body : Bytes) (m0 m1 m2 m3 : UInt8) (ft : FType) (l : Layout)
    (hft : Spec.mtypeOfCode (mhdr.toNat / 32) = some ft) :
    DataPayload.validateMic ⟨frameOf mhdr a0 a1 a2 a3 fc c0 c1 fo body [m0, m1, m2, m3], l⟩ ⟨c, k⟩ fcnt
      = .ok ([m0, m1, m2, m3] == Spec.dataMic c k (Spec.dirOf ft) (UInt32.ofNat (Spec.fromLe [a0, a1, a2, a3])) fcnt
          (mhdr :: a0 :: a1 :: a2 :: a3 :: fc :: c0 :: c1 :: (fo ++ body))) := by
  unfold DataPayload.validateMic DataPayload.mic
  simp only [bind, pure]
  have hB := frame_length mhdr a0 a1 a2 a3 fc c0 c1 fo body [m0, m1, m2, m3]
  have e5 : usizeSub (frameOf mhdr a0 a1 a2 a3 fc c0 c1 fo body [m0, m1, m2, m3]).length 4 = .ok (8 + fo.length + body.length) := by
    rw [hB]; simp [usizeSub]
  have e1 : slice (frameOf mhdr a0 a1 a2 a3 fc c0 c1 fo body [m0, m1, m2, m3]) 0 (8 + fo.length + body.length)
      = .ok (mhdr :: a0 :: a1 :: a2 :: a3 :: fc :: c0 :: c1 :: (fo ++ body)) := by
    have := slice_prefix (mhdr :: a0 :: a1 :: a2 :: a3 :: fc :: c0 :: c1 :: (fo ++ body)) [m0, m1, m2, m3] (8 + fo.length + body.length)
      (by simp; omega)
    simpa [frameOf] using this
  have e4 : slice (frameOf mhdr a0 a1 a2 a3 fc c0 c1 fo body [m0, m1, m2, m3]) (8 + fo.length + body.length)
      (frameOf mhdr a0 a1 a2 a3 fc c0 c1 fo body [m0, m1, m2, m3]).length = .ok [m0, m1, m2, m3] := by
    have := slice_suffix (mhdr :: a0 :: a1 :: a2 :: a3 :: fc :: c0 :: c1 :: (fo ++ body)) [m0, m1, m2, m3] (8 + fo.length + body.length)
      (frameOf mhdr a0 a1 a2 a3 fc c0 c1 fo body [m0, m1, m2, m3]).length (by simp; omega) (by rw [hB])
    simpa [frameOf] using this
  have gm0 : getByte [m0, m1, m2, m3] 0 = .ok m0 := rfl
  have gm1 : getByte [m0, m1, m2, m3] 1 = .ok m1 := rfl
  have gm2 : getByte [m0, m1, m2, m3] 2 = .ok m2 := rfl
  have gm3 : getByte [m0, m1, m2, m3] 3 = .ok m3 := rfl
  have hc : calculateDataMic ⟨c, k⟩ (mhdr :: a0 :: a1 :: a2 :: a3 :: fc :: c0 :: c1 :: (fo ++ body)) fcnt
      = .ok (Spec.dataMic c k (Spec.dirOf ft) (UInt32.ofNat (Spec.fromLe [a0, a1, a2, a3])) fcnt
          (mhdr :: a0 :: a1 :: a2 :: a3 :: fc :: c0 :: c1 :: (fo ++ body))) := by
    unfold calculateDataMic
    rw [helper_spec]
    simp only [bind, pure, bind_ok, Crypto.calculateMic, Spec.dataMic]
    rw [dir_of_code mhdr ft hft, blockB0_eq _ _ _ _ _ _ _ _ (le4_fromLe a0 a1 a2 a3)]
  simp only [e5, bind_ok, e1, e4, gm0, gm1, gm2, gm3, hc]
theorem fullFcnt_eq (fcnt : UInt32) (c0 c1 : UInt8) :
    ((fcnt >>> 16) <<< 16) ||| (u16FromLe c0 c1).toUInt32 = Spec.fullFcnt fcnt (UInt16.ofNat (Spec.fromLe [c0, c1])) := by
  apply UInt32.toNat_inj.mp
  have h0 := c0.toNat_lt
  have h1 := c1.toNat_lt
  have hf := fcnt.toNat_lt
  have hw : (u16FromLe c0 c1).toNat = c0.toNat + 256 * c1.toNat := by
    simp [u16FromLe]; omega
  have hw2 : (UInt16.ofNat (Spec.fromLe [c0, c1])).toNat = c0.toNat + 256 * c1.toNat := by
    simp [Spec.fromLe]; omega
  simp only [UInt32.toNat_or, UInt32.toNat_shiftLeft, UInt32.toNat_shiftRight, UInt16.toNat_toUInt32, hw, Spec.fullFcnt, hw2]
  simp only [UInt32.toNat_ofNat', Nat.shiftRight_eq_div_pow, Nat.shiftLeft_eq]
  have h3 : fcnt.toNat / 2 ^ (16 % 32) * 2 ^ (16 % 32) % 2 ^ 32 = (fcnt.toNat / 65536) <<< 16 := by
    simp [Nat.shiftLeft_eq]; omega
  rw [show (UInt32.toNat 16) = 16 from rfl, h3, ← Nat.shiftLeft_add_eq_or_of_lt (by omega), Nat.shiftLeft_eq]
  omega

theorem encrypt_pieces (c : Cipher) (key : Key) (full : UInt32) (mhdr a0 a1 a2 a3 fc c0 c1 : UInt8)
    (fo : Bytes) (p : UInt8) (frm mic : Bytes) (ft : FType)
    (hft : Spec.mtypeOfCode (mhdr.toNat / 32) = some ft) (hmax : frm.length ≤ 4064) :
    encryptFrmDataPayload ⟨c, key⟩ (frameOf mhdr a0 a1 a2 a3 fc c0 c1 fo (p :: frm) mic)
        (1 + (7 + fo.length) + 1) (1 + (7 + fo.length) + 1 + frm.length) full
      = .ok (frameOf mhdr a0 a1 a2 a3 fc c0 c1 fo
          (p :: Spec.cryptPayload c key (Spec.dirOf ft) (UInt32.ofNat (Spec.fromLe [a0, a1, a2, a3])) full frm) mic) := by
  have hsplit : frameOf mhdr a0 a1 a2 a3 fc c0 c1 fo (p :: frm) mic
      = (mhdr :: a0 :: a1 :: a2 :: a3 :: fc :: c0 :: c1 :: (fo ++ [p])) ++ frm ++ mic := by simp [frameOf]
  rw [hsplit]
  rw [encryptFrm_spec ⟨c, key⟩ _ frm mic full _ _ _ (by simp; omega) rfl (helper_spec ..) hmax]
  rw [crypt_eq c key _ (Spec.dirOf ft) (UInt32.ofNat (Spec.fromLe [a0, a1, a2, a3])) full]
  · simp [frameOf]
  · intro i
    rw [dir_of_code mhdr ft hft]
    exact blockA_eq _ _ _ _ _ _ _ _ (le4_fromLe a0 a1 a2 a3)

/-- nothing to decrypt: no FRMPayload bytes -/
theorem decrypt_pieces_empty (c : Cipher) (nwk app : Option Key) (fcnt : UInt32) (b : Bytes) (ft : FType) (fo body : Bytes)
    (hval : Layout.validate b = .ok (layoutOf ft fo body)) (hb : body.length ≤ 1) :
    decryptInPlace c b nwk app fcnt = (.ok ⟨b, layoutOf ft fo body⟩, b) := by
  unfold decryptInPlace
  rw [hval]
  have : ¬ ((layoutOf ft fo body).frmStart < (layoutOf ft fo body).frmEnd) := by
    unfold layoutOf
    by_cases h0 : body.length = 0
    · simp only [h0, if_true]; omega
    · simp only [h0, if_false]; omega
  simp only [this, if_false]

theorem decrypt_pieces (c : Cipher) (nwk app : Option Key) (fcnt : UInt32) (mhdr a0 a1 a2 a3 fc c0 c1 : UInt8)
    (fo : Bytes) (p : UInt8) (frm mic : Bytes) (ft : FType)
    (hft : Spec.mtypeOfCode (mhdr.toNat / 32) = some ft) (hfrm : 0 < frm.length) (hmax : frm.length ≤ 4064)
    (hval : Layout.validate (frameOf mhdr a0 a1 a2 a3 fc c0 c1 fo (p :: frm) mic) = .ok (layoutOf ft fo (p :: frm))) :
    decryptInPlace c (frameOf mhdr a0 a1 a2 a3 fc c0 c1 fo (p :: frm) mic) nwk app fcnt =
      match (if p = 0 then nwk else app) with
      | none => (.err .missingKey, frameOf mhdr a0 a1 a2 a3 fc c0 c1 fo (p :: frm) mic)
      | some key =>
        let plain := Spec.cryptPayload c key (Spec.dirOf ft) (UInt32.ofNat (Spec.fromLe [a0, a1, a2, a3]))
          (Spec.fullFcnt fcnt (UInt16.ofNat (Spec.fromLe [c0, c1]))) frm
        (.ok ⟨frameOf mhdr a0 a1 a2 a3 fc c0 c1 fo (p :: plain) mic, layoutOf ft fo (p :: frm)⟩,
         frameOf mhdr a0 a1 a2 a3 fc c0 c1 fo (p :: plain) mic) := by
  unfold decryptInPlace
  rw [hval]
  have hlt : (layoutOf ft fo (p :: frm)).frmStart < (layoutOf ft fo (p :: frm)).frmEnd := by
    simp [layoutOf]; omega
  simp only [hlt, if_true]
  have hoff : (layoutOf ft fo (p :: frm)).fPortOffset = some (1 + (7 + fo.length)) := by simp [layoutOf]
  have hstart : (layoutOf ft fo (p :: frm)).frmStart = 1 + (7 + fo.length) + 1 := by simp [layoutOf]
  have hend : (layoutOf ft fo (p :: frm)).frmEnd = 1 + (7 + fo.length) + 1 + frm.length := by simp [layoutOf]; omega
  rw [hoff, hstart, hend]
  have e6 : getByte (frameOf mhdr a0 a1 a2 a3 fc c0 c1 fo (p :: frm) mic) (1 + (7 + fo.length)) = .ok p := by
    have := getByte_at ([mhdr, a0, a1, a2, a3, fc, c0, c1] ++ fo) (frm ++ mic) p (1 + (7 + fo.length)) (by simp; omega)
    simpa [frameOf] using this
  have g6 : getByte (frameOf mhdr a0 a1 a2 a3 fc c0 c1 fo (p :: frm) mic) 6 = .ok c0 := rfl
  have g7 : getByte (frameOf mhdr a0 a1 a2 a3 fc c0 c1 fo (p :: frm) mic) 7 = .ok c1 := rfl
  simp only [e6, bind_ok, pure, g6, g7]
  by_cases hp : p = 0
  · subst hp
    simp only [ne_eq, not_true_eq_false, decide_false, Bool.false_eq_true, if_false, if_true]
    cases nwk with
    | none => rfl
    | some key =>
      simp only []
      rw [fullFcnt_eq, encrypt_pieces c key _ mhdr a0 a1 a2 a3 fc c0 c1 fo 0 frm mic ft hft hmax]
  · simp only [ne_eq, hp, not_false_eq_true, decide_true, if_true, if_false]
    cases app with
    | none => rfl
    | some key =>
      simp only []
      rw [fullFcnt_eq, encrypt_pieces c key _ mhdr a0 a1 a2 a3 fc c0 c1 fo p frm mic ft hft hmax]

theorem layout_pieces (mhdr a0 a1 a2 a3 fc c0 c1 : UInt8) (fo body mic : Bytes) (ft : FType)
    (hmaj : mhdr.toNat % 4 = 0) (hft : Spec.mtypeOfCode (mhdr.toNat / 32) = some ft)
    (hfo : fo.length = fc.toNat % 16) (hmic : mic.length = 4) :
    Layout.validate (frameOf mhdr a0 a1 a2 a3 fc c0 c1 fo body mic) = .ok (layoutOf ft fo body) := by
  unfold Layout.validate
  have hB : (frameOf mhdr a0 a1 a2 a3 fc c0 c1 fo body mic).length = 12 + fo.length + body.length := by
    simp [frameOf, hmic]; omega
  have hlen : ¬ (frameOf mhdr a0 a1 a2 a3 fc c0 c1 fo body mic).length < 12 := by omega
  have hm' : ¬ (mhdr &&& 0b11 ≠ 0) := by
    have := major_eq mhdr
    simpa [hmaj] using this
  have g0 : getByte (frameOf mhdr a0 a1 a2 a3 fc c0 c1 fo body mic) 0 = .ok mhdr := rfl
  have g5 : getByte (frameOf mhdr a0 a1 a2 a3 fc c0 c1 fo body mic) 5 = .ok fc := rfl
  have hlen' : ¬ (12 + fo.length + body.length < 12) := by omega
  have hsub : 12 + fo.length + body.length - 4 = 8 + fo.length + body.length := by omega
  have h4 : 4 ≤ 12 + fo.length + body.length := by omega
  have h1 : ¬ (1 + (7 + fo.length) > 8 + fo.length + body.length) := by omega
  simp only [bind, pure, g0, bind_ok, hm', ftype_code, hft, Outcome.okOr, g5, foptslen_eq, ← hfo, usizeSub, hB, hlen', if_false,
    h4, if_true, hsub, h1]
  congr 1
  unfold layoutOf
  by_cases hb0 : body.length = 0
  · have : ¬ (1 + (7 + fo.length) < 8 + fo.length + body.length) := by omega
    simp only [this, if_false]; simp only [hb0, if_true]
  · have : (1 + (7 + fo.length) < 8 + fo.length + body.length) := by omega
    simp only [this, if_true]; simp only [hb0, if_false]

theorem decode_pieces (mhdr a0 a1 a2 a3 fc c0 c1 : UInt8) (fo body mic : Bytes) (ft : FType)
    (hmaj : mhdr.toNat % 4 = 0) (hft : Spec.mtypeOfCode (mhdr.toNat / 32) = some ft)
    (hfo : fo.length = fc.toNat % 16) (hmic : mic.length = 4) :
    Spec.decodeData (frameOf mhdr a0 a1 a2 a3 fc c0 c1 fo body mic) = .ok (specViewOf ft a0 a1 a2 a3 fc c0 c1 fo body mic) := by
  unfold Spec.decodeData
  have hB : (frameOf mhdr a0 a1 a2 a3 fc c0 c1 fo body mic).length = 12 + fo.length + body.length := by
    simp [frameOf, hmic]; omega
  have hlen : ¬ (frameOf mhdr a0 a1 a2 a3 fc c0 c1 fo body mic).length < 12 := by omega
  simp only [hlen, if_false, frameOf, hmaj, ne_eq, not_true_eq_false, hft]
  have hn : (fo ++ body ++ mic).length - 4 = fo.length + body.length := by simp [hmic]; omega
  have hk : ¬ (fc.toNat % 16 > fo.length + body.length) := by omega
  simp only [hn, hk, if_false]
  congr 1
  unfold specViewOf
  have t1 : List.take (fc.toNat % 16) (fo ++ body ++ mic) = fo := by
    rw [← hfo, List.append_assoc, List.take_left']; rfl
  have t2 : List.take (fo.length + body.length) (fo ++ body ++ mic) = fo ++ body := by
    rw [List.take_left']; simp
  have t3 : List.drop (fo.length + body.length) (fo ++ body ++ mic) = mic := by
    rw [List.drop_left']; simp
  have t4 : List.drop (fc.toNat % 16) (fo ++ body) = body := by
    rw [← hfo, List.drop_left']; rfl
  rw [t1, t2, t3, t4]

/-! ## further pieces: payload replacement, xor involution, reading back what the encoder wrote -/

theorem msgOf_pieces (mhdr a0 a1 a2 a3 fc c0 c1 : UInt8) (fo body mic : Bytes) (hmic : mic.length = 4) :
    Spec.msgOf (frameOf mhdr a0 a1 a2 a3 fc c0 c1 fo body mic) = mhdr :: a0 :: a1 :: a2 :: a3 :: fc :: c0 :: c1 :: (fo ++ body) := by
  unfold Spec.msgOf
  have : (frameOf mhdr a0 a1 a2 a3 fc c0 c1 fo body mic).length - 4 = (mhdr :: a0 :: a1 :: a2 :: a3 :: fc :: c0 :: c1 :: (fo ++ body)).length := by
    simp [frameOf, hmic]; omega
  rw [this]
  have : frameOf mhdr a0 a1 a2 a3 fc c0 c1 fo body mic = (mhdr :: a0 :: a1 :: a2 :: a3 :: fc :: c0 :: c1 :: (fo ++ body)) ++ mic := by
    simp [frameOf]
  rw [this, List.take_left']
  rfl

theorem withPayload_pieces (mhdr a0 a1 a2 a3 fc c0 c1 : UInt8) (fo : Bytes) (p : UInt8) (frm plain mic : Bytes) (ft : FType)
    (hmic : mic.length = 4) :
    Spec.withPayload (frameOf mhdr a0 a1 a2 a3 fc c0 c1 fo (p :: frm) mic)
        (specViewOf ft a0 a1 a2 a3 fc c0 c1 fo (p :: frm) mic) plain
      = frameOf mhdr a0 a1 a2 a3 fc c0 c1 fo (p :: plain) mic := by
  unfold Spec.withPayload
  have hv : (specViewOf ft a0 a1 a2 a3 fc c0 c1 fo (p :: frm) mic).frm = frm := rfl
  have hm : (specViewOf ft a0 a1 a2 a3 fc c0 c1 fo (p :: frm) mic).mic = mic := rfl
  rw [hv, hm]
  have hl : (frameOf mhdr a0 a1 a2 a3 fc c0 c1 fo (p :: frm) mic).length - 4 - frm.length
      = (mhdr :: a0 :: a1 :: a2 :: a3 :: fc :: c0 :: c1 :: (fo ++ [p])).length := by
    simp [frameOf, hmic]; omega
  have hsplit : frameOf mhdr a0 a1 a2 a3 fc c0 c1 fo (p :: frm) mic
      = (mhdr :: a0 :: a1 :: a2 :: a3 :: fc :: c0 :: c1 :: (fo ++ [p])) ++ (frm ++ mic) := by simp [frameOf]
  rw [hl, hsplit, List.take_left']
  · simp [frameOf]
  · rfl

theorem withPayload_nil (b : Bytes) (v : Spec.DataView) (mhdr a0 a1 a2 a3 fc c0 c1 : UInt8) (fo body mic : Bytes) (ft : FType)
    (hb : b = frameOf mhdr a0 a1 a2 a3 fc c0 c1 fo body mic) (hv : v = specViewOf ft a0 a1 a2 a3 fc c0 c1 fo body mic)
    (hmic : mic.length = 4) (hbody : body.length ≤ 1) :
    Spec.withPayload b v [] = b := by
  subst hb hv
  unfold Spec.withPayload
  have hv : (specViewOf ft a0 a1 a2 a3 fc c0 c1 fo body mic).frm = [] := by
    simp only [specViewOf]
    match body, hbody with
    | [], _ => rfl
    | [_], _ => rfl
  have hm : (specViewOf ft a0 a1 a2 a3 fc c0 c1 fo body mic).mic = mic := rfl
  rw [hv, hm]
  have hl : (frameOf mhdr a0 a1 a2 a3 fc c0 c1 fo body mic).length - 4 - ([] : Bytes).length
      = (mhdr :: a0 :: a1 :: a2 :: a3 :: fc :: c0 :: c1 :: (fo ++ body)).length := by
    simp [frameOf, hmic]; omega
  have hsplit : frameOf mhdr a0 a1 a2 a3 fc c0 c1 fo body mic
      = (mhdr :: a0 :: a1 :: a2 :: a3 :: fc :: c0 :: c1 :: (fo ++ body)) ++ mic := by simp [frameOf]
  rw [hl, hsplit, List.take_left']
  · simp
  · rfl

theorem decrypt_untouched_or_ok (c : Cipher) (b : Bytes) (nwk app : Option Key) (N : UInt32) :
    (decryptInPlace c b nwk app N).2 = b ∨ ∃ p, (decryptInPlace c b nwk app N).1 = .ok p := by
  unfold decryptInPlace
  simp only []
  repeat' split
  all_goals first | (left; rfl) | (right; exact ⟨_, rfl⟩)

theorem xor_xor (p K : Bytes) (h : p.length ≤ K.length) : Spec.xorBytes (Spec.xorBytes p K) K = p := by
  induction p generalizing K with
  | nil => rfl
  | cons x xs ih =>
    cases K with
    | nil => simp at h
    | cons k ks =>
      simp only [Spec.xorBytes, List.zipWith_cons_cons] at ih ⊢
      rw [ih ks (by simpa using h)]
      congr 1
      rw [UInt8.xor_assoc, UInt8.xor_self]; simp

theorem crypt_involutive (c : Cipher) (k : Key) (dir : UInt8) (a f : UInt32) (p : Bytes) :
    Spec.cryptPayload c k dir a f (Spec.cryptPayload c k dir a f p) = p := by
  have hl := cryptPayload_length c k dir a f p
  unfold Spec.cryptPayload at hl ⊢
  rw [hl]
  exact xor_xor p _ (by rw [keystream_length]; omega)

theorem fctrl_read : ∀ (n : Fin 16) (up adr req ack pend : Bool),
    (Spec.fctrlOf up adr req ack pend n.val).toNat % 16 = n.val
    ∧ Spec.testBit (Spec.fctrlOf up adr req ack pend n.val) 7 = adr
    ∧ (up && Spec.testBit (Spec.fctrlOf up adr req ack pend n.val) 6) = (up && req)
    ∧ Spec.testBit (Spec.fctrlOf up adr req ack pend n.val) 5 = ack
    ∧ (!up && Spec.testBit (Spec.fctrlOf up adr req ack pend n.val) 4) = (!up && pend) := by decide +kernel

theorem mhdr_read (ft : FType) :
    (Spec.mhdrData ft).toNat % 4 = 0 ∧ Spec.mtypeOfCode ((Spec.mhdrData ft).toNat / 32) = some ft := by
  cases ft <;> decide

theorem fromLe_le (n v : Nat) : Spec.fromLe (Spec.le n v) = v % 256 ^ n := by
  induction n generalizing v with
  | zero => simp [Spec.le, Spec.fromLe, Nat.mod_one]
  | succ n ih =>
    simp only [Spec.le, Spec.fromLe, ih]
    have : (UInt8.ofNat (v % 256)).toNat = v % 256 := by simp
    rw [this, Nat.pow_succ, Nat.mul_comm (256 ^ n) 256, Nat.mod_mul]

theorem le_cons4 (v : Nat) : ∃ a0 a1 a2 a3, Spec.le 4 v = [a0, a1, a2, a3] := ⟨_, _, _, _, rfl⟩
theorem le_cons2 (v : Nat) : ∃ c0 c1, Spec.le 2 v = [c0, c1] := ⟨_, _, rfl⟩

theorem mic_length (c : Cipher) (k : Key) (dir : UInt8) (a f : UInt32) (m : Bytes) : (Spec.dataMic c k dir a f m).length = 4 := by
  simp [Spec.dataMic]

theorem layoutOf_congr (ft : FType) (fo body body' : Bytes) (h : body.length = body'.length) :
    layoutOf ft fo body = layoutOf ft fo body' := by
  unfold layoutOf; rw [h]

theorem toDesc_norm (s : Spec.DataDesc) (a0 a1 a2 a3 c0 c1 : UInt8) (body' mic : Bytes) (hfo : s.fopts.length ≤ 15)
    (haddr : UInt32.ofNat (Spec.fromLe [a0, a1, a2, a3]) = s.devAddr)
    (hb : (body'.head?).map (fun p => (p, body'.drop 1)) = s.body) :
    (specViewOf s.ftype a0 a1 a2 a3 (Spec.fctrl s) c0 c1 s.fopts body' mic).toDesc s.fcnt
        (specViewOf s.ftype a0 a1 a2 a3 (Spec.fctrl s) c0 c1 s.fopts body' mic).frm = s.norm := by
  obtain ⟨hf1, hf2, hf3, hf4, hf5⟩ := fctrl_read ⟨s.fopts.length, by omega⟩ s.ftype.isUplink s.adr s.adrAckReq s.ack s.fPending
  simp only [Spec.DataView.toDesc, specViewOf, Spec.DataDesc.norm, haddr, Spec.fctrl]
  simp only [] at hf2 hf3 hf4 hf5
  rw [hf2, hf3, hf4, hf5, hb]

end Lora.C02Lemmas
