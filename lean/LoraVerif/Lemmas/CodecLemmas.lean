import LoraVerif.Model.Codec
import LoraVerif.Spec.LoRaWAN
import LoraVerif.Spec.LoRaWANBridge
/-!
# Lemmas about the codec model (C01, C02): little-endian bridges, buffer segments, the keystream loop
-/
open Lora Lora.Codec

namespace Lora.CodecLemmas

/-! ## little-endian -/

theorem le_leValue (l : Bytes) : Spec.le l.length (Codec.leValue l) = l := by
  induction l with
  | nil => rfl
  | cons b bs ih =>
    simp only [List.length_cons, Spec.le, Codec.leValue]
    have hb := b.toNat_lt
    have h1 : (b.toNat + 256 * Codec.leValue bs) % 256 = b.toNat := by omega
    have h2 : (b.toNat + 256 * Codec.leValue bs) / 256 = Codec.leValue bs := by omega
    rw [h1, h2, ih]
    simp

theorem leValue_lt (l : Bytes) : Codec.leValue l < 256 ^ l.length := by
  induction l with
  | nil => simp [Codec.leValue]
  | cons b bs ih =>
    simp only [List.length_cons, Codec.leValue, Nat.pow_succ]
    have hb := b.toNat_lt
    omega

theorem le_devAddr (a : Codec.DevAddr) : Spec.le 4 (Codec.DevAddr.value a).toNat = a.toList := by
  unfold Codec.DevAddr.value
  have h := leValue_lt a.toList
  have hl : a.toList.length = 4 := by simp
  rw [hl] at h
  have : (UInt32.ofNat (Codec.leValue a.toList)).toNat = Codec.leValue a.toList := by
    simp [UInt32.toNat_ofNat']; omega
  rw [this]
  have := le_leValue a.toList
  rwa [hl] at this

theorem and_ff (x : UInt32) : (x &&& 0xff).toUInt8 = UInt8.ofNat (x.toNat % 256) := by
  apply UInt8.toNat_inj.mp
  simp
  have := Nat.and_two_pow_sub_one_eq_mod (x.toNat % 256) 8
  simp at this
  exact this

theorem le4_fcnt (fcnt : UInt32) :
    Spec.le 4 fcnt.toNat = [(fcnt &&& 0xff).toUInt8, ((fcnt >>> 8) &&& 0xff).toUInt8,
      ((fcnt >>> 16) &&& 0xff).toUInt8, ((fcnt >>> 24) &&& 0xff).toUInt8] := by
  simp only [Spec.le]
  simp only [and_ff, UInt32.toNat_shiftRight]
  have hlt := fcnt.toNat_lt
  simp [Nat.shiftRight_eq_div_pow]
  constructor <;> congr 1 <;> omega

theorem u16ToLe_fcnt (fcnt : UInt32) : u16ToLe fcnt.toUInt16 = Spec.le 2 (fcnt.toNat % 65536) := by
  simp only [u16ToLe, Spec.le, UInt32.toNat_toUInt16]
  have : fcnt.toNat % 2 ^ 16 / 256 % 256 = fcnt.toNat % 2 ^ 16 / 256 := by omega
  simp [this]

theorem vec4_toList (v : Vector UInt8 4) : v.toList = [v[0], v[1], v[2], v[3]] := by
  rcases v with ⟨⟨l⟩, h⟩
  match l, h with
  | [a, b, c, d], _ => rfl

/-! ## buffer segments -/

theorem getElem?_seg (pre mid post : Bytes) (p : Nat) :
    (pre ++ mid ++ post)[p]? =
      if p < pre.length then pre[p]?
      else if p < pre.length + mid.length then mid[p - pre.length]?
      else post[p - pre.length - mid.length]? := by
  by_cases h1 : p < pre.length
  · simp only [h1, if_true, List.append_assoc]
    exact List.getElem?_append_left h1
  · by_cases h2 : p < pre.length + mid.length
    · simp only [h1, h2, if_true, if_false, List.append_assoc]
      rw [List.getElem?_append_right (by omega), List.getElem?_append_left (by omega)]
    · simp only [h1, h2, if_false, List.append_assoc]
      rw [List.getElem?_append_right (by omega), List.getElem?_append_right (by omega)]

/-- writing the next `src.length` bytes of a buffer whose first `w.length` bytes are already written -/
theorem copy_next (w r src : Bytes) (lo hi : Nat) (hlo : lo = w.length) (hhi : hi = lo + src.length)
    (hr : src.length ≤ r.length) :
    copyFromSlice (w ++ r) lo hi src = .ok ((w ++ src) ++ r.drop src.length) := by
  subst hlo hhi
  unfold copyFromSlice
  have : w.length ≤ w.length + src.length ∧ w.length + src.length ≤ (w ++ r).length
      ∧ src.length = w.length + src.length - w.length := by
    simp; omega
  rw [if_pos this]
  congr 1
  simp [List.take_append, List.drop_append]

theorem set_next (w r : Bytes) (i : Nat) (v : UInt8) (hi : i = w.length) (hr : 0 < r.length) :
    setByte (w ++ r) i v = .ok ((w ++ [v]) ++ r.drop 1) := by
  subst hi
  unfold setByte
  have : w.length < (w ++ r).length := by simp; omega
  simp only [this, if_true]
  congr 1
  cases r with
  | nil => simp at hr
  | cons x xs => simp

theorem slice_prefix (w r : Bytes) (n : Nat) (hn : n = w.length) : slice (w ++ r) 0 n = .ok w := by
  subst hn
  unfold slice
  simp
theorem ksLoop_append (cr : Crypto) (start : Nat) (l1 l2 : List Nat) (st : KsState) :
    ksLoop cr start (l1 ++ l2) st = (ksLoop cr start l1 st).bind (ksLoop cr start l2) := by
  induction l1 generalizing st with
  | nil => rfl
  | cons i is ih =>
    simp only [List.cons_append, ksLoop]
    cases h : ksStep cr start st i with
    | ok st' => simp [Outcome.bind, ih]
    | err e => rfl
    | panic => rfl

/-- the keystream byte that position `i` of the payload is xored with -/
def ksByte (cr : Crypto) (a0 : Block) (i : Nat) : UInt8 :=
  (cr.cipher.enc cr.key (a0.set 15 (UInt8.ofNat (i / 16 + 1))))[i % 16]'(Nat.mod_lt _ (by decide))

structure KsInv (cr : Crypto) (start : Nat) (a0 : Block) (data : Bytes) (n : Nat) (st : KsState) : Prop where
  ha : ∀ c, st.a.set 15 c = a0.set 15 c
  hctr : st.ctr.toNat = (n + 15) / 16 + 1
  hs : n % 16 ≠ 0 → st.s = cr.cipher.enc cr.key (a0.set 15 (UInt8.ofNat (n / 16 + 1)))
  hlen : st.buf.length = data.length
  hbuf : ∀ p, st.buf[p]? = if start ≤ p ∧ p < start + n then (data[p]?).map (· ^^^ ksByte cr a0 (p - start)) else data[p]?

theorem ksStep_inv (cr : Crypto) (start : Nat) (a0 : Block) (data : Bytes) (n : Nat) (st : KsState)
    (inv : KsInv cr start a0 data n st) (hn : start + n < data.length) (hmax : n < 4064) :
    ∃ st', ksStep cr start st n = .ok st' ∧ KsInv cr start a0 data (n + 1) st' := by
  have hj : n &&& 0x0f = n % 16 := Nat.and_two_pow_sub_one_eq_mod n 4
  have hb : st.buf[start + n]? = some (data[start + n]'hn) := by
    rw [inv.hbuf]; simp
  have hsj : ∀ (s : Block), s[n % 16]? = some (s[n % 16]'(Nat.mod_lt _ (by decide))) :=
    fun s => Vector.getElem?_eq_getElem _
  unfold ksStep
  simp only [hj]
  by_cases h0 : n % 16 = 0
  · -- a new block starts
    have hc : st.ctr.toNat = n / 16 + 1 := by rw [inv.hctr]; omega
    have hne : st.ctr ≠ 255 := by
      intro h; rw [h] at hc; simp at hc; omega
    have hce : st.ctr = UInt8.ofNat (n / 16 + 1) := by
      apply UInt8.toNat_inj.mp; rw [hc]; simp; omega
    simp only [h0, if_true, hne, if_false, Outcome.bind]
    simp only [hb, hsj]
    refine ⟨_, rfl, ?_⟩
    constructor
    · intro c; simp only [Vector.set_set]; exact inv.ha c
    · simp only []
      rw [UInt8.toNat_add, hc]; simp; omega
    · intro _; simp only []
      rw [inv.ha, hce]; congr 3; omega
    · simp [inv.hlen]
    · intro p
      simp only [List.getElem?_set]
      by_cases hp : start + n = p
      · subst hp
        simp [inv.hlen, hn, ksByte, inv.ha, hce, h0]
      · simp only [hp, if_false]
        rw [inv.hbuf]
        by_cases hp2 : start ≤ p ∧ p < start + n
        · simp [hp2]; intro; omega
        · simp only [hp2, if_false]
          have : ¬ (start ≤ p ∧ p < start + (n + 1)) := by omega
          simp [this]
  · have hs := inv.hs h0
    simp only [h0, if_false, Outcome.bind]
    simp only [hb, hsj]
    refine ⟨_, rfl, ?_⟩
    constructor
    · exact inv.ha
    · simp only []; rw [inv.hctr]; omega
    · intro _; simp only []; rw [hs]; congr 4; omega
    · simp [inv.hlen]
    · intro p
      simp only [List.getElem?_set]
      by_cases hp : start + n = p
      · subst hp
        simp [inv.hlen, hn, ksByte, hs]
      · simp only [hp, if_false]
        rw [inv.hbuf]
        by_cases hp2 : start ≤ p ∧ p < start + n
        · simp [hp2]; intro; omega
        · simp only [hp2, if_false]
          have : ¬ (start ≤ p ∧ p < start + (n + 1)) := by omega
          simp [this]
theorem ksLoop_inv (cr : Crypto) (start : Nat) (a0 s0 : Block) (data : Bytes) (n : Nat)
    (hn : start + n ≤ data.length) (hmax : n ≤ 4064) :
    ∃ st, ksLoop cr start (List.range n) { a := a0, s := s0, ctr := 1, buf := data } = .ok st
      ∧ KsInv cr start a0 data n st := by
  induction n with
  | zero =>
    refine ⟨_, rfl, ?_⟩
    constructor
    · intro c; rfl
    · rfl
    · intro h; simp at h
    · rfl
    · intro p
      have : ¬ (start ≤ p ∧ p < start + 0) := by omega
      simp only [this, if_false]
  | succ n ih =>
    obtain ⟨st, hst, inv⟩ := ih (by omega) (by omega)
    obtain ⟨st', hst', inv'⟩ := ksStep_inv cr start a0 data n st inv (by omega) (by omega)
    refine ⟨st', ?_, inv'⟩
    rw [List.range_succ, ksLoop_append, hst]
    show (ksStep cr start st n).bind (ksLoop cr start []) = _
    rw [hst']; rfl

theorem encryptFrm_spec (cr : Crypto) (pre pl post : Bytes) (fcnt : UInt32) (a0 : Block) (start stop : Nat)
    (hstart : start = pre.length) (hstop : stop = start + pl.length)
    (ha : generateHelperBlock (pre ++ pl ++ post) 0x01 fcnt Block.zero = .ok a0) (hmax : pl.length ≤ 4064) :
    encryptFrmDataPayload cr (pre ++ pl ++ post) start stop fcnt
      = .ok (pre ++ List.zipWith (· ^^^ ·) pl ((List.range pl.length).map (ksByte cr a0)) ++ post) := by
  subst hstart hstop
  unfold encryptFrmDataPayload
  obtain ⟨st, hst, inv⟩ := ksLoop_inv cr pre.length a0 Block.zero (pre ++ pl ++ post) pl.length
    (by simp) hmax
  simp only [usizeSub, bind, Outcome.bind, ha, pure]
  simp only [Nat.le_add_right, if_true, Nat.add_sub_cancel_left, hst]
  congr 1
  apply List.ext_getElem?
  intro p
  rw [inv.hbuf, getElem?_seg, getElem?_seg]
  have hz : (List.zipWith (· ^^^ ·) pl ((List.range pl.length).map (ksByte cr a0))).length = pl.length := by simp
  rw [hz]
  by_cases h1 : p < pre.length
  · have : ¬ (pre.length ≤ p ∧ p < pre.length + pl.length) := by omega
    simp only [this, if_false, h1, if_true]
  · by_cases h2 : p < pre.length + pl.length
    · have : (pre.length ≤ p ∧ p < pre.length + pl.length) := by omega
      simp only [this, if_true, h1, h2, if_false]
      have h3 : p - pre.length < pl.length := by omega
      simp [List.getElem?_zipWith, List.getElem?_range h3, List.getElem?_eq_getElem h3]
    · simp [h1, h2]

theorem flatMap_blocks_length (f : Nat → Block) (n : Nat) :
    ((List.range n).flatMap fun i => (f i).toList).length = 16 * n := by
  induction n with
  | zero => simp
  | succ n ih => rw [List.range_succ, List.flatMap_append, List.length_append, ih]; simp; omega

theorem flatMap_blocks_getElem? (f : Nat → Block) (n i : Nat) (h : i < 16 * n) :
    ((List.range n).flatMap fun j => (f j).toList)[i]? = some ((f (i / 16))[i % 16]'(Nat.mod_lt _ (by decide))) := by
  induction n with
  | zero => omega
  | succ n ih =>
    rw [List.range_succ, List.flatMap_append]
    by_cases hi : i < 16 * n
    · rw [List.getElem?_append_left (by rw [flatMap_blocks_length]; exact hi)]
      exact ih hi
    · rw [List.getElem?_append_right (by rw [flatMap_blocks_length]; omega), flatMap_blocks_length]
      have h1 : i / 16 = n := by omega
      have h2 : i - 16 * n = i % 16 := by omega
      simp only [List.flatMap_cons, List.flatMap_nil, List.append_nil, h2]
      subst h1
      simp [Vector.getElem_toList]

/-! ## bridges between model expressions and specification expressions -/

theorem mhdr_eq (d : DataFrame) : d.mhdr = Spec.mhdrData d.frameType := by
  unfold DataFrame.mhdr Spec.mhdrData Spec.mtypeCode
  cases d.frameType <;> rfl

theorem dir_eq (d : DataFrame) : (d.mhdr &&& 0x20) >>> 5 = Spec.dirOf d.frameType := by
  unfold DataFrame.mhdr Spec.dirOf FType.isUplink
  cases d.frameType <;> decide

theorem fctrl_table : ∀ (n : Fin 16) (up adr req ack pend : Bool),
    (let b : UInt8 := UInt8.ofNat n.val
     let b := if adr then b ||| 0x80 else b
     let b := if req && up then b ||| 0x40 else b
     let b := if ack then b ||| 0x20 else b
     let b := if pend && !up then b ||| 0x10 else b
     b) = Spec.fctrlOf up adr req ack pend n.val := by decide

theorem fctrl_eq (d : DataFrame) (h : d.fOpts.length ≤ 15) : d.fctrl = Spec.fctrl d.toSpec := by
  have := fctrl_table ⟨d.fOpts.length, by omega⟩ d.frameType.isUplink d.adr d.adrAckReq d.ack d.fPending
  simpa [DataFrame.fctrl, Spec.fctrl, DataFrame.toSpec] using this

theorem helper_spec (mhdr a1 a2 a3 a4 : UInt8) (rest : Bytes) (first : UInt8) (fcnt : UInt32) :
    Codec.generateHelperBlock (mhdr :: a1 :: a2 :: a3 :: a4 :: rest) first fcnt Block.zero
      = .ok #v[first, 0, 0, 0, 0, (mhdr &&& 0x20) >>> 5, a1, a2, a3, a4,
               (fcnt &&& 0xff).toUInt8, ((fcnt >>> 8) &&& 0xff).toUInt8, ((fcnt >>> 16) &&& 0xff).toUInt8,
               ((fcnt >>> 24) &&& 0xff).toUInt8, 0, 0] := by
  simp [Codec.generateHelperBlock, Codec.getByte, Codec.slice, Outcome.ofOption, bind, Outcome.bind, pure]
  rfl

/-- the model's A-block for block index `i` is the specification's A_i -/
theorem blockA_eq (dir a1 a2 a3 a4 : UInt8) (addr fcnt : UInt32) (i : Nat)
    (haddr : Spec.le 4 addr.toNat = [a1, a2, a3, a4]) :
    (#v[(0x01 : UInt8), 0, 0, 0, 0, dir, a1, a2, a3, a4,
               (fcnt &&& 0xff).toUInt8, ((fcnt >>> 8) &&& 0xff).toUInt8, ((fcnt >>> 16) &&& 0xff).toUInt8,
               ((fcnt >>> 24) &&& 0xff).toUInt8, 0, 0] : Block).set 15 (UInt8.ofNat i)
      = Spec.blockA dir addr fcnt i := by
  unfold Spec.blockA
  rw [haddr, le4_fcnt]
  rfl

theorem blockB0_eq (dir a1 a2 a3 a4 : UInt8) (addr fcnt : UInt32) (n : Nat)
    (haddr : Spec.le 4 addr.toNat = [a1, a2, a3, a4]) :
    ((#v[(0x49 : UInt8), 0, 0, 0, 0, dir, a1, a2, a3, a4,
               (fcnt &&& 0xff).toUInt8, ((fcnt >>> 8) &&& 0xff).toUInt8, ((fcnt >>> 16) &&& 0xff).toUInt8,
               ((fcnt >>> 24) &&& 0xff).toUInt8, 0, 0] : Block).set 15 (UInt8.ofNat n)).toList
      = Spec.blockB0 dir addr fcnt n := by
  unfold Spec.blockB0
  rw [haddr, le4_fcnt]
  rfl

theorem crypt_eq (c : Cipher) (k : Key) (a0 : Block) (dir : UInt8) (addr fcnt : UInt32)
    (hA : ∀ i, a0.set 15 (UInt8.ofNat i) = Spec.blockA dir addr fcnt i) (pl : Bytes) :
    List.zipWith (· ^^^ ·) pl ((List.range pl.length).map (ksByte ⟨c, k⟩ a0))
      = Spec.cryptPayload c k dir addr fcnt pl := by
  unfold Spec.cryptPayload Spec.xorBytes Spec.keystream
  apply List.ext_getElem?
  intro i
  simp only [List.getElem?_zipWith]
  by_cases hi : i < pl.length
  · rw [flatMap_blocks_getElem? (fun j => c.enc k (Spec.blockA dir addr fcnt (j + 1))) _ i (by omega)]
    simp only [List.getElem?_map, List.getElem?_range hi, Option.map_some, ksByte, hA]
  · simp [List.getElem?_eq_none (Nat.le_of_not_lt hi)]

end Lora.CodecLemmas
