import LoraVerif.Model.MacCmdCreators
import LoraVerif.Spec.MacCmdSpec
import LoraVerif.Lemmas.MacCmdAccessors
/-!
# The model's accessors compute the specification's field values (`AccAgree`), per payload type

For every payload type and every payload of the table's length (octets < 256): the accessor list of
`Model/MacCmdFields.lean` (the code's bit slicing) equals `Spec.MacCmd.dec*` (fields as bit ranges of the
little-endian payload value).  The one exception is `DeviceTimeAnsPayload::seconds` (known finding).
-/
set_option linter.unusedSimpArgs false
set_option linter.unusedVariables false
namespace MacCmd

def ofSpec : Spec.MacCmd.Val → Val
  | .n v => .n v | .i v => .i v | .b v => .b v | .hex v => .hex v | .err e => .err e | .none => .none | .items l => .items l

/-- the model's accessor list agrees with the specification's field values (and no accessor panics) -/
def AccAgree (m : List (String × Outcome Val)) (s : List (String × Spec.MacCmd.Val)) : Prop :=
  m = s.map (fun e => (e.1, Outcome.ok (ofSpec e.2)))

theorem and15 (x : Nat) : x &&& 15 = x % 16 := Nat.and_two_pow_sub_one_eq_mod x 4
theorem and7 (x : Nat) : x &&& 7 = x % 8 := Nat.and_two_pow_sub_one_eq_mod x 3
theorem and3 (x : Nat) : x &&& 3 = x % 4 := Nat.and_two_pow_sub_one_eq_mod x 2
theorem and1 (x : Nat) : x &&& 1 = x % 2 := Nat.and_two_pow_sub_one_eq_mod x 1

theorem drFrom_eq (v : Nat) : drFrom v = .ok (v % 16) := by
  have := Nat.mod_lt v (show 16 > 0 by omega)
  simp [drFrom, and15]; omega

theorem bit_eq : ∀ x, x < 256 → ∀ k, k < 8 → bit x k = decide (x / 2 ^ k % 2 = 1) := by decide +kernel
theorem nat_beq (a b : Nat) : (a == b) = decide (a = b) := by by_cases h : a = b <;> simp [h]
theorem and4_ne : ∀ x, x < 256 → (x &&& 4 != 0) = decide (x / 4 % 2 = 1) := by decide +kernel
theorem margin6_eq : ∀ b, b < 256 → margin6 b = Spec.MacCmd.signed 6 (b % 64) := by decide +kernel
theorem maxEirp_eq : ∀ m, m < 16 → maxEirpTable[m]? = some (Spec.MacCmd.eirpDbm.getD m 0) := by decide
theorem periodicity_eq : ∀ v, v < 11 → v ≠ 0 → periodicityTable[v - 1]? = some (Spec.MacCmd.periodicitySeconds.getD (v - 1) 0) := by decide
theorem popcount4_eq : ∀ m, m < 16 → popcount4 m = Spec.MacCmd.bitsSet 4 m := by decide
theorem dutyBits_eq (raw : Nat) (h : raw < 16) : dutyCycleBits raw = .ok (2 ^ 23 * (127 - raw)) := by
  simp [dutyCycleBits, show raw < 32 by omega, Nat.shiftLeft_eq, Nat.mul_comm]

theorem frequencyValue_eq (b0 b1 b2 : Nat) (h0 : b0 < 256) (h1 : b1 < 256) (h2 : b2 < 256) (rest : Bytes) :
    frequencyValue (b0 :: b1 :: b2 :: rest) = .ok (100 * (b0 + 256 * (b1 + 256 * b2))) := by
  simp only [frequencyValue, index, List.getElem?_cons_zero, List.getElem?_cons_succ, Outcome.ok_bind, Nat.shiftLeft_eq]
  rw [ckU32_ok (by omega)]; simp only [Outcome.ok_bind]
  rw [ckU32_ok (by omega)]; simp only [Outcome.ok_bind]
  rw [ckU32_ok (by omega)]
  congr 1; omega

theorem acc_LinkCheckAns (b0 b1 : Nat) (h0 : b0 < 256) (h1 : b1 < 256) :
    AccAgree (accLinkCheckAns [b0, b1]) (Spec.MacCmd.decLinkCheckAns [b0, b1]) := by
  simp [accLinkCheckAns, Spec.MacCmd.decLinkCheckAns, AccAgree, ofSpec, index, Spec.MacCmd.field, Spec.MacCmd.leValue, Spec.MacCmd.octets, and15, and7, and3, and1, Nat.shiftRight_eq_div_pow]
  try omega

theorem acc_LinkADRReq (b0 b1 b2 b3 : Nat) (h0 : b0 < 256) (h1 : b1 < 256) (h2 : b2 < 256) (h3 : b3 < 256) :
    AccAgree (accLinkADRReq [b0, b1, b2, b3]) (Spec.MacCmd.decLinkADRReq [b0, b1, b2, b3]) := by
  simp [accLinkADRReq, Spec.MacCmd.decLinkADRReq, AccAgree, ofSpec, index, Spec.MacCmd.field, Spec.MacCmd.leValue, Spec.MacCmd.octets, and15, and7, and3, and1, Nat.shiftRight_eq_div_pow, slice, channelMask2, drFrom_eq]
  try omega

theorem acc_DutyCycleReq (b0 : Nat) (h0 : b0 < 256) :
    AccAgree (accDutyCycleReq [b0]) (Spec.MacCmd.decDutyCycleReq [b0]) := by
  have hm : b0 % 16 < 16 := Nat.mod_lt _ (by omega)
  simp [accDutyCycleReq, Spec.MacCmd.decDutyCycleReq, AccAgree, ofSpec, index, Spec.MacCmd.field, Spec.MacCmd.leValue, Spec.MacCmd.octets, and15, and7, and3, and1, Nat.shiftRight_eq_div_pow, dutyBits_eq, dutyBits_eq (b0 % 16) hm]

theorem acc_RXParamSetupReq (b0 b1 b2 b3 : Nat) (h0 : b0 < 256) (h1 : b1 < 256) (h2 : b2 < 256) (h3 : b3 < 256) :
    AccAgree (accRXParamSetupReq [b0, b1, b2, b3]) (Spec.MacCmd.decRXParamSetupReq [b0, b1, b2, b3]) := by
  simp [accRXParamSetupReq, Spec.MacCmd.decRXParamSetupReq, AccAgree, ofSpec, index, Spec.MacCmd.field, Spec.MacCmd.leValue, Spec.MacCmd.octets, and15, and7, and3, and1, Nat.shiftRight_eq_div_pow, sliceFrom, drFrom_eq, frequencyValue_eq b1 b2 b3 h1 h2 h3]
  omega

theorem acc_NewChannelReq (b0 b1 b2 b3 b4 : Nat) (h0 : b0 < 256) (h1 : b1 < 256) (h2 : b2 < 256) (h3 : b3 < 256) (h4 : b4 < 256) :
    AccAgree (accNewChannelReq [b0, b1, b2, b3, b4]) (Spec.MacCmd.decNewChannelReq [b0, b1, b2, b3, b4]) := by
  simp [accNewChannelReq, Spec.MacCmd.decNewChannelReq, AccAgree, ofSpec, index, Spec.MacCmd.field, Spec.MacCmd.leValue, Spec.MacCmd.octets, and15, and7, and3, and1, Nat.shiftRight_eq_div_pow, slice, frequencyValue_eq b1 b2 b3 h1 h2 h3]
  have e1 : (b0 + 256 * (b1 + 256 * (b2 + 256 * (b3 + 256 * b4)))) / 68719476736 % 16 = b4 / 16 := by omega
  have e2 : (b0 + 256 * (b1 + 256 * (b2 + 256 * (b3 + 256 * b4)))) / 4294967296 % 16 = b4 % 16 := by omega
  have e3 : (b0 + 256 * (b1 + 256 * (b2 + 256 * (b3 + 256 * b4)))) / 4294967296 % 256 = b4 := by omega
  simp only [e1, e2, e3]
  refine ⟨by omega, by omega, ?_, ?_, ?_⟩ <;> (by_cases h : b4 / 16 < b4 % 16 <;> simp [h])

theorem acc_RXTimingSetupReq (b0 : Nat) (h0 : b0 < 256) :
    AccAgree (accRXTimingSetupReq [b0]) (Spec.MacCmd.decRXTimingSetupReq [b0]) := by
  simp [accRXTimingSetupReq, Spec.MacCmd.decRXTimingSetupReq, AccAgree, ofSpec, index, Spec.MacCmd.field, Spec.MacCmd.leValue, Spec.MacCmd.octets, and15, and7, and3, and1, Nat.shiftRight_eq_div_pow]
  try omega

theorem acc_TXParamSetupReq (b0 : Nat) (h0 : b0 < 256) :
    AccAgree (accTXParamSetupReq [b0]) (Spec.MacCmd.decTXParamSetupReq [b0]) := by
  have hm : b0 % 16 < 16 := Nat.mod_lt _ (by omega)
  simp [accTXParamSetupReq, Spec.MacCmd.decTXParamSetupReq, AccAgree, ofSpec, index, Spec.MacCmd.field, Spec.MacCmd.leValue, Spec.MacCmd.octets, and15, and7, and3, and1, Nat.shiftRight_eq_div_pow, bit_eq b0 h0, maxEirp_eq (b0 % 16) hm]

theorem acc_DlChannelReq (b0 b1 b2 b3 : Nat) (h0 : b0 < 256) (h1 : b1 < 256) (h2 : b2 < 256) (h3 : b3 < 256) :
    AccAgree (accDlChannelReq [b0, b1, b2, b3]) (Spec.MacCmd.decDlChannelReq [b0, b1, b2, b3]) := by
  simp [accDlChannelReq, Spec.MacCmd.decDlChannelReq, AccAgree, ofSpec, index, Spec.MacCmd.field, Spec.MacCmd.leValue, Spec.MacCmd.octets, and15, and7, and3, and1, Nat.shiftRight_eq_div_pow, slice, frequencyValue_eq b1 b2 b3 h1 h2 h3]
  omega

theorem acc_LinkADRAns (b0 : Nat) (h0 : b0 < 256) :
    AccAgree (accLinkADRAns [b0]) (Spec.MacCmd.decLinkADRAns [b0]) := by
  simp [accLinkADRAns, Spec.MacCmd.decLinkADRAns, AccAgree, ofSpec, index, Spec.MacCmd.field, Spec.MacCmd.leValue, Spec.MacCmd.octets, and15, and7, and3, and1, Nat.shiftRight_eq_div_pow, bit_eq b0 h0, Nat.mod_eq_of_lt h0, nat_beq, and4_ne b0 h0]
  try omega

theorem acc_RXParamSetupAns (b0 : Nat) (h0 : b0 < 256) :
    AccAgree (accRXParamSetupAns [b0]) (Spec.MacCmd.decRXParamSetupAns [b0]) := by
  simp [accRXParamSetupAns, Spec.MacCmd.decRXParamSetupAns, AccAgree, ofSpec, index, Spec.MacCmd.field, Spec.MacCmd.leValue, Spec.MacCmd.octets, and15, and7, and3, and1, Nat.shiftRight_eq_div_pow, bit_eq b0 h0, Nat.mod_eq_of_lt h0, nat_beq, and4_ne b0 h0]
  try omega

theorem acc_DevStatusAns (b0 b1 : Nat) (h0 : b0 < 256) (h1 : b1 < 256) :
    AccAgree (accDevStatusAns [b0, b1]) (Spec.MacCmd.decDevStatusAns [b0, b1]) := by
  simp [accDevStatusAns, Spec.MacCmd.decDevStatusAns, AccAgree, ofSpec, index, Spec.MacCmd.field, Spec.MacCmd.leValue, Spec.MacCmd.octets, and15, and7, and3, and1, Nat.shiftRight_eq_div_pow, margin6_eq b1 h1]
  refine ⟨by omega, ?_⟩
  congr 1; omega

theorem acc_NewChannelAns (b0 : Nat) (h0 : b0 < 256) :
    AccAgree (accNewChannelAns [b0]) (Spec.MacCmd.decNewChannelAns [b0]) := by
  simp [accNewChannelAns, Spec.MacCmd.decNewChannelAns, AccAgree, ofSpec, index, Spec.MacCmd.field, Spec.MacCmd.leValue, Spec.MacCmd.octets, and15, and7, and3, and1, Nat.shiftRight_eq_div_pow, bit_eq b0 h0, Nat.mod_eq_of_lt h0, nat_beq, and4_ne b0 h0]
  try omega

theorem acc_DlChannelAns (b0 : Nat) (h0 : b0 < 256) :
    AccAgree (accDlChannelAns [b0]) (Spec.MacCmd.decDlChannelAns [b0]) := by
  simp [accDlChannelAns, Spec.MacCmd.decDlChannelAns, AccAgree, ofSpec, index, Spec.MacCmd.field, Spec.MacCmd.leValue, Spec.MacCmd.octets, and15, and7, and3, and1, Nat.shiftRight_eq_div_pow, bit_eq b0 h0, Nat.mod_eq_of_lt h0, nat_beq, and4_ne b0 h0]
  try omega

theorem acc_AdrBitChangeReq (b0 : Nat) (h0 : b0 < 256) :
    AccAgree (accAdrBitChangeReq [b0]) (Spec.MacCmd.decAdrBitChangeReq [b0]) := by
  simp [accAdrBitChangeReq, Spec.MacCmd.decAdrBitChangeReq, AccAgree, ofSpec, index, Spec.MacCmd.field, Spec.MacCmd.leValue, Spec.MacCmd.octets, and15, and7, and3, and1, Nat.shiftRight_eq_div_pow]
  rw [Nat.mod_eq_of_lt h0]
  by_cases e0 : b0 = 0 <;> by_cases e1 : b0 = 1 <;> simp [e0, e1]

theorem acc_McGroupStatusReq (b0 : Nat) (h0 : b0 < 256) :
    AccAgree (accMcGroupStatusReq [b0]) (Spec.MacCmd.decMcGroupStatusReq [b0]) := by
  simp [accMcGroupStatusReq, Spec.MacCmd.decMcGroupStatusReq, AccAgree, ofSpec, index, Spec.MacCmd.field, Spec.MacCmd.leValue, Spec.MacCmd.octets, and15, and7, and3, and1, Nat.shiftRight_eq_div_pow]
  try omega

theorem acc_McGroupDeleteReq (b0 : Nat) (h0 : b0 < 256) :
    AccAgree (accMcGroupDeleteReq [b0]) (Spec.MacCmd.decMcGroupDeleteReq [b0]) := by
  simp [accMcGroupDeleteReq, Spec.MacCmd.decMcGroupDeleteReq, AccAgree, ofSpec, index, Spec.MacCmd.field, Spec.MacCmd.leValue, Spec.MacCmd.octets, and15, and7, and3, and1, Nat.shiftRight_eq_div_pow]
  try omega

theorem acc_PackageVersionAns (b0 b1 : Nat) (h0 : b0 < 256) (h1 : b1 < 256) :
    AccAgree (accPackageVersionAns [b0, b1]) (Spec.MacCmd.decPackageVersionAns [b0, b1]) := by
  simp [accPackageVersionAns, Spec.MacCmd.decPackageVersionAns, AccAgree, ofSpec, index, Spec.MacCmd.field, Spec.MacCmd.leValue, Spec.MacCmd.octets, and15, and7, and3, and1, Nat.shiftRight_eq_div_pow]
  try omega

theorem acc_McGroupSetupAns (b0 : Nat) (h0 : b0 < 256) :
    AccAgree (accMcGroupSetupAns [b0]) (Spec.MacCmd.decMcGroupSetupAns [b0]) := by
  simp [accMcGroupSetupAns, Spec.MacCmd.decMcGroupSetupAns, AccAgree, ofSpec, index, Spec.MacCmd.field, Spec.MacCmd.leValue, Spec.MacCmd.octets, and15, and7, and3, and1, Nat.shiftRight_eq_div_pow]
  try omega

theorem acc_McGroupDeleteAns (b0 : Nat) (h0 : b0 < 256) :
    AccAgree (accMcGroupDeleteAns [b0]) (Spec.MacCmd.decMcGroupDeleteAns [b0]) := by
  simp [accMcGroupDeleteAns, Spec.MacCmd.decMcGroupDeleteAns, AccAgree, ofSpec, index, Spec.MacCmd.field, Spec.MacCmd.leValue, Spec.MacCmd.octets, and15, and7, and3, and1, Nat.shiftRight_eq_div_pow, bit_eq b0 h0, Nat.mod_eq_of_lt h0, nat_beq, and4_ne b0 h0]
  try omega


/-- DeviceTimeAns: the fractional-second accessor agrees with the specification; the seconds accessor reads the four
octets most-significant first (`acc_DeviceTimeAns_seconds`) where the specification says little-endian
(`dec_DeviceTimeAns_seconds`) — known finding C19-devicetime-seconds -/
theorem acc_DeviceTimeAns_partial (b0 b1 b2 b3 b4 : Nat) (h0 : b0 < 256) (h1 : b1 < 256) (h2 : b2 < 256) (h3 : b3 < 256) (h4 : b4 < 256) :
    AccAgree (accDeviceTimeAns [b0, b1, b2, b3, b4]).tail (Spec.MacCmd.decDeviceTimeAns [b0, b1, b2, b3, b4]).tail := by
  simp [accDeviceTimeAns, Spec.MacCmd.decDeviceTimeAns, AccAgree, ofSpec, index, Spec.MacCmd.field, Spec.MacCmd.leValue,
    ckU32_ok (show 3906250 * b4 < 4294967296 by omega)]
  omega

theorem acc_DeviceTimeAns_seconds (b0 b1 b2 b3 b4 : Nat) :
    (accDeviceTimeAns [b0, b1, b2, b3, b4]).head? = some ("seconds", .ok (.n (b3 + 256 * b2 + 65536 * b1 + 16777216 * b0))) := by
  simp [accDeviceTimeAns, index]

theorem dec_DeviceTimeAns_seconds (b0 b1 b2 b3 b4 : Nat) (h0 : b0 < 256) (h1 : b1 < 256) (h2 : b2 < 256) (h3 : b3 < 256) :
    (Spec.MacCmd.decDeviceTimeAns [b0, b1, b2, b3, b4]).head? = some ("seconds", .n (b0 + 256 * b1 + 65536 * b2 + 16777216 * b3)) := by
  simp [Spec.MacCmd.decDeviceTimeAns, Spec.MacCmd.field, Spec.MacCmd.leValue]
  omega

theorem acc_TxPeriodicityChangeReq (b0 : Nat) (h0 : b0 < 256) :
    AccAgree (accTxPeriodicityChangeReq [b0]) (Spec.MacCmd.decTxPeriodicityChangeReq [b0]) := by
  simp only [accTxPeriodicityChangeReq, Spec.MacCmd.decTxPeriodicityChangeReq, AccAgree, index, List.getElem?_cons_zero,
    Outcome.ok_bind, Spec.MacCmd.field, Spec.MacCmd.leValue, Nat.mul_zero, Nat.add_zero, Nat.pow_zero, Nat.div_one,
    List.map_cons, List.map_nil]
  rw [show b0 % 2 ^ 8 = b0 from Nat.mod_eq_of_lt h0]
  by_cases hgt : b0 > 10
  · have : ¬ b0 = 0 := by omega
    have h2 : ¬ b0 ≤ 10 := by omega
    simp [hgt, this, h2, ofSpec]
  · by_cases hz : b0 = 0
    · simp [hz, ofSpec]
    · have hle : b0 ≤ 10 := by omega
      simp [hgt, hz, hle, ofSpec, periodicity_eq b0 (by omega) hz]

theorem acc_TxFramesCtrlReq (b0 : Nat) (rest : Bytes) (h0 : b0 < 256) :
    AccAgree (accTxFramesCtrlReq (b0 :: rest)) (Spec.MacCmd.decTxFramesCtrlReq (b0 :: rest)) := by
  have hmax : max 1 (rest.length + 1) = rest.length + 1 := by omega
  have hf : Spec.MacCmd.field (b0 :: rest) 0 8 = b0 := by
    simp [Spec.MacCmd.field, Spec.MacCmd.leValue]; omega
  simp only [accTxFramesCtrlReq, Spec.MacCmd.decTxFramesCtrlReq, AccAgree, index, List.getElem?_cons_zero, Outcome.ok_bind,
    List.length_cons, hmax, hf, List.map_cons, List.map_nil, ofSpec]
  by_cases e0 : b0 = 0 <;> by_cases e1 : b0 = 1 <;> by_cases e2 : b0 = 2 <;> simp [e0, e1, e2, ofSpec]

theorem acc_EchoIncPayloadReq (p : Bytes) (hne : p ≠ []) :
    AccAgree (accEchoIncPayloadReq p) (Spec.MacCmd.decEchoIncPayloadReq p) := by
  obtain ⟨x, xs, rfl⟩ := List.exists_cons_of_ne_nil hne
  have hmax : max 1 (xs.length + 1) = xs.length + 1 := by omega
  simp [accEchoIncPayloadReq, Spec.MacCmd.decEchoIncPayloadReq, AccAgree, slice, hmax, ofSpec]

theorem acc_EchoIncPayloadAns (p : Bytes) (hne : p ≠ []) :
    AccAgree (accEchoIncPayloadAns p) (Spec.MacCmd.decEchoIncPayloadAns p) := by
  obtain ⟨x, xs, rfl⟩ := List.exists_cons_of_ne_nil hne
  have hmax : max 1 (xs.length + 1) = xs.length + 1 := by omega
  simp [accEchoIncPayloadAns, Spec.MacCmd.decEchoIncPayloadAns, AccAgree, hmax, ofSpec]


theorem acc_McGroupSetupReq (cph : Cipher) (b0 b1 b2 b3 b4 b5 b6 b7 b8 b9 b10 b11 b12 b13 b14 b15 b16 b17 b18 b19 b20 b21 b22 b23 b24 b25 b26 b27 b28 : Nat) (h0 : b0 < 256)
    (hb : ∀ x ∈ [b0, b1, b2, b3, b4, b5, b6, b7, b8, b9, b10, b11, b12, b13, b14, b15, b16, b17, b18, b19, b20, b21, b22, b23, b24, b25, b26, b27, b28], x < 256) :
    AccAgree (accMcGroupSetupReq cph [b0, b1, b2, b3, b4, b5, b6, b7, b8, b9, b10, b11, b12, b13, b14, b15, b16, b17, b18, b19, b20, b21, b22, b23, b24, b25, b26, b27, b28]) (Spec.MacCmd.decMcGroupSetupReq cph.enc [b0, b1, b2, b3, b4, b5, b6, b7, b8, b9, b10, b11, b12, b13, b14, b15, b16, b17, b18, b19, b20, b21, b22, b23, b24, b25, b26, b27, b28]) := by
  simp only [List.mem_cons, List.mem_nil_iff, or_false, forall_eq_or_imp, forall_eq] at hb
  simp [accMcGroupSetupReq, Spec.MacCmd.decMcGroupSetupReq, AccAgree, ofSpec, index, slice, exact, u32FromLe,
    Cipher.encryptBlock, Spec.MacCmd.field, Spec.MacCmd.leValue, Spec.MacCmd.octets, and3]
  omega

theorem acc_McGroupStatusAns_0 (b0 : Nat) (h0 : b0 < 256) :
    AccAgree (accMcGroupStatusAns [b0]) (Spec.MacCmd.decMcGroupStatusAns [b0]) := by
  have hm : b0 % 16 < 16 := Nat.mod_lt _ (by omega)
  have f04 : Spec.MacCmd.field [b0] 0 4 = b0 % 16 := by
    simp [Spec.MacCmd.field, Spec.MacCmd.leValue]
  have f43 : Spec.MacCmd.field [b0] 4 3 = b0 / 16 % 8 := by
    simp [Spec.MacCmd.field, Spec.MacCmd.leValue]
  simp [accMcGroupStatusAns, Spec.MacCmd.decMcGroupStatusAns, AccAgree, ofSpec, index, sliceFrom, slice, exact, groupItems,
    Spec.MacCmd.groupItems, Spec.MacCmd.octets, f04, f43, mcGroupStatusRequiredLen, and15, and7,
    Nat.shiftRight_eq_div_pow, popcount4_eq (b0 % 16) hm]
  omega

theorem acc_McGroupStatusAns_1 (b0 x0 x1 x2 x3 x4 : Nat) (h0 : b0 < 256) :
    AccAgree (accMcGroupStatusAns [b0, x0, x1, x2, x3, x4]) (Spec.MacCmd.decMcGroupStatusAns [b0, x0, x1, x2, x3, x4]) := by
  have hm : b0 % 16 < 16 := Nat.mod_lt _ (by omega)
  have f04 : Spec.MacCmd.field [b0, x0, x1, x2, x3, x4] 0 4 = b0 % 16 := by
    simp [Spec.MacCmd.field, Spec.MacCmd.leValue]; omega
  have f43 : Spec.MacCmd.field [b0, x0, x1, x2, x3, x4] 4 3 = b0 / 16 % 8 := by
    simp [Spec.MacCmd.field, Spec.MacCmd.leValue]; omega
  simp [accMcGroupStatusAns, Spec.MacCmd.decMcGroupStatusAns, AccAgree, ofSpec, index, sliceFrom, slice, exact, groupItems,
    Spec.MacCmd.groupItems, Spec.MacCmd.octets, f04, f43, mcGroupStatusRequiredLen, and15, and7,
    Nat.shiftRight_eq_div_pow, popcount4_eq (b0 % 16) hm]
  omega

theorem acc_McGroupStatusAns_2 (b0 x0 x1 x2 x3 x4 x5 x6 x7 x8 x9 : Nat) (h0 : b0 < 256) :
    AccAgree (accMcGroupStatusAns [b0, x0, x1, x2, x3, x4, x5, x6, x7, x8, x9]) (Spec.MacCmd.decMcGroupStatusAns [b0, x0, x1, x2, x3, x4, x5, x6, x7, x8, x9]) := by
  have hm : b0 % 16 < 16 := Nat.mod_lt _ (by omega)
  have f04 : Spec.MacCmd.field [b0, x0, x1, x2, x3, x4, x5, x6, x7, x8, x9] 0 4 = b0 % 16 := by
    simp [Spec.MacCmd.field, Spec.MacCmd.leValue]; omega
  have f43 : Spec.MacCmd.field [b0, x0, x1, x2, x3, x4, x5, x6, x7, x8, x9] 4 3 = b0 / 16 % 8 := by
    simp [Spec.MacCmd.field, Spec.MacCmd.leValue]; omega
  simp [accMcGroupStatusAns, Spec.MacCmd.decMcGroupStatusAns, AccAgree, ofSpec, index, sliceFrom, slice, exact, groupItems,
    Spec.MacCmd.groupItems, Spec.MacCmd.octets, f04, f43, mcGroupStatusRequiredLen, and15, and7,
    Nat.shiftRight_eq_div_pow, popcount4_eq (b0 % 16) hm]
  omega

theorem acc_McGroupStatusAns_3 (b0 x0 x1 x2 x3 x4 x5 x6 x7 x8 x9 x10 x11 x12 x13 x14 : Nat) (h0 : b0 < 256) :
    AccAgree (accMcGroupStatusAns [b0, x0, x1, x2, x3, x4, x5, x6, x7, x8, x9, x10, x11, x12, x13, x14]) (Spec.MacCmd.decMcGroupStatusAns [b0, x0, x1, x2, x3, x4, x5, x6, x7, x8, x9, x10, x11, x12, x13, x14]) := by
  have hm : b0 % 16 < 16 := Nat.mod_lt _ (by omega)
  have f04 : Spec.MacCmd.field [b0, x0, x1, x2, x3, x4, x5, x6, x7, x8, x9, x10, x11, x12, x13, x14] 0 4 = b0 % 16 := by
    simp [Spec.MacCmd.field, Spec.MacCmd.leValue]; omega
  have f43 : Spec.MacCmd.field [b0, x0, x1, x2, x3, x4, x5, x6, x7, x8, x9, x10, x11, x12, x13, x14] 4 3 = b0 / 16 % 8 := by
    simp [Spec.MacCmd.field, Spec.MacCmd.leValue]; omega
  simp [accMcGroupStatusAns, Spec.MacCmd.decMcGroupStatusAns, AccAgree, ofSpec, index, sliceFrom, slice, exact, groupItems,
    Spec.MacCmd.groupItems, Spec.MacCmd.octets, f04, f43, mcGroupStatusRequiredLen, and15, and7,
    Nat.shiftRight_eq_div_pow, popcount4_eq (b0 % 16) hm]
  omega

theorem acc_McGroupStatusAns_4 (b0 x0 x1 x2 x3 x4 x5 x6 x7 x8 x9 x10 x11 x12 x13 x14 x15 x16 x17 x18 x19 : Nat) (h0 : b0 < 256) :
    AccAgree (accMcGroupStatusAns [b0, x0, x1, x2, x3, x4, x5, x6, x7, x8, x9, x10, x11, x12, x13, x14, x15, x16, x17, x18, x19]) (Spec.MacCmd.decMcGroupStatusAns [b0, x0, x1, x2, x3, x4, x5, x6, x7, x8, x9, x10, x11, x12, x13, x14, x15, x16, x17, x18, x19]) := by
  have hm : b0 % 16 < 16 := Nat.mod_lt _ (by omega)
  have f04 : Spec.MacCmd.field [b0, x0, x1, x2, x3, x4, x5, x6, x7, x8, x9, x10, x11, x12, x13, x14, x15, x16, x17, x18, x19] 0 4 = b0 % 16 := by
    simp [Spec.MacCmd.field, Spec.MacCmd.leValue]; omega
  have f43 : Spec.MacCmd.field [b0, x0, x1, x2, x3, x4, x5, x6, x7, x8, x9, x10, x11, x12, x13, x14, x15, x16, x17, x18, x19] 4 3 = b0 / 16 % 8 := by
    simp [Spec.MacCmd.field, Spec.MacCmd.leValue]; omega
  simp [accMcGroupStatusAns, Spec.MacCmd.decMcGroupStatusAns, AccAgree, ofSpec, index, sliceFrom, slice, exact, groupItems,
    Spec.MacCmd.groupItems, Spec.MacCmd.octets, f04, f43, mcGroupStatusRequiredLen, and15, and7,
    Nat.shiftRight_eq_div_pow, popcount4_eq (b0 % 16) hm]
  omega

end MacCmd
