import LoraVerif.Lemmas.MacWFCmds
/-!
Totality and invariant preservation of the receive side above the command interpreter:
`rx2_complete` (ADR back-off), `Session::handle_rx`, `Otaa::handle_rx`, `Mac::handle_rx` /
`handle_rxc`, the receive windows, the Class A procedure (with and without a radio fault) and the
configuration setters.  `Keeps m m'`: `m'` is well-formed and has the region, antenna gain and
radio power of `m` (the board constants never change).
-/
open Gen.Region Gen.Modulation

namespace Model


theorem rx2Complete_shape (s : Session) (cfg : Config) (r : RegionId) :
    ((rx2Complete s cfg r).2.2 = cfg ∨
      ∃ d, nextLowerDatarate r cfg.dataRate = some d ∧ (rx2Complete s cfg r).2.2 = { cfg with dataRate := d }) ∧
    (rx2Complete s cfg r).2.1.pending = s.pending := by
  unfold rx2Complete
  by_cases h1 : (s.fcntUp == 0xFFFFFFFF) = true
  · simp [h1]
  · simp only [h1, Bool.false_eq_true, if_false]
    by_cases h2 : cfg.adrEnabled = true
    · simp only [h2, if_true]
      by_cases h3 : min (s.adrAckCnt + 1) 0xFFFFFFFF ≥ Gen.Session.ADR_ACK_LIMIT.toNat + Gen.Session.ADR_ACK_DELAY.toNat
      · simp only [h3, if_true]
        by_cases h4 : ((min (s.adrAckCnt + 1) 0xFFFFFFFF - Gen.Session.ADR_ACK_LIMIT.toNat) % Gen.Session.ADR_ACK_DELAY.toNat == 0) = true
        · simp only [h4, if_true]
          cases hn : nextLowerDatarate r cfg.dataRate with
          | none => exact ⟨Or.inl rfl, rfl⟩
          | some d => exact ⟨Or.inr ⟨d, rfl, rfl⟩, rfl⟩
        · simp [h4]
      · simp [h3]
    · simp [h2]
theorem nextLowerDatarate_valid {r : RegionId} {cur d : Nat} (h : isUplinkDatarate r cur = true)
    (hn : nextLowerDatarate r cur = some d) : isUplinkDatarate r d = true := by
  unfold nextLowerDatarate at hn
  have hp := List.find?_some hn
  have hmem := List.mem_of_find?_eq_some hn
  simp only [List.mem_reverse, List.mem_range] at hmem
  unfold isUplinkDatarate at h ⊢
  simp only [Bool.and_eq_true] at h ⊢
  refine ⟨?_, hp⟩
  have h1 := h.1
  split at h1
  · simp only [decide_eq_true_eq] at h1 ⊢
    rename_i hf; simp only [hf, if_true, decide_eq_true_eq]; omega
  · rename_i hf; simp [hf]

theorem rx2Complete_wf (s : Session) (cfg : Config) (r : RegionId) (hc : cfgWF r cfg = true) :
    cfgWF r (rx2Complete s cfg r).2.2 = true ∧ (rx2Complete s cfg r).2.1.pending = s.pending := by
  obtain ⟨h1, h2⟩ := rx2Complete_shape s cfg r
  refine ⟨?_, h2⟩
  rcases h1 with h1 | ⟨d, hd, h1⟩
  · rw [h1]; exact hc
  · rw [h1]
    exact cfgWF_iff.mpr ⟨nextLowerDatarate_valid (cfgWF_iff.mp hc).1 hd, (cfgWF_iff.mp hc).2⟩

theorem sessionHandleRx_tot (s : Session) (cfg : Config) (region : RegionState) (d : RxData) (mp : Nat) (snr : Int)
    (ig : Bool) (hr : regionWF region = true) (hc : cfgWF region.id cfg = true) (hp : s.pending.length ≤ 15) :
    Tot (sessionHandleRx s cfg region d mp snr ig)
      (fun r => regionWF r.2.2.2 = true ∧ r.2.2.2.id = region.id ∧ cfgWF region.id r.2.2.1 = true ∧ r.2.1.pending.length ≤ 15) := by
  unfold sessionHandleRx
  split
  · split
    · exact Tot.pure ⟨hr, rfl, hc, hp⟩
    · obtain ⟨h1, h2⟩ := rx2Complete_wf s cfg region.id hc
      generalize rx2Complete s cfg region.id = res at h1 h2 ⊢
      obtain ⟨r', s', cfg'⟩ := res
      exact Tot.pure ⟨hr, rfl, h1, by simp only at h2 ⊢; rw [h2]; exact hp⟩
  · split
    · exact Tot.pure ⟨hr, rfl, hc, hp⟩
    · rename_i fcnt _
      split
      · exact Tot.pure ⟨hr, rfl, hc, hp⟩
      · refine Tot.bind (P := fun c' => (CtxWF c' ∧ c'.region.id = region.id)) ?_ ?_
        · split
          · exact Tot.pure ⟨⟨hr, hc, hp⟩, rfl⟩
          · refine Tot.bind (handleDownlinkMacs_tot snr d.fopts _ ⟨hr, hc, by simp⟩) ?_
            intro c1 ⟨hc1, hid1⟩
            split
            · refine Tot.mono (handleDownlinkMacs_tot snr d.payload c1 hc1) ?_
              intro c2 ⟨hc2, hid2⟩
              exact ⟨hc2, by rw [hid2, hid1]⟩
            · exact Tot.pure ⟨hc1, hid1⟩
        · intro ctx ⟨⟨h1, h2, h3⟩, hid⟩
          rw [hid] at h2
          simp only
          repeat' split
          all_goals (refine Tot.pure ?_; exact ⟨h1, hid, h2, h3⟩)

/-! ## the MAC state -/

def Keeps (m m' : MacState) : Prop :=
  MacWF m' ∧ m'.region.id = m.region.id ∧ m'.antennaGain = m.antennaGain ∧ m'.maxPower = m.maxPower

theorem Keeps.refl {m : MacState} (h : MacWF m) : Keeps m m := ⟨h, rfl, rfl, rfl⟩

theorem Keeps.trans {m m1 m2 : MacState} (h1 : Keeps m m1) (h2 : Keeps m1 m2) : Keeps m m2 :=
  ⟨h2.1, by rw [h2.2.1, h1.2.1], by rw [h2.2.2.1, h1.2.2.1], by rw [h2.2.2.2, h1.2.2.2]⟩

theorem keeps_mk {m : MacState} (h : MacWF m) (cfg : Config) (region : RegionState) (st : JoinState)
    (hr : regionWF region = true) (hid : region.id = m.region.id) (hc : cfgWF m.region.id cfg = true)
    (hp : pendingOk st = true) :
    Keeps m { cfg := cfg, region := region, maxPower := m.maxPower, antennaGain := m.antennaGain, st := st } := by
  refine ⟨MacWF.mk hr ?_ ?_ hp, hid, rfl, rfl⟩
  · simp only; rw [hid]; exact hc
  · simp only; rw [hid]; exact h.gain

theorem rx1DrOffsetValidate_lt {r : RegionId} {v o : Nat} (h : rx1DrOffsetValidate r v = some o) : o < 8 := by
  unfold rx1DrOffsetValidate at h
  split at h
  · cases h
    have := maxRx1DrOffset_le r
    omega
  · cases h

/-- an authentic JoinAccept with ANY DLSettings, RxDelay and CFList is processed without panic -/
theorem otaaAccept_tot (m : MacState) (j : RxJoinAccept) (h : MacWF m) (hcf : cfListWF j.cfList = true) :
    Tot (otaaAccept m j) (fun m' => Keeps m m') := by
  unfold otaaAccept
  refine Tot.bind (processJoinAccept_tot m.region j.cfList h.region hcf) ?_
  intro region ⟨hr, hid⟩
  refine Tot.bind (delToDelayMs_tot _) (fun d _ => ?_)
  refine Tot.pure ?_
  apply keeps_mk h _ _ _ hr hid _ rfl
  obtain ⟨hdr, hoff⟩ := cfgWF_iff.mp h.cfg
  apply cfgWF_iff.mpr
  constructor
  · split <;> (split <;> exact hdr)
  · split
    · split
      · rename_i o ho; simp only; exact rx1DrOffsetValidate_lt ho
      · exact hoff
    · split
      · rename_i o ho; simp only; exact rx1DrOffsetValidate_lt ho
      · exact hoff

/-- **`Mac::handle_rx` / `handle_rxc` return for every received frame** (garbage, any data frame
with any field values and MAC command bytes, any JoinAccept), every SNR, every payload limit, in
every join state, and leave a well-formed state -/
theorem macHandleRx_tot (m : MacState) (v : RxView) (mp : Nat) (snr : Int) (cc : Bool) (h : MacWF m)
    (hv : viewWF v = true) : Tot (macHandleRx m v mp snr cc) (fun r => Keeps m r.2) := by
  unfold macHandleRx
  cases hst : m.st with
  | joined s =>
    simp only
    cases v with
    | data d =>
      simp only
      have hp : s.pending.length ≤ 15 := by
        have := h.pending; rw [hst] at this; simpa [pendingOk] using this
      refine Tot.bind (sessionHandleRx_tot s m.cfg m.region d mp snr cc h.region h.cfg hp) ?_
      intro ⟨o, s', cfg', region'⟩ ⟨h1, h2, h3, h4⟩
      refine Tot.pure ?_
      exact keeps_mk h cfg' region' (.joined s') h1 h2 h3 (by simpa [pendingOk] using h4)
    | garbage => exact Tot.pure (Keeps.refl h)
    | joinAccept j => exact Tot.pure (Keeps.refl h)
  | otaa o =>
    simp only
    split
    · exact Tot.pure (Keeps.refl h)
    · cases v with
      | joinAccept j =>
        simp only
        split
        · refine Tot.bind (otaaAccept_tot m j h (by simpa [viewWF] using hv)) (fun m' hm' => Tot.pure hm')
        · exact Tot.pure (Keeps.refl h)
      | garbage => exact Tot.pure (Keeps.refl h)
      | data d => exact Tot.pure (Keeps.refl h)
  | unjoined =>
    simp only
    split <;> exact Tot.pure (Keeps.refl h)

theorem macRx2Complete_wf (m : MacState) (h : MacWF m) : Keeps m (macRx2Complete m).2 := by
  unfold macRx2Complete
  cases hst : m.st with
  | joined s =>
    simp only
    obtain ⟨h1, h2⟩ := rx2Complete_wf s m.cfg m.region.id h.cfg
    generalize rx2Complete s m.cfg m.region.id = res at h1 h2 ⊢
    obtain ⟨r', s', cfg'⟩ := res
    have hp : s.pending.length ≤ 15 := by
      have := h.pending; rw [hst] at this; simpa [pendingOk] using this
    exact keeps_mk h cfg' m.region (.joined s') h.region rfl h1 (by simp only at h2; simp [pendingOk, h2, hp])
  | otaa o => exact Keeps.refl h
  | unjoined => exact Keeps.refl h

theorem faultAfterTx_wf (m : MacState) (h : MacWF m) : Keeps m (faultAfterTx m) := macRx2Complete_wf m h

theorem macSetAdr_wf (m : MacState) (on : Bool) (h : MacWF m) : Keeps m (macSetAdr m on) := by
  unfold macSetAdr
  have hc : cfgWF m.region.id { m.cfg with adrEnabled := on } = true := h.cfg
  cases hst : m.st with
  | joined s =>
    have hp : pendingOk (.joined s) = true := by have := h.pending; rw [hst] at this; exact this
    cases on
    · exact keeps_mk h _ m.region _ h.region rfl hc hp
    · simp only
      exact keeps_mk h _ m.region _ h.region rfl hc hp
  | otaa o => cases on <;> exact keeps_mk h _ m.region _ h.region rfl hc rfl
  | unjoined => cases on <;> exact keeps_mk h _ m.region _ h.region rfl hc rfl

theorem macSetDatarate_wf (m : MacState) (dr : Nat) (h : MacWF m) (hdr : isUplinkDatarate m.region.id dr = true) :
    Keeps m (macSetDatarate m dr) := by
  unfold macSetDatarate
  exact keeps_mk h _ m.region _ h.region rfl (cfgWF_iff.mpr ⟨hdr, (cfgWF_iff.mp h.cfg).2⟩) h.pending

theorem macJoinAbp_wf (m : MacState) (da nwk app : Nat) (h : MacWF m) : Keeps m (macJoinAbp m da nwk app) := by
  unfold macJoinAbp
  exact keeps_mk h _ m.region _ h.region rfl h.cfg rfl

/-! ## receive windows and the Class A procedure -/

theorem window_tot (m : MacState) (f : Option (RxView × Int)) (mp : Nat) (h : MacWF m) (hf : rxWF f = true) :
    Tot (window m f mp) (fun r => Keeps m r.2) := by
  unfold window
  cases f with
  | none => exact Tot.pure (Keeps.refl h)
  | some f =>
    obtain ⟨v, snr⟩ := f
    simp only
    refine Tot.bind (macHandleRx_tot m v mp snr false h (by simpa [rxWF] using hf)) ?_
    intro ⟨o, m'⟩ hk
    simp only at hk ⊢
    cases o with
    | none => exact Tot.pure hk
    | some o =>
      simp only
      split <;> exact Tot.pure hk

theorem classACycle_tot (m : MacState) (rx1 rx2 : Option (RxView × Int)) (mp1 mp2 : Nat) (h : MacWF m)
    (h1 : rxWF rx1 = true) (h2 : rxWF rx2 = true) :
    Tot (classACycle m rx1 rx2 mp1 mp2) (fun r => Keeps m r.2.2) := by
  unfold classACycle
  refine Tot.bind (window_tot m rx1 mp1 h h1) ?_
  intro ⟨o1, m1⟩ hk1
  simp only at hk1 ⊢
  cases o1 with
  | some o => exact Tot.pure hk1
  | none =>
    simp only
    refine Tot.bind (window_tot m1 rx2 mp2 hk1.1 h2) ?_
    intro ⟨o2, m2⟩ hk2
    simp only at hk2 ⊢
    cases o2 with
    | some o => exact Tot.pure (hk1.trans hk2)
    | none => exact Tot.pure ((hk1.trans hk2).trans (macRx2Complete_wf m2 hk2.1))

theorem faultedCycle_tot (m : MacState) (k : Nat) (rx1 rx2 : Option (RxView × Int)) (mp1 mp2 : Nat) (h : MacWF m)
    (h1 : rxWF rx1 = true) (h2 : rxWF rx2 = true) :
    Tot (faultedCycle m k rx1 rx2 mp1 mp2) (fun m' => Keeps m m') := by
  unfold faultedCycle
  split
  · exact Tot.pure (Keeps.refl h)
  · refine Tot.bind (window_tot m rx1 mp1 h h1) ?_
    intro ⟨o1, m1⟩ hk1
    exact Tot.pure hk1
  · refine Tot.bind (window_tot m rx1 mp1 h h1) ?_
    intro ⟨o1, m1⟩ hk1
    simp only at hk1 ⊢
    cases o1 with
    | some o => exact Tot.pure hk1
    | none =>
      simp only
      refine Tot.bind (window_tot m1 rx2 mp2 hk1.1 h2) ?_
      intro ⟨o2, m2⟩ hk2
      exact Tot.pure (hk1.trans hk2)

end Model
