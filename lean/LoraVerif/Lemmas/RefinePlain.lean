import LoraVerif.Lemmas.RefineAsync
import LoraVerif.Lemmas.Cycle
/-!
# Back to the histories of `Model/History.lean`

Whenever no frame is heard *between* the windows — always in Class A, and in Class C for every
script in which `rx_continuous` hears nothing during `between_windows` — the extended events are
events of `Model/History.lean`: `stepC` on `uplinkC`/`joinC` is `step` on `uplink`/`joinOtaa` with
* the window payload limits of the windows the MAC handed out,
* the frames heard in RX1 / RX2,
* the fault position `plainFault`: `tx`, `before1` ↦ after 0 windows; `close1` ↦ after 1 window;
  `before2` ↦ after 1 window — unless RX1 produced a response, then the procedure has ended and the
  script's error is never reached (no fault); `close2` ↦ after 2 windows, likewise.
-/
set_option linter.unusedSimpArgs false
namespace Model

/-- the event is one the Class A procedure can express: no frame heard between the windows -/
def EvC.plain : EvC → Bool
  | .base _ => true
  | .uplinkC cc _ _ _ _ c1 _ c2 _ => !cc || (c1.isEmpty && c2.isEmpty)
  | .joinC cc _ c1 _ c2 _ => !cc || (c1.isEmpty && c2.isEmpty)

/-- the fault position in the terms of `Model/History.lean` ("after `k` windows were served");
`resp1`: RX1 produced a response, which ends the procedure before the later positions are reached -/
def plainFault (fault : Option FaultPos) (resp1 : Bool) : Option Nat :=
  match fault with
  | none => none
  | some .tx => some 0
  | some .before1 => some 0
  | some .close1 => some 1
  | some .before2 => if resp1 then none else some 1
  | some .close2 => if resp1 then none else some 2

/-- does the window produce a response in this state? -/
def responds (m : MacState) (f : Option (RxView × Int)) (mp : Nat) : Bool :=
  match window m f mp with
  | .ok (some _, _) => true
  | _ => false

/-- **the `Ev` of an extended event** (in the state it is applied to) -/
def plainOf {σ} (g : Rng σ) (m : MacState) (s : σ) : EvC → Ev
  | .base e => e
  | .uplinkC _ data fport conf fault _ rx1 _ rx2 =>
    match macSend g m data fport conf s with
    | .ok (some o, m1, _) =>
      .uplink data fport conf (plainFault fault (responds m1 rx1 o.tx.rx1.maxPayload.toNat)) rx1 rx2
        o.tx.rx1.maxPayload.toNat o.tx.rx2.maxPayload.toNat
    | _ => .uplink data fport conf none rx1 rx2 0 0
  | .joinC _ fault _ rx1 _ rx2 =>
    match macJoinOtaa g m s with
    | .ok (o, m1, _) =>
      .joinOtaa (plainFault fault (responds m1 rx1 o.tx.rx1.maxPayload.toNat)) rx1 rx2
        o.tx.rx1.maxPayload.toNat o.tx.rx2.maxPayload.toNat
    | _ => .joinOtaa none rx1 rx2 0 0

/-- one window without Class C frames before it -/
theorem winC_plain (cc : Bool) (m : MacState) (cs : List (RxView × Int)) (f : Option (RxView × Int)) (mp : Nat)
    (eb ea : Bool) (hp : cc = false ∨ cs = []) (r : Option (Option RxOut)) (hd : List RxOut) (m' : MacState)
    (h : winC cc m cs f mp eb ea = .ok (r, hd, m')) :
    (eb = true ∧ r = none ∧ m' = m ∧ hd = []) ∨
    (eb = false ∧ ∃ o, window m f mp = .ok (o, m') ∧ r = (if ea then none else some o) ∧ hd = o.toList) := by
  unfold winC at h
  obtain ⟨⟨os, fin, m1⟩, hb, h1⟩ := Except.bind_eq_ok h
  clear h
  have h := h1
  clear h1
  have hbw : fin = true ∧ m1 = m ∧ os = [] := by
    unfold between at hb
    cases cc with
    | false =>
      simp only [Bool.false_eq_true, if_false, pure, Except.pure, Except.ok.injEq, Prod.mk.injEq] at hb
      exact ⟨hb.2.1.symm, hb.2.2.symm, hb.1.symm⟩
    | true =>
      rcases hp with hp | hp
      · cases hp
      · subst hp
        simp only [if_true] at hb
        obtain ⟨rf, _, hb⟩ := Except.bind_eq_ok hb
        simp only [rxcs, pure, Except.pure, Except.ok.injEq, Prod.mk.injEq] at hb
        exact ⟨hb.2.1.symm, hb.2.2.symm, hb.1.symm⟩
  obtain ⟨rfl, rfl, rfl⟩ := hbw
  simp only [Bool.not_true, Bool.false_or] at h
  cases eb with
  | true =>
    simp only [if_true, pure, Except.pure, Except.ok.injEq, Prod.mk.injEq] at h
    exact Or.inl ⟨rfl, h.1.symm, h.2.2.symm, h.2.1.symm⟩
  | false =>
    simp only [Bool.false_eq_true, if_false] at h
    obtain ⟨⟨o, m2⟩, hw, h2⟩ := Except.bind_eq_ok h
    clear h
    obtain ⟨_, _, h⟩ := Except.bind_eq_ok h2
    clear h2
    simp only at h
    refine Or.inr ⟨rfl, o, ?_⟩
    cases ea with
    | true =>
      simp only [if_true, pure, Except.pure, Except.ok.injEq, Prod.mk.injEq] at h
      obtain ⟨rfl, rfl, rfl⟩ := h
      exact ⟨hw, rfl, rfl⟩
    | false =>
      simp only [Bool.false_eq_true, if_false, pure, Except.pure, Except.ok.injEq, Prod.mk.injEq] at h
      obtain ⟨rfl, rfl, rfl⟩ := h
      exact ⟨hw, rfl, rfl⟩

/-- the procedure of an extended event without frames in between, in the terms of `Model/History.lean` -/
def PlainCyclePost (m1 : MacState) (rx1 rx2 : Option (RxView × Int)) (mp1 mp2 : Nat) (fin : ProcEnd) (heard : List RxOut)
    (m2 : MacState) : Option Nat → Prop
  | none =>
    (∃ o, fin = .resp o ∧ heard = [o] ∧ classACycle m1 rx1 rx2 mp1 mp2 = .ok (o.resp, o.downlink, m2)) ∨
    (fin = .complete ∧ heard = [] ∧
      classACycle m1 rx1 rx2 mp1 mp2 = .ok ((macRx2Complete m2).1, none, (macRx2Complete m2).2))
  | some k => fin = .cut ∧ faultedCycle m1 k rx1 rx2 mp1 mp2 = .ok m2

theorem responds_some {m m' : MacState} {f : Option (RxView × Int)} {mp : Nat} {o : RxOut}
    (h : window m f mp = .ok (some o, m')) : responds m f mp = true := by
  unfold responds; rw [h]

theorem responds_none {m m' : MacState} {f : Option (RxView × Int)} {mp : Nat}
    (h : window m f mp = .ok (none, m')) : responds m f mp = false := by
  unfold responds; rw [h]

theorem cycleC_plain (cc : Bool) (m1 : MacState) (fault : Option FaultPos) (c1 c2 : List (RxView × Int))
    (rx1 rx2 : Option (RxView × Int)) (mp1 mp2 : Nat) (hp : cc = false ∨ (c1 = [] ∧ c2 = []))
    (fin : ProcEnd) (heard : List RxOut) (m2 : MacState)
    (h : cycleC cc m1 fault c1 rx1 c2 rx2 mp1 mp2 = .ok (fin, heard, m2)) :
    PlainCyclePost m1 rx1 rx2 mp1 mp2 fin heard m2 (plainFault fault (responds m1 rx1 mp1)) := by
  unfold cycleC at h
  by_cases htx : fault = some .tx
  · subst htx
    simp only [if_true, pure, Except.pure, Except.ok.injEq, Prod.mk.injEq] at h
    obtain ⟨rfl, rfl, rfl⟩ := h
    exact ⟨rfl, rfl⟩
  · simp only [htx, if_false] at h
    obtain ⟨⟨r1, h1, ma⟩, hw1, hk⟩ := Except.bind_eq_ok h
    clear h
    rcases winC_plain cc m1 c1 rx1 mp1 _ _ (hp.imp id (·.1)) r1 h1 ma hw1 with ⟨eb, rfl, rfl, rfl⟩ | ⟨eb, o1, hwin1, rfl, rfl⟩
    · -- fault before RX1 was served
      have hf : fault = some .before1 := by simpa using eb
      subst hf
      simp only [pure, Except.pure, Except.ok.injEq, Prod.mk.injEq] at hk
      obtain ⟨rfl, rfl, rfl⟩ := hk
      exact ⟨rfl, rfl⟩
    · by_cases ea : (fault == some .close1) = true
      · have hf : fault = some .close1 := by simpa using ea
        subst hf
        simp only [beq_self_eq_true, if_true, pure, Except.pure, Except.ok.injEq, Prod.mk.injEq] at hk
        obtain ⟨rfl, rfl, rfl⟩ := hk
        refine ⟨rfl, ?_⟩
        simp only [faultedCycle, hwin1, bind, Except.bind, pure, Except.pure]
      · simp only [ea, Bool.false_eq_true, if_false] at hk
        cases o1 with
        | some o =>
          simp only [pure, Except.pure, Except.ok.injEq, Prod.mk.injEq] at hk
          obtain ⟨rfl, rfl, rfl⟩ := hk
          have hpf : plainFault fault (responds m1 rx1 mp1) = none := by
            rw [responds_some hwin1]
            rcases fault with _ | (_ | _ | _ | _ | _) <;> simp_all [plainFault]
          rw [hpf]
          refine Or.inl ⟨o, rfl, rfl, ?_⟩
          simp only [classACycle, hwin1, bind, Except.bind, pure, Except.pure]
        | none =>
          simp only at hk
          obtain ⟨⟨r2, h2, mb⟩, hw2, hk2⟩ := Except.bind_eq_ok hk
          clear hk
          have hr1 := responds_none hwin1
          rcases winC_plain cc ma c2 rx2 mp2 _ _ (hp.imp id (·.2)) r2 h2 mb hw2 with ⟨eb2, rfl, rfl, rfl⟩ | ⟨eb2, o2, hwin2, rfl, rfl⟩
          · have hf : fault = some .before2 := by simpa using eb2
            subst hf
            simp only [pure, Except.pure, Except.ok.injEq, Prod.mk.injEq] at hk2
            obtain ⟨rfl, rfl, rfl⟩ := hk2
            rw [hr1]
            refine ⟨rfl, ?_⟩
            simp only [faultedCycle, hwin1, bind, Except.bind, pure, Except.pure]
          · by_cases ea2 : (fault == some .close2) = true
            · have hf : fault = some .close2 := by simpa using ea2
              subst hf
              simp only [beq_self_eq_true, if_true, pure, Except.pure, Except.ok.injEq, Prod.mk.injEq] at hk2
              obtain ⟨rfl, rfl, rfl⟩ := hk2
              rw [hr1]
              refine ⟨rfl, ?_⟩
              simp only [plainFault, faultedCycle, hwin1, hwin2, bind, Except.bind, pure, Except.pure]
            · have hf : fault = none := by
                rcases fault with _ | (_ | _ | _ | _ | _) <;> simp_all
              subst hf
              simp only [Bool.false_eq_true, if_false] at hk2
              cases o2 with
              | some o =>
                simp only [pure, Except.pure, Except.ok.injEq, Prod.mk.injEq] at hk2
                obtain ⟨rfl, rfl, rfl⟩ := hk2
                refine Or.inl ⟨o, rfl, rfl, ?_⟩
                simp only [classACycle, hwin1, hwin2, bind, Except.bind, pure, Except.pure]
              | none =>
                simp only [pure, Except.pure, Except.ok.injEq, Prod.mk.injEq] at hk2
                obtain ⟨rfl, rfl, rfl⟩ := hk2
                refine Or.inr ⟨rfl, rfl, ?_⟩
                simp only [classACycle, hwin1, hwin2, bind, Except.bind, pure, Except.pure]

theorem plain_cond {cc : Bool} {c1 c2 : List (RxView × Int)} (h : (!cc || (c1.isEmpty && c2.isEmpty)) = true) :
    cc = false ∨ (c1 = [] ∧ c2 = []) := by
  cases cc with
  | false => exact Or.inl rfl
  | true =>
    simp only [Bool.not_true, Bool.false_or, Bool.and_eq_true, List.isEmpty_iff] at h
    exact Or.inr h

/-- **an extended event without frames heard in between IS the event `plainOf` of
`Model/History.lean`**: same state, same generator state, same output -/
theorem stepC_plain {σ} (g : Rng σ) (m : MacState) (s : σ) (ev : EvC) (hp : ev.plain = true)
    (ms' : MacState × σ) (oc : OutC) (h : stepC g (m, s) ev = .ok (ms', oc)) :
    step g (m, s) (plainOf g m s ev) = .ok (ms', oc.out) := by
  cases ev with
  | base e =>
    simp only [stepC] at h
    obtain ⟨⟨ms1, o⟩, hs, h⟩ := Except.bind_eq_ok h
    simp only [pure, Except.pure, Except.ok.injEq, Prod.mk.injEq] at h
    obtain ⟨rfl, rfl⟩ := h
    exact hs
  | uplinkC cc data fport conf fault c1 rx1 c2 rx2 =>
    have hpc := plain_cond hp
    simp only [stepC] at h
    obtain ⟨⟨o, m1, s1⟩, hsend, hk⟩ := Except.bind_eq_ok h
    clear h
    simp only [plainOf, hsend]
    cases o with
    | none =>
      simp only [pure, Except.pure, Except.ok.injEq, Prod.mk.injEq] at hk
      obtain ⟨rfl, rfl⟩ := hk
      simp only [step, hsend, bind, Except.bind, pure, Except.pure]
    | some o =>
      simp only at hk ⊢
      obtain ⟨⟨fin, heard, m2⟩, hcy, hk2⟩ := Except.bind_eq_ok hk
      clear hk
      have hpl := cycleC_plain cc m1 fault c1 c2 rx1 rx2 _ _ hpc fin heard m2 hcy
      cases hpf : plainFault fault (responds m1 rx1 o.tx.rx1.maxPayload.toNat) with
      | none =>
        rw [hpf] at hpl
        rcases hpl with ⟨ro, rfl, _, hca⟩ | ⟨rfl, _, hca⟩
        · simp only [pure, Except.pure, Except.ok.injEq, Prod.mk.injEq] at hk2
          obtain ⟨rfl, rfl⟩ := hk2
          simp only [step, hsend, hca, bind, Except.bind, pure, Except.pure]
        · simp only [pure, Except.pure, Except.ok.injEq, Prod.mk.injEq] at hk2
          obtain ⟨rfl, rfl⟩ := hk2
          simp only [step, hsend, hca, bind, Except.bind, pure, Except.pure]
      | some k =>
        rw [hpf] at hpl
        obtain ⟨rfl, hfc⟩ := hpl
        simp only [pure, Except.pure, Except.ok.injEq, Prod.mk.injEq] at hk2
        obtain ⟨rfl, rfl⟩ := hk2
        simp only [step, hsend, hfc, bind, Except.bind, pure, Except.pure]
  | joinC cc fault c1 rx1 c2 rx2 =>
    have hpc := plain_cond hp
    simp only [stepC] at h
    obtain ⟨⟨o, m1, s1⟩, hjoin, hk⟩ := Except.bind_eq_ok h
    clear h
    simp only [plainOf, hjoin]
    obtain ⟨⟨fin, heard, m2⟩, hcy, hk2⟩ := Except.bind_eq_ok hk
    clear hk
    have hpl := cycleC_plain cc m1 fault c1 c2 rx1 rx2 _ _ hpc fin heard m2 hcy
    cases hpf : plainFault fault (responds m1 rx1 o.tx.rx1.maxPayload.toNat) with
    | none =>
      rw [hpf] at hpl
      rcases hpl with ⟨ro, rfl, _, hca⟩ | ⟨rfl, _, hca⟩
      · simp only [pure, Except.pure, Except.ok.injEq, Prod.mk.injEq] at hk2
        obtain ⟨rfl, rfl⟩ := hk2
        simp only [step, hjoin, hca, bind, Except.bind, pure, Except.pure]
      · simp only [pure, Except.pure, Except.ok.injEq, Prod.mk.injEq] at hk2
        obtain ⟨rfl, rfl⟩ := hk2
        simp only [step, hjoin, hca, bind, Except.bind, pure, Except.pure]
    | some k =>
      rw [hpf] at hpl
      obtain ⟨rfl, hfc⟩ := hpl
      simp only [pure, Except.pure, Except.ok.injEq, Prod.mk.injEq] at hk2
      obtain ⟨rfl, rfl⟩ := hk2
      simp only [step, hjoin, hfc, bind, Except.bind, pure, Except.pure]

/-! ## the statement for one application call -/

/-- no frame is heard between the windows under this script (always so in Class A) -/
def plainScript (cfg : DevCfg) (script : List ScriptItem) : Bool := (abstractJoinC cfg script).plain

theorem abstractSendC_plain (cfg : DevCfg) (script : List ScriptItem) (data : List Nat) (port : Nat) (conf : Bool) :
    (abstractSendC cfg script data port conf).plain = plainScript cfg script := by
  unfold plainScript abstractSendC abstractJoinC
  split <;> rfl

theorem plainScript_classA (cfg : DevCfg) (script : List ScriptItem) (h : cfg.classC = false) :
    plainScript cfg script = true := by
  unfold plainScript abstractJoinC
  split <;> simp [EvC.plain, h]

/-- **`abstractAsync`: the history event of `send(data, port, confirmed)` under a script of radio
answers** — the frames heard in RX1 / RX2, the fault position (`plainFault` of the first error in
program order), the payload limits of the windows the MAC hands out in this state -/
def abstractAsync {σ} (g : Rng σ) (cfg : DevCfg) (m : MacState) (rs : σ) (script : List ScriptItem)
    (data : List Nat) (port : Nat) (conf : Bool) : Ev :=
  plainOf g m rs (abstractSendC cfg script data port conf)

/-- … and of `join` (OTAA) -/
def abstractAsyncJoin {σ} (g : Rng σ) (cfg : DevCfg) (m : MacState) (rs : σ) (script : List ScriptItem) : Ev :=
  plainOf g m rs (abstractJoinC cfg script)

/-- the queue after (possibly) one more downlink -/
def queueAfter (cap : Nat) (q : List (Nat × List Nat)) : Option (Nat × List Nat) → List (Nat × List Nat)
  | some d => if q.length < cap then d :: q else q
  | none => q

def Ev.fault? : Ev → Option Nat
  | .uplink _ _ _ f _ _ _ _ => f
  | .joinOtaa f _ _ _ _ => f
  | _ => none

def Out.downlink? : Out → Option (Nat × List Nat)
  | .up _ _ dl => dl
  | _ => none

theorem run_single {σ} (g : Rng σ) (ms ms' : MacState × σ) (ev : Ev) (out : Out) (h : step g ms ev = .ok (ms', out)) :
    run g ms [ev] = .ok (ms', [out]) := by
  simp only [run, h, bind, Except.bind, pure, Except.pure]

theorem pushDls_plain {σ} (g : Rng σ) (m : MacState) (s : σ) (ev : EvC) (hp : ev.plain = true)
    (hnb : ∀ e, ev ≠ .base e) (ms' : MacState × σ) (oc : OutC) (h : stepC g (m, s) ev = .ok (ms', oc))
    (hf : (plainOf g m s ev).fault? = none) (cap : Nat) (q : List (Nat × List Nat)) :
    pushDls cap q oc.heard = queueAfter cap q oc.out.downlink? := by
  cases ev with
  | base e => exact absurd rfl (hnb e)
  | uplinkC cc data fport conf fault c1 rx1 c2 rx2 =>
    have hpc := plain_cond hp
    simp only [stepC] at h
    obtain ⟨⟨o, m1, s1⟩, hsend, hk⟩ := Except.bind_eq_ok h
    clear h
    simp only [plainOf, hsend] at hf
    cases o with
    | none =>
      simp only [pure, Except.pure, Except.ok.injEq, Prod.mk.injEq] at hk
      obtain ⟨rfl, rfl⟩ := hk
      rfl
    | some o =>
      simp only [Ev.fault?] at hk hf
      obtain ⟨⟨fin, heard, m2⟩, hcy, hk2⟩ := Except.bind_eq_ok hk
      clear hk
      have hpl := cycleC_plain cc m1 fault c1 c2 rx1 rx2 _ _ hpc fin heard m2 hcy
      rw [hf] at hpl
      rcases hpl with ⟨ro, rfl, rfl, _⟩ | ⟨rfl, rfl, _⟩
      · simp only [pure, Except.pure, Except.ok.injEq, Prod.mk.injEq] at hk2
        obtain ⟨rfl, rfl⟩ := hk2
        simp only [pushDls, List.foldl, pushDl, Out.downlink?, queueAfter]
        cases ro.downlink <;> rfl
      · simp only [pure, Except.pure, Except.ok.injEq, Prod.mk.injEq] at hk2
        obtain ⟨rfl, rfl⟩ := hk2
        rfl
  | joinC cc fault c1 rx1 c2 rx2 =>
    have hpc := plain_cond hp
    simp only [stepC] at h
    obtain ⟨⟨o, m1, s1⟩, hjoin, hk⟩ := Except.bind_eq_ok h
    clear h
    simp only [plainOf, hjoin, Ev.fault?] at hf
    obtain ⟨⟨fin, heard, m2⟩, hcy, hk2⟩ := Except.bind_eq_ok hk
    clear hk
    have hpl := cycleC_plain cc m1 fault c1 c2 rx1 rx2 _ _ hpc fin heard m2 hcy
    rw [hf] at hpl
    rcases hpl with ⟨ro, rfl, rfl, hca⟩ | ⟨rfl, rfl, _⟩
    · simp only [pure, Except.pure, Except.ok.injEq, Prod.mk.injEq] at hk2
      obtain ⟨rfl, rfl⟩ := hk2
      -- a window of the join procedure never delivers application data
      obtain ⟨dr, tx, region', pw, r1, r2, _, _, hm1, _, _⟩ := macJoinOtaa_ok g m s s1 o m1 hjoin
      have hst : m1.st = .otaa { devNonce := (draw g s).1 % 65536 } := by rw [hm1]
      rw [classACycle_otaa m1 _ hst] at hca
      have hdl : ro.downlink = none := by
        split at hca
        · obtain ⟨m', _, hca⟩ := Except.bind_eq_ok hca
          simp only [pure, Except.pure, Except.ok.injEq, Prod.mk.injEq] at hca
          exact hca.2.1.symm
        · simp only [pure, Except.pure, Except.ok.injEq, Prod.mk.injEq] at hca
          exact hca.2.1.symm
      simp only [pushDls, List.foldl, pushDl, hdl, Out.downlink?, queueAfter]
    · simp only [pure, Except.pure, Except.ok.injEq, Prod.mk.injEq] at hk2
      obtain ⟨rfl, rfl⟩ := hk2
      rfl

theorem abstractSendC_not_base (cfg : DevCfg) (script : List ScriptItem) (data : List Nat) (port : Nat) (conf : Bool) :
    ∀ e, abstractSendC cfg script data port conf ≠ .base e := by
  intro e; unfold abstractSendC; split <;> simp

theorem abstractJoinC_not_base (cfg : DevCfg) (script : List ScriptItem) : ∀ e, abstractJoinC cfg script ≠ .base e := by
  intro e; unfold abstractJoinC; split <;> simp

/-- **the async `send` refines the history semantics.**  For every configuration, MAC state,
generator state, application call and script in which no frame is heard between the windows (every
script, in Class A): if `send` returns, then `History.run` on the single event `abstractAsync`
returns the same MAC state and generator state; its output is the front-end's answer (`RespRel`), the
frame and radio configuration of its output are those of the front-end's one `tx` call (`TxRel`);
and, without a radio fault, the downlink queue has grown by exactly the output's downlink. -/
theorem async_send_refines {σ} (g : Rng σ) (cfg : DevCfg) (r : DevRun) (data : List Nat) (port : Nat) (conf : Bool) (rs : σ)
    (res : DevResult) (r' : DevRun) (rs' : σ) (hp : plainScript cfg r.script = true)
    (h : asyncSend g cfg r data port conf rs = .ok (res, r', rs')) :
    ∃ out, run g (r.m, rs) [abstractAsync g cfg r.m rs r.script data port conf] = .ok ((r'.m, rs'), [out]) ∧
      RespRel res out ∧ TxRel r r' out ∧ r'.dlCap = r.dlCap ∧
      ((abstractAsync g cfg r.m rs r.script data port conf).fault? = none →
        r'.downlinks = queueAfter r.dlCap r.downlinks out.downlink?) := by
  obtain ⟨⟨ms', oc⟩, hs, hrel⟩ := (asyncSend_simE g cfg r data port conf rs).elim_ok h
  have hpl : (abstractSendC cfg r.script data port conf).plain = true := by rw [abstractSendC_plain]; exact hp
  have hstep := stepC_plain g r.m rs _ hpl ms' oc hs
  have hm : ms' = (r'.m, rs') := by
    obtain ⟨m', s'⟩ := ms'
    have h1 := hrel.m; have h2 := hrel.rng
    simp only at h1 h2
    rw [h1, h2]
  subst hm
  refine ⟨oc.out, run_single g _ _ _ _ hstep, hrel.resp, hrel.tx, hrel.cap, ?_⟩
  intro hf
  rw [hrel.dls]
  exact pushDls_plain g r.m rs _ hpl (abstractSendC_not_base _ _ _ _ _) _ oc hs hf _ _

theorem stepC_joinC_out {σ} (g : Rng σ) (ms ms' : MacState × σ) (cc : Bool) (fault : Option FaultPos)
    (c1 c2 : List (RxView × Int)) (rx1 rx2 : Option (RxView × Int)) (oc : OutC)
    (h : stepC g ms (.joinC cc fault c1 rx1 c2 rx2) = .ok (ms', oc)) : oc.out.downlink? = none := by
  simp only [stepC] at h
  obtain ⟨⟨o, m1, s1⟩, _, hk⟩ := Except.bind_eq_ok h
  obtain ⟨⟨fin, heard, m2⟩, _, hk2⟩ := Except.bind_eq_ok hk
  cases fin <;> simp only [pure, Except.pure, Except.ok.injEq, Prod.mk.injEq] at hk2 <;>
    obtain ⟨_, rfl⟩ := hk2 <;> rfl

theorem abstractJoinC_out {σ} (g : Rng σ) (ms ms' : MacState × σ) (cfg : DevCfg) (script : List ScriptItem) (oc : OutC)
    (h : stepC g ms (abstractJoinC cfg script) = .ok (ms', oc)) : oc.out.downlink? = none := by
  unfold abstractJoinC at h
  split at h <;> exact stepC_joinC_out g ms ms' _ _ _ _ _ _ oc h

/-- **the async `join` (OTAA) refines the history semantics** (as `async_send_refines`) -/
theorem async_join_refines {σ} (g : Rng σ) (cfg : DevCfg) (r : DevRun) (rs : σ)
    (res : DevResult) (r' : DevRun) (rs' : σ) (hp : plainScript cfg r.script = true)
    (h : asyncJoin g cfg r rs = .ok (res, r', rs')) :
    ∃ out, run g (r.m, rs) [abstractAsyncJoin g cfg r.m rs r.script] = .ok ((r'.m, rs'), [out]) ∧
      RespRel res out ∧ TxRel r r' out ∧ r'.dlCap = r.dlCap ∧
      ((abstractAsyncJoin g cfg r.m rs r.script).fault? = none → r'.downlinks = r.downlinks) := by
  obtain ⟨⟨ms', oc⟩, hs, hrel⟩ := (asyncJoin_simE g cfg r rs).elim_ok h
  have hstep := stepC_plain g r.m rs _ hp ms' oc hs
  have hm : ms' = (r'.m, rs') := by
    obtain ⟨m', s'⟩ := ms'
    have h1 := hrel.m; have h2 := hrel.rng
    simp only at h1 h2
    rw [h1, h2]
  subst hm
  refine ⟨oc.out, run_single g _ _ _ _ hstep, hrel.resp, hrel.tx, hrel.cap, ?_⟩
  intro hf
  rw [hrel.dls, pushDls_plain g r.m rs _ hp (abstractJoinC_not_base _ _) _ oc hs hf _ _,
    abstractJoinC_out g _ _ cfg r.script oc hs]
  rfl

end Model
