import LoraVerif.Rt
import LoraVerif.Lemmas.RtLemmas
import LoraVerif.Gen.PhyArith
import LoraVerif.Spec.SemtechArith
/-! Helper lemmas for C17: shifts and masks of `Rt` on non-negative values as `/`, `%`;
`PaTable.lookup` depends on the request only through its clamp; finite-range induction. -/
namespace Rt

theorem shlC_u32_14 {a : Int} (h0 : 0 ≤ a) (h1 : a * 16384 ≤ 4294967295) : shlC .u32 a 14 = some (a * 16384) := by
  simp [shlC, ITy.bits, wrap, ITy.signed]
  omega

theorem shlC_u64_19 {a : Int} (h0 : 0 ≤ a) (h1 : a ≤ 4294967295) : shlC .u64 a 19 = some (a * 524288) := by
  simp [shlC, ITy.bits, wrap, ITy.signed]
  omega

theorem shlC_u8_3 {a : Int} (h0 : 0 ≤ a) (h1 : a ≤ 31) : shlC .u8 a 3 = some (a * 8) := by
  simp [shlC, ITy.bits, wrap, ITy.signed]
  omega

theorem shrC_lit {t : ITy} {a : Int} {k : Nat} (hk : (k : Int) < t.bits) : shrC t a (k : Int) = some (a / (2 ^ k : Int)) := by
  have : (0 : Int) ≤ (k : Int) := Int.natCast_nonneg k
  simp [shrC, hk, this]

theorem shrC_u32_1 {a : Int} : shrC .u32 a 1 = some (a / 2) := by simp [shrC, ITy.bits]
theorem shrC_u32_8 {a : Int} : shrC .u32 a 8 = some (a / 256) := by simp [shrC, ITy.bits]
theorem shrC_u32_16 {a : Int} : shrC .u32 a 16 = some (a / 65536) := by simp [shrC, ITy.bits]
theorem shrC_u32_24 {a : Int} : shrC .u32 a 24 = some (a / 16777216) := by simp [shrC, ITy.bits]
theorem shrC_u64_19 {a : Int} : shrC .u64 a 19 = some (a / 524288) := by simp [shrC, ITy.bits]
theorem shrC_u16_1 {a : Int} : shrC .u16 a 1 = some (a / 2) := by simp [shrC, ITy.bits]
theorem shrC_u16_8 {a : Int} : shrC .u16 a 8 = some (a / 256) := by simp [shrC, ITy.bits]
theorem shrC_i32_1 {a : Int} : shrC .i32 a 1 = some (a / 2) := by simp [shrC, ITy.bits]
theorem shrC_i16_2 {a : Int} : shrC .i16 a 2 = some (a / 4) := by simp [shrC, ITy.bits]

theorem remC_pos {t a b} (ha : 0 ≤ a) (hb : 0 < b) : remC t a b = ck t (a % b) := by
  have : b ≠ 0 := by omega
  simp [remC, this, Int.tmod_eq_emod_of_nonneg ha]

theorem andI_ofNat (a b : Nat) : andI (a : Int) (b : Int) = ((a &&& b : Nat) : Int) := by
  simp [andI]

theorem orI_ofNat (a b : Nat) : orI (a : Int) (b : Int) = ((a ||| b : Nat) : Int) := by
  simp [orI]

/-- `x & (2^k − 1) = x mod 2^k` on non-negative values -/
theorem andI_lowmask {x : Int} (h : 0 ≤ x) (k : Nat) : andI x (((2 ^ k - 1 : Nat)) : Int) = x % ((2 ^ k : Nat) : Int) := by
  obtain ⟨n, rfl⟩ := Int.eq_ofNat_of_zero_le h
  rw [andI_ofNat, Nat.and_two_pow_sub_one_eq_mod]
  simp

theorem andI_255 {x : Int} (h : 0 ≤ x) : andI x 255 = x % 256 := by
  simpa using andI_lowmask h 8

theorem andI_3 {x : Int} (h : 0 ≤ x) : andI x 3 = x % 4 := by
  simpa using andI_lowmask h 2

/-- `(x & (m << k)) >> k = (x >> k) & m` on non-negative values -/
theorem andI_mask_shr (x : Int) (h : 0 ≤ x) (k : Nat) (m : Nat) :
    (andI x ((m <<< k : Nat) : Int)) / (2 ^ k : Int) = ((x.toNat >>> k &&& m : Nat) : Int) := by
  obtain ⟨n, rfl⟩ := Int.eq_ofNat_of_zero_le h
  rw [andI_ofNat]
  simp only [Int.toNat_natCast]
  have : ((n &&& m <<< k : Nat) : Int) / (2 ^ k : Int) = (((n &&& m <<< k) >>> k : Nat) : Int) := by
    rw [Nat.shiftRight_eq_div_pow]; simp
  rw [this, Nat.shiftRight_and_distrib, Nat.shiftLeft_shiftRight]

theorem andI_ff0000_shr {x : Int} (h : 0 ≤ x) : (andI x 0x00FF0000) / 65536 = (x / 65536) % 256 := by
  have := andI_mask_shr x h 16 255
  simp at this
  rw [this]
  obtain ⟨n, rfl⟩ := Int.eq_ofNat_of_zero_le h
  simp only [Int.toNat_natCast]
  have h2 := Nat.and_two_pow_sub_one_eq_mod (n >>> 16) 8
  simp at h2
  rw [h2, Nat.shiftRight_eq_div_pow]; simp

theorem andI_00ff00_shr {x : Int} (h : 0 ≤ x) : (andI x 0x0000FF00) / 256 = (x / 256) % 256 := by
  have := andI_mask_shr x h 8 255
  simp at this
  rw [this]
  obtain ⟨n, rfl⟩ := Int.eq_ofNat_of_zero_le h
  simp only [Int.toNat_natCast]
  have h2 := Nat.and_two_pow_sub_one_eq_mod (n >>> 8) 8
  simp at h2
  rw [h2, Nat.shiftRight_eq_div_pow]; simp

theorem andI_nonneg_le {x : Int} (h : 0 ≤ x) (m : Nat) : 0 ≤ andI x (m : Int) ∧ andI x (m : Int) ≤ m := by
  obtain ⟨n, rfl⟩ := Int.eq_ofNat_of_zero_le h
  rw [andI_ofNat]
  exact ⟨Int.natCast_nonneg _, by exact_mod_cast Nat.and_le_right⟩

end Rt

namespace Gen.PhyArith
open Spec.Semtech (clampI)

/-- `max_dbm` of the last row, as `lookup` computes it -/
def lastMax (T : PaTable) : Option Int := do
  let i ← Rt.ck .usize ((Int.ofNat T.entries.length) - 1)
  let e ← Rt.idx T.entries i
  pure e.max_dbm

/-- the generated `PaTable::lookup` depends on the request only through its clamp into
`[min_dbm, last max_dbm]` -/
theorem lookup_clamp (T : PaTable) (req : Int) (mx : Int) (hmx : lastMax T = some mx) :
    T.lookup req = T.lookup (clampI T.min_dbm mx req) := by
  unfold lastMax at hmx
  unfold PaTable.lookup clampI
  cases h1 : Rt.ck .usize ((Int.ofNat T.entries.length) - 1) with
  | none => rw [h1] at hmx; simp at hmx
  | some i =>
    rw [h1] at hmx
    simp only [Option.bind_eq_bind, Option.bind_some] at hmx ⊢
    cases h2 : Rt.idx T.entries i with
    | none => rw [h2] at hmx; simp at hmx
    | some e =>
      rw [h2] at hmx
      have hm : e.max_dbm = mx := by simpa using hmx
      subst hm
      have : Max.max T.min_dbm (Min.min e.max_dbm (Max.max T.min_dbm (Min.min e.max_dbm req)))
          = Max.max T.min_dbm (Min.min e.max_dbm req) := by omega
      simp only [Option.bind_some, this]

end Gen.PhyArith

/-- a property of all integers of a finite range follows from its `Fin`-indexed instances -/
theorem forall_int_range (lo : Int) (n : Nat) (P : Int → Prop) (h : ∀ i : Fin n, P (lo + (i.val : Int))) :
    ∀ k, lo ≤ k → k < lo + n → P k := by
  intro k h1 h2
  have h3 := h ⟨(k - lo).toNat, by omega⟩
  have h4 : lo + (((k - lo).toNat : Nat) : Int) = k := by omega
  simp only [h4] at h3
  exact h3
