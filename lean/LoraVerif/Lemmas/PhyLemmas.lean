import LoraVerif.Model.PhySpi
import LoraVerif.Spec.SemtechSpi
/-! Lemmas about the I/O layer: equations of `trace`, and `run` = `trace` when nothing is scheduled to fail. -/
namespace Model.Phy

@[simp] theorem pure_eq_ret {α : Type} (a : α) : (pure a : Prog α) = .ret a := rfl
@[simp] theorem bind_eq {α β : Type} (p : Prog α) (f : α → Prog β) : p >>= f = Prog.bind p f := rfl
@[simp] theorem bind_ret {α β : Type} (a : α) (f : α → Prog β) : Prog.bind (.ret a) f = f a := rfl
@[simp] theorem bind_fail {α β : Type} (e : RadioError) (f : α → Prog β) : Prog.bind (.fail e : Prog α) f = .fail e := rfl
@[simp] theorem bind_panic {α β : Type} (s : String) (f : α → Prog β) : Prog.bind (.panic s : Prog α) f = .panic s := rfl
@[simp] theorem bind_io {α β : Type} (r : Io) (k : Bytes → Prog α) (f : α → Prog β) :
    Prog.bind (.io r k) f = .io r (fun bs => Prog.bind (k bs) f) := rfl

@[simp] theorem bind_ioE {α β : Type} (r : Io) (k : Option Bytes → Prog α) (f : α → Prog β) :
    Prog.bind (.ioE r k) f = .ioE r (fun x => Prog.bind (k x) f) := rfl

@[simp] theorem trace_ret {α : Type} (a : α) (c : Chip) : trace (.ret a) c = ([], c, .ok a) := rfl
@[simp] theorem trace_fail {α : Type} (e : RadioError) (c : Chip) : trace (.fail e : Prog α) c = ([], c, .err e) := rfl
@[simp] theorem trace_panic {α : Type} (s : String) (c : Chip) : trace (.panic s : Prog α) c = ([], c, .panic s) := rfl
@[simp] theorem trace_spi {α : Type} (w : Bytes) (r : Nat) (k : Bytes → Prog α) (c : Chip) :
    trace (.io (.spi w r) k) c =
      ((w ++ List.replicate r 0) :: (trace (k (c.transact w r).1) (c.transact w r).2).1,
       (trace (k (c.transact w r).1) (c.transact w r).2).2) := rfl
@[simp] theorem traceE_spi {α : Type} (w : Bytes) (r : Nat) (k : Option Bytes → Prog α) (c : Chip) :
    trace (.ioE (.spi w r) k) c =
      ((w ++ List.replicate r 0) :: (trace (k (some (c.transact w r).1)) (c.transact w r).2).1,
       (trace (k (some (c.transact w r).1)) (c.transact w r).2).2) := rfl
@[simp] theorem traceE_busy {α : Type} (k : Option Bytes → Prog α) (c : Chip) : trace (.ioE .busy k) c = trace (k (some [])) c := rfl
@[simp] theorem traceE_irq {α : Type} (k : Option Bytes → Prog α) (c : Chip) : trace (.ioE .irq k) c = trace (k (some [])) c := rfl
@[simp] theorem traceE_rfRx {α : Type} (k : Option Bytes → Prog α) (c : Chip) : trace (.ioE .rfRx k) c = trace (k (some [])) c := rfl
@[simp] theorem traceE_rfTx {α : Type} (k : Option Bytes → Prog α) (c : Chip) : trace (.ioE .rfTx k) c = trace (k (some [])) c := rfl
@[simp] theorem traceE_rfOff {α : Type} (k : Option Bytes → Prog α) (c : Chip) : trace (.ioE .rfOff k) c = trace (k (some [])) c := rfl
@[simp] theorem traceE_reset {α : Type} (k : Option Bytes → Prog α) (c : Chip) : trace (.ioE .reset k) c = trace (k (some [])) c := rfl
@[simp] theorem traceE_delay {α : Type} (ms : Nat) (k : Option Bytes → Prog α) (c : Chip) : trace (.ioE (.delay ms) k) c = trace (k (some [])) c := rfl
@[simp] theorem trace_busy {α : Type} (k : Bytes → Prog α) (c : Chip) : trace (.io .busy k) c = trace (k []) c := rfl
@[simp] theorem trace_irq {α : Type} (k : Bytes → Prog α) (c : Chip) : trace (.io .irq k) c = trace (k []) c := rfl
@[simp] theorem trace_rfRx {α : Type} (k : Bytes → Prog α) (c : Chip) : trace (.io .rfRx k) c = trace (k []) c := rfl
@[simp] theorem trace_rfTx {α : Type} (k : Bytes → Prog α) (c : Chip) : trace (.io .rfTx k) c = trace (k []) c := rfl
@[simp] theorem trace_rfOff {α : Type} (k : Bytes → Prog α) (c : Chip) : trace (.io .rfOff k) c = trace (k []) c := rfl
@[simp] theorem trace_reset {α : Type} (k : Bytes → Prog α) (c : Chip) : trace (.io .reset k) c = trace (k []) c := rfl
@[simp] theorem trace_delay {α : Type} (ms : Nat) (k : Bytes → Prog α) (c : Chip) : trace (.io (.delay ms) k) c = trace (k []) c := rfl

end Model.Phy

namespace Model.Phy.Sx126x
open Gen.PhyCodes126

theorem addr1_val (r : Register) : Register.addr1 r = some (Register.toInt r / 256) := by
  cases r <;> rfl

@[simp] theorem addr1_ret (r : Register) : addr1 r = .ret (byte (Register.toInt r / 256)) := by
  simp [addr1, addr1_val, ofOpt]

end Model.Phy.Sx126x

namespace Model.Phy

@[simp] theorem ofNat_mod256 (n : Nat) : UInt8.ofNat (n % 256) = UInt8.ofNat n := by
  apply UInt8.toNat_inj.mp
  simp [UInt8.toNat_ofNat']

end Model.Phy

namespace Model.Phy

theorem mosi_append (a b : List Ev) : mosi (a ++ b) = mosi a ++ mosi b := by
  simp [mosi, List.filterMap_append]

/-- With no fault and no drop scheduled, the interpreter computes exactly the denotation `trace`:
same result, same final chip, and the SPI part of its transcript is `trace`'s MOSI list. -/
theorem run_eq_trace {α : Type} (p : Prog α) (w : World) (hf : w.fault = none) (hp : w.pendAt = none) :
    (run p w).1 = (trace p w.chip).2.2 ∧
    (run p w).2.chip = (trace p w.chip).2.1 ∧
    mosi (run p w).2.log = mosi w.log ++ (trace p w.chip).1 ∧
    (run p w).2.fault = none ∧ (run p w).2.pendAt = none := by
  induction p generalizing w with
  | ret a => simp [run, trace, hf, hp]
  | fail e => simp [run, trace, hf, hp]
  | panic s => simp [run, trace, hf, hp]
  | io req k ih =>
    obtain ⟨chip, log, step, fault, pendAt⟩ := w
    simp only at hf hp
    subst hf hp
    cases req with
    | delay ms =>
      have := ih [] { chip := chip, log := log ++ [⟨.delay ms, .done⟩], step := step, fault := none, pendAt := none } rfl rfl
      simpa [run, trace, mosi_append, mosi] using this
    | spi wr r =>
      have := ih (chip.transact wr r).1
        { chip := (chip.transact wr r).2, log := log ++ [⟨.spi wr r, .done⟩], step := step + 1, fault := none, pendAt := none } rfl rfl
      simp only [run, trace]
      simp only [reduceCtorEq, false_and, if_false] at *
      obtain ⟨h1, h2, h3, h4, h5⟩ := this
      refine ⟨h1, h2, ?_, h4, h5⟩
      rw [h3]; simp [mosi]
    | busy =>
      have := ih [] { chip := chip, log := log ++ [⟨.busy, .done⟩], step := step + 1, fault := none, pendAt := none } rfl rfl
      simpa [run, trace, mosi_append, mosi] using this
    | irq =>
      have := ih [] { chip := chip, log := log ++ [⟨.irq, .done⟩], step := step + 1, fault := none, pendAt := none } rfl rfl
      simpa [run, trace, mosi_append, mosi] using this
    | rfRx =>
      have := ih [] { chip := chip, log := log ++ [⟨.rfRx, .done⟩], step := step + 1, fault := none, pendAt := none } rfl rfl
      simpa [run, trace, mosi_append, mosi] using this
    | rfTx =>
      have := ih [] { chip := chip, log := log ++ [⟨.rfTx, .done⟩], step := step + 1, fault := none, pendAt := none } rfl rfl
      simpa [run, trace, mosi_append, mosi] using this
    | rfOff =>
      have := ih [] { chip := chip, log := log ++ [⟨.rfOff, .done⟩], step := step + 1, fault := none, pendAt := none } rfl rfl
      simpa [run, trace, mosi_append, mosi] using this
    | reset =>
      have := ih [] { chip := chip, log := log ++ [⟨.reset, .done⟩], step := step + 1, fault := none, pendAt := none } rfl rfl
      simpa [run, trace, mosi_append, mosi] using this

  | ioE req k ih =>
    obtain ⟨chip, log, step, fault, pendAt⟩ := w
    simp only at hf hp
    subst hf hp
    cases req with
    | delay ms =>
      have := ih (some []) { chip := chip, log := log ++ [⟨.delay ms, .done⟩], step := step, fault := none, pendAt := none } rfl rfl
      simpa [run, trace, mosi_append, mosi] using this
    | spi wr r =>
      have := ih (some (chip.transact wr r).1)
        { chip := (chip.transact wr r).2, log := log ++ [⟨.spi wr r, .done⟩], step := step + 1, fault := none, pendAt := none } rfl rfl
      simp only [run, trace]
      simp only [reduceCtorEq, false_and, if_false] at *
      obtain ⟨h1, h2, h3, h4, h5⟩ := this
      refine ⟨h1, h2, ?_, h4, h5⟩
      rw [h3]; simp [mosi]
    | busy =>
      have := ih (some []) { chip := chip, log := log ++ [⟨.busy, .done⟩], step := step + 1, fault := none, pendAt := none } rfl rfl
      simpa [run, trace, mosi_append, mosi] using this
    | irq =>
      have := ih (some []) { chip := chip, log := log ++ [⟨.irq, .done⟩], step := step + 1, fault := none, pendAt := none } rfl rfl
      simpa [run, trace, mosi_append, mosi] using this
    | rfRx =>
      have := ih (some []) { chip := chip, log := log ++ [⟨.rfRx, .done⟩], step := step + 1, fault := none, pendAt := none } rfl rfl
      simpa [run, trace, mosi_append, mosi] using this
    | rfTx =>
      have := ih (some []) { chip := chip, log := log ++ [⟨.rfTx, .done⟩], step := step + 1, fault := none, pendAt := none } rfl rfl
      simpa [run, trace, mosi_append, mosi] using this
    | rfOff =>
      have := ih (some []) { chip := chip, log := log ++ [⟨.rfOff, .done⟩], step := step + 1, fault := none, pendAt := none } rfl rfl
      simpa [run, trace, mosi_append, mosi] using this
    | reset =>
      have := ih (some []) { chip := chip, log := log ++ [⟨.reset, .done⟩], step := step + 1, fault := none, pendAt := none } rfl rfl
      simpa [run, trace, mosi_append, mosi] using this


end Model.Phy

namespace Model.Phy

/-- `?`-sequencing commutes with the interpreter -/
theorem run_bind {α β : Type} (p : Prog α) (f : α → Prog β) (w : World) :
    run (Prog.bind p f) w =
      match run p w with
      | (.ok a, w') => run (f a) w'
      | (.err e, w') => (.err e, w')
      | (.panic s, w') => (.panic s, w')
      | (.dropped, w') => (.dropped, w') := by
  induction p generalizing w with
  | ret a => simp [Prog.bind, run]
  | fail e => simp [Prog.bind, run]
  | panic s => simp [Prog.bind, run]
  | io req k ih =>
    cases req <;> simp only [Prog.bind, run] <;> (repeat' split) <;> simp_all
  | ioE req k ih =>
    cases req <;> simp only [Prog.bind, run] <;> (repeat' split) <;> simp_all

theorem run_busy (w : World) :
    run (Prog.req .busy) w =
      if w.fault = some w.step then (.err .Busy, { w with log := w.log ++ [⟨.busy, .failed⟩], step := w.step + 1 })
      else (.ok (), { w with log := w.log ++ [⟨.busy, .done⟩], step := w.step + 1 }) := by
  simp [Prog.req, run]; split <;> simp [errOf]

theorem run_rfOff (w : World) :
    run (Prog.req .rfOff) w =
      if w.fault = some w.step then (.err .RfSwitchRx, { w with log := w.log ++ [⟨.rfOff, .failed⟩], step := w.step + 1 })
      else (.ok (), { w with log := w.log ++ [⟨.rfOff, .done⟩], step := w.step + 1 }) := by
  simp [Prog.req, run]; split <;> simp [errOf]

theorem run_intfWrite (bs : Bytes) (w : World) :
    run (intfWrite bs) w =
      if w.fault = some w.step then (.err .SPI, { w with log := w.log ++ [⟨.spi bs 0, .failed⟩], step := w.step + 1 })
      else if w.fault = some (w.step + 1) then
        (.err .Busy, { w with log := w.log ++ [⟨.spi bs 0, .done⟩, ⟨.busy, .failed⟩], step := w.step + 2, chip := (w.chip.transact bs 0).2 })
      else (.ok (), { w with log := w.log ++ [⟨.spi bs 0, .done⟩, ⟨.busy, .done⟩], step := w.step + 2, chip := (w.chip.transact bs 0).2 }) := by
  simp only [intfWrite, Prog.xfer, Prog.req, bind_eq, bind_io, bind_ret, Bool.false_eq_true, if_false]
  simp only [run, reduceCtorEq, false_and, if_false]
  split
  · simp [errOf]
  · simp [errOf, List.append_assoc]

end Model.Phy
