import LoraVerif.Lemmas.MacWFTx
/-!
The per-handler lemmas composed: one step of the history model (`Model.step`) from a well-formed
state under a valid event does not panic and ends well-formed (`step_safe`), hence no run does
(`run_safe`, by induction over the event list).  Stated as C04 property theorems in `Props/C04.lean`;
also used by C09 (every frame of every history is legal).
-/
open Gen.Region Gen.Modulation

namespace Model

theorem step_safe {σ} (g : Rng σ) (m : MacState) (s : σ) (ev : Ev) (h : MacWF m) (hv : ValidEv m ev) :
    Safe (step g (m, s) ev) (fun r => Keeps m r.1.1) := by
  unfold ValidEv at hv
  unfold step
  cases ev with
  | joinAbp da nwk app => exact Safe.pure (macJoinAbp_wf m da nwk app h)
  | setAdr on => exact Safe.pure (macSetAdr_wf m on h)
  | setDr dr => exact Safe.pure (macSetDatarate_wf m dr h hv)
  | rxc v snr mp =>
    simp only
    refine Safe.tbind (macRxcConfig_tot m h) (fun rf _ => ?_)
    refine Safe.tbind (macHandleRx_tot m v mp snr true h hv) ?_
    intro ⟨o, m'⟩ hk
    exact Safe.pure hk
  | joinOtaa fault rx1 rx2 mp1 mp2 =>
    simp only [validEv, Bool.and_eq_true] at hv
    simp only
    refine Safe.bind (macJoinOtaa_safe g m s h) ?_
    intro ⟨o, m1, s1⟩ hk1
    simp only at hk1 ⊢
    cases fault with
    | some k =>
      simp only
      refine Safe.tbind (faultedCycle_tot m1 k rx1 rx2 mp1 mp2 hk1.1 hv.1 hv.2) (fun m2 hk2 => ?_)
      exact Safe.pure (hk1.trans hk2)
    | none =>
      simp only
      refine Safe.tbind (classACycle_tot m1 rx1 rx2 mp1 mp2 hk1.1 hv.1 hv.2) ?_
      intro ⟨r, dl, m2⟩ hk2
      exact Safe.pure (hk1.trans hk2)
  | uplink data fport conf fault rx1 rx2 mp1 mp2 =>
    simp only [validEv, Bool.and_eq_true, Bool.or_eq_true, bne_iff_ne, ne_eq, List.isEmpty_iff, decide_eq_true_eq] at hv
    obtain ⟨⟨⟨h0, hl⟩, hr1⟩, hr2⟩ := hv
    simp only
    refine Safe.bind (macSend_safe g m data fport conf s h (fun e => by rcases h0 with h0 | h0; exact absurd e h0; exact h0) hl) ?_
    intro ⟨o, m1, s1⟩ hk1
    simp only at hk1 ⊢
    cases o with
    | none => exact Safe.pure hk1
    | some o =>
      simp only
      cases fault with
      | some k =>
        simp only
        refine Safe.tbind (faultedCycle_tot m1 k rx1 rx2 mp1 mp2 hk1.1 hr1 hr2) (fun m2 hk2 => ?_)
        exact Safe.pure ((hk1.trans hk2).trans (faultAfterTx_wf m2 hk2.1))
      | none =>
        simp only
        refine Safe.tbind (classACycle_tot m1 rx1 rx2 mp1 mp2 hk1.1 hr1 hr2) ?_
        intro ⟨r, dl, m2⟩ hk2
        exact Safe.pure (hk1.trans hk2)



theorem run_safe {σ} (g : Rng σ) (m : MacState) (s : σ) (evs : List Ev) (h : MacWF m)
    (hv : ∀ ev ∈ evs, validEv m.region.id ev = true) : Safe (run g (m, s) evs) (fun r => Keeps m r.1.1) := by
  induction evs generalizing m s with
  | nil => exact Safe.pure (Keeps.refl h)
  | cons ev rest ih =>
    unfold run
    refine Safe.bind (step_safe g m s ev h (hv ev List.mem_cons_self)) ?_
    intro ⟨⟨m1, s1⟩, o⟩ hk1
    simp only at hk1 ⊢
    refine Safe.bind (ih m1 s1 hk1.1 (fun ev' he => by rw [hk1.2.1]; exact hv ev' (List.mem_cons_of_mem _ he))) ?_
    intro ⟨⟨m2, s2⟩, os⟩ hk2
    exact Safe.pure (hk1.trans hk2)


end Model
