import LoraVerif.Lemmas.Ghost
import LoraVerif.Lemmas.TraceC
/-!
# Normal form of the extended receive procedure (`Model/HistoryC.lean`) in terms of the REFERENCE

`Lemmas/Cycle.lean` for the events `uplinkC` / `joinC`: the frames a Class C device hears between TX
and RX1 (`c1`) and between RX1 and RX2 (`c2`) go to `handle_rxc` in the middle of the procedure.

* THE REFERENCE (`refRxcs`, `refWin`, `refCycle`, `refUplink`) runs the procedure on two numbers only —
  `PSt`: the last accepted downlink counter and the uplink counter — judging every frame it meets with
  the acceptance rule `accepts` of `Lemmas/Cycle.lean` (Spec/Freshness.lean) under the counter it
  holds AT THAT POINT.  It yields what is reported for every frame handled, in order (`heard`), how the
  procedure ends, and the list of ACTS it decided on: `accC` (a frame accepted on the RXC
  parameters: commands ignored), `accA` (a frame accepted in a Class A window: commands executed),
  `tmo` (`rx2_complete`: both windows empty, an oversized frame, or the procedure cut by a radio
  fault).  Nothing of the model enters.
* THE MODEL IS THAT (`stepC_uplinkC_joined`): the output of `stepC` is the reference's, and the state
  it leaves is reached from the state after `send` by exactly those acts (`Acts`: `acceptState` /
  `timeoutState` of `Lemmas/Cycle.lean`, composed).  Every history-level property of the extended
  events then needs ONE lemma: its relation is preserved along `Acts`.
* A device that is joining (`joinC`) ignores what it hears on the RXC parameters (`handle_rxc` answers
  `Err(NotJoined)`, which `between_windows` takes as `NoUpdate`): `stepC` on `joinC` is `step` on the plain
  `joinOtaa` with the fault position `joinFaultC` (`stepC_joinC_plain`); `uplinkC` without a session is
  refused.
-/
open Spec.Freshness

namespace Model

/-! ## the reference -/

/-- what the reference tracks inside a receive procedure -/
structure PSt where
  /-- counter of the last accepted downlink of the session -/
  last : Option Nat
  /-- the uplink counter -/
  fu : Nat
  deriving DecidableEq, Repr

/-- the uplink counter moves on unless its space is exhausted -/
def bumpFu (fu : Nat) : Nat := if fu = 0xFFFFFFFF then fu else fu + 1

/-- what the reference decides on during a receive procedure -/
inductive Act where
  /-- a frame heard on the RXC parameters is accepted under counter `N` (MAC commands ignored) -/
  | accC (N : Nat) (d : RxData)
  /-- a frame heard in a Class A window is accepted under counter `N` (MAC commands executed) -/
  | accA (N : Nat) (d : RxData) (snr : Int)
  /-- `rx2_complete` -/
  | tmo
  deriving DecidableEq, Repr

/-- what is reported for an accepted frame when the uplink counter is `fu` -/
def accOut (fu N : Nat) (d : RxData) : RxOut :=
  if fu = 0xFFFFFFFF then { resp := .sessionExpired, downlink := none }
  else { resp := .downlinkReceived N, downlink := deliver d }

/-- response of `rx2_complete` when the uplink counter is `fu` -/
def tmoResp (fu : Nat) (conf : Bool) : Response :=
  if fu = 0xFFFFFFFF then .sessionExpired else if conf then .noAck else .rxComplete

/-- a stretch of the procedure, judged: reports, acts, the counters afterwards -/
structure Ref where
  heard : List RxOut
  acts : List Act
  st : PSt
  deriving Repr

/-- the frames heard on the RXC parameters while waiting for a window, one after the other -/
def refRxcs (p : PSt) (mpc : Nat) : List (RxView × Int) → Ref
  | [] => ⟨[], [], p⟩
  | (v, _) :: rest =>
    match specRxc p.last v mpc with
    | some (N, d) =>
      let r := refRxcs ⟨some N, bumpFu p.fu⟩ mpc rest
      ⟨accOut p.fu N d :: r.heard, .accC N d :: r.acts, r.st⟩
    | none =>
      let r := refRxcs p mpc rest
      ⟨noUp :: r.heard, r.acts, r.st⟩

/-- one window with what precedes it, judged; `res` as in `winC` -/
structure WRef where
  res : Option (Option RxOut)
  heard : List RxOut
  acts : List Act
  st : PSt
  deriving Repr

def refWin (cc : Bool) (p : PSt) (conf : Bool) (mpc : Nat) (cs : List (RxView × Int)) (f : Option (RxView × Int)) (mp : Nat)
    (eb ea : Bool) : WRef :=
  let b : Ref := if cc then refRxcs p mpc cs else ⟨[], [], p⟩
  if eb then ⟨none, b.heard, b.acts, b.st⟩ else
  match specWindow b.st.last f mp with
  | .nothing => ⟨if ea then none else some none, b.heard, b.acts, b.st⟩
  | .ended =>
    let o : RxOut := { resp := tmoResp b.st.fu conf, downlink := none }
    ⟨if ea then none else some (some o), b.heard ++ [o], b.acts ++ [.tmo], ⟨b.st.last, bumpFu b.st.fu⟩⟩
  | .accepted N d snr =>
    let o := accOut b.st.fu N d
    ⟨if ea then none else some (some o), b.heard ++ [o], b.acts ++ [.accA N d snr], ⟨some N, bumpFu b.st.fu⟩⟩

/-- the receive procedure, judged -/
structure CRef where
  fin : ProcEnd
  heard : List RxOut
  acts : List Act
  st : PSt
  deriving Repr

def refCycle (cc : Bool) (p : PSt) (conf : Bool) (mpc : Nat) (fault : Option FaultPos) (c1 : List (RxView × Int))
    (rx1 : Option (RxView × Int)) (c2 : List (RxView × Int)) (rx2 : Option (RxView × Int)) (mp1 mp2 : Nat) : CRef :=
  if fault = some .tx then ⟨.cut, [], [], p⟩ else
  let w1 := refWin cc p conf mpc c1 rx1 mp1 (fault == some .before1) (fault == some .close1)
  match w1.res with
  | none => ⟨.cut, w1.heard, w1.acts, w1.st⟩
  | some (some o) => ⟨.resp o, w1.heard, w1.acts, w1.st⟩
  | some none =>
    let w2 := refWin cc w1.st conf mpc c2 rx2 mp2 (fault == some .before2) (fault == some .close2)
    match w2.res with
    | none => ⟨.cut, w1.heard ++ w2.heard, w1.acts ++ w2.acts, w2.st⟩
    | some (some o) => ⟨.resp o, w1.heard ++ w2.heard, w1.acts ++ w2.acts, w2.st⟩
    | some none => ⟨.complete, w1.heard ++ w2.heard, w1.acts ++ w2.acts, w2.st⟩

/-- `send` + the receive procedure of a device with a session, judged: what the front-end reports,
what it delivers, what every handled frame yielded, the acts, the counters afterwards -/
structure URef where
  resp : Option Response
  dl : Option (Nat × List Nat)
  heard : List RxOut
  acts : List Act
  st : PSt
  deriving Repr

def refUplink (cc : Bool) (p : PSt) (conf : Bool) (mpc : Nat) (fault : Option FaultPos) (c1 : List (RxView × Int))
    (rx1 : Option (RxView × Int)) (c2 : List (RxView × Int)) (rx2 : Option (RxView × Int)) (mp1 mp2 : Nat) : URef :=
  let c := refCycle cc p conf mpc fault c1 rx1 c2 rx2 mp1 mp2
  match c.fin with
  | .resp o => ⟨some o.resp, o.downlink, c.heard, c.acts, c.st⟩
  | .complete => ⟨some (tmoResp c.st.fu conf), none, c.heard, c.acts ++ [.tmo], ⟨c.st.last, bumpFu c.st.fu⟩⟩
  | .cut => ⟨if c.st.fu = 0xFFFFFFFF then some .sessionExpired else none, none, c.heard, c.acts ++ [.tmo],
             ⟨c.st.last, bumpFu c.st.fu⟩⟩

/-! ## the acts, on the model -/

/-- the command-handling result of a Class C acceptance: nothing handled -/
def ctxC (m : MacState) (s : Session) : MacCtx := { cfg := m.cfg, region := m.region, pending := s.pending }

/-- `m'` is reached from `m` by the acts, in order -/
def Acts : MacState → List Act → MacState → Prop
  | m, [], m' => m' = m
  | m, .accC N d :: rest, m' => ∃ s, m.st = .joined s ∧ N < 4294967296 ∧ Acts (acceptState m s d N (ctxC m s)) rest m'
  | m, .accA N d snr :: rest, m' =>
    ∃ s ctx, m.st = .joined s ∧ N < 4294967296 ∧ acceptCmds s.pending m.cfg m.region d snr false = .ok ctx ∧
      Acts (acceptState m s d N ctx) rest m'
  | m, .tmo :: rest, m' => Acts (timeoutState m) rest m'

theorem Acts.append {m m1 m' : MacState} {a b : List Act} (h1 : Acts m a m1) (h2 : Acts m1 b m') : Acts m (a ++ b) m' := by
  induction a generalizing m with
  | nil => simp only [Acts] at h1; subst h1; exact h2
  | cons x rest ih =>
    cases x with
    | accC N d =>
      simp only [List.cons_append, Acts] at h1 ⊢
      obtain ⟨s, hs, hN, h⟩ := h1
      exact ⟨s, hs, hN, ih h⟩
    | accA N d snr =>
      simp only [List.cons_append, Acts] at h1 ⊢
      obtain ⟨s, ctx, hs, hN, hc, h⟩ := h1
      exact ⟨s, ctx, hs, hN, hc, ih h⟩
    | tmo =>
      simp only [List.cons_append, Acts] at h1 ⊢
      exact ih h1

theorem Acts.split {m m' : MacState} {a b : List Act} (h : Acts m (a ++ b) m') : ∃ m1, Acts m a m1 ∧ Acts m1 b m' := by
  induction a generalizing m with
  | nil => exact ⟨m, rfl, h⟩
  | cons x rest ih =>
    cases x with
    | accC N d =>
      simp only [List.cons_append, Acts] at h ⊢
      obtain ⟨s, hs, hN, h⟩ := h
      obtain ⟨m1, h1, h2⟩ := ih h
      exact ⟨m1, ⟨s, hs, hN, h1⟩, h2⟩
    | accA N d snr =>
      simp only [List.cons_append, Acts] at h ⊢
      obtain ⟨s, ctx, hs, hN, hc, h⟩ := h
      obtain ⟨m1, h1, h2⟩ := ih h
      exact ⟨m1, ⟨s, ctx, hs, hN, hc, h1⟩, h2⟩
    | tmo =>
      simp only [List.cons_append, Acts] at h ⊢
      exact ih h

theorem Acts.nil (m : MacState) : Acts m [] m := rfl

theorem Acts.tmo1 (m : MacState) : Acts m [.tmo] (timeoutState m) := by simp only [Acts]

/-! ## the counters of the session along the primitives -/

/-- the two counters of a session -/
def stOf (s : Session) : PSt := ⟨s.fcntDown, s.fcntUp⟩

theorem acceptFinish_session_eq (s : Session) (d : RxData) (N : Nat) (ctx : MacCtx) :
    (acceptFinish s d N ctx).2.1 =
      { s with fcntDown := some N, adrAckCnt := 0, pending := ctx.pending, ackOwed := s.ackOwed || d.confirmed,
               fcntUp := bumpFu s.fcntUp } := by
  unfold acceptFinish bumpFu
  simp only []
  by_cases hx : s.fcntUp = 0xFFFFFFFF
  · simp [hx]
  · simp [hx]

theorem acceptOut_eq (s : Session) (d : RxData) (N : Nat) (ctx : MacCtx) : acceptOut s d N ctx = accOut s.fcntUp N d := by
  unfold acceptOut acceptFinish accOut
  simp only []
  by_cases hx : s.fcntUp = 0xFFFFFFFF
  · simp [hx]
  · simp [hx]

theorem acceptState_cfg (m : MacState) (s : Session) (d : RxData) (N : Nat) (ctx : MacCtx) :
    (acceptState m s d N ctx).cfg = ctx.cfg ∧ (acceptState m s d N ctx).region = ctx.region := by
  unfold acceptState acceptFinish
  simp only []
  constructor <;> (split <;> rfl)

theorem rx2Complete_session_eq (s : Session) (cfg : Config) (r : RegionId) :
    ∃ cnt, (rx2Complete s cfg r).2.1 = { s with fcntUp := bumpFu s.fcntUp, adrAckCnt := cnt } := by
  unfold rx2Complete bumpFu
  by_cases hx : s.fcntUp = 0xFFFFFFFF
  · refine ⟨s.adrAckCnt, ?_⟩
    simp only [hx, beq_self_eq_true, if_true]
    cases s; simp only at hx; subst hx; rfl
  · have hx' : (s.fcntUp == 0xFFFFFFFF) = false := by simp [hx]
    simp only [hx', Bool.false_eq_true, if_false, hx]
    repeat' split
    all_goals exact ⟨_, rfl⟩

/-- the session after `rx2_complete`: only the uplink counter and the ADR count may have moved -/
theorem timeoutState_session (m : MacState) (s : Session) (hst : m.st = .joined s) :
    ∃ s', (timeoutState m).st = .joined s' ∧ s'.fcntDown = s.fcntDown ∧ s'.fcntUp = bumpFu s.fcntUp ∧
      s'.confirmed = s.confirmed ∧ s'.pending = s.pending ∧ s'.ackOwed = s.ackOwed ∧ (timeoutState m).region = m.region := by
  have e : timeoutState m = { m with st := .joined (rx2Complete s m.cfg m.region.id).2.1, cfg := (rx2Complete s m.cfg m.region.id).2.2 } := by
    unfold timeoutState macRx2Complete; simp only [hst]
  rw [e]
  obtain ⟨cnt, h⟩ := rx2Complete_session_eq s m.cfg m.region.id
  refine ⟨_, rfl, ?_⟩
  rw [h]
  exact ⟨rfl, rfl, rfl, rfl, rfl, rfl⟩

theorem macRx2Complete_resp (m : MacState) (s : Session) (hst : m.st = .joined s) :
    (macRx2Complete m).1 = tmoResp s.fcntUp s.confirmed := by
  unfold macRx2Complete tmoResp
  simp only [hst]
  exact rx2Complete_resp_eq s m.cfg m.region.id

theorem faultExpired_eq (m : MacState) (s : Session) (hst : m.st = .joined s) :
    faultExpired m = decide (s.fcntUp = 0xFFFFFFFF) := by
  unfold faultExpired
  rw [macRx2Complete_resp m s hst]
  unfold tmoResp
  by_cases hx : s.fcntUp = 0xFFFFFFFF
  · simp [hx]
  · simp only [hx, if_false, decide_false]
    cases s.confirmed <;> rfl

/-! ## the RXC configuration depends on the negotiated parameters and the region only -/

theorem macRxcConfig_congr (m m1 : MacState) (hc : m1.cfg = m.cfg) (hr : m1.region.id = m.region.id) :
    macRxcConfig m1 = macRxcConfig m := by
  simp only [macRxcConfig, rx2RfConfig, buildRfConfig, hc, hr]

theorem rxcMp_congr (m m1 : MacState) (hc : m1.cfg = m.cfg) (hr : m1.region.id = m.region.id) : rxcMp m1 = rxcMp m := by
  unfold rxcMp; rw [macRxcConfig_congr m m1 hc hr]

theorem rxcMp_of_ok {m : MacState} {rf : RfConfig} (h : macRxcConfig m = .ok rf) : rf.maxPayload.toNat = rxcMp m := by
  unfold rxcMp; rw [h]

/-- channel selection leaves the region's identity alone -/
theorem selectTxChannel_id {σ} (g : Rng σ) (rs rs' : RegionState) (dr : Gen.Region.DR) (frame : FrameKind) (s s' : σ) (tx : TxChannel)
    (h : selectTxChannel g rs dr frame s = .ok (tx, rs', s')) : rs'.id = rs.id := by
  unfold selectTxChannel at h
  cases hp : rs.plan with
  | dyn p =>
    simp only [hp] at h
    obtain ⟨drv, _, h⟩ := Except.bind_eq_ok h
    cases frame with
    | join =>
      simp only at h
      obtain ⟨⟨idx, s1⟩, _, h⟩ := Except.bind_eq_ok h
      simp only at h
      split at h
      · obtain ⟨d, _, h⟩ := Except.bind_eq_ok h
        simp only [pure, Except.pure, Except.ok.injEq, Prod.mk.injEq] at h
        rw [← h.2.1]
      · cases h
    | data =>
      simp only at h
      obtain ⟨ua, _, h⟩ := Except.bind_eq_ok h
      obtain ⟨p', _, h⟩ := Except.bind_eq_ok h
      obtain ⟨⟨c, s1⟩, _, h⟩ := Except.bind_eq_ok h
      obtain ⟨d, _, h⟩ := Except.bind_eq_ok h
      simp only [pure, Except.pure, Except.ok.injEq, Prod.mk.injEq] at h
      rw [← h.2.1]
  | fix p =>
    simp only [hp] at h
    obtain ⟨⟨dr', ch, jc, mask, s1⟩, _, h⟩ := Except.bind_eq_ok h
    obtain ⟨dv, _, h⟩ := Except.bind_eq_ok h
    obtain ⟨d, _, h⟩ := Except.bind_eq_ok h
    simp only at h
    split at h
    · simp only [pure, Except.pure, Except.ok.injEq, Prod.mk.injEq] at h
      rw [← h.2.1]
    · cases h

/-! ## frames heard on the RXC parameters, by a device with a session -/

/-- a frame heard on the RXC parameters that the reference does not accept -/
theorem macHandleRxc_joined_none (m : MacState) (s : Session) (hst : m.st = .joined s) (hl : LastOk s.fcntDown)
    (v : RxView) (mp : Nat) (snr : Int) (hw : viewOk v = true) (hs : specRxc s.fcntDown v mp = none) :
    macHandleRx m v mp snr true = .ok (some noUp, m) := by
  rw [macHandleRxc_joined m s hst hl v mp snr hw]
  cases v with
  | garbage => rfl
  | joinAccept j => rfl
  | data d =>
    simp only
    have : accepts s.fcntDown d mp = none := by
      unfold specRxc at hs
      simp only [Option.map_eq_none_iff] at hs
      exact hs
    rw [this]; rfl

/-- … that the reference accepts -/
theorem macHandleRxc_joined_some (m : MacState) (s : Session) (hst : m.st = .joined s) (hl : LastOk s.fcntDown)
    (v : RxView) (mp : Nat) (snr : Int) (hw : viewOk v = true) (N : Nat) (d : RxData) (hs : specRxc s.fcntDown v mp = some (N, d)) :
    macHandleRx m v mp snr true = .ok (some (acceptOut s d N (ctxC m s)), acceptState m s d N (ctxC m s)) ∧
      accepts s.fcntDown d mp = some N ∧ d.fcnt16 < 65536 := by
  rw [macHandleRxc_joined m s hst hl v mp snr hw]
  cases v with
  | garbage => cases hs
  | joinAccept j => cases hs
  | data d' =>
    simp only [specRxc, Option.map_eq_some_iff, Prod.mk.injEq] at hs
    obtain ⟨_, ha, rfl, rfl⟩ := hs
    refine ⟨?_, ha, by simpa [viewOk] using hw⟩
    simp only [ha, acceptM, acceptCmds_c, ctxC, bind, Except.bind, pure, Except.pure]


def csOk (cs : List (RxView × Int)) : Bool := cs.all (fun c => viewOk c.1)

theorem rxcs_joined (mp : Nat) (cs : List (RxView × Int)) (hv : csOk cs = true) :
    ∀ (m : MacState) (s : Session), m.st = .joined s → LastOk s.fcntDown →
      ∃ m' s', rxcs m mp cs = .ok ((refRxcs (stOf s) mp cs).heard, true, m') ∧
        Acts m (refRxcs (stOf s) mp cs).acts m' ∧ m'.st = .joined s' ∧ m'.cfg = m.cfg ∧ m'.region = m.region ∧
        stOf s' = (refRxcs (stOf s) mp cs).st ∧ LastOk s'.fcntDown ∧ s'.confirmed = s.confirmed := by
  induction cs with
  | nil =>
    intro m s hst hl
    exact ⟨m, s, rfl, rfl, hst, rfl, rfl, rfl, hl, rfl⟩
  | cons c rest ih =>
    intro m s hst hl
    obtain ⟨v, snr⟩ := c
    simp only [csOk, List.all_cons, Bool.and_eq_true] at hv
    have hrest : csOk rest = true := hv.2
    unfold rxcs
    rw [macHandleRxc_joined m s hst hl v mp snr hv.1]
    -- a frame that leaves everything as it was
    have hno : specRxc s.fcntDown v mp = none →
        (∃ m' s', ((pure (some noUp, m) : M (Option RxOut × MacState)) >>= fun x =>
            match x with
            | (o, m) => match o with
              | none => pure ([], false, m)
              | some o => do
                let (os, fin, m) ← rxcs m mp rest
                pure (o :: os, fin, m)) = .ok ((refRxcs (stOf s) mp ((v, snr) :: rest)).heard, true, m') ∧
          Acts m (refRxcs (stOf s) mp ((v, snr) :: rest)).acts m' ∧ m'.st = .joined s' ∧ m'.cfg = m.cfg ∧ m'.region = m.region ∧
          stOf s' = (refRxcs (stOf s) mp ((v, snr) :: rest)).st ∧ LastOk s'.fcntDown ∧ s'.confirmed = s.confirmed) := by
      intro hs
      obtain ⟨m', s', hrun, hacts, hst', hc, hr, hp, hl', hcf⟩ := ih hrest m s hst hl
      refine ⟨m', s', ?_, ?_, hst', hc, hr, ?_, hl', hcf⟩
      · simp only [bind, Except.bind, pure, Except.pure, hrun, refRxcs, stOf, hs]
      · simp only [refRxcs, stOf, hs]; exact hacts
      · simp only [refRxcs, stOf, hs]; exact hp
    cases v with
    | garbage => exact hno rfl
    | joinAccept j => exact hno rfl
    | data d =>
      simp only
      cases ha : accepts s.fcntDown d mp with
      | none => exact hno (by simp [specRxc, ha])
      | some N =>
        have hs : specRxc s.fcntDown (.data d) mp = some (N, d) := by simp [specRxc, ha]
        have hw : d.fcnt16 < 65536 := by simpa [viewOk] using hv.1
        have hl1 : LastOk (acceptFinish s d N (ctxC m s)).2.1.fcntDown := by
          rw [acceptFinish_session_eq]; exact fresh_lastOk hw (accepts_some.mp ha).2.1
        obtain ⟨m', s', hrun, hacts, hst', hc, hr, hp, hl', hcf⟩ :=
          ih hrest (acceptState m s d N (ctxC m s)) _ (acceptState_st m s d N (ctxC m s)) hl1
        have hst1 : stOf (acceptFinish s d N (ctxC m s)).2.1 = ⟨some N, bumpFu s.fcntUp⟩ := by
          rw [acceptFinish_session_eq]; rfl
        rw [hst1] at hrun hacts hp
        simp only [ctxC] at hrun
        refine ⟨m', s', ?_, ?_, hst', ?_, ?_, ?_, hl', ?_⟩
        · simp only [acceptM, acceptCmds_c, bind, Except.bind, pure, Except.pure, hrun, refRxcs, stOf, hs, acceptOut_eq]
        · simp only [refRxcs, stOf, hs, Acts]
          exact ⟨s, hst, fresh_lastOk hw (accepts_some.mp ha).2.1 N rfl, hacts⟩
        · rw [hc, (acceptState_cfg m s d N (ctxC m s)).1]; rfl
        · rw [hr, (acceptState_cfg m s d N (ctxC m s)).2]; rfl
        · simp only [refRxcs, stOf, hs]; exact hp
        · rw [hcf, acceptFinish_session_eq]

/-- `between_windows` of a device with a session -/
theorem between_joined (cc : Bool) (m : MacState) (s : Session) (hst : m.st = .joined s) (hl : LastOk s.fcntDown)
    (cs : List (RxView × Int)) (hv : csOk cs = true) (os : List RxOut) (fin : Bool) (m1 : MacState)
    (h : between cc m cs = .ok (os, fin, m1)) :
    fin = true ∧ os = (if cc then refRxcs (stOf s) (rxcMp m) cs else ⟨[], [], stOf s⟩ : Ref).heard ∧
      Acts m (if cc then refRxcs (stOf s) (rxcMp m) cs else ⟨[], [], stOf s⟩ : Ref).acts m1 ∧
      ∃ s1, m1.st = .joined s1 ∧ m1.cfg = m.cfg ∧ m1.region = m.region ∧
        stOf s1 = (if cc then refRxcs (stOf s) (rxcMp m) cs else ⟨[], [], stOf s⟩ : Ref).st ∧ LastOk s1.fcntDown ∧
        s1.confirmed = s.confirmed := by
  unfold between at h
  cases cc with
  | false =>
    simp only [Bool.false_eq_true, if_false, pure, Except.pure, Except.ok.injEq, Prod.mk.injEq] at h ⊢
    obtain ⟨rfl, rfl, rfl⟩ := h
    exact ⟨rfl, rfl, rfl, s, hst, rfl, rfl, rfl, hl, rfl⟩
  | true =>
    simp only [if_true] at h ⊢
    obtain ⟨rf, hrf, h⟩ := Except.bind_eq_ok h
    rw [rxcMp_of_ok hrf] at h
    obtain ⟨m', s', hrun, hacts, hst', hc, hr, hp, hl', hcf⟩ := rxcs_joined (rxcMp m) cs hv m s hst hl
    rw [hrun] at h
    simp only [Except.ok.injEq, Prod.mk.injEq] at h
    obtain ⟨rfl, rfl, rfl⟩ := h
    exact ⟨rfl, rfl, hacts, s', hst', hc, hr, hp, hl', hcf⟩

/-- one window with what precedes it, of a device with a session -/
theorem winC_joined (cc : Bool) (m : MacState) (s : Session) (hst : m.st = .joined s) (hl : LastOk s.fcntDown)
    (cs : List (RxView × Int)) (f : Option (RxView × Int)) (mp : Nat) (eb ea : Bool) (hv : csOk cs = true) (hf : rxOk f = true)
    (r : Option (Option RxOut)) (os : List RxOut) (m' : MacState) (h : winC cc m cs f mp eb ea = .ok (r, os, m')) :
    r = (refWin cc (stOf s) s.confirmed (rxcMp m) cs f mp eb ea).res ∧
    os = (refWin cc (stOf s) s.confirmed (rxcMp m) cs f mp eb ea).heard ∧
    Acts m (refWin cc (stOf s) s.confirmed (rxcMp m) cs f mp eb ea).acts m' ∧
    ∃ s', m'.st = .joined s' ∧ stOf s' = (refWin cc (stOf s) s.confirmed (rxcMp m) cs f mp eb ea).st ∧ LastOk s'.fcntDown ∧
      s'.confirmed = s.confirmed ∧ (r = some none → m'.cfg = m.cfg ∧ m'.region = m.region) := by
  unfold winC at h
  obtain ⟨⟨os1, fin, m1⟩, hb, h⟩ := Except.bind_eq_ok h
  obtain ⟨rfl, hos, hacts, s1, hst1, hc1, hr1, hp1, hl1, hcf1⟩ := between_joined cc m s hst hl cs hv os1 fin m1 hb
  simp only [Bool.not_true, Bool.false_or] at h
  unfold refWin
  generalize (if cc then refRxcs (stOf s) (rxcMp m) cs else ⟨[], [], stOf s⟩ : Ref) = b at hos hacts hp1
  subst hos
  cases eb with
  | true =>
    simp only [if_true, pure, Except.pure, Except.ok.injEq, Prod.mk.injEq] at h ⊢
    obtain ⟨rfl, rfl, rfl⟩ := h
    exact ⟨rfl, rfl, hacts, s1, hst1, hp1, hl1, hcf1, fun e => by cases e⟩
  | false =>
    simp only [Bool.false_eq_true, if_false] at h ⊢
    obtain ⟨⟨o, m2⟩, hw, h⟩ := Except.bind_eq_ok h
    obtain ⟨_, _, h⟩ := Except.bind_eq_ok h
    rw [window_joined m1 s1 hst1 hl1 f mp hf] at hw
    have hlast : b.st.last = s1.fcntDown := by rw [← hp1]; rfl
    have hfu : b.st.fu = s1.fcntUp := by rw [← hp1]; rfl
    rw [hlast]
    cases hsw : specWindow s1.fcntDown f mp with
    | nothing =>
      simp only [hsw, pure, Except.pure, Except.ok.injEq, Prod.mk.injEq] at hw ⊢
      obtain ⟨rfl, rfl⟩ := hw
      have hres : r = (if ea = true then none else some none) ∧ os = b.heard ++ (none : Option RxOut).toList ∧ m' = m1 := by
        cases ea <;> simp only [if_true, if_false, Bool.false_eq_true, pure, Except.pure, Except.ok.injEq, Prod.mk.injEq] at h ⊢ <;>
          exact ⟨h.1.symm, h.2.1.symm, h.2.2.symm⟩
      obtain ⟨rfl, rfl, rfl⟩ := hres
      refine ⟨rfl, by simp, hacts, s1, hst1, hp1, hl1, hcf1, fun _ => ⟨hc1, hr1⟩⟩
    | ended =>
      simp only [hsw, pure, Except.pure, Except.ok.injEq, Prod.mk.injEq] at hw ⊢
      obtain ⟨rfl, rfl⟩ := hw
      obtain ⟨s2, hst2, hfd2, hfu2, hcf2, _, _, _⟩ := timeoutState_session m1 s1 hst1
      have ho : ({ resp := (macRx2Complete m1).1, downlink := none } : RxOut) = { resp := tmoResp b.st.fu s.confirmed, downlink := none } := by
        rw [macRx2Complete_resp m1 s1 hst1, hfu, hcf1]
      have hres : r = (if ea = true then none else some (some { resp := tmoResp b.st.fu s.confirmed, downlink := none })) ∧
          os = b.heard ++ [{ resp := tmoResp b.st.fu s.confirmed, downlink := none }] ∧ m' = timeoutState m1 := by
        rw [← ho]
        cases ea <;> simp only [if_true, if_false, Bool.false_eq_true, pure, Except.pure, Except.ok.injEq, Prod.mk.injEq] at h ⊢ <;>
          exact ⟨h.1.symm, h.2.1.symm, h.2.2.symm⟩
      obtain ⟨rfl, rfl, rfl⟩ := hres
      refine ⟨rfl, rfl, hacts.append (Acts.tmo1 m1), s2, hst2, ?_, ?_, by rw [hcf2, hcf1], ?_⟩
      · simp only [stOf, hfd2, hfu2, hfu]
      · rw [hfd2]; exact hl1
      · intro e; cases ea <;> simp at e
    | accepted N d snr =>
      simp only [hsw] at hw ⊢
      unfold acceptM at hw
      obtain ⟨ctx, hctx, hw⟩ := Except.bind_eq_ok hw
      simp only [pure, Except.pure, Except.ok.injEq, Prod.mk.injEq] at hw
      obtain ⟨rfl, rfl⟩ := hw
      have ho : acceptOut s1 d N ctx = accOut b.st.fu N d := by rw [acceptOut_eq, hfu]
      have hres : r = (if ea = true then none else some (some (accOut b.st.fu N d))) ∧
          os = b.heard ++ [accOut b.st.fu N d] ∧ m' = acceptState m1 s1 d N ctx := by
        rw [← ho]
        cases ea <;> simp only [if_true, if_false, Bool.false_eq_true, pure, Except.pure, Except.ok.injEq, Prod.mk.injEq] at h ⊢ <;>
          exact ⟨h.1.symm, h.2.1.symm, h.2.2.symm⟩
      obtain ⟨rfl, rfl, rfl⟩ := hres
      have hacc : accepts s1.fcntDown d mp = some N ∧ d.fcnt16 < 65536 := (specWindow_accepted hf hsw).2
      refine ⟨rfl, rfl, hacts.append ?_, _, acceptState_st m1 s1 d N ctx, ?_, ?_, ?_, ?_⟩
      · simp only [Acts]; exact ⟨s1, ctx, hst1, lastOk_accepts hacc.2 hacc.1 N rfl, hctx, rfl⟩
      · rw [acceptFinish_session_eq]; simp only [stOf, hfu]
      · rw [acceptFinish_session_eq]; exact lastOk_accepts hacc.2 hacc.1
      · rw [acceptFinish_session_eq]; exact hcf1
      · intro e; cases ea <;> simp at e

/-- **the receive procedure of a device with a session is the reference's**: how it ends, what every
handled frame yields, and the state is reached by the reference's acts -/
theorem cycleC_joined (cc : Bool) (m : MacState) (s : Session) (hst : m.st = .joined s) (hl : LastOk s.fcntDown)
    (fault : Option FaultPos) (c1 : List (RxView × Int)) (rx1 : Option (RxView × Int)) (c2 : List (RxView × Int))
    (rx2 : Option (RxView × Int)) (mp1 mp2 : Nat) (hv1 : csOk c1 = true) (hf1 : rxOk rx1 = true) (hv2 : csOk c2 = true)
    (hf2 : rxOk rx2 = true) (fin : ProcEnd) (heard : List RxOut) (m' : MacState)
    (h : cycleC cc m fault c1 rx1 c2 rx2 mp1 mp2 = .ok (fin, heard, m')) :
    fin = (refCycle cc (stOf s) s.confirmed (rxcMp m) fault c1 rx1 c2 rx2 mp1 mp2).fin ∧
    heard = (refCycle cc (stOf s) s.confirmed (rxcMp m) fault c1 rx1 c2 rx2 mp1 mp2).heard ∧
    Acts m (refCycle cc (stOf s) s.confirmed (rxcMp m) fault c1 rx1 c2 rx2 mp1 mp2).acts m' ∧
    ∃ s', m'.st = .joined s' ∧ stOf s' = (refCycle cc (stOf s) s.confirmed (rxcMp m) fault c1 rx1 c2 rx2 mp1 mp2).st ∧
      LastOk s'.fcntDown ∧ s'.confirmed = s.confirmed := by
  unfold cycleC at h
  unfold refCycle
  by_cases htx : fault = some .tx
  · simp only [htx, if_true, pure, Except.pure, Except.ok.injEq, Prod.mk.injEq] at h ⊢
    obtain ⟨rfl, rfl, rfl⟩ := h
    exact ⟨rfl, rfl, rfl, s, hst, rfl, hl, rfl⟩
  · simp only [htx, if_false] at h ⊢
    obtain ⟨⟨r1, h1, ma⟩, hw1, h⟩ := Except.bind_eq_ok h
    obtain ⟨hr1, hh1, ha1, sa, hsta, hpa, hla, hcfa, hkeep⟩ :=
      winC_joined cc m s hst hl c1 rx1 mp1 _ _ hv1 hf1 r1 h1 ma hw1
    generalize refWin cc (stOf s) s.confirmed (rxcMp m) c1 rx1 mp1 (fault == some .before1) (fault == some .close1) = w1
      at hr1 hh1 ha1 hpa
    subst hr1 hh1
    cases hres1 : w1.res with
    | none =>
      simp only [hres1, pure, Except.pure, Except.ok.injEq, Prod.mk.injEq] at h ⊢
      obtain ⟨rfl, rfl, rfl⟩ := h
      exact ⟨rfl, rfl, ha1, sa, hsta, hpa, hla, hcfa⟩
    | some o1 =>
      cases o1 with
      | some o =>
        simp only [hres1, pure, Except.pure, Except.ok.injEq, Prod.mk.injEq] at h ⊢
        obtain ⟨rfl, rfl, rfl⟩ := h
        exact ⟨rfl, rfl, ha1, sa, hsta, hpa, hla, hcfa⟩
      | none =>
        simp only [hres1] at h ⊢
        obtain ⟨hca, hra⟩ := hkeep hres1
        obtain ⟨⟨r2, h2, mb⟩, hw2, h⟩ := Except.bind_eq_ok h
        obtain ⟨hr2, hh2, ha2, sb, hstb, hpb, hlb, hcfb, _⟩ :=
          winC_joined cc ma sa hsta hla c2 rx2 mp2 _ _ hv2 hf2 r2 h2 mb hw2
        rw [rxcMp_congr m ma hca (by rw [hra]), hpa, hcfa] at hr2 hh2 ha2 hpb
        generalize refWin cc w1.st s.confirmed (rxcMp m) c2 rx2 mp2 (fault == some .before2) (fault == some .close2) = w2
          at hr2 hh2 ha2 hpb
        subst hr2 hh2
        have hcf : sb.confirmed = s.confirmed := by rw [hcfb, hcfa]
        cases hres2 : w2.res with
        | none =>
          simp only [hres2, pure, Except.pure, Except.ok.injEq, Prod.mk.injEq] at h ⊢
          obtain ⟨rfl, rfl, rfl⟩ := h
          exact ⟨rfl, rfl, ha1.append ha2, sb, hstb, hpb, hlb, hcf⟩
        | some o2 =>
          cases o2 with
          | some o =>
            simp only [hres2, pure, Except.pure, Except.ok.injEq, Prod.mk.injEq] at h ⊢
            obtain ⟨rfl, rfl, rfl⟩ := h
            exact ⟨rfl, rfl, ha1.append ha2, sb, hstb, hpb, hlb, hcf⟩
          | none =>
            simp only [hres2, pure, Except.pure, Except.ok.injEq, Prod.mk.injEq] at h ⊢
            obtain ⟨rfl, rfl, rfl⟩ := h
            exact ⟨rfl, rfl, ha1.append ha2, sb, hstb, hpb, hlb, hcf⟩

/-! ## anatomy of one extended step -/

def evOkC : EvC → Bool
  | .base e => evOk e
  | .uplinkC _ _ _ _ _ c1 rx1 c2 rx2 => csOk c1 && rxOk rx1 && csOk c2 && rxOk rx2
  | .joinC _ _ c1 rx1 c2 rx2 => csOk c1 && rxOk rx1 && csOk c2 && rxOk rx2

/-- the reference's verdict on `send` + receive procedure, for the uplink the MAC built (`so`: its
counter, the payload limits of the windows it handed out) -/
def upRefC (cc : Bool) (last : Option Nat) (conf : Bool) (mpc : Nat) (fault : Option FaultPos) (c1 : List (RxView × Int))
    (rx1 : Option (RxView × Int)) (c2 : List (RxView × Int)) (rx2 : Option (RxView × Int)) (so : SendOut) : URef :=
  refUplink cc ⟨last, so.frame.fcnt⟩ conf mpc fault c1 rx1 c2 rx2 so.tx.rx1.maxPayload.toNat so.tx.rx2.maxPayload.toNat

/-- **`send` + the receive procedure of a device with a session (async front-end, both classes)**:
`Mac::send` as in `Lemmas/Cycle.lean`; the output is the reference's; the state is reached from the
state after `send` by the reference's acts -/
theorem stepC_uplinkC_joined {σ} (g : Rng σ) (m m' : MacState) (rs rs' : σ) (s : Session) (hst : m.st = .joined s)
    (hl : LastOk s.fcntDown) (cc : Bool) (data : List Nat) (fport : Nat) (conf : Bool) (fault : Option FaultPos)
    (c1 : List (RxView × Int)) (rx1 : Option (RxView × Int)) (c2 : List (RxView × Int)) (rx2 : Option (RxView × Int))
    (hv : evOkC (.uplinkC cc data fport conf fault c1 rx1 c2 rx2) = true) (out : OutC)
    (h : stepC g (m, rs) (.uplinkC cc data fport conf fault c1 rx1 c2 rx2) = .ok ((m', rs'), out)) :
    ∃ so m1, macSend g m data fport conf rs = .ok (some so, m1, rs') ∧
      so.frame = descOf s m.cfg m.region.id data fport conf ∧ m1.st = .joined (sentSession s conf) ∧ m1.cfg = m.cfg ∧
      m1.region.id = m.region.id ∧
      out = { out := .up so (upRefC cc s.fcntDown conf (rxcMp m) fault c1 rx1 c2 rx2 so).resp
                              (upRefC cc s.fcntDown conf (rxcMp m) fault c1 rx1 c2 rx2 so).dl,
              heard := (upRefC cc s.fcntDown conf (rxcMp m) fault c1 rx1 c2 rx2 so).heard } ∧
      Acts m1 (upRefC cc s.fcntDown conf (rxcMp m) fault c1 rx1 c2 rx2 so).acts m' ∧
      ∃ s', m'.st = .joined s' ∧ stOf s' = (upRefC cc s.fcntDown conf (rxcMp m) fault c1 rx1 c2 rx2 so).st ∧
        LastOk s'.fcntDown := by
  simp only [evOkC, Bool.and_eq_true] at hv
  obtain ⟨⟨⟨hv1, hf1⟩, hv2⟩, hf2⟩ := hv
  unfold stepC at h
  simp only at h
  obtain ⟨⟨o, m1, rs1⟩, hsend, h⟩ := Except.bind_eq_ok h
  obtain ⟨dr, tx, region', pw, r1, r2, _, _, hsel, hm1, _, ho⟩ := macSend_joined g m s hst data fport conf rs rs1 o m1 hsend
  subst ho
  have hst1 : m1.st = .joined (sentSession s conf) := by rw [hm1]
  have hcfg1 : m1.cfg = m.cfg := by rw [hm1]
  have hid1 : m1.region.id = m.region.id := by rw [hm1]; exact selectTxChannel_id g m.region region' dr .data rs rs1 tx hsel
  have hl1 : LastOk (sentSession s conf).fcntDown := hl
  simp only at h
  obtain ⟨⟨fin, heard, m2⟩, hcy, h⟩ := Except.bind_eq_ok h
  obtain ⟨hfin, hheard, hacts, s2, hst2, hp2, hl2, hcf2⟩ :=
    cycleC_joined cc m1 _ hst1 hl1 fault c1 rx1 c2 rx2 _ _ hv1 hf1 hv2 hf2 fin heard m2 hcy
  rw [rxcMp_congr m m1 hcfg1 hid1] at hfin hheard hacts hp2
  have hsc : (sentSession s conf).confirmed = conf := rfl
  have hso : stOf (sentSession s conf) = ⟨s.fcntDown, s.fcntUp⟩ := rfl
  rw [hsc, hso] at hfin hheard hacts hp2
  have hrs : rs1 = rs' := by
    cases fin <;> simp only [pure, Except.pure, Except.ok.injEq, Prod.mk.injEq] at h <;> exact h.1.2
  subst hrs
  refine ⟨{ tx := { pw := pw, rf := rfOf tx.datarate tx.frequency, rx1 := r1, rx2 := r2 },
            frame := descOf s m.cfg m.region.id data fport conf }, m1, hsend, rfl, hst1, hcfg1, hid1, ?_⟩
  have hfc : (descOf s m.cfg m.region.id data fport conf).fcnt = s.fcntUp := rfl
  unfold upRefC refUplink
  simp only [hfc]
  obtain ⟨c, hc⟩ : ∃ c, refCycle cc ⟨s.fcntDown, s.fcntUp⟩ conf (rxcMp m) fault c1 rx1 c2 rx2 r1.maxPayload.toNat r2.maxPayload.toNat = c :=
    ⟨_, rfl⟩
  simp only [hc] at hfin hheard hacts hp2 ⊢
  subst hheard
  have hfu2 : c.st.fu = s2.fcntUp := by rw [← hp2]; rfl
  have hfd2 : c.st.last = s2.fcntDown := by rw [← hp2]; rfl
  cases hf : c.fin with
  | resp ro =>
    rw [hf] at hfin; subst hfin
    simp only [pure, Except.pure, Except.ok.injEq, Prod.mk.injEq] at h ⊢
    obtain ⟨⟨rfl, _⟩, rfl⟩ := h
    exact ⟨rfl, hacts, s2, hst2, hp2, hl2⟩
  | complete =>
    rw [hf] at hfin; subst hfin
    simp only [pure, Except.pure, Except.ok.injEq, Prod.mk.injEq] at h ⊢
    obtain ⟨⟨rfl, _⟩, rfl⟩ := h
    obtain ⟨s3, hst3, hfd3, hfu3, _, _, _, _⟩ := timeoutState_session m2 s2 hst2
    refine ⟨?_, hacts.append (Acts.tmo1 m2), s3, hst3, ?_, by rw [hfd3]; exact hl2⟩
    · rw [macRx2Complete_resp m2 s2 hst2, hfu2, hcf2, hsc]
    · simp only [stOf, hfd3, hfu3, hfd2, hfu2]
  | cut =>
    rw [hf] at hfin; subst hfin
    simp only [pure, Except.pure, Except.ok.injEq, Prod.mk.injEq] at h ⊢
    obtain ⟨⟨rfl, _⟩, rfl⟩ := h
    obtain ⟨s3, hst3, hfd3, hfu3, _, _, _, _⟩ := timeoutState_session m2 s2 hst2
    refine ⟨?_, hacts.append (Acts.tmo1 m2), s3, hst3, ?_, by rw [hfd3]; exact hl2⟩
    · rw [faultExpired_eq m2 s2 hst2, hfu2]
      by_cases hx : s2.fcntUp = 0xFFFFFFFF <;> simp [hx]
    · simp only [stOf, hfd3, hfu3, hfd2, hfu2]

theorem stepC_uplinkC_notJoined {σ} (g : Rng σ) (m m' : MacState) (rs rs' : σ) (hst : ∀ s, m.st ≠ .joined s)
    (cc : Bool) (data : List Nat) (fport : Nat) (conf : Bool) (fault : Option FaultPos)
    (c1 : List (RxView × Int)) (rx1 : Option (RxView × Int)) (c2 : List (RxView × Int)) (rx2 : Option (RxView × Int)) (out : OutC)
    (h : stepC g (m, rs) (.uplinkC cc data fport conf fault c1 rx1 c2 rx2) = .ok ((m', rs'), out)) :
    m' = m ∧ rs' = rs ∧ out = { out := .notJoined } := by
  unfold stepC at h
  simp only [macSend_notJoined g m hst, bind, Except.bind, pure, Except.pure, Except.ok.injEq, Prod.mk.injEq] at h
  obtain ⟨⟨rfl, rfl⟩, rfl⟩ := h
  exact ⟨rfl, rfl, rfl⟩

theorem stepC_base {σ} (g : Rng σ) (ms ms' : MacState × σ) (e : Ev) (out : OutC)
    (h : stepC g ms (.base e) = .ok (ms', out)) : step g ms e = .ok (ms', out.out) ∧ out.heard = [] := by
  simp only [stepC] at h
  obtain ⟨⟨ms1, o⟩, hs, h⟩ := Except.bind_eq_ok h
  simp only [pure, Except.pure, Except.ok.injEq, Prod.mk.injEq] at h
  obtain ⟨rfl, rfl⟩ := h
  exact ⟨hs, rfl⟩

/-! ## a device that is joining: frames heard on the RXC parameters change nothing

`Mac::handle_rxc` answers `Err(NotJoined)` while there is no session; `between_windows` takes that as
`NoUpdate` and goes on listening (repair C07-join-aborted-by-rxc-frame: it used to propagate the error,
so that one stray frame aborted the join). -/

/-- what a window reports for an accepted JoinAccept -/
def jsOut : RxOut := { resp := .joinSuccess, downlink := none }

/-- whatever a device without a session hears on the RXC parameters: no report, no change -/
theorem rxcs_notJoined (m : MacState) (hst : ∀ s, m.st ≠ .joined s) (mp : Nat) (cs : List (RxView × Int)) :
    rxcs m mp cs = .ok ([], true, m) := by
  induction cs with
  | nil => rfl
  | cons c rest ih =>
    obtain ⟨v, snr⟩ := c
    unfold rxcs
    rw [macHandleRxc_notJoined m hst v mp snr]
    simp only [bind, Except.bind, pure, Except.pure]
    exact ih

theorem between_notJoined (cc : Bool) (m : MacState) (hst : ∀ s, m.st ≠ .joined s) (cs : List (RxView × Int))
    (os : List RxOut) (fin : Bool) (m1 : MacState) (h : between cc m cs = .ok (os, fin, m1)) :
    os = [] ∧ m1 = m ∧ fin = true := by
  unfold between at h
  cases cc with
  | false =>
    simp only [Bool.false_eq_true, if_false, pure, Except.pure, Except.ok.injEq, Prod.mk.injEq] at h
    obtain ⟨rfl, rfl, rfl⟩ := h
    exact ⟨rfl, rfl, rfl⟩
  | true =>
    simp only [if_true] at h
    obtain ⟨rf, _, h⟩ := Except.bind_eq_ok h
    rw [rxcs_notJoined m hst] at h
    simp only [Except.ok.injEq, Prod.mk.injEq] at h
    obtain ⟨rfl, rfl, rfl⟩ := h
    exact ⟨rfl, rfl, rfl⟩

/-- the frames heard on the RXC parameters by a device without a session do not matter at all -/
theorem between_notJoined_eq (cc : Bool) (m : MacState) (hst : ∀ s, m.st ≠ .joined s) (cs cs' : List (RxView × Int)) :
    between cc m cs = between cc m cs' := by
  unfold between
  cases cc with
  | false => rfl
  | true => simp only [if_true, rxcs_notJoined m hst]

theorem winC_otaa (cc : Bool) (m : MacState) (o : OtaaState) (hst : m.st = .otaa o) (cs : List (RxView × Int))
    (f : Option (RxView × Int)) (mp : Nat) (eb ea : Bool) (r : Option (Option RxOut)) (os : List RxOut) (m' : MacState)
    (h : winC cc m cs f mp eb ea = .ok (r, os, m')) :
    if eb = true then r = none ∧ os = [] ∧ m' = m
    else match joinAcc f with
      | some j => otaaAccept m j = .ok m' ∧ r = (if ea then none else some (some jsOut)) ∧ os = [jsOut]
      | none => m' = m ∧ r = (if ea then none else some none) ∧ os = [] := by
  unfold winC at h
  obtain ⟨⟨os1, fin, m1⟩, hb, h⟩ := Except.bind_eq_ok h
  obtain ⟨hos, hm1, hfin⟩ := between_notJoined cc m (fun s hs => by rw [hst] at hs; cases hs) cs os1 fin m1 hb
  subst hos hfin
  have hm1' := hm1.symm
  subst hm1'
  simp only [Bool.not_true, Bool.false_or] at h
  by_cases hcut : eb = true
  · simp only [hcut, if_true, pure, Except.pure, Except.ok.injEq, Prod.mk.injEq] at h ⊢
    exact ⟨h.1.symm, h.2.1.symm, h.2.2.symm⟩
  · simp only [hcut, Bool.false_eq_true, if_false] at h ⊢
    obtain ⟨⟨wo, m2⟩, hw, h⟩ := Except.bind_eq_ok h
    obtain ⟨_, _, h⟩ := Except.bind_eq_ok h
    rw [window_otaa m o hst f mp] at hw
    cases hj : joinAcc f with
    | some j =>
      simp only [hj] at hw ⊢
      obtain ⟨m3, hacc, hw⟩ := Except.bind_eq_ok hw
      simp only [pure, Except.pure, Except.ok.injEq, Prod.mk.injEq] at hw
      obtain ⟨rfl, rfl⟩ := hw
      cases ea <;> simp only [if_true, if_false, Bool.false_eq_true, pure, Except.pure, Except.ok.injEq, Prod.mk.injEq] at h ⊢ <;>
        exact ⟨by rw [← h.2.2]; exact hacc, h.1.symm, h.2.1.symm⟩
    | none =>
      simp only [hj, pure, Except.pure, Except.ok.injEq, Prod.mk.injEq] at hw ⊢
      obtain ⟨rfl, rfl⟩ := hw
      cases ea <;> simp only [if_true, if_false, Bool.false_eq_true, pure, Except.pure, Except.ok.injEq, Prod.mk.injEq] at h ⊢ <;>
        exact ⟨h.2.2.symm, h.1.symm, h.2.1.symm⟩

/-- **the fault position, in the terms of `Model/History.lean`, of a join procedure of the async
front-end**: the number of windows served before a radio fault cut it; `none` if it ran to its end (or
RX1 produced the response before the fault was reached) -/
def joinFaultC (fault : Option FaultPos) (rx1 : Option (RxView × Int)) : Option Nat :=
  if fault = some .tx then some 0
  else if fault = some .before1 then some 0
  else if fault = some .close1 then some 1
  else if (joinAcc rx1).isSome then none
  else if fault = some .before2 then some 1
  else if fault = some .close2 then some 2
  else none

theorem cycleC_otaa (cc : Bool) (m : MacState) (o : OtaaState) (hst : m.st = .otaa o) (fault : Option FaultPos)
    (c1 : List (RxView × Int)) (rx1 : Option (RxView × Int)) (c2 : List (RxView × Int)) (rx2 : Option (RxView × Int))
    (mp1 mp2 : Nat) (fin : ProcEnd) (heard : List RxOut) (m' : MacState)
    (h : cycleC cc m fault c1 rx1 c2 rx2 mp1 mp2 = .ok (fin, heard, m')) :
    (match joinRes (joinFaultC fault rx1) rx1 rx2 with
     | some j => otaaAccept m j = .ok m' ∧ heard = [jsOut]
     | none => m' = m ∧ heard = []) ∧
    fin = (if (joinFaultC fault rx1).isSome then .cut
           else match joinRes (joinFaultC fault rx1) rx1 rx2 with
             | some _ => .resp jsOut
             | none => .complete) := by
  unfold cycleC at h
  unfold joinFaultC
  by_cases htx : fault = some .tx
  · simp only [htx, if_true, pure, Except.pure, Except.ok.injEq, Prod.mk.injEq] at h ⊢
    obtain ⟨rfl, rfl, rfl⟩ := h
    simp [joinRes, specJoinFaulted]
  · simp only [htx, if_false] at h ⊢
    obtain ⟨⟨r1, h1, ma⟩, hw1, hk⟩ := Except.bind_eq_ok h
    clear h
    have hw := winC_otaa cc m o hst c1 rx1 mp1 _ _ r1 h1 ma hw1
    by_cases hcut1 : fault = some .before1
    · subst hcut1
      simp only [beq_self_eq_true, if_true] at hw ⊢
      obtain ⟨rfl, rfl, rfl⟩ := hw
      simp only [pure, Except.pure, Except.ok.injEq, Prod.mk.injEq] at hk
      obtain ⟨rfl, rfl, rfl⟩ := hk
      simp [joinRes, specJoinFaulted]
    · have heb1 : (fault == some .before1) = false := by simpa using hcut1
      simp only [heb1, Bool.false_eq_true, if_false, hcut1] at hw ⊢
      by_cases hc1 : fault = some .close1
      · subst hc1
        simp only [beq_self_eq_true, if_true] at hw ⊢
        cases hj : joinAcc rx1 with
        | some j =>
          simp only [hj] at hw
          obtain ⟨hacc, rfl, rfl⟩ := hw
          simp only [pure, Except.pure, Except.ok.injEq, Prod.mk.injEq] at hk
          obtain ⟨rfl, rfl, rfl⟩ := hk
          simp [joinRes, specJoinFaulted, hj, hacc]
        | none =>
          simp only [hj] at hw
          obtain ⟨rfl, rfl, rfl⟩ := hw
          simp only [pure, Except.pure, Except.ok.injEq, Prod.mk.injEq] at hk
          obtain ⟨rfl, rfl, rfl⟩ := hk
          simp [joinRes, specJoinFaulted, hj]
      · have hea1 : (fault == some .close1) = false := by simpa using hc1
        simp only [hea1, Bool.false_eq_true, if_false, hc1] at hw ⊢
        cases hj : joinAcc rx1 with
        | some j =>
          simp only [hj] at hw
          obtain ⟨hacc, rfl, rfl⟩ := hw
          simp only [pure, Except.pure, Except.ok.injEq, Prod.mk.injEq] at hk
          obtain ⟨rfl, rfl, rfl⟩ := hk
          simp [joinRes, specJoin, hj, hacc]
        | none =>
          simp only [hj] at hw
          obtain ⟨rfl, rfl, rfl⟩ := hw
          simp only [Option.isSome_none, Bool.false_eq_true, if_false] at hk ⊢
          obtain ⟨⟨r2, h2, mb⟩, hw2, hk2⟩ := Except.bind_eq_ok hk
          clear hk
          have hw' := winC_otaa cc ma o hst c2 rx2 mp2 _ _ r2 h2 mb hw2
          by_cases hcut2 : fault = some .before2
          · subst hcut2
            simp only [beq_self_eq_true, if_true] at hw' ⊢
            obtain ⟨rfl, rfl, rfl⟩ := hw'
            simp only [pure, Except.pure, Except.ok.injEq, Prod.mk.injEq] at hk2
            obtain ⟨rfl, rfl, rfl⟩ := hk2
            simp [joinRes, specJoinFaulted, hj]
          · have heb2 : (fault == some .before2) = false := by simpa using hcut2
            simp only [heb2, Bool.false_eq_true, if_false, hcut2] at hw' ⊢
            by_cases hc2 : fault = some .close2
            · subst hc2
              simp only [beq_self_eq_true, if_true] at hw' ⊢
              cases hj2 : joinAcc rx2 with
              | some j =>
                simp only [hj2] at hw'
                obtain ⟨hacc, rfl, rfl⟩ := hw'
                simp only [pure, Except.pure, Except.ok.injEq, Prod.mk.injEq] at hk2
                obtain ⟨rfl, rfl, rfl⟩ := hk2
                simp [joinRes, specJoinFaulted, specJoin, hj, hj2, hacc]
              | none =>
                simp only [hj2] at hw'
                obtain ⟨rfl, rfl, rfl⟩ := hw'
                simp only [pure, Except.pure, Except.ok.injEq, Prod.mk.injEq] at hk2
                obtain ⟨rfl, rfl, rfl⟩ := hk2
                simp [joinRes, specJoinFaulted, specJoin, hj, hj2]
            · have hea2 : (fault == some .close2) = false := by simpa using hc2
              simp only [hea2, Bool.false_eq_true, if_false, hc2] at hw' ⊢
              cases hj2 : joinAcc rx2 with
              | some j =>
                simp only [hj2] at hw'
                obtain ⟨hacc, rfl, rfl⟩ := hw'
                simp only [pure, Except.pure, Except.ok.injEq, Prod.mk.injEq] at hk2
                obtain ⟨rfl, rfl, rfl⟩ := hk2
                simp [joinRes, specJoin, hj, hj2, hacc]
              | none =>
                simp only [hj2] at hw'
                obtain ⟨rfl, rfl, rfl⟩ := hw'
                simp only [pure, Except.pure, Except.ok.injEq, Prod.mk.injEq] at hk2
                obtain ⟨rfl, rfl, rfl⟩ := hk2
                simp [joinRes, specJoin, hj, hj2]

/-- the plain event a join procedure of the async front-end amounts to: the frames heard on the RXC
parameters between the windows play no part -/
def joinPlain (fault : Option FaultPos) (rx1 rx2 : Option (RxView × Int)) : Ev :=
  .joinOtaa (joinFaultC fault rx1) rx1 rx2 0 0

/-- **`join` + receive procedure of the async front-end (both classes) IS the plain `joinOtaa` with
the fault position `joinFaultC`**: same state, same generator state, same output; every frame handled
reported `JoinSuccess` or nothing -/
theorem stepC_joinC_plain {σ} (g : Rng σ) (ms ms' : MacState × σ) (cc : Bool) (fault : Option FaultPos)
    (c1 : List (RxView × Int)) (rx1 : Option (RxView × Int)) (c2 : List (RxView × Int)) (rx2 : Option (RxView × Int)) (oc : OutC)
    (h : stepC g ms (.joinC cc fault c1 rx1 c2 rx2) = .ok (ms', oc)) :
    step g ms (joinPlain fault rx1 rx2) = .ok (ms', oc.out) ∧
      oc.heard = (match joinRes (joinFaultC fault rx1) rx1 rx2 with | some _ => [jsOut] | none => []) := by
  obtain ⟨m, s⟩ := ms
  simp only [stepC] at h
  obtain ⟨⟨o, m1, s1⟩, hjoin, h⟩ := Except.bind_eq_ok h
  obtain ⟨dr, tx, region', pw, r1, r2, _, _, hm1, _, _⟩ := macJoinOtaa_ok g m s s1 o m1 hjoin
  have hst1 : m1.st = .otaa { devNonce := (draw g s).1 % 65536 } := by rw [hm1]
  obtain ⟨⟨fin, heard, m2⟩, hcy, h⟩ := Except.bind_eq_ok h
  obtain ⟨hres, hfin⟩ := cycleC_otaa cc m1 _ hst1 fault c1 rx1 c2 rx2 _ _ fin heard m2 hcy
  unfold joinPlain step
  simp only [hjoin, bind, Except.bind]
  cases hk : joinFaultC fault rx1 with
  | some k =>
    simp only [hk, Option.isSome_some, if_true] at hres hfin ⊢
    subst hfin
    simp only [pure, Except.pure, Except.ok.injEq, Prod.mk.injEq] at h
    obtain ⟨rfl, rfl⟩ := h
    rw [faultedCycle_otaa m1 _ hst1 k rx1 rx2 0 0]
    simp only [joinRes] at hres ⊢
    cases hj : specJoinFaulted k rx1 rx2 with
    | some j =>
      simp only [hj] at hres ⊢
      simp only [hres.1, pure, Except.pure, hres.2, and_self]
    | none =>
      simp only [hj] at hres ⊢
      obtain ⟨rfl, rfl⟩ := hres
      simp only [pure, Except.pure, and_self]
  | none =>
    simp only [hk, Option.isSome_none, Bool.false_eq_true, if_false] at hres hfin ⊢
    rw [classACycle_otaa m1 _ hst1 rx1 rx2 0 0]
    simp only [joinRes] at hres hfin ⊢
    cases hj : specJoin rx1 rx2 with
    | some j =>
      simp only [hj] at hres hfin ⊢
      subst hfin
      simp only [pure, Except.pure, Except.ok.injEq, Prod.mk.injEq] at h
      obtain ⟨rfl, rfl⟩ := h
      simp only [hres.1, bind, Except.bind, pure, Except.pure, hres.2, jsOut, and_self]
    | none =>
      simp only [hj] at hres hfin ⊢
      subst hfin
      obtain ⟨rfl, rfl⟩ := hres
      simp only [pure, Except.pure, Except.ok.injEq, Prod.mk.injEq] at h
      obtain ⟨rfl, rfl⟩ := h
      simp only [macRx2Complete, hst1, pure, Except.pure, and_self]

end Model
