import LoraVerif.Lemmas.PhyCfg
/-!
# The SX127x `RadioKind` model satisfies `OpsSpec` (C14)

The SX127x answers SPI in sleep mode (only the FIFO is inaccessible) and has no wake-up command:
`ensure_ready` is a no-op and "ready" is `True`.  The LoRa bit of RegOpMode (the tracker's
`packetType`) is written by every mode change, so `set_standby` leaves it programmed (`sb`).
-/
namespace Model.Phy

/-! ## SX127x tracker steps -/
section
variable {n : Needs}

theorem spiStep127 (t : ChipTrack) (w : Bytes) : spiStep .sx127x n t w = step127 n t w := rfl

/-- neither the FIFO nor RegOpMode -/
def benign127 (a0 : UInt8) : Bool := a0.toNat % 128 != 0 && a0.toNat % 128 != 1

/-- the item a register write programs -/
def gain127 (a0 : UInt8) : Items :=
  if a0.toNat < 128 then {} else
  match a0.toNat % 128 with
  | 0x39 => { syncWord := true }
  | 0x0e => { bufferBase := true }
  | 0x1d => { modulation := true }
  | 0x20 => { packet := true }
  | 0x11 => { irq := true }
  | 0x06 => { frequency := true }
  | 0x09 => { pa := true }
  | _ => {}

theorem step127_benign {t : ChipTrack} (hc : Clean t) (a0 : UInt8) (args : Bytes) (hb : benign127 a0 = true) :
    Ext t (spiStep .sx127x n t (a0 :: args)) ∧ (gain127 a0).le (spiStep .sx127x n t (a0 :: args)).items := by
  rw [spiStep127]
  obtain ⟨c1, c2⟩ := hc
  simp only [benign127, Bool.and_eq_true, bne_iff_ne, ne_eq] at hb
  unfold step127 gain127
  simp only [hb.1, false_and, if_false]
  by_cases hr : a0.toNat < 128
  · simp [hr, Ext, Clean, NNS, c1, c2, Items.le_refl, Items.none_le]
  · simp only [hr, if_false]
    split <;> simp_all [Ext, Clean, NNS, Items.le]

/-- a register read, or a write to a register the tracker does not follow -/
def plain127 (a0 : UInt8) : Bool :=
  a0.toNat % 128 != 0 &&
  (a0.toNat < 128 ||
    (a0.toNat % 128 != 1 && a0.toNat % 128 != 0x39 && a0.toNat % 128 != 0x0e && a0.toNat % 128 != 0x1d &&
     a0.toNat % 128 != 0x20 && a0.toNat % 128 != 0x11 && a0.toNat % 128 != 0x06 && a0.toNat % 128 != 0x09))

theorem step127_plain (t : ChipTrack) (a0 : UInt8) (args : Bytes) (hb : plain127 a0 = true) :
    spiStep .sx127x n t (a0 :: args) = t := by
  rw [spiStep127]
  simp only [plain127, Bool.and_eq_true, Bool.or_eq_true, bne_iff_ne, ne_eq, decide_eq_true_eq] at hb
  unfold step127
  simp only [hb.1, false_and, if_false]
  by_cases hr : a0.toNat < 128
  · simp [hr]
  · simp only [hr, if_false]
    have h2 := hb.2.resolve_left hr
    split <;> simp_all

/-- FIFO access on a chip that is not in sleep mode -/
theorem step127_fifo (t : ChipTrack) (h : t.mode ≠ .sleep) (a0 : UInt8) (args : Bytes) (ha : a0.toNat % 128 = 0) :
    spiStep .sx127x n t (a0 :: args) = t := by
  rw [spiStep127]
  unfold step127
  simp only [ha, h, and_false, if_false]
  by_cases hr : a0.toNat < 128
  · simp [hr]
  · simp only [hr, if_false]

/-- a write of RegOpMode with the LoRa bit set -/
theorem step127_opmode (t : ChipTrack) (v : UInt8) (hv : v.toNat ≥ 128) :
    spiStep .sx127x n t [0x81, v] =
      (let t1 : ChipTrack := { t with items := { t.items with packetType := true } }
       if v.toNat % 8 = 0 then { t1 with mode := .sleep }
       else if v.toNat % 8 = 1 then { t1 with mode := .standby }
       else if v.toNat % 8 = 3 then start t1 .tx n.tx
       else if v.toNat % 8 = 5 then start t1 .rx n.rx
       else if v.toNat % 8 = 6 then start t1 .rx n.rx
       else if v.toNat % 8 = 7 then start t1 .cad n.cad
       else t1) := by
  rw [spiStep127]
  simp +decide [step127, hv]

end

namespace Sx127x
open Gen.PhyCodes127

variable {n : Needs}

theorem cfg_write (r : Register) (v : UInt8) (hb : benign127 (wr r) = true) :
    Cfg .sx127x n (writeRegister r v) (gain127 (wr r)) :=
  cfg_of_step fun _ hc _ => step127_benign hc _ _ hb

theorem cfg_read (r : Register) (hb : benign127 (rd r) = true) : Cfg .sx127x n (readRegister r) {} :=
  Cfg.bind0 (cfg_of_step_read fun _ hc _ => (step127_benign hc _ _ hb).1) fun _ => Cfg.pure _

theorem cfg_errOr {α : Type} (e : RadioError) (he : Abort.infra (.err e)) (o : Option α) : Cfg .sx127x n (errOr e o) {} := by
  cases o
  · exact Cfg.fail _ _ he
  · exact Cfg.pure _

/-- walk through a straight-line configuration program -/
macro "cfg127" : tactic => `(tactic|
  repeat (first
    | (with_reducible (show benign127 _ = true)); decide
    | (with_reducible (show Items.le _ _)); decide
    | with_reducible exact Cfg.weaken (Cfg.pure _) (by decide)
    | with_reducible exact Cfg.fail _ _ rfl
    | with_reducible exact Cfg.panic _ _
    | with_reducible refine Cfg.weaken (cfg_write _ _ ?_) ?_
    | with_reducible refine Cfg.step (cfg_write _ _ ?_) (fun _ => ?_)
    | with_reducible refine Cfg.step (cfg_read _ ?_) (fun _ => ?_)
    | with_reducible refine Cfg.step (cfg_errOr _ rfl _) (fun _ => ?_)
    | split))

theorem cfg_setTxRxBufferBaseAddress (tx rx : Nat) : Cfg .sx127x n (setTxRxBufferBaseAddress tx rx) { bufferBase := true } := by
  unfold setTxRxBufferBaseAddress
  cfg127

theorem cfg_initLora (cfg : Config) (d : Data) (sw : Nat) :
    Cfg .sx127x n (initLora cfg d sw) { syncWord := true, bufferBase := true } := by
  unfold initLora
  dsimp only
  refine Cfg.step (cfg_errOr _ rfl _) fun _ => ?_
  have tail : Cfg .sx127x n (do
      writeRegister Register.RegSyncWord ‹UInt8›
      setTxRxBufferBaseAddress 0 0
      match cfg.chip with
        | Variant.sx1276 => do
          let v ← readRegister Register.RegVersion
          pure { sensitivityQuirk := v == 18 }
        | Variant.sx1272 => pure d) { syncWord := true, bufferBase := true } := by
    refine Cfg.step (cfg_write _ _ (by decide)) fun _ => ?_
    refine Cfg.step (cfg_setTxRxBufferBaseAddress 0 0) fun _ => ?_
    split
    · exact Cfg.weaken (Cfg.bind0 (cfg_read _ (by decide)) fun _ => Cfg.pure _) (by decide)
    · exact Cfg.weaken (Cfg.pure _) (by decide)
  split
  · refine Cfg.step (g1 := {}) ?_ fun _ => tail.weaken (by decide)
    cases cfg.chip <;> exact (cfg_write _ _ (by decide)).zero
  · exact tail

theorem cfg_setLoraSyncWord (w : Nat) : Cfg .sx127x n (setLoraSyncWord w) {} := by
  unfold setLoraSyncWord
  cfg127

theorem cfg_setOcp (t : OcpTrim) : Cfg .sx127x n (setOcp t) {} := (cfg_write _ _ (by decide)).zero

theorem cfg_setTxPower (cfg : Config) (p : Int) : Cfg .sx127x n (setTxPower cfg p) { pa := true } := by
  unfold setTxPower
  dsimp only
  repeat (first
    | (with_reducible (show benign127 _ = true)); decide
    | (with_reducible (show Items.le _ _)); decide
    | with_reducible refine Cfg.weaken (cfg_write _ _ ?_) ?_
    | with_reducible refine Cfg.step (cfg_write _ _ ?_) (fun _ => ?_)
    | with_reducible refine Cfg.step (cfg_setOcp _) (fun _ => ?_)
    | split)

theorem cfg_setTxPowerAndRampTime (cfg : Config) (p : Int) (b : Bool) :
    Cfg .sx127x n (setTxPowerAndRampTime cfg p b) { pa := true } := by
  unfold setTxPowerAndRampTime
  exact Cfg.bind_l (cfg_setTxPower cfg p) fun _ => (cfg_write _ _ (by decide)).zero

theorem cfg_clearIrqStatus : Cfg .sx127x n clearIrqStatus {} := (cfg_write _ _ (by decide)).zero

theorem cfg_setIrqParams (m : Option RadioMode) : Cfg .sx127x n (setIrqParams m) { irq := true } := by
  unfold setIrqParams
  refine Cfg.bind_r cfg_clearIrqStatus fun _ => ?_
  cfg127

theorem cfg_variantSetModulationParams (cfg : Config) (d : Data) (m : ModulationParams) :
    Cfg .sx127x n (variantSetModulationParams cfg d m) { modulation := true } := by
  unfold variantSetModulationParams
  split
  · refine Cfg.bind_r (cfg_errOr _ rfl _) fun bw => ?_
    refine Cfg.bind_r (cfg_errOr _ rfl _) fun sf => ?_
    refine Cfg.bind_r (cfg_errOr _ rfl _) fun crd => ?_
    refine Cfg.bind_r (cfg_read _ (by decide)) fun c2 => ?_
    refine Cfg.bind_r (cfg_write _ _ (by decide)).zero fun _ => ?_
    refine Cfg.bind_r (cfg_read _ (by decide)) fun c1 => ?_
    refine Cfg.bind_l (cfg_write _ _ (by decide)) fun _ => ?_
    refine Cfg.bind0 (cfg_read _ (by decide)) fun c1' => ?_
    refine Cfg.bind0 (cfg_write _ _ (by decide)).zero fun _ => ?_
    refine Cfg.bind0 (cfg_read _ (by decide)) fun c3 => ?_
    refine Cfg.bind0 (cfg_write _ _ (by decide)).zero fun _ => ?_
    have jp : Cfg .sx127x n (do
        let det ← readRegister Register.RegDetectionOptimize
        if m.bw = Bandwidth._500KHz then writeRegister Register.RegDetectionOptimize (det ||| 128)
          else
            if hzOf m.bw ≥ 62500 then do
              writeRegister Register.RegDetectionOptimize (det &&& 127)
              writeRegister Register.RegIfFreq1 64
              writeRegister Register.RegIfFreq2 0
            else pure ()) {} := by
      refine Cfg.bind0 (cfg_read _ (by decide)) fun det => ?_
      split
      · exact (cfg_write _ _ (by decide)).zero
      · split
        · exact Cfg.bind0 (cfg_write _ _ (by decide)).zero fun _ =>
            Cfg.bind0 (cfg_write _ _ (by decide)).zero fun _ => (cfg_write _ _ (by decide)).zero
        · exact Cfg.pure _
    dsimp only
    split
    · split
      · exact Cfg.bind0 (cfg_write _ _ (by decide)).zero fun _ => Cfg.bind0 (cfg_write _ _ (by decide)).zero fun _ => jp
      · exact Cfg.bind0 (cfg_write _ _ (by decide)).zero fun _ => jp
    · exact jp
  · refine Cfg.bind_r (cfg_errOr _ rfl _) fun bw => ?_
    refine Cfg.bind_r (cfg_errOr _ rfl _) fun sf => ?_
    refine Cfg.bind_r (cfg_read _ (by decide)) fun c1 => ?_
    refine Cfg.bind_r (cfg_errOr _ rfl _) fun cr => ?_
    refine Cfg.bind_l (cfg_write _ _ (by decide)) fun _ => ?_
    exact Cfg.bind0 (cfg_read _ (by decide)) fun c2 => (cfg_write _ _ (by decide)).zero

theorem cfg_setModulationParams (cfg : Config) (d : Data) (m : ModulationParams) :
    Cfg .sx127x n (setModulationParams cfg d m) { modulation := true } := by
  unfold setModulationParams
  dsimp only
  refine Cfg.bind_r (cfg_errOr _ rfl _) fun _ => ?_
  refine Cfg.bind_r (cfg_errOr _ rfl _) fun _ => ?_
  refine Cfg.bind_r (cfg_errOr _ rfl _) fun _ => ?_
  refine Cfg.bind_r (cfg_read _ (by decide)) fun _ => ?_
  refine Cfg.bind_r (cfg_write _ _ (by decide)).zero fun _ => ?_
  refine Cfg.bind_r (cfg_write _ _ (by decide)).zero fun _ => ?_
  exact cfg_variantSetModulationParams cfg d m

theorem cfg_variantSetPacketParams (cfg : Config) (p : PacketParams) : Cfg .sx127x n (variantSetPacketParams cfg p) {} := by
  unfold variantSetPacketParams
  cfg127

theorem cfg_setPacketParams (cfg : Config) (p : PacketParams) : Cfg .sx127x n (setPacketParams cfg p) { packet := true } := by
  unfold setPacketParams
  dsimp only
  refine Cfg.bind_l (cfg_write _ _ (by decide)) fun _ => ?_
  refine Cfg.bind0 (cfg_write _ _ (by decide)).zero fun _ => ?_
  refine Cfg.bind0 (cfg_variantSetPacketParams cfg p) fun _ => ?_
  cfg127

theorem cfg_setChannel (f : Nat) : Cfg .sx127x n (setChannel f) { frequency := true } := by
  unfold setChannel
  dsimp only
  cfg127

theorem cfg_writeFifo (buf : Bytes) : Cfg .sx127x n (writeBuffer .RegFifo buf) {} :=
  cfg_of_step_payload fun t hc ha => by
    have hl : [wr Register.RegFifo] ++ buf = wr .RegFifo :: buf := rfl
    rw [hl, step127_fifo t ha.1 _ _ (by decide)]
    exact ⟨Ext.refl hc, Items.none_le _⟩

theorem cfg_setPayload (p : Bytes) : Cfg .sx127x n (setPayload p) {} := by
  unfold setPayload
  refine Cfg.bind0 (cfg_write _ _ (by decide)).zero fun _ => ?_
  refine Cfg.bind0 (cfg_write _ _ (by decide)).zero fun _ => ?_
  refine Cfg.bind0 (cfg_writeFifo p) fun _ => ?_
  exact (cfg_write _ _ (by decide)).zero

theorem cfg_setLoraSymbolNumTimeout (k : Nat) : Cfg .sx127x n (setLoraSymbolNumTimeout k) {} := by
  unfold setLoraSymbolNumTimeout
  dsimp only
  cfg127

/-! ### mode changes -/

theorem opSleep : byte (LoRaMode.value .Sleep) = 0x80 := by decide
theorem opStandby : byte (LoRaMode.value .Standby) = 0x81 := by decide
theorem opTx : byte (LoRaMode.value .Tx) = 0x83 := by decide
theorem opRxC : byte (LoRaMode.value .RxContinuous) = 0x85 := by decide
theorem opRxS : byte (LoRaMode.value .RxSingle) = 0x86 := by decide
theorem opCad : byte (LoRaMode.value .Cad) = 0x87 := by decide
theorem wrOpMode : wr .RegOpMode = 0x81 := by decide

theorem withPt_ext {t : ChipTrack} (hc : Clean t) : Ext t { t with items := { t.items with packetType := true } } :=
  ⟨hc, by simp [Items.le], fun h => h, fun h => h⟩

theorem setSleep_wp (t : ChipTrack) (hc : Clean t) :
    wp .sx127x n setSleep (fun _ t' => Clean t' ∧ t.items.le t'.items) (fun a t' => Ext t t' ∧ a.infra) t := by
  unfold setSleep
  show wp .sx127x n (Prog.bind _ _) _ _ t
  rw [wp_bind, wp_req_plain _ _ (Or.inr (Or.inr (Or.inr rfl)))]
  refine ⟨⟨Ext.refl hc, rfl⟩, ?_⟩
  rw [wp_intfWriteSleep, wrOpMode, opSleep, step127_opmode t _ (by decide)]
  refine ⟨⟨Ext.refl hc, rfl⟩, ?_⟩
  simp +decide [Clean, hc.1, hc.2, Items.le]

theorem reset_spec (t : ChipTrack) (hc : Clean t) :
    wp .sx127x n reset (fun _ t' => Clean t') (fun a t' => Clean t' ∧ a.infra) t := by
  unfold reset
  show wp .sx127x n (Prog.bind _ _) _ _ t
  rw [wp_bind, wp_reset]
  refine ⟨⟨hc, rfl⟩, ?_⟩
  have hc' : Clean { t with mode := .standby, items := {} } := hc
  exact wp_mono _ _ _ (setSleep_wp _ hc') (fun _ _ h => h.1) (fun _ _ h => ⟨h.1.clean, h.2⟩)

theorem setStandby_spec (t : ChipTrack) (hc : Clean t) :
    wp .sx127x n setStandby (fun _ t' => Ext t t' ∧ Aw t' ∧ t'.mode = .standby ∧ Items.le { packetType := true } t'.items)
      (fun a t' => Ext t t' ∧ a.infra) t := by
  unfold setStandby writeRegister
  show wp .sx127x n (Prog.bind _ _) _ _ t
  rw [wp_bind, wp_intfWrite, wrOpMode, opStandby, step127_opmode t _ (by decide)]
  have e : Ext t { t with items := { t.items with packetType := true }, mode := .standby } :=
    ⟨hc, by simp [Items.le], by simp [NNS]⟩
  simp only [show (129 : UInt8).toNat % 8 = 1 by decide]
  refine ⟨⟨Ext.refl hc, rfl⟩, ⟨e, rfl⟩, ?_⟩
  rw [wp_req_plain _ _ (Or.inr (Or.inr (Or.inr rfl)))]
  exact ⟨⟨e, rfl⟩, e, ⟨by simp, by simp⟩, rfl, by simp [Items.le]⟩

/-- a start on the SX127x: RegOpMode := LoRa | mode -/
theorem start127_ext {t : ChipTrack} (hc : Clean t) {m : ChipMode} {need : Items} (hn : need.le t.items)
    (hm : m ≠ .sleep ∧ m ≠ .rxDuty) :
    Ext t (start { t with items := { t.items with packetType := true } } m need) := by
  have e1 := withPt_ext hc
  exact e1.trans (start_ext e1.clean (e1.le hn) hm)
where
  start_ext {t : ChipTrack} (hc : Clean t) {m : ChipMode} {need : Items} (hn : need.le t.items)
      (hm : m ≠ .sleep ∧ m ≠ .rxDuty) : Ext t (start t m need) := by
    obtain ⟨c1, c2⟩ := hc
    have := (Items.covers_iff t.items need).2 hn
    exact ⟨⟨c1, by simp [start, c2, this]⟩, Items.le_refl _, fun h => absurd h hm.1, fun h => absurd h hm.2⟩

theorem doTx_spec (t : ChipTrack) (hc : Clean t) (_ha : Aw t) (hi : n.tx.le t.items) :
    wp .sx127x n doTx (fun _ t' => Ext t t') (fun a t' => Ext t t' ∧ a.infra) t := by
  unfold doTx writeRegister
  show wp .sx127x n (Prog.bind _ _) _ _ t
  rw [wp_bind, wp_req_plain _ _ (Or.inr (Or.inr (Or.inl rfl)))]
  refine ⟨⟨Ext.refl hc, rfl⟩, ?_⟩
  rw [wp_intfWrite, wrOpMode, opTx, step127_opmode t _ (by decide)]
  simp only [show (131 : UInt8).toNat % 8 = 3 by decide]
  have e := start127_ext hc hi (m := .tx) (by simp)
  exact ⟨⟨Ext.refl hc, rfl⟩, ⟨e, rfl⟩, e⟩

theorem doRx_spec (cfg : Config) (m : RxMode) (t : ChipTrack) (hc : Clean t) (hl : Link (.receive m) t) (hi : n.rx.le t.items) :
    wp .sx127x n (doRx cfg m) (fun _ t' => Clean t' ∧ t.items.le t'.items ∧ Link (.receive m) t')
      (fun a t' => (Clean t' ∧ t.items.le t'.items ∧ Link (.receive m) t') ∧ a.infra) t := by
  have ofExt : Aw t → ∀ t', Ext t t' → Clean t' ∧ t.items.le t'.items ∧ Link (.receive m) t' :=
    fun ha t' e => ⟨e.clean, e.items, Link.of_aw (e.aw ha)⟩
  have tail : ∀ (k : Nat) (v : UInt8), Aw t → byte (LoRaMode.value .RxSingle) = v ∨ byte (LoRaMode.value .RxContinuous) = v →
      wp .sx127x n (do
          Prog.req .rfRx
          setLoraSymbolNumTimeout k
          writeRegister .RegLna (lnaGain cfg)
          writeRegister .RegFifoAddrPtr 0
          clearIrqStatus
          writeRegister .RegOpMode v)
        (fun _ t' => Clean t' ∧ t.items.le t'.items ∧ Link (.receive m) t')
        (fun a t' => (Clean t' ∧ t.items.le t'.items ∧ Link (.receive m) t') ∧ a.infra) t := by
    intro k v ha hv
    refine wp_cfg_bind (cfg_plain (Or.inr (Or.inl rfl))) hc ha (fun _ t1 e1 _ => ?_) (fun a t' e h => ⟨ofExt ha _ e, h⟩)
    refine wp_cfg_bind (cfg_setLoraSymbolNumTimeout _) e1.clean (e1.aw ha) (fun _ t2 e2 _ => ?_)
      (fun a t' e h => ⟨ofExt ha _ (e1.trans e), h⟩)
    have e02 := e1.trans e2
    refine wp_cfg_bind (cfg_write _ _ (by decide)) e2.clean (e02.aw ha) (fun _ t3 e3 _ => ?_)
      (fun a t' e h => ⟨ofExt ha _ (e02.trans e), h⟩)
    have e03 := e02.trans e3
    refine wp_cfg_bind (cfg_write _ _ (by decide)) e3.clean (e03.aw ha) (fun _ t4 e4 _ => ?_)
      (fun a t' e h => ⟨ofExt ha _ (e03.trans e), h⟩)
    have e04 := e03.trans e4
    refine wp_cfg_bind cfg_clearIrqStatus e4.clean (e04.aw ha) (fun _ t5 e5 _ => ?_)
      (fun a t' e h => ⟨ofExt ha _ (e04.trans e), h⟩)
    have e05 := e04.trans e5
    unfold writeRegister
    rw [wp_intfWrite, wrOpMode]
    have e : Ext t (spiStep .sx127x n t5 [0x81, v]) := by
      rcases hv with hv | hv
      · rw [← hv, opRxS, step127_opmode t5 _ (by decide)]
        simp only [show (134 : UInt8).toNat % 8 = 6 by decide]
        exact e05.trans (start127_ext e5.clean (e05.le hi) (m := .rx) (by simp))
      · rw [← hv, opRxC, step127_opmode t5 _ (by decide)]
        simp only [show (133 : UInt8).toNat % 8 = 5 by decide]
        exact e05.trans (start127_ext e5.clean (e05.le hi) (m := .rx) (by simp))
    exact ⟨⟨ofExt ha _ e05, rfl⟩, ⟨ofExt ha _ e, rfl⟩, ofExt ha _ e⟩
  unfold doRx
  cases m with
  | dutyCycle a b => exact ⟨⟨hc, Items.le_refl _, hl⟩, rfl⟩
  | single k =>
    have ha : Aw t := ⟨fun hs => by have := hl.1 hs; simp at this, fun hs => by
      rcases hl.2 hs with h | h <;> simp [RadioMode.isDuty, RxMode.isDuty] at h⟩
    exact tail _ _ ha (Or.inl rfl)
  | continuous =>
    have ha : Aw t := ⟨fun hs => by have := hl.1 hs; simp at this, fun hs => by
      rcases hl.2 hs with h | h <;> simp [RadioMode.isDuty, RxMode.isDuty] at h⟩
    exact tail _ _ ha (Or.inr rfl)

theorem doCad_spec (cfg : Config) (t : ChipTrack) (hc : Clean t) (ha : Aw t) (hi : n.cad.le t.items) :
    wp .sx127x n (doCad cfg) (fun _ t' => Ext t t') (fun a t' => Ext t t' ∧ a.infra) t := by
  unfold doCad
  refine wp_cfg_bind (cfg_plain (Or.inr (Or.inl rfl))) hc ha (fun _ t1 e1 _ => ?_) (fun a t' e h => ⟨e, h⟩)
  refine wp_cfg_bind (cfg_write _ _ (by decide)) e1.clean (e1.aw ha) (fun _ t2 e2 _ => ?_) (fun a t' e h => ⟨e1.trans e, h⟩)
  have e02 := e1.trans e2
  unfold writeRegister
  rw [wp_intfWrite, wrOpMode, opCad, step127_opmode t2 _ (by decide)]
  simp only [show (135 : UInt8).toNat % 8 = 7 by decide]
  have e := e02.trans (start127_ext e2.clean (e02.le hi) (m := .cad) (by simp))
  exact ⟨⟨e02, rfl⟩, ⟨e, rfl⟩, e⟩

/-! ### interrupt servicing and packet read-out -/

section
variable {A : Abort → Prop} (hA : ∀ a, a.infra → A a)
include hA

theorem ro_read (r : Register) (t : ChipTrack) (hb : plain127 (rd r) = true) : RO .sx127x n A (readRegister r) t :=
  RO.bind (RO.read (step127_plain t _ _ hb) (hA _ rfl) (hA _ rfl)) fun _ => RO.pure _ _

theorem ro_write (r : Register) (v : UInt8) (t : ChipTrack) (hb : plain127 (wr r) = true) : RO .sx127x n A (writeRegister r v) t :=
  RO.write (step127_plain t _ _ hb) (hA _ rfl) (hA _ rfl)

theorem ro_getRxPayload (p : PacketParams) (b : Bytes) (t : ChipTrack) (h : t.mode ≠ .sleep) :
    RO .sx127x n A (getRxPayload p b) t := by
  unfold getRxPayload
  dsimp only
  have tail : ∀ k : Nat, RO .sx127x n A
      (if k > b.length then Prog.fail (RadioError.PayloadSizeMismatch k b.length)
       else do
        let addr ← readRegister .RegFifoRxCurrentAddr
        writeRegister .RegFifoAddrPtr addr
        let data ← intfRead [rd .RegFifo] k
        writeRegister .RegFifoAddrPtr 0
        pure (k, data ++ List.drop k b)) t := by
    intro k
    split
    · exact RO.fail _ _ (hA _ rfl)
    · refine RO.bind (ro_read hA _ t (by decide)) fun _ => ?_
      refine RO.bind (ro_write hA _ _ t (by decide)) fun _ => ?_
      refine RO.bind (RO.read (step127_fifo t h _ _ (by decide)) (hA _ rfl) (hA _ rfl)) fun _ => ?_
      exact RO.bind (ro_write hA _ _ t (by decide)) fun _ => RO.pure _ _
  split
  · exact RO.bind (RO.pure _ _) fun k => tail k
  · exact RO.bind (RO.bind (ro_read hA _ t (by decide)) fun _ => RO.pure _ _) fun k => tail k

theorem ro_rssiOffset (cfg : Config) (t : ChipTrack) : RO .sx127x n A (rssiOffset cfg) t := by
  unfold rssiOffset
  split
  · exact RO.pure _ _
  · refine RO.bind (ro_read hA _ t (by decide)) fun _ => ?_
    refine RO.bind (ro_read hA _ t (by decide)) fun _ => ?_
    exact RO.bind (ro_read hA _ t (by decide)) fun _ => RO.pure _ _

theorem ro_getRxPacketStatus (cfg : Config) (t : ChipTrack) :
    RO .sx127x n A (do let _ ← getRxPacketStatus cfg; pure ()) t := by
  unfold getRxPacketStatus
  dsimp only
  refine RO.bind ?_ fun _ => RO.pure _ _
  refine RO.bind (ro_read hA _ t (by decide)) fun _ => ?_
  refine RO.bind (ro_read hA _ t (by decide)) fun _ => ?_
  exact RO.bind (ro_rssiOffset hA cfg t) fun _ => RO.pure _ _

end

theorem decideIrq_noio (m : RadioMode) (c : Option Bool) (flags : UInt8) :
    (∃ v, decideIrq m c flags = .ret v) ∨ (∃ e, decideIrq m c flags = .fail e) ∨ (∃ s, decideIrq m c flags = .panic s) := by
  unfold decideIrq
  cases m with
  | receive rm => cases rm <;> simp only [] <;> (repeat' split) <;> simp [pure]
  | _ => simp only [] <;> (repeat' split) <;> simp [pure]

theorem ro_processIrqEvent (m : RadioMode) (c : Option Bool) (cl : Bool) (t : ChipTrack) :
    RO .sx127x n (fun _ => True) (processIrqEvent m c cl) t := by
  have hA : ∀ a : Abort, a.infra → (fun _ : Abort => True) a := fun _ _ => trivial
  unfold processIrqEvent
  dsimp only
  refine RO.bind ?_ fun st => ?_
  · unfold getIrqStateE
    refine RO.bind (RO.readE (step127_plain t _ _ (by decide))) fun r => ?_
    cases r with
    | error e => exact RO.pure _ _
    | ok v => exact RO.attempt_noio _ (decideIrq_noio _ _ _) trivial
  · have fin : RO .sx127x n (fun _ => True) (match st with | .ok v => pure v | .error e => Prog.fail e) t := by
      cases st
      · exact RO.fail _ _ trivial
      · exact RO.pure _ _
    split
    · exact RO.bind (ro_write hA _ _ t (by decide)) fun _ => fin
    · exact fin

/-! ### the SX127x satisfies `OpsSpec` -/

theorem opsSpec (cfg : Config) : OpsSpec .sx127x false false { packetType := true } (fun _ => True) (sx127xOps cfg) where
  rdy_of_aw := fun _ _ => trivial
  sb_le := by decide
  reset := reset_spec
  ensureReady := fun _ t hc _ => ⟨Ext.refl hc, trivial⟩
  setStandby := fun t hc _ => setStandby_spec t hc
  setSleep := fun _ t hc _ => wp_mono _ _ _ (setSleep_wp t hc) (fun _ _ h => ⟨h.1, fun _ => h.2⟩) (fun _ _ h => h)
  initLora := fun d sw => (cfg_initLora cfg d sw).weaken (by decide)
  setTxPower := fun p _ b => cfg_setTxPowerAndRampTime cfg p b
  setIrqParams := cfg_setIrqParams
  setModulationParams := fun d m => cfg_setModulationParams cfg d m
  setPacketParams := cfg_setPacketParams cfg
  calibrateImage := fun _ => Cfg.pure _
  setChannel := cfg_setChannel
  setPayload := cfg_setPayload
  setLoraSyncWord := cfg_setLoraSyncWord
  doTx := doTx_spec
  doRx := fun m t hc _ hl hi => doRx_spec cfg m t hc hl hi
  doCad := fun _ => doCad_spec cfg
  awaitIrq := fun t => RO.awaitIrq t rfl rfl
  processIrqEvent := fun m c cl t _ _ _ =>
    wp_mono _ _ _ (ro_processIrqEvent m c cl t) (fun _ _ hq => hq) (fun _ _ he => he.1)
  getRxPayload := fun p b t _ h => ro_getRxPayload (fun _ ha => ha) p b t h
  getRxPacketStatus := fun t _ _ => ro_getRxPacketStatus (fun _ ha => ha) cfg t

end Sx127x
end Model.Phy
