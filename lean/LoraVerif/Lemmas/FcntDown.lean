import LoraVerif.Gen.Session
import LoraVerif.Lemmas.RtLemmas
import LoraVerif.Lemmas.Bits
/-!
# The downlink counter reconstruction `next_fcnt_down` (GENERATED from session.rs) in closed form

Moved here from `Props/C05.lean` (names unchanged, namespace `C05`) so that the history-level lemmas
(`Lemmas/Cycle.lean`) can use `next_spec` without importing a `Props` module.  `Props/C05.lean`
imports this file and lists the theorems as property theorems of C05.
-/
open Gen.Session Rt

namespace C05

theorem wrap_u16_eq {x : Int} : wrap .u16 x = x % 65536 := by
  simp [wrap, ITy.bits, ITy.signed]
theorem wrap_u32_eq {x : Int} : wrap .u32 x = x % 4294967296 := by
  simp [wrap, ITy.bits, ITy.signed]

/-- the first downlink of a session is taken at face value -/
theorem next_none (w : Int) : next_fcnt_down none w = some w := rfl

/-- closed form of the counter reconstruction: the candidate in the epoch of `last`, or in the next
epoch when the low half wrapped, kept iff it lies in the freshness window -/
def specNext (last w : Int) : Option Int :=
  let cand := if last % 65536 ≤ w then last - last % 65536 + w else (last - last % 65536 + 65536) % 4294967296 + w
  if 0 < cand - last ∧ cand - last ≤ 16384 then some cand else none

set_option linter.unusedSimpArgs false in
/-- the GENERATED function equals the closed form.  This is the only lemma that looks at the shape of
the generated code; the script normalises comparisons in either orientation and `match` /
`Option.filter` / `Option.map` renderings of the final test, so that behaviour-preserving rewrites
of the Rust function keep it going. -/
theorem next_eq_spec (last w : Int) (hl0 : 0 ≤ last) (hl1 : last < 4294967296) (hw0 : 0 ≤ w) (hw1 : w < 65536) :
    next_fcnt_down (some last) w = specNext last w := by
  unfold next_fcnt_down specNext
  simp only [andI_hi16 hl0 hl1, wrap_u16_eq, wrap_u32_eq, MAX_FCNT_GAP, ge_iff_le, gt_iff_lt]
  by_cases hge : last % 65536 ≤ w
  · simp only [hge, decide_true, if_true]
    rw [orI_lo16 (by omega) (by omega) hw0 hw1]
    by_cases hr : 0 ≤ last - last % 65536 + w - last ∧ last - last % 65536 + w - last ≤ 4294967295
    · rw [ck_u32 hr.1 hr.2]
      simp [Option.filter, Option.map]
      try (split <;> simp_all <;> omega)
    · rw [ck_u32_none (by omega)]
      simp [Option.filter, Option.map]
      try omega
  · simp only [hge, decide_false, if_false, Bool.false_eq_true]
    rw [orI_lo16 (by omega) (by omega) hw0 hw1]
    by_cases hr : 0 ≤ (last - last % 65536 + 65536) % 4294967296 + w - last ∧ (last - last % 65536 + 65536) % 4294967296 + w - last ≤ 4294967295
    · rw [ck_u32 hr.1 hr.2]
      simp [Option.filter, Option.map]
      try (split <;> simp_all <;> omega)
    · rw [ck_u32_none (by omega)]
      simp [Option.filter, Option.map]
      try omega

/-- **counter reconstruction.** For every `last < 2^32` and wire value `< 2^16`. -/
theorem next_spec (last w N : Int) (hl0 : 0 ≤ last) (hl1 : last < 4294967296) (hw0 : 0 ≤ w) (hw1 : w < 65536) :
    next_fcnt_down (some last) w = some N ↔
      (N % 65536 = w ∧ last < N ∧ N ≤ last + 16384 ∧ N < 4294967296) := by
  rw [next_eq_spec last w hl0 hl1 hw0 hw1]
  unfold specNext
  simp only []
  by_cases hge : last % 65536 ≤ w
  · simp only [hge, if_true]
    split
    · simp only [Option.some.injEq]; omega
    · simp only [reduceCtorEq, false_iff]; omega
  · simp only [hge, if_false]
    split
    · simp only [Option.some.injEq]; omega
    · simp only [reduceCtorEq, false_iff]; omega

/-- the reconstructed counter is unique: no other `N` satisfies the freshness window -/
theorem next_unique (last w N N' : Int) (hl0 : 0 ≤ last) (hl1 : last < 4294967296) (hw0 : 0 ≤ w) (hw1 : w < 65536)
    (h : next_fcnt_down (some last) w = some N)
    (h' : N' % 65536 = w ∧ last < N' ∧ N' ≤ last + 16384 ∧ N' < 4294967296) : N' = N := by
  have := (next_spec last w N hl0 hl1 hw0 hw1).mp h
  omega

/-- rejection is complete: no `N` in the window ⇒ `none` -/
theorem next_none_iff (last w : Int) (hl0 : 0 ≤ last) (hl1 : last < 4294967296) (hw0 : 0 ≤ w) (hw1 : w < 65536) :
    next_fcnt_down (some last) w = none ↔
      ¬ ∃ N, N % 65536 = w ∧ last < N ∧ N ≤ last + 16384 ∧ N < 4294967296 := by
  constructor
  · intro h ⟨N, hN⟩
    have := (next_spec last w N hl0 hl1 hw0 hw1).mpr hN
    rw [h] at this; cases this
  · intro h
    cases hn : next_fcnt_down (some last) w with
    | none => rfl
    | some N => exact absurd ⟨N, (next_spec last w N hl0 hl1 hw0 hw1).mp hn⟩ h

end C05
