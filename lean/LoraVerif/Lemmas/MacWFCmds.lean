import LoraVerif.Lemmas.MacWFPlan
/-!
Totality and invariant preservation of everything a RECEIVED frame can trigger:
the MAC command interpreter (`handleCmds`, every CID, every payload byte), `Session::handle_rx`,
`Otaa::handle_rx`, `Mac::handle_rx`/`handle_rxc`, `rx2_complete`, the receive windows and the
Class A procedure.  None of these contains a retry loop, so the statements are `Tot`: the call
RETURNS (no panic, no hang) and the state it leaves is well-formed again.
-/
open Gen.Region Gen.Modulation

namespace Model

/-- the working state of the command interpreter is well-formed -/
def CtxWF (c : MacCtx) : Prop :=
  regionWF c.region = true ∧ cfgWF c.region.id c.cfg = true ∧ c.pending.length ≤ 15

theorem push_wf (c : MacCtx) (cid : Nat) (p : List Nat) (h : CtxWF c) :
    CtxWF (c.push cid p) ∧ (c.push cid p).region = c.region := by
  unfold MacCtx.push
  split
  · exact ⟨h, rfl⟩
  · split
    · refine ⟨⟨h.1, h.2.1, ?_⟩, rfl⟩
      simp only [List.length_append, List.length_cons]; omega
    · exact ⟨h, rfl⟩

theorem foldl_push_wf (n : Nat) (c : MacCtx) (cid : Nat) (p : List Nat) (h : CtxWF c) :
    CtxWF ((List.range n).foldl (fun c _ => c.push cid p) c) ∧
      ((List.range n).foldl (fun c _ => c.push cid p) c).region = c.region := by
  generalize List.range n = l
  induction l generalizing c with
  | nil => exact ⟨h, rfl⟩
  | cons a rest ih =>
    simp only [List.foldl_cons]
    obtain ⟨h1, h2⟩ := push_wf c cid p h
    obtain ⟨h3, h4⟩ := ih (c.push cid p) h1
    exact ⟨h3, by rw [h4, h2]⟩

/-! ## LinkADRReq -/

theorem linkAdrDr_valid {cfg : Config} {r : RegionId} {drRaw d : Nat} (hc : cfgWF r cfg = true)
    (h : linkAdrDr cfg r drRaw = some d) : isUplinkDatarate r d = true := by
  unfold linkAdrDr at h
  split at h
  · cases h; exact (cfgWF_iff.mp hc).1
  · split at h
    · rename_i hv; cases h; exact hv
    · cases h

theorem linkAdrPw_tot (cfg : Config) (r : RegionId) (pwRaw : Nat) (h : pwRaw < 16) :
    Tot (linkAdrPw cfg r pwRaw) (fun _ => True) := by
  unfold linkAdrPw
  split
  · exact Tot.pure trivial
  · refine Tot.bind (txPowerAdjust_tot r pwRaw h) (fun o _ => ?_)
    cases o <;> exact Tot.pure trivial

theorem linkAdrCmAck_tot (region : RegionState) (mask : Mask) (rfu : Bool) (dr : Option Nat)
    (h : regionWF region = true) (hm : mask.length = 9) (hdr : ∀ d, dr = some d → isUplinkDatarate region.id d = true) :
    Tot (linkAdrCmAck region mask rfu dr) (fun _ => True) := by
  unfold linkAdrCmAck
  have h1 : Tot (match dr with
      | some d => do pure (some (← drOfNat d))
      | none => (pure none : M (Option DR))) (fun o => ∀ d, o = some d → d.toInt.toNat < 15) := by
    cases dr with
    | none => exact Tot.pure (fun d e => by cases e)
    | some d =>
      obtain ⟨_, _, hlt⟩ := isUplink_get (hdr d rfl)
      refine Tot.bind (drOfNat_tot d) (fun dd hdd => Tot.pure ?_)
      intro d' e; cases e
      rw [hdd]; omega
  refine Tot.bind h1 (fun o ho => ?_)
  cases rfu
  · simp only [Bool.false_eq_true, if_false]
    exact channelMaskValidate_tot region mask o h hm ho
  · exact Tot.pure trivial

theorem linkAdrDecide_tot (cfg : Config) (region : RegionState) (mask : Mask) (rfu : Bool) (drRaw pwRaw : Nat)
    (h : regionWF region = true) (hc : cfgWF region.id cfg = true) (hm : mask.length = 9) (hpw : pwRaw < 16) :
    Tot (linkAdrDecide cfg region mask rfu drRaw pwRaw)
      (fun r => regionWF r.2.2 = true ∧ r.2.2.id = region.id ∧ cfgWF region.id r.2.1 = true) := by
  unfold linkAdrDecide
  refine Tot.bind (linkAdrPw_tot cfg region.id pwRaw hpw) (fun pw _ => ?_)
  refine Tot.bind (linkAdrCmAck_tot region mask rfu _ h hm (fun d hd => linkAdrDr_valid hc hd)) (fun cm _ => ?_)
  simp only
  split
  · rename_i d p hd
    refine Tot.pure ⟨(channelMaskSet_wf region mask h hm).1, (channelMaskSet_wf region mask h hm).2, ?_⟩
    have hv := linkAdrDr_valid hc hd
    exact cfgWF_iff.mpr ⟨hv, (cfgWF_iff.mp hc).2⟩
  · exact Tot.pure ⟨h, rfl, hc⟩

theorem byteAt_tot (l : List Nat) (i : Nat) (h : i < l.length) : Tot (byteAt l i) (fun _ => True) := by
  unfold byteAt
  rw [List.getElem?_eq_getElem h]
  exact ⟨_, rfl, trivial⟩

theorem freq24_tot (l : List Nat) (i : Nat) (h : i + 2 < l.length) : Tot (freq24 l i) (fun _ => True) := by
  unfold freq24
  refine Tot.bind (byteAt_tot l (i + 2) h) (fun _ _ => ?_)
  refine Tot.bind (byteAt_tot l (i + 1) (by omega)) (fun _ _ => ?_)
  refine Tot.bind (byteAt_tot l i (by omega)) (fun _ _ => Tot.pure trivial)

theorem finishLinkAdrBlock_tot (c : MacCtx) (mask : Mask) (rfu : Bool) (n : Nat) (last : List Nat)
    (h : CtxWF c) (hm : mask.length = 9) (hl : 0 < last.length) :
    Tot (finishLinkAdrBlock c mask rfu n last) (fun c' => CtxWF c' ∧ c'.region.id = c.region.id) := by
  unfold finishLinkAdrBlock
  refine Tot.bind (byteAt_tot last 0 hl) (fun b0 _ => ?_)
  refine Tot.bind (linkAdrDecide_tot c.cfg c.region mask rfu (b0 / 16) (b0 % 16) h.1 h.2.1 hm
    (Nat.mod_lt _ (by decide))) ?_
  intro ⟨ans, cfg, region⟩ ⟨h1, h2, h3⟩
  simp only at h1 h2 h3 ⊢
  have hw : CtxWF { c with cfg := cfg, region := region } := ⟨h1, by simp only; rw [h2]; exact h3, h.2.2⟩
  obtain ⟨h4, h5⟩ := foldl_push_wf n { c with cfg := cfg, region := region } 0x03 [ans] hw
  exact Tot.pure ⟨h4, by rw [h5]; exact h2⟩

/-! ## RXParamSetupReq, RXTimingSetupReq -/

theorem maxRx1DrOffset_le (r : RegionId) : maxRx1DrOffset r ≤ 7 := by cases r <;> decide

theorem rxParamSetup_wf (cfg : Config) (r : RegionId) (dl f : Nat) (h : cfgWF r cfg = true) :
    cfgWF r (rxParamSetup cfg r dl f).2 = true := by
  unfold rxParamSetup
  simp only
  split
  · rename_i r2 o _ _ ho
    unfold rx1DrOffsetValidate at ho
    split at ho
    · rename_i hle
      cases ho
      have := maxRx1DrOffset_le r
      exact cfgWF_iff.mpr ⟨(cfgWF_iff.mp h).1, by simp only; omega⟩
    · cases ho
  · exact h

theorem delToDelayMs_tot (del : Nat) : Tot (delToDelayMs del) (fun _ => True) := by
  unfold delToDelayMs Gen.Session.del_to_delay_ms
  by_cases hr : (2 : Int) ≤ (del : Int) ∧ (del : Int) ≤ 15
  · simp only [hr, and_self, decide_true, if_true]
    have : Rt.ck .u32 ((del : Int) * 1000) = some ((del : Int) * 1000) := by
      apply Rt.ck_eq_some
      simp only [Rt.ITy.lo, Rt.ITy.hi, Rt.ITy.signed, Rt.ITy.bits]
      omega
    simp only [this]
    exact ⟨_, rfl, trivial⟩
  · simp only [hr, decide_false, Bool.false_eq_true, if_false]
    exact ⟨_, rfl, trivial⟩

/-! ## the command stream -/

theorem parseDownlinkCmds_lens (fuel : Nat) (bytes : List Nat) :
    ∀ x ∈ parseDownlinkCmds fuel bytes, downlinkCmdLen x.1 = some x.2.length := by
  induction fuel generalizing bytes with
  | zero => intro x hx; simp [parseDownlinkCmds] at hx
  | succ fuel ih =>
    intro x hx
    cases bytes with
    | nil => simp [parseDownlinkCmds] at hx
    | cons cid rest =>
      unfold parseDownlinkCmds at hx
      split at hx
      · simp at hx
      · rename_i n hn
        split at hx
        · simp at hx
        · rename_i hlen
          simp only [List.mem_cons] at hx
          rcases hx with rfl | hx
          · simp only [List.length_take]
            rw [hn]; congr 1; omega
          · exact ih _ x hx

/-- **every downlink MAC command, with any payload bytes, in any order, is handled without panic**
and leaves a well-formed working state of the same region -/
theorem handleCmds_tot (snr : Int) (cmds : List (Nat × List Nat)) (c : MacCtx) (mask : Mask) (rfu : Bool) (nAdr : Nat)
    (hlen : ∀ x ∈ cmds, downlinkCmdLen x.1 = some x.2.length) (h : CtxWF c) (hm : mask.length = 9) :
    Tot (handleCmds snr cmds c mask rfu nAdr) (fun c' => CtxWF c' ∧ c'.region.id = c.region.id) := by
  induction cmds generalizing c mask rfu nAdr with
  | nil => exact ⟨c, rfl, h, rfl⟩
  | cons x rest ih =>
    obtain ⟨cid, p⟩ := x
    have hx : downlinkCmdLen cid = some p.length := hlen (cid, p) List.mem_cons_self
    have hrest : ∀ x ∈ rest, downlinkCmdLen x.1 = some x.2.length := fun x hx => hlen x (List.mem_cons_of_mem _ hx)
    have hskip : Tot (handleCmds snr rest c mask rfu nAdr) (fun c' => CtxWF c' ∧ c'.region.id = c.region.id) :=
      ih c mask rfu nAdr hrest h hm
    unfold downlinkCmdLen at hx
    split at hx
    all_goals (first | (cases hx; done) | skip)
    all_goals (have hp := (Option.some.inj hx).symm; clear hx)
    · -- 0x02
      simp only [handleCmds]; exact hskip
    · -- 0x03 LinkADRReq
      simp only [handleCmds]
      refine Tot.bind (byteAt_tot p 3 (by omega)) (fun b3 _ => ?_)
      refine Tot.bind (byteAt_tot p 1 (by omega)) (fun b1 _ => ?_)
      refine Tot.bind (byteAt_tot p 2 (by omega)) (fun b2 _ => ?_)
      refine Tot.bind (channelMaskUpdate_tot c.region mask _ b1 b2 hm) (fun upd hupd => ?_)
      have tail : ∀ (mask' : Mask) (rfu' : Bool), mask'.length = 9 →
          Tot (handleCmds snr rest c mask' rfu' (nAdr + 1)) (fun c' => CtxWF c' ∧ c'.region.id = c.region.id) ∧
          Tot (do
            let c ← finishLinkAdrBlock c mask' rfu' (nAdr + 1) p
            handleCmds snr rest c (channelMaskGet c.region) false 0) (fun c' => CtxWF c' ∧ c'.region.id = c.region.id) := by
        intro mask' rfu' hm'
        refine ⟨ih c mask' rfu' (nAdr + 1) hrest h hm', ?_⟩
        refine Tot.bind (finishLinkAdrBlock_tot c mask' rfu' (nAdr + 1) p h hm' (by omega)) ?_
        intro c1 ⟨hc1, hid1⟩
        refine Tot.mono (ih c1 (channelMaskGet c1.region) false 0 hrest hc1 (channelMaskGet_length _ hc1.1)) ?_
        intro c2 ⟨hc2, hid2⟩
        exact ⟨hc2, by rw [hid2, hid1]⟩
      rcases upd with _ | m
      · simp only
        split
        · exact (tail mask true hm).1
        · exact (tail mask true hm).2
      · simp only
        split
        · exact (tail m rfu (hupd m rfl)).1
        · exact (tail m rfu (hupd m rfl)).2
    · -- 0x04
      simp only [handleCmds]; exact hskip
    · -- 0x05 RXParamSetupReq
      simp only [handleCmds]
      refine Tot.bind (byteAt_tot p 0 (by omega)) (fun b0 _ => ?_)
      refine Tot.bind (freq24_tot p 1 (by omega)) (fun f _ => ?_)
      have hw : CtxWF { c with cfg := (rxParamSetup c.cfg c.region.id b0 f).2 } :=
        ⟨h.1, rxParamSetup_wf _ _ _ _ h.2.1, h.2.2⟩
      obtain ⟨hw', hr'⟩ := push_wf _ 0x05 [(rxParamSetup c.cfg c.region.id b0 f).1] hw
      refine Tot.mono (ih _ mask rfu nAdr hrest hw' hm) ?_
      intro c2 ⟨hc2, hid2⟩
      exact ⟨hc2, by rw [hid2, hr']⟩
    · -- 0x06 DevStatusReq
      simp only [handleCmds]
      obtain ⟨hw', hr'⟩ := push_wf c 0x06 [255, devStatusMargin snr] h
      refine Tot.mono (ih _ mask rfu nAdr hrest hw' hm) ?_
      intro c2 ⟨hc2, hid2⟩
      exact ⟨hc2, by rw [hid2, hr']⟩
    · -- 0x07 NewChannelReq
      simp only [handleCmds]
      cases hfix : c.region.id.isFixed
      · simp only [Bool.false_eq_true, if_false]
        refine Tot.bind (byteAt_tot p 0 (by omega)) (fun idx _ => ?_)
        refine Tot.bind (freq24_tot p 1 (by omega)) (fun f _ => ?_)
        refine Tot.bind (byteAt_tot p 4 (by omega)) (fun r _ => ?_)
        refine Tot.bind (handleNewChannel_tot c.region idx f _ h.1 hfix) ?_
        intro ⟨⟨ackF, ackD⟩, region⟩ ⟨hr1, hr2⟩
        simp only at hr1 hr2 ⊢
        have hw : CtxWF { c with region := region } := ⟨hr1, by simp only; rw [hr2]; exact h.2.1, h.2.2⟩
        obtain ⟨hw', hr'⟩ := push_wf _ 0x07 [(if ackF then 1 else 0) + (if ackD then 2 else 0)] hw
        refine Tot.mono (ih _ mask rfu nAdr hrest hw' hm) ?_
        intro c2 ⟨hc2, hid2⟩
        exact ⟨hc2, by rw [hid2, hr']; exact hr2⟩
      · simp only [if_true]; exact hskip
    · -- 0x08 RXTimingSetupReq
      simp only [handleCmds]
      refine Tot.bind (byteAt_tot p 0 (by omega)) (fun b0 _ => ?_)
      refine Tot.bind (delToDelayMs_tot _) (fun d _ => ?_)
      have hw : CtxWF { c with cfg := { c.cfg with rx1Delay := d } } := ⟨h.1, h.2.1, h.2.2⟩
      obtain ⟨hw', hr'⟩ := push_wf _ 0x08 [] hw
      refine Tot.mono (ih _ mask rfu nAdr hrest hw' hm) ?_
      intro c2 ⟨hc2, hid2⟩
      exact ⟨hc2, by rw [hid2, hr']⟩
    · -- 0x09
      simp only [handleCmds]; exact hskip
    · -- 0x0A DlChannelReq
      simp only [handleCmds]
      cases hfix : c.region.id.isFixed
      · simp only [Bool.false_eq_true, if_false]
        refine Tot.bind (byteAt_tot p 0 (by omega)) (fun idx _ => ?_)
        refine Tot.bind (freq24_tot p 1 (by omega)) (fun f _ => ?_)
        refine Tot.bind (channelDlUpdate_tot c.region idx f h.1 hfix) ?_
        intro ⟨⟨ackF, ackC⟩, region⟩ ⟨hr1, hr2⟩
        simp only at hr1 hr2 ⊢
        have hw : CtxWF { c with region := region } := ⟨hr1, by simp only; rw [hr2]; exact h.2.1, h.2.2⟩
        obtain ⟨hw', hr'⟩ := push_wf _ 0x0A [(if ackF then 1 else 0) + (if ackC then 2 else 0)] hw
        refine Tot.mono (ih _ mask rfu nAdr hrest hw' hm) ?_
        intro c2 ⟨hc2, hid2⟩
        exact ⟨hc2, by rw [hid2, hr']; exact hr2⟩
      · simp only [if_true]; exact hskip
    · -- 0x0D
      simp only [handleCmds]; exact hskip

theorem handleDownlinkMacs_tot (snr : Int) (bytes : List Nat) (c : MacCtx) (h : CtxWF c) :
    Tot (handleDownlinkMacs snr bytes c) (fun c' => CtxWF c' ∧ c'.region.id = c.region.id) := by
  unfold handleDownlinkMacs
  exact handleCmds_tot snr _ c _ false 0 (parseDownlinkCmds_lens _ _) h (channelMaskGet_length _ h.1)

end Model
