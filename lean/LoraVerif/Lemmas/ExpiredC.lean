import LoraVerif.Lemmas.CycleC
/-!
# `SessionExpired` inside a receive procedure is never swallowed (reference level)

The reference procedure of `Lemmas/CycleC.lean` answers `SessionExpired` for a frame handled inside
the procedure exactly when the uplink counter stands at `2^32 − 1`, and from there the counter no longer
moves.  Hence: if ANY frame handled during `send` + receive procedure (on the RXC parameters before
RX1 / before RX2, or in a window) was answered `SessionExpired`, or the uplink itself went out with the
last counter, the procedure as a whole reports `SessionExpired` (`refUplink_expired`).  Through
`stepC_uplinkC_joined` this is a statement about the model (`Props/C06.lean: stepC_expired_reported`).
-/
namespace Model

theorem bumpFu_max {fu : Nat} (h : fu = 0xFFFFFFFF) : bumpFu fu = 0xFFFFFFFF := by
  unfold bumpFu; rw [if_pos h]; exact h

theorem accOut_exp {fu N : Nat} {d : RxData} (h : (accOut fu N d).resp = .sessionExpired) : fu = 0xFFFFFFFF := by
  unfold accOut at h
  split at h
  · assumption
  · cases h

theorem accOut_of_max {fu N : Nat} {d : RxData} (h : fu = 0xFFFFFFFF) : (accOut fu N d).resp = .sessionExpired := by
  unfold accOut; rw [if_pos h]

theorem tmoResp_exp {fu : Nat} {conf : Bool} (h : tmoResp fu conf = .sessionExpired) : fu = 0xFFFFFFFF := by
  unfold tmoResp at h
  split at h
  · assumption
  · cases conf <;> cases h

theorem tmoResp_of_max {fu : Nat} {conf : Bool} (h : fu = 0xFFFFFFFF) : tmoResp fu conf = .sessionExpired := by
  unfold tmoResp; rw [if_pos h]

/-- "the counter space was exhausted at or before this point": the stretch started at the last
counter, or one of its reports is `SessionExpired` -/
def ExpIn (fu : Nat) (heard : List RxOut) : Prop := fu = 0xFFFFFFFF ∨ ∃ o ∈ heard, o.resp = .sessionExpired

theorem refRxcs_exp (mpc : Nat) (cs : List (RxView × Int)) :
    ∀ p : PSt, ExpIn p.fu (refRxcs p mpc cs).heard → (refRxcs p mpc cs).st.fu = 0xFFFFFFFF := by
  induction cs with
  | nil =>
    intro p h
    rcases h with h | ⟨o, ho, _⟩
    · exact h
    · simp [refRxcs] at ho
  | cons c rest ih =>
    intro p h
    obtain ⟨v, snr⟩ := c
    unfold refRxcs at h ⊢
    cases hs : specRxc p.last v mpc with
    | none =>
      simp only [hs] at h ⊢
      apply ih p
      rcases h with h | ⟨o, ho, he⟩
      · exact Or.inl h
      · simp only [List.mem_cons] at ho
        rcases ho with rfl | ho
        · cases he
        · exact Or.inr ⟨o, ho, he⟩
    | some q =>
      obtain ⟨N, d⟩ := q
      simp only [hs] at h ⊢
      apply ih ⟨some N, bumpFu p.fu⟩
      rcases h with h | ⟨o, ho, he⟩
      · exact Or.inl (bumpFu_max h)
      · simp only [List.mem_cons] at ho
        rcases ho with rfl | ho
        · exact Or.inl (bumpFu_max (accOut_exp he))
        · exact Or.inr ⟨o, ho, he⟩

/-- one window with what precedes it: once exhausted, the counter stays at the end and a response of
the window is `SessionExpired` -/
theorem refWin_exp (cc : Bool) (p : PSt) (conf : Bool) (mpc : Nat) (cs : List (RxView × Int)) (f : Option (RxView × Int))
    (mp : Nat) (eb ea : Bool) (h : ExpIn p.fu (refWin cc p conf mpc cs f mp eb ea).heard) :
    (refWin cc p conf mpc cs f mp eb ea).st.fu = 0xFFFFFFFF ∧
      ∀ o, (refWin cc p conf mpc cs f mp eb ea).res = some (some o) → o.resp = .sessionExpired := by
  unfold refWin at h ⊢
  have hb : ∀ hd, ExpIn p.fu ((if cc then refRxcs p mpc cs else ⟨[], [], p⟩ : Ref).heard ++ hd) →
      (if cc then refRxcs p mpc cs else ⟨[], [], p⟩ : Ref).st.fu = 0xFFFFFFFF ∨ ∃ o ∈ hd, o.resp = .sessionExpired := by
    intro hd hx
    rcases hx with hx | ⟨o, ho, he⟩
    · left
      cases cc
      · exact hx
      · exact refRxcs_exp mpc cs p (Or.inl hx)
    · rcases List.mem_append.mp ho with ho | ho
      · left
        cases cc
        · simp at ho
        · exact refRxcs_exp mpc cs p (Or.inr ⟨o, ho, he⟩)
      · exact Or.inr ⟨o, ho, he⟩
  generalize (if cc then refRxcs p mpc cs else ⟨[], [], p⟩ : Ref) = b at h hb ⊢
  simp only [] at h ⊢
  cases eb with
  | true =>
    simp only [if_true] at h ⊢
    rcases hb [] (by simpa using h) with hx | ⟨o, ho, _⟩
    · exact ⟨hx, fun o e => by cases e⟩
    · simp at ho
  | false =>
    simp only [Bool.false_eq_true, if_false] at h ⊢
    cases hsw : specWindow b.st.last f mp with
    | nothing =>
      rw [hsw] at h
      simp only [] at h ⊢
      rcases hb [] (by simpa using h) with hx | ⟨o, ho, _⟩
      · exact ⟨hx, fun o e => by cases ea <;> simp at e⟩
      · simp at ho
    | ended =>
      rw [hsw] at h
      simp only [] at h ⊢
      have hx : b.st.fu = 0xFFFFFFFF := by
        rcases hb _ h with hx | ⟨o, ho, he⟩
        · exact hx
        · simp only [List.mem_singleton] at ho
          subst ho
          exact tmoResp_exp he
      refine ⟨bumpFu_max hx, fun o e => ?_⟩
      cases ea
      · simp only [Bool.false_eq_true, if_false, Option.some.injEq] at e
        subst e
        exact tmoResp_of_max hx
      · simp at e
    | accepted N d snr =>
      rw [hsw] at h
      simp only [] at h ⊢
      have hx : b.st.fu = 0xFFFFFFFF := by
        rcases hb _ h with hx | ⟨o, ho, he⟩
        · exact hx
        · simp only [List.mem_singleton] at ho
          subst ho
          exact accOut_exp he
      refine ⟨bumpFu_max hx, fun o e => ?_⟩
      cases ea
      · simp only [Bool.false_eq_true, if_false, Option.some.injEq] at e
        subst e
        exact accOut_of_max hx
      · simp at e

theorem refCycle_exp (cc : Bool) (p : PSt) (conf : Bool) (mpc : Nat) (fault : Option FaultPos) (c1 : List (RxView × Int))
    (rx1 : Option (RxView × Int)) (c2 : List (RxView × Int)) (rx2 : Option (RxView × Int)) (mp1 mp2 : Nat)
    (h : ExpIn p.fu (refCycle cc p conf mpc fault c1 rx1 c2 rx2 mp1 mp2).heard) :
    (refCycle cc p conf mpc fault c1 rx1 c2 rx2 mp1 mp2).st.fu = 0xFFFFFFFF ∧
      ∀ o, (refCycle cc p conf mpc fault c1 rx1 c2 rx2 mp1 mp2).fin = .resp o → o.resp = .sessionExpired := by
  unfold refCycle at h ⊢
  by_cases htx : fault = some .tx
  · simp only [htx, if_true] at h ⊢
    rcases h with h | ⟨o, ho, _⟩
    · exact ⟨h, fun o e => by cases e⟩
    · simp at ho
  · simp only [htx, if_false] at h ⊢
    have h1 := refWin_exp cc p conf mpc c1 rx1 mp1 (fault == some .before1) (fault == some .close1)
    generalize refWin cc p conf mpc c1 rx1 mp1 (fault == some .before1) (fault == some .close1) = w1 at h h1 ⊢
    cases hr1 : w1.res with
    | none =>
      simp only [hr1] at h ⊢
      exact ⟨(h1 h).1, fun o e => by cases e⟩
    | some o1 =>
      cases o1 with
      | some o =>
        simp only [hr1] at h ⊢
        refine ⟨(h1 h).1, fun o' e => ?_⟩
        cases e
        exact (h1 h).2 o hr1
      | none =>
        simp only [hr1] at h ⊢
        have h2 := refWin_exp cc w1.st conf mpc c2 rx2 mp2 (fault == some .before2) (fault == some .close2)
        generalize refWin cc w1.st conf mpc c2 rx2 mp2 (fault == some .before2) (fault == some .close2) = w2 at h h2 ⊢
        -- exhaustion before or during the first stretch carries over to the second
        have hx2 : ExpIn w1.st.fu w2.heard := by
          cases hr2 : w2.res with
          | none =>
            simp only [hr2] at h
            rcases h with h | ⟨o, ho, he⟩
            · exact Or.inl (h1 (Or.inl h)).1
            · rcases List.mem_append.mp ho with ho | ho
              · exact Or.inl (h1 (Or.inr ⟨o, ho, he⟩)).1
              · exact Or.inr ⟨o, ho, he⟩
          | some o2 =>
            cases o2 <;>
              (simp only [hr2] at h
               rcases h with h | ⟨o, ho, he⟩
               · exact Or.inl (h1 (Or.inl h)).1
               · rcases List.mem_append.mp ho with ho | ho
                 · exact Or.inl (h1 (Or.inr ⟨o, ho, he⟩)).1
                 · exact Or.inr ⟨o, ho, he⟩)
        cases hr2 : w2.res with
        | none => simp only []; exact ⟨(h2 hx2).1, fun o e => by cases e⟩
        | some o2 =>
          cases o2 with
          | some o =>
            simp only []
            refine ⟨(h2 hx2).1, fun o' e => ?_⟩
            cases e
            exact (h2 hx2).2 o hr2
          | none => simp only []; exact ⟨(h2 hx2).1, fun o e => by cases e⟩

/-- **the reference never swallows an expiry**: if the uplink went out with the last counter, or any
frame handled during the procedure was answered `SessionExpired`, the procedure reports
`SessionExpired` -/
theorem refUplink_expired (cc : Bool) (p : PSt) (conf : Bool) (mpc : Nat) (fault : Option FaultPos) (c1 : List (RxView × Int))
    (rx1 : Option (RxView × Int)) (c2 : List (RxView × Int)) (rx2 : Option (RxView × Int)) (mp1 mp2 : Nat)
    (h : ExpIn p.fu (refUplink cc p conf mpc fault c1 rx1 c2 rx2 mp1 mp2).heard) :
    (refUplink cc p conf mpc fault c1 rx1 c2 rx2 mp1 mp2).resp = some .sessionExpired := by
  unfold refUplink at h ⊢
  have hc := refCycle_exp cc p conf mpc fault c1 rx1 c2 rx2 mp1 mp2
  generalize refCycle cc p conf mpc fault c1 rx1 c2 rx2 mp1 mp2 = c at h hc ⊢
  simp only [] at h ⊢
  cases hf : c.fin with
  | resp o =>
    simp only [hf] at h ⊢
    rw [(hc h).2 o hf]
  | complete =>
    simp only [hf] at h ⊢
    rw [tmoResp_of_max (hc h).1]
  | cut =>
    simp only [hf] at h ⊢
    rw [if_pos (hc h).1]

end Model
