import LoraVerif.Lemmas.RefineDefs
import LoraVerif.Lemmas.RxFacts
/-!
# The async front-end refines the (extended) history semantics

`asyncSend` / `asyncJoin` (`Model/Device.lean`, the trace semantics of `async_device::Device::{send,
join}` over a script of radio answers) are simulated by `stepC` on the event `abstractSendC` /
`abstractJoinC` computes from the script: same MAC state, same generator state, same response, same
downlink queue, the frame handed to the radio is the one of the event's output.
-/
namespace Model

variable {X : Fault → Prop}

def Call.isTx : Call → Bool
  | .tx _ _ => true
  | _ => false

/-- the calls logged from `r` to `r'` contain no transmission -/
def NoTxSince (r r' : DevRun) : Prop := ∃ added, r'.calls = added ++ r.calls ∧ ∀ c ∈ added, c.isTx = false

/-- `r'` is `r` after the frames with outputs `h` were handled, ending in MAC state `m'` -/
structure RunRel (r r' : DevRun) (h : List RxOut) (m' : MacState) : Prop where
  m : r'.m = m'
  dls : r'.downlinks = pushDls r.dlCap r.downlinks h
  cap : r'.dlCap = r.dlCap
  calls : NoTxSince r r'

theorem NoTxSince.refl (r : DevRun) : NoTxSince r r := ⟨[], rfl, by simp⟩

theorem NoTxSince.trans {a b c : DevRun} (h1 : NoTxSince a b) (h2 : NoTxSince b c) : NoTxSince a c := by
  obtain ⟨x, hx, hx'⟩ := h1
  obtain ⟨y, hy, hy'⟩ := h2
  refine ⟨y ++ x, by rw [hy, hx, List.append_assoc], ?_⟩
  intro c hc
  rcases List.mem_append.mp hc with h | h
  · exact hy' c h
  · exact hx' c h

theorem RunRel.trans {a b c : DevRun} {h1 h2 : List RxOut} {m1 m2 : MacState}
    (r1 : RunRel a b h1 m1) (r2 : RunRel b c h2 m2) : RunRel a c (h1 ++ h2) m2 where
  m := r2.m
  dls := by rw [r2.dls, r1.dls, r1.cap]; unfold pushDls; rw [List.foldl_append]
  cap := by rw [r2.cap, r1.cap]
  calls := r1.calls.trans r2.calls

theorem RunRel.trans_silent {a b c : DevRun} {h1 : List RxOut} {m1 m2 : MacState}
    (r1 : RunRel a b h1 m1) (r2 : RunRel b c [] m2) : RunRel a c h1 m2 := by
  have := r1.trans r2
  rwa [List.append_nil] at this

/-- a step that only logs non-transmission calls and consumes script -/
theorem RunRel.silent {r r' : DevRun} (hm : r'.m = r.m) (hd : r'.downlinks = r.downlinks) (hc : r'.dlCap = r.dlCap)
    (hcalls : NoTxSince r r') : RunRel r r' [] r.m :=
  ⟨hm, by simpa [pushDls] using hd, hc, hcalls⟩

theorem deliver_some (r : DevRun) (o : RxOut) :
    r.deliver (some o) = { r with downlinks := pushDl r.dlCap r.downlinks o } := by
  cases hd : o.downlink with
  | none => simp [DevRun.deliver, pushDl, hd]
  | some d => by_cases h : r.downlinks.length < r.dlCap <;> simp [DevRun.deliver, pushDl, hd, h]

theorem deliver_fields (r : DevRun) (o : Option RxOut) :
    (r.deliver o).m = r.m ∧ (r.deliver o).script = r.script ∧ (r.deliver o).calls = r.calls ∧ (r.deliver o).dlCap = r.dlCap := by
  cases o with
  | none => exact ⟨rfl, rfl, rfl, rfl⟩
  | some o => rw [deliver_some]; exact ⟨rfl, rfl, rfl, rfl⟩

/-! ## `between_windows` -/

def LoopPost (r : DevRun) (st : Step Unit) (res : List RxOut × Bool × MacState) : Prop :=
  match st with
  | .cont _ r' => res.2.1 = true ∧ RunRel r r' res.1 res.2.2 ∧ r'.script = (leadFrames r.script).2
  | .macErr r' => res.2.1 = false ∧ RunRel r r' res.1 res.2.2
  | .radioErr _ => False

theorem rxcLoop_sim (hXh : X (.hang "between_windows")) (mp d : Nat) (fuel : Nat) (r : DevRun) :
    SimX X (rxcLoop mp d fuel r) (rxcs r.m mp (leadFrames r.script).1) (LoopPost r) := by
  induction fuel generalizing r with
  | zero => exact Or.inl hXh
  | succ fuel ih =>
    unfold rxcLoop
    cases hs : r.script with
    | nil =>
      simp only [DevRun.next, DevRun.log, hs, leadFrames, rxcs]
      exact SimX.pure ⟨rfl, ⟨rfl, by simp [pushDls], rfl, ⟨[.at d, .rxContinuous], rfl, by simp [Call.isTx]⟩⟩, by simp [hs, leadFrames]⟩
    | cons i rest =>
      cases i with
      | ok =>
        simp only [DevRun.next, DevRun.log, hs, leadFrames, rxcs]
        exact SimX.pure ⟨rfl, ⟨rfl, by simp [pushDls], rfl, ⟨[.at d, .rxContinuous], rfl, by simp [Call.isTx]⟩⟩, by simp [hs, leadFrames]⟩
      | err =>
        simp only [DevRun.next, DevRun.log, hs, leadFrames, rxcs]
        exact SimX.pure ⟨rfl, ⟨rfl, by simp [pushDls], rfl, ⟨[.at d, .rxContinuous], rfl, by simp [Call.isTx]⟩⟩, by simp [hs, leadFrames]⟩
      | frame snr v =>
        simp only [DevRun.next, DevRun.log, hs, leadFrames, rxcs]
        refine SimX.same _ (fun om hom => ?_)
        obtain ⟨o, m⟩ := om
        cases o with
        | none =>
          simp only [DevRun.deliver]
          have hr2 : RunRel r (⟨m, rest, Call.rxContinuous :: r.calls, r.downlinks, r.dlCap⟩ : DevRun) [] m :=
            ⟨rfl, by simp [pushDls], rfl, ⟨[.rxContinuous], rfl, by simp [Call.isTx]⟩⟩
          refine (ih _).mono ?_
          intro st res hp
          cases st with
          | cont u r' =>
            obtain ⟨h1, h2, h3⟩ := hp
            exact ⟨h1, hr2.trans h2, by rw [h3, hs]; rfl⟩
          | macErr r' =>
            obtain ⟨h1, h2⟩ := hp
            exact ⟨h1, hr2.trans h2⟩
          | radioErr r' => exact hp.elim
        | some o =>
          simp only [deliver_some]
          have hr2 : RunRel r (⟨m, rest, Call.rxContinuous :: r.calls, pushDl r.dlCap r.downlinks o, r.dlCap⟩ : DevRun) [o] m :=
            ⟨rfl, by simp [pushDls], rfl, ⟨[.rxContinuous], rfl, by simp [Call.isTx]⟩⟩
          refine SimX.map_right (g := fun x => (o :: x.1, x.2.1, x.2.2)) (ih _) ?_
          intro st res hp
          cases st with
          | cont u r' =>
            obtain ⟨h1, h2, h3⟩ := hp
            exact ⟨h1, hr2.trans h2, by rw [h3, hs]; rfl⟩
          | macErr r' =>
            obtain ⟨h1, h2⟩ := hp
            exact ⟨h1, hr2.trans h2⟩
          | radioErr r' => exact hp.elim

/-- a radio call that only succeeds or fails, in terms of `nextItem` -/
def afterCall (r : DevRun) (c : Call) : DevRun := { r with script := (nextItem r.script).2, calls := c :: r.calls }

theorem simpleCall_eq (r : DevRun) (c : Call) :
    r.simpleCall c = if (nextItem r.script).1.isErr then .radioErr (afterCall r c) else .cont () (afterCall r c) := by
  unfold DevRun.simpleCall DevRun.next DevRun.log afterCall
  cases hs : r.script with
  | nil => simp [nextItem, ScriptItem.isErr]
  | cons i rest => cases i <;> simp [nextItem, ScriptItem.isErr]

theorem afterCall_rel (r : DevRun) (c : Call) (hc : c.isTx = false) : RunRel r (afterCall r c) [] r.m :=
  ⟨rfl, by simp [pushDls, afterCall], rfl, ⟨[c], rfl, by simpa using hc⟩⟩

def BetweenPost (cc : Bool) (r : DevRun) (st : Step Unit) (res : List RxOut × Bool × MacState) : Prop :=
  match st with
  | .cont _ r' => (parseBetween cc r.script).1 = false ∧ res.2.1 = true ∧ RunRel r r' res.1 res.2.2 ∧
      r'.script = (parseBetween cc r.script).2.2
  | .radioErr r' => (parseBetween cc r.script).1 = true ∧ RunRel r r' res.1 res.2.2
  | .macErr r' => (parseBetween cc r.script).1 = false ∧ res.2.1 = false ∧ RunRel r r' res.1 res.2.2

theorem parseBetween_err {cc : Bool} {s : List ScriptItem} (he : (nextItem s).1.isErr = true) :
    parseBetween cc s = (true, [], (nextItem s).2) := by simp [parseBetween, he]

theorem parseBetween_c {s : List ScriptItem} (he : ¬ (nextItem s).1.isErr = true) :
    parseBetween true s = (false, leadFrames (nextItem s).2) := by simp [parseBetween, he]

theorem parseBetween_a {s : List ScriptItem} (he : ¬ (nextItem s).1.isErr = true) :
    parseBetween false s = (false, [], (nextItem s).2) := by simp [parseBetween, he]

theorem betweenWindows_sim (hXh : X (.hang "between_windows")) (cfg : DevCfg) (d : Nat) (r : DevRun) :
    SimX X (betweenWindows cfg d r) (between cfg.classC r.m (parseBetween cfg.classC r.script).2.1)
      (BetweenPost cfg.classC r) := by
  unfold betweenWindows between
  cases hcc : cfg.classC with
  | true =>
    simp only [if_true]
    refine SimX.same _ (fun rf _ => ?_)
    rw [simpleCall_eq]
    by_cases he : (nextItem r.script).1.isErr = true
    · simp only [he, if_true, parseBetween_err he, rxcs]
      refine SimX.pure ?_
      simp only [BetweenPost, parseBetween_err he]
      exact ⟨trivial, afterCall_rel r _ rfl⟩
    · simp only [he, Bool.false_eq_true, if_false, parseBetween_c he]
      refine (rxcLoop_sim hXh _ _ _ (afterCall r _)).mono ?_
      intro st res hp
      cases st with
      | cont u r' =>
        obtain ⟨h1, h2, h3⟩ := hp
        simp only [BetweenPost, parseBetween_c he]
        exact ⟨trivial, h1, (afterCall_rel r _ rfl).trans h2, h3⟩
      | macErr r' =>
        obtain ⟨h1, h2⟩ := hp
        simp only [BetweenPost, parseBetween_c he]
        exact ⟨trivial, h1, (afterCall_rel r _ rfl).trans h2⟩
      | radioErr r' => exact hp.elim
  | false =>
    simp only [Bool.false_eq_true, if_false]
    rw [simpleCall_eq]
    by_cases he : (nextItem r.script).1.isErr = true
    · simp only [he, if_true]
      refine SimX.pure ?_
      simp only [BetweenPost, parseBetween_err he]
      exact ⟨trivial, afterCall_rel r _ rfl⟩
    · simp only [he, Bool.false_eq_true, if_false]
      refine SimX.pure ?_
      simp only [BetweenPost, parseBetween_a he]
      refine ⟨trivial, trivial, ?_, rfl⟩
      exact (afterCall_rel r .lowPower rfl).trans ⟨rfl, by simp [pushDls, DevRun.log], rfl, ⟨[.at d], rfl, by simp [Call.isTx]⟩⟩

/-! ## one window -/

theorem sessionHandleRx_noUpdate_dl (s : Session) (cfg : Config) (region : RegionState) (d : RxData) (mp : Nat) (snr : Int)
    (ig : Bool) (o : RxOut) (s' : Session) (cfg' : Config) (region' : RegionState)
    (h : sessionHandleRx s cfg region d mp snr ig = .ok (o, s', cfg', region')) (hn : o.resp = .noUpdate) :
    o.downlink = none := by
  unfold sessionHandleRx at h
  split at h
  · split at h
    · cases h; rfl
    · cases h; rfl
  · split at h
    · cases h; rfl
    · split at h
      · cases h; rfl
      · simp only [] at h
        obtain ⟨ctx, _, h⟩ := Except.bind_eq_ok h
        by_cases hx : (s.fcntUp == 0xFFFFFFFF) = true
        · cases hc : d.confirmed <;> cases ig <;>
            simp only [hc, hx, Bool.false_eq_true, if_false, if_true, pure, Except.pure, Except.ok.injEq,
              Prod.mk.injEq] at h <;>
            obtain ⟨rfl, rfl, rfl, rfl⟩ := h <;> rfl
        · cases hc : d.confirmed <;> cases ig <;>
            simp only [hc, hx, Bool.false_eq_true, if_false, if_true, pure, Except.pure, Except.ok.injEq,
              Prod.mk.injEq] at h <;>
            obtain ⟨rfl, rfl, rfl, rfl⟩ := h <;> cases hn

theorem macHandleRx_noUpdate_dl (m : MacState) (v : RxView) (mp : Nat) (snr : Int) (cc : Bool) (o : RxOut) (m' : MacState)
    (h : macHandleRx m v mp snr cc = .ok (some o, m')) (hn : o.resp = .noUpdate) : o.downlink = none := by
  unfold macHandleRx at h
  split at h
  · split at h
    · obtain ⟨⟨o', s', cfg', region'⟩, hs, h⟩ := Except.bind_eq_ok h
      cases h
      exact sessionHandleRx_noUpdate_dl _ _ _ _ _ _ _ _ _ _ _ hs hn
    · cases h; rfl
  · split at h
    · cases h
    · split at h
      · split at h
        · obtain ⟨m2, _, h⟩ := Except.bind_eq_ok h
          cases h; rfl
        · cases h; rfl
      · cases h; rfl
  · split at h
    · cases h
    · cases h; rfl

/-- a window is `handle_rx` with `NoUpdate` swallowed -/
theorem window_some (m : MacState) (v : RxView) (snr : Int) (mp : Nat) :
    window m (some (v, snr)) mp = (macHandleRx m v mp snr false >>= fun om => pure (swallow om.1, om.2)) := by
  unfold window swallow
  simp only
  congr 1
  funext om
  obtain ⟨o, m'⟩ := om
  cases o with
  | none => rfl
  | some o => by_cases h : (o.resp == .noUpdate) = true <;> simp [h]

theorem windowComplete_sim (cfg : DevCfg) (r : DevRun) :
    SimX X (windowComplete cfg r) (closeWindow cfg.classC r.m)
      (fun st _ => ∃ c : Call, c.isTx = false ∧
        st = if (nextItem r.script).1.isErr then .radioErr (afterCall r c) else .cont () (afterCall r c)) := by
  unfold windowComplete closeWindow
  cases cfg.classC with
  | true =>
    simp only [if_true]
    refine SimX.same _ (fun rf _ => ?_)
    exact SimX.pure ⟨_, rfl, simpleCall_eq r _⟩
  | false =>
    simp only [Bool.false_eq_true, if_false]
    exact SimX.pure ⟨_, rfl, simpleCall_eq r _⟩

/-- the listening part of a window at the MAC level, by the answers to `rx_single` and to the call
of `window_complete` -/
def listenC (cc : Bool) (m : MacState) (i i' : ScriptItem) (mp : Nat) : M (Option (Option RxOut) × List RxOut × MacState) :=
  if i.isErr then pure (none, [], m) else do
    let om ← window m i.frame? mp
    closeWindow cc om.2
    if i'.isErr then pure (none, om.1.toList, om.2) else pure (some om.1, om.1.toList, om.2)

def ListenPost (r : DevRun) (st : Step (Option RxOut)) (res : Option (Option RxOut) × List RxOut × MacState) : Prop :=
  match st with
  | .cont o r' => res.1 = some o ∧ RunRel r r' res.2.1 res.2.2 ∧ r'.script = (nextItem (nextItem r.script).2).2
  | .radioErr r' => res.1 = none ∧ RunRel r r' res.2.1 res.2.2
  | .macErr _ => False

theorem deliver_swallow (r : DevRun) (o : Option RxOut) (m : MacState)
    (hdl : ∀ o', o = some o' → o'.resp = .noUpdate → o'.downlink = none) :
    RunRel r (({ r with m := m }).deliver o) (swallow o).toList m := by
  cases o with
  | none => exact ⟨rfl, by simp [DevRun.deliver, swallow, pushDls], rfl, NoTxSince.refl _⟩
  | some o =>
    rw [deliver_some]
    by_cases hn : (o.resp == .noUpdate) = true
    · have hd := hdl o rfl (by simpa using hn)
      refine ⟨rfl, ?_, rfl, ⟨[], rfl, by simp⟩⟩
      simp [swallow, hn, pushDls, pushDl, hd]
    · refine ⟨rfl, ?_, rfl, ⟨[], rfl, by simp⟩⟩
      simp [swallow, hn, pushDls]

theorem rxListen_sim (cfg : DevCfg) (rf : RfConfig) (r : DevRun) :
    SimX X (rxListen cfg rf r)
      (listenC cfg.classC r.m (nextItem r.script).1 (nextItem (nextItem r.script).2).1 rf.maxPayload.toNat) (ListenPost r) := by
  have hlog : RunRel r (afterCall r .rxSingle) [] r.m := afterCall_rel r _ rfl
  -- what follows the handling of the window's frame: `window_complete`
  have tail : ∀ (r2 : DevRun) (o : Option RxOut) (h : List RxOut), RunRel r r2 h r2.m →
      r2.script = (nextItem r.script).2 →
      SimX X (windowComplete cfg r2 >>= fun st => match st with
            | .cont _ r => pure (.cont o r)
            | .radioErr r => pure (.radioErr r)
            | .macErr r => pure (.macErr r))
        (closeWindow cfg.classC r2.m >>= fun _ =>
          if (nextItem (nextItem r.script).2).1.isErr then pure (none, h, r2.m) else pure (some o, h, r2.m))
        (ListenPost r) := by
    intro r2 o h hrel hscr
    refine SimX.bind (windowComplete_sim cfg r2) ?_
    intro st _ ⟨c, hc, hst⟩
    subst hst
    rw [hscr]
    by_cases he : (nextItem (nextItem r.script).2).1.isErr = true
    · simp only [he, if_true]
      exact SimX.pure ⟨rfl, by simpa using hrel.trans (afterCall_rel r2 c hc)⟩
    · simp only [he, Bool.false_eq_true, if_false]
      exact SimX.pure ⟨rfl, by simpa using hrel.trans (afterCall_rel r2 c hc), by simp [afterCall, hscr]⟩
  unfold rxListen listenC
  cases hs : r.script with
  | nil =>
    simp only [DevRun.next, DevRun.log, hs, nextItem, ScriptItem.isErr, ScriptItem.frame?, Bool.false_eq_true, if_false,
      window, pure_bind]
    have := tail (afterCall r .rxSingle) none [] hlog (by simp [afterCall])
    simp only [afterCall, hs, nextItem, ScriptItem.isErr] at this
    exact this
  | cons i rest =>
    cases i with
    | ok =>
      simp only [DevRun.next, DevRun.log, hs, nextItem, ScriptItem.isErr, ScriptItem.frame?, Bool.false_eq_true, if_false,
        window, pure_bind]
      have := tail (afterCall r .rxSingle) none [] hlog (by simp [afterCall])
      simp only [afterCall, hs, nextItem, ScriptItem.isErr] at this
      exact this
    | err =>
      simp only [DevRun.next, DevRun.log, hs, nextItem, ScriptItem.isErr, if_true]
      refine SimX.pure ⟨rfl, ?_⟩
      have := hlog
      simp only [afterCall, hs, nextItem] at this
      exact this
    | frame snr v =>
      simp only [DevRun.next, DevRun.log, hs, nextItem, ScriptItem.isErr, ScriptItem.frame?, Bool.false_eq_true, if_false,
        window_some, bind_assoc, pure_bind]
      refine SimX.same _ (fun om hom => ?_)
      obtain ⟨o, m⟩ := om
      have hdl : ∀ o', o = some o' → o'.resp = .noUpdate → o'.downlink = none := by
        intro o' e hn; subst e
        exact macHandleRx_noUpdate_dl _ _ _ _ _ _ _ hom hn
      have hr2 := hlog.trans (deliver_swallow (afterCall r .rxSingle) o m hdl)
      have hm2 := (deliver_fields ({ afterCall r .rxSingle with m := m }) o).1
      have hs2 := (deliver_fields ({ afterCall r .rxSingle with m := m }) o).2.1
      have := tail (({ afterCall r .rxSingle with m := m }).deliver o) (swallow o) _ (by rw [hm2]; exact hr2)
        (by rw [hs2]; rfl)
      rw [hm2] at this
      simp only [afterCall, hs, nextItem, ScriptItem.isErr] at this
      exact this

def WinPost (cc : Bool) (r : DevRun) (st : Step (Option RxOut)) (res : Option (Option RxOut) × List RxOut × MacState) : Prop :=
  match st with
  | .cont o r' => res.1 = some o ∧ RunRel r r' res.2.1 res.2.2 ∧ r'.script = (parseWin cc r.script).2
  | .radioErr r' => res.1 = none ∧ RunRel r r' res.2.1 res.2.2
  | .macErr r' => res.1 = none ∧ RunRel r r' res.2.1 res.2.2

theorem startDelay_extra (delay txMs lead : Nat) (e : Fault) (h : startDelay delay txMs lead = .error e) : Extra e := by
  unfold startDelay at h
  split at h
  · cases h; exact Or.inl rfl
  · split at h
    · cases h; exact Or.inr rfl
    · cases h

theorem listenC_tail (cc : Bool) (m1 : MacState) (i2 i3 : ScriptItem) (mp : Nat) (os : List RxOut)
    (h2 : i2.isErr = false) :
    (do let om ← window m1 i2.frame? mp
        closeWindow cc om.2
        if i3.isErr then pure (none, os ++ om.1.toList, om.2) else pure (some om.1, os ++ om.1.toList, om.2)) =
      (listenC cc m1 i2 i3 mp >>= fun x => pure (x.1, os ++ x.2.1, x.2.2)) := by
  unfold listenC
  simp only [h2, Bool.false_eq_true, if_false, bind_assoc]
  congr 1; funext om
  congr 1; funext _
  by_cases h3 : i3.isErr = true <;> simp [h3]

theorem oneWindow_sim (hXh : X (.hang "between_windows")) (cfg : DevCfg) (join second : Bool) (rf : RfConfig) (r : DevRun)
    (hXd : ∀ e, startDelay (macRxDelay r.m join second) cfg.txMs cfg.lead = .error e → X e) :
    SimX X (oneWindow cfg join second rf r)
      (winC cfg.classC r.m (parseWin cfg.classC r.script).1.cs (parseWin cfg.classC r.script).1.f rf.maxPayload.toNat
        (parseWin cfg.classC r.script).1.errBefore (parseWin cfg.classC r.script).1.errAfter)
      (WinPost cfg.classC r) := by
  have hcs : (parseWin cfg.classC r.script).1.cs = (parseBetween cfg.classC r.script).2.1 := by
    unfold parseWin parseListen
    by_cases h : (parseBetween cfg.classC r.script).1 = true
    · simp only [h, if_true]
      unfold parseBetween at h ⊢
      by_cases he : (nextItem r.script).1.isErr = true
      · simp [he]
      · cases hcc : cfg.classC <;> simp [he, hcc] at h
    · simp only [h, Bool.false_eq_true, if_false]
      split <;> (try split) <;> rfl
  unfold oneWindow winC
  refine SimX.extra hXd (fun d _ => ?_)
  rw [hcs]
  refine SimX.bind (betweenWindows_sim hXh cfg d r) ?_
  intro st res hp
  obtain ⟨os, fin, m1⟩ := res
  cases st with
  | radioErr r1 =>
    obtain ⟨hb, hrel⟩ := hp
    have hw : (parseWin cfg.classC r.script).1.errBefore = true := by simp [parseWin, hb]
    simp only [hw, Bool.or_true, if_true]
    exact SimX.pure ⟨rfl, hrel⟩
  | macErr r1 =>
    obtain ⟨hb, hfin, hrel⟩ := hp
    simp only at hfin
    simp only [hfin, Bool.not_false, Bool.true_or, if_true]
    exact SimX.pure ⟨rfl, hrel⟩
  | cont u r1 =>
    obtain ⟨hb, hfin, hrel, hscr⟩ := hp
    simp only at hfin hrel
    have hpw : parseWin cfg.classC r.script = parseListen (parseBetween cfg.classC r.script).2.1 r1.script := by
      simp [parseWin, hb, hscr]
    subst hfin
    have hm1 : r1.m = m1 := hrel.m
    simp only [Bool.not_true, Bool.false_or]
    rw [simpleCall_eq]
    by_cases h1 : (nextItem r1.script).1.isErr = true
    · have hw : (parseWin cfg.classC r.script).1.errBefore = true := by simp [hpw, parseListen, h1]
      simp only [h1, hw, if_true]
      exact SimX.pure ⟨rfl, hm1 ▸ hrel.trans_silent (afterCall_rel r1 _ rfl)⟩
    · simp only [h1, Bool.false_eq_true, if_false]
      have hsim := rxListen_sim (X := X) cfg rf (afterCall r1 (.setupRx rf (some cfg.buffer)))
      by_cases h2 : (nextItem (nextItem r1.script).2).1.isErr = true
      · have hw : (parseWin cfg.classC r.script).1.errBefore = true := by simp [hpw, parseListen, h1, h2]
        simp only [hw, if_true]
        simp only [listenC, afterCall, h2, if_true] at hsim
        refine hsim.of_pure ?_
        intro st hp
        cases st with
        | cont o r' => simp [ListenPost] at hp
        | macErr r' => exact hp.elim
        | radioErr r' =>
          obtain ⟨_, hp⟩ := hp
          exact ⟨rfl, hm1 ▸ (hrel.trans_silent (afterCall_rel r1 _ rfl)).trans_silent hp⟩
      · have hwb : (parseWin cfg.classC r.script).1.errBefore = false := by simp [hpw, parseListen, h1, h2]
        have hwf : (parseWin cfg.classC r.script).1.f = (nextItem (nextItem r1.script).2).1.frame? := by
          simp [hpw, parseListen, h1, h2]
        have hwa : (parseWin cfg.classC r.script).1.errAfter = (nextItem (nextItem (nextItem r1.script).2).2).1.isErr := by
          simp [hpw, parseListen, h1, h2]
        have hwr : (parseWin cfg.classC r.script).2 = (nextItem (nextItem (nextItem r1.script).2).2).2 := by
          simp [hpw, parseListen, h1, h2]
        simp only [hwb, hwf, hwa, Bool.false_eq_true, if_false]
        rw [listenC_tail _ _ _ _ _ _ (by simpa using h2)]
        rw [← hm1]
        refine hsim.map_right ?_
        intro st res hp
        cases st with
        | cont o r' =>
          obtain ⟨h1', h2', h3'⟩ := hp
          exact ⟨h1', (hrel.trans_silent (afterCall_rel r1 _ rfl)).trans h2', by rw [h3', hwr]; rfl⟩
        | macErr r' => exact hp.elim
        | radioErr r' =>
          obtain ⟨h1', h2'⟩ := hp
          exact ⟨h1', (hrel.trans_silent (afterCall_rel r1 _ rfl)).trans h2'⟩

/-! ## the whole receive procedure -/

theorem winC_errBefore (cc : Bool) (m : MacState) (cs : List (RxView × Int)) (f : Option (RxView × Int)) (mp : Nat)
    (ea ea' : Bool) : winC cc m cs f mp true ea = winC cc m cs f mp true ea' := by
  unfold winC
  simp

theorem winC_some (cc : Bool) (m : MacState) (cs : List (RxView × Int)) (f : Option (RxView × Int)) (mp : Nat)
    (eb ea : Bool) (o : Option RxOut) (h : List RxOut) (m' : MacState)
    (hw : winC cc m cs f mp eb ea = .ok (some o, h, m')) : eb = false ∧ ea = false := by
  unfold winC at hw
  obtain ⟨⟨os, fin, m1⟩, _, hw⟩ := Except.bind_eq_ok hw
  simp only at hw
  split at hw
  · cases hw
  · rename_i hc
    obtain ⟨⟨o1, m2⟩, _, hw⟩ := Except.bind_eq_ok hw
    obtain ⟨_, _, hw⟩ := Except.bind_eq_ok hw
    simp only at hw
    split at hw
    · cases hw
    · rename_i ha
      simp only [Bool.or_eq_true, not_or] at hc
      exact ⟨by simpa using hc.2, by simpa using ha⟩

theorem faultOf_ne_tx (w1 w2 : WinAbs) : faultOf w1 w2 ≠ some .tx := by
  unfold faultOf
  repeat' split
  all_goals simp

theorem winC_fault1 (cc : Bool) (m : MacState) (mp : Nat) (w1 w2 : WinAbs) :
    winC cc m w1.cs w1.f mp (faultOf w1 w2 == some .before1) (faultOf w1 w2 == some .close1) =
      winC cc m w1.cs w1.f mp w1.errBefore w1.errAfter := by
  cases hb : w1.errBefore with
  | true =>
    have : faultOf w1 w2 = some .before1 := by simp [faultOf, hb]
    rw [this]
    exact winC_errBefore _ _ _ _ _ _ _
  | false =>
    cases ha : w1.errAfter with
    | true =>
      have : faultOf w1 w2 = some .close1 := by simp [faultOf, hb, ha]
      rw [this]; rfl
    | false =>
      have h1 : (faultOf w1 w2 == some .before1) = false := by
        cases hb2 : w2.errBefore <;> cases ha2 : w2.errAfter <;> simp [faultOf, hb, ha, hb2, ha2]
      have h2 : (faultOf w1 w2 == some .close1) = false := by
        cases hb2 : w2.errBefore <;> cases ha2 : w2.errAfter <;> simp [faultOf, hb, ha, hb2, ha2]
      rw [h1, h2]

theorem winC_fault2 (cc : Bool) (m : MacState) (mp : Nat) (w1 w2 : WinAbs) (hb1 : w1.errBefore = false)
    (ha1 : w1.errAfter = false) :
    winC cc m w2.cs w2.f mp (faultOf w1 w2 == some .before2) (faultOf w1 w2 == some .close2) =
      winC cc m w2.cs w2.f mp w2.errBefore w2.errAfter := by
  cases hb : w2.errBefore with
  | true =>
    have : faultOf w1 w2 = some .before2 := by simp [faultOf, hb, hb1, ha1]
    rw [this]
    exact winC_errBefore _ _ _ _ _ _ _
  | false =>
    cases ha : w2.errAfter with
    | true =>
      have : faultOf w1 w2 = some .close2 := by simp [faultOf, hb, ha, hb1, ha1]
      rw [this]; rfl
    | false =>
      have : faultOf w1 w2 = none := by simp [faultOf, hb, ha, hb1, ha1]
      rw [this]; rfl

/-- how `rx_downlink` ends, against the MAC-level procedure: a response of a window, the completion
(`rx2_complete`, which the front-end performs itself), or an error -/
def ProcPost (r : DevRun) (st : Step Response) (res : ProcEnd × List RxOut × MacState) : Prop :=
  match st with
  | .cont resp r' =>
    (∃ o, res.1 = .resp o ∧ resp = o.resp ∧ RunRel r r' res.2.1 res.2.2) ∨
    (res.1 = .complete ∧ resp = (macRx2Complete res.2.2).1 ∧ RunRel r r' res.2.1 (macRx2Complete res.2.2).2)
  | .radioErr r' => res.1 = .cut ∧ RunRel r r' res.2.1 res.2.2
  | .macErr r' => res.1 = .cut ∧ RunRel r r' res.2.1 res.2.2

theorem rxDownlink_sim (hXh : X (.hang "between_windows")) (cfg : DevCfg) (join : Bool) (tx : TxOut) (r : DevRun)
    (hXd : ∀ second e, startDelay (macRxDelay r.m join second) cfg.txMs cfg.lead = .error e → X e) :
    SimX X (rxDownlink cfg join tx r)
      (cycleC cfg.classC r.m
        (faultOf (parseWin cfg.classC r.script).1 (parseWin cfg.classC (parseWin cfg.classC r.script).2).1)
        (parseWin cfg.classC r.script).1.cs (parseWin cfg.classC r.script).1.f
        (parseWin cfg.classC (parseWin cfg.classC r.script).2).1.cs (parseWin cfg.classC (parseWin cfg.classC r.script).2).1.f
        tx.rx1.maxPayload.toNat tx.rx2.maxPayload.toNat)
      (ProcPost r) := by
  unfold rxDownlink cycleC
  simp only [faultOf_ne_tx, if_false]
  rw [winC_fault1]
  refine SimX.bind_eq (oneWindow_sim hXh cfg join false tx.rx1 r (hXd false)) ?_
  intro st res _ hres hp
  obtain ⟨r1, h1, m1⟩ := res
  cases st with
  | radioErr r' =>
    obtain ⟨e, hrel⟩ := hp
    simp only at e hrel
    subst e
    exact SimX.pure ⟨rfl, hrel⟩
  | macErr r' =>
    obtain ⟨e, hrel⟩ := hp
    simp only at e hrel
    subst e
    exact SimX.pure ⟨rfl, hrel⟩
  | cont o r' =>
    obtain ⟨e, hrel, hscr⟩ := hp
    simp only at e hrel
    subst e
    obtain ⟨hb1, ha1⟩ := winC_some _ _ _ _ _ _ _ _ _ _ hres
    cases o with
    | some o => exact SimX.pure (Or.inl ⟨o, rfl, rfl, hrel⟩)
    | none =>
      simp only
      rw [winC_fault2 _ _ _ _ _ hb1 ha1]
      have hm : r'.m = m1 := hrel.m
      rw [← hm, ← hscr]
      have hcfg : r'.m.cfg = r.m.cfg := by rw [hm]; exact winC_none_cfg _ _ _ _ _ _ _ _ _ hres
      refine SimX.bind (oneWindow_sim hXh cfg join true tx.rx2 r' (by
        intro e he
        have : macRxDelay r'.m join true = macRxDelay r.m join true := by unfold macRxDelay; rw [hcfg]
        rw [this] at he
        exact hXd true e he)) ?_
      intro st2 res2 hp2
      obtain ⟨r2, h2, m2⟩ := res2
      cases st2 with
      | radioErr r'' =>
        obtain ⟨e, hrel2⟩ := hp2
        simp only at e hrel2
        subst e
        exact SimX.pure ⟨rfl, hrel.trans hrel2⟩
      | macErr r'' =>
        obtain ⟨e, hrel2⟩ := hp2
        simp only at e hrel2
        subst e
        exact SimX.pure ⟨rfl, hrel.trans hrel2⟩
      | cont o2 r'' =>
        obtain ⟨e, hrel2, _⟩ := hp2
        simp only at e hrel2
        subst e
        cases o2 with
        | some o => exact SimX.pure (Or.inl ⟨o, rfl, rfl, hrel.trans hrel2⟩)
        | none =>
          refine SimX.pure (Or.inr ⟨rfl, ?_, ?_⟩)
          · simp only; rw [hrel2.m]
          · have := hrel.trans hrel2
            refine ⟨?_, this.dls, this.cap, this.calls⟩
            simp only; rw [hrel2.m]

/-! ## `send` and `join` -/

/-- the response as the history reports it: a radio (or `NotJoined`) error is `none` -/
def DevResult.resp? : DevResult → Option Response
  | .ok r => some r
  | _ => none

/-- the front-end's answer against the event's output -/
def RespRel (res : DevResult) : Out → Prop
  | .notJoined => res = .errMac
  | .up _ resp _ => res.resp? = resp
  | .join _ resp => res.resp? = resp
  | _ => False

/-- the calls logged by the operation against the event's output: exactly one transmission, of the
frame and with the radio configuration of the event's output (none if the MAC refused) -/
def TxRel (r r' : DevRun) : Out → Prop
  | .notJoined => r'.calls = r.calls
  | .up o _ _ => ∃ added, r'.calls = added ++ Call.tx o.tx (frameLen o.frame) :: r.calls ∧ ∀ c ∈ added, c.isTx = false
  | .join o _ => ∃ added, r'.calls = added ++ Call.tx o.tx 23 :: r.calls ∧ ∀ c ∈ added, c.isTx = false
  | _ => False

/-- **what the refinement relates**: MAC state, generator state, the downlink queue (every output
the event lists was offered to it, in order), the response, the transmission -/
structure OpRel {σ} (r : DevRun) (a : DevResult × DevRun × σ) (b : (MacState × σ) × OutC) : Prop where
  m : a.2.1.m = b.1.1
  rng : a.2.2 = b.1.2
  dls : a.2.1.downlinks = pushDls r.dlCap r.downlinks b.2.heard
  cap : a.2.1.dlCap = r.dlCap
  resp : RespRel a.1 b.2.out
  tx : TxRel r a.2.1 b.2.out

theorem macSend_cfg' {σ} (g : Rng σ) (m : MacState) (data : List Nat) (fport : Nat) (conf : Bool) (rs rs' : σ)
    (o : Option SendOut) (m' : MacState) (h : macSend g m data fport conf rs = .ok (o, m', rs')) : m'.cfg = m.cfg := by
  unfold macSend at h
  split at h
  · obtain ⟨⟨desc, s1⟩, _, h⟩ := Except.bind_eq_ok h
    obtain ⟨dr, _, h⟩ := Except.bind_eq_ok h
    obtain ⟨⟨tx, region, rs1⟩, _, h⟩ := Except.bind_eq_ok h
    obtain ⟨pw, _, h⟩ := Except.bind_eq_ok h
    obtain ⟨⟨rx1, rx2⟩, _, h⟩ := Except.bind_eq_ok h
    simp only [pure, Except.pure, Except.ok.injEq, Prod.mk.injEq] at h
    rw [← h.2.1]
  · simp only [pure, Except.pure, Except.ok.injEq, Prod.mk.injEq] at h
    rw [← h.2.1]

theorem respRel_fault (m : MacState) (alt : DevResult) (halt : alt.resp? = none) (o : SendOut) :
    RespRel (if faultExpired m then .ok .sessionExpired else alt)
      (.up o (if faultExpired m then some .sessionExpired else none) none) := by
  by_cases hx : faultExpired m = true
  · simp [RespRel, hx, DevResult.resp?]
  · simp only [RespRel, hx, Bool.false_eq_true, if_false]; exact halt

theorem asyncSend_sim {σ} (hXh : X (.hang "between_windows")) (g : Rng σ) (cfg : DevCfg) (r : DevRun) (data : List Nat)
    (port : Nat) (conf : Bool) (rs : σ)
    (hXd : ∀ second e, startDelay (macRxDelay r.m false second) cfg.txMs cfg.lead = .error e → X e) :
    SimX X (asyncSend g cfg r data port conf rs) (stepC g (r.m, rs) (abstractSendC cfg r.script data port conf)) (OpRel r) := by
  unfold asyncSend abstractSendC
  by_cases he : (nextItem r.script).1.isErr = true
  · simp only [he, if_true, stepC]
    refine SimX.same _ (fun oms _ => ?_)
    obtain ⟨o, m, rs1⟩ := oms
    cases o with
    | none => exact SimX.pure ⟨rfl, rfl, by simp [pushDls], rfl, rfl, rfl⟩
    | some out =>
      simp only [simpleCall_eq, he, if_true, cycleC, pure_bind]
      exact SimX.pure ⟨rfl, rfl, by simp [pushDls, afterCall], rfl, respRel_fault _ _ rfl _, ⟨[], rfl, by simp⟩⟩
  · simp only [he, Bool.false_eq_true, if_false, stepC]
    refine SimX.same _ (fun oms _ => ?_)
    obtain ⟨o, m, rs1⟩ := oms
    cases o with
    | none => exact SimX.pure ⟨rfl, rfl, by simp [pushDls], rfl, rfl, rfl⟩
    | some out =>
      simp only [simpleCall_eq, he, Bool.false_eq_true, if_false]
      rename_i hsend
      have hmc : m.cfg = r.m.cfg := macSend_cfg' g _ _ _ _ _ _ _ _ hsend
      refine SimX.bind (rxDownlink_sim hXh cfg false out.tx ((afterCall { r with m := m } (.tx out.tx (frameLen out.frame))).log .reset) (by
        intro second e he
        have : macRxDelay ((afterCall { r with m := m } (.tx out.tx (frameLen out.frame))).log .reset).m false second =
            macRxDelay r.m false second := by
          show macRxDelay m false second = _
          unfold macRxDelay; rw [hmc]
        rw [this] at he
        exact hXd second e he)) ?_
      intro st res hp
      obtain ⟨fin, heard, m2⟩ := res
      have hbase : ∀ (r' : DevRun) (m' : MacState),
          RunRel ((afterCall { r with m := m } (.tx out.tx (frameLen out.frame))).log .reset) r' heard m' →
          r'.m = m' ∧ r'.downlinks = pushDls r.dlCap r.downlinks heard ∧ r'.dlCap = r.dlCap ∧
            ∃ added, r'.calls = added ++ Call.tx out.tx (frameLen out.frame) :: r.calls ∧ ∀ c ∈ added, c.isTx = false := by
        intro r' m' hrel
        refine ⟨hrel.m, hrel.dls, hrel.cap, ?_⟩
        obtain ⟨added, hc, hn⟩ := hrel.calls
        refine ⟨added ++ [.reset], by rw [hc]; simp [afterCall, DevRun.log], ?_⟩
        intro c hcm
        rcases List.mem_append.mp hcm with h | h
        · exact hn c h
        · simp at h; subst h; rfl
      cases st with
      | cont resp r' =>
        rcases hp with ⟨o, e, hresp, hrel⟩ | ⟨e, hresp, hrel⟩
        · simp only at e hresp hrel
          subst e
          obtain ⟨h1, h2, h3, h4⟩ := hbase r' m2 hrel
          exact SimX.pure ⟨h1, rfl, h2, h3, by simp [RespRel, DevResult.resp?, hresp], h4⟩
        · simp only at e hresp hrel
          subst e
          obtain ⟨h1, h2, h3, h4⟩ := hbase r' _ hrel
          exact SimX.pure ⟨h1, rfl, h2, h3, by simp [RespRel, DevResult.resp?, hresp], h4⟩
      | radioErr r' =>
        obtain ⟨e, hrel⟩ := hp
        simp only at e hrel
        subst e
        obtain ⟨h1, h2, h3, h4⟩ := hbase r' m2 hrel
        subst h1
        exact SimX.pure ⟨rfl, rfl, h2, h3, respRel_fault _ _ rfl _, h4⟩
      | macErr r' =>
        obtain ⟨e, hrel⟩ := hp
        simp only at e hrel
        subst e
        obtain ⟨h1, h2, h3, h4⟩ := hbase r' m2 hrel
        subst h1
        exact SimX.pure ⟨rfl, rfl, h2, h3, respRel_fault _ _ rfl _, h4⟩

theorem asyncJoin_sim {σ} (hXh : X (.hang "between_windows")) (g : Rng σ) (cfg : DevCfg) (r : DevRun) (rs : σ)
    (hXd : ∀ second e, startDelay (macRxDelay r.m true second) cfg.txMs cfg.lead = .error e → X e) :
    SimX X (asyncJoin g cfg r rs) (stepC g (r.m, rs) (abstractJoinC cfg r.script)) (OpRel r) := by
  unfold asyncJoin abstractJoinC
  by_cases he : (nextItem r.script).1.isErr = true
  · simp only [he, if_true, stepC]
    refine SimX.same _ (fun oms _ => ?_)
    obtain ⟨out, m, rs1⟩ := oms
    simp only [simpleCall_eq, he, if_true, cycleC, pure_bind]
    exact SimX.pure ⟨rfl, rfl, by simp [pushDls, afterCall], rfl, rfl, ⟨[], rfl, by simp⟩⟩
  · simp only [he, Bool.false_eq_true, if_false, stepC]
    refine SimX.same _ (fun oms _ => ?_)
    obtain ⟨out, m, rs1⟩ := oms
    simp only [simpleCall_eq, he, Bool.false_eq_true, if_false]
    refine SimX.bind (rxDownlink_sim hXh cfg true out.tx ((afterCall { r with m := m } (.tx out.tx 23)).log .reset) (by
      intro second e he
      have : macRxDelay ((afterCall { r with m := m } (.tx out.tx 23)).log .reset).m true second = macRxDelay r.m true second := by
        cases second <;> rfl
      rw [this] at he
      exact hXd second e he)) ?_
    intro st res hp
    obtain ⟨fin, heard, m2⟩ := res
    have hbase : ∀ (r' : DevRun) (m' : MacState),
        RunRel ((afterCall { r with m := m } (.tx out.tx 23)).log .reset) r' heard m' →
        r'.m = m' ∧ r'.downlinks = pushDls r.dlCap r.downlinks heard ∧ r'.dlCap = r.dlCap ∧
          ∃ added, r'.calls = added ++ Call.tx out.tx 23 :: r.calls ∧ ∀ c ∈ added, c.isTx = false := by
      intro r' m' hrel
      refine ⟨hrel.m, hrel.dls, hrel.cap, ?_⟩
      obtain ⟨added, hc, hn⟩ := hrel.calls
      refine ⟨added ++ [.reset], by rw [hc]; simp [afterCall, DevRun.log], ?_⟩
      intro c hcm
      rcases List.mem_append.mp hcm with h | h
      · exact hn c h
      · simp at h; subst h; rfl
    cases st with
    | cont resp r' =>
      rcases hp with ⟨o, e, hresp, hrel⟩ | ⟨e, hresp, hrel⟩
      · simp only at e hresp hrel
        subst e
        obtain ⟨h1, h2, h3, h4⟩ := hbase r' m2 hrel
        exact SimX.pure ⟨h1, rfl, h2, h3, by simp [RespRel, DevResult.resp?, hresp], h4⟩
      · simp only at e hresp hrel
        subst e
        obtain ⟨h1, h2, h3, h4⟩ := hbase r' _ hrel
        exact SimX.pure ⟨h1, rfl, h2, h3, by simp [RespRel, DevResult.resp?, hresp], h4⟩
    | radioErr r' =>
      obtain ⟨e, hrel⟩ := hp
      simp only at e hrel
      subst e
      obtain ⟨h1, h2, h3, h4⟩ := hbase r' m2 hrel
      exact SimX.pure ⟨h1, rfl, h2, h3, rfl, h4⟩
    | macErr r' =>
      obtain ⟨e, hrel⟩ := hp
      simp only at e hrel
      subst e
      obtain ⟨h1, h2, h3, h4⟩ := hbase r' m2 hrel
      exact SimX.pure ⟨h1, rfl, h2, h3, rfl, h4⟩

/-! ### the instances for `Extra` (no assumption on the board's timing constants) -/

theorem extra_hang : Extra (.hang "between_windows") := rfl

theorem asyncSend_simE {σ} (g : Rng σ) (cfg : DevCfg) (r : DevRun) (data : List Nat) (port : Nat) (conf : Bool) (rs : σ) :
    SimX Extra (asyncSend g cfg r data port conf rs) (stepC g (r.m, rs) (abstractSendC cfg r.script data port conf)) (OpRel r) :=
  asyncSend_sim extra_hang g cfg r data port conf rs (fun _ e he => startDelay_extra _ _ _ e he)

theorem asyncJoin_simE {σ} (g : Rng σ) (cfg : DevCfg) (r : DevRun) (rs : σ) :
    SimX Extra (asyncJoin g cfg r rs) (stepC g (r.m, rs) (abstractJoinC cfg r.script)) (OpRel r) :=
  asyncJoin_sim extra_hang g cfg r rs (fun _ e he => startDelay_extra _ _ _ e he)

end Model
