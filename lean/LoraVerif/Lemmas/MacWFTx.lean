import LoraVerif.Lemmas.MacWFSelect
/-!
The transmit side: building the uplink (`prepare_buffer`), the radio configurations of the receive
windows (`build_rf_config` with its RX2 fallback), the conducted power (`i8` arithmetic), and the two
calls that hand a frame to the radio, `Mac::send` and `Mac::join_otaa`: none panics in a
well-formed state (`Safe`: channel selection may exhaust its draw budget), and the state they leave
is well-formed again.
-/
open Gen.Region Gen.Modulation

namespace Model

theorem retainSticky_length (fuel : Nat) (l : List Nat) : (retainSticky fuel l).length ≤ l.length := by
  induction fuel generalizing l with
  | zero => simp [retainSticky]
  | succ fuel ih =>
    cases l with
    | nil => simp [retainSticky]
    | cons cid rest =>
      unfold retainSticky
      split
      · simp
      · rename_i n _
        split
        · simp
        · have := ih (rest.drop n)
          simp only [List.length_append, List.length_drop, List.length_cons] at this ⊢
          split
          · simp only [List.length_cons, List.length_take]; omega
          · simp only [List.length_nil]; omega

/-- building an uplink never panics when the application respects the API: no payload on port 0,
at most 222 payload bytes (with at most 15 bytes of pending MAC answers the frame fits 255 bytes) -/
theorem prepareBuffer_tot (s : Session) (cfg : Config) (r : RegionId) (data : List Nat) (fport : Nat) (conf : Bool)
    (hp : s.pending.length ≤ 15) (h0 : fport = 0 → data = []) (hl : data.length ≤ 222) :
    Tot (prepareBuffer s cfg r data fport conf) (fun x => x.2.pending.length ≤ 15) := by
  unfold prepareBuffer
  simp only
  split
  · rename_i hc
    simp only [Bool.and_eq_true, beq_iff_eq, Bool.not_eq_true', List.isEmpty_eq_false_iff] at hc
    exact absurd (h0 hc.1) hc.2
  · have htot : ¬ (1 + 7 + (if (fport != 0) = true then (s.pending, data) else ([], s.pending)).1.length + 1 +
        (if (fport != 0) = true then (s.pending, data) else ([], s.pending)).2.length + 4 ≥ 256) := by
      split <;> simp only [List.length_nil] <;> omega
    generalize (if (fport != 0) = true then (s.pending, data) else (([] : List Nat), s.pending)) = fp at htot
    obtain ⟨fopts, payload⟩ := fp
    simp only at htot ⊢
    have h1 : ¬ (1 + 7 + fopts.length + 1 + payload.length + 4 > 256) := by omega
    simp only [h1, htot, if_false]
    refine Tot.pure ?_
    simp only
    exact Nat.le_trans (retainSticky_length _ _) hp

theorem buildRfConfig_tot (m : MacState) (freq : Nat) (dr txDr : DR) (hoff : m.cfg.rx1DrOffset < 8) :
    Tot (buildRfConfig m freq dr txDr) (fun _ => True) := by
  unfold buildRfConfig
  split
  · exact Tot.pure trivial
  · have := rx2_fallback_all m.region.id m.region.id.mem_all txDr (dr_mem_all txDr) m.cfg.rx1DrOffset (List.mem_range.mpr hoff)
    cases hrx : rxDatarate m.region.id txDr m.cfg.rx1DrOffset Window._2 with
    | error e => rw [hrx] at this; cases this
    | ok d2 =>
      rw [hrx] at this
      simp only at this
      simp only [ok_bind]
      cases hg : getDatarate m.region.id d2.toInt.toNat with
      | none => rw [hg] at this; cases this
      | some d => exact Tot.pure trivial

theorem rx2RfConfig_tot (m : MacState) (txDr : DR) (hoff : m.cfg.rx1DrOffset < 8) :
    Tot (rx2RfConfig m txDr) (fun _ => True) := by
  unfold rx2RfConfig
  simp only
  have hdr : Tot (match m.cfg.rx2DataRate with
      | some d => drOfNat d
      | none => rxDatarate m.region.id txDr m.cfg.rx1DrOffset Window._2) (fun _ => True) := by
    cases m.cfg.rx2DataRate with
    | some d => exact Tot.mono (drOfNat_tot d) (fun _ _ => trivial)
    | none => exact rxDatarate_tot _ _ _ _ hoff
  exact Tot.bind hdr (fun dr _ => buildRfConfig_tot m _ dr txDr hoff)

theorem rxWindows_tot (m : MacState) (tx : TxChannel) (hoff : m.cfg.rx1DrOffset < 8) :
    Tot (rxWindows m tx) (fun _ => True) := by
  unfold rxWindows
  refine Tot.bind (rxDatarate_tot _ _ _ _ hoff) (fun rx1Dr _ => ?_)
  refine Tot.bind (buildRfConfig_tot m _ rx1Dr tx.dr hoff) (fun rx1 _ => ?_)
  exact Tot.bind (rx2RfConfig_tot m tx.dr hoff) (fun rx2 _ => Tot.pure trivial)

theorem macRxcConfig_tot (m : MacState) (h : MacWF m) : Tot (macRxcConfig m) (fun _ => True) := by
  unfold macRxcConfig
  exact Tot.bind (drOfNat_tot _) (fun d _ => rx2RfConfig_tot m d (cfgWF_iff.mp h.cfg).2)

theorem basePower_spec (r : RegionId) :
    ∃ p0 : Nat, txPowerAdjust r 0 = .ok (some p0) ∧ Rt.wrap .i8 (p0 : Int) = (p0 : Int) ∧ basePower r = some p0 := by
  cases r <;> exact ⟨_, rfl, by decide, rfl⟩

/-- the conducted power computation (`i8` arithmetic) does not overflow for an antenna gain within
`gainOk`, whatever limit (radio maximum, commanded level) is handed in -/
theorem txPowerFor_tot (r : RegionId) (limit : Nat) (gain : Int) (hg : gainOk r gain = true) :
    Tot (txPowerFor r limit gain) (fun _ => True) := by
  obtain ⟨p0, h1, h2, h3⟩ := basePower_spec r
  unfold gainOk at hg
  rw [h3] at hg
  simp only [decide_eq_true_eq] at hg
  unfold txPowerFor
  simp only [h1, ok_bind, pure, Except.pure, h2]
  have : Rt.ck .i8 ((p0 : Int) - gain) = some ((p0 : Int) - gain) := by
    apply Rt.ck_eq_some
    have hlo : Rt.ITy.lo .i8 = -128 := by decide
    have hhi : Rt.ITy.hi .i8 = 127 := by decide
    rw [hlo, hhi]
    omega
  simp only [this, ofGen, ok_bind]
  exact ⟨_, rfl, trivial⟩

theorem drOfNat_uplink {r : RegionId} {n : Nat} (h : isUplinkDatarate r n = true) :
    Tot (drOfNat n) (fun d => isUplinkDatarate r d.toInt.toNat = true) := by
  obtain ⟨_, _, hlt⟩ := isUplink_get h
  refine Tot.mono (drOfNat_tot n) (fun d hd => ?_)
  rw [hd, Nat.mod_eq_of_lt (by omega)]; exact h

/-- **`Mac::send` never panics** in a well-formed state when the application respects the API -/
theorem macSend_safe {σ} (g : Rng σ) (m : MacState) (data : List Nat) (fport : Nat) (conf : Bool) (rs : σ)
    (h : MacWF m) (h0 : fport = 0 → data = []) (hl : data.length ≤ 222) :
    Safe (macSend g m data fport conf rs) (fun r => Keeps m r.2.1) := by
  unfold macSend
  cases hst : m.st with
  | joined s =>
    simp only
    have hp : s.pending.length ≤ 15 := by
      have := h.pending; rw [hst] at this; simpa [pendingOk] using this
    refine Safe.tbind (prepareBuffer_tot s m.cfg m.region.id data fport conf hp h0 hl) ?_
    intro ⟨desc, s'⟩ hs'
    simp only at hs' ⊢
    refine Safe.tbind (drOfNat_uplink (cfgWF_iff.mp h.cfg).1) (fun dr hdr => ?_)
    refine Safe.bind (selectTxChannel_safe g m.region dr .data rs h.region hdr) ?_
    intro ⟨tx, region, rs'⟩ ⟨hr1, hr2⟩
    simp only at hr1 hr2 ⊢
    refine Safe.tbind (txPowerFor_tot _ _ _ (by rw [hr2]; exact h.gain)) (fun pw _ => ?_)
    have hk : Keeps m { cfg := m.cfg, region := region, maxPower := m.maxPower, antennaGain := m.antennaGain, st := .joined s' } :=
      keeps_mk h m.cfg region (.joined s') hr1 hr2 h.cfg (by simpa [pendingOk] using hs')
    refine Safe.tbind (rxWindows_tot _ tx (cfgWF_iff.mp h.cfg).2) ?_
    intro ⟨rx1, rx2⟩ _
    exact Safe.pure hk
  | otaa o => exact Safe.pure (Keeps.refl h)
  | unjoined => exact Safe.pure (Keeps.refl h)

/-- **`Mac::join_otaa` never panics** in a well-formed state -/
theorem macJoinOtaa_safe {σ} (g : Rng σ) (m : MacState) (rs : σ) (h : MacWF m) :
    Safe (macJoinOtaa g m rs) (fun r => Keeps m r.2.1) := by
  unfold macJoinOtaa
  simp only
  refine Safe.tbind (drOfNat_uplink (cfgWF_iff.mp h.cfg).1) (fun dr hdr => ?_)
  refine Safe.bind (selectTxChannel_safe g m.region dr .join _ h.region hdr) ?_
  intro ⟨tx, region, rs'⟩ ⟨hr1, hr2⟩
  simp only at hr1 hr2 ⊢
  refine Safe.tbind (txPowerFor_tot _ _ _ (by rw [hr2]; exact h.gain)) (fun pw _ => ?_)
  refine Safe.tbind (rxWindows_tot _ tx (cfgWF_iff.mp h.cfg).2) ?_
  intro ⟨rx1, rx2⟩ _
  exact Safe.pure (keeps_mk h m.cfg region _ hr1 hr2 h.cfg rfl)

end Model
