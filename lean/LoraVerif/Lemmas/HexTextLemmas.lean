import LoraVerif.Model.HexText
import LoraVerif.Spec.HexTextSpec
/-! Lemmas about the hex text forms (`Model/HexText.lean`), used by `Props/C19`. -/
namespace HexText

def IsBytes (d : Bytes) : Prop := ∀ x ∈ d, x < 256
@[simp] theorem isBytes_cons (a : Nat) (d : Bytes) : IsBytes (a :: d) ↔ a < 256 ∧ IsBytes d := by simp [IsBytes]
@[simp] theorem isBytes_nil : IsBytes [] := by simp [IsBytes]
theorem IsBytes.append {a b : Bytes} : IsBytes (a ++ b) ↔ IsBytes a ∧ IsBytes b := by
  simp [IsBytes, or_imp, forall_and]
theorem IsBytes.reverse {a : Bytes} (h : IsBytes a) : IsBytes a.reverse := by
  intro x hx; exact h x (List.mem_reverse.mp hx)

theorem digitVal_digit : ∀ n, n < 16 → digitVal? (digit n) = some n := by decide
theorem digit_ne_plus : ∀ n, n < 16 → digit n ≠ '+' := by decide

theorem hexEncode_append (a b : Bytes) : hexEncode (a ++ b) = hexEncode a ++ hexEncode b := by
  induction a with
  | nil => rfl
  | cons x xs ih => simp [hexEncode, ih]

theorem hexEncode_length (a : Bytes) : (hexEncode a).length = 2 * a.length := by
  induction a with
  | nil => rfl
  | cons x xs ih => simp [hexEncode, ih]; omega

/-- value-based formatting = per-octet MSB-first -/
theorem hexN_leValue (wire : Bytes) (hb : IsBytes wire) : hexN (2 * wire.length) (leValue wire) = hexEncode wire.reverse := by
  induction wire with
  | nil => rfl
  | cons b bs ih =>
    simp at hb
    obtain ⟨hb0, hbs⟩ := hb
    have e : 2 * (b :: bs).length = 2 * bs.length + 1 + 1 := by simp; omega
    rw [e]
    simp only [hexN, leValue, List.reverse_cons, hexEncode_append, hexEncode]
    have h1 : (b + 256 * leValue bs) / 16 / 16 = leValue bs := by omega
    have h2 : (b + 256 * leValue bs) / 16 % 16 = b / 16 := by omega
    have h3 : (b + 256 * leValue bs) % 16 = b % 16 := by omega
    rw [h1, h2, h3, ih hbs]
    simp

theorem leValue_lt (wire : Bytes) (hb : IsBytes wire) : leValue wire < 256 ^ wire.length := by
  induction wire with
  | nil => simp [leValue]
  | cons b bs ih =>
    simp at hb
    have := ih hb.2
    simp only [leValue, List.length_cons, Nat.pow_succ]
    omega

theorem toLeBytes_leValue (wire : Bytes) (hb : IsBytes wire) : toLeBytes wire.length (leValue wire) = wire := by
  induction wire with
  | nil => rfl
  | cons b bs ih =>
    simp at hb
    simp only [List.length_cons, toLeBytes, leValue]
    have h1 : (b + 256 * leValue bs) % 256 = b := by omega
    have h2 : (b + 256 * leValue bs) / 256 = leValue bs := by omega
    rw [h1, h2, ih hb.2]

/-- big-endian value of an octet string -/
def beValue : Bytes → Nat → Nat
  | [], acc => acc
  | b :: bs, acc => beValue bs (acc * 256 + b)

theorem beValue_append (a b : Bytes) (acc : Nat) : beValue (a ++ b) acc = beValue b (beValue a acc) := by
  induction a generalizing acc with
  | nil => rfl
  | cons x xs ih => simp [beValue, ih]

theorem beValue_reverse (wire : Bytes) : beValue wire.reverse 0 = leValue wire := by
  induction wire with
  | nil => rfl
  | cons b bs ih => simp [beValue_append, beValue, leValue, ih]; omega

theorem beValue_mono (bs : Bytes) (acc : Nat) : acc ≤ beValue bs acc := by
  induction bs generalizing acc with
  | nil => exact Nat.le_refl _
  | cons b bs ih => simp only [beValue]; have := ih (acc * 256 + b); omega

/-- the fold of `from_str_radix` over the digits of an octet string -/
theorem radix_fold (bits : Nat) (bs : Bytes) (hb : IsBytes bs) (acc : Nat) (hfin : beValue bs acc < 2 ^ bits) :
    (hexEncode bs).foldl (fun acc c =>
      match acc, digitVal? c with
      | some a, some d => if a * 16 + d < 2 ^ bits then some (a * 16 + d) else none
      | _, _ => none) (some acc) = some (beValue bs acc) := by
  induction bs generalizing acc with
  | nil => rfl
  | cons b bs ih =>
    simp at hb
    obtain ⟨hb0, hbs⟩ := hb
    simp only [hexEncode, List.foldl_cons, beValue] at hfin ⊢
    rw [digitVal_digit _ (by omega), digitVal_digit _ (by omega)]
    have hm := beValue_mono bs (acc * 256 + b)
    have e : (acc * 16 + b / 16) * 16 + b % 16 = acc * 256 + b := by omega
    simp only
    rw [if_pos (by omega)]
    simp only
    rw [if_pos (by omega), e]
    exact ih hbs _ hfin


theorem newtypeToString_eq (wire : Bytes) (hb : IsBytes wire) : newtypeToString wire = hexEncode wire.reverse := by
  have h := leValue_lt wire hb
  have e : (16 : Nat) ^ (2 * wire.length) = 256 ^ wire.length := by
    rw [Nat.pow_mul]
  unfold newtypeToString fmtHex
  rw [if_pos (by rw [e]; exact h)]
  exact hexN_leValue wire hb

theorem stripPlus_cons (c : Char) (cs : List Char) (h : c ≠ '+') : stripPlus (c :: cs) = c :: cs := by
  unfold stripPlus
  split
  · rename_i h'; simp at h'; exact absurd h'.1 h
  · rfl

theorem fromStrRadix16_hexEncode (bits : Nat) (bs : Bytes) (hne : bs ≠ []) (hb : IsBytes bs) (hfin : beValue bs 0 < 2 ^ bits) :
    fromStrRadix16 bits (hexEncode bs) = some (beValue bs 0) := by
  cases bs with
  | nil => exact absurd rfl hne
  | cons b bs =>
    have hb' := hb
    simp at hb'
    have hd := digit_ne_plus (b / 16) (by omega)
    have hs : stripPlus (hexEncode (b :: bs)) = hexEncode (b :: bs) := by
      simp only [hexEncode]; exact stripPlus_cons _ _ hd
    simp only [fromStrRadix16, hs]
    rw [if_neg (by simp [hexEncode])]
    exact radix_fold bits (b :: bs) hb 0 hfin

/-- **newtype round trip** -/
theorem newtype_roundtrip (n bits : Nat) (wire : Bytes) (hl : wire.length = n) (hn : 0 < n) (hb : IsBytes wire)
    (hbits : 8 * n ≤ bits) :
    newtypeFromStr n bits (newtypeToString wire) = some wire := by
  unfold newtypeFromStr
  rw [newtypeToString_eq wire hb]
  have hlen : (hexEncode wire.reverse).length = 2 * n := by rw [hexEncode_length]; simp [hl]
  rw [if_neg (by simp [hlen])]
  have hne : wire.reverse ≠ [] := by
    intro h; have h2 := List.reverse_eq_nil_iff.mp h; subst h2; simp at hl; omega
  have hv := leValue_lt wire hb
  have hfin : beValue wire.reverse 0 < 2 ^ bits := by
    rw [beValue_reverse]
    have : (256 : Nat) ^ wire.length = 2 ^ (8 * n) := by rw [hl, Nat.pow_mul]
    have h2 : 2 ^ (8 * n) ≤ 2 ^ bits := Nat.pow_le_pow_right (by omega) hbits
    omega
  rw [fromStrRadix16_hexEncode bits _ hne hb.reverse hfin, beValue_reverse]
  simp only [Option.map_some]
  rw [← hl, toLeBytes_leValue wire hb]

theorem decodePairs_hexEncode (bs : Bytes) (hb : IsBytes bs) : decodePairs (hexEncode bs) = some bs := by
  induction bs with
  | nil => rfl
  | cons b bs ih =>
    simp at hb
    simp only [hexEncode, decodePairs]
    rw [digitVal_digit _ (by omega), digitVal_digit _ (by omega), ih hb.2]
    simp only
    congr 2
    omega

theorem hexDecode_hexEncode (n : Nat) (bs : Bytes) (hl : bs.length = n) (hb : IsBytes bs) : hexDecode n (hexEncode bs) = .ok bs := by
  unfold hexDecode
  rw [hexEncode_length, hl]
  rw [if_neg (by omega), if_neg (by omega), decodePairs_hexEncode bs hb]

theorem key_roundtrip (k : Bytes) (hl : k.length = 16) (hb : IsBytes k) : keyFromStr (keyToString k) = .ok k :=
  hexDecode_hexEncode 16 k hl hb

theorem eui_roundtrip (w : Bytes) (hl : w.length = 8) (hb : IsBytes w) : euiFromStr (euiToString w) = .ok w := by
  unfold euiFromStr euiToString
  rw [hexDecode_hexEncode 8 w.reverse (by simp [hl]) hb.reverse]
  simp [Except.map]

theorem nibbleChar_eq : ∀ n, n < 16 → Spec.HexText.nibbleChar n = digit n := by decide

theorem msbFirst_eq (bs : Bytes) (hb : IsBytes bs) : Spec.HexText.msbFirst bs = hexEncode bs := by
  induction bs with
  | nil => rfl
  | cons b bs ih =>
    simp at hb
    simp only [Spec.HexText.msbFirst, List.flatMap_cons, hexEncode] at ih ⊢
    rw [nibbleChar_eq _ (by omega), nibbleChar_eq _ (by omega), ih hb.2]
    rfl

end HexText
