import LoraVerif.Model.MacCmd
/-! Lemmas about the generic command iterator of `Model/MacCmd.lean` (used by `Props/C03`, `Props/C19`). -/
namespace MacCmd

/-- the `len()` helper of every variable-length entry of `T` returns (does not panic) on a non-empty slice -/
def VlTotal (T : Table) (vl : VarLen) : Prop :=
  ∀ e ∈ T, e.len = none → ∀ rest : Bytes, rest ≠ [] → ∃ n, vl e.payload rest = .ok n

theorem Table.lookup_mem {T : Table} {cid : Nat} {e : Entry} (h : T.lookup cid = some e) : e ∈ T ∧ e.cid = cid := by
  unfold Table.lookup at h
  have h1 := List.mem_of_find?_eq_some h
  have h2 := List.find?_some h
  simp at h2
  exact ⟨h1, h2⟩

@[simp] theorem index_cons_zero (s : String) (x : Nat) (xs : Bytes) : index s (x :: xs) 0 = .ok x := rfl
@[simp] theorem index_nil (s : String) (i : Nat) : index s [] i = .panic s := rfl

theorem slice_ok {s : String} {d : Bytes} {a b : Nat} (h1 : a ≤ b) (h2 : b ≤ d.length) :
    slice s d a b = .ok ((d.drop a).take (b - a)) := by
  simp [slice, h1, h2]

theorem sliceFrom_ok {s : String} {d : Bytes} {a : Nat} (h : a ≤ d.length) : sliceFrom s d a = .ok (d.drop a) := by
  simp [sliceFrom, h]

/-- what a successful `parse_one` returns -/
structure ParsedShape (T : Table) (vl : VarLen) (data : Bytes) (c : Cmd) (n : Nat) : Prop where
  pos : 1 ≤ n
  le : n ≤ data.length
  wire : c.wire = data.take n
  len : c.payload.length + 1 = n
  entry : ∃ e, T.lookup c.cid = some e ∧ c.variant = e.variant ∧ c.payloadTy = e.payload ∧ (∀ l, e.len = some l → n = 1 + l) ∧
    (e.len = none → ∃ rest, rest ≠ [] ∧ vl e.payload rest = .ok c.payload.length)

theorem parseOne_ok_shape {T : Table} {vl : VarLen} {data : Bytes} {c : Cmd} {n : Nat}
    (h : parseOne T vl data = .ok (.ok (c, n))) : ParsedShape T vl data c n := by
  cases data with
  | nil => simp [parseOne] at h
  | cons cid rest =>
    simp only [parseOne, index_cons_zero, Outcome.ok_bind] at h
    split at h
    · simp at h
    · rename_i e he
      split at h
      · rename_i len hlen
        split at h
        · simp at h
        · rename_i hlt
          simp only [List.length_cons] at hlt
          rw [slice_ok (by omega) (by simp; omega)] at h
          simp only [Outcome.ok_bind, Outcome.ok.injEq, Except.ok.injEq, Prod.mk.injEq] at h
          obtain ⟨rfl, rfl⟩ := h
          refine ⟨by omega, by simp; omega, ?_, ?_, ⟨e, he, rfl, rfl, ?_⟩⟩
          · simp [Cmd.wire, Nat.add_comm 1 len, List.take_succ_cons]
          · simp; omega
          · refine ⟨?_, ?_⟩
            · intro l hl; rw [hlen] at hl; cases hl; rfl
            · intro hl; rw [hlen] at hl; cases hl
      · rename_i hlen
        rw [sliceFrom_ok (by simp)] at h
        simp only [Outcome.ok_bind, List.drop_succ_cons, List.drop_zero] at h
        split at h
        · simp at h
        · rename_i hne
          cases hv : vl e.payload rest with
          | panic s => simp [hv] at h
          | ok len =>
            simp only [hv, Outcome.ok_bind] at h
            split at h
            · simp at h
            · rename_i hlt
              rw [slice_ok (by omega) (by omega)] at h
              simp only [Outcome.ok_bind, Outcome.ok.injEq, Except.ok.injEq, Prod.mk.injEq] at h
              obtain ⟨rfl, rfl⟩ := h
              refine ⟨by omega, by simp; omega, ?_, ?_, ⟨e, he, rfl, rfl, ?_⟩⟩
              · simp [Cmd.wire, Nat.add_comm 1 len, List.take_succ_cons]
              · simp; omega
              · refine ⟨?_, fun _ => ⟨rest, ?_, ?_⟩⟩
                · intro l hl; rw [hlen] at hl; cases hl
                · intro h0; simp [h0] at hne
                · rw [hv]; simp; omega

/-- `parse_one` does not panic on a non-empty slice (the precondition stated in the trait's doc comment) -/
theorem parseOne_no_panic {T : Table} {vl : VarLen} (hvl : VlTotal T vl) {data : Bytes} (hne : data ≠ []) :
    ∃ r, parseOne T vl data = .ok r := by
  cases data with
  | nil => exact absurd rfl hne
  | cons cid rest =>
    simp only [parseOne, index_cons_zero, Outcome.ok_bind]
    split
    · exact ⟨_, rfl⟩
    · rename_i e he
      split
      · rename_i len hlen
        split
        · exact ⟨_, rfl⟩
        · rename_i hlt
          simp only [List.length_cons] at hlt
          rw [slice_ok (by omega) (by simp; omega)]
          exact ⟨_, rfl⟩
      · rename_i hlen
        rw [sliceFrom_ok (by simp)]
        simp only [Outcome.ok_bind, List.drop_succ_cons, List.drop_zero]
        split
        · exact ⟨_, rfl⟩
        · rename_i hne'
          have hne'' : rest ≠ [] := by intro h; simp [h] at hne'
          obtain ⟨len, hv⟩ := hvl e (Table.lookup_mem he).1 hlen rest hne''
          simp only [hv, Outcome.ok_bind]
          split
          · exact ⟨_, rfl⟩
          · rename_i hlt
            rw [slice_ok (by omega) (by omega)]
            exact ⟨_, rfl⟩

/-- an error result names the CID that was read -/
theorem parseOne_err_cid {T : Table} {vl : VarLen} {data : Bytes} {e : ParseError}
    (h : parseOne T vl data = .ok (.error e)) :
    ∃ cid rest, data = cid :: rest ∧ (e = .unknownCid cid ∨ e = .truncated cid) := by
  cases data with
  | nil => simp [parseOne] at h
  | cons cid rest =>
    refine ⟨cid, rest, rfl, ?_⟩
    simp only [parseOne, index_cons_zero, Outcome.ok_bind] at h
    split at h
    · simp at h; exact Or.inl h.symm
    · split at h
      · split at h
        · simp at h; exact Or.inr h.symm
        · generalize slice _ _ _ _ = o at h
          cases o <;> simp at h
      · generalize sliceFrom _ _ _ = o at h
        cases o with
        | panic s => simp at h
        | ok r =>
          simp only [Outcome.ok_bind] at h
          split at h
          · simp at h; exact Or.inr h.symm
          · generalize vl _ _ = o at h
            cases o with
            | panic s => simp at h
            | ok len =>
              simp only [Outcome.ok_bind] at h
              split at h
              · simp at h; exact Or.inr h.symm
              · generalize slice _ _ _ _ = o at h
                cases o <;> simp at h

/-! ### one step of the iterator -/

/-- the possible results of `next` -/
inductive NextCase (T : Table) (vl : VarLen) (s : Iter) : Option Item × Iter → Prop where
  | done (h : s.errored = true ∨ s.data = []) : NextCase T vl s (none, s)
  | cmd (c : Cmd) (n : Nat) (he : s.errored = false) (sh : ParsedShape T vl s.data c n) :
      NextCase T vl s (some (.cmd c), { s with data := s.data.drop n })
  | err (e : ParseError) (he : s.errored = false) (hd : s.data ≠ []) :
      NextCase T vl s (some (.err e), { s with errored := true })

theorem next_cases {T : Table} {vl : VarLen} (hvl : VlTotal T vl) (s : Iter) :
    ∃ r, next T vl s = .ok r ∧ NextCase T vl s r := by
  unfold next
  split
  · rename_i h
    refine ⟨_, rfl, .done ?_⟩
    simp at h
    exact h
  · rename_i h
    simp at h
    obtain ⟨he, hd⟩ := h
    obtain ⟨r, hr⟩ := parseOne_no_panic hvl hd
    simp only [hr, Outcome.ok_bind]
    match r, hr with
    | .ok (c, n), hr =>
      have sh := parseOne_ok_shape hr
      simp only [sliceFrom_ok sh.le, Outcome.ok_bind]
      exact ⟨_, rfl, .cmd c n he sh⟩
    | .error e, hr => exact ⟨_, rfl, .err e he hd⟩

/-! ### draining the iterator -/

/-- the invariant a drained run satisfies, relative to the state it started from -/
structure RunOk (T : Table) (vl : VarLen) (s : Iter) (r : Run) : Prop where
  /-- `None` was reached within the budget -/
  no_hang : r.hang = false
  /-- whole commands adding up to a prefix: the wire bytes of the yielded items, then the unconsumed rest -/
  prefix_eq : (r.items.map Item.wire).flatten ++ r.final.data = s.data
  /-- every yielded command is a whole command of the table -/
  whole : ∀ c, Item.cmd c ∈ r.items → c.payload.length + 1 = c.wire.length ∧
      ∃ e, T.lookup c.cid = some e ∧ c.variant = e.variant ∧ c.payloadTy = e.payload ∧
        (∀ l, e.len = some l → c.payload.length = l) ∧
        (e.len = none → ∃ rest, rest ≠ [] ∧ vl e.payload rest = .ok c.payload.length)
  /-- at most one error, and it is the last item -/
  fused : ∀ pre it post, r.items = pre ++ it :: post → it.isErr = true → post = []
  /-- no error before the last item -/
  errs_last : ∀ pre it post, r.items = pre ++ it :: post → post ≠ [] → it.isErr = false
  /-- after an error the iterator is in the `errored` state; otherwise it stopped because the input is used up -/
  final_state : (r.final.errored = true ∧ (s.errored = true ∨ ∃ e, r.items.getLast? = some (.err e))) ∨
                (r.final.errored = false ∧ r.final.data = [] ∧ ∀ it ∈ r.items, it.isErr = false)

theorem runFuel_ok {T : Table} {vl : VarLen} (hvl : VlTotal T vl) :
    ∀ (fuel : Nat) (s : Iter), s.data.length + 2 ≤ fuel + (if s.errored then s.data.length + 1 else 0) →
      ∃ r, runFuel T vl fuel s = .ok r ∧ RunOk T vl s r := by
  intro fuel
  induction fuel with
  | zero =>
    intro s h
    split at h <;> omega
  | succ fuel ih =>
    intro s hf
    obtain ⟨r1, hr1, hc⟩ := next_cases hvl s
    simp only [runFuel, hr1, Outcome.ok_bind]
    cases hc with
    | done h =>
      refine ⟨_, rfl, ⟨rfl, by simp, by simp, ?_, ?_, ?_⟩⟩
      · intro pre it post hp; simp at hp
      · intro pre it post hp; simp at hp
      · rcases Bool.eq_false_or_eq_true s.errored with hs | hs
        · exact Or.inl ⟨hs, Or.inl hs⟩
        · refine Or.inr ⟨hs, ?_, by simp⟩
          rcases h with h | h
          · rw [hs] at h; cases h
          · exact h
    | cmd c n he sh =>
      have hlen : (s.data.drop n).length + 2 ≤ fuel + 0 := by
        have := sh.pos; have := sh.le
        simp only [he] at hf
        simp only [List.length_drop]
        simp at hf
        omega
      obtain ⟨r, hr, ok⟩ := ih { s with data := s.data.drop n } (by simpa [he] using hlen)
      simp only [hr, Outcome.ok_bind]
      refine ⟨_, rfl, ⟨ok.no_hang, ?_, ?_, ?_, ?_, ?_⟩⟩
      · have := ok.prefix_eq
        simp only at this
        simp only [List.map_cons, List.flatten_cons, Item.wire, List.append_assoc, this, sh.wire]
        exact List.take_append_drop n s.data
      · intro c' hc'
        simp only [List.mem_cons] at hc'
        rcases hc' with hc' | hc'
        · cases hc'
          obtain ⟨e, h1, h2, h3, h4, h5⟩ := sh.entry
          refine ⟨by simp [Cmd.wire], e, h1, h2, h3, ?_, h5⟩
          intro l hl; have := h4 l hl; have := sh.len; omega
        · exact ok.whole c' hc'
      · intro pre it post hp hi
        cases pre with
        | nil => simp at hp; obtain ⟨rfl, _⟩ := hp; simp [Item.isErr] at hi
        | cons p pre => simp at hp; exact ok.fused pre it post hp.2 hi
      · intro pre it post hp hi
        cases pre with
        | nil => simp at hp; obtain ⟨rfl, _⟩ := hp; rfl
        | cons p pre => simp at hp; exact ok.errs_last pre it post hp.2 hi
      · rcases ok.final_state with ⟨h1, h2⟩ | ⟨h1, h2, h3⟩
        · refine Or.inl ⟨h1, Or.inr ?_⟩
          rcases h2 with h2 | ⟨e, h2⟩
          · simp [he] at h2
          · refine ⟨e, ?_⟩
            simp only at h2 ⊢
            rw [List.getLast?_cons]
            cases hr' : r.items with
            | nil => simp [hr'] at h2
            | cons a as => rw [hr'] at h2; simp [h2]
        · refine Or.inr ⟨h1, h2, ?_⟩
          intro it hit
          simp only [List.mem_cons] at hit
          rcases hit with rfl | hit
          · rfl
          · exact h3 it hit
    | err e he hd =>
      have hf' : s.data.length + 2 ≤ fuel + 1 := by simpa [he] using hf
      obtain ⟨r, hr, ok⟩ := ih { s with errored := true } (by simp; omega)
      simp only [hr, Outcome.ok_bind]
      -- after an error the next call returns `None` at once
      have hnone : r.items = [] ∧ r.final = { s with errored := true } := by
        cases fuel with
        | zero => omega
        | succ fuel =>
          simp only [runFuel, next, Bool.true_or, if_true, Outcome.ok_bind] at hr
          cases hr; exact ⟨rfl, rfl⟩
      obtain ⟨hi, hfin⟩ := hnone
      refine ⟨_, rfl, ⟨ok.no_hang, ?_, ?_, ?_, ?_, ?_⟩⟩
      · simp [hi, hfin, Item.wire]
      · intro c hc; simp [hi] at hc
      · intro pre it post hp _
        simp only [hi] at hp
        cases pre with
        | nil => simp at hp; exact hp.2
        | cons p pre => simp at hp
      · intro pre it post hp hpost
        simp only [hi] at hp
        cases pre with
        | nil => simp at hp; exact absurd hp.2 hpost
        | cons p pre => simp at hp
      · exact Or.inl ⟨by simp [hfin], Or.inr ⟨e, by simp [hi]⟩⟩

theorem run_ok {T : Table} {vl : VarLen} (hvl : VlTotal T vl) (data : Bytes) :
    ∃ r, run T vl data = .ok r ∧ RunOk T vl { data := data, errored := false } r :=
  runFuel_ok hvl (data.length + 2) { data := data, errored := false } (by simp)

/-- more fuel does not change the result -/
theorem runFuel_mono {T : Table} {vl : VarLen} :
    ∀ (fuel : Nat) (s : Iter) (r : Run), runFuel T vl fuel s = .ok r → r.hang = false →
      ∀ k, runFuel T vl (fuel + k) s = .ok r := by
  intro fuel
  induction fuel with
  | zero => intro s r h hh; simp [runFuel] at h; cases h; simp at hh
  | succ fuel ih =>
    intro s r h hh k
    rw [Nat.add_right_comm]
    simp only [runFuel] at h ⊢
    cases hn : next T vl s with
    | panic m => simp [hn] at h
    | ok p =>
      obtain ⟨o, s'⟩ := p
      simp only [hn, Outcome.ok_bind] at h ⊢
      cases o with
      | none => exact h
      | some it =>
        simp only at h ⊢
        cases hr : runFuel T vl fuel s' with
        | panic m => simp [hr] at h
        | ok r' =>
          simp only [hr, Outcome.ok_bind] at h
          cases h
          simp only at hh
          rw [ih s' r' hr hh k]
          rfl

/-! ### the concrete `len()` helpers -/

theorem popcount4_le (m : Nat) : popcount4 m ≤ 4 := by unfold popcount4; omega

theorem varLen_total_of_known {T : Table}
    (h : ∀ e ∈ T, e.len = none → e.payload = "TxFramesCtrlReqPayload" ∨ e.payload = "EchoIncPayloadReqPayload" ∨
      e.payload = "EchoIncPayloadAnsPayload" ∨ e.payload = "McGroupStatusAnsPayload") : VlTotal T varLen := by
  intro e he hl rest hne
  rcases h e he hl with h | h | h | h <;> rw [h]
  · exact ⟨_, rfl⟩
  · exact ⟨_, rfl⟩
  · exact ⟨_, rfl⟩
  · cases rest with
    | nil => exact absurd rfl hne
    | cons x xs => exact ⟨_, rfl⟩

end MacCmd
