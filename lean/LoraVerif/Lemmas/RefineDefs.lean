import LoraVerif.Model.HistoryC
import LoraVerif.Model.NbDevice
import LoraVerif.Lemmas.ExceptLemmas
/-!
# Refinement of the history semantics by the device front-ends: definitions

* the abstraction functions from a script of radio answers to history events
  (`parseWin`, `abstractProc`, `abstractSendC`, `abstractJoinC`) — purely syntactic;
* `SimX X x y R`: the front-end computation `x` is simulated by the history computation `y`:
  if `x` returns, `y` returns a related value; if `x` fails, either `y` fails in the same way or the
  failure is one of the front-end's own (`Extra`: the `u32` arithmetic of the window timers, the
  model's bound on the frames heard in one `between_windows`).
-/
namespace Model

/-! ## reading the script -/

/-- the answer to the next radio call (`ok` once the script is exhausted) -/
def nextItem : List ScriptItem → ScriptItem × List ScriptItem
  | [] => (.ok, [])
  | i :: rest => (i, rest)

def ScriptItem.isErr : ScriptItem → Bool
  | .err => true
  | _ => false

/-- the frames `rx_continuous` hears before the timer wins (the item that ends the listening — `ok`
or an error, which the code swallows — is consumed), and the rest of the script -/
def leadFrames : List ScriptItem → List (RxView × Int) × List ScriptItem
  | [] => ([], [])
  | .frame snr v :: rest => ((v, snr) :: (leadFrames rest).1, (leadFrames rest).2)
  | .ok :: rest => ([], rest)
  | .err :: rest => ([], rest)

/-- `between_windows` read off the script: (radio error at its first call, frames heard, rest) -/
def parseBetween (cc : Bool) (s : List ScriptItem) : Bool × List (RxView × Int) × List ScriptItem :=
  if (nextItem s).1.isErr then (true, [], (nextItem s).2)
  else if cc then (false, leadFrames (nextItem s).2) else (false, [], (nextItem s).2)

/-- what the script makes of one receive window with what precedes it -/
structure WinAbs where
  /-- Class C frames heard while waiting for the window -/
  cs : List (RxView × Int)
  /-- a radio error before the window was served -/
  errBefore : Bool
  /-- heard in the window -/
  f : Option (RxView × Int)
  /-- a radio error in `window_complete` -/
  errAfter : Bool
  deriving Repr

def ScriptItem.frame? : ScriptItem → Option (RxView × Int)
  | .frame snr v => some (v, snr)
  | _ => none

/-- `setup_rx`, `rx_single`, `window_complete` read off the script -/
def parseListen (cs : List (RxView × Int)) (s : List ScriptItem) : WinAbs × List ScriptItem :=
  if (nextItem s).1.isErr then ({ cs := cs, errBefore := true, f := none, errAfter := false }, (nextItem s).2)
  else if (nextItem (nextItem s).2).1.isErr then
    ({ cs := cs, errBefore := true, f := none, errAfter := false }, (nextItem (nextItem s).2).2)
  else
    ({ cs := cs, errBefore := false, f := (nextItem (nextItem s).2).1.frame?,
       errAfter := (nextItem (nextItem (nextItem s).2).2).1.isErr }, (nextItem (nextItem (nextItem s).2).2).2)

def parseWin (cc : Bool) (s : List ScriptItem) : WinAbs × List ScriptItem :=
  if (parseBetween cc s).1 then ({ cs := [], errBefore := true, f := none, errAfter := false }, (parseBetween cc s).2.2)
  else parseListen (parseBetween cc s).2.1 (parseBetween cc s).2.2

/-- the fault position the two windows' errors amount to (the first one in program order) -/
def faultOf (w1 w2 : WinAbs) : Option FaultPos :=
  if w1.errBefore then some .before1
  else if w1.errAfter then some .close1
  else if w2.errBefore then some .before2
  else if w2.errAfter then some .close2
  else none

/-- **the abstraction of `send(data, port, confirmed)` under a script**: one event -/
def abstractSendC (cfg : DevCfg) (script : List ScriptItem) (data : List Nat) (port : Nat) (conf : Bool) : EvC :=
  if (nextItem script).1.isErr then .uplinkC cfg.classC data port conf (some .tx) [] none [] none
  else
    let w1 := parseWin cfg.classC (nextItem script).2
    let w2 := parseWin cfg.classC w1.2
    .uplinkC cfg.classC data port conf (faultOf w1.1 w2.1) w1.1.cs w1.1.f w2.1.cs w2.1.f

/-- **the abstraction of `join` (OTAA) under a script** -/
def abstractJoinC (cfg : DevCfg) (script : List ScriptItem) : EvC :=
  if (nextItem script).1.isErr then .joinC cfg.classC (some .tx) [] none [] none
  else
    let w1 := parseWin cfg.classC (nextItem script).2
    let w2 := parseWin cfg.classC w1.2
    .joinC cfg.classC (faultOf w1.1 w2.1) w1.1.cs w1.1.f w2.1.cs w2.1.f

/-! ## the downlink queue -/

/-- `let _ = dl.push(..)` on a queue of capacity `cap` (most recent first) -/
def pushDl (cap : Nat) (q : List (Nat × List Nat)) (o : RxOut) : List (Nat × List Nat) :=
  match o.downlink with
  | some d => if q.length < cap then d :: q else q
  | none => q

def pushDls (cap : Nat) (q : List (Nat × List Nat)) (os : List RxOut) : List (Nat × List Nat) := os.foldl (pushDl cap) q

/-! ## simulation -/

/-- failures of the front-end that are not failures of the MAC: the `u32` arithmetic
`delay + tx_ms − lead` of the window timers, and the model's bound (64) on the number of frames heard
in ONE `between_windows` -/
def Extra : Fault → Prop
  | .panic s => s = "rx start delay overflow" ∨ s = "rx start delay underflow"
  | .hang s => s = "between_windows"

/-- simulation up to the front-end's own failures `X` (`Extra`, or a sharper set) -/
def SimX {α β} (X : Fault → Prop) (x : M α) (y : M β) (R : α → β → Prop) : Prop :=
  match x with
  | .ok a => ∃ b, y = .ok b ∧ R a b
  | .error e => X e ∨ y = .error e

theorem SimX.pure {X : Fault → Prop} {α β} {a : α} {b : β} {R : α → β → Prop} (h : R a b) : SimX X (Pure.pure a : M α) (Pure.pure b : M β) R :=
  ⟨b, rfl, h⟩

theorem SimX.ok {X : Fault → Prop} {α β} {a : α} {b : β} {R : α → β → Prop} (h : R a b) : SimX X (Except.ok a : M α) (Except.ok b : M β) R :=
  ⟨b, rfl, h⟩

theorem SimX.bind {X : Fault → Prop} {α β γ δ} {x : M α} {y : M β} {f : α → M γ} {k : β → M δ} {R : α → β → Prop} {Q : γ → δ → Prop}
    (h : SimX X x y R) (hf : ∀ a b, R a b → SimX X (f a) (k b) Q) : SimX X (x >>= f) (y >>= k) Q := by
  cases x with
  | ok a =>
    obtain ⟨b, rfl, hr⟩ := h
    exact hf a b hr
  | error e =>
    rcases h with h | rfl
    · exact Or.inl h
    · exact Or.inr rfl

/-- `bind`, with the equations of the two first halves available -/
theorem SimX.bind_eq {X : Fault → Prop} {α β γ δ} {x : M α} {y : M β} {f : α → M γ} {k : β → M δ} {R : α → β → Prop} {Q : γ → δ → Prop}
    (h : SimX X x y R) (hf : ∀ a b, x = .ok a → y = .ok b → R a b → SimX X (f a) (k b) Q) : SimX X (x >>= f) (y >>= k) Q := by
  cases x with
  | ok a =>
    obtain ⟨b, rfl, hr⟩ := h
    exact hf a b rfl rfl hr
  | error e =>
    rcases h with h | rfl
    · exact Or.inl h
    · exact Or.inr rfl

/-- a computation both sides perform identically -/
theorem SimX.same {X : Fault → Prop} {α γ δ} (x : M α) {f : α → M γ} {k : α → M δ} {Q : γ → δ → Prop}
    (hf : ∀ a, x = .ok a → SimX X (f a) (k a) Q) : SimX X (x >>= f) (x >>= k) Q := by
  cases x with
  | ok a => exact hf a rfl
  | error e => exact Or.inr rfl

/-- a computation only the front-end performs, which can only fail in the front-end's own ways -/
theorem SimX.extra {X : Fault → Prop} {α γ δ} {x : M α} {f : α → M γ} {y : M δ} {Q : γ → δ → Prop}
    (hx : ∀ e, x = .error e → X e) (hf : ∀ a, x = .ok a → SimX X (f a) y Q) : SimX X (x >>= f) y Q := by
  cases x with
  | ok a => exact hf a rfl
  | error e => exact Or.inl (hx e rfl)

/-- the history side post-processes its result -/
theorem SimX.map_right {X : Fault → Prop} {α β δ} {x : M α} {y : M β} {g : β → δ} {R : α → β → Prop} {Q : α → δ → Prop}
    (h : SimX X x y R) (hq : ∀ a b, R a b → Q a (g b)) : SimX X x (y >>= fun b => Pure.pure (g b)) Q := by
  cases x with
  | ok a =>
    obtain ⟨b, rfl, hr⟩ := h
    exact ⟨g b, rfl, hq a b hr⟩
  | error e =>
    rcases h with h | rfl
    · exact Or.inl h
    · exact Or.inr rfl

/-- the front-end side post-processes its result -/
theorem SimX.map_left {X : Fault → Prop} {α β γ} {x : M α} {y : M β} {f : α → γ} {R : α → β → Prop} {Q : γ → β → Prop}
    (h : SimX X x y R) (hq : ∀ a b, x = .ok a → y = .ok b → R a b → Q (f a) b) :
    SimX X (x >>= fun a => Pure.pure (f a)) y Q := by
  cases x with
  | ok a =>
    obtain ⟨b, rfl, hr⟩ := h
    exact ⟨b, rfl, hq a b rfl rfl hr⟩
  | error e => exact h

/-- the history side is a value: change it along the relation -/
theorem SimX.of_pure {X : Fault → Prop} {α β δ} {x : M α} {b : β} {b' : δ} {R : α → β → Prop} {Q : α → δ → Prop}
    (h : SimX X x (Pure.pure b : M β) R) (hq : ∀ a, R a b → Q a b') : SimX X x (Pure.pure b' : M δ) Q := by
  cases x with
  | ok a =>
    obtain ⟨b0, e, hr⟩ := h
    cases e
    exact ⟨b', rfl, hq a hr⟩
  | error e =>
    rcases h with h | h
    · exact Or.inl h
    · cases h

theorem SimX.mono {X : Fault → Prop} {α β} {x : M α} {y : M β} {R Q : α → β → Prop} (h : SimX X x y R) (hq : ∀ a b, R a b → Q a b) : SimX X x y Q := by
  cases x with
  | ok a =>
    obtain ⟨b, e, hr⟩ := h
    exact ⟨b, e, hq a b hr⟩
  | error e => exact h

theorem SimX.elim_ok {X : Fault → Prop} {α β} {x : M α} {y : M β} {R : α → β → Prop} {a : α} (h : SimX X x y R) (e : x = .ok a) :
    ∃ b, y = .ok b ∧ R a b := by
  subst e; exact h

theorem SimX.elim_error {X : Fault → Prop} {α β} {x : M α} {y : M β} {R : α → β → Prop} {f : Fault} (h : SimX X x y R) (e : x = .error f) :
    X f ∨ y = .error f := by
  subst e; exact h

end Model
