/-! Inversion lemmas for stepping through `Except` do-blocks in proofs. Core only. -/
namespace Except

theorem bind_eq_ok {ε α β} {x : Except ε α} {f : α → Except ε β} {b : β}
    (h : (x >>= f) = .ok b) : ∃ a, x = .ok a ∧ f a = .ok b := by
  cases x with
  | error e => simp [bind, Except.bind] at h
  | ok a => exact ⟨a, rfl, h⟩

theorem pure_eq_ok {ε α} {a b : α} (h : (pure a : Except ε α) = .ok b) : a = b := by
  simp [pure, Except.pure] at h; exact h

end Except
