import LoraVerif.Lemmas.PhyLemmas
import LoraVerif.RtPhy
import LoraVerif.Gen.PhyErr
/-!
# Tie A for the PHY command encoders: the bridge between the generated encoders and the hand model

The generated encoders (`Gen/PhyEnc*.lean`) are values of `Rt.Phy.IoM`: functions of an abstract
device answering the reads, returning the requests they make.  The hand model (`Model/PhySpi.lean`)
is a `Prog`.  `denote p` is the fault-free run of the program `p` on the wire-level chip in exactly
that shape (the SPI transactions *and* the busy waits / board calls, in order; `none` = the model's
`panic`), `chipDev` is the wire-level chip as a device.  `denote_trace` shows that `denote` is the
`trace` of `Model/PhyIo.lean` with the non-SPI requests kept.
-/
namespace TieA.Phy
open Model.Phy Rt.Phy
abbrev Ev := Rt.Phy.Ev

def toInts (bs : Bytes) : List Int := bs.map (fun b => (b.toNat : Int))
def toBytes (l : List Int) : Bytes := l.map byte

/-- the wire-level chip of `Model/PhyIo.lean` as a device of `Rt.Phy` -/
def chipDev : Dev Chip := fun c w n => (toInts (c.transact (toBytes w) n).1, (c.transact (toBytes w) n).2)

/-- `Gen.PhyErr.RadioError` (regenerated from `mod_params.rs`) ↦ the model's `RadioError` -/
def radioErr : Gen.PhyErr.RadioError → RadioError
  | .SPI => .SPI | .Reset => .Reset | .RfSwitchRx => .RfSwitchRx | .RfSwitchTx => .RfSwitchTx
  | .Busy => .Busy | .Irq => .Irq | .DIO1 => .DIO1
  | .InvalidConfiguration => .InvalidConfiguration | .InvalidRadioMode => .InvalidRadioMode
  | .InvalidSyncWord => .InvalidSyncWord
  | .OpError s => .OpError (byte s)
  | .InvalidBaseAddress a b => .InvalidBaseAddress a.toNat b.toNat
  | .PayloadSizeUnexpected n => .PayloadSizeUnexpected n.toNat
  | .PayloadSizeMismatch a b => .PayloadSizeMismatch a.toNat b.toNat
  | .UnavailableSpreadingFactor => .UnavailableSpreadingFactor
  | .UnavailableBandwidth => .UnavailableBandwidth
  | .InvalidBandwidthForFrequency => .InvalidBandwidthForFrequency
  | .InvalidSF6ExplicitHeaderRequest => .InvalidSF6ExplicitHeaderRequest
  | .InvalidOutputPowerForFrequency => .InvalidOutputPowerForFrequency
  | .TransmitTimeout => .TransmitTimeout | .ReceiveTimeout => .ReceiveTimeout
  | .DutyCycleUnsupported => .DutyCycleUnsupported | .RngUnsupported => .RngUnsupported

def ioName : Io → String
  | .irq => "await_irq" | .rfRx => "enable_rf_switch_rx" | .rfTx => "enable_rf_switch_tx"
  | .rfOff => "disable_rf_switch" | .reset => "reset" | .delay _ => "delay" | .busy => "wait_on_busy"
  | .spi _ _ => "spi"

def evOf : Io → Ev
  | .spi w r => .spi (toInts w) r
  | .busy => .busy
  | io => .iv (ioName io)

/-- the fault-free run of a hand-model program on a wire-level chip, in the shape of `Rt.Phy.IoM` -/
def denote {α : Type} : Prog α → Chip → List Ev → Option (Except RadioError α × Chip × List Ev)
  | .ret a, c, log => some (.ok a, c, log)
  | .fail e, c, log => some (.error e, c, log)
  | .panic _, _, _ => none
  | .io (.spi w r) k, c, log => denote (k (c.transact w r).1) (c.transact w r).2 (log ++ [.spi (toInts w) r])
  | .io req k, c, log => denote (k []) c (log ++ [evOf req])
  | .ioE (.spi w r) k, c, log => denote (k (some (c.transact w r).1)) (c.transact w r).2 (log ++ [.spi (toInts w) r])
  | .ioE req k, c, log => denote (k (some [])) c (log ++ [evOf req])

/-- what a generated action returned, read on the model's side: errors through `radioErr`, values through `f` -/
def view {α β : Type} (f : α → β) : Option (Except Gen.PhyErr.RadioError α × Chip × List Ev) → Option (Except RadioError β × Chip × List Ev)
  | none => none
  | some (.ok a, c, log) => some (.ok (f a), c, log)
  | some (.error e, c, log) => some (.error (radioErr e), c, log)

@[simp] theorem denote_ret {α : Type} (a : α) (c : Chip) (log : List Ev) : denote (.ret a) c log = some (.ok a, c, log) := rfl
@[simp] theorem denote_fail {α : Type} (e : RadioError) (c : Chip) (log : List Ev) : denote (.fail e : Prog α) c log = some (.error e, c, log) := rfl
@[simp] theorem denote_panic {α : Type} (s : String) (c : Chip) (log : List Ev) : denote (.panic s : Prog α) c log = none := rfl
@[simp] theorem denote_spi {α : Type} (w : Bytes) (r : Nat) (k : Bytes → Prog α) (c : Chip) (log : List Ev) :
    denote (.io (.spi w r) k) c log = denote (k (c.transact w r).1) (c.transact w r).2 (log ++ [.spi (toInts w) r]) := rfl
@[simp] theorem denote_busy {α : Type} (k : Bytes → Prog α) (c : Chip) (log : List Ev) :
    denote (.io .busy k) c log = denote (k []) c (log ++ [.busy]) := rfl

/-- the MOSI streams of the SPI transactions among the requests (`Model.Phy.mosi` on `Rt.Phy.Ev`) -/
def mosiOf (evs : List Ev) : List Bytes :=
  evs.filterMap (fun e => match e with
    | .spi w r => some (toBytes w ++ List.replicate r 0)
    | _ => none)

theorem toBytes_toInts (bs : Bytes) : toBytes (toInts bs) = bs := by
  induction bs with
  | nil => rfl
  | cons b t ih =>
    simp only [toBytes, toInts, List.map_cons, List.map_map] at ih ⊢
    rw [ih]; congr 1
    simp [byte]


/-! ## evaluation of `Rt.Phy.IoM` actions, one request at a time -/
section steps
variable {ε σ α β : Type}

theorem bind_def (m : IoM ε σ α) (f : α → IoM ε σ β) : m >>= f = IoM.bind m f := rfl
theorem pure_def (a : α) : (pure a : IoM ε σ α) = IoM.pure a := rfl

@[simp] theorem pure_app (a : α) (dev : Dev σ) (s : σ) (log : List Ev) : (pure a : IoM ε σ α) dev s log = some (.ok a, s, log) := rfl
@[simp] theorem pure_app' (a : α) (dev : Dev σ) (s : σ) (log : List Ev) : (IoM.pure a : IoM ε σ α) dev s log = some (.ok a, s, log) := rfl
@[simp] theorem throw_app (e : ε) (dev : Dev σ) (s : σ) (log : List Ev) : (Rt.Phy.throw e : IoM ε σ α) dev s log = some (.error e, s, log) := rfl
@[simp] theorem panic_app (dev : Dev σ) (s : σ) (log : List Ev) : (Rt.Phy.panic : IoM ε σ α) dev s log = none := rfl
@[simp] theorem ofOpt_some_app (a : α) (dev : Dev σ) (s : σ) (log : List Ev) : (ofOpt (some a) : IoM ε σ α) dev s log = some (.ok a, s, log) := rfl
@[simp] theorem ofOpt_none_app (dev : Dev σ) (s : σ) (log : List Ev) : (ofOpt none : IoM ε σ α) dev s log = none := rfl

@[simp] theorem pure_bind_app (a : α) (f : α → IoM ε σ β) (dev : Dev σ) (s : σ) (log : List Ev) :
    ((pure a : IoM ε σ α) >>= f) dev s log = f a dev s log := rfl
@[simp] theorem throw_bind_app (e : ε) (f : α → IoM ε σ β) (dev : Dev σ) (s : σ) (log : List Ev) :
    ((Rt.Phy.throw e : IoM ε σ α) >>= f) dev s log = some (.error e, s, log) := rfl
@[simp] theorem panic_bind_app (f : α → IoM ε σ β) (dev : Dev σ) (s : σ) (log : List Ev) :
    ((Rt.Phy.panic : IoM ε σ α) >>= f) dev s log = none := rfl
@[simp] theorem ofOpt_some_bind_app (a : α) (f : α → IoM ε σ β) (dev : Dev σ) (s : σ) (log : List Ev) :
    ((ofOpt (some a) : IoM ε σ α) >>= f) dev s log = f a dev s log := rfl
@[simp] theorem ofOpt_none_bind_app (f : α → IoM ε σ β) (dev : Dev σ) (s : σ) (log : List Ev) :
    ((ofOpt none : IoM ε σ α) >>= f) dev s log = none := rfl

@[simp] theorem bind_assoc_app {γ : Type} (m : IoM ε σ α) (g : α → IoM ε σ β) (f : β → IoM ε σ γ) :
    (m >>= g) >>= f = m >>= (fun a => g a >>= f) := by
  funext dev s log
  show IoM.bind (IoM.bind m g) f dev s log = IoM.bind m (fun a => IoM.bind (g a) f) dev s log
  simp only [IoM.bind]
  cases h : m dev s log with
  | none => rfl
  | some r =>
    obtain ⟨r, s1, l1⟩ := r
    cases r <;> rfl

@[simp] theorem write_app (w : List Int) (sl : Bool) (dev : Dev σ) (s : σ) (log : List Ev) :
    (Rt.Phy.write w sl : IoM ε σ Unit) dev s log =
      some (.ok (), (dev s w 0).2, log ++ (Ev.spi w 0 :: (if sl then [] else [Ev.busy]))) := by
  cases sl <;> simp [Rt.Phy.write, Rt.Phy.xfer, Rt.Phy.waitOnBusy, bind_def, pure_def, IoM.bind, IoM.pure]
@[simp] theorem write_bind_app (w : List Int) (sl : Bool) (f : Unit → IoM ε σ β) (dev : Dev σ) (s : σ) (log : List Ev) :
    ((Rt.Phy.write w sl : IoM ε σ Unit) >>= f) dev s log =
      f () dev (dev s w 0).2 (log ++ (Ev.spi w 0 :: (if sl then [] else [Ev.busy]))) := by
  rw [bind_def]; simp only [IoM.bind, write_app]
@[simp] theorem writeWithPayload_app (w p : List Int) (sl : Bool) (dev : Dev σ) (s : σ) (log : List Ev) :
    (Rt.Phy.writeWithPayload w p sl : IoM ε σ Unit) dev s log =
      some (.ok (), (dev s (w ++ p) 0).2, log ++ (Ev.spi (w ++ p) 0 :: (if sl then [] else [Ev.busy]))) := by
  cases sl <;> simp [Rt.Phy.writeWithPayload, Rt.Phy.xfer, Rt.Phy.waitOnBusy, bind_def, pure_def, IoM.bind, IoM.pure]
@[simp] theorem writeWithPayload_bind_app (w p : List Int) (sl : Bool) (f : Unit → IoM ε σ β) (dev : Dev σ) (s : σ) (log : List Ev) :
    ((Rt.Phy.writeWithPayload w p sl : IoM ε σ Unit) >>= f) dev s log =
      f () dev (dev s (w ++ p) 0).2 (log ++ (Ev.spi (w ++ p) 0 :: (if sl then [] else [Ev.busy]))) := by
  rw [bind_def]; simp only [IoM.bind, writeWithPayload_app]
@[simp] theorem read_app (w buf : List Int) (dev : Dev σ) (s : σ) (log : List Ev) :
    (Rt.Phy.read w buf : IoM ε σ (List Int)) dev s log =
      some (.ok (fill buf (dev s w buf.length).1), (dev s w buf.length).2, log ++ [Ev.spi w buf.length, Ev.busy]) := by
  simp [Rt.Phy.read, Rt.Phy.xfer, Rt.Phy.waitOnBusy, bind_def, pure_def, IoM.bind, IoM.pure]
@[simp] theorem read_bind_app (w buf : List Int) (f : List Int → IoM ε σ β) (dev : Dev σ) (s : σ) (log : List Ev) :
    ((Rt.Phy.read w buf : IoM ε σ (List Int)) >>= f) dev s log =
      f (fill buf (dev s w buf.length).1) dev (dev s w buf.length).2 (log ++ [Ev.spi w buf.length, Ev.busy]) := by
  rw [bind_def]; simp only [IoM.bind, read_app]

@[simp] theorem ite_app (c : Prop) [Decidable c] (a b : IoM ε σ α) (dev : Dev σ) (s : σ) (log : List Ev) :
    (if c then a else b) dev s log = if c then a dev s log else b dev s log := by
  split <;> rfl
@[simp] theorem ite_bind_app (c : Prop) [Decidable c] (a b : IoM ε σ α) (f : α → IoM ε σ β) (dev : Dev σ) (s : σ) (log : List Ev) :
    ((if c then a else b) >>= f) dev s log = if c then (a >>= f) dev s log else (b >>= f) dev s log := by
  split <;> rfl
end steps

/-! ## the same for the hand model's I/O layer (`Prog.bind` form, the simp-normal form of `>>=`) -/

theorem prog_bind_assoc {α β γ : Type} (p : Prog α) (g : α → Prog β) (f : β → Prog γ) :
    Prog.bind (Prog.bind p g) f = Prog.bind p (fun a => Prog.bind (g a) f) := by
  induction p with
  | ret a => rfl
  | fail e => rfl
  | panic s => rfl
  | io req k ih => simp only [Prog.bind]; congr 1; funext bs; exact ih bs
  | ioE req k ih => simp only [Prog.bind]; congr 1; funext r; exact ih r

theorem denote_intfWrite_bind {β : Type} (w : Bytes) (sl : Bool) (f : Unit → Prog β) (c : Chip) (log : List Ev) :
    denote (Prog.bind (intfWrite w sl) f) c log =
      denote (f ()) (c.transact w 0).2 (log ++ (Ev.spi (toInts w) 0 :: (if sl then [] else [Ev.busy]))) := by
  cases sl <;> simp [intfWrite, Prog.xfer, Prog.req, denote, evOf]
theorem denote_intfWrite (w : Bytes) (sl : Bool) (c : Chip) (log : List Ev) :
    denote (intfWrite w sl) c log =
      some (.ok (), (c.transact w 0).2, log ++ (Ev.spi (toInts w) 0 :: (if sl then [] else [Ev.busy]))) := by
  cases sl <;> simp [intfWrite, Prog.xfer, Prog.req, denote, evOf]
theorem denote_intfWriteWithPayload_bind {β : Type} (w p : Bytes) (sl : Bool) (f : Unit → Prog β) (c : Chip) (log : List Ev) :
    denote (Prog.bind (intfWriteWithPayload w p sl) f) c log =
      denote (f ()) (c.transact (w ++ p) 0).2 (log ++ (Ev.spi (toInts (w ++ p)) 0 :: (if sl then [] else [Ev.busy]))) := by
  cases sl <;> simp [intfWriteWithPayload, Prog.xfer, Prog.req, denote, evOf]
theorem denote_intfWriteWithPayload (w p : Bytes) (sl : Bool) (c : Chip) (log : List Ev) :
    denote (intfWriteWithPayload w p sl) c log =
      some (.ok (), (c.transact (w ++ p) 0).2, log ++ (Ev.spi (toInts (w ++ p)) 0 :: (if sl then [] else [Ev.busy]))) := by
  cases sl <;> simp [intfWriteWithPayload, Prog.xfer, Prog.req, denote, evOf]
theorem denote_intfRead_bind {β : Type} (w : Bytes) (n : Nat) (f : Bytes → Prog β) (c : Chip) (log : List Ev) :
    denote (Prog.bind (intfRead w n) f) c log =
      denote (f (c.transact w n).1) (c.transact w n).2 (log ++ [Ev.spi (toInts w) n, Ev.busy]) := by
  simp [intfRead, Prog.xfer, Prog.req, denote, evOf]
theorem denote_ite {α : Type} (p : Prop) [Decidable p] (a b : Prog α) (c : Chip) (log : List Ev) :
    denote (if p then a else b) c log = if p then denote a c log else denote b c log := by
  split <;> rfl
theorem prog_bind_ite {α β : Type} (p : Prop) [Decidable p] (a b : Prog α) (f : α → Prog β) :
    Prog.bind (if p then a else b) f = if p then Prog.bind a f else Prog.bind b f := by
  split <;> rfl

/-! ## data: bytes as `Int` (generated side) and as `UInt8` (model side) -/

@[simp] theorem chipDev_fst (c : Chip) (w : List Int) (n : Nat) : (chipDev c w n).1 = toInts (c.transact (toBytes w) n).1 := rfl
@[simp] theorem chipDev_snd (c : Chip) (w : List Int) (n : Nat) : (chipDev c w n).2 = (c.transact (toBytes w) n).2 := rfl
@[simp] theorem toBytes_nil : toBytes [] = [] := rfl
@[simp] theorem toBytes_cons (a : Int) (l : List Int) : toBytes (a :: l) = byte a :: toBytes l := rfl
@[simp] theorem toBytes_append (a b : List Int) : toBytes (a ++ b) = toBytes a ++ toBytes b := by simp [toBytes]
@[simp] theorem toInts_nil : toInts [] = [] := rfl
@[simp] theorem toInts_cons (a : UInt8) (l : Bytes) : toInts (a :: l) = (a.toNat : Int) :: toInts l := rfl
@[simp] theorem toInts_append (a b : Bytes) : toInts (a ++ b) = toInts a ++ toInts b := by simp [toInts]

theorem byte_toNat (b : UInt8) : byte (b.toNat : Int) = b := by simp [byte]
theorem byte_natCast (n : Nat) : byte (n : Int) = UInt8.ofNat n := by simp [byte]
theorem byte_val {x : Int} (h0 : 0 ≤ x) (h1 : x < 256) : ((byte x).toNat : Int) = x := by
  simp only [byte, UInt8.toNat_ofNat']
  omega
theorem byteAt_lt (bs : Bytes) (i : Nat) : byteAt bs i < 256 := by
  unfold byteAt; split
  · rename_i b _; exact b.toNat_lt
  · omega

/-- the byte the driver takes from a one-byte read buffer is the model's `byteAt · 0` -/
theorem idx_fill_one (bs : Bytes) : Rt.idx (Rt.Phy.fill [0] (toInts bs)) 0 = some ((byteAt bs 0 : Nat) : Int) := by
  cases bs with
  | nil => rfl
  | cons b t => simp [Rt.idx, Rt.Phy.fill, toInts, byteAt]

theorem andI_nat (a b : Nat) : Rt.andI (a : Int) (b : Int) = ((a &&& b : Nat) : Int) := by
  simp [Rt.andI]
theorem orI_nat (a b : Nat) : Rt.orI (a : Int) (b : Int) = ((a ||| b : Nat) : Int) := by
  simp [Rt.orI]
theorem u8_and_toNat (a b : Nat) (ha : a < 256) (hb : b < 256) : ((UInt8.ofNat a &&& UInt8.ofNat b).toNat : Int) = ((a &&& b : Nat) : Int) := by
  simp only [UInt8.toNat_and, UInt8.toNat_ofNat', Nat.mod_eq_of_lt ha, Nat.mod_eq_of_lt hb]
theorem u8_or_toNat (a b : Nat) (ha : a < 256) (hb : b < 256) : ((UInt8.ofNat a ||| UInt8.ofNat b).toNat : Int) = ((a ||| b : Nat) : Int) := by
  simp only [UInt8.toNat_or, UInt8.toNat_ofNat', Nat.mod_eq_of_lt ha, Nat.mod_eq_of_lt hb]
theorem and_lt_256 (a b : Nat) (hb : b < 256) : a &&& b < 256 := Nat.lt_of_le_of_lt Nat.and_le_right hb
theorem or_lt_256 (a b : Nat) (ha : a < 256) (hb : b < 256) : a ||| b < 256 := Nat.or_lt_two_pow (n := 8) ha hb

theorem byte_ofNat_and (m n : Nat) : UInt8.ofNat (m &&& n) = UInt8.ofNat m &&& UInt8.ofNat n := by
  apply UInt8.toNat_inj.mp
  simp only [UInt8.toNat_and, UInt8.toNat_ofNat']
  exact Nat.and_mod_two_pow (n := 8)
theorem byte_ofNat_or (m n : Nat) : UInt8.ofNat (m ||| n) = UInt8.ofNat m ||| UInt8.ofNat n := by
  apply UInt8.toNat_inj.mp
  simp only [UInt8.toNat_or, UInt8.toNat_ofNat']
  exact Nat.or_mod_two_pow (n := 8)
/-- a byte the driver computes with `&` from a byte it read: as written to the chip -/
theorem byte_andI (a : Nat) (b : Int) (hb : 0 ≤ b) : byte (Rt.andI (a : Int) b) = UInt8.ofNat a &&& byte b := by
  obtain ⟨k, rfl⟩ := Int.eq_ofNat_of_zero_le hb
  simp [andI_nat, byte]
theorem byte_orI (a : Nat) (b : Int) (hb : 0 ≤ b) : byte (Rt.orI (a : Int) b) = UInt8.ofNat a ||| byte b := by
  obtain ⟨k, rfl⟩ := Int.eq_ofNat_of_zero_le hb
  simp [orI_nat, byte]
/-- … and as it appears, an `Int`, in the list of requests -/
theorem u8and_int (a : Nat) (ha : a < 256) (b : UInt8) : ((UInt8.ofNat a &&& b).toNat : Int) = Rt.andI (a : Int) (b.toNat : Int) := by
  rw [andI_nat]; simp only [UInt8.toNat_and, UInt8.toNat_ofNat', Nat.mod_eq_of_lt ha]
theorem u8or_int (a : Nat) (ha : a < 256) (b : UInt8) : ((UInt8.ofNat a ||| b).toNat : Int) = Rt.orI (a : Int) (b.toNat : Int) := by
  rw [orI_nat]; simp only [UInt8.toNat_or, UInt8.toNat_ofNat', Nat.mod_eq_of_lt ha]

@[simp] theorem byteAt_mod (bs : Bytes) (i : Nat) : byteAt bs i % 256 = byteAt bs i := Nat.mod_eq_of_lt (byteAt_lt bs i)

/-- `(x & 0xFF) as u8` of a non-negative value: the low byte -/
theorem wrap_and255_nat (n : Nat) : Rt.wrap .u8 (Rt.andI (n : Int) 255) = ((n % 256 : Nat) : Int) := by
  have h : Rt.andI (n : Int) 255 = ((n &&& 255 : Nat) : Int) := andI_nat n 255
  rw [h, show (255 : Nat) = 2 ^ 8 - 1 from rfl, Nat.and_two_pow_sub_one_eq_mod]
  simp only [Rt.wrap, Rt.ITy.bits, Rt.ITy.signed, Bool.false_eq_true, if_false]
  omega
theorem wrap_and255_div256 (n : Nat) : Rt.wrap .u8 (Rt.andI ((n : Int) / 256) 255) = ((n / 256 % 256 : Nat) : Int) := by
  rw [← wrap_and255_nat]; rfl
theorem wrap_and255_div65536 (n : Nat) : Rt.wrap .u8 (Rt.andI ((n : Int) / 65536) 255) = ((n / 65536 % 256 : Nat) : Int) := by
  rw [← wrap_and255_nat]; rfl
theorem wrap_and255_div16777216 (n : Nat) : Rt.wrap .u8 (Rt.andI ((n : Int) / 16777216) 255) = ((n / 16777216 % 256 : Nat) : Int) := by
  rw [← wrap_and255_nat]; rfl
theorem natCast_byte_val (n : Nat) : ((UInt8.ofNat n).toNat : Int) = ((n % 256 : Nat) : Int) := by
  simp

theorem u8_ofNat_eq (a b : Nat) (h : a % 256 = b % 256) : UInt8.ofNat a = UInt8.ofNat b := by
  apply UInt8.toNat_inj.mp; simpa using h
theorem ofNat_toNat_mod (n : Nat) : UInt8.ofNat ((n : Int) % 256).toNat = UInt8.ofNat n := by
  apply u8_ofNat_eq; omega
theorem ofNat_toNat_div256 (n : Nat) : UInt8.ofNat ((n : Int) / 256 % 256).toNat = UInt8.ofNat (n / 256) := by
  apply u8_ofNat_eq; omega
theorem ofNat_toNat_div65536 (n : Nat) : UInt8.ofNat ((n : Int) / 65536 % 256).toNat = UInt8.ofNat (n / 65536) := by
  apply u8_ofNat_eq; omega
theorem ofNat_toNat_div16777216 (n : Nat) : UInt8.ofNat ((n : Int) / 16777216 % 256).toNat = UInt8.ofNat (n / 16777216) := by
  apply u8_ofNat_eq; omega

/-! `to_be_bytes` and checked indexing of short lists -/
theorem beBytes_u16 (x : Int) : Rt.Phy.beBytes .u16 x = [x / 256 % 256, x % 256] := by
  simp [Rt.Phy.beBytes, Rt.ITy.bits, List.range, List.range.loop]
theorem beBytes_u32 (x : Int) : Rt.Phy.beBytes .u32 x = [x / 16777216 % 256, x / 65536 % 256, x / 256 % 256, x % 256] := by
  simp [Rt.Phy.beBytes, Rt.ITy.bits, List.range, List.range.loop]
theorem idx_zero {α : Type} (a : α) (l : List α) : Rt.idx (a :: l) 0 = some a := rfl
theorem idx_one {α : Type} (a b : α) (l : List α) : Rt.idx (a :: b :: l) 1 = some b := rfl
theorem idx_two {α : Type} (a b c : α) (l : List α) : Rt.idx (a :: b :: c :: l) 2 = some c := rfl
theorem idx_three {α : Type} (a b c d : α) (l : List α) : Rt.idx (a :: b :: c :: d :: l) 3 = some d := rfl

end TieA.Phy
