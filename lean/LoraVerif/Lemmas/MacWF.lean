import LoraVerif.Model.History
import LoraVerif.Lemmas.Safe
/-!
# `MacWF`: the well-formedness invariant of the MAC model, and the mask / plan-update lemmas

`MacWF` is what every reachable `MacState` satisfies (proved in `Props/C04.lean`: `init_wf`,
`step_wf`) and what the no-panic theorems need.  All pieces are decidable (`Bool`).

* plan shape — dynamic: region not fixed, 16 slots, 9-byte mask, the default (join) channels defined,
  every defined channel inside the region's band (needed by C09, not for panic-freedom);
  fixed: region fixed, 9-byte masks (plan and `jc.avail`), `preferredSubband ∈ 1..8`;
  (`previousChannel`/`availPrev` need NO bound: the code reduces them mod 72 / to a sub-band itself);
  the join-channel walk is in a state `AvInv` in which the bank visited next has a free channel
  (needed for "the accept set is never empty", not for panic-freedom);
* `cfg.dataRate` is a data rate the region defines for uplinks (so `datarates()[dr]` is in range and
  `unwrap()` succeeds); `cfg.rx1DrOffset < 8` (the domain on which the RX1 tables are total);
* the antenna gain is an `i8` with `MAX_EIRP − gain ≤ 127` (the one `i8` subtraction of `adjust_power`);
  the radio's maximum power needs no bound for panic-freedom (it is only cast);
* a joined session's pending MAC answers are at most 15 bytes.
-/
open Gen.Region Gen.Modulation

namespace Model

def definedSlot (l : List (Option Channel)) (i : Nat) : Bool :=
  match l[i]? with
  | some (some _) => true
  | _ => false

/-- a channel slot is empty or holds an in-band channel -/
def inBand (r : RegionId) : Option Channel → Bool
  | some c => frequencyValid r c.freq
  | none => true

def dynWF (r : RegionId) (p : DynPlan) : Bool :=
  p.channels.length == 16 && p.mask.length == 9 && (List.range (numJoinChannels r)).all (definedSlot p.channels) &&
    p.channels.all (inBand r)

/-! the walk over the join channels of a fixed plan (`AvailableChannels`): banks are visited in
cyclic order and each visit takes one free channel of the bank, so the bank visited next always has
a free channel left (the accept set of the `entropy` loop is never empty) -/

/-- number of channels a mask byte enables -/
def byteCnt (b : Nat) : Nat := ((List.range 8).filter (fun i => b.testBit i)).length

def bankCnt (m : Mask) (k : Nat) : Nat :=
  match m[k]? with
  | some b => byteCnt b
  | none => 0

/-- `k` lies in the cyclic interval of banks `b0, b0+1, …, b` (mod 9) -/
def inCyc (b0 b k : Nat) : Prop := if b0 ≤ b then b0 ≤ k ∧ k ≤ b else (b0 ≤ k ∨ k ≤ b)

instance (b0 b k : Nat) : Decidable (inCyc b0 b k) := by unfold inCyc; infer_instance

/-- every bank of `avail` holds `8 − t` channels if it was visited in the current round
(`b0 … b`), `9 − t` otherwise -/
def AvShape (avail : Mask) (b0 t b : Nat) : Prop :=
  ∀ k, k < 9 → bankCnt avail k = if inCyc b0 b k then 8 - t else 9 - t

/-- the invariant of `AvailableChannels`: fresh, or banks visited in cyclic order, one channel per visit -/
def AvInv (avail : Mask) (prev : Option Nat) : Prop :=
  avail.length = 9 ∧ (∀ b ∈ avail, b < 256) ∧
  match prev with
  | none => avail = Mask.default
  | some pv => pv < 72 ∧ ∃ b0 t, b0 < 9 ∧ 1 ≤ t ∧ t ≤ 8 ∧ AvShape avail b0 t (pv / 8)

/-- `AvInv` as a decidable check -/
def avOk (avail : Mask) (prev : Option Nat) : Bool :=
  avail.length == 9 && avail.all (fun b => decide (b < 256)) &&
    (match prev with
     | none => avail == Mask.default
     | some pv => decide (pv < 72) &&
        (List.range 9).any (fun b0 => (List.range 8).any (fun t' =>
          (List.range 9).all (fun k => bankCnt avail k == if inCyc b0 (pv / 8) k then 8 - (t' + 1) else 9 - (t' + 1)))))

theorem avOk_iff {avail : Mask} {prev : Option Nat} : avOk avail prev = true ↔ AvInv avail prev := by
  unfold avOk AvInv AvShape
  cases prev with
  | none => simp [and_assoc]
  | some pv =>
    simp only [Bool.and_eq_true, beq_iff_eq, List.all_eq_true, decide_eq_true_eq, List.any_eq_true, List.mem_range, and_assoc]
    constructor
    · rintro ⟨h1, h2, h3, b0, hb0, t', ht', h4⟩
      exact ⟨h1, h2, h3, b0, t' + 1, hb0, by omega, by omega, h4⟩
    · rintro ⟨h1, h2, h3, b0, t, hb0, ht1, ht8, h4⟩
      refine ⟨h1, h2, h3, b0, hb0, t - 1, by omega, ?_⟩
      have : t - 1 + 1 = t := by omega
      rw [this]; exact h4

/-- while biased join attempts remain, the walk has not started -/
def biasFresh (j : JoinChannels) : Bool :=
  !(j.preferredSubband.isSome && decide (j.numRetries < j.maxRetries)) || (j.avail == Mask.default && j.availPrev == none)

def jcWF (j : JoinChannels) : Bool :=
  j.avail.length == 9 &&
    (match j.preferredSubband with
     | some sb => decide (1 ≤ sb ∧ sb ≤ 8)
     | none => true) && avOk j.avail j.availPrev && biasFresh j

def regionWF (rs : RegionState) : Bool :=
  match rs.plan with
  | .dyn p => !rs.id.isFixed && dynWF rs.id p
  | .fix p => rs.id.isFixed && p.mask.length == 9 && jcWF p.jc

def cfgWF (r : RegionId) (c : Config) : Bool := isUplinkDatarate r c.dataRate && decide (c.rx1DrOffset < 8)

/-- `check_tx_power(0).unwrap()`: the regional maximum EIRP as the code computes it -/
def basePower (r : RegionId) : Option Nat :=
  match txPowerAdjust r 0 with
  | .ok (some p) => some p
  | _ => none

/-- the gain is an `i8` and `base − gain` fits an `i8` -/
def gainOk (r : RegionId) (g : Int) : Bool :=
  match basePower r with
  | some p0 => decide (-128 ≤ g ∧ g ≤ 127 ∧ (p0 : Int) - g ≤ 127)
  | none => false

def pendingOk : JoinState → Bool
  | .joined s => decide (s.pending.length ≤ 15)
  | _ => true

def macWF (m : MacState) : Bool :=
  regionWF m.region && cfgWF m.region.id m.cfg && gainOk m.region.id m.antennaGain && pendingOk m.st

def MacWF (m : MacState) : Prop := macWF m = true

instance (m : MacState) : Decidable (MacWF m) := by unfold MacWF; infer_instance

theorem MacWF.region {m : MacState} (h : MacWF m) : regionWF m.region = true := by
  unfold MacWF macWF at h; simp only [Bool.and_eq_true] at h; exact h.1.1.1

theorem MacWF.cfg {m : MacState} (h : MacWF m) : cfgWF m.region.id m.cfg = true := by
  unfold MacWF macWF at h; simp only [Bool.and_eq_true] at h; exact h.1.1.2

theorem MacWF.gain {m : MacState} (h : MacWF m) : gainOk m.region.id m.antennaGain = true := by
  unfold MacWF macWF at h; simp only [Bool.and_eq_true] at h; exact h.1.2

theorem MacWF.pending {m : MacState} (h : MacWF m) : pendingOk m.st = true := by
  unfold MacWF macWF at h; simp only [Bool.and_eq_true] at h; exact h.2

theorem MacWF.mk {m : MacState} (h1 : regionWF m.region = true) (h2 : cfgWF m.region.id m.cfg = true)
    (h3 : gainOk m.region.id m.antennaGain = true) (h4 : pendingOk m.st = true) : MacWF m := by
  unfold MacWF macWF; simp [h1, h2, h3, h4]

/-! ## unpacking the Boolean invariants -/

theorem dynWF_iff {r : RegionId} {p : DynPlan} :
    dynWF r p = true ↔ p.channels.length = 16 ∧ p.mask.length = 9 ∧
      (∀ i, i < numJoinChannels r → ∃ c, p.channels[i]? = some (some c)) ∧ p.channels.all (inBand r) = true := by
  unfold dynWF
  simp only [Bool.and_eq_true, beq_iff_eq]
  constructor
  · rintro ⟨⟨⟨h1, h2⟩, h3⟩, h4⟩
    refine ⟨h1, h2, fun i hi => ?_, h4⟩
    have := List.all_eq_true.mp h3 i (List.mem_range.mpr hi)
    unfold definedSlot at this
    split at this
    · rename_i c hc; exact ⟨c, hc⟩
    · cases this
  · rintro ⟨h1, h2, h3, h4⟩
    refine ⟨⟨⟨h1, h2⟩, List.all_eq_true.mpr (fun i hi => ?_)⟩, h4⟩
    obtain ⟨c, hc⟩ := h3 i (List.mem_range.mp hi)
    unfold definedSlot; rw [hc]

theorem all_set {α} (f : α → Bool) (l : List α) (i : Nat) (x : α) (hl : l.all f = true) (hx : f x = true) :
    (l.set i x).all f = true := by
  induction l generalizing i with
  | nil => simp
  | cons a rest ih =>
    simp only [List.all_cons, Bool.and_eq_true] at hl
    cases i with
    | zero => simp [hl.2, hx]
    | succ i => simp [hl.1, ih i hl.2]

theorem all_getElem? {α} (f : α → Bool) (l : List α) (i : Nat) (x : α) (hl : l.all f = true) (hx : l[i]? = some x) :
    f x = true :=
  List.all_eq_true.mp hl x (List.mem_of_getElem? hx)

theorem biasFresh_iff {j : JoinChannels} :
    biasFresh j = true ↔ (j.preferredSubband.isSome = true → j.numRetries < j.maxRetries → j.avail = Mask.default ∧ j.availPrev = none) := by
  unfold biasFresh
  cases j.preferredSubband <;> by_cases h : j.numRetries < j.maxRetries <;> simp [h]

theorem jcWF_iff {j : JoinChannels} :
    jcWF j = true ↔ j.avail.length = 9 ∧ (∀ sb, j.preferredSubband = some sb → 1 ≤ sb ∧ sb ≤ 8) ∧
      AvInv j.avail j.availPrev ∧ biasFresh j = true := by
  unfold jcWF
  rw [← avOk_iff]
  cases j.preferredSubband <;> simp [and_assoc]

theorem avInv_fresh : AvInv Mask.default none := ⟨by decide, by decide, rfl⟩

theorem regionWF_dyn {rs : RegionState} {p : DynPlan} (hp : rs.plan = .dyn p) :
    regionWF rs = true ↔ rs.id.isFixed = false ∧ dynWF rs.id p = true := by
  unfold regionWF; rw [hp]; simp

theorem regionWF_fix {rs : RegionState} {p : FixPlan} (hp : rs.plan = .fix p) :
    regionWF rs = true ↔ rs.id.isFixed = true ∧ p.mask.length = 9 ∧ jcWF p.jc = true := by
  unfold regionWF; rw [hp]; simp [Bool.and_assoc]

/-- a well-formed region state of a fixed region holds a fixed plan, and conversely -/
theorem regionWF_isFixed {rs : RegionState} (h : regionWF rs = true) :
    (rs.id.isFixed = true → ∃ p, rs.plan = .fix p) ∧ (rs.id.isFixed = false → ∃ p, rs.plan = .dyn p) := by
  cases hp : rs.plan with
  | dyn p =>
    have := (regionWF_dyn hp).mp h
    exact ⟨fun hf => (by rw [this.1] at hf; cases hf), fun _ => ⟨p, rfl⟩⟩
  | fix p =>
    have := (regionWF_fix hp).mp h
    exact ⟨fun _ => ⟨p, rfl⟩, fun hf => (by rw [this.1] at hf; cases hf)⟩

theorem cfgWF_iff {r : RegionId} {c : Config} :
    cfgWF r c = true ↔ isUplinkDatarate r c.dataRate = true ∧ c.rx1DrOffset < 8 := by
  unfold cfgWF; simp

/-! ## masks -/

theorem isEnabled_tot (m : Mask) (i : Nat) (hm : m.length = 9) (hi : i < 72) : Tot (m.isEnabled i) (fun _ => True) := by
  unfold Mask.isEnabled
  have : ¬ i > m.length * 8 - 1 := by omega
  simp only [this, if_false]
  have hidx : i / 8 < m.length := by omega
  rw [List.getElem?_eq_getElem hidx]
  exact ⟨_, rfl, trivial⟩

theorem setChannel_tot (m : Mask) (ch : Nat) (on : Bool) (hm : m.length = 9) (hi : ch < 72) :
    Tot (m.setChannel ch on) (fun m' => m'.length = 9) := by
  unfold Mask.setChannel
  have hidx : ch / 8 < m.length := by omega
  rw [List.getElem?_eq_getElem hidx]
  exact ⟨_, rfl, by simp [hm]⟩

theorem setBank_tot (m : Mask) (i v : Nat) (hm : m.length = 9) (hi : i < 9) :
    Tot (m.setBank i v) (fun m' => m'.length = 9) := by
  unfold Mask.setBank
  have : i < m.length := by omega
  simp only [this, if_true]
  exact ⟨_, rfl, by simp [hm]⟩

theorem setBanks_tot (m : Mask) (l : List (Nat × Nat)) (hm : m.length = 9) (h : ∀ p ∈ l, p.1 < 9) :
    Tot (setBanks m l) (fun m' => m'.length = 9) := by
  induction l generalizing m with
  | nil => exact ⟨m, rfl, hm⟩
  | cons p rest ih =>
    obtain ⟨i, v⟩ := p
    unfold setBanks
    refine Tot.bind (setBank_tot m i v hm (h (i, v) List.mem_cons_self)) ?_
    intro m' hm'
    exact ih m' hm' (fun p hp => h p (List.mem_cons_of_mem _ hp))

theorem setBanks_range8_tot (m : Mask) (f : Nat → Nat) (hm : m.length = 9) :
    Tot (setBanks m ((List.range 8).map (fun i => (i, f i)))) (fun m' => m'.length = 9) := by
  apply setBanks_tot m _ hm
  intro p hp
  simp only [List.mem_map, List.mem_range] at hp
  obtain ⟨i, hi, rfl⟩ := hp
  simp only; omega

theorem anyM_tot {α} (f : α → M Bool) (l : List α) (h : ∀ a ∈ l, Tot (f a) (fun _ => True)) :
    Tot (anyM f l) (fun _ => True) := by
  induction l with
  | nil => exact ⟨false, rfl, trivial⟩
  | cons a rest ih =>
    unfold anyM
    refine Tot.bind (h a List.mem_cons_self) ?_
    intro b _
    cases b
    · simp only [Bool.false_eq_true, if_false]
      exact ih (fun a ha => h a (List.mem_cons_of_mem _ ha))
    · exact ⟨true, rfl, trivial⟩

theorem allM_tot {α} (f : α → M Bool) (l : List α) (h : ∀ a ∈ l, Tot (f a) (fun _ => True)) :
    Tot (allM f l) (fun _ => True) := by
  induction l with
  | nil => exact ⟨true, rfl, trivial⟩
  | cons a rest ih =>
    unfold allM
    refine Tot.bind (h a List.mem_cons_self) ?_
    intro b _
    cases b
    · exact ⟨false, rfl, trivial⟩
    · simp only [if_true]
      exact ih (fun a ha => h a (List.mem_cons_of_mem _ ha))

theorem countEnabled_tot (m : Mask) (l : List Nat) (acc : Nat) (hm : m.length = 9) (h : ∀ i ∈ l, i < 72) :
    Tot (countEnabled m l acc) (fun _ => True) := by
  induction l generalizing acc with
  | nil => exact ⟨acc, rfl, trivial⟩
  | cons i rest ih =>
    unfold countEnabled
    by_cases hacc : acc ≥ 2
    · simp only [hacc, if_true]; exact ⟨acc, rfl, trivial⟩
    · simp only [hacc, if_false]
      refine Tot.bind (isEnabled_tot m i hm (h i List.mem_cons_self)) ?_
      intro b _
      have hr : ∀ i ∈ rest, i < 72 := fun i hi => h i (List.mem_cons_of_mem _ hi)
      cases b
      · simp only [Bool.false_eq_true, if_false]; exact ih acc hr
      · simp only [if_true]; exact ih (acc + 1) hr

end Model
