import LoraVerif.Model.PhyState
import LoraVerif.Model.Chip
import LoraVerif.Lemmas.PhyLemmas
/-!
# Weakest preconditions over transcripts (C14)

`wp kind n p Q E t`: started with the chip tracker in state `t`, the `RadioKind`-level program `p`
— whatever bytes the chip answers, wherever an I/O step fails, wherever an `await_irq` is dropped —
ends either normally with a value `a` and the tracker in a state `t'` with `Q a t'`, or abnormally
(`Abort`: error, panic, dropped future) with `E abort t'`.  `wp_sound` ties this to the interpreter
`run` and the transcript tracker `track`.  `mwp` is the same one level up, for the `LoRa<RK>` monad
`M` (driver bookkeeping × tracker state).

`wp` over-approximates the environment: it allows a fault at *every* step (the interpreter schedules
at most one per call); everything proved with it holds a fortiori for `run`.
-/
namespace Model.Phy

/-- how a program can end other than by returning -/
inductive Abort where
  | err (e : RadioError)
  | panic
  | dropped
  deriving DecidableEq, Repr

/-- the radio's own failure reports (I4 is about these) -/
def Abort.timeout : Abort → Bool
  | .err .TransmitTimeout => true
  | .err .ReceiveTimeout => true
  | _ => false

/-- an infrastructure failure (SPI, BUSY, …), a panic or a dropped future: anything but a timeout report -/
abbrev Abort.infra (a : Abort) : Prop := a.timeout = false

def Io.isDelay : Io → Bool
  | .delay _ => true
  | _ => false

section
variable (kind : Kind) (n : Needs)

def wp {α : Type} : Prog α → (α → ChipTrack → Prop) → (Abort → ChipTrack → Prop) → ChipTrack → Prop
  | .ret a, Q, _, t => Q a t
  | .fail e, _, E, t => E (.err e) t
  | .panic _, _, E, t => E .panic t
  | .io req k, Q, E, t =>
    (req.isDelay = false → E (.err (errOf req)) t) ∧ (req = .irq → E .dropped t) ∧
    ∀ bs, wp (k bs) Q E (trackEv kind n t ⟨req, .done⟩)
  | .ioE req k, Q, E, t =>
    (req = .irq → E .dropped t) ∧ (req.isDelay = false → wp (k none) Q E t) ∧
    ∀ bs, wp (k (some bs)) Q E (trackEv kind n t ⟨req, .done⟩)

/-- what `wp` promises about an outcome of the interpreter -/
def outPost {α : Type} (Q : α → ChipTrack → Prop) (E : Abort → ChipTrack → Prop) : Out α → ChipTrack → Prop
  | .ok a, t => Q a t
  | .err e, t => E (.err e) t
  | .panic _, t => E .panic t
  | .dropped, t => E .dropped t

theorem track_snoc (t0 : ChipTrack) (log : List Ev) (e : Ev) :
    track kind n t0 (log ++ [e]) = trackEv kind n (track kind n t0 log) e := by
  simp [track, List.foldl_append]

theorem trackEv_failed (t : ChipTrack) (r : Io) : trackEv kind n t ⟨r, .failed⟩ = t := rfl
theorem trackEv_pending (t : ChipTrack) (r : Io) : trackEv kind n t ⟨r, .pending⟩ = t := rfl
theorem trackEv_delay (t : ChipTrack) (ms : Nat) (m : Mark) : trackEv kind n t ⟨.delay ms, m⟩ = t := by
  cases m <;> rfl

/-- **Soundness of `wp`.**  For every world (chip content, transcript so far, scheduled fault and
drop): the interpreter's outcome satisfies the postconditions on the tracker state of the extended
transcript. -/
theorem wp_sound {α : Type} (p : Prog α) (Q : α → ChipTrack → Prop) (E : Abort → ChipTrack → Prop)
    (t0 : ChipTrack) (w : World) (h : wp kind n p Q E (track kind n t0 w.log)) :
    outPost Q E (run p w).1 (track kind n t0 (run p w).2.log) := by
  induction p generalizing w with
  | ret a => simpa [run, outPost, wp] using h
  | fail e => simpa [run, outPost, wp] using h
  | panic s => simpa [run, outPost, wp] using h
  | io req k ih =>
    obtain ⟨h1, h2, h3⟩ := h
    cases req with
    | delay ms =>
      simp only [run]
      apply ih
      simp only [track_snoc]
      exact h3 []
    | spi wr r =>
      simp only [run, reduceCtorEq, false_and, if_false]
      split
      · simp only [outPost, track_snoc, trackEv_failed]; exact h1 rfl
      · apply ih; simp only [track_snoc]; exact h3 _
    | irq =>
      simp only [run, true_and]
      split
      · simp only [outPost, track_snoc, trackEv_pending]; exact h2 rfl
      · split
        · simp only [outPost, track_snoc, trackEv_failed]; exact h1 rfl
        · apply ih; simp only [track_snoc]; exact h3 _
    | busy =>
      simp only [run, reduceCtorEq, false_and, if_false]
      split
      · simp only [outPost, track_snoc, trackEv_failed]; exact h1 rfl
      · apply ih; simp only [track_snoc]; exact h3 _
    | rfRx =>
      simp only [run, reduceCtorEq, false_and, if_false]
      split
      · simp only [outPost, track_snoc, trackEv_failed]; exact h1 rfl
      · apply ih; simp only [track_snoc]; exact h3 _
    | rfTx =>
      simp only [run, reduceCtorEq, false_and, if_false]
      split
      · simp only [outPost, track_snoc, trackEv_failed]; exact h1 rfl
      · apply ih; simp only [track_snoc]; exact h3 _
    | rfOff =>
      simp only [run, reduceCtorEq, false_and, if_false]
      split
      · simp only [outPost, track_snoc, trackEv_failed]; exact h1 rfl
      · apply ih; simp only [track_snoc]; exact h3 _
    | reset =>
      simp only [run, reduceCtorEq, false_and, if_false]
      split
      · simp only [outPost, track_snoc, trackEv_failed]; exact h1 rfl
      · apply ih; simp only [track_snoc]; exact h3 _
  | ioE req k ih =>
    obtain ⟨h1, h2, h3⟩ := h
    cases req with
    | delay ms =>
      simp only [run]
      apply ih
      simp only [track_snoc]
      exact h3 []
    | spi wr r =>
      simp only [run, reduceCtorEq, false_and, if_false]
      split
      · apply ih; simp only [track_snoc, trackEv_failed]; exact h2 rfl
      · apply ih; simp only [track_snoc]; exact h3 _
    | irq =>
      simp only [run, true_and]
      split
      · simp only [outPost, track_snoc, trackEv_pending]; exact h1 rfl
      · split
        · apply ih; simp only [track_snoc, trackEv_failed]; exact h2 rfl
        · apply ih; simp only [track_snoc]; exact h3 _
    | busy =>
      simp only [run, reduceCtorEq, false_and, if_false]
      split
      · apply ih; simp only [track_snoc, trackEv_failed]; exact h2 rfl
      · apply ih; simp only [track_snoc]; exact h3 _
    | rfRx =>
      simp only [run, reduceCtorEq, false_and, if_false]
      split
      · apply ih; simp only [track_snoc, trackEv_failed]; exact h2 rfl
      · apply ih; simp only [track_snoc]; exact h3 _
    | rfTx =>
      simp only [run, reduceCtorEq, false_and, if_false]
      split
      · apply ih; simp only [track_snoc, trackEv_failed]; exact h2 rfl
      · apply ih; simp only [track_snoc]; exact h3 _
    | rfOff =>
      simp only [run, reduceCtorEq, false_and, if_false]
      split
      · apply ih; simp only [track_snoc, trackEv_failed]; exact h2 rfl
      · apply ih; simp only [track_snoc]; exact h3 _
    | reset =>
      simp only [run, reduceCtorEq, false_and, if_false]
      split
      · apply ih; simp only [track_snoc, trackEv_failed]; exact h2 rfl
      · apply ih; simp only [track_snoc]; exact h3 _

theorem wp_mono {α : Type} (p : Prog α) {Q Q' : α → ChipTrack → Prop} {E E' : Abort → ChipTrack → Prop} {t : ChipTrack}
    (h : wp kind n p Q E t) (hq : ∀ a t', Q a t' → Q' a t') (he : ∀ a t', E a t' → E' a t') :
    wp kind n p Q' E' t := by
  induction p generalizing t with
  | ret a => exact hq _ _ h
  | fail e => exact he _ _ h
  | panic s => exact he _ _ h
  | io req k ih =>
    obtain ⟨h1, h2, h3⟩ := h
    exact ⟨fun hd => he _ _ (h1 hd), fun hi => he _ _ (h2 hi), fun bs => ih bs (h3 bs)⟩
  | ioE req k ih =>
    obtain ⟨h1, h2, h3⟩ := h
    exact ⟨fun hi => he _ _ (h1 hi), fun hd => ih _ (h2 hd), fun bs => ih _ (h3 bs)⟩

theorem wp_bind {α β : Type} (p : Prog α) (f : α → Prog β) (Q : β → ChipTrack → Prop) (E : Abort → ChipTrack → Prop)
    (t : ChipTrack) :
    wp kind n (Prog.bind p f) Q E t ↔ wp kind n p (fun a t' => wp kind n (f a) Q E t') E t := by
  induction p generalizing t with
  | ret a => rfl
  | fail e => rfl
  | panic s => rfl
  | io req k ih =>
    simp only [Prog.bind, wp]
    exact and_congr Iff.rfl (and_congr Iff.rfl (forall_congr' fun bs => ih bs _))
  | ioE req k ih =>
    simp only [Prog.bind, wp]
    exact and_congr Iff.rfl (and_congr (imp_congr Iff.rfl (ih _ _)) (forall_congr' fun bs => ih _ _))

@[simp] theorem wp_ret {α : Type} (a : α) (Q : α → ChipTrack → Prop) (E) (t) : wp kind n (.ret a) Q E t ↔ Q a t := Iff.rfl
@[simp] theorem wp_fail {α : Type} (e : RadioError) (Q : α → ChipTrack → Prop) (E) (t) :
    wp kind n (.fail e : Prog α) Q E t ↔ E (.err e) t := Iff.rfl
@[simp] theorem wp_panic {α : Type} (s : String) (Q : α → ChipTrack → Prop) (E) (t) :
    wp kind n (.panic s : Prog α) Q E t ↔ E .panic t := Iff.rfl

end

/-! ## the same for the `LoRa` monad -/
section
variable (kind : Kind) (n : Needs) {σ : Type}

def outPostM {α : Type} (Q : α → DriverState σ → ChipTrack → Prop) (E : Abort → DriverState σ → ChipTrack → Prop)
    (t0 : ChipTrack) : Out α × (DriverState σ × World) → Prop
  | (.ok a, (d, w)) => Q a d (track kind n t0 w.log)
  | (.err e, (d, w)) => E (.err e) d (track kind n t0 w.log)
  | (.panic _, (d, w)) => E .panic d (track kind n t0 w.log)
  | (.dropped, (d, w)) => E .dropped d (track kind n t0 w.log)

/-- `mwp m Q E d t`: from driver state `d` and tracker state `t`, in every world whose transcript
tracks to `t`, the API-level program `m` ends in `Q` (normally) or `E` (abnormally). -/
def mwp {α : Type} (m : M σ α) (Q : α → DriverState σ → ChipTrack → Prop) (E : Abort → DriverState σ → ChipTrack → Prop)
    (d : DriverState σ) (t : ChipTrack) : Prop :=
  ∀ (t0 : ChipTrack) (w : World), track kind n t0 w.log = t → outPostM kind n Q E t0 (m (d, w))

variable {kind n}

theorem mwp_pure {α : Type} {a : α} {Q : α → DriverState σ → ChipTrack → Prop} {E} {d : DriverState σ} {t}
    (h : Q a d t) : mwp kind n (pure a : M σ α) Q E d t := by
  intro t0 w hw; subst hw; exact h

theorem mwp_bind {α β : Type} {m : M σ α} {f : α → M σ β} {Q : β → DriverState σ → ChipTrack → Prop} {E} {d : DriverState σ} {t}
    (h : mwp kind n m (fun a d' t' => mwp kind n (f a) Q E d' t') E d t) : mwp kind n (m >>= f) Q E d t := by
  intro t0 w hw
  have h1 := h t0 w hw
  show outPostM kind n Q E t0 (M.bind' m f (d, w))
  unfold M.bind'
  generalize m (d, w) = r at h1
  obtain ⟨o, d', w'⟩ := r
  cases o with
  | ok a => exact h1 t0 w' rfl
  | err e => exact h1
  | panic s => exact h1
  | dropped => exact h1

theorem mwp_call {α : Type} {p : Prog α} {Q : α → DriverState σ → ChipTrack → Prop} {E} {d : DriverState σ} {t}
    (h : wp kind n p (fun a t' => Q a d t') (fun ab t' => E ab d t') t) : mwp kind n (M.call p : M σ α) Q E d t := by
  intro t0 w hw
  subst hw
  have := wp_sound kind n p _ _ t0 w h
  simp only [M.call]
  generalize run p w = r at this
  obtain ⟨o, w'⟩ := r
  cases o <;> exact this

theorem mwp_get {Q : DriverState σ → DriverState σ → ChipTrack → Prop} {E} {d : DriverState σ} {t}
    (h : Q d d t) : mwp kind n (M.get : M σ _) Q E d t := by
  intro t0 w hw; subst hw; exact h

theorem mwp_modify {f : DriverState σ → DriverState σ} {Q : Unit → DriverState σ → ChipTrack → Prop} {E} {d : DriverState σ} {t}
    (h : Q () (f d) t) : mwp kind n (M.modify f) Q E d t := by
  intro t0 w hw; subst hw; exact h

theorem mwp_setMode {m : RadioMode} {Q : Unit → DriverState σ → ChipTrack → Prop} {E} {d : DriverState σ} {t}
    (h : Q () { d with radioMode := m } t) : mwp kind n (setMode m) Q E d t := mwp_modify h

theorem mwp_throw {α : Type} {e : RadioError} {Q : α → DriverState σ → ChipTrack → Prop} {E} {d : DriverState σ} {t}
    (h : E (.err e) d t) : mwp kind n (M.throw e : M σ α) Q E d t := by
  intro t0 w hw; subst hw; exact h

theorem mwp_panic {α : Type} {s : String} {Q : α → DriverState σ → ChipTrack → Prop} {E} {d : DriverState σ} {t}
    (h : E .panic d t) : mwp kind n (M.panic s : M σ α) Q E d t := by
  intro t0 w hw; subst hw; exact h

theorem mwp_attempt {α : Type} {m : M σ α} {Q : Except RadioError α → DriverState σ → ChipTrack → Prop} {E} {d : DriverState σ} {t}
    (h : mwp kind n m (fun a => Q (.ok a))
          (fun ab d' t' => match ab with | .err e => Q (.error e) d' t' | .panic => E .panic d' t' | .dropped => E .dropped d' t') d t) :
    mwp kind n (M.attempt m) Q E d t := by
  intro t0 w hw
  have h1 := h t0 w hw
  unfold M.attempt
  generalize m (d, w) = r at h1
  obtain ⟨o, d', w'⟩ := r
  cases o <;> exact h1

theorem mwp_mono {α : Type} {m : M σ α} {Q Q' : α → DriverState σ → ChipTrack → Prop} {E E'} {d : DriverState σ} {t}
    (h : mwp kind n m Q E d t) (hq : ∀ a d' t', Q a d' t' → Q' a d' t') (he : ∀ a d' t', E a d' t' → E' a d' t') :
    mwp kind n m Q' E' d t := by
  intro t0 w hw
  have h1 := h t0 w hw
  generalize m (d, w) = r at h1
  obtain ⟨o, d', w'⟩ := r
  cases o
  · exact hq _ _ _ h1
  all_goals exact he _ _ _ h1

end

end Model.Phy
