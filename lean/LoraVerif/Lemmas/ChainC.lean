import LoraVerif.Lemmas.GhostC
import LoraVerif.Lemmas.HistoryCSafe
/-!
# Invariants along a chain of extended steps

What the INDEXED history theorems over `runC` need (C08 `historyC_effects`, C10 `historyC_windows`):
the state reached just before position `i` of an extended history is still tied to the reference
tracker moved across the first `i` annotated events (`chainC_ghRel`), and still well-formed with the
region it started in (`chainC_wf`).
-/
namespace Model

/-- the tracker follows the state along every chain of extended steps -/
theorem chainC_ghRel {σ} (g : Rng σ) (ms ms' : MacState × σ) (t : List (EvL × OutC)) (gh : Gh) (hr : GhRel ms.1 gh)
    (hv : ∀ x ∈ t, evOkC x.1.2 = true) (h : ChainC g ms t ms') : GhRel ms'.1 (ghostAfterG ghNextC gh t) :=
  (chainC_traceD g ghNextC (fun _ _ _ => True) GhRel (fun ev => evOkC ev = true)
    (fun m s ev m' s' out gh hr hv hs => ⟨trivial, stepC_ghRel g m m' s s' ev out gh hr hv hs⟩) ms ms' t gh hr hv h).2

/-- every state along a chain of valid extended events from a well-formed state is well-formed, in
the same region -/
theorem chainC_wf {σ} (g : Rng σ) (ms ms' : MacState × σ) (t : List (EvL × OutC)) (hwf : MacWF ms.1)
    (hv : ∀ x ∈ t, validEvC ms.1.region.id x.1.2 = true) (h : ChainC g ms t ms') :
    MacWF ms'.1 ∧ ms'.1.region.id = ms.1.region.id := by
  induction t generalizing ms with
  | nil => simp only [ChainC] at h; subst h; exact ⟨hwf, rfl⟩
  | cons x rest ih =>
    obtain ⟨⟨mpc, ev⟩, out⟩ := x
    simp only [ChainC] at h
    obtain ⟨_, ⟨m1, s1⟩, hs, hrest⟩ := h
    have hk : Keeps ms.1 m1 := (stepC_safe g ms.1 ms.2 ev hwf (hv ((mpc, ev), out) List.mem_cons_self)).elim hs
    obtain ⟨h1, h2⟩ := ih (m1, s1) hk.1 (fun x hx => by rw [hk.2.1]; exact hv x (List.mem_cons_of_mem _ hx)) hrest
    exact ⟨h1, by rw [h2, hk.2.1]⟩

/-- the events of the annotated trace of a run are the events of the history -/
theorem mem_annot_zip {σ} (g : Rng σ) (ms : MacState × σ) (evs : List EvC) (outs : List OutC) (x : EvL × OutC)
    (hx : x ∈ (annotC g ms evs).zip outs) : x.1.2 ∈ evs := by
  have h1 := (List.of_mem_zip hx).1
  unfold annotC at h1
  exact (List.of_mem_zip h1).2

end Model
