import LoraVerif.Model.HistoryC
import LoraVerif.Lemmas.ExceptLemmas
/-!
# Extended histories as chains of steps; ghost-driven trace predicates over them

`Lemmas/Trace.lean` for `Model/HistoryC.lean`.  One more ingredient: the frames a Class C device
hears *inside* the receive procedure are judged against the payload limit of the RXC configuration
(`get_rxc_config().max_payload_len`), which the code computes from the MAC state, not from the event.
The reference needs that one number.  A trace therefore lists ANNOTATED events `EvL = Nat × EvC`: the
event together with the RXC payload limit `rxcMp` of the state the event starts in (`limitsC`
computes the annotation along a run; within one event the limit cannot change before the procedure
has ended — `Lemmas/CycleC.lean`).

* `ChainC g ms t ms'`: `t : List (EvL × OutC)` is the annotated trace of a run of `stepC`;
* `runC_chain`: `runC g ms evs = .ok (ms', outs)` → `ChainC g ms ((annotC g ms evs).zip outs) ms'`;
* `TraceDG` / `TraceRG` / `chainC_traceD` / `chainC_traceR`: as in `Lemmas/Trace.lean`, generic in the
  event and output types.
-/
namespace Model

/-- the payload limit of the RXC configuration of a state (`get_rxc_config().max_payload_len`) -/
def rxcMp (m : MacState) : Nat :=
  match macRxcConfig m with
  | .ok rf => rf.maxPayload.toNat
  | .error _ => 0

/-- an extended event together with the RXC payload limit in force when it starts -/
abbrev EvL := Nat × EvC

/-- the RXC payload limits along a run, one per event -/
def limitsC {σ} (g : Rng σ) : MacState × σ → List EvC → List Nat
  | _, [] => []
  | ms, ev :: rest =>
    rxcMp ms.1 :: (match stepC g ms ev with
      | .ok (ms1, _) => limitsC g ms1 rest
      | .error _ => rest.map (fun _ => 0))

theorem limitsC_length {σ} (g : Rng σ) (ms : MacState × σ) (evs : List EvC) : (limitsC g ms evs).length = evs.length := by
  induction evs generalizing ms with
  | nil => rfl
  | cons ev rest ih =>
    simp only [limitsC, List.length_cons]
    cases stepC g ms ev with
    | error e => simp
    | ok r => simp [ih r.1]

/-- the annotated history of a run -/
def annotC {σ} (g : Rng σ) (ms : MacState × σ) (evs : List EvC) : List EvL := (limitsC g ms evs).zip evs

theorem annotC_length {σ} (g : Rng σ) (ms : MacState × σ) (evs : List EvC) : (annotC g ms evs).length = evs.length := by
  simp [annotC, limitsC_length]

theorem annotC_map_snd {σ} (g : Rng σ) (ms : MacState × σ) (evs : List EvC) : (annotC g ms evs).map (·.2) = evs := by
  unfold annotC
  rw [List.map_snd_zip]
  rw [limitsC_length]; exact Nat.le_refl _

theorem annotC_cons {σ} (g : Rng σ) (ms ms1 : MacState × σ) (ev : EvC) (rest : List EvC) (o : OutC)
    (hstep : stepC g ms ev = .ok (ms1, o)) : annotC g ms (ev :: rest) = (rxcMp ms.1, ev) :: annotC g ms1 rest := by
  simp only [annotC, limitsC, hstep, List.zip_cons_cons]

/-- `t` is the annotated trace of a run of the extended history model from `ms` to `ms'` -/
def ChainC {σ} (g : Rng σ) : MacState × σ → List (EvL × OutC) → MacState × σ → Prop
  | ms, [], ms' => ms' = ms
  | ms, (e, out) :: rest, ms' => e.1 = rxcMp ms.1 ∧ ∃ ms1, stepC g ms e.2 = .ok (ms1, out) ∧ ChainC g ms1 rest ms'

theorem runC_outs_length {σ} (g : Rng σ) (ms ms' : MacState × σ) (evs : List EvC) (outs : List OutC)
    (h : runC g ms evs = .ok (ms', outs)) : outs.length = evs.length := by
  induction evs generalizing ms outs with
  | nil =>
    unfold runC at h
    cases Except.pure_eq_ok h; rfl
  | cons ev rest ih =>
    unfold runC at h
    obtain ⟨⟨ms1, o⟩, _, h⟩ := Except.bind_eq_ok h
    obtain ⟨⟨ms2, os⟩, hrun, h⟩ := Except.bind_eq_ok h
    cases Except.pure_eq_ok h
    simp [ih ms1 os hrun]

theorem runC_chain {σ} (g : Rng σ) (ms ms' : MacState × σ) (evs : List EvC) (outs : List OutC)
    (h : runC g ms evs = .ok (ms', outs)) : ChainC g ms ((annotC g ms evs).zip outs) ms' := by
  induction evs generalizing ms outs with
  | nil =>
    unfold runC at h
    cases Except.pure_eq_ok h
    simp [annotC, limitsC, ChainC]
  | cons ev rest ih =>
    unfold runC at h
    obtain ⟨⟨ms1, o⟩, hstep, h⟩ := Except.bind_eq_ok h
    obtain ⟨⟨ms2, os⟩, hrun, h⟩ := Except.bind_eq_ok h
    cases Except.pure_eq_ok h
    have e : annotC g ms (ev :: rest) = (rxcMp ms.1, ev) :: annotC g ms1 rest := by
      simp only [annotC, limitsC, hstep, List.zip_cons_cons]
    rw [e, List.zip_cons_cons]
    exact ⟨rfl, ms1, hstep, ih ms1 os hrun⟩

theorem chainC_split {σ} (g : Rng σ) (ms ms' : MacState × σ) (t : List (EvL × OutC)) (i : Nat) (h : ChainC g ms t ms') :
    ∃ msi, ChainC g ms (t.take i) msi ∧ ChainC g msi (t.drop i) ms' := by
  induction t generalizing ms i with
  | nil => simp only [ChainC] at h; subst h; exact ⟨ms', by simp [ChainC], by simp [ChainC]⟩
  | cons x rest ih =>
    obtain ⟨ev, out⟩ := x
    cases i with
    | zero => exact ⟨ms, by simp [ChainC], by simpa using h⟩
    | succ i =>
      simp only [ChainC] at h
      obtain ⟨hl, ms1, hstep, hrest⟩ := h
      obtain ⟨msi, h1, h2⟩ := ih ms1 i hrest
      exact ⟨msi, by simp only [List.take_succ_cons, ChainC]; exact ⟨hl, ms1, hstep, h1⟩, by simpa using h2⟩

/-- the `i`-th step of a chain -/
theorem chainC_at {σ} (g : Rng σ) (ms ms' : MacState × σ) (t : List (EvL × OutC)) (i : Nat) (ev : EvL) (out : OutC)
    (h : ChainC g ms t ms') (hi : t[i]? = some (ev, out)) :
    ∃ msi msi', ChainC g ms (t.take i) msi ∧ ev.1 = rxcMp msi.1 ∧ stepC g msi ev.2 = .ok (msi', out) ∧
      ChainC g msi' (t.drop (i + 1)) ms' := by
  obtain ⟨msi, h1, h2⟩ := chainC_split g ms ms' t i h
  have hd : t.drop i = (ev, out) :: t.drop (i + 1) := by
    have hlt : i < t.length := by
      rcases Nat.lt_or_ge i t.length with hlt | hge
      · exact hlt
      · rw [List.getElem?_eq_none hge] at hi; cases hi
    rw [List.getElem?_eq_getElem hlt] at hi
    rw [List.drop_eq_getElem_cons hlt]
    simp only [Option.some.injEq] at hi
    rw [hi]
  rw [hd] at h2
  simp only [ChainC] at h2
  obtain ⟨hl, msi', hstep, h3⟩ := h2
  exact ⟨msi, msi', h1, hl, hstep, h3⟩

/-! ## ghost-driven trace predicates, generic in the event and output types -/

/-- at every position `P ghost event output`; the ghost moves by `next` -/
def TraceDG {G E O} (next : G → E → O → G) (P : G → E → O → Prop) : G → List (E × O) → Prop
  | _, [] => True
  | gh, (ev, out) :: rest => P gh ev out ∧ TraceDG next P (next gh ev out) rest

/-- the ghost after a trace -/
def ghostAfterG {G E O} (next : G → E → O → G) : G → List (E × O) → G
  | gh, [] => gh
  | gh, (ev, out) :: rest => ghostAfterG next (next gh ev out) rest

/-- relational ghost move -/
def TraceRG {G E O} (P : G → E → O → G → Prop) : G → List (E × O) → Prop
  | _, [] => True
  | gh, (ev, out) :: rest => ∃ gh', P gh ev out gh' ∧ TraceRG P gh' rest

theorem chainC_traceD {σ G} (g : Rng σ) (next : G → EvL → OutC → G) (P : G → EvL → OutC → Prop)
    (Rel : MacState → G → Prop) (V : EvC → Prop)
    (hstep : ∀ m s ev m' s' out gh, Rel m gh → V ev → stepC g (m, s) ev = .ok ((m', s'), out) →
      P gh (rxcMp m, ev) out ∧ Rel m' (next gh (rxcMp m, ev) out))
    (ms ms' : MacState × σ) (t : List (EvL × OutC)) (gh : G) (hr : Rel ms.1 gh) (hv : ∀ x ∈ t, V x.1.2)
    (h : ChainC g ms t ms') : TraceDG next P gh t ∧ Rel ms'.1 (ghostAfterG next gh t) := by
  induction t generalizing ms gh with
  | nil => simp only [ChainC] at h; subst h; exact ⟨trivial, hr⟩
  | cons x rest ih =>
    obtain ⟨⟨mpc, ev⟩, out⟩ := x
    simp only [ChainC] at h
    obtain ⟨hl, ⟨m1, s1⟩, hs, hrest⟩ := h
    subst hl
    obtain ⟨hp, hr1⟩ := hstep ms.1 ms.2 ev m1 s1 out gh hr (hv _ List.mem_cons_self) hs
    obtain ⟨ht, hr2⟩ := ih (m1, s1) _ hr1 (fun x hx => hv x (List.mem_cons_of_mem _ hx)) hrest
    exact ⟨⟨hp, ht⟩, hr2⟩

theorem chainC_traceR {σ G} (g : Rng σ) (P : G → EvL → OutC → G → Prop)
    (Rel : MacState → G → Prop) (V : EvC → Prop)
    (hstep : ∀ m s ev m' s' out gh, Rel m gh → V ev → stepC g (m, s) ev = .ok ((m', s'), out) →
      ∃ gh', P gh (rxcMp m, ev) out gh' ∧ Rel m' gh')
    (ms ms' : MacState × σ) (t : List (EvL × OutC)) (gh : G) (hr : Rel ms.1 gh) (hv : ∀ x ∈ t, V x.1.2)
    (h : ChainC g ms t ms') : TraceRG P gh t := by
  induction t generalizing ms gh with
  | nil => trivial
  | cons x rest ih =>
    obtain ⟨⟨mpc, ev⟩, out⟩ := x
    simp only [ChainC] at h
    obtain ⟨hl, ⟨m1, s1⟩, hs, hrest⟩ := h
    subst hl
    obtain ⟨gh', hp, hr1⟩ := hstep ms.1 ms.2 ev m1 s1 out gh hr (hv _ List.mem_cons_self) hs
    exact ⟨gh', hp, ih (m1, s1) gh' hr1 (fun x hx => hv x (List.mem_cons_of_mem _ hx)) hrest⟩

theorem traceDG_at {G E O} (next : G → E → O → G) (P : G → E → O → Prop) (gh : G) (t : List (E × O)) (i : Nat)
    (ev : E) (out : O) (h : TraceDG next P gh t) (hi : t[i]? = some (ev, out)) :
    P (ghostAfterG next gh (t.take i)) ev out := by
  induction t generalizing gh i with
  | nil => simp at hi
  | cons x rest ih =>
    obtain ⟨e0, o0⟩ := x
    cases i with
    | zero =>
      simp only [List.getElem?_cons_zero, Option.some.injEq, Prod.mk.injEq] at hi
      obtain ⟨rfl, rfl⟩ := hi
      exact h.1
    | succ i =>
      simp only [List.getElem?_cons_succ] at hi
      simp only [List.take_succ_cons, ghostAfterG]
      exact ih (next gh e0 o0) i h.2 hi

theorem ghostAfterG_append {G E O} (next : G → E → O → G) (gh : G) (a b : List (E × O)) :
    ghostAfterG next gh (a ++ b) = ghostAfterG next (ghostAfterG next gh a) b := by
  induction a generalizing gh with
  | nil => rfl
  | cons x rest ih => obtain ⟨e, o⟩ := x; simp only [List.cons_append, ghostAfterG]; exact ih _

end Model
