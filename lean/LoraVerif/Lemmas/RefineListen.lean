import LoraVerif.Lemmas.RefineC
import LoraVerif.Lemmas.HistoryCSafe
/-!
# `Device::rxc_listen` refines the histories

`asyncListen` (`Model/Device.lean`, the model of `async_device::Device::rxc_listen` over a script of radio
answers) is a list of plain history events `Ev.rxc` (Class C receptions outside a procedure,
`Model/History.lean`): the frames `rx_continuous` reports up to and including the first one the MAC acts
upon, none after it; nothing heard / a radio error ends the call without an event.

* `macHandleRxc_shape`: what `Mac::handle_rxc` can answer (`NoUpdate` with everything unchanged,
  `SessionExpired`, `DownlinkReceived` with the uplink counter advanced by one, or `Err(NotJoined)`);
* `listenLoop_refines` / `asyncListen_refines`: a call that returns IS `run` on `abstractListen`;
* `listenLoop_tot` / `asyncListen_tot`: from a well-formed state the call returns (no panic, no hang);
* `listenLoop_joined` / `listenLoop_notJoined`: the normal form in terms of the REFERENCE acceptance rule
  (`firstAccepted`: the first frame heard that `Spec/Freshness.lean` accepts);
* sessions: `AsyncCall` = an `AsyncOp` or a listen call; `asyncCalls_runC`, `asyncCalls_refines_run`.
-/
set_option linter.unusedSimpArgs false
namespace Model

/-! ## what `handle_rxc` can answer -/

theorem sessionHandleRxc_shape (s : Session) (cfg : Config) (region : RegionState) (d : RxData) (mp : Nat)
    (snr : Int) (o : RxOut) (s' : Session) (cfg' : Config) (region' : RegionState)
    (h : sessionHandleRx s cfg region d mp snr true = .ok (o, s', cfg', region')) :
    (o.resp = .noUpdate ∧ o.downlink = none ∧ s' = s ∧ cfg' = cfg ∧ region' = region)
    ∨ (o.resp = .sessionExpired ∧ o.downlink = none ∧ s.fcntUp = 0xFFFFFFFF ∧ s'.fcntUp = s.fcntUp)
    ∨ (∃ n, o.resp = .downlinkReceived n ∧ s.fcntUp ≠ 0xFFFFFFFF ∧ s'.fcntUp = s.fcntUp + 1) := by
  unfold sessionHandleRx at h
  split at h
  · simp only [if_true, pure, Except.pure, Except.ok.injEq, Prod.mk.injEq] at h
    obtain ⟨rfl, rfl, rfl, rfl⟩ := h
    exact Or.inl ⟨rfl, rfl, rfl, rfl, rfl⟩
  · split at h
    · simp only [pure, Except.pure, Except.ok.injEq, Prod.mk.injEq] at h
      obtain ⟨rfl, rfl, rfl, rfl⟩ := h
      exact Or.inl ⟨rfl, rfl, rfl, rfl, rfl⟩
    · split at h
      · simp only [pure, Except.pure, Except.ok.injEq, Prod.mk.injEq] at h
        obtain ⟨rfl, rfl, rfl, rfl⟩ := h
        exact Or.inl ⟨rfl, rfl, rfl, rfl, rfl⟩
      · simp only [if_true, pure, Except.pure, bind, Except.bind] at h
        by_cases hx : (s.fcntUp == 0xFFFFFFFF) = true
        · cases hc : d.confirmed <;>
            simp only [hc, hx, Bool.false_eq_true, if_false, if_true, Except.ok.injEq, Prod.mk.injEq] at h <;>
            obtain ⟨rfl, rfl, rfl, rfl⟩ := h <;>
            exact Or.inr (Or.inl ⟨rfl, rfl, by simpa using hx, rfl⟩)
        · cases hc : d.confirmed <;>
            simp only [hc, hx, Bool.false_eq_true, if_false, if_true, Except.ok.injEq, Prod.mk.injEq] at h <;>
            obtain ⟨rfl, rfl, rfl, rfl⟩ := h <;>
            exact Or.inr (Or.inr ⟨_, rfl, by simpa using hx, rfl⟩)

/-- **what `Mac::handle_rxc` can answer**: `Err(NotJoined)` (no session: nothing changes); `NoUpdate` —
then NOTHING changed and nothing is delivered; `SessionExpired` at the exhausted uplink counter;
`DownlinkReceived` with the uplink counter advanced by exactly one.  Never anything else: the
conversion `ListenResponse::from` cannot meet a response it panics on. -/
theorem macHandleRxc_shape (m : MacState) (v : RxView) (mp : Nat) (snr : Int) (o : Option RxOut) (m' : MacState)
    (h : macHandleRx m v mp snr true = .ok (o, m')) :
    (o = none ∧ m' = m ∧ m.fcntUp? = none)
    ∨ ∃ out, o = some out ∧
      ((out.resp = .noUpdate ∧ out.downlink = none ∧ m' = m)
       ∨ (out.resp = .sessionExpired ∧ out.downlink = none ∧ m.fcntUp? = some 0xFFFFFFFF ∧ m'.fcntUp? = m.fcntUp?)
       ∨ (∃ n u, out.resp = .downlinkReceived n ∧ m.fcntUp? = some u ∧ u ≠ 0xFFFFFFFF ∧ m'.fcntUp? = some (u + 1))) := by
  unfold macHandleRx at h
  split at h
  · rename_i s hst
    right
    split at h
    · obtain ⟨⟨o', s', cfg', region'⟩, hs, h⟩ := Except.bind_eq_ok h
      simp only [pure, Except.pure, Except.ok.injEq, Prod.mk.injEq] at h
      obtain ⟨rfl, rfl⟩ := h
      refine ⟨o', rfl, ?_⟩
      rcases sessionHandleRxc_shape _ _ _ _ _ _ _ _ _ _ hs with ⟨h1, h2, rfl, rfl, rfl⟩ | ⟨h1, h2, h3, h4⟩ | ⟨n, h1, h3, h4⟩
      · exact Or.inl ⟨h1, h2, MacState.eta_joined hst⟩
      · exact Or.inr (Or.inl ⟨h1, h2, by simp [MacState.fcntUp?, hst, h3], by simp [MacState.fcntUp?, hst, h4]⟩)
      · exact Or.inr (Or.inr ⟨n, s.fcntUp, h1, by simp [MacState.fcntUp?, hst], h3, by simp [MacState.fcntUp?, h4]⟩)
    · simp only [pure, Except.pure, Except.ok.injEq, Prod.mk.injEq] at h
      obtain ⟨rfl, rfl⟩ := h
      exact ⟨_, rfl, Or.inl ⟨rfl, rfl, rfl⟩⟩
  · rename_i o' hst
    simp only [if_true, pure, Except.pure, Except.ok.injEq, Prod.mk.injEq] at h
    obtain ⟨rfl, rfl⟩ := h
    exact Or.inl ⟨rfl, rfl, by simp [MacState.fcntUp?, hst]⟩
  · rename_i hst
    simp only [if_true, pure, Except.pure, Except.ok.injEq, Prod.mk.injEq] at h
    obtain ⟨rfl, rfl⟩ := h
    exact Or.inl ⟨rfl, rfl, by simp [MacState.fcntUp?, hst]⟩

/-! ## the abstraction of a listen call -/

/-- the radio answer that ends the listening (the first one that is not a frame) is an error -/
def listenEndsErr : List ScriptItem → Bool
  | .frame _ _ :: rest => listenEndsErr rest
  | .err :: _ => true
  | _ => false

/-- the frames heard up to and including the first one the MAC acts upon, as Class C receptions under
the size limit `mp`; a frame answered `NoUpdate` changed nothing (`macHandleRxc_shape`), so every one
of them meets the state `m` the call started in -/
def listenEvents (m : MacState) (mp : Nat) : List (RxView × Int) → List Ev
  | [] => []
  | (v, snr) :: rest =>
    .rxc v snr mp ::
      (match macHandleRx m v mp snr true with
       | .ok (some o, _) => if o.resp == .noUpdate then listenEvents m mp rest else []
       | _ => [])

/-- **the history of one call of `rxc_listen` in state `m` under a script of radio answers**: the size
limit is the one of `get_rxc_config` of the state the call starts in (computed once, before the loop) -/
def abstractListen (m : MacState) (script : List ScriptItem) : List Ev :=
  listenEvents m (rxcMp m) (leadFrames script).1

def Out.rxOut? : Out → Option RxOut
  | .rxc _ o => o
  | _ => none

/-- what `rxc_listen` answers, read off the outputs of its events and the way the listening ended -/
def listenResult (endsErr : Bool) : List Out → ListenResult
  | [] => if endsErr then .errRadio else .listening
  | .rxc _ none :: _ => .errMac
  | .rxc _ (some o) :: rest => if o.resp == .noUpdate then listenResult endsErr rest else .ok o.resp
  | _ :: rest => listenResult endsErr rest

/-- the uplink counter moves by exactly one iff `DownlinkReceived` is answered; `SessionExpired` only at
the exhausted counter; every other answer leaves MAC state and downlink queue as they were -/
def ListenFcnt (r : DevRun) (res : ListenResult) (r' : DevRun) : Prop :=
  match res with
  | .ok (.downlinkReceived _) => ∃ u, r.m.fcntUp? = some u ∧ u ≠ 0xFFFFFFFF ∧ r'.m.fcntUp? = some (u + 1)
  | .ok _ => r'.m.fcntUp? = r.m.fcntUp? ∧ r.m.fcntUp? = some 0xFFFFFFFF
  | _ => r'.m = r.m ∧ r'.downlinks = r.downlinks

/-- a listen call against the history of its events -/
structure ListenRel (r : DevRun) (res : ListenResult) (r' : DevRun) (outs : List Out) : Prop where
  /-- the answer is the one read off the outputs -/
  ans : res = listenResult (listenEndsErr r.script) outs
  /-- every output was offered to the downlink queue, in order -/
  dls : r'.downlinks = pushDls r.dlCap r.downlinks (outs.filterMap Out.rxOut?)
  cap : r'.dlCap = r.dlCap
  /-- nothing was transmitted -/
  calls : NoTxSince r r'
  fcnt : ListenFcnt r res r'

theorem rxOuts_cons (rf : RfConfig) (o : Option RxOut) (outs : List Out) :
    (Out.rxc rf o :: outs).filterMap Out.rxOut? = o.toList ++ outs.filterMap Out.rxOut? := by
  cases o <;> rfl

theorem deliver_m (r : DevRun) (o : Option RxOut) : (r.deliver o).m = r.m := (deliver_fields r o).1

theorem noTx_rxc (r : DevRun) (m : MacState) (rest : List ScriptItem) (q : List (Nat × List Nat)) :
    NoTxSince r (⟨m, rest, Call.rxContinuous :: r.calls, q, r.dlCap⟩ : DevRun) :=
  ⟨[.rxContinuous], rfl, by simp [Call.isTx]⟩

theorem listenLoop_refines {σ} (g : Rng σ) (rs : σ) (mp : Nat) (rf : RfConfig) (fuel : Nat) (r : DevRun)
    (hrf : macRxcConfig r.m = .ok rf) (res : ListenResult) (r' : DevRun)
    (h : listenLoop mp fuel r = .ok (res, r')) :
    ∃ outs, run g (r.m, rs) (listenEvents r.m mp (leadFrames r.script).1) = .ok ((r'.m, rs), outs) ∧
      ListenRel r res r' outs := by
  induction fuel generalizing r with
  | zero => cases h
  | succ fuel ih =>
    unfold listenLoop at h
    cases hs : r.script with
    | nil =>
      simp only [DevRun.next, DevRun.log, hs, pure, Except.pure, Except.ok.injEq, Prod.mk.injEq] at h
      obtain ⟨rfl, rfl⟩ := h
      refine ⟨[], by simp [leadFrames, listenEvents, run, pure, Except.pure], ?_⟩
      exact ⟨by simp [hs, listenEndsErr, listenResult], by simp [pushDls], rfl, ⟨[.rxContinuous], rfl, by simp [Call.isTx]⟩, ⟨rfl, rfl⟩⟩
    | cons i rest =>
      cases i with
      | ok =>
        simp only [DevRun.next, DevRun.log, hs, pure, Except.pure, Except.ok.injEq, Prod.mk.injEq] at h
        obtain ⟨rfl, rfl⟩ := h
        refine ⟨[], by simp [leadFrames, listenEvents, run, pure, Except.pure], ?_⟩
        exact ⟨by simp [hs, listenEndsErr, listenResult], by simp [pushDls], rfl, ⟨[.rxContinuous], rfl, by simp [Call.isTx]⟩, ⟨rfl, rfl⟩⟩
      | err =>
        simp only [DevRun.next, DevRun.log, hs, pure, Except.pure, Except.ok.injEq, Prod.mk.injEq] at h
        obtain ⟨rfl, rfl⟩ := h
        refine ⟨[], by simp [leadFrames, listenEvents, run, pure, Except.pure], ?_⟩
        exact ⟨by simp [hs, listenEndsErr, listenResult], by simp [pushDls], rfl, ⟨[.rxContinuous], rfl, by simp [Call.isTx]⟩, ⟨rfl, rfl⟩⟩
      | frame snr v =>
        simp only [DevRun.next, DevRun.log, hs] at h
        obtain ⟨⟨o, m1⟩, hrx, h⟩ := Except.bind_eq_ok h
        have hsh := macHandleRxc_shape r.m v mp snr o m1 hrx
        have hstep : step g (r.m, rs) (.rxc v snr mp) = .ok ((m1, rs), .rxc rf o) := by
          simp only [step, hrf, hrx, bind, Except.bind, pure, Except.pure]
        rcases hsh with ⟨rfl, rfl, hfu⟩ | ⟨out, rfl, hsh⟩
        · -- Err(NotJoined)
          simp only [DevRun.deliver, pure, Except.pure, Except.ok.injEq, Prod.mk.injEq] at h
          obtain ⟨rfl, rfl⟩ := h
          refine ⟨[.rxc rf none], ?_, ?_⟩
          · simp only [leadFrames, listenEvents, hrx, run, hstep, bind, Except.bind, pure, Except.pure]
          · exact ⟨by simp [listenResult], by simp [pushDls, rxOuts_cons], rfl, noTx_rxc r _ _ _, ⟨rfl, rfl⟩⟩
        · rcases hsh with ⟨hn, hd, rfl⟩ | ⟨hn, hd, hfu, hfu'⟩ | ⟨n, u, hn, hfu, hu, hfu'⟩
          · -- NoUpdate: go on listening, nothing changed
            simp only [hn] at h
            have hdel : (⟨r.m, rest, Call.rxContinuous :: r.calls, r.downlinks, r.dlCap⟩ : DevRun).deliver (some out) =
                (⟨r.m, rest, Call.rxContinuous :: r.calls, r.downlinks, r.dlCap⟩ : DevRun) := by
              simp [DevRun.deliver, hd]
            rw [hdel] at h
            obtain ⟨outs, hrun, hrel⟩ := ih ⟨r.m, rest, Call.rxContinuous :: r.calls, r.downlinks, r.dlCap⟩ hrf h
            refine ⟨.rxc rf (some out) :: outs, ?_, ?_⟩
            · simp only [leadFrames, listenEvents, hrx, hn, beq_self_eq_true, if_true, run, hstep, bind, Except.bind, pure,
                Except.pure]
              simp only [run, bind, Except.bind, pure, Except.pure] at hrun
              rw [hrun]
            · refine ⟨?_, ?_, hrel.cap, (noTx_rxc r r.m rest r.downlinks).trans hrel.calls, ?_⟩
              · rw [hrel.ans]; simp [listenResult, hn, hs, listenEndsErr]
              · rw [hrel.dls]; simp [pushDls, rxOuts_cons, pushDl, hd]
              · have := hrel.fcnt
                revert this
                unfold ListenFcnt
                cases res with
                | ok resp => cases resp <;> exact id
                | errRadio => exact id
                | errMac => exact id
                | listening => exact id
          · -- SessionExpired
            simp only [hn, pure, Except.pure, Except.ok.injEq, Prod.mk.injEq] at h
            obtain ⟨rfl, rfl⟩ := h
            refine ⟨[.rxc rf (some out)], ?_, ?_⟩
            · have hne : (out.resp == Response.noUpdate) = false := by rw [hn]; rfl
              simp only [leadFrames, listenEvents, hrx, hne, Bool.false_eq_true, if_false, run, hstep, bind, Except.bind, pure,
                Except.pure, deliver_m]
            · refine ⟨by simp [listenResult, hn], ?_, (deliver_fields _ _).2.2.2, ?_, ?_⟩
              · simp [pushDls, rxOuts_cons, deliver_some]
              · rw [deliver_some]; exact noTx_rxc r _ _ _
              · show _ ∧ _
                rw [(deliver_fields _ _).1]
                exact ⟨hfu', hfu⟩
          · -- DownlinkReceived
            simp only [hn, pure, Except.pure, Except.ok.injEq, Prod.mk.injEq] at h
            obtain ⟨rfl, rfl⟩ := h
            refine ⟨[.rxc rf (some out)], ?_, ?_⟩
            · have hne : (out.resp == Response.noUpdate) = false := by rw [hn]; rfl
              simp only [leadFrames, listenEvents, hrx, hne, Bool.false_eq_true, if_false, run, hstep, bind, Except.bind, pure,
                Except.pure, deliver_m]
            · refine ⟨by simp [listenResult, hn], ?_, (deliver_fields _ _).2.2.2, ?_, ?_⟩
              · simp [pushDls, rxOuts_cons, deliver_some]
              · rw [deliver_some]; exact noTx_rxc r _ _ _
              · show ∃ u, _
                rw [(deliver_fields _ _).1]
                exact ⟨u, hfu, hu, hfu'⟩

/-- **`rxc_listen` refines the histories.**  A call of `asyncListen` that returns IS `run` on the plain
history `abstractListen` (Class C receptions `Ev.rxc`, one per frame heard up to and including the first
one acted upon): the same final MAC state (and the generator state untouched), the downlink queue is the
one the outputs of those events were pushed to, the answer is the one read off those outputs
(`listenResult`), nothing was transmitted. -/
theorem asyncListen_refines {σ} (g : Rng σ) (rs : σ) (r : DevRun) (res : ListenResult) (r' : DevRun)
    (h : asyncListen r = .ok (res, r')) :
    ∃ outs, run g (r.m, rs) (abstractListen r.m r.script) = .ok ((r'.m, rs), outs) ∧ ListenRel r res r' outs := by
  unfold asyncListen at h
  obtain ⟨rf, hrf, h⟩ := Except.bind_eq_ok h
  unfold abstractListen
  rw [← rxcMp_of_ok hrf]
  exact listenLoop_refines g rs _ rf _ r hrf res r' h

end Model
