import LoraVerif.Lemmas.RefineC
import LoraVerif.Lemmas.HistoryCSafe
/-!
# `Device::rxc_listen` refines the histories

`asyncListen` (`Model/Device.lean`, the model of `async_device::Device::rxc_listen` over a script of radio
answers) is a list of plain history events `Ev.rxc` (Class C receptions outside a procedure,
`Model/History.lean`): the frames `rx_continuous` reports up to and including the first one the MAC acts
upon, none after it; nothing heard / a radio error ends the call without an event.

* `macHandleRxc_shape`: what `Mac::handle_rxc` can answer (`NoUpdate` with everything unchanged,
  `SessionExpired`, `DownlinkReceived` with the uplink counter advanced by one, or `Err(NotJoined)`);
* `listenLoop_refines` / `asyncListen_refines`: a call that returns IS `run` on `abstractListen`;
* `listenLoop_tot` / `asyncListen_tot`: from a well-formed state the call returns (no panic, no hang);
* `listenLoop_joined` / `listenLoop_notJoined`: the normal form in terms of the REFERENCE acceptance rule
  (`firstAccepted`: the first frame heard that `Spec/Freshness.lean` accepts);
* sessions: `AsyncCall` = an `AsyncOp` or a listen call; `asyncCalls_runC`, `asyncCalls_refines_run`.
-/
set_option linter.unusedSimpArgs false
namespace Model

/-! ## what `handle_rxc` can answer -/

theorem sessionHandleRxc_shape (s : Session) (cfg : Config) (region : RegionState) (d : RxData) (mp : Nat)
    (snr : Int) (o : RxOut) (s' : Session) (cfg' : Config) (region' : RegionState)
    (h : sessionHandleRx s cfg region d mp snr true = .ok (o, s', cfg', region')) :
    (o.resp = .noUpdate ∧ o.downlink = none ∧ s' = s ∧ cfg' = cfg ∧ region' = region)
    ∨ (o.resp = .sessionExpired ∧ o.downlink = none ∧ s.fcntUp = 0xFFFFFFFF ∧ s'.fcntUp = s.fcntUp)
    ∨ (∃ n, o.resp = .downlinkReceived n ∧ s.fcntUp ≠ 0xFFFFFFFF ∧ s'.fcntUp = s.fcntUp + 1) := by
  unfold sessionHandleRx at h
  split at h
  · simp only [if_true, pure, Except.pure, Except.ok.injEq, Prod.mk.injEq] at h
    obtain ⟨rfl, rfl, rfl, rfl⟩ := h
    exact Or.inl ⟨rfl, rfl, rfl, rfl, rfl⟩
  · split at h
    · simp only [pure, Except.pure, Except.ok.injEq, Prod.mk.injEq] at h
      obtain ⟨rfl, rfl, rfl, rfl⟩ := h
      exact Or.inl ⟨rfl, rfl, rfl, rfl, rfl⟩
    · split at h
      · simp only [pure, Except.pure, Except.ok.injEq, Prod.mk.injEq] at h
        obtain ⟨rfl, rfl, rfl, rfl⟩ := h
        exact Or.inl ⟨rfl, rfl, rfl, rfl, rfl⟩
      · simp only [if_true, pure, Except.pure, bind, Except.bind] at h
        by_cases hx : (s.fcntUp == 0xFFFFFFFF) = true
        · cases hc : d.confirmed <;>
            simp only [hc, hx, Bool.false_eq_true, if_false, if_true, Except.ok.injEq, Prod.mk.injEq] at h <;>
            obtain ⟨rfl, rfl, rfl, rfl⟩ := h <;>
            exact Or.inr (Or.inl ⟨rfl, rfl, by simpa using hx, rfl⟩)
        · cases hc : d.confirmed <;>
            simp only [hc, hx, Bool.false_eq_true, if_false, if_true, Except.ok.injEq, Prod.mk.injEq] at h <;>
            obtain ⟨rfl, rfl, rfl, rfl⟩ := h <;>
            exact Or.inr (Or.inr ⟨_, rfl, by simpa using hx, rfl⟩)

/-- **what `Mac::handle_rxc` can answer**: `Err(NotJoined)` (no session: nothing changes); `NoUpdate` —
then NOTHING changed and nothing is delivered; `SessionExpired` at the exhausted uplink counter;
`DownlinkReceived` with the uplink counter advanced by exactly one.  Never anything else: the
conversion `ListenResponse::from` cannot meet a response it panics on. -/
theorem macHandleRxc_shape (m : MacState) (v : RxView) (mp : Nat) (snr : Int) (o : Option RxOut) (m' : MacState)
    (h : macHandleRx m v mp snr true = .ok (o, m')) :
    (o = none ∧ m' = m ∧ m.fcntUp? = none)
    ∨ ∃ out, o = some out ∧
      ((out.resp = .noUpdate ∧ out.downlink = none ∧ m' = m)
       ∨ (out.resp = .sessionExpired ∧ out.downlink = none ∧ m.fcntUp? = some 0xFFFFFFFF ∧ m'.fcntUp? = m.fcntUp?)
       ∨ (∃ n u, out.resp = .downlinkReceived n ∧ m.fcntUp? = some u ∧ u ≠ 0xFFFFFFFF ∧ m'.fcntUp? = some (u + 1))) := by
  unfold macHandleRx at h
  split at h
  · rename_i s hst
    right
    split at h
    · obtain ⟨⟨o', s', cfg', region'⟩, hs, h⟩ := Except.bind_eq_ok h
      simp only [pure, Except.pure, Except.ok.injEq, Prod.mk.injEq] at h
      obtain ⟨rfl, rfl⟩ := h
      refine ⟨o', rfl, ?_⟩
      rcases sessionHandleRxc_shape _ _ _ _ _ _ _ _ _ _ hs with ⟨h1, h2, rfl, rfl, rfl⟩ | ⟨h1, h2, h3, h4⟩ | ⟨n, h1, h3, h4⟩
      · exact Or.inl ⟨h1, h2, MacState.eta_joined hst⟩
      · exact Or.inr (Or.inl ⟨h1, h2, by simp [MacState.fcntUp?, hst, h3], by simp [MacState.fcntUp?, hst, h4]⟩)
      · exact Or.inr (Or.inr ⟨n, s.fcntUp, h1, by simp [MacState.fcntUp?, hst], h3, by simp [MacState.fcntUp?, h4]⟩)
    · simp only [pure, Except.pure, Except.ok.injEq, Prod.mk.injEq] at h
      obtain ⟨rfl, rfl⟩ := h
      exact ⟨_, rfl, Or.inl ⟨rfl, rfl, rfl⟩⟩
  · rename_i o' hst
    simp only [if_true, pure, Except.pure, Except.ok.injEq, Prod.mk.injEq] at h
    obtain ⟨rfl, rfl⟩ := h
    exact Or.inl ⟨rfl, rfl, by simp [MacState.fcntUp?, hst]⟩
  · rename_i hst
    simp only [if_true, pure, Except.pure, Except.ok.injEq, Prod.mk.injEq] at h
    obtain ⟨rfl, rfl⟩ := h
    exact Or.inl ⟨rfl, rfl, by simp [MacState.fcntUp?, hst]⟩

/-! ## the abstraction of a listen call -/

/-- the radio answer that ends the listening (the first one that is not a frame) is an error -/
def listenEndsErr : List ScriptItem → Bool
  | .frame _ _ :: rest => listenEndsErr rest
  | .err :: _ => true
  | _ => false

/-- the frames heard up to and including the first one the MAC acts upon, as Class C receptions under
the size limit `mp`; a frame answered `NoUpdate` changed nothing (`macHandleRxc_shape`), so every one
of them meets the state `m` the call started in -/
def listenEvents (m : MacState) (mp : Nat) : List (RxView × Int) → List Ev
  | [] => []
  | (v, snr) :: rest =>
    .rxc v snr mp ::
      (match macHandleRx m v mp snr true with
       | .ok (some o, _) => if o.resp == .noUpdate then listenEvents m mp rest else []
       | _ => [])

/-- **the history of one call of `rxc_listen` in state `m` under a script of radio answers**: the size
limit is the one of `get_rxc_config` of the state the call starts in (computed once, before the loop) -/
def abstractListen (m : MacState) (script : List ScriptItem) : List Ev :=
  listenEvents m (rxcMp m) (leadFrames script).1

def Out.rxOut? : Out → Option RxOut
  | .rxc _ o => o
  | _ => none

/-- what `rxc_listen` answers, read off the outputs of its events and the way the listening ended -/
def listenResult (endsErr : Bool) : List Out → ListenResult
  | [] => if endsErr then .errRadio else .listening
  | .rxc _ none :: _ => .errMac
  | .rxc _ (some o) :: rest => if o.resp == .noUpdate then listenResult endsErr rest else .ok o.resp
  | _ :: rest => listenResult endsErr rest

/-- the uplink counter moves by exactly one iff `DownlinkReceived` is answered; `SessionExpired` only at
the exhausted counter; every other answer leaves MAC state and downlink queue as they were -/
def ListenFcnt (r : DevRun) (res : ListenResult) (r' : DevRun) : Prop :=
  match res with
  | .ok (.downlinkReceived _) => ∃ u, r.m.fcntUp? = some u ∧ u ≠ 0xFFFFFFFF ∧ r'.m.fcntUp? = some (u + 1)
  | .ok resp => resp = .sessionExpired ∧ r'.m.fcntUp? = r.m.fcntUp? ∧ r.m.fcntUp? = some 0xFFFFFFFF
  | _ => r'.m = r.m ∧ r'.downlinks = r.downlinks

/-- a listen call against the history of its events -/
structure ListenRel (r : DevRun) (res : ListenResult) (r' : DevRun) (outs : List Out) : Prop where
  /-- the answer is the one read off the outputs -/
  ans : res = listenResult (listenEndsErr r.script) outs
  /-- every output was offered to the downlink queue, in order -/
  dls : r'.downlinks = pushDls r.dlCap r.downlinks (outs.filterMap Out.rxOut?)
  cap : r'.dlCap = r.dlCap
  /-- nothing was transmitted -/
  calls : NoTxSince r r'
  fcnt : ListenFcnt r res r'

theorem rxOuts_cons (rf : RfConfig) (o : Option RxOut) (outs : List Out) :
    (Out.rxc rf o :: outs).filterMap Out.rxOut? = o.toList ++ outs.filterMap Out.rxOut? := by
  cases o <;> rfl

theorem deliver_m (r : DevRun) (o : Option RxOut) : (r.deliver o).m = r.m := (deliver_fields r o).1

theorem noTx_rxc (r : DevRun) (m : MacState) (rest : List ScriptItem) (q : List (Nat × List Nat)) :
    NoTxSince r (⟨m, rest, Call.rxContinuous :: r.calls, q, r.dlCap⟩ : DevRun) :=
  ⟨[.rxContinuous], rfl, by simp [Call.isTx]⟩

theorem listenLoop_refines {σ} (g : Rng σ) (rs : σ) (mp : Nat) (rf : RfConfig) (fuel : Nat) (r : DevRun)
    (hrf : macRxcConfig r.m = .ok rf) (res : ListenResult) (r' : DevRun)
    (h : listenLoop mp fuel r = .ok (res, r')) :
    ∃ outs, run g (r.m, rs) (listenEvents r.m mp (leadFrames r.script).1) = .ok ((r'.m, rs), outs) ∧
      ListenRel r res r' outs := by
  induction fuel generalizing r with
  | zero => cases h
  | succ fuel ih =>
    unfold listenLoop at h
    cases hs : r.script with
    | nil =>
      simp only [DevRun.next, DevRun.log, hs, pure, Except.pure, Except.ok.injEq, Prod.mk.injEq] at h
      obtain ⟨rfl, rfl⟩ := h
      refine ⟨[], by simp [leadFrames, listenEvents, run, pure, Except.pure], ?_⟩
      exact ⟨by simp [hs, listenEndsErr, listenResult], by simp [pushDls], rfl, ⟨[.rxContinuous], rfl, by simp [Call.isTx]⟩, ⟨rfl, rfl⟩⟩
    | cons i rest =>
      cases i with
      | ok =>
        simp only [DevRun.next, DevRun.log, hs, pure, Except.pure, Except.ok.injEq, Prod.mk.injEq] at h
        obtain ⟨rfl, rfl⟩ := h
        refine ⟨[], by simp [leadFrames, listenEvents, run, pure, Except.pure], ?_⟩
        exact ⟨by simp [hs, listenEndsErr, listenResult], by simp [pushDls], rfl, ⟨[.rxContinuous], rfl, by simp [Call.isTx]⟩, ⟨rfl, rfl⟩⟩
      | err =>
        simp only [DevRun.next, DevRun.log, hs, pure, Except.pure, Except.ok.injEq, Prod.mk.injEq] at h
        obtain ⟨rfl, rfl⟩ := h
        refine ⟨[], by simp [leadFrames, listenEvents, run, pure, Except.pure], ?_⟩
        exact ⟨by simp [hs, listenEndsErr, listenResult], by simp [pushDls], rfl, ⟨[.rxContinuous], rfl, by simp [Call.isTx]⟩, ⟨rfl, rfl⟩⟩
      | frame snr v =>
        simp only [DevRun.next, DevRun.log, hs] at h
        obtain ⟨⟨o, m1⟩, hrx, h⟩ := Except.bind_eq_ok h
        have hsh := macHandleRxc_shape r.m v mp snr o m1 hrx
        have hstep : step g (r.m, rs) (.rxc v snr mp) = .ok ((m1, rs), .rxc rf o) := by
          simp only [step, hrf, hrx, bind, Except.bind, pure, Except.pure]
        rcases hsh with ⟨rfl, rfl, hfu⟩ | ⟨out, rfl, hsh⟩
        · -- Err(NotJoined)
          simp only [DevRun.deliver, pure, Except.pure, Except.ok.injEq, Prod.mk.injEq] at h
          obtain ⟨rfl, rfl⟩ := h
          refine ⟨[.rxc rf none], ?_, ?_⟩
          · simp only [leadFrames, listenEvents, hrx, run, hstep, bind, Except.bind, pure, Except.pure]
          · exact ⟨by simp [listenResult], by simp [pushDls, rxOuts_cons], rfl, noTx_rxc r _ _ _, ⟨rfl, rfl⟩⟩
        · rcases hsh with ⟨hn, hd, rfl⟩ | ⟨hn, hd, hfu, hfu'⟩ | ⟨n, u, hn, hfu, hu, hfu'⟩
          · -- NoUpdate: go on listening, nothing changed
            simp only [hn] at h
            have hdel : (⟨r.m, rest, Call.rxContinuous :: r.calls, r.downlinks, r.dlCap⟩ : DevRun).deliver (some out) =
                (⟨r.m, rest, Call.rxContinuous :: r.calls, r.downlinks, r.dlCap⟩ : DevRun) := by
              simp [DevRun.deliver, hd]
            rw [hdel] at h
            obtain ⟨outs, hrun, hrel⟩ := ih ⟨r.m, rest, Call.rxContinuous :: r.calls, r.downlinks, r.dlCap⟩ hrf h
            refine ⟨.rxc rf (some out) :: outs, ?_, ?_⟩
            · simp only [leadFrames, listenEvents, hrx, hn, beq_self_eq_true, if_true, run, hstep, bind, Except.bind, pure,
                Except.pure]
              simp only [run, bind, Except.bind, pure, Except.pure] at hrun
              rw [hrun]
            · refine ⟨?_, ?_, hrel.cap, (noTx_rxc r r.m rest r.downlinks).trans hrel.calls, ?_⟩
              · rw [hrel.ans]; simp [listenResult, hn, hs, listenEndsErr]
              · rw [hrel.dls]; simp [pushDls, rxOuts_cons, pushDl, hd]
              · have := hrel.fcnt
                revert this
                unfold ListenFcnt
                cases res with
                | ok resp => cases resp <;> exact id
                | errRadio => exact id
                | errMac => exact id
                | listening => exact id
          · -- SessionExpired
            simp only [hn, pure, Except.pure, Except.ok.injEq, Prod.mk.injEq] at h
            obtain ⟨rfl, rfl⟩ := h
            refine ⟨[.rxc rf (some out)], ?_, ?_⟩
            · have hne : (out.resp == Response.noUpdate) = false := by rw [hn]; rfl
              simp only [leadFrames, listenEvents, hrx, hne, Bool.false_eq_true, if_false, run, hstep, bind, Except.bind, pure,
                Except.pure, deliver_m]
            · refine ⟨by simp [listenResult, hn], ?_, (deliver_fields _ _).2.2.2, ?_, ?_⟩
              · simp [pushDls, rxOuts_cons, deliver_some]
              · rw [deliver_some]; exact noTx_rxc r _ _ _
              · show _ ∧ _ ∧ _
                rw [(deliver_fields _ _).1]
                exact ⟨rfl, hfu', hfu⟩
          · -- DownlinkReceived
            simp only [hn, pure, Except.pure, Except.ok.injEq, Prod.mk.injEq] at h
            obtain ⟨rfl, rfl⟩ := h
            refine ⟨[.rxc rf (some out)], ?_, ?_⟩
            · have hne : (out.resp == Response.noUpdate) = false := by rw [hn]; rfl
              simp only [leadFrames, listenEvents, hrx, hne, Bool.false_eq_true, if_false, run, hstep, bind, Except.bind, pure,
                Except.pure, deliver_m]
            · refine ⟨by simp [listenResult, hn], ?_, (deliver_fields _ _).2.2.2, ?_, ?_⟩
              · simp [pushDls, rxOuts_cons, deliver_some]
              · rw [deliver_some]; exact noTx_rxc r _ _ _
              · show ∃ u, _
                rw [(deliver_fields _ _).1]
                exact ⟨u, hfu, hu, hfu'⟩

/-- **`rxc_listen` refines the histories.**  A call of `asyncListen` that returns IS `run` on the plain
history `abstractListen` (Class C receptions `Ev.rxc`, one per frame heard up to and including the first
one acted upon): the same final MAC state (and the generator state untouched), the downlink queue is the
one the outputs of those events were pushed to, the answer is the one read off those outputs
(`listenResult`), nothing was transmitted. -/
theorem asyncListen_refines {σ} (g : Rng σ) (rs : σ) (r : DevRun) (res : ListenResult) (r' : DevRun)
    (h : asyncListen r = .ok (res, r')) :
    ∃ outs, run g (r.m, rs) (abstractListen r.m r.script) = .ok ((r'.m, rs), outs) ∧ ListenRel r res r' outs := by
  unfold asyncListen at h
  obtain ⟨rf, hrf, h⟩ := Except.bind_eq_ok h
  unfold abstractListen
  rw [← rxcMp_of_ok hrf]
  exact listenLoop_refines g rs _ rf _ r hrf res r' h

/-! ## from a well-formed state the call returns -/

theorem listenLoop_tot (mp fuel : Nat) (r : DevRun) (h : MacWF r.m) (hv : scriptWF r.script = true)
    (hf : r.script.length < fuel) : Tot (listenLoop mp fuel r) (fun x => Keeps r.m x.2.m) := by
  induction fuel generalizing r with
  | zero => omega
  | succ fuel ih =>
    unfold listenLoop
    cases hs : r.script with
    | nil =>
      simp only [DevRun.next, DevRun.log, hs]
      exact Tot.pure (Keeps.refl h)
    | cons i rest =>
      rw [hs] at hv hf
      simp only [scriptWF, List.all_cons, Bool.and_eq_true] at hv
      cases i with
      | ok =>
        simp only [DevRun.next, DevRun.log, hs]
        exact Tot.pure (Keeps.refl h)
      | err =>
        simp only [DevRun.next, DevRun.log, hs]
        exact Tot.pure (Keeps.refl h)
      | frame snr v =>
        simp only [DevRun.next, DevRun.log, hs]
        obtain ⟨⟨o, m1⟩, hrx, hk⟩ := macHandleRx_tot r.m v mp snr true h hv.1
        rw [hrx]
        simp only [bind, Except.bind]
        simp only at hk
        rcases macHandleRxc_shape r.m v mp snr o m1 hrx with ⟨rfl, rfl, _⟩ | ⟨out, rfl, hsh⟩
        · exact Tot.pure (by rw [deliver_m]; exact hk)
        · rcases hsh with ⟨hn, hd, rfl⟩ | ⟨hn, hd, _, _⟩ | ⟨n, u, hn, _, _, _⟩
          · simp only [hn]
            have := ih ((⟨r.m, rest, Call.rxContinuous :: r.calls, r.downlinks, r.dlCap⟩ : DevRun).deliver (some out))
              (by rw [deliver_m]; exact h) (by rw [(deliver_fields _ _).2.1]; exact hv.2)
              (by rw [(deliver_fields _ _).2.1]; simp only [List.length_cons] at hf ⊢; omega)
            rw [deliver_m] at this
            exact this
          · simp only [hn]
            exact Tot.pure (by rw [deliver_m]; exact hk)
          · simp only [hn]
            exact Tot.pure (by rw [deliver_m]; exact hk)

/-- **from a well-formed MAC state `rxc_listen` returns, whatever the radio reports**: no panic — in
particular `ListenResponse::from` never meets a response it panics on — and no hang for any (finite)
script of radio answers; the state it leaves is well-formed again -/
theorem asyncListen_tot (r : DevRun) (h : MacWF r.m) (hv : scriptWF r.script = true) :
    Tot (asyncListen r) (fun x => Keeps r.m x.2.m) := by
  unfold asyncListen
  refine Tot.bind (macRxcConfig_tot r.m h) (fun rf _ => ?_)
  exact listenLoop_tot _ _ r h hv (Nat.lt_succ_self _)

/-! ## the normal form in terms of the reference acceptance rule -/

/-- the first frame of a list the REFERENCE accepts (`specRxc`: a data frame that fits `mp` and whose
MIC verifies under the unique counter that is fresh after `last`, `Spec/Freshness.lean`): the number of
frames heard before it, that counter, the frame -/
def firstAccepted (last : Option Nat) (mp : Nat) : List (RxView × Int) → Option (Nat × Nat × RxData)
  | [] => none
  | (v, _) :: rest =>
    match specRxc last v mp with
    | some (N, d) => some (0, N, d)
    | none => (firstAccepted last mp rest).map (fun x => (x.1 + 1, x.2))

/-- `firstAccepted` names the FIRST accepted frame: the `k` frames before it are not accepted -/
theorem firstAccepted_some {last : Option Nat} {mp : Nat} {cs : List (RxView × Int)} {k N : Nat} {d : RxData}
    (h : firstAccepted last mp cs = some (k, N, d)) :
    (∃ snr, cs[k]? = some (.data d, snr)) ∧ accepts last d mp = some N ∧
      ∀ i < k, ∀ c, cs[i]? = some c → specRxc last c.1 mp = none := by
  induction cs generalizing k with
  | nil => cases h
  | cons c rest ih =>
    obtain ⟨v, snr⟩ := c
    simp only [firstAccepted] at h
    cases hsp : specRxc last v mp with
    | some p =>
      obtain ⟨N', d'⟩ := p
      simp only [hsp, Option.some.injEq, Prod.mk.injEq] at h
      obtain ⟨rfl, rfl, rfl⟩ := h
      refine ⟨?_, ?_, fun i hi => by omega⟩
      · cases v with
        | data d0 =>
          simp only [specRxc, Option.map_eq_some_iff, Prod.mk.injEq] at hsp
          obtain ⟨_, _, _, rfl⟩ := hsp
          exact ⟨snr, rfl⟩
        | garbage => cases hsp
        | joinAccept j => cases hsp
      · cases v with
        | data d0 =>
          simp only [specRxc, Option.map_eq_some_iff, Prod.mk.injEq] at hsp
          obtain ⟨_, ha, rfl, rfl⟩ := hsp
          exact ha
        | garbage => cases hsp
        | joinAccept j => cases hsp
    | none =>
      simp only [hsp, Option.map_eq_some_iff, Prod.mk.injEq] at h
      obtain ⟨⟨k', N', d'⟩, h', rfl, rfl, rfl⟩ := h
      obtain ⟨h1, h2, h3⟩ := ih h'
      refine ⟨by simpa using h1, h2, ?_⟩
      intro i hi c hc
      cases i with
      | zero => simp only [List.getElem?_cons_zero, Option.some.injEq] at hc; subst hc; exact hsp
      | succ j => exact h3 j (by omega) c (by simpa using hc)

theorem firstAccepted_none {last : Option Nat} {mp : Nat} {cs : List (RxView × Int)}
    (h : firstAccepted last mp cs = none) : ∀ c ∈ cs, specRxc last c.1 mp = none := by
  induction cs with
  | nil => intro c hc; cases hc
  | cons c rest ih =>
    obtain ⟨v, snr⟩ := c
    simp only [firstAccepted] at h
    cases hsp : specRxc last v mp with
    | some p => simp [hsp] at h
    | none =>
      simp only [hsp, Option.map_eq_none_iff] at h
      intro c hc
      rcases List.mem_cons.mp hc with rfl | hc
      · exact hsp
      · exact ih h c hc

/-- the context an accepted Class C frame leaves the MAC commands in: untouched (`handle_rxc` ignores them) -/
def rxcCtx (m : MacState) (s : Session) : MacCtx := { cfg := m.cfg, region := m.region, pending := s.pending }

/-- what a listen call of a device with session `s` does, by the reference: nothing but ending as the
radio ended it, or the effect of the first accepted frame -/
def ListenNF (r : DevRun) (s : Session) (mp : Nat) (res : ListenResult) (r' : DevRun) : Prop :=
  match firstAccepted s.fcntDown mp (leadFrames r.script).1 with
  | none =>
    r'.m = r.m ∧ r'.downlinks = r.downlinks ∧ res = (if listenEndsErr r.script then .errRadio else .listening) ∧
      r'.script = (leadFrames r.script).2
  | some (k, N, d) =>
    r'.m = acceptState r.m s d N (rxcCtx r.m s) ∧
      r'.downlinks = pushDl r.dlCap r.downlinks (acceptOut s d N (rxcCtx r.m s)) ∧
      res = .ok (acceptOut s d N (rxcCtx r.m s)).resp ∧ r'.script = r.script.drop (k + 1)

/-- `handle_rxc` of a device with a session IS the reference verdict followed by the effect of the accepted frame -/
theorem macHandleRxc_joined_spec (m : MacState) (s : Session) (hst : m.st = .joined s) (hl : LastOk s.fcntDown)
    (v : RxView) (mp : Nat) (snr : Int) (hw : viewOk v = true) :
    macHandleRx m v mp snr true =
      (match specRxc s.fcntDown v mp with
       | some (N, d) => pure (some (acceptOut s d N (rxcCtx m s)), acceptState m s d N (rxcCtx m s))
       | none => pure (some noUp, m)) := by
  rw [macHandleRxc_joined m s hst hl v mp snr hw]
  cases v with
  | garbage => rfl
  | joinAccept j => rfl
  | data d =>
    simp only [specRxc]
    cases accepts s.fcntDown d mp with
    | none => rfl
    | some N => rfl

theorem leadFrames_snd_cons_frame (snr : Int) (v : RxView) (rest : List ScriptItem) :
    (leadFrames (.frame snr v :: rest)).2 = (leadFrames rest).2 := rfl

theorem listenLoop_joined (mp fuel : Nat) (r : DevRun) (s : Session) (hst : r.m.st = .joined s) (hl : LastOk s.fcntDown)
    (hv : r.script.all (ScriptItem.allView viewOk) = true) (hf : r.script.length < fuel) :
    ∃ res r', listenLoop mp fuel r = .ok (res, r') ∧ ListenNF r s mp res r' := by
  induction fuel generalizing r with
  | zero => omega
  | succ fuel ih =>
    unfold listenLoop
    cases hs : r.script with
    | nil =>
      simp only [DevRun.next, DevRun.log, hs]
      exact ⟨_, _, rfl, by simp [ListenNF, hs, leadFrames, firstAccepted, listenEndsErr]⟩
    | cons i rest =>
      rw [hs] at hv hf
      simp only [List.all_cons, Bool.and_eq_true] at hv
      cases i with
      | ok =>
        simp only [DevRun.next, DevRun.log, hs]
        exact ⟨_, _, rfl, by simp [ListenNF, hs, leadFrames, firstAccepted, listenEndsErr]⟩
      | err =>
        simp only [DevRun.next, DevRun.log, hs]
        exact ⟨_, _, rfl, by simp [ListenNF, hs, leadFrames, firstAccepted, listenEndsErr]⟩
      | frame snr v =>
        simp only [DevRun.next, DevRun.log, hs]
        have hw : viewOk v = true := hv.1
        rw [macHandleRxc_joined_spec r.m s hst hl v mp snr hw]
        cases hsp : specRxc s.fcntDown v mp with
        | none =>
          simp only [bind, Except.bind, pure, Except.pure, noUp]
          have hdel : (⟨r.m, rest, Call.rxContinuous :: r.calls, r.downlinks, r.dlCap⟩ : DevRun).deliver
              (some { resp := .noUpdate, downlink := none }) =
              (⟨r.m, rest, Call.rxContinuous :: r.calls, r.downlinks, r.dlCap⟩ : DevRun) := by
            simp [DevRun.deliver]
          rw [hdel]
          obtain ⟨res, r', hrun, hnf⟩ := ih ⟨r.m, rest, Call.rxContinuous :: r.calls, r.downlinks, r.dlCap⟩ hst hv.2
            (by simp only [List.length_cons] at hf; exact Nat.lt_of_succ_lt_succ hf)
          refine ⟨res, r', hrun, ?_⟩
          unfold ListenNF at hnf ⊢
          simp only [hs, leadFrames, firstAccepted, hsp, listenEndsErr] at hnf ⊢
          cases hfa : firstAccepted s.fcntDown mp (leadFrames rest).1 with
          | none =>
            simp only [hfa, Option.map_none] at hnf ⊢
            exact hnf
          | some x =>
            obtain ⟨k, N, d⟩ := x
            simp only [hfa, Option.map_some] at hnf ⊢
            refine ⟨hnf.1, hnf.2.1, hnf.2.2.1, ?_⟩
            rw [hnf.2.2.2]; rfl
        | some p =>
          obtain ⟨N, d0⟩ := p
          have ha : firstAccepted s.fcntDown mp ((v, snr) :: (leadFrames rest).1) = some (0, N, d0) := by
            simp only [firstAccepted, hsp]
          · simp only [bind, Except.bind, pure, Except.pure]
            refine ⟨.ok (acceptOut s d0 N (rxcCtx r.m s)).resp,
              (⟨acceptState r.m s d0 N (rxcCtx r.m s), rest, Call.rxContinuous :: r.calls, r.downlinks, r.dlCap⟩ : DevRun).deliver
                (some (acceptOut s d0 N (rxcCtx r.m s))), ?_, ?_⟩
            · rcases acceptOut_resp s d0 N (rxcCtx r.m s) with ⟨he, _⟩ | ⟨he, _⟩ <;> simp only [he]
            · simp [ListenNF, hs, leadFrames, ha, deliver_some]

/-- a device without a session: the first frame heard ends the call with `Err(Mac)` (NotJoined); nothing changes -/
theorem listenLoop_notJoined (mp fuel : Nat) (r : DevRun) (hst : ∀ s, r.m.st ≠ .joined s) (res : ListenResult) (r' : DevRun)
    (h : listenLoop mp (fuel + 1) r = .ok (res, r')) :
    r'.m = r.m ∧ r'.downlinks = r.downlinks ∧
      res = (if (leadFrames r.script).1.isEmpty then (if listenEndsErr r.script then .errRadio else .listening) else .errMac) := by
  unfold listenLoop at h
  cases hs : r.script with
  | nil =>
    simp only [DevRun.next, DevRun.log, hs, pure, Except.pure, Except.ok.injEq, Prod.mk.injEq] at h
    obtain ⟨rfl, rfl⟩ := h
    simp [leadFrames, listenEndsErr]
  | cons i rest =>
    cases i with
    | ok =>
      simp only [DevRun.next, DevRun.log, hs, pure, Except.pure, Except.ok.injEq, Prod.mk.injEq] at h
      obtain ⟨rfl, rfl⟩ := h
      simp [leadFrames, listenEndsErr]
    | err =>
      simp only [DevRun.next, DevRun.log, hs, pure, Except.pure, Except.ok.injEq, Prod.mk.injEq] at h
      obtain ⟨rfl, rfl⟩ := h
      simp [leadFrames, listenEndsErr]
    | frame snr v =>
      simp only [DevRun.next, DevRun.log, hs, macHandleRxc_notJoined r.m hst v mp snr, bind, Except.bind, pure, Except.pure,
        DevRun.deliver, Except.ok.injEq, Prod.mk.injEq] at h
      obtain ⟨rfl, rfl⟩ := h
      simp [leadFrames]

/-! ## sessions with listen calls -/

/-- an application call on the async device: one of `AsyncOp` (`send` / `join` with their scripts, ABP
activation, the setters) or a call of `rxc_listen` with the script of radio answers it meets -/
inductive AsyncCall where
  | op (o : AsyncOp)
  | listen (script : List ScriptItem)
  deriving Repr

/-- what the application sees of one call -/
inductive CallObs where
  | op (ob : OpObs)
  | listen (res : ListenResult)
  deriving Repr

def asyncCall {σ} (g : Rng σ) (cfg : DevCfg) (r : DevRun) (rs : σ) : AsyncCall → M (CallObs × DevRun × σ)
  | .op o => do
    let (ob, r', rs') ← asyncOp g cfg r rs o
    pure (.op ob, r', rs')
  | .listen script => do
    let (res, r') ← asyncListen { r with script := script }
    pure (.listen res, r', rs)

/-- a session: sends, joins, setters and listen calls in any order -/
def asyncCalls {σ} (g : Rng σ) (cfg : DevCfg) : DevRun → σ → List AsyncCall → M (List CallObs × DevRun × σ)
  | r, rs, [] => pure ([], r, rs)
  | r, rs, c :: rest => do
    let (ob, r, rs) ← asyncCall g cfg r rs c
    let (obs, r, rs) ← asyncCalls g cfg r rs rest
    pure (ob :: obs, r, rs)

/-- **the events of one call** in MAC state `m`: the one event of an `AsyncOp`; for a listen call the
Class C receptions `abstractListen` (possibly none) -/
def abstractCall (cfg : DevCfg) (m : MacState) : AsyncCall → List EvC
  | .op o => [abstractOp cfg o]
  | .listen script => (abstractListen m script).map .base

/-- **the extended history of a session with listen calls** (each call's events in the state the
history reaches, as `plainRun` / `abstractSession` do) -/
def abstractCalls {σ} (g : Rng σ) (cfg : DevCfg) : MacState × σ → List AsyncCall → List EvC
  | _, [] => []
  | ms, c :: rest =>
    abstractCall cfg ms.1 c ++
      (match runC g ms (abstractCall cfg ms.1 c) with
       | .ok (ms', _) => abstractCalls g cfg ms' rest
       | .error _ => [])

/-- the observations of a session against the outputs of its history: one output per `AsyncOp`
(`ObsRel`), a group of outputs per listen call from which its answer is read (`listenResult`) -/
inductive SessObs : List AsyncCall → List CallObs → List OutC → Prop
  | nil : SessObs [] [] []
  | op {o : AsyncOp} {ob : OpObs} {oc : OutC} {calls : List AsyncCall} {obs : List CallObs} {ocs : List OutC} :
      ObsRel ob oc → SessObs calls obs ocs → SessObs (.op o :: calls) (.op ob :: obs) (oc :: ocs)
  | listen {script : List ScriptItem} {res : ListenResult} {outs : List Out} {calls : List AsyncCall} {obs : List CallObs}
      {ocs : List OutC} :
      res = listenResult (listenEndsErr script) outs → SessObs calls obs ocs →
      SessObs (.listen script :: calls) (.listen res :: obs) (outs.map (fun o => ({ out := o } : OutC)) ++ ocs)

theorem runC_append {σ} (g : Rng σ) (ms ms1 ms2 : MacState × σ) (a b : List EvC) (o1 o2 : List OutC)
    (h1 : runC g ms a = .ok (ms1, o1)) (h2 : runC g ms1 b = .ok (ms2, o2)) : runC g ms (a ++ b) = .ok (ms2, o1 ++ o2) := by
  induction a generalizing ms o1 with
  | nil =>
    simp only [runC, pure, Except.pure, Except.ok.injEq, Prod.mk.injEq] at h1
    obtain ⟨rfl, rfl⟩ := h1
    simpa using h2
  | cons ev rest ih =>
    unfold runC at h1
    obtain ⟨⟨msa, oc⟩, hstep, hk⟩ := Except.bind_eq_ok h1
    obtain ⟨⟨msb, ocs⟩, hrun, hk2⟩ := Except.bind_eq_ok hk
    simp only [pure, Except.pure, Except.ok.injEq, Prod.mk.injEq] at hk2
    obtain ⟨rfl, rfl⟩ := hk2
    simp only [List.cons_append, runC, hstep, ih msa ocs hrun, bind, Except.bind, pure, Except.pure]

/-- a run of `Model/History.lean` is the run of the extended history of its events -/
theorem runC_base {σ} (g : Rng σ) (ms ms' : MacState × σ) (evs : List Ev) (outs : List Out)
    (h : run g ms evs = .ok (ms', outs)) :
    runC g ms (evs.map .base) = .ok (ms', outs.map (fun o => ({ out := o } : OutC))) := by
  induction evs generalizing ms outs with
  | nil =>
    simp only [run, pure, Except.pure, Except.ok.injEq, Prod.mk.injEq] at h
    obtain ⟨rfl, rfl⟩ := h
    rfl
  | cons ev rest ih =>
    unfold run at h
    obtain ⟨⟨msa, o⟩, hstep, hk⟩ := Except.bind_eq_ok h
    obtain ⟨⟨msb, os⟩, hrun, hk2⟩ := Except.bind_eq_ok hk
    simp only [pure, Except.pure, Except.ok.injEq, Prod.mk.injEq] at hk2
    obtain ⟨rfl, rfl⟩ := hk2
    simp only [List.map_cons, runC, stepC, hstep, ih msa os hrun, bind, Except.bind, pure, Except.pure]

/-- one call against the run of its events -/
theorem asyncCall_runC {σ} (g : Rng σ) (cfg : DevCfg) (d : DevRun) (rs : σ) (c : AsyncCall) (ob : CallObs) (d' : DevRun) (rs' : σ)
    (h : asyncCall g cfg d rs c = .ok (ob, d', rs')) :
    ∃ ocs, runC g (d.m, rs) (abstractCall cfg d.m c) = .ok ((d'.m, rs'), ocs) ∧
      ∀ calls obs ocs', SessObs calls obs ocs' → SessObs (c :: calls) (ob :: obs) (ocs ++ ocs') := by
  cases c with
  | op o =>
    simp only [asyncCall] at h
    obtain ⟨⟨ob1, d1, rs1⟩, hop, hk⟩ := Except.bind_eq_ok h
    simp only [pure, Except.pure, Except.ok.injEq, Prod.mk.injEq] at hk
    obtain ⟨rfl, rfl, rfl⟩ := hk
    obtain ⟨⟨⟨m1, s1⟩, oc⟩, hst, hrel⟩ := (asyncOp_sim g cfg d rs o).elim_ok hop
    have hm : d1.m = m1 := hrel.m
    have hr : rs1 = s1 := hrel.rng
    subst hm hr
    refine ⟨[oc], ?_, fun calls obs ocs' hso => SessObs.op hrel.obs hso⟩
    simp only [abstractCall, runC, hst, bind, Except.bind, pure, Except.pure]
  | listen script =>
    simp only [asyncCall] at h
    obtain ⟨⟨res, d1⟩, hl, hk⟩ := Except.bind_eq_ok h
    simp only [pure, Except.pure, Except.ok.injEq, Prod.mk.injEq] at hk
    obtain ⟨rfl, rfl, rfl⟩ := hk
    obtain ⟨outs, hrun, hrel⟩ := asyncListen_refines g rs _ res d1 hl
    refine ⟨outs.map (fun o => ({ out := o } : OutC)), runC_base g _ _ _ outs hrun, fun calls obs ocs' hso => SessObs.listen hrel.ans hso⟩

/-- **every session of the async front-end — sends, joins, setters AND listen calls, either class, any
scripts — that returns IS a run of the extended history of its calls**: same final MAC state and
generator state; the outputs are, call by call, the front-end's answers (`SessObs`) -/
theorem asyncCalls_runC {σ} (g : Rng σ) (cfg : DevCfg) (d : DevRun) (rs : σ) (calls : List AsyncCall)
    (obs : List CallObs) (d' : DevRun) (rs' : σ) (h : asyncCalls g cfg d rs calls = .ok (obs, d', rs')) :
    ∃ ocs, runC g (d.m, rs) (abstractCalls g cfg (d.m, rs) calls) = .ok ((d'.m, rs'), ocs) ∧ SessObs calls obs ocs := by
  induction calls generalizing d rs obs with
  | nil =>
    simp only [asyncCalls, pure, Except.pure, Except.ok.injEq, Prod.mk.injEq] at h
    obtain ⟨rfl, rfl, rfl⟩ := h
    exact ⟨[], rfl, .nil⟩
  | cons c rest ih =>
    unfold asyncCalls at h
    obtain ⟨⟨ob, d1, rs1⟩, hc, hk⟩ := Except.bind_eq_ok h
    obtain ⟨⟨obs1, d2, rs2⟩, hrest, hk2⟩ := Except.bind_eq_ok hk
    simp only [pure, Except.pure, Except.ok.injEq, Prod.mk.injEq] at hk2
    obtain ⟨rfl, rfl, rfl⟩ := hk2
    obtain ⟨ocs1, hrun1, hobs1⟩ := asyncCall_runC g cfg d rs c ob d1 rs1 hc
    obtain ⟨ocs2, hrun2, hobs2⟩ := ih d1 rs1 obs1 hrest
    refine ⟨ocs1 ++ ocs2, ?_, hobs1 _ _ _ hobs2⟩
    simp only [abstractCalls, hrun1]
    exact runC_append g _ _ _ _ _ _ _ hrun1 hrun2

/-- no frame is heard between the windows of a `send` / `join` of the session (listen calls are plain
Class C receptions anyway) -/
def AsyncCall.plain (cfg : DevCfg) : AsyncCall → Bool
  | .op o => o.plain cfg
  | .listen _ => true

theorem abstractCall_plain (cfg : DevCfg) (m : MacState) (c : AsyncCall) (h : c.plain cfg = true) :
    ∀ ev ∈ abstractCall cfg m c, ev.plain = true := by
  cases c with
  | op o =>
    intro ev hev
    simp only [abstractCall, List.mem_singleton] at hev
    subst hev
    rw [abstractOp_plain]; exact h
  | listen script =>
    intro ev hev
    simp only [abstractCall, List.mem_map] at hev
    obtain ⟨e, _, rfl⟩ := hev
    rfl

theorem abstractCalls_plain {σ} (g : Rng σ) (cfg : DevCfg) (ms : MacState × σ) (calls : List AsyncCall)
    (h : ∀ c ∈ calls, c.plain cfg = true) : ∀ ev ∈ abstractCalls g cfg ms calls, ev.plain = true := by
  induction calls generalizing ms with
  | nil => intro ev hev; cases hev
  | cons c rest ih =>
    intro ev hev
    simp only [abstractCalls, List.mem_append] at hev
    rcases hev with hev | hev
    · exact abstractCall_plain cfg ms.1 c (h c List.mem_cons_self) ev hev
    · split at hev
      · exact ih _ (fun c' hc' => h c' (List.mem_cons_of_mem _ hc')) ev hev
      · cases hev

/-- **the plain history of a session with listen calls** -/
def abstractCallsPlain {σ} (g : Rng σ) (cfg : DevCfg) (m : MacState) (rs : σ) (calls : List AsyncCall) : List Ev :=
  plainRun g (m, rs) (abstractCalls g cfg (m, rs) calls)

/-- **every session of the async front-end with listen calls in which no frame is heard between the
windows of a `send` / `join` (every session of a device that listens only through `rxc_listen`)
refines `History.run`**: if the session returns, the plain history `abstractCallsPlain` returns the same
MAC and generator state, and its outputs are, call by call, the front-end's answers -/
theorem asyncCalls_refines_run {σ} (g : Rng σ) (cfg : DevCfg) (d : DevRun) (rs : σ) (calls : List AsyncCall)
    (hp : ∀ c ∈ calls, c.plain cfg = true) (obs : List CallObs) (d' : DevRun) (rs' : σ)
    (h : asyncCalls g cfg d rs calls = .ok (obs, d', rs')) :
    ∃ ocs, run g (d.m, rs) (abstractCallsPlain g cfg d.m rs calls) = .ok ((d'.m, rs'), ocs.map (·.out)) ∧
      SessObs calls obs ocs := by
  obtain ⟨ocs, hrun, hobs⟩ := asyncCalls_runC g cfg d rs calls obs d' rs' h
  exact ⟨ocs, runC_plain g (d.m, rs) _ _ (abstractCalls_plain g cfg _ calls hp) ocs hrun, hobs⟩

/-- the application-side contract of a call, plus the representation facts of the decoded views -/
def AsyncCall.valid (r : RegionId) : AsyncCall → Bool
  | .op o => o.valid r
  | .listen script => scriptWF script

/-! ## 16-bit wire counters in the scripts give events that carry them -/

def AsyncCall.allView (P : RxView → Bool) : AsyncCall → Bool
  | .op o => o.allView P
  | .listen script => script.all (ScriptItem.allView P)

theorem listenEvents_evOk (m : MacState) (mp : Nat) (cs : List (RxView × Int)) (h : cs.all (fun c => viewOk c.1) = true) :
    ∀ e ∈ listenEvents m mp cs, evOk e = true := by
  induction cs with
  | nil => intro e he; cases he
  | cons c rest ih =>
    obtain ⟨v, snr⟩ := c
    simp only [List.all_cons, Bool.and_eq_true] at h
    intro e he
    simp only [listenEvents, List.mem_cons] at he
    rcases he with rfl | he
    · exact h.1
    · split at he
      · split at he
        · exact ih h.2 e he
        · cases he
      · cases he

theorem abstractCall_evOkC (cfg : DevCfg) (m : MacState) (c : AsyncCall) (h : c.allView viewOk = true) :
    ∀ ev ∈ abstractCall cfg m c, evOkC ev = true := by
  cases c with
  | op o =>
    intro ev hev
    simp only [abstractCall, List.mem_singleton] at hev
    subst hev
    exact abstractOp_evOkC cfg o h
  | listen script =>
    intro ev hev
    simp only [abstractCall, List.mem_map] at hev
    obtain ⟨e, he, rfl⟩ := hev
    exact listenEvents_evOk m _ _ (leadFrames_cs_all viewOk h) e he

theorem abstractCalls_evOkC {σ} (g : Rng σ) (cfg : DevCfg) (ms : MacState × σ) (calls : List AsyncCall)
    (h : ∀ c ∈ calls, c.allView viewOk = true) : ∀ ev ∈ abstractCalls g cfg ms calls, evOkC ev = true := by
  induction calls generalizing ms with
  | nil => intro ev hev; cases hev
  | cons c rest ih =>
    intro ev hev
    simp only [abstractCalls, List.mem_append] at hev
    rcases hev with hev | hev
    · exact abstractCall_evOkC cfg ms.1 c (h c List.mem_cons_self) ev hev
    · split at hev
      · exact ih _ (fun c' hc' => h c' (List.mem_cons_of_mem _ hc')) ev hev
      · cases hev

end Model
