import LoraVerif.Lemmas.PhyLemmas
/-!
# SX127x register effects (C13): lora-phy's driver against Semtech's `sx127x.c`

The two drivers factor their register traffic differently (single accesses and re-reads against
burst writes), so the comparison is on the chip-visible effect: the register file after the
operation, `(trace p c).2.1.regs`, for every prior register content.
-/
open Model.Phy Spec.Semtech
namespace C13
open Gen.PhyCodes127

theorem u8_forall (P : UInt8 → Prop) (h : ∀ i : Fin 256, P (UInt8.ofNat i.val)) (x : UInt8) : P x := by
  have := h ⟨x.toNat, x.toNat_lt⟩
  simpa using this

/-- symbolic execution of both SX127x drivers on the wire-level chip -/
syntax "eff127" ("[" Lean.Parser.Tactic.simpLemma,* "]")? : tactic
macro_rules
  | `(tactic| eff127) => `(tactic| eff127 [])
  | `(tactic| eff127 [$ls,*]) => `(tactic|
  simp +decide [$ls,*, Sx127x.writeRegister, Sx127x.readRegister, Sx127x.wr, Sx127x.rd, S127.readRegister, S127.writeRegister,
    intfWrite, intfRead, halWrite, halRead, Prog.req, Prog.xfer, byte, u8,
    Gen.PhyCodes127.Register.write_addr, Gen.PhyCodes127.Register.read_addr, Gen.PhyCodes127.Register.toInt,
    Gen.PhyCodes127.LoRaMode.value, Gen.PhyCodes127.LoRaMode.toInt,
    Rt.orI, Rt.andI, Rt.wrap, Rt.ITy.bits, Chip.transact, Chip.write127, Chip.read127, setAt, byteAt])

/-! ### the code tables (tie A) are the reference's enums -/

def sfNum127 : SpreadingFactor → Nat
  | ._5 => 5 | ._6 => 6 | ._7 => 7 | ._8 => 8 | ._9 => 9 | ._10 => 10 | ._11 => 11 | ._12 => 12
def crDenom127 : CodingRate → Nat
  | ._4_5 => 5 | ._4_6 => 6 | ._4_7 => 7 | ._4_8 => 8

theorem sf127_code (sf : SpreadingFactor) (h : sf ≠ ._5) :
    spreading_factor_value sf = some (sfNum127 sf : Int) ∧ 6 ≤ sfNum127 sf ∧ sfNum127 sf ≤ 12 ∧ (sf = ._6 ↔ sfNum127 sf = 6) := by
  cases sf <;> first | exact absurd rfl h | decide

theorem cr127_code (cr : CodingRate) :
    coding_rate_denominator_value cr = some (crDenom127 cr : Int) ∧ coding_rate_value cr = some ((crDenom127 cr - 4 : Nat) : Int) ∧
      5 ≤ crDenom127 cr ∧ crDenom127 cr ≤ 8 := by
  cases cr <;> decide

def bw1276Num : Bandwidth → Nat
  | ._7KHz => 0 | ._10KHz => 1 | ._15KHz => 2 | ._20KHz => 3 | ._31KHz => 4 | ._41KHz => 5 | ._62KHz => 6
  | ._125KHz => 7 | ._250KHz => 8 | ._500KHz => 9

theorem bw1276_code (bw : Bandwidth) :
    Sx127x.bandwidthValue .sx1276 bw = some (bw1276Num bw : Int) ∧ S127.bwCode (Sx127x.hzOf bw) = some (bw1276Num bw) ∧
      bw1276Num bw ≤ 9 ∧ (bw = ._500KHz ↔ bw1276Num bw = 9) := by
  cases bw <;> decide

theorem bw1272_code (bw : Bandwidth) (h : Sx127x.hzOf bw ≥ 125000) :
    Sx127x.bandwidthValue .sx1272 bw = some ((bw1276Num bw - 7 : Nat) : Int) ∧ S127.bwCode (Sx127x.hzOf bw) = some (bw1276Num bw) ∧
      7 ≤ bw1276Num bw ∧ bw1276Num bw ≤ 9 := by
  cases bw <;> first | decide | exact absurd h (by decide)

/-! ### sleep, standby -/

/-- `set_standby`: RegOpMode := LoRa | Standby against the reference's read-modify-write of the mode
bits; the chip keeps its LongRangeMode bit outside sleep — same register file afterwards, whatever
RegOpMode held before -/
theorem sx127x_standby_effect_eq (c : Chip) (hk : c.kind = .sx127x) :
    (trace Sx127x.setStandby c).2.1.regs = (trace S127.setStandby c).2.1.regs := by
  funext a
  eff127 [Sx127x.setStandby, S127.setStandby, S127.setOpMode, S127.REG_OP_MODE, hk]
  by_cases ha : a = 1
  · simp only [ha, if_true]
    generalize c.regs 1 = r
    revert r
    exact u8_forall _ (by decide +kernel)
  · simp only [ha, if_false]

/-- `set_sleep` from an active mode (mode bits ≠ 0: the reference's write of a bare `0` to a chip that
already sleeps would clear LongRangeMode, lora-phy's `0x80` would not) -/
theorem sx127x_sleep_effect_eq (c : Chip) (hk : c.kind = .sx127x) (hm : c.regs 1 &&& 7 ≠ 0) :
    (trace Sx127x.setSleep c).2.1.regs = (trace S127.setSleep c).2.1.regs := by
  funext a
  eff127 [Sx127x.setSleep, S127.setSleep, S127.setOpMode, S127.REG_OP_MODE, hk]
  by_cases ha : a = 1
  · simp only [ha, if_true]
    generalize c.regs 1 = r at hm
    revert r
    exact u8_forall _ (by decide +kernel)
  · simp only [ha, if_false]

/-! ### symbol-count RX timeout: all 10-bit values, the other bits of RegModemConfig2 preserved -/

theorem sx127x_symbol_timeout_effect_eq (k : Nat) (hk0 : 0 < k) (hk1 : k ≤ 1023) (c : Chip) (hk : c.kind = .sx127x) :
    (trace (Sx127x.setLoraSymbolNumTimeout k) c).2.1.regs = (trace (S127.setLoraSyncTimeout k) c).2.1.regs := by
  funext a
  have h0 : k ≠ 0 := by omega
  have h1 : min k 1023 = k := by omega
  eff127 [Sx127x.setLoraSymbolNumTimeout, S127.setLoraSyncTimeout, S127.REG_LORA_MODEM_CONFIG_2, hk, h0, h1,
    Sx127x.SX127X_MAX_LORA_SYMB_NUM_TIMEOUT]
  by_cases h31 : a = 31
  · simp only [h31, if_true]
  · simp only [h31, if_false]
    by_cases h30 : a = 30
    · simp only [h30, if_true]
      have hq : k / 256 < 4 := by omega
      have e : k / 256 % 4 = k / 256 := Nat.mod_eq_of_lt hq
      rw [e]
      generalize k / 256 = q at hq
      generalize c.regs 30 = r
      have h4 : ∀ q : Fin 4, ∀ r : UInt8, r &&& 252 ||| UInt8.ofNat q.val = r &&& ~~~3 ||| UInt8.ofNat q.val &&& 3 := by
        intro q; exact u8_forall _ (by revert q; decide +kernel)
      exact h4 ⟨q, hq⟩ r
    · simp only [h30, if_false]

/-- what the driver writes for EVERY count (clamped to 10 bits): bits 9:8 into RegModemConfig2[1:0] with
bits 7:2 preserved, bits 7:0 into RegSymbTimeoutLsb, nothing else -/
theorem sx127x_symbol_timeout_value (k : Nat) (c : Chip) (hk : c.kind = .sx127x) (a : Nat) :
    (trace (Sx127x.setLoraSymbolNumTimeout k) c).2.1.regs a =
      if a = 0x1f then UInt8.ofNat (min k 1023 % 256)
      else if a = 0x1e then (c.regs 0x1e &&& 0xfc) ||| UInt8.ofNat (min k 1023 / 256 % 4)
      else c.regs a := by
  eff127 [Sx127x.setLoraSymbolNumTimeout, hk, Sx127x.SX127X_MAX_LORA_SYMB_NUM_TIMEOUT]

/-- the RX start in single mode programs the same symbol timeout as the reference's
`set_lora_sync_timeout` (the comparison of the `dorx` effect lines: RegModemConfig2, RegSymbTimeoutLsb) -/
theorem sx127x_rx_single_timeout_effect_eq (cfg : Sx127x.Config) (n : Nat) (h4 : 4 ≤ n) (h1023 : n ≤ 1023) (c : Chip)
    (hk : c.kind = .sx127x) (a : Nat) (ha : a = 0x1e ∨ a = 0x1f) :
    (trace (Sx127x.doRx cfg (.single n)) c).2.1.regs a = (trace (S127.setLoraSyncTimeout n) c).2.1.regs a := by
  have h0 : n ≠ 0 := by omega
  have hmx : max n 4 = n := by omega
  have h1 : min n 1023 = n := by omega
  have hq : n / 256 < 4 := by omega
  have e : n / 256 % 4 = n / 256 := Nat.mod_eq_of_lt hq
  have h4' : ∀ q : Fin 4, ∀ r : UInt8, r &&& 252 ||| UInt8.ofNat q.val = r &&& ~~~3 ||| UInt8.ofNat q.val &&& 3 := by
    intro q; exact u8_forall _ (by revert q; decide +kernel)
  rcases ha with rfl | rfl
  · eff127 [Sx127x.doRx, Sx127x.setLoraSymbolNumTimeout, Sx127x.clearIrqStatus, S127.setLoraSyncTimeout, S127.REG_LORA_MODEM_CONFIG_2,
      hk, h0, h1, hmx, Sx127x.SX127X_MAX_LORA_SYMB_NUM_TIMEOUT, Sx127x.SX127X_MIN_LORA_SYMB_NUM_TIMEOUT, e]
    exact h4' ⟨n / 256, hq⟩ _
  · eff127 [Sx127x.doRx, Sx127x.setLoraSymbolNumTimeout, Sx127x.clearIrqStatus, S127.setLoraSyncTimeout, S127.REG_LORA_MODEM_CONFIG_2,
      hk, h0, h1, hmx, Sx127x.SX127X_MAX_LORA_SYMB_NUM_TIMEOUT, Sx127x.SX127X_MIN_LORA_SYMB_NUM_TIMEOUT, e]

end C13
