import LoraVerif.Lemmas.PhyEffect127
/-!
# SX127x modulation parameters: register effect of lora-phy's `set_modulation_params` against
`sx1276_set_lora_mod_params` / `sx1272_set_lora_mod_params` (C13)

For every SF (6..12) × BW × CR × LDRO, every prior content of the read-modify-written registers,
every chip version (errata 2.1 path on or off) and frequency: the two drivers leave the same value in
RegModemConfig1, RegModemConfig2, RegDetectionThreshold, RegModemConfig3 (except AgcAutoOn, which
lora-phy forces off) and DetectOptimize[2:0] — the bits `eff_mask` of harness/src/c13b.rs compares.
-/
open Model.Phy Spec.Semtech
namespace C13
open Gen.PhyCodes127

/-- the compared bits of a modulation-parameter effect (= `eff_mask("modparams", a)`) -/
def modMask (a : Nat) : UInt8 :=
  if a = 0x1d ∨ a = 0x1e ∨ a = 0x37 then 0xff else if a = 0x26 then 0xfb else if a = 0x31 then 0x07 else 0

/-- two register files agree on the compared bits if they do on the five registers of the modulation -/
theorem mask_close (L R : Nat → UInt8) (h29 : L 29 = R 29) (h30 : L 30 = R 30) (h55 : L 55 = R 55)
    (h38 : L 38 &&& 0xfb = R 38 &&& 0xfb) (h49 : L 49 &&& 7 = R 49 &&& 7) (a : Nat) :
    L a &&& modMask a = R a &&& modMask a := by
  unfold modMask
  by_cases h1 : a = 29; · subst h1; simp [h29]
  by_cases h2 : a = 30; · subst h2; simp [h30]
  by_cases h3 : a = 55; · subst h3; simp [h55]
  by_cases h4 : a = 38; · subst h4; simpa using h38
  by_cases h5 : a = 49; · subst h5; simpa using h49
  simp [h1, h2, h3, h4, h5]

/-- close a byte identity in one register value by enumeration -/
macro "bytes" : tactic =>
  `(tactic| (first | rfl | (split <;> rfl) | (generalize Chip.regs _ _ = r; revert r; exact u8_forall _ (by decide +kernel))))

/-- one branch of the SX1276 proof: symbolic execution of both drivers at the five registers, then enumeration -/
syntax "mod1276" "[" Lean.Parser.Tactic.simpLemma,* "]" : tactic
macro_rules
  | `(tactic| mod1276 [$ls,*]) => `(tactic|
    (apply mask_close <;>
      eff127 [$ls,*, Sx127x.setModulationParams, Sx127x.variantSetModulationParams, Sx127x.errOr,
        S127.sx1276SetLoraModParams, S127.detectOptimize,
        S127.REG_LORA_MODEM_CONFIG_1, S127.REG_1276_LORA_MODEM_CONFIG_3, S127.REG_LORA_DETECT_OPTIMIZE, S127.REG_LORA_DETECTION_THRESHOLD]))

set_option hygiene false in
macro "fin29" : tactic => `(tactic|
  (rcases hkv with rfl | rfl | rfl | rfl | rfl | rfl | rfl | rfl | rfl | rfl <;>
    rcases hdv with h | h | h | h <;> simp only [h] <;> bytes))
set_option hygiene false in
macro "fin30" : tactic => `(tactic| (rcases hsv with rfl | rfl | rfl | rfl | rfl | rfl | rfl <;> bytes))
set_option hygiene false in
macro "fin38" : tactic => `(tactic| (rcases hl with rfl | rfl <;> bytes))

set_option hygiene false in
macro "fin49" : tactic => `(tactic| (by_cases h6 : s = 6 <;> simp only [h6, ↓reduceIte] <;> bytes))

set_option maxHeartbeats 4000000 in
theorem sx1276_mod_core (cfg : Sx127x.Config) (hc : cfg.chip = .sx1276) (q : Bool) (sf : SpreadingFactor) (bw : Bandwidth)
    (cr : CodingRate) (hsf : sf ≠ ._5) (ldro : UInt8) (hl : ldro = 0 ∨ ldro = 1) (f : Nat) (c : Chip) (hk : c.kind = .sx127x) (a : Nat) :
    (trace (Sx127x.setModulationParams cfg ⟨q⟩ ⟨sf, bw, cr, ldro, f⟩) c).2.1.regs a &&& modMask a
    = (trace (S127.sx1276SetLoraModParams (sfNum127 sf) (bw1276Num bw) (crDenom127 cr - 4) ldro) c).2.1.regs a &&& modMask a := by
  obtain ⟨hs, hs6, hs12, hs6'⟩ := sf127_code sf hsf
  obtain ⟨hcd, hcv, hc5, hc8⟩ := cr127_code cr
  obtain ⟨hb, _, hb9, hb500⟩ := bw1276_code bw
  generalize sfNum127 sf = s at *
  generalize crDenom127 cr = d at *
  generalize bw1276Num bw = k at *
  have hsv : s = 6 ∨ s = 7 ∨ s = 8 ∨ s = 9 ∨ s = 10 ∨ s = 11 ∨ s = 12 := by omega
  have hdv : d - 4 = 1 ∨ d - 4 = 2 ∨ d - 4 = 3 ∨ d - 4 = 4 := by omega
  have hkv : k = 0 ∨ k = 1 ∨ k = 2 ∨ k = 3 ∨ k = 4 ∨ k = 5 ∨ k = 6 ∨ k = 7 ∨ k = 8 ∨ k = 9 := by omega
  revert a
  by_cases h500 : bw = ._500KHz
  · subst h500
    cases q
    · mod1276 [hc, hs, hcd, hb, hk, hs6']
      fin29; fin30; bytes; fin38; fin49
    · by_cases hA : 862000000 ≤ f ∧ f ≤ 1020000000
      · mod1276 [hc, hs, hcd, hb, hk, hs6', hA]
        fin29; fin30; bytes; fin38; fin49
      · by_cases hB : 410000000 ≤ f ∧ f ≤ 525000000
        · mod1276 [hc, hs, hcd, hb, hk, hs6', hA, hB]
          fin29; fin30; bytes; fin38; fin49
        · mod1276 [hc, hs, hcd, hb, hk, hs6', hA, hB]
          fin29; fin30; bytes; fin38; fin49
  · by_cases h62 : Sx127x.hzOf bw ≥ 62500
    · cases q
      · mod1276 [hc, hs, hcd, hb, hk, h500, h62, hs6']
        fin29; fin30; bytes; fin38; fin49
      · mod1276 [hc, hs, hcd, hb, hk, h500, h62, hs6']
        fin29; fin30; bytes; fin38; fin49
    · cases q
      · mod1276 [hc, hs, hcd, hb, hk, h500, h62, hs6']
        fin29; fin30; bytes; fin38; fin49
      · mod1276 [hc, hs, hcd, hb, hk, h500, h62, hs6']
        fin29; fin30; bytes; fin38; fin49

/-- **SX1276 modulation parameters.**  For every SF 6..12, BW, CR, LDRO bit, frequency, chip version
flag (errata 2.1 path) and prior register content: the reference accepts the parameters and both
drivers leave the same compared bits. -/
theorem sx1276_modulation_effect_eq (cfg : Sx127x.Config) (hc : cfg.chip = .sx1276) (d : Sx127x.Data) (sf : SpreadingFactor)
    (bw : Bandwidth) (cr : CodingRate) (hsf : sf ≠ ._5) (ldro : UInt8) (hl : ldro = 0 ∨ ldro = 1) (f : Nat) (c : Chip)
    (hk : c.kind = .sx127x) :
    ∃ p, S127.modulation false (sfNum127 sf) (Sx127x.hzOf bw) (crDenom127 cr) ldro = some p ∧
      ∀ a, (trace (Sx127x.setModulationParams cfg d ⟨sf, bw, cr, ldro, f⟩) c).2.1.regs a &&& modMask a
            = (trace p c).2.1.regs a &&& modMask a := by
  obtain ⟨_, hs6, hs12, _⟩ := sf127_code sf hsf
  obtain ⟨_, _, hc5, hc8⟩ := cr127_code cr
  obtain ⟨_, hb, _, _⟩ := bw1276_code bw
  refine ⟨S127.sx1276SetLoraModParams (sfNum127 sf) (bw1276Num bw) (crDenom127 cr - 4) ldro, ?_, ?_⟩
  · have : 6 ≤ sfNum127 sf ∧ sfNum127 sf ≤ 12 ∧ 5 ≤ crDenom127 cr ∧ crDenom127 cr ≤ 8 := ⟨hs6, hs12, hc5, hc8⟩
    simp [S127.modulation, this, hb]
  · obtain ⟨q⟩ := d
    exact sx1276_mod_core cfg hc q sf bw cr hsf ldro hl f c hk

/-! ### SX1272 -/

syntax "mod1272" "[" Lean.Parser.Tactic.simpLemma,* "]" : tactic
macro_rules
  | `(tactic| mod1272 [$ls,*]) => `(tactic|
    (apply mask_close <;>
      eff127 [$ls,*, Sx127x.setModulationParams, Sx127x.variantSetModulationParams, Sx127x.errOr,
        S127.sx1272SetLoraModParams, S127.detectOptimize,
        S127.REG_LORA_MODEM_CONFIG_1, S127.REG_LORA_DETECT_OPTIMIZE, S127.REG_LORA_DETECTION_THRESHOLD]))

set_option maxHeartbeats 4000000 in
/-- **SX1272 modulation parameters** (125 / 250 / 500 kHz; the LDRO bit is RegModemConfig1[0]). -/
theorem sx1272_modulation_effect_eq (cfg : Sx127x.Config) (hc : cfg.chip = .sx1272) (d0 : Sx127x.Data) (sf : SpreadingFactor)
    (bw : Bandwidth) (cr : CodingRate) (hsf : sf ≠ ._5) (hbw : Sx127x.hzOf bw ≥ 125000) (ldro : UInt8) (hl : ldro = 0 ∨ ldro = 1)
    (f : Nat) (c : Chip) (hk : c.kind = .sx127x) :
    ∃ p, S127.modulation true (sfNum127 sf) (Sx127x.hzOf bw) (crDenom127 cr) ldro = some p ∧
      ∀ a, (trace (Sx127x.setModulationParams cfg d0 ⟨sf, bw, cr, ldro, f⟩) c).2.1.regs a &&& modMask a
            = (trace p c).2.1.regs a &&& modMask a := by
  obtain ⟨hs, hs6, hs12, hs6'⟩ := sf127_code sf hsf
  obtain ⟨hcd, hcv, hc5, hc8⟩ := cr127_code cr
  obtain ⟨hb, hbc, hb7, hb9⟩ := bw1272_code bw hbw
  refine ⟨S127.sx1272SetLoraModParams (sfNum127 sf) (bw1276Num bw - 7) (crDenom127 cr - 4) ldro, ?_, ?_⟩
  · have : 6 ≤ sfNum127 sf ∧ sfNum127 sf ≤ 12 ∧ 5 ≤ crDenom127 cr ∧ crDenom127 cr ≤ 8 := ⟨hs6, hs12, hc5, hc8⟩
    simp [S127.modulation, this, hbc, hb7]
  · generalize sfNum127 sf = s at *
    generalize crDenom127 cr = d at *
    generalize bw1276Num bw = k at *
    have hsv : s = 6 ∨ s = 7 ∨ s = 8 ∨ s = 9 ∨ s = 10 ∨ s = 11 ∨ s = 12 := by omega
    have hdv : d - 4 = 1 ∨ d - 4 = 2 ∨ d - 4 = 3 ∨ d - 4 = 4 := by omega
    have hkv : k - 7 = 0 ∨ k - 7 = 1 ∨ k - 7 = 2 := by omega
    mod1272 [hc, hs, hcd, hcv, hb, hk, hs6']
    · rcases hkv with h1 | h1 | h1 <;> rcases hdv with h | h | h | h <;> rcases hl with rfl | rfl <;>
        simp only [h, h1] <;> bytes
    · fin30
    · bytes
    · fin49

end C13
