import LoraVerif.Model.HistoryC
import LoraVerif.Lemmas.MacWFStep
/-!
The invariant `MacWF` over the extended histories (`Model/HistoryC.lean`): `stepC` / `runC` from a
well-formed state under valid events do not panic and end well-formed.  Events of
`Model/History.lean` go through `step_safe`; the Class C events are composed from the same
per-handler lemmas (`macHandleRx_tot`, `macRxcConfig_tot`, `window_tot`, `macSend_safe`, …).
-/
namespace Model

theorem rxcs_tot (m : MacState) (mp : Nat) (cs : List (RxView × Int)) (h : MacWF m) (hv : csWF cs = true) :
    Tot (rxcs m mp cs) (fun r => Keeps m r.2.2) := by
  induction cs generalizing m with
  | nil => exact Tot.pure (Keeps.refl h)
  | cons c rest ih =>
    obtain ⟨v, snr⟩ := c
    simp only [csWF, List.all_cons, Bool.and_eq_true] at hv
    unfold rxcs
    refine Tot.bind (macHandleRx_tot m v mp snr true h hv.1) ?_
    intro ⟨o, m1⟩ hk
    simp only at hk ⊢
    cases o with
    | none =>
      simp only
      refine (ih m1 hk.1 hv.2).mono ?_
      intro ⟨os, fin, m2⟩ hk2
      exact hk.trans hk2
    | some o =>
      simp only
      refine Tot.bind (ih m1 hk.1 hv.2) ?_
      intro ⟨os, fin, m2⟩ hk2
      exact Tot.pure (hk.trans hk2)

theorem between_tot (cc : Bool) (m : MacState) (cs : List (RxView × Int)) (h : MacWF m) (hv : csWF cs = true) :
    Tot (between cc m cs) (fun r => Keeps m r.2.2) := by
  unfold between
  cases cc with
  | true =>
    simp only [if_true]
    refine Tot.bind (macRxcConfig_tot m h) (fun rf _ => ?_)
    exact rxcs_tot m _ cs h hv
  | false => exact Tot.pure (Keeps.refl h)

theorem closeWindow_tot (cc : Bool) (m : MacState) (h : MacWF m) : Tot (closeWindow cc m) (fun _ => True) := by
  unfold closeWindow
  cases cc with
  | true =>
    simp only [if_true]
    exact Tot.bind (macRxcConfig_tot m h) (fun rf _ => Tot.pure trivial)
  | false => exact Tot.pure trivial

theorem winC_tot (cc : Bool) (m : MacState) (cs : List (RxView × Int)) (f : Option (RxView × Int)) (mp : Nat)
    (eb ea : Bool) (h : MacWF m) (hv : csWF cs = true) (hf : rxWF f = true) :
    Tot (winC cc m cs f mp eb ea) (fun r => Keeps m r.2.2) := by
  unfold winC
  refine Tot.bind (between_tot cc m cs h hv) ?_
  intro ⟨os, fin, m1⟩ hk1
  simp only at hk1 ⊢
  split
  · exact Tot.pure hk1
  · refine Tot.bind (window_tot m1 f mp hk1.1 hf) ?_
    intro ⟨o, m2⟩ hk2
    simp only at hk2 ⊢
    refine Tot.bind (closeWindow_tot cc m2 hk2.1) (fun _ _ => ?_)
    split <;> exact Tot.pure (hk1.trans hk2)

theorem cycleC_tot (cc : Bool) (m : MacState) (fault : Option FaultPos) (c1 c2 : List (RxView × Int))
    (rx1 rx2 : Option (RxView × Int)) (mp1 mp2 : Nat) (h : MacWF m) (hc1 : csWF c1 = true) (h1 : rxWF rx1 = true)
    (hc2 : csWF c2 = true) (h2 : rxWF rx2 = true) :
    Tot (cycleC cc m fault c1 rx1 c2 rx2 mp1 mp2) (fun r => Keeps m r.2.2) := by
  unfold cycleC
  split
  · exact Tot.pure (Keeps.refl h)
  · refine Tot.bind (winC_tot cc m c1 rx1 mp1 _ _ h hc1 h1) ?_
    intro ⟨r1, hd1, m1⟩ hk1
    simp only at hk1 ⊢
    cases r1 with
    | none => exact Tot.pure hk1
    | some o1 =>
      cases o1 with
      | some o => exact Tot.pure hk1
      | none =>
        simp only
        refine Tot.bind (winC_tot cc m1 c2 rx2 mp2 _ _ hk1.1 hc2 h2) ?_
        intro ⟨r2, hd2, m2⟩ hk2
        simp only at hk2 ⊢
        cases r2 with
        | none => exact Tot.pure (hk1.trans hk2)
        | some o2 => cases o2 <;> exact Tot.pure (hk1.trans hk2)

def ValidEvC (m : MacState) (ev : EvC) : Prop := validEvC m.region.id ev = true

theorem stepC_safe {σ} (g : Rng σ) (m : MacState) (s : σ) (ev : EvC) (h : MacWF m) (hv : ValidEvC m ev) :
    Safe (stepC g (m, s) ev) (fun r => Keeps m r.1.1) := by
  unfold ValidEvC at hv
  unfold stepC
  cases ev with
  | base e =>
    simp only
    refine Safe.bind (step_safe g m s e h hv) ?_
    intro ⟨ms1, o⟩ hk
    exact Safe.pure hk
  | uplinkC cc data fport conf fault c1 rx1 c2 rx2 =>
    simp only [validEvC, Bool.and_eq_true, Bool.or_eq_true, bne_iff_ne, ne_eq, List.isEmpty_iff, decide_eq_true_eq] at hv
    obtain ⟨⟨⟨⟨⟨h0, hl⟩, hc1⟩, hr1⟩, hc2⟩, hr2⟩ := hv
    simp only
    refine Safe.bind (macSend_safe g m data fport conf s h (fun e => by rcases h0 with h0 | h0; exact absurd e h0; exact h0) hl) ?_
    intro ⟨o, m1, s1⟩ hk1
    simp only at hk1 ⊢
    cases o with
    | none => exact Safe.pure hk1
    | some o =>
      simp only
      refine Safe.tbind (cycleC_tot cc m1 fault c1 c2 rx1 rx2 _ _ hk1.1 hc1 hr1 hc2 hr2) ?_
      intro ⟨fin, heard, m2⟩ hk2
      simp only at hk2 ⊢
      cases fin with
      | resp ro => exact Safe.pure (hk1.trans hk2)
      | complete => exact Safe.pure ((hk1.trans hk2).trans (macRx2Complete_wf m2 hk2.1))
      | cut => exact Safe.pure ((hk1.trans hk2).trans (faultAfterTx_wf m2 hk2.1))
  | joinC cc fault c1 rx1 c2 rx2 =>
    simp only [validEvC, Bool.and_eq_true] at hv
    obtain ⟨⟨⟨hc1, hr1⟩, hc2⟩, hr2⟩ := hv
    simp only
    refine Safe.bind (macJoinOtaa_safe g m s h) ?_
    intro ⟨o, m1, s1⟩ hk1
    simp only at hk1 ⊢
    refine Safe.tbind (cycleC_tot cc m1 fault c1 c2 rx1 rx2 _ _ hk1.1 hc1 hr1 hc2 hr2) ?_
    intro ⟨fin, heard, m2⟩ hk2
    simp only at hk2 ⊢
    cases fin with
    | resp ro => exact Safe.pure (hk1.trans hk2)
    | complete => exact Safe.pure ((hk1.trans hk2).trans (macRx2Complete_wf m2 hk2.1))
    | cut => exact Safe.pure (hk1.trans hk2)

theorem runC_safe {σ} (g : Rng σ) (m : MacState) (s : σ) (evs : List EvC) (h : MacWF m)
    (hv : ∀ ev ∈ evs, validEvC m.region.id ev = true) : Safe (runC g (m, s) evs) (fun r => Keeps m r.1.1) := by
  induction evs generalizing m s with
  | nil => exact Safe.pure (Keeps.refl h)
  | cons ev rest ih =>
    unfold runC
    refine Safe.bind (stepC_safe g m s ev h (hv ev List.mem_cons_self)) ?_
    intro ⟨⟨m1, s1⟩, o⟩ hk1
    simp only at hk1 ⊢
    refine Safe.bind (ih m1 s1 hk1.1 (fun ev' he => by rw [hk1.2.1]; exact hv ev' (List.mem_cons_of_mem _ he))) ?_
    intro ⟨⟨m2, s2⟩, os⟩ hk2
    exact Safe.pure (hk1.trans hk2)

end Model
