import LoraVerif.Lemmas.PhyWp
/-!
# Tracker predicates for the C14 induction, and `wp` of the `SpiInterface` helpers

`Items.le`, `Clean` (I1 ∧ I3 flags down), `Aw` (chip certainly awake), `Ext t t'` (what every
benign stretch of driver code guarantees: flags stay down, programmed items only grow, the chip is
not newly put to sleep), `Link` (what the driver's `radio_mode` must say when the chip may be asleep).
-/
namespace Model.Phy

/-- `a ⊆ b` on programmed-item sets -/
def Items.le (a b : Items) : Prop :=
  (a.packetType = true → b.packetType = true) ∧ (a.syncWord = true → b.syncWord = true) ∧
  (a.regulator = true → b.regulator = true) ∧ (a.tcxo = true → b.tcxo = true) ∧
  (a.bufferBase = true → b.bufferBase = true) ∧ (a.modulation = true → b.modulation = true) ∧
  (a.packet = true → b.packet = true) ∧ (a.irq = true → b.irq = true) ∧
  (a.frequency = true → b.frequency = true) ∧ (a.pa = true → b.pa = true)

theorem Items.covers_iff (h need : Items) : h.covers need = true ↔ need.le h := by
  simp only [Items.covers, Items.le, Bool.and_eq_true, Bool.or_eq_true, Bool.not_eq_true', and_assoc]
  constructor
  · rintro ⟨h1, h2, h3, h4, h5, h6, h7, h8, h9, h10⟩
    refine ⟨?_, ?_, ?_, ?_, ?_, ?_, ?_, ?_, ?_, ?_⟩ <;> intro hx <;> simp_all
  · rintro ⟨h1, h2, h3, h4, h5, h6, h7, h8, h9, h10⟩
    refine ⟨?_, ?_, ?_, ?_, ?_, ?_, ?_, ?_, ?_, ?_⟩
    · cases hx : need.packetType <;> simp_all
    · cases hx : need.syncWord <;> simp_all
    · cases hx : need.regulator <;> simp_all
    · cases hx : need.tcxo <;> simp_all
    · cases hx : need.bufferBase <;> simp_all
    · cases hx : need.modulation <;> simp_all
    · cases hx : need.packet <;> simp_all
    · cases hx : need.irq <;> simp_all
    · cases hx : need.frequency <;> simp_all
    · cases hx : need.pa <;> simp_all

theorem Items.le_refl (a : Items) : a.le a := by simp [Items.le]
theorem Items.le_trans {a b c : Items} (h1 : a.le b) (h2 : b.le c) : a.le c := by
  obtain ⟨a1, a2, a3, a4, a5, a6, a7, a8, a9, a10⟩ := h1
  obtain ⟨b1, b2, b3, b4, b5, b6, b7, b8, b9, b10⟩ := h2
  exact ⟨fun h => b1 (a1 h), fun h => b2 (a2 h), fun h => b3 (a3 h), fun h => b4 (a4 h), fun h => b5 (a5 h),
    fun h => b6 (a6 h), fun h => b7 (a7 h), fun h => b8 (a8 h), fun h => b9 (a9 h), fun h => b10 (a10 h)⟩

theorem Items.none_le (a : Items) : Items.le {} a := by simp [Items.le]

/-- union of item sets -/
def Items.union (a b : Items) : Items :=
  { packetType := a.packetType || b.packetType, syncWord := a.syncWord || b.syncWord,
    regulator := a.regulator || b.regulator, tcxo := a.tcxo || b.tcxo, bufferBase := a.bufferBase || b.bufferBase,
    modulation := a.modulation || b.modulation, packet := a.packet || b.packet, irq := a.irq || b.irq,
    frequency := a.frequency || b.frequency, pa := a.pa || b.pa }

theorem Items.union_le {a b c : Items} (h1 : a.le c) (h2 : b.le c) : (a.union b).le c := by
  obtain ⟨a1, a2, a3, a4, a5, a6, a7, a8, a9, a10⟩ := h1
  obtain ⟨b1, b2, b3, b4, b5, b6, b7, b8, b9, b10⟩ := h2
  simp only [Items.le, Items.union, Bool.or_eq_true]
  exact ⟨fun h => h.elim a1 b1, fun h => h.elim a2 b2, fun h => h.elim a3 b3, fun h => h.elim a4 b4,
    fun h => h.elim a5 b5, fun h => h.elim a6 b6, fun h => h.elim a7 b7, fun h => h.elim a8 b8,
    fun h => h.elim a9 b9, fun h => h.elim a10 b10⟩

/-- `g` without the items of `g1` -/
def Items.diff (a b : Items) : Items :=
  { packetType := a.packetType && !b.packetType, syncWord := a.syncWord && !b.syncWord,
    regulator := a.regulator && !b.regulator, tcxo := a.tcxo && !b.tcxo, bufferBase := a.bufferBase && !b.bufferBase,
    modulation := a.modulation && !b.modulation, packet := a.packet && !b.packet, irq := a.irq && !b.irq,
    frequency := a.frequency && !b.frequency, pa := a.pa && !b.pa }

theorem Items.le_union_diff (g g1 : Items) : g.le (g1.union (g.diff g1)) := by
  simp only [Items.le, Items.union, Items.diff]
  refine ⟨?_, ?_, ?_, ?_, ?_, ?_, ?_, ?_, ?_, ?_⟩ <;> intro h <;> simp [h]

theorem Items.le_of_diff {g sb x : Items} (h1 : sb.le x) (h2 : (g.diff sb).le x) : g.le x :=
  Items.le_trans (Items.le_union_diff g sb) (Items.union_le h1 h2)

/-- I1 and I3: no command ever reached a chip that may be asleep, nothing was ever started unprogrammed -/
def Clean (t : ChipTrack) : Prop := t.commandedAsleep = false ∧ t.startedUnprogrammed = false

/-- the chip is certainly awake -/
def Aw (t : ChipTrack) : Prop := t.mode ≠ .sleep ∧ t.mode ≠ .rxDuty

/-- not newly asleep -/
def NNS (t t' : ChipTrack) : Prop := (t'.mode = .sleep → t.mode = .sleep) ∧ (t'.mode = .rxDuty → t.mode = .rxDuty)

/-- what a benign stretch of driver code guarantees about the tracker -/
def Ext (t t' : ChipTrack) : Prop := Clean t' ∧ t.items.le t'.items ∧ NNS t t'

theorem Ext.refl {t : ChipTrack} (h : Clean t) : Ext t t := ⟨h, Items.le_refl _, fun h => h, fun h => h⟩
theorem Ext.trans {a b c : ChipTrack} (h1 : Ext a b) (h2 : Ext b c) : Ext a c :=
  ⟨h2.1, Items.le_trans h1.2.1 h2.2.1, fun h => h1.2.2.1 (h2.2.2.1 h), fun h => h1.2.2.2 (h2.2.2.2 h)⟩
theorem Ext.clean {a b : ChipTrack} (h : Ext a b) : Clean b := h.1
theorem Ext.items {a b : ChipTrack} (h : Ext a b) : a.items.le b.items := h.2.1
theorem Ext.aw {a b : ChipTrack} (h : Ext a b) (ha : Aw a) : Aw b :=
  ⟨fun hb => ha.1 (h.2.2.1 hb), fun hb => ha.2 (h.2.2.2 hb)⟩
theorem Ext.le {a b : ChipTrack} (h : Ext a b) {g : Items} (hg : g.le a.items) : g.le b.items := Items.le_trans hg h.2.1

def RxMode.isDuty : RxMode → Bool
  | .dutyCycle _ _ => true
  | _ => false

def RadioMode.isDuty : RadioMode → Bool
  | .receive m => m.isDuty
  | _ => false

def RadioMode.isSingle : RadioMode → Bool
  | .receive (.single _) => true
  | _ => false

/-- what the driver's `radio_mode` must say when the chip may be asleep: the next `ensure_ready`
then is the wake-up -/
def Link (m : RadioMode) (t : ChipTrack) : Prop :=
  (t.mode = .sleep → m = .sleep) ∧ (t.mode = .rxDuty → m = .sleep ∨ m.isDuty = true)

theorem Link.of_aw {m : RadioMode} {t : ChipTrack} (h : Aw t) : Link m t := ⟨fun hs => absurd hs h.1, fun hs => absurd hs h.2⟩
theorem Link.ext {m : RadioMode} {t t' : ChipTrack} (h : Link m t) (he : NNS t t') : Link m t' :=
  ⟨fun hs => h.1 (he.1 hs), fun hs => h.2 (he.2 hs)⟩
theorem Link.sleep (t : ChipTrack) : Link .sleep t := ⟨fun _ => rfl, fun _ => Or.inl rfl⟩

/-! ## `wp` of the interface helpers -/
section
variable (kind : Kind) (n : Needs)

theorem trackEv_busy (t : ChipTrack) : trackEv kind n t ⟨.busy, .done⟩ = t := rfl
theorem trackEv_irq (t : ChipTrack) : trackEv kind n t ⟨.irq, .done⟩ = t := rfl
theorem trackEv_rfRx (t : ChipTrack) : trackEv kind n t ⟨.rfRx, .done⟩ = t := rfl
theorem trackEv_rfTx (t : ChipTrack) : trackEv kind n t ⟨.rfTx, .done⟩ = t := rfl
theorem trackEv_rfOff (t : ChipTrack) : trackEv kind n t ⟨.rfOff, .done⟩ = t := rfl

/-- the tracker after an executed SPI transaction writing `w` -/
def spiStep (t : ChipTrack) (w : Bytes) : ChipTrack :=
  match kind with
  | .sx126x => step126 n t w
  | .sx127x => step127 n t w

theorem trackEv_spi (t : ChipTrack) (w : Bytes) (r : Nat) : trackEv kind n t ⟨.spi w r, .done⟩ = spiStep kind n t w := by
  cases kind <;> rfl

/-- a request that is not an SPI transaction, a reset or an interrupt wait: the tracker ignores it -/
theorem wp_req_plain {r : Io} (hr : r = .busy ∨ r = .rfRx ∨ r = .rfTx ∨ r = .rfOff) (Q : Unit → ChipTrack → Prop) (E) (t) :
    wp kind n (Prog.req r) Q E t ↔ E (.err (errOf r)) t ∧ Q () t := by
  rcases hr with rfl | rfl | rfl | rfl <;> simp [Prog.req, wp, Io.isDelay, trackEv]

theorem wp_awaitIrq (Q : Unit → ChipTrack → Prop) (E) (t) :
    wp kind n (Prog.req .irq) Q E t ↔ E (.err .Irq) t ∧ E .dropped t ∧ Q () t := by
  simp [Prog.req, wp, Io.isDelay, trackEv, errOf]

theorem wp_delay (ms : Nat) (Q : Unit → ChipTrack → Prop) (E) (t) :
    wp kind n (Prog.req (.delay ms)) Q E t ↔ Q () t := by
  simp [Prog.req, wp, Io.isDelay, trackEv]

theorem wp_reset (Q : Unit → ChipTrack → Prop) (E) (t : ChipTrack) :
    wp kind n (Prog.req .reset) Q E t ↔ E (.err .Reset) t ∧ Q () { t with mode := .standby, items := {} } := by
  simp [Prog.req, wp, Io.isDelay, trackEv, errOf]

theorem wp_intfWrite (w : Bytes) (Q : Unit → ChipTrack → Prop) (E) (t) :
    wp kind n (intfWrite w) Q E t ↔
      E (.err .SPI) t ∧ E (.err .Busy) (spiStep kind n t w) ∧ Q () (spiStep kind n t w) := by
  simp [intfWrite, Prog.xfer, Prog.req, wp, Io.isDelay, errOf, trackEv_spi, trackEv_busy]

theorem wp_intfWriteSleep (w : Bytes) (Q : Unit → ChipTrack → Prop) (E) (t) :
    wp kind n (intfWrite w true) Q E t ↔ E (.err .SPI) t ∧ Q () (spiStep kind n t w) := by
  simp [intfWrite, Prog.xfer, wp, Io.isDelay, errOf, trackEv_spi]

theorem wp_intfWriteWithPayload (w p : Bytes) (Q : Unit → ChipTrack → Prop) (E) (t) :
    wp kind n (intfWriteWithPayload w p) Q E t ↔
      E (.err .SPI) t ∧ E (.err .Busy) (spiStep kind n t (w ++ p)) ∧ Q () (spiStep kind n t (w ++ p)) := by
  simp [intfWriteWithPayload, Prog.xfer, Prog.req, wp, Io.isDelay, errOf, trackEv_spi, trackEv_busy]

theorem wp_intfRead (w : Bytes) (r : Nat) (Q : Bytes → ChipTrack → Prop) (E) (t) :
    wp kind n (intfRead w r) Q E t ↔
      E (.err .SPI) t ∧ E (.err .Busy) (spiStep kind n t w) ∧ ∀ bs, Q bs (spiStep kind n t w) := by
  simp [intfRead, Prog.xfer, Prog.req, wp, Io.isDelay, errOf, trackEv_spi, trackEv_busy]
  intro _; constructor
  · intro h; exact ⟨(h []).1, fun bs => (h bs).2⟩
  · intro h bs; exact ⟨h.1, h.2 bs⟩

theorem wp_intfReadWithStatus (w : Bytes) (r : Nat) (Q : UInt8 × Bytes → ChipTrack → Prop) (E) (t)
    (h1 : E (.err .SPI) t) (h2 : E (.err .Busy) (spiStep kind n t w)) (h3 : ∀ x, Q x (spiStep kind n t w)) :
    wp kind n (intfReadWithStatus w r) Q E t := by
  simp [intfReadWithStatus, Prog.xfer, Prog.req, wp, Io.isDelay, errOf, trackEv_spi, trackEv_busy]
  exact ⟨h1, fun bs => ⟨h2, h3 _⟩⟩

end
end Model.Phy
