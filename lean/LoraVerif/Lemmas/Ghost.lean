import LoraVerif.Lemmas.Cycle
import LoraVerif.Lemmas.Trace
/-!
# The reference session tracker and its relation to the MAC state

`Gh = Option (Option Nat)`: `none` — the device has no session (never activated, or joining);
`some last` — a session exists and `last` is the counter of the last downlink the REFERENCE accepted
in it (`none`: none yet).  `ghStep` moves it by events alone (the decoded views of the frames the
event carries, `Spec/Freshness.lean`); nothing of the model enters.  `GhRel` ties it to the model
state, `step_ghRel` shows every step of every history preserves the tie.
-/
open Spec.Freshness

namespace Model

abbrev Gh := Option (Option Nat)

def ghWin (last : Option Nat) : WinRes → Option Nat
  | .accepted N _ _ => some N
  | _ => last

def ghStep (gh : Gh) (ev : Ev) : Gh :=
  match ev with
  | .joinAbp _ _ _ => some none
  | .joinOtaa fault rx1 rx2 _ _ =>
    (match joinRes fault rx1 rx2 with
     | some _ => some none
     | none => none)
  | .uplink _ _ _ fault rx1 rx2 mp1 mp2 => gh.map (fun last => ghWin last (upRes last fault rx1 rx2 mp1 mp2))
  | .rxc v _ mp => gh.map (fun last => match specRxc last v mp with | some (N, _) => some N | none => last)
  | .setAdr _ => gh
  | .setDr _ => gh

def ghRun (gh : Gh) (evs : List Ev) : Gh := evs.foldl ghStep gh

def GhRel (m : MacState) (gh : Gh) : Prop :=
  match gh with
  | none => ∀ s, m.st ≠ .joined s
  | some last => ∃ s, m.st = .joined s ∧ s.fcntDown = last ∧ LastOk last

theorem GhRel.none {m : MacState} (h : ∀ s, m.st ≠ .joined s) : GhRel m none := h

theorem GhRel.some {m : MacState} {s : Session} (h : m.st = .joined s) (hl : LastOk s.fcntDown) : GhRel m (some s.fcntDown) :=
  ⟨s, h, rfl, hl⟩

theorem ghRel_init (r : RegionState) (p : Nat) (gain : Int) : GhRel (MacState.init r p gain) none := by
  intro s h; cases h

/-! ## what the pieces do to the session -/

/-- `rx2_complete` touches only the uplink counter and the ADR count of the session -/
theorem rx2Complete_session (s : Session) (cfg : Config) (r : RegionId) :
    ∃ fu cnt, (rx2Complete s cfg r).2.1 = { s with fcntUp := fu, adrAckCnt := cnt } := by
  unfold rx2Complete
  split
  · exact ⟨s.fcntUp, s.adrAckCnt, rfl⟩
  · simp only []
    repeat' split
    all_goals exact ⟨_, _, rfl⟩

theorem timeoutState_joined (m : MacState) (s : Session) (hst : m.st = .joined s) :
    ∃ fu cnt cfg', timeoutState m = { m with st := .joined { s with fcntUp := fu, adrAckCnt := cnt }, cfg := cfg' } := by
  unfold timeoutState macRx2Complete
  simp only [hst]
  obtain ⟨fu, cnt, h⟩ := rx2Complete_session s m.cfg m.region.id
  exact ⟨fu, cnt, _, by rw [h]⟩

theorem timeoutState_notJoined (m : MacState) (hst : ∀ s, m.st ≠ .joined s) : timeoutState m = m := by
  unfold timeoutState macRx2Complete
  cases h : m.st with
  | joined s => exact absurd h (hst s)
  | otaa o => rfl
  | unjoined => rfl

theorem faultAfterTx_eq (m : MacState) : faultAfterTx m = timeoutState m := rfl

theorem acceptFinish_session (s : Session) (d : RxData) (N : Nat) (ctx : MacCtx) :
    ∃ fu, (acceptFinish s d N ctx).2.1 =
      { s with fcntDown := some N, adrAckCnt := 0, pending := ctx.pending, ackOwed := s.ackOwed || d.confirmed, fcntUp := fu } := by
  unfold acceptFinish
  simp only []
  split
  · exact ⟨s.fcntUp, rfl⟩
  · exact ⟨s.fcntUp + 1, rfl⟩

theorem acceptState_st (m : MacState) (s : Session) (d : RxData) (N : Nat) (ctx : MacCtx) :
    (acceptState m s d N ctx).st = .joined (acceptFinish s d N ctx).2.1 := rfl

theorem otaaAccept_st (m m' : MacState) (j : RxJoinAccept) (h : otaaAccept m j = .ok m') :
    m'.st = .joined (Session.new j.devAddr j.nwkKey j.appKey) := by
  unfold otaaAccept at h
  obtain ⟨region, _, h⟩ := Except.bind_eq_ok h
  obtain ⟨dd, _, h⟩ := Except.bind_eq_ok h
  cases Except.pure_eq_ok h
  rfl

theorem macSetAdr_st (m : MacState) (on : Bool) :
    (∀ s, m.st = .joined s → ∃ cnt, (macSetAdr m on).st = .joined { s with adrAckCnt := cnt }) ∧
    ((∀ s, m.st ≠ .joined s) → (macSetAdr m on).st = m.st) := by
  unfold macSetAdr
  constructor
  · intro s hs
    cases on
    · simp only [hs]; exact ⟨0, rfl⟩
    · simp only [hs]; exact ⟨s.adrAckCnt, rfl⟩
  · intro hn
    cases h : m.st with
    | joined s => exact absurd h (hn s)
    | otaa o => cases on <;> simp
    | unjoined => cases on <;> simp

/-! ## every step keeps the tracker tied to the state -/

theorem lastOk_accepts {last : Option Nat} {d : RxData} {mp N : Nat} (hw : d.fcnt16 < 65536)
    (h : accepts last d mp = some N) : LastOk (some N) :=
  fresh_lastOk hw (accepts_some.mp h).2.1

/-- an accepted verdict names a frame of the event with a 16-bit wire counter -/
theorem specWindow_accepted {last : Option Nat} {f : Option (RxView × Int)} {mp N : Nat} {d : RxData} {snr : Int}
    (hw : rxOk f = true) (h : specWindow last f mp = .accepted N d snr) :
    f = some (.data d, snr) ∧ accepts last d mp = some N ∧ d.fcnt16 < 65536 := by
  unfold specWindow at h
  split at h
  · rename_i d' snr'
    split at h
    · cases h
    · split at h
      · rename_i N' ha
        cases h
        exact ⟨rfl, ha, by simpa [rxOk, viewOk] using hw⟩
      · cases h
  · cases h

theorem specCycle_accepted {last : Option Nat} {rx1 rx2 : Option (RxView × Int)} {mp1 mp2 N : Nat} {d : RxData} {snr : Int}
    (hw1 : rxOk rx1 = true) (hw2 : rxOk rx2 = true) (h : specCycle last rx1 rx2 mp1 mp2 = .accepted N d snr) :
    (rx1 = some (.data d, snr) ∧ accepts last d mp1 = some N ∧ d.fcnt16 < 65536) ∨
    (specWindow last rx1 mp1 = .nothing ∧ rx2 = some (.data d, snr) ∧ accepts last d mp2 = some N ∧ d.fcnt16 < 65536) := by
  unfold specCycle at h
  cases h1 : specWindow last rx1 mp1 with
  | nothing => rw [h1] at h; exact Or.inr ⟨rfl, specWindow_accepted hw2 h⟩
  | ended => rw [h1] at h; cases h
  | accepted N' d' snr' => rw [h1] at h; cases h; exact Or.inl (specWindow_accepted hw1 h1)

theorem upRes_accepted {last : Option Nat} {fault : Option Nat} {rx1 rx2 : Option (RxView × Int)} {mp1 mp2 N : Nat}
    {d : RxData} {snr : Int} (hw1 : rxOk rx1 = true) (hw2 : rxOk rx2 = true)
    (h : upRes last fault rx1 rx2 mp1 mp2 = .accepted N d snr) :
    ∃ mp, accepts last d mp = some N ∧ d.fcnt16 < 65536 := by
  unfold upRes at h
  cases fault with
  | none =>
    rcases specCycle_accepted hw1 hw2 h with ⟨_, ha, hw⟩ | ⟨_, _, ha, hw⟩
    · exact ⟨mp1, ha, hw⟩
    · exact ⟨mp2, ha, hw⟩
  | some k =>
    simp only at h
    unfold specFaulted at h
    match k with
    | 0 => cases h
    | 1 => exact ⟨mp1, (specWindow_accepted hw1 h).2⟩
    | k + 2 =>
      rcases specCycle_accepted hw1 hw2 h with ⟨_, ha, hw⟩ | ⟨_, _, ha, hw⟩
      · exact ⟨mp1, ha, hw⟩
      · exact ⟨mp2, ha, hw⟩

theorem ghRel_timeout {m : MacState} {last : Option Nat} (h : GhRel m (some last)) : GhRel (timeoutState m) (some last) := by
  obtain ⟨s, hst, hfd, hl⟩ := h
  obtain ⟨fu, cnt, cfg', e⟩ := timeoutState_joined m s hst
  exact ⟨{ s with fcntUp := fu, adrAckCnt := cnt }, by rw [e], hfd, hl⟩

theorem ghRel_accept {m : MacState} {s : Session} {d : RxData} {N : Nat} {ctx : MacCtx} (hl : LastOk (some N)) :
    GhRel (acceptState m s d N ctx) (some (some N)) := by
  obtain ⟨fu, e⟩ := acceptFinish_session s d N ctx
  exact ⟨_, acceptState_st m s d N ctx, by rw [e], hl⟩

/-- **the tracker follows the state along every step** -/
theorem step_ghRel {σ} (g : Rng σ) (m m' : MacState) (rs rs' : σ) (ev : Ev) (out : Out) (gh : Gh)
    (hr : GhRel m gh) (hv : evOk ev = true) (h : step g (m, rs) ev = .ok ((m', rs'), out)) :
    GhRel m' (ghStep gh ev) := by
  cases ev with
  | joinAbp da nwk app =>
    simp only [step, pure, Except.pure, Except.ok.injEq, Prod.mk.injEq] at h
    obtain ⟨⟨rfl, _⟩, _⟩ := h
    exact ⟨Session.new da nwk app, rfl, rfl, fun l e => by cases e⟩
  | setDr dr =>
    simp only [step, pure, Except.pure, Except.ok.injEq, Prod.mk.injEq] at h
    obtain ⟨⟨rfl, _⟩, _⟩ := h
    exact hr
  | setAdr on =>
    simp only [step, pure, Except.pure, Except.ok.injEq, Prod.mk.injEq] at h
    obtain ⟨⟨rfl, _⟩, _⟩ := h
    simp only [ghStep]
    cases gh with
    | none =>
      intro s hs
      rw [(macSetAdr_st m on).2 hr] at hs
      exact hr s hs
    | some last =>
      obtain ⟨s, hst, hfd, hl⟩ := hr
      obtain ⟨cnt, e⟩ := (macSetAdr_st m on).1 s hst
      exact ⟨_, e, hfd, hl⟩
  | joinOtaa fault rx1 rx2 mp1 mp2 =>
    obtain ⟨jo, m1, o, _, hst1, _, ht⟩ := step_joinOtaa_inv g m m' rs rs' fault rx1 rx2 mp1 mp2 out h
    simp only [ghStep]
    cases hj : joinRes fault rx1 rx2 with
    | some j =>
      simp only [hj] at ht ⊢
      exact ⟨_, otaaAccept_st m1 m' j ht.1, rfl, fun l e => by cases e⟩
    | none =>
      simp only [hj] at ht ⊢
      obtain ⟨rfl, _⟩ := ht
      intro s hs; rw [hst1] at hs; cases hs
  | rxc v snr mp =>
    simp only [evOk] at hv
    simp only [ghStep]
    cases gh with
    | none =>
      obtain ⟨rfl, _, _⟩ := step_rxc_notJoined g m m' rs rs' hr v snr mp out h
      exact hr
    | some last =>
      obtain ⟨s, hst, rfl, hl⟩ := hr
      obtain ⟨_, rf, _, ht⟩ := step_rxc_joined g m m' rs rs' s hst hl v snr mp hv out h
      simp only [Option.map_some]
      cases hs : specRxc s.fcntDown v mp with
      | none =>
        simp only [hs] at ht ⊢
        obtain ⟨rfl, _⟩ := ht
        exact ⟨s, hst, rfl, hl⟩
      | some p =>
        obtain ⟨N, d⟩ := p
        simp only [hs] at ht ⊢
        obtain ⟨rfl, _⟩ := ht
        refine ghRel_accept ?_
        unfold specRxc at hs
        cases v with
        | garbage => cases hs
        | joinAccept j => cases hs
        | data d' =>
          simp only [Option.map_eq_some_iff, Prod.mk.injEq] at hs
          obtain ⟨N', ha, rfl, rfl⟩ := hs
          exact lastOk_accepts (by simpa [viewOk] using hv) ha
  | uplink data fport conf fault rx1 rx2 mp1 mp2 =>
    simp only [evOk, Bool.and_eq_true] at hv
    simp only [ghStep]
    cases gh with
    | none =>
      obtain ⟨rfl, _, _⟩ := step_uplink_notJoined g m m' rs rs' hr data fport conf fault rx1 rx2 mp1 mp2 out h
      exact hr
    | some last =>
      obtain ⟨s, hst, rfl, hl⟩ := hr
      obtain ⟨so, m1, _, _, hst1, _, ht⟩ :=
        step_uplink_joined g m m' rs rs' s hst hl data fport conf fault rx1 rx2 mp1 mp2 hv.1 hv.2 out h
      have hr1 : GhRel m1 (some s.fcntDown) := ⟨_, hst1, rfl, hl⟩
      simp only [Option.map_some]
      unfold UplinkTail at ht
      unfold upRes
      cases fault with
      | none =>
        simp only at ht ⊢
        cases hsc : specCycle s.fcntDown rx1 rx2 mp1 mp2 with
        | accepted N d snr =>
          have hsc' : specCycle (sentSession s conf).fcntDown rx1 rx2 mp1 mp2 = .accepted N d snr := hsc
          simp only [hsc'] at ht
          obtain ⟨ctx, _, rfl, _⟩ := ht
          obtain ⟨mp, ha, hw⟩ := upRes_accepted (fault := none) hv.1 hv.2 hsc
          exact ghRel_accept (lastOk_accepts hw ha)
        | ended =>
          have hsc' : specCycle (sentSession s conf).fcntDown rx1 rx2 mp1 mp2 = .ended := hsc
          simp only [hsc'] at ht
          obtain ⟨rfl, _⟩ := ht
          exact ghRel_timeout hr1
        | nothing =>
          have hsc' : specCycle (sentSession s conf).fcntDown rx1 rx2 mp1 mp2 = .nothing := hsc
          simp only [hsc'] at ht
          obtain ⟨rfl, _⟩ := ht
          exact ghRel_timeout hr1
      | some k =>
        simp only at ht ⊢
        obtain ⟨m2, hm2, rfl, _⟩ := ht
        rw [faultAfterTx_eq]
        cases hsc : specFaulted s.fcntDown k rx1 rx2 mp1 mp2 with
        | accepted N d snr =>
          have hsc' : specFaulted (sentSession s conf).fcntDown k rx1 rx2 mp1 mp2 = .accepted N d snr := hsc
          simp only [hsc'] at hm2
          obtain ⟨ctx, _, rfl⟩ := hm2
          obtain ⟨mp, ha, hw⟩ := upRes_accepted (fault := some k) hv.1 hv.2 hsc
          exact ghRel_timeout (ghRel_accept (lastOk_accepts hw ha))
        | ended =>
          have hsc' : specFaulted (sentSession s conf).fcntDown k rx1 rx2 mp1 mp2 = .ended := hsc
          simp only [hsc'] at hm2
          subst hm2
          exact ghRel_timeout (ghRel_timeout hr1)
        | nothing =>
          have hsc' : specFaulted (sentSession s conf).fcntDown k rx1 rx2 mp1 mp2 = .nothing := hsc
          simp only [hsc'] at hm2
          subst hm2
          exact ghRel_timeout hr1

/-- … hence along every history -/
theorem chain_ghRel {σ} (g : Rng σ) (ms ms' : MacState × σ) (t : List (Ev × Out)) (gh : Gh) (hr : GhRel ms.1 gh)
    (hv : ∀ x ∈ t, evOk x.1 = true) (h : Chain g ms t ms') : GhRel ms'.1 (ghRun gh (t.map (·.1))) := by
  induction t generalizing ms gh with
  | nil => simp only [Chain] at h; subst h; exact hr
  | cons x rest ih =>
    obtain ⟨ev, out⟩ := x
    simp only [Chain] at h
    obtain ⟨⟨m1, s1⟩, hs, hrest⟩ := h
    have hr1 := step_ghRel g ms.1 m1 ms.2 s1 ev out gh hr (hv (ev, out) List.mem_cons_self) hs
    exact ih (m1, s1) (ghStep gh ev) hr1 (fun x hx => hv x (List.mem_cons_of_mem _ hx)) hrest

end Model
