import LoraVerif.Model.History
import LoraVerif.Lemmas.ExceptLemmas
import LoraVerif.Lemmas.FcntDown
import LoraVerif.Spec.Freshness
/-!
# Normal forms of the receive side of the MAC model, in terms of the REFERENCE acceptance rule

The reference decides — from the decoded view of a frame, the window's size limit and the last
accepted downlink counter alone (`Spec/Freshness.lean`) — whether a frame heard in a receive window
is *accepted*, *ends the Class A procedure* (oversized) or is *nothing* (`specWindow`).  This file
shows that the model's `macHandleRx` / `window` / `classACycle` / `faultedCycle` ARE that decision
followed by the effect of the accepted frame (`acceptCmds`, `acceptFinish`) — as equations, so that
rejected frames visibly never reach a handler.  Everything history-level (C05, C07, C08, C12) is
built on these equations.
-/
open Spec.Freshness

namespace Model

/-! ## the reference acceptance rule -/

/-- the counter under which the reference accepts data frame `d` in a window limited to `mp` bytes
of MAC payload, when `last` is the last accepted downlink counter of the session: the frame fits,
and its MIC verifies under a counter that is fresh -/
def accepts (last : Option Nat) (d : RxData) (mp : Nat) : Option Nat :=
  match d.micFcnt with
  | some N => if d.len ≤ mp + 5 ∧ Fresh last d.fcnt16 N then some N else none
  | none => none

theorem accepts_some {last : Option Nat} {d : RxData} {mp N : Nat} :
    accepts last d mp = some N ↔ d.len ≤ mp + 5 ∧ Fresh last d.fcnt16 N ∧ d.micFcnt = some N := by
  unfold accepts
  cases hm : d.micFcnt with
  | none => simp
  | some K =>
    simp only [Option.some.injEq]
    by_cases hc : d.len ≤ mp + 5 ∧ Fresh last d.fcnt16 K
    · rw [if_pos hc]
      simp only [Option.some.injEq]
      constructor
      · rintro rfl; exact ⟨hc.1, hc.2, rfl⟩
      · rintro ⟨_, _, h⟩; exact h
    · rw [if_neg hc]
      simp only [reduceCtorEq, false_iff]
      rintro ⟨h1, h2, rfl⟩; exact hc ⟨h1, h2⟩

/-- representation fact of the decoded view: the wire counter is a 16-bit field -/
def viewOk : RxView → Bool
  | .data d => decide (d.fcnt16 < 65536)
  | _ => true

def rxOk : Option (RxView × Int) → Bool
  | some (v, _) => viewOk v
  | none => true

def evOk : Ev → Bool
  | .joinOtaa _ rx1 rx2 _ _ => rxOk rx1 && rxOk rx2
  | .uplink _ _ _ _ rx1 rx2 _ _ => rxOk rx1 && rxOk rx2
  | .rxc v _ _ => viewOk v
  | _ => true

/-- the stored downlink counter is a `u32` -/
def LastOk (last : Option Nat) : Prop := ∀ l, last = some l → l < 4294967296

theorem nextFcntDown_iff (last : Option Nat) (w N : Nat) (hl : LastOk last) (hw : w < 65536) :
    nextFcntDown last w = some N ↔ Fresh last w N := by
  unfold nextFcntDown Fresh
  cases last with
  | none =>
    simp only [Option.map_none, C05.next_none, Option.map_some, Int.toNat_natCast, Option.some.injEq]
    exact eq_comm
  | some l =>
    have hl' := hl l rfl
    simp only [Option.map_some, Option.map_eq_some_iff, maxFcntGap]
    constructor
    · rintro ⟨v, hv, rfl⟩
      have := (C05.next_spec (l : Int) (w : Int) v (by omega) (by omega) (by omega) (by omega)).mp hv
      omega
    · intro h
      refine ⟨(N : Int), ?_, by simp⟩
      exact (C05.next_spec (l : Int) (w : Int) N (by omega) (by omega) (by omega) (by omega)).mpr (by omega)

theorem fresh_lastOk {last : Option Nat} {w N : Nat} (hw : w < 65536) (h : Fresh last w N) : LastOk (some N) := by
  intro l e; cases e
  unfold Fresh at h
  cases last with
  | none => simp only at h; omega
  | some l => exact h.2.2.2

/-! ## the effect of an accepted frame, split into command handling and bookkeeping -/

/-- MAC command handling of an accepted frame (`ig`: Class C reception, commands ignored) -/
def acceptCmds (pending : List Nat) (cfg : Config) (region : RegionState) (d : RxData) (snr : Int) (ig : Bool) : M MacCtx :=
  if ig then pure { cfg := cfg, region := region, pending := pending }
  else do
    let ctx ← handleDownlinkMacs snr d.fopts { cfg := cfg, region := region, pending := [] }
    if d.fport == some 0 then handleDownlinkMacs snr d.payload ctx else pure ctx

/-- what an accepted frame delivers to the application -/
def deliver (d : RxData) : Option (Nat × List Nat) :=
  match d.fport with
  | some p => if p > 0 then some (p, d.payload) else none
  | none => none

/-- bookkeeping of an accepted frame: counter remembered, ADR count restarted, answers queued, ACK
owed if confirmed; reported unless the uplink counter space is exhausted -/
def acceptFinish (s : Session) (d : RxData) (fcnt : Nat) (ctx : MacCtx) : RxOut × Session × Config × RegionState :=
  let s : Session := { s with fcntDown := some fcnt, adrAckCnt := 0, pending := ctx.pending, ackOwed := s.ackOwed || d.confirmed }
  if s.fcntUp == 0xFFFFFFFF then ({ resp := .sessionExpired, downlink := none }, s, ctx.cfg, ctx.region)
  else ({ resp := .downlinkReceived fcnt, downlink := deliver d }, { s with fcntUp := s.fcntUp + 1 }, ctx.cfg, ctx.region)

def acceptOut (s : Session) (d : RxData) (fcnt : Nat) (ctx : MacCtx) : RxOut := (acceptFinish s d fcnt ctx).1

def acceptState (m : MacState) (s : Session) (d : RxData) (fcnt : Nat) (ctx : MacCtx) : MacState :=
  { m with st := .joined (acceptFinish s d fcnt ctx).2.1, cfg := (acceptFinish s d fcnt ctx).2.2.1,
           region := (acceptFinish s d fcnt ctx).2.2.2 }

theorem acceptOut_resp (s : Session) (d : RxData) (N : Nat) (ctx : MacCtx) :
    (acceptOut s d N ctx = { resp := .downlinkReceived N, downlink := deliver d } ∧ s.fcntUp ≠ 0xFFFFFFFF)
    ∨ (acceptOut s d N ctx = { resp := .sessionExpired, downlink := none } ∧ s.fcntUp = 0xFFFFFFFF) := by
  unfold acceptOut acceptFinish
  by_cases h : s.fcntUp = 0xFFFFFFFF
  · right; simp [h]
  · left; simp [h]

theorem acceptOut_ne_noUpdate (s : Session) (d : RxData) (N : Nat) (ctx : MacCtx) :
    ((acceptOut s d N ctx).resp == Response.noUpdate) = false := by
  rcases acceptOut_resp s d N ctx with ⟨h, _⟩ | ⟨h, _⟩ <;> rw [h] <;> rfl

/-- `Session::handle_rx` on a frame the reference accepts -/
theorem sessionHandleRx_accepted (s : Session) (cfg : Config) (region : RegionState) (d : RxData) (mp : Nat) (snr : Int)
    (ig : Bool) (N : Nat) (hl : LastOk s.fcntDown) (hw : d.fcnt16 < 65536) (ha : accepts s.fcntDown d mp = some N) :
    sessionHandleRx s cfg region d mp snr ig =
      (acceptCmds s.pending cfg region d snr ig >>= fun ctx => pure (acceptFinish s d N ctx)) := by
  obtain ⟨hlen, hf, hm⟩ := accepts_some.mp ha
  have hn := (nextFcntDown_iff s.fcntDown d.fcnt16 N hl hw).mpr hf
  unfold sessionHandleRx
  have hlen' : ¬ d.len > mp + 5 := by omega
  have hmic : (d.micFcnt != some N) = false := by simp [hm]
  simp only [hlen', if_false, hn, hmic, Bool.false_eq_true]
  unfold acceptCmds acceptFinish
  cases ig
  · simp only [Bool.false_eq_true, if_false, bind_assoc]
    cases handleDownlinkMacs snr d.fopts { cfg := cfg, region := region, pending := [] } with
    | error e => rfl
    | ok c1 =>
      simp only [bind, Except.bind]
      cases hp : (d.fport == some 0)
      · simp only [Bool.false_eq_true, if_false, pure, Except.pure]
        cases hc : d.confirmed <;> simp only [Bool.false_eq_true, if_false, if_true, Bool.or_false, Bool.or_true] <;> (split <;> rfl)
      · simp only [if_true]
        cases handleDownlinkMacs snr d.payload c1 with
        | error e => rfl
        | ok c2 =>
          simp only [pure, Except.pure]
          cases hc : d.confirmed <;> simp only [Bool.false_eq_true, if_false, if_true, Bool.or_false, Bool.or_true] <;> (split <;> rfl)
  · simp only [if_true, pure, Except.pure, bind, Except.bind]
    cases hc : d.confirmed <;> simp only [Bool.false_eq_true, if_false, if_true, Bool.or_false, Bool.or_true] <;> (split <;> rfl)

theorem sessionHandleRx_rejected (s : Session) (cfg : Config) (region : RegionState) (d : RxData) (mp : Nat) (snr : Int)
    (ig : Bool) (hl : LastOk s.fcntDown) (hw : d.fcnt16 < 65536) (hlen : d.len ≤ mp + 5) (ha : accepts s.fcntDown d mp = none) :
    sessionHandleRx s cfg region d mp snr ig = pure ({ resp := .noUpdate, downlink := none }, s, cfg, region) := by
  unfold sessionHandleRx
  have hlen' : ¬ d.len > mp + 5 := by omega
  simp only [hlen', if_false]
  cases hn : nextFcntDown s.fcntDown d.fcnt16 with
  | none => rfl
  | some N =>
    simp only []
    have hf := (nextFcntDown_iff s.fcntDown d.fcnt16 N hl hw).mp hn
    have hmic : (d.micFcnt != some N) = true := by
      simp only [bne_iff_ne, ne_eq]
      intro hm
      have := accepts_some.mpr ⟨hlen, hf, hm⟩
      rw [ha] at this; cases this
    simp only [hmic, if_true]

theorem sessionHandleRx_oversize (s : Session) (cfg : Config) (region : RegionState) (d : RxData) (mp : Nat) (snr : Int)
    (ig : Bool) (hlen : d.len > mp + 5) :
    sessionHandleRx s cfg region d mp snr ig =
      if ig then pure ({ resp := .noUpdate, downlink := none }, s, cfg, region)
      else pure ({ resp := (rx2Complete s cfg region.id).1, downlink := none }, (rx2Complete s cfg region.id).2.1,
                  (rx2Complete s cfg region.id).2.2, region) := by
  unfold sessionHandleRx
  simp only [hlen, if_true]

/-- `rx2_complete` never answers `NoUpdate` -/
theorem rx2Complete_resp (s : Session) (cfg : Config) (r : RegionId) :
    ((rx2Complete s cfg r).1 == Response.noUpdate) = false := by
  unfold rx2Complete
  split
  · rfl
  · simp only []
    repeat' split
    all_goals simp

/-- … it reports the exhausted counter space, else `NoAck` for a confirmed uplink, else `RxComplete` -/
theorem rx2Complete_resp_eq (s : Session) (cfg : Config) (r : RegionId) :
    (rx2Complete s cfg r).1 =
      if s.fcntUp = 0xFFFFFFFF then .sessionExpired else if s.confirmed then .noAck else .rxComplete := by
  unfold rx2Complete
  by_cases hx : s.fcntUp = 0xFFFFFFFF
  · simp [hx]
  · have hx' : (s.fcntUp == 0xFFFFFFFF) = false := by simp [hx]
    simp only [hx', Bool.false_eq_true, if_false, hx]
    repeat' split
    all_goals rfl

/-! ## `Mac::handle_rx` / `handle_rxc` of a joined device -/

def noUp : RxOut := { resp := .noUpdate, downlink := none }

theorem MacState.eta_joined {m : MacState} {s : Session} (hst : m.st = .joined s) :
    { m with st := .joined s, cfg := m.cfg, region := m.region } = m := by
  cases m; simp only at hst; subst hst; rfl

/-- an accepted frame, at the level of the MAC state -/
def acceptM (m : MacState) (s : Session) (d : RxData) (N : Nat) (snr : Int) (cc : Bool) : M (Option RxOut × MacState) :=
  acceptCmds s.pending m.cfg m.region d snr cc >>= fun ctx => pure (some (acceptOut s d N ctx), acceptState m s d N ctx)

theorem macHandleRx_joined_nodata (m : MacState) (s : Session) (hst : m.st = .joined s) (v : RxView) (mp : Nat) (snr : Int)
    (cc : Bool) (hv : ∀ d, v ≠ .data d) : macHandleRx m v mp snr cc = pure (some noUp, m) := by
  unfold macHandleRx
  simp only [hst]
  cases v with
  | data d => exact absurd rfl (hv d)
  | garbage => rfl
  | joinAccept j => rfl

theorem macHandleRx_joined_rejected (m : MacState) (s : Session) (hst : m.st = .joined s) (hl : LastOk s.fcntDown)
    (d : RxData) (mp : Nat) (snr : Int) (cc : Bool) (hw : d.fcnt16 < 65536) (hlen : d.len ≤ mp + 5)
    (ha : accepts s.fcntDown d mp = none) : macHandleRx m (.data d) mp snr cc = pure (some noUp, m) := by
  unfold macHandleRx
  simp only [hst, sessionHandleRx_rejected s m.cfg m.region d mp snr cc hl hw hlen ha, bind, Except.bind, pure, Except.pure]
  rw [MacState.eta_joined hst]; rfl

theorem macHandleRx_joined_oversize_c (m : MacState) (s : Session) (hst : m.st = .joined s)
    (d : RxData) (mp : Nat) (snr : Int) (hlen : d.len > mp + 5) :
    macHandleRx m (.data d) mp snr true = pure (some noUp, m) := by
  unfold macHandleRx
  simp only [hst, sessionHandleRx_oversize s m.cfg m.region d mp snr true hlen, if_true, bind, Except.bind, pure, Except.pure]
  rw [MacState.eta_joined hst]; rfl

theorem macHandleRx_joined_oversize_a (m : MacState) (s : Session) (hst : m.st = .joined s)
    (d : RxData) (mp : Nat) (snr : Int) (hlen : d.len > mp + 5) :
    macHandleRx m (.data d) mp snr false =
      pure (some { resp := (macRx2Complete m).1, downlink := none }, (macRx2Complete m).2) := by
  unfold macHandleRx macRx2Complete
  simp only [hst, sessionHandleRx_oversize s m.cfg m.region d mp snr false hlen, Bool.false_eq_true, if_false, bind,
    Except.bind, pure, Except.pure]

theorem macHandleRx_joined_accepted (m : MacState) (s : Session) (hst : m.st = .joined s) (hl : LastOk s.fcntDown)
    (d : RxData) (mp : Nat) (snr : Int) (cc : Bool) (N : Nat) (hw : d.fcnt16 < 65536)
    (ha : accepts s.fcntDown d mp = some N) : macHandleRx m (.data d) mp snr cc = acceptM m s d N snr cc := by
  unfold macHandleRx acceptM
  simp only [hst, sessionHandleRx_accepted s m.cfg m.region d mp snr cc N hl hw ha]
  cases acceptCmds s.pending m.cfg m.region d snr cc with
  | error e => rfl
  | ok ctx => rfl

/-! ## one receive window, the Class A procedure, the procedure cut short by a radio fault -/

/-- the reference's verdict on what a Class A receive window heard -/
inductive WinRes where
  | nothing
  /-- an oversized frame ends the receive procedure as a timeout would -/
  | ended
  | accepted (N : Nat) (d : RxData) (snr : Int)
  deriving DecidableEq, Repr

def specWindow (last : Option Nat) (f : Option (RxView × Int)) (mp : Nat) : WinRes :=
  match f with
  | some (.data d, snr) =>
    if d.len > mp + 5 then .ended
    else match accepts last d mp with
      | some N => .accepted N d snr
      | none => .nothing
  | _ => .nothing

/-- both windows: RX2 is only listened to when RX1 yielded nothing -/
def specCycle (last : Option Nat) (rx1 rx2 : Option (RxView × Int)) (mp1 mp2 : Nat) : WinRes :=
  match specWindow last rx1 mp1 with
  | .nothing => specWindow last rx2 mp2
  | r => r

/-- the windows served before a radio fault struck (`k` of them) -/
def specFaulted (last : Option Nat) (k : Nat) (rx1 rx2 : Option (RxView × Int)) (mp1 mp2 : Nat) : WinRes :=
  match k with
  | 0 => .nothing
  | 1 => specWindow last rx1 mp1
  | _ => specCycle last rx1 rx2 mp1 mp2

/-- the MAC state after a window / procedure with verdict `r` (command handling result `ctx` given) -/
def timeoutState (m : MacState) : MacState := (macRx2Complete m).2

theorem window_joined (m : MacState) (s : Session) (hst : m.st = .joined s) (hl : LastOk s.fcntDown)
    (f : Option (RxView × Int)) (mp : Nat) (hw : rxOk f = true) :
    window m f mp =
      match specWindow s.fcntDown f mp with
      | .nothing => pure (none, m)
      | .ended => pure (some { resp := (macRx2Complete m).1, downlink := none }, timeoutState m)
      | .accepted N d snr => acceptM m s d N snr false := by
  unfold window specWindow
  cases f with
  | none => rfl
  | some f =>
    obtain ⟨v, snr⟩ := f
    cases v with
    | garbage => simp only [macHandleRx_joined_nodata m s hst .garbage mp snr false (fun d h => by cases h)]; rfl
    | joinAccept j => simp only [macHandleRx_joined_nodata m s hst (.joinAccept j) mp snr false (fun d h => by cases h)]; rfl
    | data d =>
      have hw' : d.fcnt16 < 65536 := by simpa [rxOk, viewOk] using hw
      simp only []
      by_cases hlen : d.len > mp + 5
      · simp only [hlen, if_true, macHandleRx_joined_oversize_a m s hst d mp snr hlen, bind, Except.bind, pure, Except.pure]
        have : ((macRx2Complete m).1 == Response.noUpdate) = false := by
          unfold macRx2Complete; simp only [hst]
          exact rx2Complete_resp s m.cfg m.region.id
        simp only [this, Bool.false_eq_true, if_false]; rfl
      · simp only [hlen, if_false]
        cases ha : accepts s.fcntDown d mp with
        | none =>
          simp only [macHandleRx_joined_rejected m s hst hl d mp snr false hw' (by omega) ha]; rfl
        | some N =>
          simp only [macHandleRx_joined_accepted m s hst hl d mp snr false N hw' ha, acceptM]
          cases acceptCmds s.pending m.cfg m.region d snr false with
          | error e => rfl
          | ok ctx =>
            simp only [bind, Except.bind, pure, Except.pure, acceptOut_ne_noUpdate, Bool.false_eq_true, if_false]

theorem classACycle_joined (m : MacState) (s : Session) (hst : m.st = .joined s) (hl : LastOk s.fcntDown)
    (rx1 rx2 : Option (RxView × Int)) (mp1 mp2 : Nat) (hw1 : rxOk rx1 = true) (hw2 : rxOk rx2 = true) :
    classACycle m rx1 rx2 mp1 mp2 =
      match specCycle s.fcntDown rx1 rx2 mp1 mp2 with
      | .accepted N d snr =>
        acceptCmds s.pending m.cfg m.region d snr false >>= fun ctx =>
          pure ((acceptOut s d N ctx).resp, (acceptOut s d N ctx).downlink, acceptState m s d N ctx)
      | _ => pure ((macRx2Complete m).1, none, timeoutState m) := by
  unfold classACycle specCycle
  rw [window_joined m s hst hl rx1 mp1 hw1]
  cases h1 : specWindow s.fcntDown rx1 mp1 with
  | ended => rfl
  | accepted N d snr =>
    simp only [acceptM]
    cases acceptCmds s.pending m.cfg m.region d snr false with
    | error e => rfl
    | ok ctx => rfl
  | nothing =>
    simp only [bind, Except.bind, pure, Except.pure]
    rw [window_joined m s hst hl rx2 mp2 hw2]
    cases h2 : specWindow s.fcntDown rx2 mp2 with
    | ended => rfl
    | nothing => rfl
    | accepted N d snr =>
      simp only [acceptM]
      cases acceptCmds s.pending m.cfg m.region d snr false with
      | error e => rfl
      | ok ctx => rfl

theorem faultedCycle_joined (m : MacState) (s : Session) (hst : m.st = .joined s) (hl : LastOk s.fcntDown) (k : Nat)
    (rx1 rx2 : Option (RxView × Int)) (mp1 mp2 : Nat) (hw1 : rxOk rx1 = true) (hw2 : rxOk rx2 = true) :
    faultedCycle m k rx1 rx2 mp1 mp2 =
      match specFaulted s.fcntDown k rx1 rx2 mp1 mp2 with
      | .accepted N d snr =>
        acceptCmds s.pending m.cfg m.region d snr false >>= fun ctx => pure (acceptState m s d N ctx)
      | .ended => pure (timeoutState m)
      | .nothing => pure m := by
  unfold faultedCycle specFaulted
  match k with
  | 0 => rfl
  | 1 =>
    simp only []
    rw [window_joined m s hst hl rx1 mp1 hw1]
    cases h1 : specWindow s.fcntDown rx1 mp1 with
    | ended => rfl
    | nothing => rfl
    | accepted N d snr =>
      simp only [acceptM]
      cases acceptCmds s.pending m.cfg m.region d snr false with
      | error e => rfl
      | ok ctx => rfl
  | k + 2 =>
    simp only [specCycle]
    rw [window_joined m s hst hl rx1 mp1 hw1]
    cases h1 : specWindow s.fcntDown rx1 mp1 with
    | ended => rfl
    | accepted N d snr =>
      simp only [acceptM]
      cases acceptCmds s.pending m.cfg m.region d snr false with
      | error e => rfl
      | ok ctx => rfl
    | nothing =>
      simp only [bind, Except.bind, pure, Except.pure]
      rw [window_joined m s hst hl rx2 mp2 hw2]
      cases h2 : specWindow s.fcntDown rx2 mp2 with
      | ended => rfl
      | nothing => rfl
      | accepted N d snr =>
        simp only [acceptM]
        cases acceptCmds s.pending m.cfg m.region d snr false with
        | error e => rfl
        | ok ctx => rfl

/-- a Class C reception by a joined device -/
theorem macHandleRxc_joined (m : MacState) (s : Session) (hst : m.st = .joined s) (hl : LastOk s.fcntDown)
    (v : RxView) (mp : Nat) (snr : Int) (hw : viewOk v = true) :
    macHandleRx m v mp snr true =
      match v with
      | .data d =>
        (match accepts s.fcntDown d mp with
         | some N => acceptM m s d N snr true
         | none => pure (some noUp, m))
      | _ => pure (some noUp, m) := by
  cases v with
  | garbage => exact macHandleRx_joined_nodata m s hst .garbage mp snr true (fun d h => by cases h)
  | joinAccept j => exact macHandleRx_joined_nodata m s hst (.joinAccept j) mp snr true (fun d h => by cases h)
  | data d =>
    have hw' : d.fcnt16 < 65536 := by simpa [viewOk] using hw
    simp only []
    cases ha : accepts s.fcntDown d mp with
    | some N => exact macHandleRx_joined_accepted m s hst hl d mp snr true N hw' ha
    | none =>
      by_cases hlen : d.len > mp + 5
      · exact macHandleRx_joined_oversize_c m s hst d mp snr hlen
      · exact macHandleRx_joined_rejected m s hst hl d mp snr true hw' (by omega) ha

/-! ## while joining (`otaa`) and before (`unjoined`) -/

/-- the authentic JoinAccept a window heard, if any -/
def joinAcc : Option (RxView × Int) → Option RxJoinAccept
  | some (.joinAccept j, _) => if j.micOk then some j else none
  | _ => none

def specJoin (rx1 rx2 : Option (RxView × Int)) : Option RxJoinAccept :=
  match joinAcc rx1 with
  | some j => some j
  | none => joinAcc rx2

def specJoinFaulted (k : Nat) (rx1 rx2 : Option (RxView × Int)) : Option RxJoinAccept :=
  match k with
  | 0 => none
  | 1 => joinAcc rx1
  | _ => specJoin rx1 rx2

theorem window_otaa (m : MacState) (o : OtaaState) (hst : m.st = .otaa o) (f : Option (RxView × Int)) (mp : Nat) :
    window m f mp =
      match joinAcc f with
      | some j => otaaAccept m j >>= fun m' => pure (some { resp := .joinSuccess, downlink := none }, m')
      | none => pure (none, m) := by
  unfold window joinAcc
  cases f with
  | none => rfl
  | some f =>
    obtain ⟨v, snr⟩ := f
    cases v with
    | garbage => simp only [macHandleRx, hst]; rfl
    | data d => simp only [macHandleRx, hst]; rfl
    | joinAccept j =>
      simp only [macHandleRx, hst, Bool.false_eq_true, if_false]
      cases hj : j.micOk
      · simp only [Bool.false_eq_true, if_false]; rfl
      · simp only [if_true]
        cases otaaAccept m j with
        | error e => rfl
        | ok m' => rfl

theorem classACycle_otaa (m : MacState) (o : OtaaState) (hst : m.st = .otaa o) (rx1 rx2 : Option (RxView × Int)) (mp1 mp2 : Nat) :
    classACycle m rx1 rx2 mp1 mp2 =
      match specJoin rx1 rx2 with
      | some j => otaaAccept m j >>= fun m' => pure (.joinSuccess, none, m')
      | none => pure (.noJoinAccept, none, m) := by
  unfold classACycle specJoin
  rw [window_otaa m o hst rx1 mp1]
  cases h1 : joinAcc rx1 with
  | some j =>
    simp only []
    cases otaaAccept m j with
    | error e => rfl
    | ok m' => rfl
  | none =>
    simp only [bind, Except.bind, pure, Except.pure]
    rw [window_otaa m o hst rx2 mp2]
    cases h2 : joinAcc rx2 with
    | some j =>
      simp only []
      cases otaaAccept m j with
      | error e => rfl
      | ok m' => rfl
    | none =>
      simp only [pure, Except.pure, macRx2Complete, hst]

theorem faultedCycle_otaa (m : MacState) (o : OtaaState) (hst : m.st = .otaa o) (k : Nat) (rx1 rx2 : Option (RxView × Int))
    (mp1 mp2 : Nat) :
    faultedCycle m k rx1 rx2 mp1 mp2 =
      match specJoinFaulted k rx1 rx2 with
      | some j => otaaAccept m j
      | none => pure m := by
  unfold faultedCycle specJoinFaulted
  match k with
  | 0 => rfl
  | 1 =>
    simp only []
    rw [window_otaa m o hst rx1 mp1]
    cases h1 : joinAcc rx1 with
    | none => rfl
    | some j =>
      simp only []
      cases otaaAccept m j with
      | error e => rfl
      | ok m' => rfl
  | k + 2 =>
    simp only [specJoin]
    rw [window_otaa m o hst rx1 mp1]
    cases h1 : joinAcc rx1 with
    | some j =>
      simp only []
      cases otaaAccept m j with
      | error e => rfl
      | ok m' => rfl
    | none =>
      simp only [bind, Except.bind, pure, Except.pure]
      rw [window_otaa m o hst rx2 mp2]
      cases h2 : joinAcc rx2 with
      | none => rfl
      | some j =>
        simp only []
        cases otaaAccept m j with
        | error e => rfl
        | ok m' => rfl

/-- a device without a session ignores Class C receptions -/
theorem macHandleRxc_notJoined (m : MacState) (hst : ∀ s, m.st ≠ .joined s) (v : RxView) (mp : Nat) (snr : Int) :
    macHandleRx m v mp snr true = pure (none, m) := by
  unfold macHandleRx
  cases h : m.st with
  | joined s => exact absurd h (hst s)
  | otaa o => rfl
  | unjoined => rfl

/-! ## the transmit side: what `send` / `join_otaa` build and leave behind -/

/-- the frame `prepare_buffer` builds from session `s` -/
def descOf (s : Session) (cfg : Config) (r : RegionId) (data : List Nat) (fport : Nat) (confirmed : Bool) : UplinkDesc :=
  { confirmed := confirmed, devAddr := s.devAddr, adr := cfg.adrEnabled,
    adrAckReq := cfg.adrEnabled && decide (s.adrAckCnt ≥ Gen.Session.ADR_ACK_LIMIT.toNat) && (nextLowerDatarate r cfg.dataRate).isSome,
    ack := s.ackOwed, fcnt := s.fcntUp,
    fopts := if fport != 0 then s.pending else [], fport := fport,
    payload := if fport != 0 then data else s.pending }

/-- the session `prepare_buffer` leaves: ACK consumed, message type remembered, only sticky answers kept -/
def sentSession (s : Session) (confirmed : Bool) : Session :=
  { s with ackOwed := false, confirmed := confirmed, pending := retainSticky (s.pending.length + 1) s.pending }

theorem prepareBuffer_ok (s : Session) (cfg : Config) (r : RegionId) (data : List Nat) (fport : Nat) (conf : Bool)
    (desc : UplinkDesc) (s1 : Session) (h : prepareBuffer s cfg r data fport conf = .ok (desc, s1)) :
    desc = descOf s cfg r data fport conf ∧ s1 = sentSession s conf := by
  unfold prepareBuffer at h
  simp only [pure, Except.pure] at h
  unfold descOf sentSession
  by_cases hp : (fport != 0) = true
  · simp only [hp, if_true] at h ⊢
    repeat' split at h
    all_goals (cases h <;> exact ⟨rfl, rfl⟩)
  · simp only [hp, if_false, Bool.false_eq_true] at h ⊢
    repeat' split at h
    all_goals (cases h <;> exact ⟨rfl, rfl⟩)

/-- anatomy of `Mac::send` on a joined device -/
theorem macSend_joined {σ} (g : Rng σ) (m : MacState) (s : Session) (hst : m.st = .joined s) (data : List Nat) (fport : Nat)
    (conf : Bool) (rs rs' : σ) (o : Option SendOut) (m1 : MacState) (h : macSend g m data fport conf rs = .ok (o, m1, rs')) :
    ∃ dr tx region' pw rx1 rx2,
      prepareBuffer s m.cfg m.region.id data fport conf = .ok (descOf s m.cfg m.region.id data fport conf, sentSession s conf) ∧
      drOfNat m.cfg.dataRate = .ok dr ∧
      selectTxChannel g m.region dr .data rs = .ok (tx, region', rs') ∧
      m1 = { m with st := .joined (sentSession s conf), region := region' } ∧
      rxWindows m1 tx = .ok (rx1, rx2) ∧
      o = some { tx := { pw := pw, rf := rfOf tx.datarate tx.frequency, rx1 := rx1, rx2 := rx2 },
                 frame := descOf s m.cfg m.region.id data fport conf } := by
  unfold macSend at h
  simp only [hst] at h
  obtain ⟨⟨desc, s1⟩, hpb, h⟩ := Except.bind_eq_ok h
  obtain ⟨rfl, rfl⟩ := prepareBuffer_ok s m.cfg m.region.id data fport conf desc s1 hpb
  obtain ⟨dr, hdr, h⟩ := Except.bind_eq_ok h
  obtain ⟨⟨tx, region', rs1⟩, hsel, h⟩ := Except.bind_eq_ok h
  obtain ⟨pw, hpw, h⟩ := Except.bind_eq_ok h
  obtain ⟨⟨rx1, rx2⟩, hrw, h⟩ := Except.bind_eq_ok h
  simp only [pure, Except.pure, Except.ok.injEq, Prod.mk.injEq] at h
  obtain ⟨rfl, rfl, rfl⟩ := h
  exact ⟨dr, tx, region', pw, rx1, rx2, hpb, hdr, hsel, rfl, hrw, rfl⟩

theorem macSend_notJoined {σ} (g : Rng σ) (m : MacState) (hst : ∀ s, m.st ≠ .joined s) (data : List Nat) (fport : Nat)
    (conf : Bool) (rs : σ) : macSend g m data fport conf rs = .ok (none, m, rs) := by
  unfold macSend
  cases h : m.st with
  | joined s => exact absurd h (hst s)
  | otaa o => rfl
  | unjoined => rfl

/-- anatomy of `Mac::join_otaa` -/
theorem macJoinOtaa_ok {σ} (g : Rng σ) (m : MacState) (rs rs' : σ) (o : JoinOut) (m1 : MacState)
    (h : macJoinOtaa g m rs = .ok (o, m1, rs')) :
    ∃ dr tx region' pw rx1 rx2,
      drOfNat m.cfg.dataRate = .ok dr ∧
      selectTxChannel g m.region dr .join (draw g rs).2 = .ok (tx, region', rs') ∧
      m1 = { m with st := .otaa { devNonce := (draw g rs).1 % 65536 }, region := region' } ∧
      rxWindows m1 tx = .ok (rx1, rx2) ∧
      o = { tx := { pw := pw, rf := rfOf tx.datarate tx.frequency, rx1 := rx1, rx2 := rx2 }, devNonce := (draw g rs).1 % 65536 } := by
  unfold macJoinOtaa at h
  simp only at h
  obtain ⟨dr, hdr, h⟩ := Except.bind_eq_ok h
  obtain ⟨⟨tx, region', rs1⟩, hsel, h⟩ := Except.bind_eq_ok h
  obtain ⟨pw, hpw, h⟩ := Except.bind_eq_ok h
  obtain ⟨⟨rx1, rx2⟩, hrw, h⟩ := Except.bind_eq_ok h
  simp only [pure, Except.pure, Except.ok.injEq, Prod.mk.injEq] at h
  obtain ⟨rfl, rfl, rfl⟩ := h
  exact ⟨dr, tx, region', pw, rx1, rx2, hdr, hsel, rfl, hrw, rfl⟩

/-! ## anatomy of one history step, in terms of the reference verdicts -/

def upRes (last : Option Nat) (fault : Option Nat) (rx1 rx2 : Option (RxView × Int)) (mp1 mp2 : Nat) : WinRes :=
  match fault with
  | some k => specFaulted last k rx1 rx2 mp1 mp2
  | none => specCycle last rx1 rx2 mp1 mp2

def joinRes (fault : Option Nat) (rx1 rx2 : Option (RxView × Int)) : Option RxJoinAccept :=
  match fault with
  | some k => specJoinFaulted k rx1 rx2
  | none => specJoin rx1 rx2

/-- the reference's verdict on a Class C reception -/
def specRxc (last : Option Nat) (v : RxView) (mp : Nat) : Option (Nat × RxData) :=
  match v with
  | .data d => (accepts last d mp).map (fun N => (N, d))
  | _ => none

/-- the receive procedure after the uplink `so` left state `m1` (session `s1`) -/
def UplinkTail (m1 : MacState) (s1 : Session) (fault : Option Nat) (rx1 rx2 : Option (RxView × Int)) (mp1 mp2 : Nat)
    (so : SendOut) (m' : MacState) (out : Out) : Prop :=
  match fault with
  | none =>
    match specCycle s1.fcntDown rx1 rx2 mp1 mp2 with
    | .accepted N d snr => ∃ ctx, acceptCmds s1.pending m1.cfg m1.region d snr false = .ok ctx ∧
        m' = acceptState m1 s1 d N ctx ∧ out = .up so (some (acceptOut s1 d N ctx).resp) (acceptOut s1 d N ctx).downlink
    | _ => m' = timeoutState m1 ∧ out = .up so (some (macRx2Complete m1).1) none
  | some k =>
    ∃ m2, (match specFaulted s1.fcntDown k rx1 rx2 mp1 mp2 with
            | .accepted N d snr => ∃ ctx, acceptCmds s1.pending m1.cfg m1.region d snr false = .ok ctx ∧
                m2 = acceptState m1 s1 d N ctx
            | .ended => m2 = timeoutState m1
            | .nothing => m2 = m1) ∧
      m' = faultAfterTx m2 ∧ out = .up so (if faultExpired m2 then some .sessionExpired else none) none

theorem step_uplink_joined {σ} (g : Rng σ) (m m' : MacState) (rs rs' : σ) (s : Session) (hst : m.st = .joined s)
    (hl : LastOk s.fcntDown) (data : List Nat) (fport : Nat) (conf : Bool) (fault : Option Nat)
    (rx1 rx2 : Option (RxView × Int)) (mp1 mp2 : Nat) (hw1 : rxOk rx1 = true) (hw2 : rxOk rx2 = true) (out : Out)
    (h : step g (m, rs) (.uplink data fport conf fault rx1 rx2 mp1 mp2) = .ok ((m', rs'), out)) :
    ∃ so m1, macSend g m data fport conf rs = .ok (some so, m1, rs') ∧
      so.frame = descOf s m.cfg m.region.id data fport conf ∧ m1.st = .joined (sentSession s conf) ∧
      m1.cfg = m.cfg ∧ UplinkTail m1 (sentSession s conf) fault rx1 rx2 mp1 mp2 so m' out := by
  unfold step at h
  simp only at h
  obtain ⟨⟨o, m1, rs1⟩, hsend, h⟩ := Except.bind_eq_ok h
  obtain ⟨dr, tx, region', pw, r1, r2, _, _, _, hm1, _, ho⟩ := macSend_joined g m s hst data fport conf rs rs1 o m1 hsend
  subst ho
  have hst1 : m1.st = .joined (sentSession s conf) := by rw [hm1]
  have hl1 : LastOk (sentSession s conf).fcntDown := hl
  simp only at h
  unfold UplinkTail
  cases fault with
  | none =>
    simp only at h ⊢
    rw [classACycle_joined m1 _ hst1 hl1 rx1 rx2 mp1 mp2 hw1 hw2] at h
    obtain ⟨⟨r, dl, m2⟩, hc, h⟩ := Except.bind_eq_ok h
    simp only [pure, Except.pure, Except.ok.injEq, Prod.mk.injEq] at h
    obtain ⟨⟨rfl, rfl⟩, rfl⟩ := h
    refine ⟨_, m1, hsend, rfl, hst1, by rw [hm1], ?_⟩
    cases hsc : specCycle (sentSession s conf).fcntDown rx1 rx2 mp1 mp2 with
    | accepted N d snr =>
      simp only [hsc] at hc ⊢
      obtain ⟨ctx, hctx, hc⟩ := Except.bind_eq_ok hc
      simp only [pure, Except.pure, Except.ok.injEq, Prod.mk.injEq] at hc
      obtain ⟨rfl, rfl, rfl⟩ := hc
      exact ⟨ctx, hctx, rfl, rfl⟩
    | ended =>
      simp only [hsc, pure, Except.pure, Except.ok.injEq, Prod.mk.injEq] at hc ⊢
      obtain ⟨rfl, rfl, rfl⟩ := hc
      exact ⟨rfl, rfl⟩
    | nothing =>
      simp only [hsc, pure, Except.pure, Except.ok.injEq, Prod.mk.injEq] at hc ⊢
      obtain ⟨rfl, rfl, rfl⟩ := hc
      exact ⟨rfl, rfl⟩
  | some k =>
    simp only at h ⊢
    rw [faultedCycle_joined m1 _ hst1 hl1 k rx1 rx2 mp1 mp2 hw1 hw2] at h
    obtain ⟨m2, hc, h⟩ := Except.bind_eq_ok h
    simp only [pure, Except.pure, Except.ok.injEq, Prod.mk.injEq] at h
    obtain ⟨⟨rfl, rfl⟩, rfl⟩ := h
    refine ⟨_, m1, hsend, rfl, hst1, by rw [hm1], m2, ?_, rfl, rfl⟩
    cases hsc : specFaulted (sentSession s conf).fcntDown k rx1 rx2 mp1 mp2 with
    | accepted N d snr =>
      simp only [hsc] at hc ⊢
      obtain ⟨ctx, hctx, hc⟩ := Except.bind_eq_ok hc
      cases Except.pure_eq_ok hc
      exact ⟨ctx, hctx, rfl⟩
    | ended =>
      simp only [hsc] at hc ⊢
      exact (Except.pure_eq_ok hc).symm
    | nothing =>
      simp only [hsc] at hc ⊢
      exact (Except.pure_eq_ok hc).symm

theorem step_uplink_notJoined {σ} (g : Rng σ) (m m' : MacState) (rs rs' : σ) (hst : ∀ s, m.st ≠ .joined s)
    (data : List Nat) (fport : Nat) (conf : Bool) (fault : Option Nat) (rx1 rx2 : Option (RxView × Int)) (mp1 mp2 : Nat)
    (out : Out) (h : step g (m, rs) (.uplink data fport conf fault rx1 rx2 mp1 mp2) = .ok ((m', rs'), out)) :
    m' = m ∧ rs' = rs ∧ out = .notJoined := by
  unfold step at h
  simp only [macSend_notJoined g m hst, bind, Except.bind, pure, Except.pure, Except.ok.injEq, Prod.mk.injEq] at h
  obtain ⟨⟨rfl, rfl⟩, rfl⟩ := h
  exact ⟨rfl, rfl, rfl⟩

theorem step_joinOtaa_inv {σ} (g : Rng σ) (m m' : MacState) (rs rs' : σ) (fault : Option Nat)
    (rx1 rx2 : Option (RxView × Int)) (mp1 mp2 : Nat) (out : Out)
    (h : step g (m, rs) (.joinOtaa fault rx1 rx2 mp1 mp2) = .ok ((m', rs'), out)) :
    ∃ jo m1 o, macJoinOtaa g m rs = .ok (jo, m1, rs') ∧ m1.st = .otaa o ∧ m1.cfg = m.cfg ∧
      match joinRes fault rx1 rx2 with
      | some j => otaaAccept m1 j = .ok m' ∧ out = .join jo (if fault.isSome then none else some .joinSuccess)
      | none => m' = m1 ∧ out = .join jo (if fault.isSome then none else some .noJoinAccept) := by
  unfold step at h
  simp only at h
  obtain ⟨⟨jo, m1, rs1⟩, hj, h⟩ := Except.bind_eq_ok h
  obtain ⟨dr, tx, region', pw, r1, r2, _, _, hm1, _, _⟩ := macJoinOtaa_ok g m rs rs1 jo m1 hj
  have hst1 : m1.st = .otaa { devNonce := (draw g rs).1 % 65536 } := by rw [hm1]
  simp only at h
  unfold joinRes
  cases fault with
  | none =>
    simp only at h ⊢
    rw [classACycle_otaa m1 _ hst1 rx1 rx2 mp1 mp2] at h
    obtain ⟨⟨r, dl, m2⟩, hc, h⟩ := Except.bind_eq_ok h
    simp only [pure, Except.pure, Except.ok.injEq, Prod.mk.injEq] at h
    obtain ⟨⟨rfl, rfl⟩, rfl⟩ := h
    refine ⟨jo, m1, _, hj, hst1, by rw [hm1], ?_⟩
    cases hsj : specJoin rx1 rx2 with
    | some j =>
      simp only [hsj] at hc ⊢
      obtain ⟨m3, hacc, hc⟩ := Except.bind_eq_ok hc
      simp only [pure, Except.pure, Except.ok.injEq, Prod.mk.injEq] at hc
      obtain ⟨rfl, rfl, rfl⟩ := hc
      exact ⟨hacc, rfl⟩
    | none =>
      simp only [hsj, pure, Except.pure, Except.ok.injEq, Prod.mk.injEq] at hc ⊢
      obtain ⟨rfl, rfl, rfl⟩ := hc
      exact ⟨rfl, rfl⟩
  | some k =>
    simp only at h ⊢
    rw [faultedCycle_otaa m1 _ hst1 k rx1 rx2 mp1 mp2] at h
    obtain ⟨m2, hc, h⟩ := Except.bind_eq_ok h
    simp only [pure, Except.pure, Except.ok.injEq, Prod.mk.injEq] at h
    obtain ⟨⟨rfl, rfl⟩, rfl⟩ := h
    refine ⟨jo, m1, _, hj, hst1, by rw [hm1], ?_⟩
    cases hsj : specJoinFaulted k rx1 rx2 with
    | some j =>
      simp only [hsj] at hc ⊢
      exact ⟨hc, rfl⟩
    | none =>
      simp only [hsj] at hc ⊢
      exact ⟨(Except.pure_eq_ok hc).symm, rfl⟩

theorem acceptCmds_c (pending : List Nat) (cfg : Config) (region : RegionState) (d : RxData) (snr : Int) :
    acceptCmds pending cfg region d snr true = .ok { cfg := cfg, region := region, pending := pending } := rfl

theorem step_rxc_joined {σ} (g : Rng σ) (m m' : MacState) (rs rs' : σ) (s : Session) (hst : m.st = .joined s)
    (hl : LastOk s.fcntDown) (v : RxView) (snr : Int) (mp : Nat) (hw : viewOk v = true) (out : Out)
    (h : step g (m, rs) (.rxc v snr mp) = .ok ((m', rs'), out)) :
    rs' = rs ∧ ∃ rf, macRxcConfig m = .ok rf ∧
      match specRxc s.fcntDown v mp with
      | some (N, d) =>
        m' = acceptState m s d N { cfg := m.cfg, region := m.region, pending := s.pending } ∧
        out = .rxc rf (some (acceptOut s d N { cfg := m.cfg, region := m.region, pending := s.pending }))
      | none => m' = m ∧ out = .rxc rf (some noUp) := by
  unfold step at h
  simp only at h
  obtain ⟨rf, hrf, h⟩ := Except.bind_eq_ok h
  obtain ⟨⟨o, m2⟩, hrx, h⟩ := Except.bind_eq_ok h
  simp only [pure, Except.pure, Except.ok.injEq, Prod.mk.injEq] at h
  obtain ⟨⟨rfl, rfl⟩, rfl⟩ := h
  refine ⟨rfl, rf, hrf, ?_⟩
  rw [macHandleRxc_joined m s hst hl v mp snr hw] at hrx
  unfold specRxc
  cases v with
  | garbage => simp only [pure, Except.pure, Except.ok.injEq, Prod.mk.injEq] at hrx ⊢; obtain ⟨rfl, rfl⟩ := hrx; exact ⟨rfl, rfl⟩
  | joinAccept j => simp only [pure, Except.pure, Except.ok.injEq, Prod.mk.injEq] at hrx ⊢; obtain ⟨rfl, rfl⟩ := hrx; exact ⟨rfl, rfl⟩
  | data d =>
    simp only at hrx ⊢
    cases ha : accepts s.fcntDown d mp with
    | none =>
      simp only [ha, Option.map_none, pure, Except.pure, Except.ok.injEq, Prod.mk.injEq] at hrx ⊢
      obtain ⟨rfl, rfl⟩ := hrx; exact ⟨rfl, rfl⟩
    | some N =>
      simp only [ha, Option.map_some, acceptM, acceptCmds_c, bind, Except.bind, pure, Except.pure, Except.ok.injEq,
        Prod.mk.injEq] at hrx ⊢
      obtain ⟨rfl, rfl⟩ := hrx; exact ⟨rfl, rfl⟩

theorem step_rxc_notJoined {σ} (g : Rng σ) (m m' : MacState) (rs rs' : σ) (hst : ∀ s, m.st ≠ .joined s)
    (v : RxView) (snr : Int) (mp : Nat) (out : Out)
    (h : step g (m, rs) (.rxc v snr mp) = .ok ((m', rs'), out)) :
    m' = m ∧ rs' = rs ∧ ∃ rf, macRxcConfig m = .ok rf ∧ out = .rxc rf none := by
  unfold step at h
  simp only at h
  obtain ⟨rf, hrf, h⟩ := Except.bind_eq_ok h
  rw [macHandleRxc_notJoined m hst v mp snr] at h
  simp only [bind, Except.bind, pure, Except.pure, Except.ok.injEq, Prod.mk.injEq] at h
  obtain ⟨⟨rfl, rfl⟩, rfl⟩ := h
  exact ⟨rfl, rfl, rf, hrf, rfl⟩

end Model
