import LoraVerif.Model.Region
import LoraVerif.Lemmas.ExceptLemmas
/-!
Two weakest-precondition style predicates on the model monad `M = Except Fault`, with their bind
rules — the way the per-handler lemmas compose into the history invariant (C04).

* `Tot x P`  : `x` RETURNS a value satisfying `P` (no panic, no exhausted retry budget);
* `Safe x P` : `x` does not PANIC, and if it returns, the value satisfies `P` (a retry loop may run
  out of its draw budget: `Fault.hang`).
-/
namespace Model

def Tot {α} (x : M α) (P : α → Prop) : Prop := ∃ a, x = .ok a ∧ P a

def Safe {α} (x : M α) (P : α → Prop) : Prop :=
  match x with
  | .ok a => P a
  | .error (.hang _) => True
  | .error (.panic _) => False

theorem Tot.pure {α} {a : α} {P : α → Prop} (h : P a) : Tot (Pure.pure a : M α) P := ⟨a, rfl, h⟩

theorem Tot.ok {α} {a : α} {P : α → Prop} (h : P a) : Tot (Except.ok a : M α) P := ⟨a, rfl, h⟩

theorem Tot.bind {α β} {x : M α} {f : α → M β} {P : α → Prop} {Q : β → Prop}
    (hx : Tot x P) (hf : ∀ a, P a → Tot (f a) Q) : Tot (x >>= f) Q := by
  obtain ⟨a, rfl, ha⟩ := hx
  exact hf a ha

theorem Tot.mono {α} {x : M α} {P Q : α → Prop} (hx : Tot x P) (h : ∀ a, P a → Q a) : Tot x Q := by
  obtain ⟨a, e, ha⟩ := hx
  exact ⟨a, e, h a ha⟩

theorem Tot.and {α} {x : M α} {P Q : α → Prop} (hp : Tot x P) (hq : Tot x Q) : Tot x (fun a => P a ∧ Q a) := by
  obtain ⟨a, e, ha⟩ := hp
  obtain ⟨b, e', hb⟩ := hq
  rw [e] at e'
  cases e'
  exact ⟨a, e, ha, hb⟩

theorem Tot.of_eq {α} {x : M α} {a : α} {P : α → Prop} (e : x = .ok a) (h : P a) : Tot x P := ⟨a, e, h⟩

theorem Tot.elim {α} {x : M α} {P : α → Prop} {a : α} (hx : Tot x P) (e : x = .ok a) : P a := by
  obtain ⟨b, e', hb⟩ := hx
  rw [e] at e'
  cases e'
  exact hb

theorem Safe.pure {α} {a : α} {P : α → Prop} (h : P a) : Safe (Pure.pure a : M α) P := h

theorem Safe.ok {α} {a : α} {P : α → Prop} (h : P a) : Safe (Except.ok a : M α) P := h

theorem Safe.hang {α} {site : String} {P : α → Prop} : Safe (Model.hang site : M α) P := trivial

theorem Tot.safe {α} {x : M α} {P : α → Prop} (hx : Tot x P) : Safe x P := by
  obtain ⟨a, rfl, ha⟩ := hx
  exact ha

theorem Safe.bind {α β} {x : M α} {f : α → M β} {P : α → Prop} {Q : β → Prop}
    (hx : Safe x P) (hf : ∀ a, P a → Safe (f a) Q) : Safe (x >>= f) Q := by
  cases x with
  | ok a => exact hf a hx
  | error e =>
    cases e with
    | panic s => exact hx.elim
    | hang s => trivial

theorem Safe.tbind {α β} {x : M α} {f : α → M β} {P : α → Prop} {Q : β → Prop}
    (hx : Tot x P) (hf : ∀ a, P a → Safe (f a) Q) : Safe (x >>= f) Q := Safe.bind hx.safe hf

theorem Safe.mono {α} {x : M α} {P Q : α → Prop} (hx : Safe x P) (h : ∀ a, P a → Q a) : Safe x Q := by
  cases x with
  | ok a => exact h a hx
  | error e => cases e <;> exact hx

theorem Safe.elim {α} {x : M α} {P : α → Prop} {a : α} (hx : Safe x P) (e : x = .ok a) : P a := by
  subst e; exact hx

theorem Safe.no_panic {α} {x : M α} {P : α → Prop} (hx : Safe x P) (site : String) : x ≠ .error (.panic site) := by
  intro e; subst e; exact hx

theorem safe_iff {α} {x : M α} {P : α → Prop} :
    Safe x P ↔ (∀ site, x ≠ .error (.panic site)) ∧ (∀ a, x = .ok a → P a) := by
  constructor
  · intro h; exact ⟨h.no_panic, fun a e => h.elim e⟩
  · intro ⟨h1, h2⟩
    cases x with
    | ok a => exact h2 a rfl
    | error e =>
      cases e with
      | panic s => exact (h1 s rfl).elim
      | hang s => trivial

end Model
