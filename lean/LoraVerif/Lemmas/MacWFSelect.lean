import LoraVerif.Lemmas.MacWFRx
import LoraVerif.Lemmas.JoinWalk
/-!
Channel selection (`select_tx_channel`, dynamic and fixed plans, join and data frames) never
panics on a well-formed plan, for every random stream: each retry loop either returns or exhausts
its draw budget (`Safe`), everything around the loops is total, and the plan it leaves
(fallback re-enabling, join-channel bookkeeping) is well-formed again.
-/
open Gen.Region Gen.Modulation

namespace Model

theorem ok_bind' {α β} (a : α) (f : α → M β) : ((Except.ok a : M α) >>= f) = f a := rfl

theorem dynJoinLoop_safe {σ} (g : Rng σ) (n fuel : Nat) (s : σ) : Safe (dynJoinLoop g n fuel s) (fun r => r.1 < n) := by
  induction fuel generalizing s with
  | zero => exact Safe.hang
  | succ fuel ih =>
    unfold dynJoinLoop
    simp only
    split
    · exact ih _
    · refine Safe.pure ?_
      simp only; omega

theorem usable_tot (r : RegionId) (p : DynPlan) (h : dynWF r p = true) (i : Nat) (hi : i < 16) :
    Tot (p.usable i) (fun _ => True) := by
  obtain ⟨hc, hm, _⟩ := dynWF_iff.mp h
  unfold DynPlan.usable
  refine Tot.bind (isEnabled_tot p.mask i hm (by omega)) (fun b _ => ?_)
  cases b
  · exact Tot.pure trivial
  · simp only [if_true]
    rw [List.getElem?_eq_getElem (by omega)]
    exact Tot.pure trivial

theorem foldlM_setChannel_tot (l : List Nat) (m : Mask) (hm : m.length = 9) (hl : ∀ i ∈ l, i < 72) :
    Tot (l.foldlM (fun m i => m.setChannel i true) m) (fun m' => m'.length = 9) := by
  induction l generalizing m with
  | nil => exact Tot.pure hm
  | cons a rest ih =>
    rw [List.foldlM_cons]
    refine Tot.bind (setChannel_tot m a true hm (hl a List.mem_cons_self)) (fun m' hm' => ?_)
    exact ih m' hm' (fun i hi => hl i (List.mem_cons_of_mem _ hi))

theorem numJoinChannels_pos (r : RegionId) : 0 < numJoinChannels r := by cases r <;> decide

theorem range_tot (r : RegionId) (p : DynPlan) (h : dynWF r p = true) : Tot p.range (fun n => n ≤ 16) := by
  obtain ⟨hc, hm, hd, _⟩ := dynWF_iff.mp h
  unfold DynPlan.range
  simp only
  obtain ⟨c0, hc0⟩ := hd 0 (numJoinChannels_pos r)
  generalize hl : (List.range p.channels.length).filter
    (fun i => match p.channels[i]? with | some (some _) => true | _ => false) = idxs
  have h0 : 0 ∈ idxs := by
    rw [← hl]
    simp only [List.mem_filter, List.mem_range]
    refine ⟨by omega, ?_⟩
    rw [hc0]
  cases hg : idxs.getLast? with
  | none =>
    rw [List.getLast?_eq_none_iff] at hg
    rw [hg] at h0; cases h0
  | some i =>
    have hi : i ∈ idxs := List.mem_of_getLast? hg
    rw [← hl] at hi
    simp only [List.mem_filter, List.mem_range] at hi
    exact ⟨_, rfl, by omega⟩

theorem randomInRange_tot {σ} (g : Rng σ) (r : RegionId) (p : DynPlan) (s : σ) (h : dynWF r p = true) :
    Tot (p.randomInRange g s) (fun x => x.1 < 16) := by
  unfold DynPlan.randomInRange
  refine Tot.bind (range_tot r p h) (fun n hn => ?_)
  refine Tot.pure ?_
  simp only
  have h16 : ¬ n > 16 := by omega
  simp only [h16, if_false]
  split
  · exact Nat.lt_of_lt_of_le (Nat.mod_lt _ (by decide)) (by decide)
  · exact Nat.lt_of_lt_of_le (Nat.mod_lt _ (by decide)) (by decide)

theorem dynDataLoop_safe {σ} (g : Rng σ) (r : RegionId) (p : DynPlan) (fuel : Nat) (s : σ) (h : dynWF r p = true) :
    Safe (dynDataLoop g p fuel s) (fun _ => True) := by
  induction fuel generalizing s with
  | zero => exact Safe.hang
  | succ fuel ih =>
    unfold dynDataLoop
    refine Safe.tbind (randomInRange_tot g r p s h) ?_
    intro ⟨i, s1⟩ hi
    simp only at hi ⊢
    refine Safe.tbind (usable_tot r p h i hi) (fun u _ => ?_)
    cases u with
    | some c => exact Safe.pure trivial
    | none => exact ih s1

theorem fixedMaskLoop_safe {σ} (g : Rng σ) (mask : Mask) (bits base fuel : Nat) (s : σ)
    (hm : mask.length = 9) (hb : base + bits ≤ 72) (hbits : 0 < bits) :
    Safe (fixedMaskLoop g mask bits base fuel s) (fun r => r.1 < 72) := by
  induction fuel generalizing s with
  | zero => exact Safe.hang
  | succ fuel ih =>
    unfold fixedMaskLoop
    simp only
    have hlt : (draw g s).1 % bits < bits := Nat.mod_lt _ hbits
    refine Safe.tbind (isEnabled_tot mask _ hm (by omega)) (fun b _ => ?_)
    cases b
    · simp only [Bool.false_eq_true, if_false]; exact ih _
    · simp only [if_true]; refine Safe.pure ?_; simp only; omega

theorem isEnabled_spec (m : Mask) (i : Nat) (hm : m.length = 9) (hi : i < 72) :
    Tot (m.isEnabled i) (fun b => m.isEnabled i = .ok b) := by
  obtain ⟨b, hb, _⟩ := isEnabled_tot m i hm hi
  exact ⟨b, hb, hb⟩

theorem entropyLoop_safe {σ} (g : Rng σ) (avail : Mask) (bank fuel e used : Nat) (s : σ)
    (hm : avail.length = 9) (hb : bank ≤ 8) :
    Safe (entropyLoop g avail bank fuel e used s)
      (fun r => r.1 < 72 ∧ r.1 / 8 = bank ∧ avail.isEnabled r.1 = .ok true) := by
  induction fuel generalizing e used s with
  | zero => exact Safe.hang
  | succ fuel ih =>
    unfold entropyLoop
    have hlt : e % 8 < 8 := Nat.mod_lt _ (by decide)
    refine Safe.tbind (isEnabled_spec avail (e % 8 + bank * 8) hm (by omega)) (fun b hen => ?_)
    cases b
    · simp only [Bool.false_eq_true, if_false]
      split
      · exact ih _ _ _
      · exact ih _ _ _
    · simp only [if_true]
      exact Safe.pure ⟨by simp only; omega, by simp only; omega, hen⟩

/-- the channel `get_next_inner` returns: on a fresh mask one of the 64 125-kHz channels; otherwise
a free channel of the bank after the previous one's -/
theorem availGetNextInner_safe {σ} (g : Rng σ) (avail : Mask) (prev : Option Nat) (s : σ) (hm : avail.length = 9) :
    Safe (availGetNextInner g avail prev s)
      (fun r => r.1 < 72 ∧ ∀ pv, prev = some pv → pv < 72 → r.1 / 8 = (pv / 8 + 1) % 9 ∧ avail.isEnabled r.1 = .ok true) := by
  unfold availGetNextInner
  cases prev with
  | none =>
    simp only
    refine Safe.pure ⟨?_, fun pv e => by cases e⟩
    simp only
    have : (draw g s).1 % 256 % 64 < 64 := Nat.mod_lt _ (by decide)
    omega
  | some previous =>
    simp only
    have hn : (previous + 8) % 72 < 72 := Nat.mod_lt _ (by decide)
    refine Safe.tbind (isEnabled_spec avail _ hm hn) (fun b hen => ?_)
    cases b
    · simp only [Bool.false_eq_true, if_false]
      refine Safe.mono (entropyLoop_safe g avail _ _ _ _ _ hm (by omega)) ?_
      intro r ⟨h1, h2, h3⟩
      refine ⟨h1, fun pv e hpv => ?_⟩
      cases e
      exact ⟨by omega, h3⟩
    · simp only [if_true]
      refine Safe.pure ⟨hn, fun pv e hpv => ?_⟩
      cases e
      exact ⟨by simp only; omega, hen⟩

/-- `AvailableChannels::get_next` outside the biased phase keeps the walk invariant -/
theorem availGetNext_safe {σ} (g : Rng σ) (j : JoinChannels) (s : σ) (h : jcWF j = true)
    (hnb : ¬ (j.preferredSubband.isSome = true ∧ j.numRetries < j.maxRetries)) :
    Safe (availGetNext g j s) (fun r => r.1 < 72 ∧ jcWF r.2.1 = true) := by
  obtain ⟨ha, hsb, hav, _⟩ := jcWF_iff.mp h
  unfold availGetNext
  have hbf : ∀ a p, biasFresh { j with avail := a, availPrev := p } = true :=
    fun a p => biasFresh_iff.mpr (fun h1 h2 => absurd ⟨h1, h2⟩ hnb)
  by_cases hex : availIsExhausted j.avail = true
  · simp only [hex, if_true]
    refine Safe.bind (availGetNextInner_safe g Mask.default none s (by decide)) ?_
    intro ⟨ch, s1⟩ ⟨hch, _⟩
    simp only at hch ⊢
    obtain ⟨a', hs', hl'⟩ := setChannel_tot Mask.default ch false (by decide) hch
    rw [hs']
    simp only [ok_bind']
    exact Safe.pure ⟨hch, jcWF_iff.mpr ⟨hl', hsb, avInv_first ch a' hch hs', hbf _ _⟩⟩
  · have hex' : availIsExhausted j.avail = false := by simpa using hex
    simp only [hex, Bool.false_eq_true, if_false]
    refine Safe.bind (availGetNextInner_safe g j.avail j.availPrev s ha) ?_
    intro ⟨ch, s1⟩ ⟨hch, hnext⟩
    simp only at hch hnext ⊢
    obtain ⟨a', hs', hl'⟩ := setChannel_tot j.avail ch false ha hch
    rw [hs']
    simp only [ok_bind']
    refine Safe.pure ⟨hch, jcWF_iff.mpr ⟨hl', hsb, ?_, hbf _ _⟩⟩
    cases hp : j.availPrev with
    | none =>
      rw [hp] at hav
      have hd : j.avail = Mask.default := hav.2.2
      rw [hd] at hs'
      exact avInv_first ch a' hch hs'
    | some pv =>
      rw [hp] at hav
      have hpv : pv < 72 := hav.2.2.1
      obtain ⟨h1, h2⟩ := hnext pv hp hpv
      exact avInv_next j.avail a' pv ch hav hex' hch h1 h2 hs'

theorem getNextChannel_safe {σ} (g : Rng σ) (j : JoinChannels) (s : σ) (h : jcWF j = true) :
    Safe (j.getNextChannel g s) (fun r => r.1 < 72 ∧ jcWF r.2.1 = true) := by
  obtain ⟨ha, hsb, hav, hbf⟩ := jcWF_iff.mp h
  obtain ⟨mr, nr, psb, av, avp, pc⟩ := j
  simp only at ha hsb hav
  unfold JoinChannels.getNextChannel
  cases psb with
  | none =>
    simp only
    exact availGetNext_safe g _ s (jcWF_iff.mpr ⟨ha, (fun sb e => by cases e), hav, biasFresh_iff.mpr (fun e => by cases e)⟩)
      (fun e => by cases e.1)
  | some sb =>
    obtain ⟨hsb1, hsb8⟩ := hsb sb rfl
    have hsb' : ∀ sb', some sb = some sb' → 1 ≤ sb' ∧ sb' ≤ 8 := fun sb' e => by cases e; exact ⟨hsb1, hsb8⟩
    simp only
    split
    · rename_i hlt'
      have hfresh := biasFresh_iff.mp hbf rfl hlt'
      simp only at hfresh
      obtain ⟨rfl, rfl⟩ := hfresh
      have hlt : (draw g s).1 % 8 < 8 := Nat.mod_lt _ (by decide)
      have hsbm : (sb - 1) % 256 = sb - 1 := Nat.mod_eq_of_lt (by omega)
      have hch : (draw g s).1 % 8 + (sb - 1) % 256 * 8 < 72 := by rw [hsbm]; omega
      have hng : ¬ (draw g s).1 % 8 + (sb - 1) % 256 * 8 > 255 := by omega
      simp only [hng, if_false]
      split
      · rename_i hlast
        obtain ⟨a', hs', hl'⟩ := setChannel_tot Mask.default _ false (by decide) hch
        rw [hs']
        simp only [ok_bind']
        refine Safe.pure ⟨hch, ?_⟩
        refine jcWF_iff.mpr ⟨hl', hsb', avInv_first _ a' hch hs', biasFresh_iff.mpr (fun _ hlt2 => ?_)⟩
        simp only [beq_iff_eq] at hlast
        simp only at hlt2
        omega
      · refine Safe.pure ⟨hch, ?_⟩
        exact jcWF_iff.mpr ⟨ha, hsb', avInv_fresh, biasFresh_iff.mpr (fun _ _ => ⟨rfl, rfl⟩)⟩
    · rename_i hge
      exact availGetNext_safe g _ s
        (jcWF_iff.mpr ⟨ha, hsb', hav, biasFresh_iff.mpr (fun _ hlt2 => by simp only at hlt2; omega)⟩)
        (fun e => by have := e.2; simp only at this; omega)

theorem firstDataChannel_wf {σ} (g : Rng σ) (j : JoinChannels) (s : σ) (h : jcWF j = true) :
    jcWF (j.firstDataChannel g s).2.1 = true ∧ ∀ ch, (j.firstDataChannel g s).1 = some ch → ch < 64 := by
  obtain ⟨ha, hsb, hav, _⟩ := jcWF_iff.mp h
  unfold JoinChannels.firstDataChannel
  split
  · simp only
    refine ⟨jcWF_iff.mpr ⟨ha, by simp [JoinChannels.clearBias], hav, biasFresh_iff.mpr (fun e => by simp [JoinChannels.clearBias] at e)⟩, ?_⟩
    intro ch e
    cases e
    have hlt : (draw g s).1 % 8 < 8 := Nat.mod_lt _ (by decide)
    simp only [JoinChannels.clearBias]
    by_cases hpc : j.previousChannel < 64 <;> simp only [hpc, if_true, if_false] <;> omega
  · exact ⟨h, fun ch e => by cases e⟩

theorem uplinkChannels_length (r : RegionId) : (uplinkChannels r).length = 72 := by cases r <;> rfl
theorem downlinkChannels_length (r : RegionId) : (downlinkChannels r).length = 8 := by cases r <;> rfl

theorem joinDr_defined (r : RegionId) (hf : r.isFixed = true) :
    (∃ d, getDatarate r DR._0.toInt.toNat = some d) ∧ (∃ d, getDatarate r (join500kDr r).toInt.toNat = some d) := by
  cases r <;> simp [RegionId.isFixed] at hf
  · exact ⟨⟨_, rfl⟩, ⟨_, rfl⟩⟩
  · exact ⟨⟨_, rfl⟩, ⟨_, rfl⟩⟩

theorem ok_bind {α β} (a : α) (f : α → M β) : ((Except.ok a : M α) >>= f) = f a := rfl

theorem unwrapDatarate_some (site : String) (d : Datarate) : unwrapDatarate site (some d) = .ok d := rfl

theorem selectTxChannel_safe {σ} (g : Rng σ) (rs : RegionState) (dr : DR) (frame : FrameKind) (s : σ)
    (h : regionWF rs = true) (hdr : isUplinkDatarate rs.id dr.toInt.toNat = true) :
    Safe (selectTxChannel g rs dr frame s) (fun r => regionWF r.2.1 = true ∧ r.2.1.id = rs.id) := by
  obtain ⟨dd, hdd, hlt⟩ := isUplink_get hdr
  have hidx := indexDatarate_of_get hdd
  unfold selectTxChannel
  cases hp : rs.plan with
  | dyn p =>
    have hw := (regionWF_dyn hp).mp h
    obtain ⟨hc, hm, hd, hib⟩ := dynWF_iff.mp hw.2
    simp only [hidx, ok_bind]
    cases frame with
    | join =>
      simp only
      refine Safe.bind (dynJoinLoop_safe g _ _ s) ?_
      intro ⟨idx, s1⟩ hidx1
      simp only at hidx1 ⊢
      obtain ⟨c, hc'⟩ := hd idx hidx1
      rw [hc']
      simp only [unwrapDatarate_some, ok_bind]
      exact Safe.pure ⟨h, rfl⟩
    | data =>
      simp only
      refine Safe.tbind (anyM_tot _ _ (fun i hi => ?_)) (fun usableAny _ => ?_)
      · exact Tot.bind (usable_tot rs.id p hw.2 i (List.mem_range.mp hi)) (fun _ _ => Tot.pure trivial)
      · have hp' : Tot (if usableAny = true then (pure p : M DynPlan) else do
              let m ← (List.range (numJoinChannels rs.id)).foldlM (fun m i => m.setChannel i true) p.mask
              pure { p with mask := m }) (fun p' => dynWF rs.id p' = true) := by
          split
          · exact Tot.pure hw.2
          · refine Tot.bind (foldlM_setChannel_tot _ p.mask hm (fun i hi => ?_)) (fun m' hm' => Tot.pure ?_)
            · have := List.mem_range.mp hi
              have := numJoinChannels_le rs.id
              omega
            · exact dynWF_iff.mpr ⟨hc, hm', hd, hib⟩
        refine Safe.tbind hp' (fun p' hp'' => ?_)
        refine Safe.bind (dynDataLoop_safe g rs.id p' _ s hp'') ?_
        intro ⟨c, s1⟩ _
        simp only [unwrapDatarate_some, ok_bind]
        refine Safe.pure ⟨?_, rfl⟩
        exact (regionWF_dyn (rs := { rs with plan := .dyn p' }) rfl).mpr ⟨hw.1, hp''⟩
  | fix p =>
    have hw := (regionWF_fix hp).mp h
    obtain ⟨hfx, hm, hjc⟩ := hw
    simp only
    have hgn : Safe (do
          let __x ← JoinChannels.getNextChannel g p.jc s
          (pure (if __x.fst < 64 then DR._0 else join500kDr rs.id, __x.fst, __x.2.fst, p.mask, __x.2.snd) :
            M (DR × Nat × JoinChannels × Mask × σ)))
        (fun x => (∃ d, getDatarate rs.id x.1.toInt.toNat = some d) ∧ x.2.1 < 72 ∧ jcWF x.2.2.1 = true ∧
          x.2.2.2.1.length = 9) := by
      refine Safe.bind (getNextChannel_safe g p.jc s hjc) ?_
      intro ⟨ch, jc', s'⟩ ⟨h1, h2⟩
      refine Safe.pure ⟨?_, h1, h2, hm⟩
      simp only
      split
      · exact (joinDr_defined rs.id hfx).1
      · exact (joinDr_defined rs.id hfx).2
    refine Safe.bind (P := fun x => (∃ d, getDatarate rs.id x.1.toInt.toNat = some d) ∧ x.2.1 < 72 ∧
        jcWF x.2.2.1 = true ∧ x.2.2.2.1.length = 9) ?_ ?_
    · cases frame with
      | join => exact hgn
      | data =>
        simp only
        have hbias : Safe (if p.jc.hasBiasAndNotExhausted = true then do
              let __x ← JoinChannels.getNextChannel g p.jc s
              let en ← p.mask.isEnabled __x.fst
              (pure (if en = true then some __x.fst else none, __x.2.fst, __x.2.snd) : M (Option Nat × JoinChannels × σ))
            else pure (none, p.jc, s))
            (fun x => jcWF x.2.1 = true ∧ ∀ ch, x.1 = some ch → ch < 72) := by
          split
          · refine Safe.bind (getNextChannel_safe g p.jc s hjc) ?_
            intro ⟨ch, jc', s'⟩ ⟨h1, h2⟩
            simp only at h1 h2 ⊢
            refine Safe.tbind (isEnabled_tot p.mask ch hm h1) (fun en _ => ?_)
            refine Safe.pure ⟨h2, fun ch' e => ?_⟩
            cases en
            · simp at e
            · simp only [if_true, Option.some.injEq] at e; omega
          · exact Safe.pure ⟨hjc, fun ch e => by cases e⟩
        refine Safe.bind hbias ?_
        intro ⟨biased, jc0, s0⟩ ⟨hjc0, hb72⟩
        simp only at hjc0 hb72 ⊢
        cases biased with
        | some ch =>
          simp only
          refine Safe.pure ⟨?_, hb72 ch rfl, hjc0, hm⟩
          simp only
          split
          · exact (joinDr_defined rs.id hfx).1
          · exact (joinDr_defined rs.id hfx).2
        | none =>
          simp only [hidx, ok_bind, unwrapDatarate_some]
          obtain ⟨hfd1, hfd2⟩ := firstDataChannel_wf g jc0 s0 hjc0
          generalize JoinChannels.firstDataChannel g jc0 s0 = fd at hfd1 hfd2 ⊢
          obtain ⟨pref, jc', s'⟩ := fd
          simp only at hfd1 hfd2 ⊢
          have hup : Tot (match pref with
              | some ch => do
                let en ← p.mask.isEnabled ch
                pure (en && dd.bandwidth == Bandwidth._125KHz)
              | none => (pure false : M Bool)) (fun _ => True) := by
            cases pref with
            | none => exact Tot.pure trivial
            | some ch =>
              have := hfd2 ch rfl
              exact Tot.bind (isEnabled_tot p.mask ch hm (by omega)) (fun _ _ => Tot.pure trivial)
          refine Safe.tbind hup (fun usePref _ => ?_)
          split
          · rename_i ch
            have := hfd2 ch rfl
            exact Safe.pure ⟨⟨dd, hdd⟩, by simp only; omega, hfd1, hm⟩
          · split
            · refine Safe.tbind (anyM_tot _ _ (fun i hi => ?_)) (fun any500 _ => ?_)
              · simp only [List.mem_map, List.mem_range] at hi
                obtain ⟨j, hj, rfl⟩ := hi
                exact isEnabled_tot p.mask _ hm (by omega)
              · have hmk : Tot (if any500 = true then (pure p.mask : M Mask) else p.mask.setBank 8 255)
                    (fun m' => m'.length = 9) := by
                  split
                  · exact Tot.pure hm
                  · exact setBank_tot p.mask 8 255 hm (by omega)
                refine Safe.tbind hmk (fun mask' hmask' => ?_)
                refine Safe.bind (fixedMaskLoop_safe g mask' 8 64 _ s' hmask' (by omega) (by omega)) ?_
                intro ⟨ch, s''⟩ hch
                exact Safe.pure ⟨⟨dd, hdd⟩, hch, hfd1, hmask'⟩
            · refine Safe.tbind (anyM_tot _ _ (fun i hi => ?_)) (fun any125 _ => ?_)
              · have := List.mem_range.mp hi
                exact isEnabled_tot p.mask _ hm (by omega)
              · have hmk : Tot (if any125 = true then (pure p.mask : M Mask)
                      else setBanks p.mask (List.map (fun i => (i, 255)) (List.range 8)))
                    (fun m' => m'.length = 9) := by
                  split
                  · exact Tot.pure hm
                  · exact setBanks_range8_tot p.mask (fun _ => 255) hm
                refine Safe.tbind hmk (fun mask' hmask' => ?_)
                refine Safe.bind (fixedMaskLoop_safe g mask' 64 0 _ s' hmask' (by omega) (by omega)) ?_
                intro ⟨ch, s''⟩ hch
                exact Safe.pure ⟨⟨dd, hdd⟩, hch, hfd1, hmask'⟩
    · intro ⟨dr', ch, jc', mask', s'⟩ ⟨⟨d', hd'⟩, hch, hjc', hmask'⟩
      simp only at hd' hch hjc' hmask' ⊢
      rw [indexDatarate_of_get hd']
      simp only [ok_bind, unwrapDatarate_some]
      rw [List.getElem?_eq_getElem (by rw [uplinkChannels_length]; exact hch),
        List.getElem?_eq_getElem (by rw [downlinkChannels_length]; exact Nat.mod_lt _ (by decide))]
      simp only
      refine Safe.pure ⟨?_, rfl⟩
      exact (regionWF_fix (rs := { rs with plan := .fix { mask := mask', jc := jc' } }) rfl).mpr ⟨hfx, hmask', hjc'⟩

end Model
