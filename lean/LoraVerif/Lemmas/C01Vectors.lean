import LoraVerif.Model.Aes
import LoraVerif.Model.Codec
import LoraVerif.Spec.LoRaWANBridge
/-!
# The published frames of `lorawan-encoding/tests/lorawan.rs`, rebuilt by the model with the Lean AES
(kernel evaluation; kept in their own module so that they are checked in parallel with the proofs)
-/
open Lora Lora.Codec
namespace C01Vectors
set_option maxRecDepth 100000

def k01 : Key := Vector.replicate 16 0x01
def k02 : Key := Vector.replicate 16 0x02

/-- `phy_dataup_payload`: unconfirmed uplink, DevAddr 01020304, ADR, FCnt 1, port 1, "hello",
NwkSKey 02…02, AppSKey 01…01 -/
def upDesc : DataFrame :=
  { frameType := .unconfirmedUp, devAddr := #v[0x04, 0x03, 0x02, 0x01], adr := true, adrAckReq := false, ack := false,
    fPending := false, fcnt := 1, fOpts := [], payload := .data 1 (by decide) [0x68, 0x65, 0x6c, 0x6c, 0x6f] }

theorem up_model : upDesc.buildInto aes (List.replicate 64 0) k02 (some k01)
    = .ok [0x40, 0x04, 0x03, 0x02, 0x01, 0x80, 0x01, 0x00, 0x01, 0xa6, 0x94, 0x64, 0x26, 0x15, 0xd6, 0xc3, 0xb5, 0x82] := by decide +kernel

theorem up_missing_key : upDesc.buildInto aes (List.replicate 64 0) k02 none = .err .missingKey := by decide +kernel
theorem up_short_buffer : upDesc.buildInto aes (List.replicate 17 0) k02 (some k01) = .err .bufferTooShort := by
  decide +kernel

/-- `phy_datadown_payload`: confirmed downlink, FCnt 76543 (only the low 16 bits are on the wire), port 42, "hello lora" -/
def downDesc : DataFrame :=
  { frameType := .confirmedDown, devAddr := #v[0x04, 0x03, 0x02, 0x01], adr := true, adrAckReq := false, ack := false,
    fPending := false, fcnt := 76543, fOpts := [], payload := .data 42 (by decide) [0x68, 0x65, 0x6c, 0x6c, 0x6f, 0x20, 0x6c, 0x6f, 0x72, 0x61] }

theorem down_model : downDesc.buildInto aes (List.replicate 64 0xaa) k02 (some k01)
    = .ok [0xa0, 0x04, 0x03, 0x02, 0x01, 0x80, 0xff, 0x2a, 0x2a, 0x0a, 0xf1, 0xa3, 0x6a, 0x05, 0xd0, 0x12, 0x5f, 0x88, 0x5d, 0x88, 0x1d, 0x49, 0xe1] := by decide +kernel

/-- `phy_join_request_payload` (AppKey 01…01) -/
def jrDesc : JoinRequest :=
  { joinEui := #v[4, 3, 2, 1, 4, 3, 2, 1], devEui := #v[5, 4, 3, 2, 5, 4, 3, 2], devNonce := #v[0x2d, 0x10] }

theorem jr_model : jrDesc.buildInto (List.replicate 23 0) ⟨aes, k01⟩
    = .ok [0x00, 0x04, 0x03, 0x02, 0x01, 0x04, 0x03, 0x02, 0x01, 0x05, 0x04, 0x03, 0x02, 0x05, 0x04, 0x03, 0x02, 0x2d, 0x10, 0x6a, 0x99, 0x0e, 0x12] := by decide +kernel

/-- `phy_join_accept_payload` (AppKey 00112233…ff), whose decrypted form the tests pin as
`20 c70b57 011122 80190302 00 00 43485bbc` -/
def jaDesc : JoinAccept :=
  { joinNonce := #v[0xc7, 0x0b, 0x57], netId := #v[0x01, 0x11, 0x22], devAddr := #v[0x80, 0x19, 0x03, 0x02],
    dlSettings := 0, rxDelay := 0, cFList := none }

def appKey : Key := #v[0x00, 0x11, 0x22, 0x33, 0x44, 0x55, 0x66, 0x77, 0x88, 0x99, 0xaa, 0xbb, 0xcc, 0xdd, 0xee, 0xff]

theorem ja_model : jaDesc.buildInto (List.replicate 17 0) ⟨aes, appKey⟩
    = .ok [0x20, 0x49, 0x3e, 0xeb, 0x51, 0xfb, 0xa2, 0x11, 0x6f, 0x81, 0x0e, 0xdb, 0x37, 0x42, 0x97, 0x51, 0x42] := by decide +kernel

end C01Vectors
