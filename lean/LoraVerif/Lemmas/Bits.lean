import LoraVerif.Rt
/-! Bit-level facts about `Rt.andI` / `Rt.orI` used by the counter reconstruction (C05). Core only. -/
namespace Rt

theorem nat_and_hi16 (n : Nat) (h : n < 2^32) : n &&& 4294901760 = (n >>> 16) <<< 16 := by
  apply Nat.eq_of_testBit_eq
  intro i
  have hm : (4294901760 : Nat) = (2^16 - 1) <<< 16 := by decide
  rw [hm, Nat.testBit_and, Nat.testBit_shiftLeft, Nat.testBit_shiftLeft, Nat.testBit_shiftRight, Nat.testBit_two_pow_sub_one]
  by_cases hi : 16 ≤ i
  · simp [hi]
    intro hb
    by_cases h32 : i < 32
    · omega
    · have : n < 2 ^ i := Nat.lt_of_lt_of_le h (Nat.pow_le_pow_right (by decide) (by omega))
      rw [Nat.testBit_lt_two_pow this] at hb
      cases hb
  · simp [hi]

/-- masking with 0xFFFF_0000 clears the low half -/
theorem andI_hi16 {n : Int} (h0 : 0 ≤ n) (h1 : n < 4294967296) : andI n 4294901760 = n - n % 65536 := by
  unfold andI
  have : (0:Int) ≤ 4294901760 := by decide
  simp only [h0, this, and_self, if_true]
  have hn : n.toNat < 2^32 := by omega
  have e : (Int.toNat 4294901760) = 4294901760 := by decide
  rw [e, nat_and_hi16 _ hn, Nat.shiftRight_eq_div_pow, Nat.shiftLeft_eq]
  omega

/-- or-ing a 16-bit value into a word whose low half is clear is addition -/
theorem orI_lo16 {h w : Int} (hh0 : 0 ≤ h) (hh : h % 65536 = 0) (hw0 : 0 ≤ w) (hw : w < 65536) :
    orI h w = h + w := by
  unfold orI
  simp only [hh0, hw0, and_self, if_true]
  have e : h.toNat = (h.toNat / 65536) <<< 16 := by
    rw [Nat.shiftLeft_eq]; omega
  rw [e, ← Nat.shiftLeft_add_eq_or_of_lt (by omega : w.toNat < 2^16)]
  rw [Nat.shiftLeft_eq]
  omega

end Rt
