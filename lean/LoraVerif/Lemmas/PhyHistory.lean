import LoraVerif.Lemmas.PhyApi
/-!
# One API call / one adapter call preserves the invariant, in terms of `apiStep` / `adapterStep`

The per-program lemmas of `Lemmas/PhyApi.lean`, dispatched over the API alphabet and restated on the
interpreter level: fresh transcript, the call's environment (interrupt outcomes, fault, drop)
installed, the tracker fed with the call's transcript.
-/
namespace Model.Phy

/-- hypotheses on the parameters of a call: the `Err` that `listen` forwards when
`create_modulation_params` failed is not a TX/RX timeout report (it never is: that function returns
`Unavailable…` / `Invalid…` errors only) -/
def ApiCall.wf {μ : Type} : ApiCall μ → Prop
  | .listen _ (.error e) => Abort.infra (.err e)
  | _ => True

/-- the outcome is the radio's own failure report -/
def Out.timeout {α : Type} : Out α → Bool
  | .err .TransmitTimeout => true
  | .err .ReceiveTimeout => true
  | _ => false

section
variable {kind : Kind} {reg tcxo : Bool} {sb : Items} {Rdy : ChipTrack → Prop} {σ μ : Type} {rk : RadioKindOps σ μ}
variable (S : OpsSpec kind reg tcxo sb Rdy rk)
include S

theorem apiProg_inv (c : ApiCall μ) (hwf : c.wf) {d : DriverState σ} {t : ChipTrack} (h : Inv reg tcxo sb d t) :
    mwp kind (needsFor reg tcxo) (apiProg rk c) (fun _ d' t' => Inv reg tcxo sb d' t')
      (AbI4 reg tcxo sb (d.radioMode = .receive .continuous)) d t := by
  have weak : ∀ {α : Type} {m : M σ α}, mwp kind (needsFor reg tcxo) m (fun _ d' t' => Inv reg tcxo sb d' t')
        (fun a d' t' => Inv reg tcxo sb d' t' ∧ a.infra) d t →
      mwp kind (needsFor reg tcxo) m (fun _ d' t' => Inv reg tcxo sb d' t') (AbI4 reg tcxo sb (d.radioMode = .receive .continuous)) d t :=
    fun hm => mwp_mono hm (fun _ _ _ hq => hq) (fun _ _ _ he => AbI4.of_infra he.1 he.2)
  have weak2 : ∀ {α : Type} {m : M σ α}, mwp kind (needsFor reg tcxo) m (fun _ d' t' => Inv reg tcxo sb d' t') (AbI4 reg tcxo sb False) d t →
      mwp kind (needsFor reg tcxo) m (fun _ d' t' => Inv reg tcxo sb d' t') (AbI4 reg tcxo sb (d.radioMode = .receive .continuous)) d t :=
    fun hm => mwp_mono hm (fun _ _ _ hq => hq) (fun _ _ _ he => ⟨he.1, fun ht _ => he.2 ht (fun f => f)⟩)
  cases c with
  | init => exact mwp_bind (mwp_mono (weak (init_inv S h.clean)) (fun _ _ _ hq => mwp_pure hq) (fun _ _ _ he => he))
  | sleep warm => exact mwp_bind (mwp_mono (weak (sleep_inv S warm h)) (fun _ _ _ hq => mwp_pure hq) (fun _ _ _ he => he))
  | prepareForTx m pkt power payload =>
    exact mwp_bind (mwp_mono (weak (mwp_mono (prepareForTx_inv S m pkt power payload h) (fun _ _ _ hq => hq.1) (fun _ _ _ he => he)))
      (fun _ _ _ hq => mwp_pure hq) (fun _ _ _ he => he))
  | tx => exact mwp_bind (mwp_mono (weak2 (tx_inv S _ h)) (fun _ _ _ hq => mwp_pure hq) (fun _ _ _ he => he))
  | prepareForRx mode m pkt =>
    exact mwp_bind (mwp_mono (weak (mwp_mono (prepareForRx_inv S mode m pkt h) (fun _ _ _ hq => hq.1) (fun _ _ _ he => he)))
      (fun _ _ _ hq => mwp_pure hq) (fun _ _ _ he => he))
  | startRx =>
    exact mwp_bind (mwp_mono (weak (mwp_mono (startRx_inv S h) (fun _ _ _ hq => hq.1) (fun _ _ _ he => he)))
      (fun _ _ _ hq => mwp_pure hq) (fun _ _ _ he => he))
  | completeRx pkt k =>
    exact mwp_bind (mwp_mono (completeRx_inv S pkt _ _ h) (fun _ _ _ hq => mwp_pure hq) (fun _ _ _ he => he))
  | rx pkt k =>
    exact mwp_bind (mwp_mono (rx_inv S pkt _ _ h) (fun _ _ _ hq => mwp_pure hq) (fun _ _ _ he => he))
  | rxSwitchChannel f =>
    exact mwp_bind (mwp_mono (weak (rxSwitchChannel_inv S f h)) (fun _ _ _ hq => mwp_pure hq) (fun _ _ _ he => he))
  | listen f m =>
    have hw : ∀ e, m = .error e → Abort.infra (.err e) := by
      intro e he; subst he; exact hwf
    exact mwp_bind (mwp_mono (weak (listen_inv S f m hw h)) (fun _ _ _ hq => mwp_pure hq) (fun _ _ _ he => he))
  | prepareForCad m =>
    exact mwp_bind (mwp_mono (weak (prepareForCad_inv S m h)) (fun _ _ _ hq => mwp_pure hq) (fun _ _ _ he => he))
  | cad m => exact mwp_bind (mwp_mono (weak2 (cad_inv S m h)) (fun _ _ _ hq => mwp_pure hq) (fun _ _ _ he => he))
  | setLoraSyncWord w =>
    exact mwp_bind (mwp_mono (weak (setLoraSyncWord_inv S w h)) (fun _ _ _ hq => mwp_pure hq) (fun _ _ _ he => he))

/-- **One API call.**  From a state satisfying the invariant, for every call (with well-formed
parameters), every chip content, every interrupt outcome, a fault at any I/O step and a drop at any
`await_irq`: the invariant holds afterwards for the tracker fed with the call's transcript, and if
the call reports the radio's own timeout (and was not a continuous reception) driver and chip are in
standby. -/
theorem apiStep_inv (c : ApiCall μ) (hwf : c.wf) (env : Env) (d : DriverState σ) (w : World) (t : ChipTrack)
    (h : Inv reg tcxo sb d t) :
    Inv reg tcxo sb (apiStep rk c env (d, w)).2.1 (track kind (needsFor reg tcxo) t (apiStep rk c env (d, w)).2.2.log) ∧
    ((apiStep rk c env (d, w)).1.timeout = true → d.radioMode ≠ .receive .continuous →
      (apiStep rk c env (d, w)).2.1.radioMode = .standby ∧
      (track kind (needsFor reg tcxo) t (apiStep rk c env (d, w)).2.2.log).mode = .standby) := by
  have key := apiProg_inv S c hwf h t
    { chip := { w.chip with irqScript := env.irq, irqDefault := env.irqDefault }, log := [], step := 0,
      fault := env.fault, pendAt := env.pendAt } rfl
  unfold apiStep
  simp only
  generalize apiProg rk c (d, _) = r at key
  obtain ⟨o, d', w'⟩ := r
  cases o with
  | ok a => exact ⟨key, fun ht => by simp [Out.timeout] at ht⟩
  | err e =>
    refine ⟨key.1, fun ht hc => key.2 ?_ hc⟩
    cases e <;> simp_all [Out.timeout, Abort.timeout]
  | panic s => exact ⟨key.1, fun ht => by simp [Out.timeout] at ht⟩
  | dropped => exact ⟨key.1, fun ht => by simp [Out.timeout] at ht⟩

/-! ### the LoRaWAN adapter -/

/-- the adapter reports the radio's own failure: an `Err(Transmit/ReceiveTimeout)`, or `RxTimeout` -/
def adapterTimeout : Out (AdapterResult × AdapterState) → Bool
  | .err .TransmitTimeout => true
  | .err .ReceiveTimeout => true
  | .ok (.rxTimeout, _) => true
  | _ => false

theorem adapterProg_inv (a : AdapterState) (c : AdapterCall μ) {d : DriverState σ} {t : ChipTrack} (h : Inv reg tcxo sb d t) :
    mwp kind (needsFor reg tcxo) (adapterProg rk a c)
      (fun r d' t' => Inv reg tcxo sb d' t' ∧
        (r.1 = .rxTimeout → d.radioMode ≠ .receive .continuous → d'.radioMode = .standby ∧ t'.mode = .standby))
      (AbI4 reg tcxo sb (d.radioMode = .receive .continuous)) d t := by
  cases c with
  | tx m pkt power payload =>
    refine mwp_bind (mwp_mono (prepareForTx_inv S m pkt power payload h) (fun _ d1 t1 h1 => ?_)
      (fun _ _ _ he => AbI4.of_infra he.1 he.2))
    refine mwp_bind (mwp_mono (tx_inv S _ h1.1) (fun _ _ _ hq => mwp_pure ⟨hq, fun hx => by simp at hx⟩)
      (fun _ _ _ he => ⟨he.1, fun ht _ => he.2 ht (fun f => f)⟩))
  | setupRx mode m pkt =>
    refine mwp_bind (mwp_mono (prepareForRx_inv S mode m pkt h) (fun _ _ _ hq => mwp_pure ⟨hq.1, fun hx => by simp at hx⟩)
      (fun _ _ _ he => AbI4.of_infra he.1 he.2))
  | rxSingle k =>
    unfold adapterProg
    cases a.rxPkt with
    | none => exact mwp_pure ⟨h, fun hx => by simp at hx⟩
    | some pkt =>
      simp only
      refine mwp_bind (mwp_attempt (mwp_mono (rx_inv S pkt _ _ h) (fun r d1 t1 hq => ?_) (fun ab d1 t1 he => ?_)))
      · exact mwp_pure ⟨hq, fun hx => by simp at hx⟩
      · cases ab with
        | err e =>
          by_cases hto : e = .ReceiveTimeout
          · subst hto
            exact mwp_pure ⟨he.1, fun _ hc => he.2 rfl hc⟩
          · have : mwp kind (needsFor reg tcxo) (M.throw e : M σ (AdapterResult × AdapterState))
                (fun r d' t' => Inv reg tcxo sb d' t' ∧
                  (r.1 = .rxTimeout → d.radioMode ≠ .receive .continuous → d'.radioMode = .standby ∧ t'.mode = .standby))
                (AbI4 reg tcxo sb (d.radioMode = .receive .continuous)) d1 t1 := mwp_throw he
            cases e <;> first | exact this | exact absurd rfl hto
        | panic => exact he
        | dropped => exact he
  | rxContinuous k =>
    unfold adapterProg
    cases a.rxPkt with
    | none => exact mwp_pure ⟨h, fun hx => by simp at hx⟩
    | some pkt =>
      simp only
      exact mwp_bind (mwp_mono (rx_inv S pkt _ _ h) (fun _ _ _ hq => mwp_pure ⟨hq, fun hx => by simp at hx⟩) (fun _ _ _ he => he))
  | lowPower =>
    refine mwp_bind (mwp_mono (sleep_inv S false h) (fun _ _ _ hq => mwp_pure ⟨hq, fun hx => by simp at hx⟩)
      (fun _ _ _ he => AbI4.of_infra he.1 he.2))

/-- **One adapter call** (`LorawanRadio::tx / setup_rx / rx_single / rx_continuous / low_power`). -/
theorem adapterStep_inv (a : AdapterState) (c : AdapterCall μ) (env : Env) (d : DriverState σ) (w : World) (t : ChipTrack)
    (h : Inv reg tcxo sb d t) :
    Inv reg tcxo sb (adapterStep rk a c env (d, w)).2.1 (track kind (needsFor reg tcxo) t (adapterStep rk a c env (d, w)).2.2.log) ∧
    (adapterTimeout (adapterStep rk a c env (d, w)).1 = true → d.radioMode ≠ .receive .continuous →
      (adapterStep rk a c env (d, w)).2.1.radioMode = .standby ∧
      (track kind (needsFor reg tcxo) t (adapterStep rk a c env (d, w)).2.2.log).mode = .standby) := by
  have key := adapterProg_inv S a c h t
    { chip := { w.chip with irqScript := env.irq, irqDefault := env.irqDefault }, log := [], step := 0,
      fault := env.fault, pendAt := env.pendAt } rfl
  unfold adapterStep
  simp only
  generalize adapterProg rk a c (d, _) = r at key
  obtain ⟨o, d', w'⟩ := r
  cases o with
  | ok r =>
    refine ⟨key.1, fun ht hc => key.2 ?_ hc⟩
    obtain ⟨r1, r2⟩ := r
    cases r1 <;> simp_all [adapterTimeout]
  | err e =>
    refine ⟨key.1, fun ht hc => key.2 ?_ hc⟩
    cases e <;> simp_all [adapterTimeout, Abort.timeout]
  | panic s => exact ⟨key.1, fun ht => by simp [adapterTimeout] at ht⟩
  | dropped => exact ⟨key.1, fun ht => by simp [adapterTimeout] at ht⟩

end
end Model.Phy
