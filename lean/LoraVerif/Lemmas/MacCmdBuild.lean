import LoraVerif.Model.MacCmdCreators
import LoraVerif.Lemmas.MacCmdIter
/-! Framing of built command sequences and `build_mac_commands` (used by `Props/C19`). -/
namespace MacCmd

/-- `c` followed by `tail` is framed as exactly `c` by `parse_one` -/
def WellFramed (T : Table) (vl : VarLen) (c : Cmd) (tail : Bytes) : Prop :=
  parseOne T vl (c.wire ++ tail) = .ok (.ok (c, c.wire.length))

/-- a command of a fixed-length entry is framed correctly whatever follows -/
theorem wellFramed_fixed {T : Table} {vl : VarLen} {c : Cmd} {e : Entry} (hl : T.lookup c.cid = some e)
    (hlen : e.len = some c.payload.length) (hv : c.variant = e.variant) (hp : c.payloadTy = e.payload) (tail : Bytes) :
    WellFramed T vl c tail := by
  unfold WellFramed
  show parseOne T vl (c.cid :: (c.payload ++ tail)) = _
  have hnl : ¬ ((c.cid :: (c.payload ++ tail)).length < 1 + c.payload.length) := by simp; omega
  simp only [parseOne, index_cons_zero, Outcome.ok_bind, hl, hlen, hnl, if_false]
  rw [slice_ok (by omega) (by simp; omega)]
  simp only [Outcome.ok_bind, List.drop_succ_cons, List.drop_zero, Nat.add_sub_cancel_left, List.take_left', Cmd.wire,
    List.length_cons]
  cases c
  simp_all [Nat.add_comm]

theorem runFuel_cons {T : Table} {vl : VarLen} {c : Cmd} {tail : Bytes} (h : WellFramed T vl c tail) (fuel : Nat) :
    runFuel T vl (fuel + 1) { data := c.wire ++ tail, errored := false } =
      (runFuel T vl fuel { data := tail, errored := false }).bind (fun r => .ok { r with items := .cmd c :: r.items }) := by
  unfold WellFramed at h
  simp only [runFuel, next, Bool.false_or]
  rw [if_neg (by simp [Cmd.wire])]
  simp only [h, Outcome.ok_bind]
  rw [sliceFrom_ok (by simp)]
  simp only [Outcome.ok_bind, List.drop_left']
  rfl

/-- every suffix position is well framed -/
def AllFramed (T : Table) (vl : VarLen) : List Cmd → Prop
  | [] => True
  | c :: cs => WellFramed T vl c (cs.map Cmd.wire).flatten ∧ AllFramed T vl cs

/-- **parse ∘ buildSeq = id**: the iterator over the concatenated wire bytes of a list of well-framed commands yields
exactly that list, consumes everything and reports no error. -/
theorem run_flatten {T : Table} {vl : VarLen} (cs : List Cmd) (h : AllFramed T vl cs) (fuel : Nat) (hf : cs.length < fuel) :
    runFuel T vl fuel { data := (cs.map Cmd.wire).flatten, errored := false } =
      .ok { items := cs.map Item.cmd, final := { data := [], errored := false }, hang := false } := by
  induction cs generalizing fuel with
  | nil =>
    cases fuel with
    | zero => simp at hf
    | succ fuel => simp [runFuel, next]
  | cons c cs ih =>
    cases fuel with
    | zero => simp at hf
    | succ fuel =>
      simp only [List.map_cons, List.flatten_cons]
      rw [runFuel_cons h.1, ih h.2 fuel (by simp at hf; omega)]
      rfl

theorem flatten_length_ge (cs : List Cmd) : cs.length ≤ ((cs.map Cmd.wire).flatten).length := by
  induction cs with
  | nil => simp
  | cons c cs ih =>
    simp only [List.map_cons, List.flatten_cons, List.length_append, Cmd.wire, List.length_cons] at ih ⊢; omega

theorem run_flatten' {T : Table} {vl : VarLen} (cs : List Cmd) (h : AllFramed T vl cs) :
    run T vl (cs.map Cmd.wire).flatten =
      .ok { items := cs.map Item.cmd, final := { data := [], errored := false }, hang := false } := by
  unfold run
  exact run_flatten cs h _ (by have := flatten_length_ge cs; omega)


/-- a McGroupStatusAns whose payload is `status ‖ 5 octets per bit of AnsGroupMask` is framed correctly whatever follows -/
theorem wellFramed_groupStatus {T : Table} {c : Cmd} {e : Entry} (hl : T.lookup c.cid = some e) (hlen : e.len = none)
    (hv : c.variant = e.variant) (hp : c.payloadTy = e.payload) (hty : e.payload = "McGroupStatusAnsPayload")
    (status : Nat) (items : Bytes) (hpl : c.payload = status :: items) (hil : items.length = mcGroupStatusRequiredLen status)
    (tail : Bytes) : WellFramed T varLen c tail := by
  unfold WellFramed
  show parseOne T varLen (c.cid :: (c.payload ++ tail)) = _
  simp only [parseOne, index_cons_zero, Outcome.ok_bind, hl, hlen]
  rw [sliceFrom_ok (by simp)]
  simp only [Outcome.ok_bind, List.drop_succ_cons, List.drop_zero, hpl, List.cons_append, List.isEmpty_cons, hty, varLen,
    index_cons_zero]
  have hnl : ¬ ((status :: (items ++ tail)).length < 1 + mcGroupStatusRequiredLen status) := by simp; omega
  simp only [Bool.false_eq_true, if_false, hnl]
  rw [slice_ok (by omega) (by simp; omega)]
  simp only [Outcome.ok_bind, List.drop_zero, Nat.sub_zero, Cmd.wire, hpl, List.length_cons]
  have ht : List.take (1 + mcGroupStatusRequiredLen status) (status :: (items ++ tail)) = status :: items := by
    rw [Nat.add_comm, List.take_succ_cons, ← hil, List.take_left']
    rfl
  rw [ht]
  cases c
  simp_all [Nat.add_comm]

/-- a to-the-end command (TS009 TxFramesCtrlReq / EchoPayload) with a non-empty payload is framed correctly at the end of a stream -/
theorem wellFramed_greedy {T : Table} {c : Cmd} {e : Entry} (hl : T.lookup c.cid = some e) (hlen : e.len = none)
    (hv : c.variant = e.variant) (hp : c.payloadTy = e.payload)
    (hty : e.payload = "TxFramesCtrlReqPayload" ∨ e.payload = "EchoIncPayloadReqPayload" ∨ e.payload = "EchoIncPayloadAnsPayload")
    (hne : c.payload ≠ []) : WellFramed T varLen c [] := by
  unfold WellFramed
  show parseOne T varLen (c.cid :: (c.payload ++ [])) = _
  obtain ⟨x, xs, hx⟩ := List.exists_cons_of_ne_nil hne
  have hvl : varLen e.payload (x :: xs) = .ok (x :: xs).length := by
    rcases hty with h | h | h <;> rw [h] <;> simp [varLen]
  simp only [parseOne, index_cons_zero, Outcome.ok_bind, hl, hlen, List.append_nil]
  rw [sliceFrom_ok (by simp)]
  simp only [Outcome.ok_bind, List.drop_succ_cons, List.drop_zero, hx, List.isEmpty_cons, hvl, Bool.false_eq_true, if_false,
    Nat.lt_irrefl]
  rw [slice_ok (by omega) (by simp)]
  simp only [Outcome.ok_bind, List.drop_zero, Nat.sub_zero, List.take_length, Cmd.wire, hx, List.length_cons]
  cases c
  simp_all [Nat.add_comm]

/-! ### `build_mac_commands` -/

theorem macCommandsLen_go (cmds : List Bytes) (h : ∀ b ∈ cmds, b ≠ []) (acc : Nat) :
    cmds.foldlM (fun acc b => do
      let pl ← (if 1 ≤ b.length then .ok (b.length - 1) else .panic "payload_len: self.build().len() - 1" : Outcome Nat)
      .ok (acc + (pl + 1))) acc = .ok (acc + cmds.flatten.length) := by
  induction cmds generalizing acc with
  | nil => simp
  | cons b bs ih =>
    have hb : 1 ≤ b.length := by
      have := h b (by simp)
      cases b with
      | nil => exact absurd rfl this
      | cons x xs => simp
    simp only [List.foldlM_cons, hb, if_true, Outcome.ok_bind]
    show List.foldlM _ _ bs = _
    rw [ih (fun b' hb' => h b' (by simp [hb']))]
    simp only [List.flatten_cons, List.length_append]
    congr 1; omega

def writeAt (res : Bytes) (i : Nat) (src : Bytes) : Bytes := res.take i ++ src ++ res.drop (i + src.length)

theorem writeAt_length (res : Bytes) (i : Nat) (src : Bytes) (h : i + src.length ≤ res.length) :
    (writeAt res i src).length = res.length := by
  simp [writeAt]; omega

theorem take_writeAt (res : Bytes) (i : Nat) (src : Bytes) (h : i + src.length ≤ res.length) :
    (writeAt res i src).take (i + src.length) = res.take i ++ src := by
  have hl : (res.take i ++ src).length = i + src.length := by simp; omega
  exact List.take_left' hl

theorem drop_writeAt (res : Bytes) (i : Nat) (src : Bytes) (k : Nat) (h : i + src.length ≤ res.length) :
    (writeAt res i src).drop (i + src.length + k) = res.drop (i + src.length + k) := by
  have hl : (res.take i ++ src).length = i + src.length := by simp; omega
  calc (writeAt res i src).drop (i + src.length + k)
      = ((res.take i ++ src) ++ res.drop (i + src.length)).drop ((res.take i ++ src).length + k) := by rw [hl]; rfl
    _ = (res.drop (i + src.length)).drop k := List.drop_length_add_append k
    _ = res.drop (i + src.length + k) := by rw [List.drop_drop]

theorem writeAt_compose (res : Bytes) (i : Nat) (a b : Bytes) (h : i + a.length + b.length ≤ res.length) :
    writeAt (writeAt res i a) (i + a.length) b = writeAt res i (a ++ b) := by
  have h1 := take_writeAt res i a (by omega)
  have h2 := drop_writeAt res i a b.length (by omega)
  unfold writeAt at *
  rw [h1, h2]
  simp [List.append_assoc, Nat.add_assoc]

theorem set_then_copy (res : Bytes) (i cid : Nat) (payload : Bytes) (h : i + 1 + payload.length ≤ res.length) :
    (res.set i cid).take (i + 1) ++ payload ++ (res.set i cid).drop (i + 1 + payload.length) = writeAt res i (cid :: payload) := by
  have hi : i < res.length := by omega
  rw [List.set_eq_take_append_cons_drop, if_pos hi]
  have hl : (res.take i).length = i := by simp; omega
  have t1 : (res.take i ++ cid :: res.drop (i + 1)).take (i + 1) = res.take i ++ [cid] := by
    rw [List.take_append, hl]
    simp [List.take_of_length_le, hl]
  have t2 : (res.take i ++ cid :: res.drop (i + 1)).drop (i + 1 + payload.length) = res.drop (i + 1 + payload.length) := by
    rw [List.drop_append, hl]
    have : i + 1 + payload.length - i = (payload.length) + 1 := by omega
    rw [List.drop_of_length_le (by simp; omega), this]
    simp [List.drop_drop]
  rw [t1, t2]
  simp [writeAt, Nat.add_assoc, Nat.add_comm 1]

theorem buildLoop_ok (cmds : List Bytes) (h : ∀ b ∈ cmds, b ≠ []) (res : Bytes) (i : Nat)
    (hfit : i + cmds.flatten.length ≤ res.length) :
    buildLoop cmds res i = .ok (writeAt res i cmds.flatten, i + cmds.flatten.length) := by
  induction cmds generalizing res i with
  | nil => simp [buildLoop, writeAt]
  | cons b bs ih =>
    obtain ⟨cid, payload, rfl⟩ := List.exists_cons_of_ne_nil (h (b := b) (by simp))
    simp only [List.flatten_cons, List.length_append, List.length_cons] at hfit
    simp only [buildLoop, index_cons_zero, Outcome.ok_bind]
    rw [sliceFrom_ok (by simp)]
    simp only [Outcome.ok_bind, List.drop_succ_cons, List.drop_zero, setByte]
    rw [if_pos (by omega)]
    simp only [Outcome.ok_bind, copyInto, List.length_set]
    rw [if_pos ⟨by omega, by omega, by omega⟩]
    simp only [Outcome.ok_bind]
    have hlen : (cid :: payload).length = payload.length + 1 := rfl
    have e1 : (res.set i cid).take (i + 1) ++ payload ++ (res.set i cid).drop (i + 1 + payload.length)
          = writeAt res i (cid :: payload) := set_then_copy res i cid payload (by omega)
    rw [e1]
    have hw : (writeAt res i (cid :: payload)).length = res.length := writeAt_length _ _ _ (by rw [hlen]; omega)
    rw [ih (fun b' hb' => h b' (by simp [hb'])) _ _ (by rw [hw]; omega)]
    have e2 : i + 1 + payload.length = i + (cid :: payload).length := by rw [hlen]; omega
    rw [e2, writeAt_compose _ _ _ _ (by rw [hlen]; omega)]
    simp only [List.flatten_cons, List.length_append, hlen]
    congr 2
    omega

/-- **build_mac_commands** writes exactly the concatenation of the commands' bytes at the front of the buffer, or refuses
when they do not fit; it never panics (every command has at least its CID). -/
theorem buildMacCommands_eq (cmds : List Bytes) (h : ∀ b ∈ cmds, b ≠ []) (out : Bytes) :
    buildMacCommands cmds out =
      if cmds.flatten.length > out.length then .ok none
      else .ok (some (cmds.flatten ++ out.drop cmds.flatten.length, cmds.flatten.length)) := by
  unfold buildMacCommands macCommandsLen
  rw [macCommandsLen_go cmds h 0]
  simp only [Outcome.ok_bind, Nat.zero_add]
  split
  · rfl
  · rename_i hle
    rw [buildLoop_ok cmds h out 0 (by omega)]
    simp [writeAt]

end MacCmd
