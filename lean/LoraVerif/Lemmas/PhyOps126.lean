import LoraVerif.Lemmas.PhyCfg
/-!
# The SX126x `RadioKind` model satisfies `OpsSpec` (C14)

Every operation of `Model.Phy.Sx126x` that `LoRa` calls, for every configuration, parameter value,
chip answer, fault position and drop: its effect on the transcript tracker.
-/
namespace Model.Phy.Sx126x
open Gen.PhyCodes126

variable {n : Needs}

/-! ### the item each command programs, whatever its arguments -/

@[simp] theorem gain_SetRegulatorMode (args : Bytes) : gain126 (op .SetRegulatorMode) args = { regulator := true } := rfl
@[simp] theorem gain_SetDIO2AsRfSwitchCtrl (args : Bytes) : gain126 (op .SetDIO2AsRfSwitchCtrl) args = {} := rfl
@[simp] theorem gain_SetTCXOMode (args : Bytes) : gain126 (op .SetTCXOMode) args = { tcxo := true } := rfl
@[simp] theorem gain_Calibrate (args : Bytes) : gain126 (op .Calibrate) args = {} := rfl
@[simp] theorem gain_SetPacketType (args : Bytes) : gain126 (op .SetPacketType) args = { packetType := true } := rfl
@[simp] theorem gain_SetBufferBaseAddress (args : Bytes) : gain126 (op .SetBufferBaseAddress) args = { bufferBase := true } := rfl
@[simp] theorem gain_SetPAConfig (args : Bytes) : gain126 (op .SetPAConfig) args = {} := rfl
@[simp] theorem gain_SetTxParams (args : Bytes) : gain126 (op .SetTxParams) args = { pa := true } := rfl
@[simp] theorem gain_CfgDIOIrq (args : Bytes) : gain126 (op .CfgDIOIrq) args = { irq := true } := rfl
@[simp] theorem gain_SetModulationParams (args : Bytes) : gain126 (op .SetModulationParams) args = { modulation := true } := rfl
@[simp] theorem gain_SetPacketParams (args : Bytes) : gain126 (op .SetPacketParams) args = { packet := true } := rfl
@[simp] theorem gain_CalibrateImage (args : Bytes) : gain126 (op .CalibrateImage) args = {} := rfl
@[simp] theorem gain_SetRFFrequency (args : Bytes) : gain126 (op .SetRFFrequency) args = { frequency := true } := rfl
@[simp] theorem gain_SetLoRaSymbTimeout (args : Bytes) : gain126 (op .SetLoRaSymbTimeout) args = {} := rfl
@[simp] theorem gain_SetStopRxTimerOnPreamble (args : Bytes) : gain126 (op .SetStopRxTimerOnPreamble) args = {} := rfl
@[simp] theorem gain_SetCADParams (args : Bytes) : gain126 (op .SetCADParams) args = {} := rfl
@[simp] theorem gain_WriteBuffer (args : Bytes) : gain126 (op .WriteBuffer) args = {} := rfl
@[simp] theorem gain_ClearDeviceErrors (args : Bytes) : gain126 (op .ClearDeviceErrors) args = {} := rfl

/-! ### helpers -/

theorem cfg_regW8 (r : Register) (v : UInt8) : Cfg .sx126x n (regW8 r v) {} := by
  unfold regW8
  rw [addr1_ret]
  exact (cfg_write126 _ _ (by decide)).zero

theorem cfg_regR8 (r : Register) : Cfg .sx126x n (regR8 r) {} := by
  unfold regR8
  simp only [addr1_ret, Prog.ret_bind]
  exact Cfg.bind0 (cfg_read126 _ _ _ (by decide)) fun _ => Cfg.pure _

theorem cfg_ofOpt {α : Type} (s : String) (o : Option α) : Cfg .sx126x n (ofOpt s o) {} := by
  cases o
  · exact Cfg.panic _ _
  · exact Cfg.pure _

theorem cfg_errUnavailable {α : Type} (e : RadioError) (he : Abort.infra (.err e)) (o : Option α) :
    Cfg .sx126x n (errUnavailable e o) {} := by
  cases o
  · exact Cfg.fail _ _ he
  · exact Cfg.pure _

/-! ### configuration operations -/

theorem cfg_setLoraSyncWord (w : Nat) : Cfg .sx126x n (setLoraSyncWord w) { syncWord := true } := by
  unfold setLoraSyncWord
  rw [addr1_ret]
  exact cfg_writeP126 _ _ _ (by decide)

theorem cfg_setTxRxBufferBaseAddress (tx rx : Nat) : Cfg .sx126x n (setTxRxBufferBaseAddress tx rx) { bufferBase := true } := by
  unfold setTxRxBufferBaseAddress
  split
  · exact Cfg.fail _ _ rfl
  · exact cfg_write126 _ _ (by decide)

theorem cfg_addRegisterToRetentionList (r : Register) : Cfg .sx126x n (addRegisterToRetentionList r) {} := by
  unfold addRegisterToRetentionList
  simp only [addr1_ret]
  refine Cfg.bind0 (Cfg.ret _) fun l1 => ?_
  refine Cfg.bind0 (cfg_read126 _ _ _ (by decide)) fun buffer => ?_
  refine Cfg.bind0 (Cfg.ret _) fun a1 => ?_
  refine Cfg.bind0 (cfg_ofOpt _ _) fun k => ?_
  split
  · exact Cfg.panic _ _
  · exact Cfg.pure _
  · split
    · exact (cfg_writeP126 _ _ _ (by decide)).zero
    · exact Cfg.fail _ _ rfl

theorem cfg_updateRetentionList : Cfg .sx126x n updateRetentionList {} :=
  Cfg.bind0 (cfg_addRegisterToRetentionList _) fun _ => cfg_addRegisterToRetentionList _

theorem cfg_initLora (cfg : Config) (sw : Nat) :
    Cfg .sx126x n (initLora cfg sw) (baseItems cfg.useDcdc cfg.tcxo.isSome) := by
  unfold initLora
  dsimp only
  have tail : Cfg .sx126x n (do
      intfWrite [op OpCode.SetPacketType, byte PacketType.LoRa.value]
      setLoraSyncWord sw
      setTxRxBufferBaseAddress 0 0
      updateRetentionList) { packetType := true, syncWord := true, bufferBase := true } :=
    (Cfg.bind (cfg_write126 (op .SetPacketType) [byte (PacketType.value .LoRa)] (by decide)) fun _ =>
      Cfg.bind (cfg_setLoraSyncWord sw) fun _ =>
      Cfg.bind (cfg_setTxRxBufferBaseAddress 0 0) fun _ => cfg_updateRetentionList).weaken (by decide)
  split <;> rename_i h1 <;> split <;> rename_i h2 <;> split <;> rename_i h3 <;>
    (try simp only [Bool.not_eq_true] at h1) <;>
    simp only [h1, h3, Option.isSome] <;>
    repeat (first
      | decide
      | exact tail.weaken (by (try simp only [gain_SetRegulatorMode, gain_SetDIO2AsRfSwitchCtrl, gain_SetTCXOMode, gain_Calibrate]); decide)
      | refine Cfg.step (cfg_write126 _ _ ?_) (fun _ => ?_)
      | refine Cfg.step (cfg_readStatus126 _ _ _ ?_) (fun _ => ?_)
      | refine Cfg.step cfg_busy (fun _ => ?_))

theorem cfg_setPaConfig (a b c : UInt8) : Cfg .sx126x n (setPaConfig a b c) {} :=
  (cfg_write126 _ _ (by decide)).zero

theorem cfg_setTxPowerAndRampTime (cfg : Config) (p : Int) (f : Option Nat) (b : Bool) :
    Cfg .sx126x n (setTxPowerAndRampTime cfg p f b) { pa := true } := by
  unfold setTxPowerAndRampTime
  dsimp only
  have tail : Cfg .sx126x n (do
      let __x ← ofOpt "PaTable::lookup: empty table" (cfg.chip.paTable.lookup p)
      setPaConfig __x.fst.duty __x.fst.hpMax cfg.chip.deviceSel
      intfWrite [op OpCode.SetTxParams, __x.snd, byte (if b = true then RampTime.Ramp40Us else RampTime.Ramp200Us).value])
      { pa := true } :=
    Cfg.bind_r (cfg_ofOpt _ _) fun x => Cfg.bind_r (cfg_setPaConfig _ _ _) fun _ => cfg_write126 _ _ (by decide)
  split
  · exact Cfg.bind_r (cfg_regR8 _) fun _ => Cfg.bind_r (cfg_regW8 _ _) fun _ => tail
  · split
    · split
      · exact Cfg.fail _ _ rfl
      · exact tail
    · exact tail

theorem cfg_setIrqParams (m : Option RadioMode) : Cfg .sx126x n (setIrqParams m) { irq := true } := by
  unfold setIrqParams
  exact cfg_write126 _ _ (by decide)

theorem cfg_setModulationParams (m : ModulationParams) : Cfg .sx126x n (setModulationParams m) { modulation := true } := by
  unfold setModulationParams
  refine Cfg.bind_r (cfg_errUnavailable _ rfl _) fun sf => ?_
  refine Cfg.bind_r (cfg_errUnavailable _ rfl _) fun bw => ?_
  refine Cfg.bind_r (cfg_errUnavailable _ rfl _) fun cr => ?_
  refine Cfg.bind_l (cfg_write126 _ _ (by decide)) fun _ => ?_
  refine Cfg.bind0 (cfg_regR8 _) fun v => ?_
  split <;> exact cfg_regW8 _ _

theorem cfg_setPacketParams (p : PacketParams) : Cfg .sx126x n (setPacketParams p) { packet := true } := by
  unfold setPacketParams
  refine Cfg.bind_l (cfg_write126 _ _ (by decide)) fun _ => ?_
  refine Cfg.bind0 (cfg_regR8 _) fun v => ?_
  split <;> exact cfg_regW8 _ _

theorem cfg_calibrateImage (f : Nat) : Cfg .sx126x n (calibrateImage f) {} :=
  (cfg_write126 _ _ (by decide)).zero

theorem cfg_setChannel (f : Nat) : Cfg .sx126x n (setChannel f) { frequency := true } := by
  unfold setChannel
  exact Cfg.bind_r (cfg_ofOpt _ _) fun _ => cfg_write126 _ _ (by decide)

theorem cfg_setPayload (p : Bytes) : Cfg .sx126x n (setPayload p) {} :=
  (cfg_writeP126 _ _ _ (by decide)).zero

theorem cfg_setLoraSymbolNumTimeout (k : Nat) : Cfg .sx126x n (setLoraSymbolNumTimeout k) {} := by
  unfold setLoraSymbolNumTimeout
  refine Cfg.bind0 (cfg_write126 _ _ (by decide)).zero fun _ => ?_
  split
  · split
    · exact Cfg.panic _ _
    · exact cfg_regW8 _ _
  · exact Cfg.pure _


/-! ### wake-up, standby, sleep, reset -/

theorem spiStep126 (t : ChipTrack) (w : Bytes) : spiStep .sx126x n t w = step126 n t w := rfl

theorem opGetStatus : op .GetStatus = 0xC0 := by decide

theorem step_wake (t : ChipTrack) (hc : Clean t) (args : Bytes) :
    Ext t (spiStep .sx126x n t (op .GetStatus :: args)) ∧ Aw (spiStep .sx126x n t (op .GetStatus :: args)) := by
  show Ext t (step126 n t (op .GetStatus :: args)) ∧ Aw (step126 n t (op .GetStatus :: args))
  obtain ⟨c1, c2⟩ := hc
  rw [opGetStatus]
  cases hm : t.mode <;> simp +decide [step126, pre126, apply126, decode126, hm, Ext, Clean, NNS, Aw, c1, c2, Items.le_refl]

theorem ensureReady_spec (m : RadioMode) (t : ChipTrack) (hc : Clean t) (hl : Link m t) :
    wp .sx126x n (ensureReady m) (fun _ t' => Ext t t' ∧ Aw t') (fun a t' => Ext t t' ∧ a.infra) t := by
  have wake : wp .sx126x n (intfWrite [op .GetStatus, 0]) (fun _ t' => Ext t t' ∧ Aw t') (fun a t' => Ext t t' ∧ a.infra) t := by
    rw [wp_intfWrite]
    have := step_wake (n := n) t hc [0]
    exact ⟨⟨Ext.refl hc, rfl⟩, ⟨this.1, rfl⟩, this⟩
  have nowake : (m ≠ .sleep) → m.isDuty = false →
      wp .sx126x n (Prog.req .busy) (fun _ t' => Ext t t' ∧ Aw t') (fun a t' => Ext t t' ∧ a.infra) t := by
    intro h1 h2
    have aw : Aw t := ⟨fun hs => h1 (hl.1 hs), fun hs => (hl.2 hs).elim h1 (fun hd => by simp [h2] at hd)⟩
    rw [wp_req_plain _ _ (Or.inl rfl)]
    exact ⟨⟨Ext.refl hc, rfl⟩, Ext.refl hc, aw⟩
  unfold ensureReady
  cases m with
  | sleep => exact wake
  | receive rm =>
    cases rm with
    | dutyCycle a b => exact wake
    | single k => exact nowake (by simp) rfl
    | continuous => exact nowake (by simp) rfl
  | standby => exact nowake (by simp) rfl
  | frequencySynthesis => exact nowake (by simp) rfl
  | transmit => exact nowake (by simp) rfl
  | listen => exact nowake (by simp) rfl
  | cad => exact nowake (by simp) rfl

theorem opSetStandby : op .SetStandby = 0x80 := by decide

theorem setStandby_spec (t : ChipTrack) (hc : Clean t) (ha : Aw t) :
    wp .sx126x n setStandby (fun _ t' => Ext t t' ∧ Aw t' ∧ t'.mode = .standby ∧ Items.le {} t'.items) (fun a t' => Ext t t' ∧ a.infra) t := by
  unfold setStandby
  show wp .sx126x n (Prog.bind _ _) _ _ t
  rw [wp_bind, wp_intfWrite]
  have hs : spiStep .sx126x n t [op .SetStandby, byte (StandbyMode.value .RC)] = { t with mode := .standby } := by
    rw [spiStep126, step126_aw ha, opSetStandby]
    simp +decide [apply126, decode126]
  have e : Ext t { t with mode := .standby } := ⟨hc, Items.le_refl _, by simp [NNS]⟩
  rw [hs]
  refine ⟨⟨Ext.refl hc, rfl⟩, ⟨e, rfl⟩, ?_⟩
  rw [wp_req_plain _ _ (Or.inr (Or.inr (Or.inr rfl)))]
  exact ⟨⟨e, rfl⟩, e, ⟨by simp, by simp⟩, rfl, Items.none_le _⟩

theorem sleepValue (w : Bool) :
    SleepParams.value { wakeup_rtc := false, reset := false, warm_start := w } = some (if w then 4 else 0) := by
  cases w <;> decide

theorem opSetSleep : op .SetSleep = 0x84 := by decide

theorem setSleep_spec (warm : Bool) (t : ChipTrack) (hc : Clean t) (ha : Aw t) :
    wp .sx126x n (setSleep warm) (fun _ t' => Clean t' ∧ (warm = true → t.items.le t'.items)) (fun a t' => Ext t t' ∧ a.infra) t := by
  unfold setSleep
  simp only [sleepValue, ofOpt, Prog.pure_bind]
  show wp .sx126x n (Prog.bind _ _) _ _ t
  rw [wp_bind, wp_req_plain _ _ (Or.inr (Or.inr (Or.inr rfl)))]
  refine ⟨⟨Ext.refl hc, rfl⟩, ?_⟩
  show wp .sx126x n (Prog.bind _ _) _ _ t
  rw [wp_bind, wp_intfWriteSleep]
  refine ⟨⟨Ext.refl hc, rfl⟩, ?_⟩
  rw [wp_delay]
  show Clean (step126 n t _) ∧ (warm = true → t.items.le (step126 n t _).items)
  rw [step126_aw ha, opSetSleep]
  obtain ⟨c1, c2⟩ := hc
  cases warm <;> simp +decide [apply126, decode126, Clean, c1, c2, Items.le_refl]

theorem reset_spec (t : ChipTrack) (hc : Clean t) :
    wp .sx126x n reset (fun _ t' => Clean t') (fun a t' => Clean t' ∧ a.infra) t := by
  unfold reset
  rw [wp_reset]
  exact ⟨⟨hc, rfl⟩, hc⟩

/-! ### the starts -/

theorem opSetTx : op .SetTx = 0x83 := by decide
theorem opSetRx : op .SetRx = 0x82 := by decide
theorem opSetRxDutyCycle : op .SetRxDutyCycle = 0x94 := by decide
theorem opSetCAD : op .SetCAD = 0xC5 := by decide

theorem start_ext {t : ChipTrack} (hc : Clean t) {m : ChipMode} {need : Items} (hn : need.le t.items)
    (hm : m ≠ .sleep ∧ m ≠ .rxDuty) : Ext t (start t m need) := by
  obtain ⟨c1, c2⟩ := hc
  have := (Items.covers_iff t.items need).2 hn
  exact ⟨⟨c1, by simp [start, c2, this]⟩, Items.le_refl _, fun h => absurd h hm.1, fun h => absurd h hm.2⟩

theorem doTx_spec (t : ChipTrack) (hc : Clean t) (ha : Aw t) (hi : n.tx.le t.items) :
    wp .sx126x n doTx (fun _ t' => Ext t t') (fun a t' => Ext t t' ∧ a.infra) t := by
  unfold doTx
  show wp .sx126x n (Prog.bind _ _) _ _ t
  rw [wp_bind, wp_req_plain _ _ (Or.inr (Or.inr (Or.inl rfl)))]
  refine ⟨⟨Ext.refl hc, rfl⟩, ?_⟩
  rw [wp_intfWrite]
  have hs : spiStep .sx126x n t [op .SetTx, timeout1 0, timeout2 0, timeout3 0] = start t .tx n.tx := by
    rw [spiStep126, step126_aw ha, opSetTx]
    simp +decide [apply126, decode126]
  rw [hs]
  have e := start_ext hc hi (m := .tx) (by simp)
  exact ⟨⟨Ext.refl hc, rfl⟩, ⟨e, rfl⟩, e⟩

theorem doRx_spec (cfg : Config) (m : RxMode) (t : ChipTrack) (hc : Clean t) (ha : Aw t) (hi : n.rx.le t.items) :
    wp .sx126x n (doRx cfg m) (fun _ t' => Clean t' ∧ t.items.le t'.items ∧ Link (.receive m) t')
      (fun a t' => (Clean t' ∧ t.items.le t'.items ∧ Link (.receive m) t') ∧ a.infra) t := by
  have ofExt : ∀ t', Ext t t' → Clean t' ∧ t.items.le t'.items ∧ Link (.receive m) t' :=
    fun t' e => ⟨e.clean, e.items, Link.of_aw (e.aw ha)⟩
  unfold doRx
  refine wp_cfg_bind (cfg_plain (Or.inr (Or.inl rfl))) hc ha (fun _ t1 e1 _ => ?_) (fun a t' e h => ⟨ofExt _ e, h⟩)
  refine wp_cfg_bind (cfg_write126 _ _ (by decide)) e1.clean (e1.aw ha) (fun _ t2 e2 _ => ?_)
    (fun a t' e h => ⟨ofExt _ (e1.trans e), h⟩)
  have e02 := e1.trans e2
  refine wp_cfg_bind (cfg_setLoraSymbolNumTimeout _) e2.clean (e02.aw ha) (fun _ t3 e3 _ => ?_)
    (fun a t' e h => ⟨ofExt _ (e02.trans e), h⟩)
  have e03 := e02.trans e3
  refine wp_cfg_bind (cfg_regW8 _ _) e3.clean (e03.aw ha) (fun _ t4 e4 _ => ?_)
    (fun a t' e h => ⟨ofExt _ (e03.trans e), h⟩)
  have e04 := e03.trans e4
  have a4 := e04.aw ha
  have hi4 : n.rx.le t4.items := e04.le hi
  cases m with
  | single k =>
    simp only
    rw [wp_intfWrite]
    have hs : spiStep .sx126x n t4 [op .SetRx, timeout1 0, timeout2 0, timeout3 0] = start t4 .rx n.rx := by
      rw [spiStep126, step126_aw a4, opSetRx]
      simp +decide [apply126, decode126]
    rw [hs]
    have e := e04.trans (start_ext e4.clean hi4 (m := .rx) (by simp))
    exact ⟨⟨ofExt _ e04, rfl⟩, ⟨ofExt _ e, rfl⟩, ofExt _ e⟩
  | continuous =>
    simp only
    rw [wp_intfWrite]
    have hs : spiStep .sx126x n t4 [op .SetRx, timeout1 RX_CONTINUOUS_TIMEOUT, timeout2 RX_CONTINUOUS_TIMEOUT,
        timeout3 RX_CONTINUOUS_TIMEOUT] = start t4 .rx n.rx := by
      rw [spiStep126, step126_aw a4, opSetRx]
      simp +decide [apply126, decode126]
    rw [hs]
    have e := e04.trans (start_ext e4.clean hi4 (m := .rx) (by simp))
    exact ⟨⟨ofExt _ e04, rfl⟩, ⟨ofExt _ e, rfl⟩, ofExt _ e⟩
  | dutyCycle rx sl =>
    simp only
    rw [wp_intfWrite]
    have hs : spiStep .sx126x n t4 [op .SetRxDutyCycle, timeout1 rx, timeout2 rx, timeout3 rx, timeout1 sl, timeout2 sl,
        timeout3 sl] = start t4 .rxDuty n.rx := by
      rw [spiStep126, step126_aw a4, opSetRxDutyCycle]
      simp +decide [apply126, decode126]
    rw [hs]
    have cov := (Items.covers_iff t4.items n.rx).2 hi4
    have post : Clean (start t4 .rxDuty n.rx) ∧ t.items.le (start t4 .rxDuty n.rx).items ∧
        Link (.receive (.dutyCycle rx sl)) (start t4 .rxDuty n.rx) := by
      refine ⟨⟨e4.clean.1, by simp [start, e4.clean.2, cov]⟩, e04.items, ?_, ?_⟩
      · intro h; simp [start] at h
      · intro _; exact Or.inr rfl
    exact ⟨⟨ofExt _ e04, rfl⟩, ⟨post, rfl⟩, post⟩

theorem doCad_spec (cfg : Config) (m : ModulationParams) (t : ChipTrack) (hc : Clean t) (ha : Aw t) (hi : n.cad.le t.items) :
    wp .sx126x n (doCad cfg m) (fun _ t' => Ext t t') (fun a t' => Ext t t' ∧ a.infra) t := by
  unfold doCad
  refine wp_cfg_bind (cfg_plain (Or.inr (Or.inl rfl))) hc ha (fun _ t1 e1 _ => ?_) (fun a t' e h => ⟨e, h⟩)
  refine wp_cfg_bind (cfg_regW8 _ _) e1.clean (e1.aw ha) (fun _ t2 e2 _ => ?_) (fun a t' e h => ⟨e1.trans e, h⟩)
  have e02 := e1.trans e2
  refine wp_cfg_bind (cfg_errUnavailable _ rfl _) e2.clean (e02.aw ha) (fun sf t3 e3 _ => ?_) (fun a t' e h => ⟨e02.trans e, h⟩)
  have e03 := e02.trans e3
  split
  · exact ⟨e03, rfl⟩
  · refine wp_cfg_bind (cfg_write126 _ _ (by decide)) e3.clean (e03.aw ha) (fun _ t4 e4 _ => ?_) (fun a t' e h => ⟨e03.trans e, h⟩)
    have e04 := e03.trans e4
    rw [wp_intfWrite]
    have hs : spiStep .sx126x n t4 [op .SetCAD] = start t4 .cad n.cad := by
      rw [spiStep126, step126_aw (e04.aw ha), opSetCAD]
      simp +decide [apply126, decode126]
    rw [hs]
    have e := e04.trans (start_ext e4.clean (e04.le hi) (m := .cad) (by simp))
    exact ⟨⟨e04, rfl⟩, ⟨e, rfl⟩, e⟩


/-! ### interrupt servicing and packet read-out: the tracker stays where it is -/

/-- an interrupt-service command reaching a chip that is not in `sleep` -/
theorem step126_ro (t : ChipTrack) (h : t.mode ≠ .sleep) (o : UInt8) (args : Bytes)
    (hs : isIrqService126 o = true) (hd : decode126 o = .other) (hw : (o == 0xC0) = false) :
    spiStep .sx126x n t (o :: args) = t := by
  rw [spiStep126]
  cases hm : t.mode <;> simp_all [step126, pre126, apply126]

/-- a register write (not the sync word) reaching an awake chip -/
theorem step126_regw (t : ChipTrack) (ha : Aw t) (a1 : UInt8) (rest : Bytes) (h : a1 ≠ 0x07) :
    spiStep .sx126x n t (op .WriteRegister :: a1 :: rest) = t := by
  rw [spiStep126, step126_aw ha]
  have : decode126 (op .WriteRegister) = .writeRegister := by decide
  simp only [apply126, this]
  split
  · rename_i heq; simp at heq; exact absurd heq.1 h
  · rfl

theorem step126_regr (t : ChipTrack) (h : t.mode ≠ .sleep) (args : Bytes) :
    spiStep .sx126x n t (op .ReadRegister :: args) = t :=
  step126_ro t h _ _ (by decide) (by decide) (by decide)

section
variable {A : Abort → Prop} (hA : ∀ a, a.infra → A a)
include hA

theorem ro_regR8 (r : Register) (t : ChipTrack) (h : t.mode ≠ .sleep) : RO .sx126x n A (regR8 r) t := by
  unfold regR8
  simp only [addr1_ret, Prog.ret_bind]
  exact RO.bind (RO.read (step126_regr t h _) (hA _ rfl) (hA _ rfl)) fun _ => RO.pure _ _

theorem ro_regW8 (r : Register) (v : UInt8) (t : ChipTrack) (ha : Aw t) (h : byte (Register.toInt r / 256) ≠ 0x07) :
    RO .sx126x n A (regW8 r v) t := by
  unfold regW8
  simp only [addr1_ret, Prog.ret_bind]
  exact RO.write (step126_regw t ha _ _ h) (hA _ rfl) (hA _ rfl)

theorem ro_handleImplicitHeaderMode (t : ChipTrack) (ha : Aw t) : RO .sx126x n A handleImplicitHeaderMode t := by
  unfold handleImplicitHeaderMode
  refine RO.bind (ro_regW8 hA _ _ t ha (by decide)) fun _ => ?_
  refine RO.bind (ro_regR8 hA _ t ha.1) fun _ => ?_
  exact ro_regW8 hA _ _ t ha (by decide)

theorem ro_getRxPayload (p : PacketParams) (b : Bytes) (t : ChipTrack) (h : t.mode ≠ .sleep) :
    RO .sx126x n A (getRxPayload p b) t := by
  unfold getRxPayload
  dsimp only
  refine RO.bind (RO.readStatus (step126_ro t h _ _ (by decide) (by decide) (by decide)) (hA _ rfl) (hA _ rfl)) fun x => ?_
  have rd : ∀ k, RO .sx126x n A (do
      let data ← intfRead [op OpCode.ReadBuffer, UInt8.ofNat (byteAt x.snd 1), 0] k
      pure (k, data ++ List.drop k b)) t := fun k =>
    RO.bind (RO.read (step126_ro t h _ _ (by decide) (by decide) (by decide)) (hA _ rfl) (hA _ rfl)) fun _ => RO.pure _ _
  split
  · exact RO.fail _ _ (hA _ rfl)
  · split
    · refine RO.bind (RO.bind (ro_regR8 hA _ t h) fun _ => RO.pure _ _) fun k => ?_
      split
      · exact RO.fail _ _ (hA _ rfl)
      · exact rd _
    · refine RO.bind (RO.pure _ _) fun k => ?_
      split
      · exact RO.fail _ _ (hA _ rfl)
      · exact rd _

theorem ro_getRxPacketStatus (t : ChipTrack) (h : t.mode ≠ .sleep) :
    RO .sx126x n A (do let _ ← getRxPacketStatus; pure ()) t := by
  unfold getRxPacketStatus
  dsimp only
  refine RO.bind (RO.bind (RO.readStatus (step126_ro t h _ _ (by decide) (by decide) (by decide)) (hA _ rfl) (hA _ rfl)) fun x => ?_)
    fun _ => RO.pure _ _
  repeat' split
  all_goals first
    | exact RO.fail _ _ (hA _ rfl)
    | exact RO.panic _ _ (hA _ rfl)
    | exact RO.pure _ _

end

theorem decideIrq_noio (m : RadioMode) (c : Option Bool) (flags : Nat) :
    (∃ v, decideIrq m c flags = .ret v) ∨ (∃ e, decideIrq m c flags = .fail e) ∨ (∃ s, decideIrq m c flags = .panic s) := by
  unfold decideIrq
  cases m <;> simp only [] <;> (repeat' split) <;> simp [pure]

theorem ro_processIrqEvent (m : RadioMode) (c : Option Bool) (cl : Bool) (t : ChipTrack)
    (h : t.mode ≠ .sleep) (hd : t.mode = .rxDuty → m.isSingle = false) :
    RO .sx126x n (fun _ => True) (processIrqEvent m c cl) t := by
  have hA : ∀ a : Abort, a.infra → (fun _ : Abort => True) a := fun _ _ => trivial
  unfold processIrqEvent
  dsimp only
  have fin : ∀ st : Except RadioError (Option IrqState × Option Bool),
      RO .sx126x n (fun _ => True) (match st with | .ok v => pure v | .error e => Prog.fail e) t := by
    intro st; cases st
    · exact RO.fail _ _ trivial
    · exact RO.pure _ _
  have mid : ∀ st : Except RadioError (Option IrqState × Option Bool),
      RO .sx126x n (fun _ => True)
        (match m, st with
          | .receive (.single _), .ok (some .done, _) => do
            handleImplicitHeaderMode
            match st with
              | .ok v => pure v
              | .error e => Prog.fail e
          | _, _ =>
            match st with
            | .ok v => pure v
            | .error e => Prog.fail e) t := by
    intro st
    split
    · have aw : Aw t := ⟨h, fun hx => by simpa [RadioMode.isSingle] using hd hx⟩
      exact RO.bind (ro_handleImplicitHeaderMode hA t aw) fun _ => RO.pure _ _
    · exact fin _
  refine RO.bind ?_ fun st => ?_
  · unfold getIrqStateE
    refine RO.bind (RO.readStatusE (step126_ro t h _ _ (by decide) (by decide) (by decide))) fun r => ?_
    cases r with
    | error e => exact RO.pure _ _
    | ok v => exact RO.attempt_noio _ (decideIrq_noio _ _ _) trivial
  · split
    · exact RO.bind (RO.write (step126_ro t h _ _ (by decide) (by decide) (by decide)) trivial trivial) fun _ => mid st
    · exact mid st

/-! ### the SX126x satisfies `OpsSpec` -/

theorem opsSpec (cfg : Config) : OpsSpec .sx126x cfg.useDcdc cfg.tcxo.isSome {} Aw (sx126xOps cfg) where
  rdy_of_aw := fun _ h => h
  sb_le := Items.none_le _
  reset := reset_spec
  ensureReady := ensureReady_spec
  setStandby := setStandby_spec
  setSleep := setSleep_spec
  initLora := fun _ sw => (cfg_initLora cfg sw).weaken (by cases cfg.useDcdc <;> cases cfg.tcxo <;> simp only [Option.isSome] <;> decide)
  setTxPower := fun p _ b => cfg_setTxPowerAndRampTime cfg p _ b
  setIrqParams := cfg_setIrqParams
  setModulationParams := fun _ m => cfg_setModulationParams m
  setPacketParams := cfg_setPacketParams
  calibrateImage := cfg_calibrateImage
  setChannel := cfg_setChannel
  setPayload := cfg_setPayload
  setLoraSyncWord := fun w => (cfg_setLoraSyncWord w).zero
  doTx := doTx_spec
  doRx := fun m t hc ha _ hi => doRx_spec cfg m t hc ha hi
  doCad := doCad_spec cfg
  awaitIrq := fun t => RO.awaitIrq t rfl rfl
  processIrqEvent := fun m c cl t _ h hd =>
    wp_mono _ _ _ (ro_processIrqEvent m c cl t h hd) (fun _ _ hq => hq) (fun _ _ he => he.1)
  getRxPayload := fun p b t _ h => ro_getRxPayload (fun _ ha => ha) p b t h
  getRxPacketStatus := fun t _ h => ro_getRxPacketStatus (fun _ ha => ha) t h

end Model.Phy.Sx126x
