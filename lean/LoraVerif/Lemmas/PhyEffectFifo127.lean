import LoraVerif.Lemmas.PhyEffect127
/-!
# SX127x FIFO write: effect of lora-phy's `set_payload` against `sx127x_write_buffer` (C13)
-/
open Model.Phy Spec.Semtech
namespace C13
open Gen.PhyCodes127

/-- the data buffer after a FIFO burst starting at pointer `ptr` -/
def fifoWrite (buf : Nat → UInt8) (ptr : Nat) : Bytes → Nat → UInt8
  | [] => buf
  | b :: rest => fifoWrite (setAt buf ptr b) ((ptr + 1) % 256) rest

/-- a burst write to address 0 goes through the FIFO pointer and touches no register -/
theorem write127_fifo (c : Chip) (i : Nat) (data : Bytes) :
    (Chip.write127 c 0 i data).regs = c.regs ∧ (Chip.write127 c 0 i data).buffer = fifoWrite c.buffer c.fifoPtr data ∧
      (Chip.write127 c 0 i data).kind = c.kind := by
  induction data generalizing c i with
  | nil => simp [Chip.write127, fifoWrite]
  | cons b rest ih =>
    simp only [Chip.write127, if_true, fifoWrite]
    obtain ⟨h1, h2, h3⟩ := ih { c with buffer := setAt c.buffer c.fifoPtr b, fifoPtr := (c.fifoPtr + 1) % 256 } (i + 1)
    exact ⟨h1, h2, h3⟩

theorem write127_fifo_kind (c : Chip) (i : Nat) (data : Bytes) : (Chip.write127 c 0 i data).kind = c.kind := (write127_fifo c i data).2.2
theorem write127_fifo_regs (c : Chip) (i : Nat) (data : Bytes) : (Chip.write127 c 0 i data).regs = c.regs := (write127_fifo c i data).1
theorem write127_fifo_buffer (c : Chip) (i : Nat) (data : Bytes) :
    (Chip.write127 c 0 i data).buffer = fifoWrite c.buffer c.fifoPtr data := (write127_fifo c i data).2.1

/-- the reference pushes exactly the payload when the packet parameters carry its length -/
theorem ref_fifo_data (data : Bytes) (hl : data.length ≤ 255) :
    (data ++ List.replicate ((UInt8.ofNat data.length).toNat - data.length) 0).take (UInt8.ofNat data.length).toNat = data := by
  have : (UInt8.ofNat data.length).toNat = data.length := by
    simp [UInt8.toNat_ofNat']; omega
  simp [this]

set_option maxHeartbeats 4000000 in
/-- **SX127x FIFO write.**  For every payload (up to 255 bytes), both variants, every prior chip
content: lora-phy's `set_payload` and the reference's `set_lora_pkt_params(len)` + `write_buffer(0, payload)`
leave the same data buffer (the payload from FIFO address 0), the same RegPayloadLength and the same
RegFifoAddrPtr. -/
theorem sx127x_fifo_write_effect_eq (is1272 : Bool) (data : Bytes) (hl : data.length ≤ 255) (c : Chip) (hk : c.kind = .sx127x) :
    let m := (trace (Sx127x.setPayload data) c).2.1
    let r := (trace (do S127.setLoraPktParams is1272 8 false (UInt8.ofNat data.length) true
                        S127.writeBuffer (UInt8.ofNat data.length) data) c).2.1
    m.buffer = r.buffer ∧ m.buffer = fifoWrite c.buffer 0 data ∧ m.regs 0x22 = r.regs 0x22 ∧ m.regs 0x0d = r.regs 0x0d := by
  have hm : data.length % 256 = data.length := Nat.mod_eq_of_lt (by omega)
  have hd : List.take (List.length data % 256) (data ++ List.replicate (List.length data % 256 - List.length data) 0) = data := by
    simp [hm]
  cases is1272 <;>
  · refine ⟨?_, ?_, ?_, ?_⟩ <;>
      eff127 [Sx127x.setPayload, Sx127x.writeBuffer, intfWriteWithPayload, hk, S127.setLoraPktParams, S127.writeBuffer,
        S127.setStandby, S127.setOpMode, S127.REG_OP_MODE, S127.REG_LORA_FIFO_TX_BASE_ADDR, S127.REG_LORA_MODEM_CONFIG_1,
        S127.REG_LORA_PREAMBLE_MSB, S127.REG_LORA_PAYLOAD_LENGTH, S127.REG_LORA_FIFO_ADDR_PTR, S127.REG_FIFO,
        write127_fifo_kind, write127_fifo_regs, write127_fifo_buffer, hd]

end C13
