import LoraVerif.Lemmas.PhyTrack
/-!
# The inductive invariant of C14 and its preservation by every `LoRa<RK>` API program

Generic over the radio kind: `OpsSpec` lists what the proof needs to know about each `RadioKind`
operation (as `wp` facts about the tracker); `Lemmas/PhyOps126.lean` / `PhyOps127.lean` prove it for
the SX126x and SX127x models.  Here: the invariant `Inv` over (driver bookkeeping × tracker state)
and, for every API-level program of `Model/PhyState.lean`, a lemma `…_inv`: from `Inv`, under every
chip answer, a fault at any I/O step and a drop at any `await_irq`, the program ends in `Inv` again —
and if it reports the radio's own timeout, chip and driver are in standby (I4).
-/
namespace Model.Phy

/-- what `do_cold_start` programs: the bring-up items of the board, TX parameters and IRQ routing -/
def baseItems (reg tcxo : Bool) : Items :=
  { packetType := true, syncWord := true, bufferBase := true, regulator := reg, tcxo := tcxo }
def bringUp (reg tcxo : Bool) : Items := { baseItems reg tcxo with irq := true, pa := true }

section
variable (kind : Kind) (n : Needs)

/-- a configuration operation: needs an awake chip; flags stay down, items only grow and `g` is
programmed on success; it fails only with infrastructure errors -/
def Cfg {α : Type} (p : Prog α) (g : Items) : Prop :=
  ∀ t, Clean t → Aw t → wp kind n p (fun _ t' => Ext t t' ∧ g.le t'.items) (fun a t' => Ext t t' ∧ a.infra) t

/-- a read-out operation: leaves the tracker as it is -/
def ReadOnly {α : Type} (p : Prog α) (t : ChipTrack) : Prop :=
  wp kind n p (fun _ t' => t' = t) (fun a t' => t' = t ∧ a.infra) t
end

/-- what the invariant proof needs from a `RadioKind` (board with/without regulator and TCXO) -/
structure OpsSpec (kind : Kind) (reg tcxo : Bool) (sb : Items) (Rdy : ChipTrack → Prop) {σ μ : Type} (rk : RadioKindOps σ μ) : Prop where
  rdy_of_aw : ∀ t, Aw t → Rdy t
  /-- `sb`: what an executed `set_standby` leaves programmed (SX127x: the LoRa bit of RegOpMode); part of the bring-up items -/
  sb_le : sb.le (baseItems reg tcxo)
  reset : ∀ t, Clean t →
    wp kind (needsFor reg tcxo) rk.reset (fun _ t' => Clean t') (fun a t' => Clean t' ∧ a.infra) t
  ensureReady : ∀ m t, Clean t → Link m t →
    wp kind (needsFor reg tcxo) (rk.ensureReady m) (fun _ t' => Ext t t' ∧ Rdy t') (fun a t' => Ext t t' ∧ a.infra) t
  setStandby : ∀ t, Clean t → Rdy t →
    wp kind (needsFor reg tcxo) rk.setStandby (fun _ t' => Ext t t' ∧ Aw t' ∧ t'.mode = .standby ∧ sb.le t'.items) (fun a t' => Ext t t' ∧ a.infra) t
  setSleep : ∀ warm t, Clean t → Rdy t →
    wp kind (needsFor reg tcxo) (rk.setSleep warm) (fun _ t' => Clean t' ∧ (warm = true → t.items.le t'.items))
      (fun a t' => Ext t t' ∧ a.infra) t
  initLora : ∀ st sw, Cfg kind (needsFor reg tcxo) (rk.initLora st sw) ((baseItems reg tcxo).diff sb)
  setTxPower : ∀ p m b, Cfg kind (needsFor reg tcxo) (rk.setTxPowerAndRampTime p m b) { pa := true }
  setIrqParams : ∀ m, Cfg kind (needsFor reg tcxo) (rk.setIrqParams m) { irq := true }
  setModulationParams : ∀ st m, Cfg kind (needsFor reg tcxo) (rk.setModulationParams st m) { modulation := true }
  setPacketParams : ∀ p, Cfg kind (needsFor reg tcxo) (rk.setPacketParams p) { packet := true }
  calibrateImage : ∀ f, Cfg kind (needsFor reg tcxo) (rk.calibrateImage f) {}
  setChannel : ∀ f, Cfg kind (needsFor reg tcxo) (rk.setChannel f) { frequency := true }
  setPayload : ∀ p, Cfg kind (needsFor reg tcxo) (rk.setPayload p) {}
  setLoraSyncWord : ∀ w, Cfg kind (needsFor reg tcxo) (rk.setLoraSyncWord w) {}
  doTx : ∀ t, Clean t → Aw t → (needsFor reg tcxo).tx.le t.items →
    wp kind (needsFor reg tcxo) rk.doTx (fun _ t' => Ext t t') (fun a t' => Ext t t' ∧ a.infra) t
  doRx : ∀ m t, Clean t → Rdy t → Link (.receive m) t → (needsFor reg tcxo).rx.le t.items →
    wp kind (needsFor reg tcxo) (rk.doRx m) (fun _ t' => Clean t' ∧ t.items.le t'.items ∧ Link (.receive m) t')
      (fun a t' => (Clean t' ∧ t.items.le t'.items ∧ Link (.receive m) t') ∧ a.infra) t
  doCad : ∀ m t, Clean t → Aw t → (needsFor reg tcxo).cad.le t.items →
    wp kind (needsFor reg tcxo) (rk.doCad m) (fun _ t' => Ext t t') (fun a t' => Ext t t' ∧ a.infra) t
  awaitIrq : ∀ t, ReadOnly kind (needsFor reg tcxo) rk.awaitIrq t
  processIrqEvent : ∀ m c cl t, Clean t → t.mode ≠ .sleep → (t.mode = .rxDuty → m.isSingle = false) →
    wp kind (needsFor reg tcxo) (rk.processIrqEvent m c cl) (fun _ t' => t' = t) (fun _ t' => t' = t) t
  getRxPayload : ∀ p b t, Clean t → t.mode ≠ .sleep → ReadOnly kind (needsFor reg tcxo) (rk.getRxPayload p b) t
  getRxPacketStatus : ∀ t, Clean t → t.mode ≠ .sleep → ReadOnly kind (needsFor reg tcxo) rk.getRxPacketStatus t

/-- which items each driver mode presupposes -/
def ModeItems (n : Needs) (sb : Items) (m : RadioMode) (it : Items) : Prop :=
  match m with
  | .sleep => True
  | .transmit => n.tx.le it
  | .receive _ => n.rx.le it
  | .cad => n.cad.le it
  | _ => sb.le it

/-- **The invariant** over driver bookkeeping `d` and tracker state `t`. -/
structure Inv (reg tcxo : Bool) (sb : Items) {σ : Type} (d : DriverState σ) (t : ChipTrack) : Prop where
  /-- I1, I3 -/
  clean : Clean t
  /-- chip possibly asleep ⇒ the driver's mode makes the next `ensure_ready` the wake-up -/
  link : Link d.radioMode t
  /-- I2 (contrapositive, strengthened): `cold_start` down ⇒ bring-up items, TX parameters, IRQ routing programmed -/
  cold : d.coldStart = false → (bringUp reg tcxo).le t.items
  /-- the driver's mode says an operation is prepared ⇒ everything it needs is programmed -/
  items : ModeItems (needsFor reg tcxo) sb d.radioMode t.items

section
variable {kind : Kind} {reg tcxo : Bool} {sb : Items} {Rdy : ChipTrack → Prop} {σ μ : Type} {rk : RadioKindOps σ μ}

theorem ModeItems.mono {n : Needs} {sb : Items} {m : RadioMode} {a b : Items} (h : ModeItems n sb m a) (hab : a.le b) : ModeItems n sb m b := by
  cases m <;> first | exact Items.le_trans h hab | trivial

theorem Inv.ext {d : DriverState σ} {t t' : ChipTrack} (h : Inv reg tcxo sb d t) (e : Ext t t') : Inv reg tcxo sb d t' :=
  ⟨e.clean, h.link.ext e.2.2, fun hc => e.le (h.cold hc), h.items.mono e.items⟩

theorem Inv.congr {d d' : DriverState σ} {t : ChipTrack} (h : Inv reg tcxo sb d t)
    (hm : d'.radioMode = d.radioMode) (hc : d'.coldStart = d.coldStart) : Inv reg tcxo sb d' t :=
  ⟨h.clean, hm ▸ h.link, fun hx => h.cold (hc ▸ hx), hm ▸ h.items⟩

/-- the driver's mode is neither `Sleep` nor a duty-cycle reception ⇒ the chip is awake -/
theorem Inv.aw {d : DriverState σ} {t : ChipTrack} (h : Inv reg tcxo sb d t)
    (h1 : d.radioMode ≠ .sleep) (h2 : d.radioMode.isDuty = false) : Aw t :=
  ⟨fun hs => h1 (h.link.1 hs), fun hs => (h.link.2 hs).elim h1 (fun hd => by simp [h2] at hd)⟩

/-- to standby on an awake chip -/
theorem Inv.standby {d : DriverState σ} {t t' : ChipTrack} (h : Inv reg tcxo sb d t) (e : Ext t t') (ha : Aw t')
    (hs : sb.le t'.items) : Inv reg tcxo sb { d with radioMode := .standby } t' :=
  ⟨e.clean, Link.of_aw ha, fun hc => e.le (h.cold hc), hs⟩

/-- the items every non-sleep driver mode presupposes include what standby leaves programmed -/
theorem ModeItems.sb_le {m : RadioMode} {it : Items} (hsb : sb.le (baseItems reg tcxo))
    (h : ModeItems (needsFor reg tcxo) sb m it) (hm : m ≠ .sleep) : sb.le it := by
  have b1 : (baseItems reg tcxo).le (needsFor reg tcxo).tx := by
    simp only [Items.le, baseItems, needsFor]; simp
  have b2 : (baseItems reg tcxo).le (needsFor reg tcxo).rx := by
    simp only [Items.le, baseItems, needsFor]; simp
  have b3 : (baseItems reg tcxo).le (needsFor reg tcxo).cad := by
    simp only [Items.le, baseItems, needsFor]; simp
  cases m with
  | sleep => exact absurd rfl hm
  | transmit => exact Items.le_trans hsb (Items.le_trans b1 h)
  | receive _ => exact Items.le_trans hsb (Items.le_trans b2 h)
  | cad => exact Items.le_trans hsb (Items.le_trans b3 h)
  | standby => exact h
  | frequencySynthesis => exact h
  | listen => exact h

/-! ### `call` of a configuration / read-out operation -/

theorem mwp_cfg {α : Type} {p : Prog α} {g : Items} (hc : Cfg kind (needsFor reg tcxo) p g)
    {Q : α → DriverState σ → ChipTrack → Prop} {E} {d : DriverState σ} {t : ChipTrack} (hcl : Clean t) (haw : Aw t)
    (hq : ∀ a t', Ext t t' → g.le t'.items → Q a d t') (he : ∀ a t', Ext t t' → a.infra → E a d t') :
    mwp kind (needsFor reg tcxo) (M.call p : M σ α) Q E d t :=
  mwp_call (wp_mono _ _ _ (hc t hcl haw) (fun a t' h => hq a t' h.1 h.2) (fun a t' h => he a t' h.1 h.2))

theorem mwp_ro {α : Type} {p : Prog α} {t : ChipTrack} (hc : ReadOnly kind (needsFor reg tcxo) p t)
    {Q : α → DriverState σ → ChipTrack → Prop} {E} {d : DriverState σ}
    (hq : ∀ a, Q a d t) (he : ∀ a, a.infra → E a d t) :
    mwp kind (needsFor reg tcxo) (M.call p : M σ α) Q E d t :=
  mwp_call (wp_mono _ _ _ hc (fun a _ h => h ▸ hq a) (fun a _ h => h.1 ▸ he a h.2))

/-- the standard abnormal postcondition: the invariant holds, and a reported timeout means standby -/
def AbI4 (reg tcxo : Bool) (sb : Items) (exempt : Prop) (a : Abort) (d : DriverState σ) (t : ChipTrack) : Prop :=
  Inv reg tcxo sb d t ∧ (a.timeout = true → ¬ exempt → d.radioMode = .standby ∧ t.mode = .standby)

theorem AbI4.of_infra {exempt : Prop} {a : Abort} {d : DriverState σ} {t : ChipTrack} (h : Inv reg tcxo sb d t) (ha : a.infra) :
    AbI4 reg tcxo sb exempt a d t := ⟨h, fun ht => by simp [Abort.infra] at ha; simp [ha] at ht⟩

variable (S : OpsSpec kind reg tcxo sb Rdy rk)
include S

/-! ### the building blocks of lib.rs -/

theorem toStandby_inv {d : DriverState σ} {t : ChipTrack} (h : Inv reg tcxo sb d t) :
    mwp kind (needsFor reg tcxo) (toStandby rk)
      (fun _ d' t' => d' = { d with radioMode := .standby } ∧ Ext t t' ∧ Aw t' ∧ sb.le t'.items)
      (fun a d' t' => Inv reg tcxo sb d' t' ∧ a.infra) d t := by
  unfold toStandby
  refine mwp_bind (mwp_get ?_)
  refine mwp_bind (mwp_call (wp_mono _ _ _ (S.ensureReady d.radioMode t h.clean h.link) (fun _ t1 h1 => ?_) (fun a t' h' => ?_)))
  · obtain ⟨e1, r1⟩ := h1
    by_cases hm : d.radioMode = .standby
    · simp only [ne_eq, hm, not_true_eq_false, if_false]
      refine mwp_pure ⟨?_, e1, e1.aw (h.aw (by simp [hm]) (by simp [hm, RadioMode.isDuty])),
        e1.le (h.items.sb_le S.sb_le (by simp [hm]))⟩
      cases d; simp_all
    · simp only [ne_eq, hm, not_false_eq_true, if_true]
      refine mwp_bind (mwp_call (wp_mono _ _ _ (S.setStandby t1 e1.clean r1) (fun _ t2 h2 => ?_) (fun a t' h' => ?_)))
      · exact mwp_setMode ⟨rfl, e1.trans h2.1, h2.2.1, h2.2.2.2⟩
      · exact ⟨h.ext (e1.trans h'.1), h'.2⟩
  · exact ⟨h.ext h'.1, h'.2⟩

theorem doColdStart_inv {d : DriverState σ} {t : ChipTrack} (h : Inv reg tcxo sb d t) (ha : Aw t) (hs : sb.le t.items) :
    mwp kind (needsFor reg tcxo) (doColdStart rk)
      (fun _ d' t' => (∃ st, d' = { d with rk := st, coldStart := false, calibrateImage := true }) ∧ Ext t t' ∧
        (bringUp reg tcxo).le t'.items)
      (fun a d' t' => Inv reg tcxo sb d' t' ∧ a.infra) d t := by
  unfold doColdStart
  refine mwp_bind (mwp_get ?_)
  refine mwp_bind (mwp_cfg (S.initLora _ _) h.clean ha (fun st t1 e1 g1 => ?_) (fun a t' e' ha' => ⟨h.ext e', ha'⟩))
  refine mwp_bind (mwp_modify ?_)
  refine mwp_bind (mwp_cfg (S.setTxPower _ _ _) e1.clean (e1.aw ha) (fun _ t2 e2 g2 => ?_)
    (fun a t' e' ha' => ⟨(h.ext (e1.trans e')).congr rfl rfl, ha'⟩))
  refine mwp_bind (mwp_get ?_)
  refine mwp_bind (mwp_cfg (S.setIrqParams _) e2.clean (e2.aw (e1.aw ha)) (fun _ t3 e3 g3 => ?_)
    (fun a t' e' ha' => ⟨(h.ext ((e1.trans e2).trans e')).congr rfl rfl, ha'⟩))
  refine mwp_modify ⟨⟨st, rfl⟩, (e1.trans e2).trans e3, ?_⟩
  have b1 := Items.le_of_diff (((e1.trans e2).trans e3).le hs) ((e2.trans e3).le g1)
  have b2 := e3.le g2
  simp only [Items.le, bringUp, baseItems] at b1 b2 g3 ⊢
  simp_all

theorem init_inv {d : DriverState σ} {t : ChipTrack} (h : Clean t) :
    mwp kind (needsFor reg tcxo) (init rk)
      (fun _ d' t' => Inv reg tcxo sb d' t') (fun a d' t' => Inv reg tcxo sb d' t' ∧ a.infra) d t := by
  unfold init
  have inv1 : ∀ t', Clean t' → Inv reg tcxo sb { d with coldStart := true, radioMode := .sleep } t' :=
    fun t' hc => ⟨hc, Link.sleep _, fun hx => by simp at hx, trivial⟩
  refine mwp_bind (mwp_modify ?_)
  refine mwp_bind (mwp_call (wp_mono _ _ _ (S.reset t h) (fun _ t1 c1 => ?_) (fun a t' h' => ⟨inv1 _ h'.1, h'.2⟩)))
  refine mwp_bind (mwp_get ?_)
  refine mwp_bind (mwp_call (wp_mono _ _ _ (S.ensureReady .sleep t1 c1 (Link.sleep _)) (fun _ t2 h2 => ?_)
    (fun a t' h' => ⟨inv1 _ h'.1.clean, h'.2⟩)))
  refine mwp_bind (mwp_call (wp_mono _ _ _ (S.setStandby t2 h2.1.clean h2.2) (fun _ t3 h3 => ?_)
    (fun a t' h' => ⟨inv1 _ h'.1.clean, h'.2⟩)))
  refine mwp_bind (mwp_setMode ?_)
  have inv3 : Inv reg tcxo sb { d with coldStart := true, radioMode := .standby } t3 :=
    ⟨h3.1.clean, Link.of_aw h3.2.1, fun hx => by simp at hx, h3.2.2.2⟩
  refine mwp_mono (doColdStart_inv S inv3 h3.2.1 h3.2.2.2) (fun _ d' t' hq => ?_) (fun a d' t' he => he)
  obtain ⟨⟨st, rfl⟩, e, g⟩ := hq
  exact ⟨e.clean, Link.of_aw (e.aw h3.2.1), fun _ => g, e.le h3.2.2.2⟩

/-- `prepare_modem`: afterwards the chip is awake, in the driver's eyes in standby, and brought up -/
theorem prepareModem_inv (freq : Nat) {d : DriverState σ} {t : ChipTrack} (h : Inv reg tcxo sb d t) :
    mwp kind (needsFor reg tcxo) (prepareModem rk freq)
      (fun _ d' t' => Inv reg tcxo sb d' t' ∧ Aw t' ∧ d'.radioMode = .standby ∧ d'.coldStart = false)
      (fun a d' t' => Inv reg tcxo sb d' t' ∧ a.infra) d t := by
  unfold prepareModem
  refine mwp_bind (mwp_mono (toStandby_inv S h) (fun _ d1 t1 h1 => ?_) (fun a d' t' he => he))
  obtain ⟨hd1, e1, a1, s1⟩ := h1
  have i1 : Inv reg tcxo sb d1 t1 := hd1 ▸ h.standby e1 a1 s1
  have m1 : d1.radioMode = .standby := by rw [hd1]
  clear hd1
  refine mwp_bind (mwp_get ?_)
  -- after the optional cold start
  have step2 : ∀ (d2 : DriverState σ) (t2 : ChipTrack), Inv reg tcxo sb d2 t2 → Aw t2 → d2.radioMode = .standby → d2.coldStart = false →
      mwp kind (needsFor reg tcxo)
        (do let d ← M.get
            if d.calibrateImage then
              M.call (rk.calibrateImage freq)
              M.modify (fun d => { d with calibrateImage := false }))
        (fun _ d' t' => Inv reg tcxo sb d' t' ∧ Aw t' ∧ d'.radioMode = .standby ∧ d'.coldStart = false)
        (fun a d' t' => Inv reg tcxo sb d' t' ∧ a.infra) d2 t2 := by
    intro d2 t2 i2 a2 m2 c2
    refine mwp_bind (mwp_get ?_)
    by_cases hc : d2.calibrateImage = true
    · simp only [hc, if_true]
      refine mwp_bind (mwp_cfg (S.calibrateImage _) i2.clean a2 (fun _ t3 e3 _ => ?_) (fun a t' e' ha' => ⟨i2.ext e', ha'⟩))
      exact mwp_modify ⟨(i2.ext e3).congr rfl rfl, e3.aw a2, m2, c2⟩
    · simp only [hc, Bool.false_eq_true, if_false]
      exact mwp_pure ⟨i2, a2, m2, c2⟩
  by_cases hcs : d1.coldStart = true
  · simp only [hcs, if_true]
    refine mwp_bind (mwp_mono (doColdStart_inv S i1 a1 s1) (fun _ d2 t2 h2 => ?_) (fun a d' t' he => he))
    obtain ⟨⟨st, rfl⟩, e2, g2⟩ := h2
    exact step2 _ _ ⟨e2.clean, Link.of_aw (e2.aw a1), fun _ => g2, by simp only [m1]; exact e2.le s1⟩ (e2.aw a1) m1 rfl
  · simp only [hcs, Bool.false_eq_true, if_false]
    refine mwp_bind (mwp_pure ?_)
    exact step2 _ _ i1 a1 m1 (by simpa using hcs)

/-- the error path `ensure_ready; set_standby; radio_mode = Standby; Err(e)` (I4) -/
theorem failToStandby_inv {α : Type} (e : RadioError) {d : DriverState σ} {t : ChipTrack} (h : Inv reg tcxo sb d t)
    (Q : α → DriverState σ → ChipTrack → Prop) :
    mwp kind (needsFor reg tcxo) (failToStandby rk e : M σ α) Q (AbI4 reg tcxo sb False) d t := by
  unfold failToStandby
  refine mwp_bind (mwp_get ?_)
  refine mwp_bind (mwp_call (wp_mono _ _ _ (S.ensureReady d.radioMode t h.clean h.link) (fun _ t1 h1 => ?_)
    (fun a t' h' => AbI4.of_infra (h.ext h'.1) h'.2)))
  refine mwp_bind (mwp_call (wp_mono _ _ _ (S.setStandby t1 h1.1.clean h1.2) (fun _ t2 h2 => ?_)
    (fun a t' h' => AbI4.of_infra (h.ext (h1.1.trans h'.1)) h'.2)))
  refine mwp_bind (mwp_setMode ?_)
  exact mwp_throw ⟨h.standby (h1.1.trans h2.1) h2.2.1 h2.2.2.2, fun _ _ => ⟨rfl, h2.2.2.1⟩⟩

end
end Model.Phy
