import LoraVerif.Lemmas.HistoryCSafe
import LoraVerif.Lemmas.MacWFCmds
import LoraVerif.Lemmas.RefineOps
/-!
# The RX1 delay of every reachable state is between 1 s and 15 s

`cfg.rx1Delay` is written in two places only — RXTimingSetupReq and the JoinAccept's RxDelay — both
through `del_to_delay_ms` of a 4-bit value, whose results are 1000 … 15000 ms; the initial value is
`RECEIVE_DELAY1`.  `DelayOk` is therefore an invariant of every history step (`stepC_delayOk`), which
is what the `u32` arithmetic `delay + tx_ms − lead` of the async front-end's window timers needs
(`Props/C04.lean`: `async_no_panic_timing`).
-/
set_option linter.unusedSimpArgs false
open Gen.Region Gen.Modulation

namespace Model

def delayOk (d : Nat) : Prop := 1000 ≤ d ∧ d ≤ 15000

def DelayOk (m : MacState) : Prop := delayOk m.cfg.rx1Delay

theorem del_to_delay_range : ∀ x ∈ List.range 16,
    (match Gen.Session.del_to_delay_ms (x : Int) with
     | some v => decide (1000 ≤ v.toNat ∧ v.toNat ≤ 15000)
     | none => true) = true := by decide

theorem delToDelayMs_ok (b d : Nat) (h : delToDelayMs (b % 16) = .ok d) : delayOk d := by
  unfold delToDelayMs at h
  have hr := del_to_delay_range (b % 16) (List.mem_range.mpr (Nat.mod_lt _ (by decide)))
  cases hg : Gen.Session.del_to_delay_ms ((b % 16 : Nat) : Int) with
  | none => rw [hg] at h; cases h
  | some v =>
    rw [hg] at h hr
    simp only [ofGen, bind, Except.bind, pure, Except.pure, Except.ok.injEq] at h
    subst h
    simp only [decide_eq_true_eq] at hr
    exact hr

theorem init_delayOk (r : RegionState) (maxPower : Nat) (gain : Int) : DelayOk (MacState.init r maxPower gain) := by
  unfold DelayOk delayOk MacState.init
  simp only
  decide

/-- "if it returns, the RX1 delay of the result is fine" -/
def DP (x : M MacCtx) : Prop := ∀ c', x = .ok c' → delayOk c'.cfg.rx1Delay

theorem DP.bind {α} {x : M α} {f : α → M MacCtx} (h : ∀ a, x = .ok a → DP (f a)) : DP (x >>= f) := by
  intro c' hc
  obtain ⟨a, ha, hf⟩ := Except.bind_eq_ok hc
  exact h a ha c' hf

theorem push_cfg (c : MacCtx) (cid : Nat) (p : List Nat) : (c.push cid p).cfg = c.cfg := by
  unfold MacCtx.push
  split
  · rfl
  · split <;> rfl

theorem foldl_push_cfg (n : Nat) (c : MacCtx) (cid : Nat) (p : List Nat) :
    ((List.range n).foldl (fun c _ => c.push cid p) c).cfg = c.cfg := by
  induction n generalizing c with
  | zero => rfl
  | succ n ih =>
    rw [List.range_succ, List.foldl_append]
    simp only [List.foldl_cons, List.foldl_nil]
    rw [push_cfg, ih]

theorem linkAdrDecide_delay (cfg : Config) (region : RegionState) (mask : Mask) (rfu : Bool) (drRaw pwRaw : Nat)
    (ans : Nat) (cfg' : Config) (region' : RegionState)
    (h : linkAdrDecide cfg region mask rfu drRaw pwRaw = .ok (ans, cfg', region')) : cfg'.rx1Delay = cfg.rx1Delay := by
  unfold linkAdrDecide at h
  obtain ⟨pw, _, h⟩ := Except.bind_eq_ok h
  obtain ⟨cm, _, h⟩ := Except.bind_eq_ok h
  simp only at h
  split at h
  · simp only [pure, Except.pure, Except.ok.injEq, Prod.mk.injEq] at h
    rw [← h.2.1]
  · simp only [pure, Except.pure, Except.ok.injEq, Prod.mk.injEq] at h
    rw [← h.2.1]

theorem finishLinkAdrBlock_delay (c : MacCtx) (mask : Mask) (rfu : Bool) (n : Nat) (last : List Nat) (c' : MacCtx)
    (h : finishLinkAdrBlock c mask rfu n last = .ok c') : c'.cfg.rx1Delay = c.cfg.rx1Delay := by
  unfold finishLinkAdrBlock at h
  obtain ⟨b0, _, h⟩ := Except.bind_eq_ok h
  obtain ⟨⟨ans, cfg, region⟩, hd, h⟩ := Except.bind_eq_ok h
  simp only [pure, Except.pure, Except.ok.injEq] at h
  subst h
  rw [foldl_push_cfg]
  exact linkAdrDecide_delay _ _ _ _ _ _ _ _ _ hd

theorem rxParamSetup_delay (cfg : Config) (r : RegionId) (dl f : Nat) : (rxParamSetup cfg r dl f).2.rx1Delay = cfg.rx1Delay := by
  unfold rxParamSetup
  simp only
  split <;> rfl

theorem handleCmds_delay (snr : Int) (cmds : List (Nat × List Nat)) (c : MacCtx) (mask : Mask) (rfu : Bool) (nAdr : Nat)
    (hlen : ∀ x ∈ cmds, downlinkCmdLen x.1 = some x.2.length) (h : delayOk c.cfg.rx1Delay) :
    DP (handleCmds snr cmds c mask rfu nAdr) := by
  induction cmds generalizing c mask rfu nAdr with
  | nil => intro c' hc; cases hc; exact h
  | cons x rest ih =>
    obtain ⟨cid, p⟩ := x
    have hx : downlinkCmdLen cid = some p.length := hlen (cid, p) List.mem_cons_self
    have hrest : ∀ x ∈ rest, downlinkCmdLen x.1 = some x.2.length := fun x hx => hlen x (List.mem_cons_of_mem _ hx)
    have hskip : DP (handleCmds snr rest c mask rfu nAdr) := ih c mask rfu nAdr hrest h
    unfold downlinkCmdLen at hx
    split at hx
    all_goals (first | (cases hx; done) | skip)
    all_goals clear hx
    · simp only [handleCmds]; exact hskip
    · -- LinkADRReq
      simp only [handleCmds]
      refine DP.bind (fun b3 _ => ?_)
      refine DP.bind (fun b1 _ => ?_)
      refine DP.bind (fun b2 _ => ?_)
      refine DP.bind (fun upd _ => ?_)
      have tail : ∀ (mask' : Mask) (rfu' : Bool),
          DP (handleCmds snr rest c mask' rfu' (nAdr + 1)) ∧
          DP (do
            let c ← finishLinkAdrBlock c mask' rfu' (nAdr + 1) p
            handleCmds snr rest c (channelMaskGet c.region) false 0) := by
        intro mask' rfu'
        refine ⟨ih c mask' rfu' (nAdr + 1) hrest h, DP.bind (fun c1 hc1 => ?_)⟩
        exact ih c1 _ false 0 hrest (by rw [finishLinkAdrBlock_delay _ _ _ _ _ _ hc1]; exact h)
      rcases upd with _ | m
      · simp only
        split
        · exact (tail mask true).1
        · exact (tail mask true).2
      · simp only
        split
        · exact (tail m rfu).1
        · exact (tail m rfu).2
    · simp only [handleCmds]; exact hskip
    · -- RXParamSetupReq
      simp only [handleCmds]
      refine DP.bind (fun b0 _ => ?_)
      refine DP.bind (fun f _ => ?_)
      exact ih _ mask rfu nAdr hrest (by rw [push_cfg]; simp only; rw [rxParamSetup_delay]; exact h)
    · -- DevStatusReq
      simp only [handleCmds]
      exact ih _ mask rfu nAdr hrest (by rw [push_cfg]; exact h)
    · -- NewChannelReq
      simp only [handleCmds]
      split
      · exact hskip
      · refine DP.bind (fun idx _ => ?_)
        refine DP.bind (fun f _ => ?_)
        refine DP.bind (fun r _ => ?_)
        refine DP.bind (fun x _ => ?_)
        exact ih _ mask rfu nAdr hrest (by rw [push_cfg]; exact h)
    · -- RXTimingSetupReq
      simp only [handleCmds]
      refine DP.bind (fun b0 _ => ?_)
      refine DP.bind (fun d hd => ?_)
      exact ih _ mask rfu nAdr hrest (by rw [push_cfg]; exact delToDelayMs_ok _ _ hd)
    · simp only [handleCmds]; exact hskip
    · -- DlChannelReq
      simp only [handleCmds]
      split
      · exact hskip
      · refine DP.bind (fun idx _ => ?_)
        refine DP.bind (fun f _ => ?_)
        refine DP.bind (fun x _ => ?_)
        exact ih _ mask rfu nAdr hrest (by rw [push_cfg]; exact h)
    · simp only [handleCmds]; exact hskip

theorem handleDownlinkMacs_delay (snr : Int) (bytes : List Nat) (c : MacCtx) (h : delayOk c.cfg.rx1Delay) :
    DP (handleDownlinkMacs snr bytes c) := by
  unfold handleDownlinkMacs
  exact handleCmds_delay snr _ c _ false 0 (parseDownlinkCmds_lens _ _) h

theorem rx2Complete_delay (s : Session) (cfg : Config) (r : RegionId) : (rx2Complete s cfg r).2.2.rx1Delay = cfg.rx1Delay := by
  unfold rx2Complete
  split
  · rfl
  · simp only
    repeat' split
    all_goals rfl

theorem sessionHandleRx_delay (s : Session) (cfg : Config) (region : RegionState) (d : RxData) (mp : Nat) (snr : Int)
    (ig : Bool) (o : RxOut) (s' : Session) (cfg' : Config) (region' : RegionState) (hd : delayOk cfg.rx1Delay)
    (h : sessionHandleRx s cfg region d mp snr ig = .ok (o, s', cfg', region')) : delayOk cfg'.rx1Delay := by
  unfold sessionHandleRx at h
  split at h
  · split at h
    · simp only [pure, Except.pure, Except.ok.injEq, Prod.mk.injEq] at h
      rw [← h.2.2.1]; exact hd
    · simp only [pure, Except.pure, Except.ok.injEq, Prod.mk.injEq] at h
      rw [← h.2.2.1, rx2Complete_delay]; exact hd
  · split at h
    · simp only [pure, Except.pure, Except.ok.injEq, Prod.mk.injEq] at h
      rw [← h.2.2.1]; exact hd
    · split at h
      · simp only [pure, Except.pure, Except.ok.injEq, Prod.mk.injEq] at h
        rw [← h.2.2.1]; exact hd
      · simp only [] at h
        obtain ⟨ctx, hctx, h⟩ := Except.bind_eq_ok h
        have hc : delayOk ctx.cfg.rx1Delay := by
          cases ig with
          | true =>
            simp only [if_true, pure, Except.pure, Except.ok.injEq] at hctx
            rw [← hctx]; exact hd
          | false =>
            simp only [Bool.false_eq_true, if_false] at hctx
            obtain ⟨c1, h1, hctx⟩ := Except.bind_eq_ok hctx
            have hc1 := handleDownlinkMacs_delay snr d.fopts _ (by exact hd) c1 h1
            split at hctx
            · exact handleDownlinkMacs_delay snr d.payload c1 hc1 ctx hctx
            · simp only [pure, Except.pure, Except.ok.injEq] at hctx
              rw [← hctx]; exact hc1
        by_cases hx : (s.fcntUp == 0xFFFFFFFF) = true
        · cases hcf : d.confirmed <;> cases ig <;>
            simp only [hcf, hx, Bool.false_eq_true, if_false, if_true, pure, Except.pure, Except.ok.injEq,
              Prod.mk.injEq] at h <;> (rw [← h.2.2.1]; exact hc)
        · cases hcf : d.confirmed <;> cases ig <;>
            simp only [hcf, hx, Bool.false_eq_true, if_false, if_true, pure, Except.pure, Except.ok.injEq,
              Prod.mk.injEq] at h <;> (rw [← h.2.2.1]; exact hc)

theorem otaaAccept_delay (m m' : MacState) (j : RxJoinAccept) (h : otaaAccept m j = .ok m') : DelayOk m' := by
  unfold otaaAccept at h
  obtain ⟨region, _, h⟩ := Except.bind_eq_ok h
  obtain ⟨d, hd, h⟩ := Except.bind_eq_ok h
  simp only [pure, Except.pure, Except.ok.injEq] at h
  subst h
  have := delToDelayMs_ok _ _ hd
  unfold DelayOk
  simp only
  repeat' split
  all_goals exact this

theorem macHandleRx_delay (m : MacState) (v : RxView) (mp : Nat) (snr : Int) (cc : Bool) (o : Option RxOut) (m' : MacState)
    (hd : DelayOk m) (h : macHandleRx m v mp snr cc = .ok (o, m')) : DelayOk m' := by
  unfold macHandleRx at h
  split at h
  · split at h
    · obtain ⟨⟨o', s', cfg', region'⟩, hs, h⟩ := Except.bind_eq_ok h
      simp only [pure, Except.pure, Except.ok.injEq, Prod.mk.injEq] at h
      obtain ⟨_, rfl⟩ := h
      exact sessionHandleRx_delay _ _ _ _ _ _ _ _ _ _ _ hd hs
    · cases h; exact hd
  · split at h
    · cases h; exact hd
    · split at h
      · split at h
        · obtain ⟨m2, hm2, h⟩ := Except.bind_eq_ok h
          cases h
          exact otaaAccept_delay _ _ _ hm2
        · cases h; exact hd
      · cases h; exact hd
  · split at h <;> (cases h; exact hd)

theorem macRx2Complete_delay (m : MacState) (hd : DelayOk m) : DelayOk (macRx2Complete m).2 := by
  unfold macRx2Complete DelayOk
  split
  · simp only; rw [rx2Complete_delay]; exact hd
  · exact hd
  · exact hd

theorem window_delay (m : MacState) (f : Option (RxView × Int)) (mp : Nat) (o : Option RxOut) (m' : MacState)
    (hd : DelayOk m) (h : window m f mp = .ok (o, m')) : DelayOk m' := by
  unfold window at h
  cases f with
  | none => cases h; exact hd
  | some f =>
    obtain ⟨v, snr⟩ := f
    simp only at h
    obtain ⟨⟨o1, m1⟩, hrx, h⟩ := Except.bind_eq_ok h
    have := macHandleRx_delay _ _ _ _ _ _ _ hd hrx
    cases o1 with
    | none => cases h; exact this
    | some o1 => simp only at h; split at h <;> (cases h; exact this)

theorem macSend_cfg {σ} (g : Rng σ) (m : MacState) (data : List Nat) (fport : Nat) (conf : Bool) (rs rs' : σ)
    (o : Option SendOut) (m' : MacState) (h : macSend g m data fport conf rs = .ok (o, m', rs')) : m'.cfg = m.cfg := by
  unfold macSend at h
  split at h
  · obtain ⟨⟨desc, s1⟩, _, h⟩ := Except.bind_eq_ok h
    obtain ⟨dr, _, h⟩ := Except.bind_eq_ok h
    obtain ⟨⟨tx, region, rs1⟩, _, h⟩ := Except.bind_eq_ok h
    obtain ⟨pw, _, h⟩ := Except.bind_eq_ok h
    obtain ⟨⟨rx1, rx2⟩, _, h⟩ := Except.bind_eq_ok h
    simp only [pure, Except.pure, Except.ok.injEq, Prod.mk.injEq] at h
    rw [← h.2.1]
  · simp only [pure, Except.pure, Except.ok.injEq, Prod.mk.injEq] at h
    rw [← h.2.1]

theorem macJoinOtaa_cfg {σ} (g : Rng σ) (m : MacState) (rs rs' : σ) (o : JoinOut) (m' : MacState)
    (h : macJoinOtaa g m rs = .ok (o, m', rs')) : m'.cfg = m.cfg := by
  unfold macJoinOtaa at h
  simp only at h
  obtain ⟨dr, _, h⟩ := Except.bind_eq_ok h
  obtain ⟨⟨tx, region, rs1⟩, _, h⟩ := Except.bind_eq_ok h
  obtain ⟨pw, _, h⟩ := Except.bind_eq_ok h
  obtain ⟨⟨rx1, rx2⟩, _, h⟩ := Except.bind_eq_ok h
  simp only [pure, Except.pure, Except.ok.injEq, Prod.mk.injEq] at h
  rw [← h.2.1]

theorem classACycle_delay (m : MacState) (rx1 rx2 : Option (RxView × Int)) (mp1 mp2 : Nat) (r : Response)
    (dl : Option (Nat × List Nat)) (m' : MacState) (hd : DelayOk m) (h : classACycle m rx1 rx2 mp1 mp2 = .ok (r, dl, m')) :
    DelayOk m' := by
  unfold classACycle at h
  obtain ⟨⟨o1, m1⟩, h1, h⟩ := Except.bind_eq_ok h
  have hd1 := window_delay _ _ _ _ _ hd h1
  cases o1 with
  | some o => cases h; exact hd1
  | none =>
    simp only at h
    obtain ⟨⟨o2, m2⟩, h2, h⟩ := Except.bind_eq_ok h
    have hd2 := window_delay _ _ _ _ _ hd1 h2
    cases o2 with
    | some o => cases h; exact hd2
    | none => cases h; exact macRx2Complete_delay _ hd2

theorem faultedCycle_delay (m : MacState) (k : Nat) (rx1 rx2 : Option (RxView × Int)) (mp1 mp2 : Nat) (m' : MacState)
    (hd : DelayOk m) (h : faultedCycle m k rx1 rx2 mp1 mp2 = .ok m') : DelayOk m' := by
  unfold faultedCycle at h
  split at h
  · cases h; exact hd
  · obtain ⟨⟨o1, m1⟩, h1, h⟩ := Except.bind_eq_ok h
    cases h; exact window_delay _ _ _ _ _ hd h1
  · obtain ⟨⟨o1, m1⟩, h1, h⟩ := Except.bind_eq_ok h
    have hd1 := window_delay _ _ _ _ _ hd h1
    cases o1 with
    | some o => cases h; exact hd1
    | none =>
      simp only at h
      obtain ⟨⟨o2, m2⟩, h2, h⟩ := Except.bind_eq_ok h
      cases h; exact window_delay _ _ _ _ _ hd1 h2

theorem delayOk_of_cfg {m m' : MacState} (h : m'.cfg = m.cfg) (hd : DelayOk m) : DelayOk m' := by
  unfold DelayOk at hd ⊢; rw [h]; exact hd

/-- **every step of a history keeps the RX1 delay between 1 s and 15 s** -/
theorem step_delayOk {σ} (g : Rng σ) (m m' : MacState) (s s' : σ) (ev : Ev) (out : Out) (hd : DelayOk m)
    (h : step g (m, s) ev = .ok ((m', s'), out)) : DelayOk m' := by
  unfold step at h
  cases ev with
  | joinAbp da nwk app => cases h; exact hd
  | setAdr on =>
    simp only [pure, Except.pure, Except.ok.injEq, Prod.mk.injEq] at h
    obtain ⟨⟨rfl, _⟩, _⟩ := h
    unfold macSetAdr DelayOk
    simp only
    split <;> exact hd
  | setDr dr => cases h; exact hd
  | rxc v snr mp =>
    simp only at h
    obtain ⟨rf, _, h⟩ := Except.bind_eq_ok h
    obtain ⟨⟨o, m1⟩, hrx, h⟩ := Except.bind_eq_ok h
    cases h
    exact macHandleRx_delay _ _ _ _ _ _ _ hd hrx
  | joinOtaa fault rx1 rx2 mp1 mp2 =>
    simp only at h
    obtain ⟨⟨o, m1, s1⟩, hj, h⟩ := Except.bind_eq_ok h
    have hd1 := delayOk_of_cfg (macJoinOtaa_cfg g _ _ _ _ _ hj) hd
    cases fault with
    | some k =>
      simp only at h
      obtain ⟨m2, hf, h⟩ := Except.bind_eq_ok h
      cases h; exact faultedCycle_delay _ _ _ _ _ _ _ hd1 hf
    | none =>
      simp only at h
      obtain ⟨⟨r, dl, m2⟩, hc, h⟩ := Except.bind_eq_ok h
      cases h; exact classACycle_delay _ _ _ _ _ _ _ _ hd1 hc
  | uplink data fport conf fault rx1 rx2 mp1 mp2 =>
    simp only at h
    obtain ⟨⟨o, m1, s1⟩, hs, h⟩ := Except.bind_eq_ok h
    have hd1 := delayOk_of_cfg (macSend_cfg g _ _ _ _ _ _ _ _ hs) hd
    cases o with
    | none => cases h; exact hd1
    | some o =>
      simp only at h
      cases fault with
      | some k =>
        simp only at h
        obtain ⟨m2, hf, h⟩ := Except.bind_eq_ok h
        cases h
        exact macRx2Complete_delay _ (faultedCycle_delay _ _ _ _ _ _ _ hd1 hf)
      | none =>
        simp only at h
        obtain ⟨⟨r, dl, m2⟩, hc, h⟩ := Except.bind_eq_ok h
        cases h; exact classACycle_delay _ _ _ _ _ _ _ _ hd1 hc

/-! ## extended histories, and the async front-end's timer arithmetic -/

theorem rxcs_delay (m : MacState) (mp : Nat) (cs : List (RxView × Int)) (os : List RxOut) (fin : Bool) (m' : MacState)
    (hd : DelayOk m) (h : rxcs m mp cs = .ok (os, fin, m')) : DelayOk m' :=
  delayOk_of_cfg (rxcs_cfg _ _ _ _ _ _ h) hd

theorem winC_delay (cc : Bool) (m : MacState) (cs : List (RxView × Int)) (f : Option (RxView × Int)) (mp : Nat)
    (eb ea : Bool) (r : Option (Option RxOut)) (hdl : List RxOut) (m' : MacState) (hd : DelayOk m)
    (h : winC cc m cs f mp eb ea = .ok (r, hdl, m')) : DelayOk m' := by
  unfold winC at h
  obtain ⟨⟨os, fin, m1⟩, hb, hk⟩ := Except.bind_eq_ok h
  have hd1 := delayOk_of_cfg (between_cfg _ _ _ _ _ _ hb) hd
  simp only at hk
  split at hk
  · cases hk; exact hd1
  · obtain ⟨⟨o, m2⟩, hw, hk2⟩ := Except.bind_eq_ok hk
    obtain ⟨_, _, hk3⟩ := Except.bind_eq_ok hk2
    have hd2 := window_delay _ _ _ _ _ hd1 hw
    simp only at hk3
    split at hk3 <;> (cases hk3; exact hd2)

theorem cycleC_delay (cc : Bool) (m : MacState) (fault : Option FaultPos) (c1 c2 : List (RxView × Int))
    (rx1 rx2 : Option (RxView × Int)) (mp1 mp2 : Nat) (fin : ProcEnd) (heard : List RxOut) (m' : MacState) (hd : DelayOk m)
    (h : cycleC cc m fault c1 rx1 c2 rx2 mp1 mp2 = .ok (fin, heard, m')) : DelayOk m' := by
  unfold cycleC at h
  split at h
  · cases h; exact hd
  · obtain ⟨⟨r1, h1, m1⟩, hw1, hk⟩ := Except.bind_eq_ok h
    have hd1 := winC_delay _ _ _ _ _ _ _ _ _ _ hd hw1
    cases r1 with
    | none => cases hk; exact hd1
    | some o1 =>
      cases o1 with
      | some o => cases hk; exact hd1
      | none =>
        simp only at hk
        obtain ⟨⟨r2, h2, m2⟩, hw2, hk2⟩ := Except.bind_eq_ok hk
        have hd2 := winC_delay _ _ _ _ _ _ _ _ _ _ hd1 hw2
        cases r2 with
        | none => cases hk2; exact hd2
        | some o2 => cases o2 <;> (cases hk2; exact hd2)

/-- **every step of an extended history keeps the RX1 delay between 1 s and 15 s** -/
theorem stepC_delayOk {σ} (g : Rng σ) (m : MacState) (s : σ) (ev : EvC) (ms' : MacState × σ) (oc : OutC) (hd : DelayOk m)
    (h : stepC g (m, s) ev = .ok (ms', oc)) : DelayOk ms'.1 := by
  cases ev with
  | base e =>
    simp only [stepC] at h
    obtain ⟨⟨⟨m1, s1⟩, o⟩, hs, hk⟩ := Except.bind_eq_ok h
    cases hk
    exact step_delayOk g m m1 s s1 e o hd hs
  | uplinkC cc data fport conf fault c1 rx1 c2 rx2 =>
    simp only [stepC] at h
    obtain ⟨⟨o, m1, s1⟩, hs, hk⟩ := Except.bind_eq_ok h
    have hd1 := delayOk_of_cfg (macSend_cfg g _ _ _ _ _ _ _ _ hs) hd
    cases o with
    | none => cases hk; exact hd1
    | some o =>
      simp only at hk
      obtain ⟨⟨fin, heard, m2⟩, hcy, hk2⟩ := Except.bind_eq_ok hk
      have hd2 := cycleC_delay _ _ _ _ _ _ _ _ _ _ _ _ hd1 hcy
      cases fin with
      | resp ro => cases hk2; exact hd2
      | complete => cases hk2; exact macRx2Complete_delay _ hd2
      | cut => cases hk2; exact macRx2Complete_delay _ hd2
  | joinC cc fault c1 rx1 c2 rx2 =>
    simp only [stepC] at h
    obtain ⟨⟨o, m1, s1⟩, hj, hk⟩ := Except.bind_eq_ok h
    have hd1 := delayOk_of_cfg (macJoinOtaa_cfg g _ _ _ _ _ hj) hd
    obtain ⟨⟨fin, heard, m2⟩, hcy, hk2⟩ := Except.bind_eq_ok hk
    have hd2 := cycleC_delay _ _ _ _ _ _ _ _ _ _ _ _ hd1 hcy
    cases fin with
    | resp ro => cases hk2; exact hd2
    | complete => cases hk2; exact macRx2Complete_delay _ hd2
    | cut => cases hk2; exact hd2

/-- the board's timing constants are sane: the lead time does not exceed the shortest wait
(1 s + time on air), and the longest (16 s + time on air) fits a `u32` -/
def TimingOk (cfg : DevCfg) : Prop := cfg.lead ≤ 1000 + cfg.txMs ∧ cfg.txMs + 16000 ≤ 4294967295

theorem macRxDelay_range (m : MacState) (hd : DelayOk m) (join second : Bool) :
    1000 ≤ macRxDelay m join second ∧ macRxDelay m join second ≤ 16000 := by
  obtain ⟨h1, h2⟩ := hd
  cases join <;> cases second <;> simp only [macRxDelay] <;>
    first
      | exact ⟨by omega, by omega⟩
      | (constructor <;> decide)

theorem startDelay_timingOk (cfg : DevCfg) (hT : TimingOk cfg) (d : Nat) (h1 : 1000 ≤ d) (h2 : d ≤ 16000) (e : Fault)
    (h : startDelay d cfg.txMs cfg.lead = .error e) : False := by
  obtain ⟨ha, hb⟩ := hT
  unfold startDelay at h
  split at h
  · omega
  · split at h
    · omega
    · cases h

end Model
