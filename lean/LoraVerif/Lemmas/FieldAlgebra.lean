import LoraVerif.Spec.MacCmdSpec
/-! Algebra of bit fields of a little-endian payload value (`Spec.MacCmd.field / setField / setFieldBytes`):
reading back a field that was set, fields that do not overlap it, octet-aligned fields as list surgery. -/
namespace Spec.MacCmd

theorem field_def (p : Bytes) (lo w : Nat) : field p lo w = leValue p / 2 ^ lo % 2 ^ w := rfl

/-- reading back the field just written gives the value reduced to the field width -/
theorem get_setField_same (N lo w v : Nat) : setField N lo w v / 2 ^ lo % 2 ^ w = v % 2 ^ w := by
  unfold setField
  have hp : 0 < 2 ^ lo := Nat.two_pow_pos _
  rw [Nat.add_mul_div_left _ _ hp, Nat.div_eq_of_lt (Nat.mod_lt _ hp), Nat.zero_add, Nat.add_mul_mod_self_left]
  exact Nat.mod_mod _ _

/-- a field entirely above the written one is untouched -/
theorem get_setField_above (N lo w v lo' w' : Nat) (h : lo + w ≤ lo') :
    setField N lo w v / 2 ^ lo' % 2 ^ w' = N / 2 ^ lo' % 2 ^ w' := by
  obtain ⟨k, rfl⟩ : ∃ k, lo' = lo + w + k := ⟨lo' - (lo + w), by omega⟩
  have hp : 0 < 2 ^ lo := Nat.two_pow_pos _
  have hw : 0 < 2 ^ w := Nat.two_pow_pos _
  have e : setField N lo w v / 2 ^ (lo + w) = N / 2 ^ (lo + w) := by
    unfold setField
    rw [Nat.pow_add, ← Nat.div_div_eq_div_mul, Nat.add_mul_div_left _ _ hp, Nat.div_eq_of_lt (Nat.mod_lt _ hp), Nat.zero_add,
      Nat.add_mul_div_left _ _ hw, Nat.div_eq_of_lt (Nat.mod_lt _ hw), Nat.zero_add]
  rw [Nat.pow_add (2) (lo + w) k, ← Nat.div_div_eq_div_mul, ← Nat.div_div_eq_div_mul, e]

/-- a field entirely below the written one is untouched -/
theorem get_setField_below (N lo w v lo' w' : Nat) (h : lo' + w' ≤ lo) :
    setField N lo w v / 2 ^ lo' % 2 ^ w' = N / 2 ^ lo' % 2 ^ w' := by
  obtain ⟨k, rfl⟩ : ∃ k, lo = lo' + w' + k := ⟨lo - (lo' + w'), by omega⟩
  -- x / 2^lo' % 2^w' only depends on x % 2^(lo' + w')
  have key : ∀ x : Nat, x / 2 ^ lo' % 2 ^ w' = x % 2 ^ (lo' + w') / 2 ^ lo' := by
    intro x; rw [Nat.pow_add, Nat.mod_mul_right_div_self]
  rw [key, key N]
  congr 1
  unfold setField
  have : 2 ^ (lo' + w' + k) = 2 ^ (lo' + w') * 2 ^ k := Nat.pow_add _ _ _
  rw [this, Nat.mul_assoc, Nat.add_mul_mod_self_left, Nat.mod_mul_right_mod]

theorem leValue_lt (p : Bytes) (hb : ∀ x ∈ p, x < 256) : leValue p < 256 ^ p.length := by
  induction p with
  | nil => simp [leValue]
  | cons b bs ih =>
    have h0 := hb b (by simp)
    have := ih (fun x hx => hb x (by simp [hx]))
    simp only [leValue, List.length_cons, Nat.pow_succ]
    omega

theorem leValue_toLe (n v : Nat) : leValue (toLe n v) = v % 256 ^ n := by
  induction n generalizing v with
  | zero => simp [toLe, leValue, Nat.mod_one]
  | succ n ih =>
    simp only [toLe, leValue, ih, Nat.pow_succ]
    have h : 0 < 256 ^ n := Nat.pow_pos (by omega)
    rw [Nat.mul_comm (256 ^ n) 256, Nat.mod_mul, Nat.add_comm]

theorem toLe_length (n v : Nat) : (toLe n v).length = n := by
  induction n generalizing v with
  | zero => rfl
  | succ n ih => simp [toLe, ih]

theorem toLe_isBytes (n v : Nat) : ∀ x ∈ toLe n v, x < 256 := by
  induction n generalizing v with
  | zero => simp [toLe]
  | succ n ih =>
    intro x hx
    simp only [toLe, List.mem_cons] at hx
    rcases hx with rfl | hx
    · omega
    · exact ih _ x hx

theorem toLe_leValue (p : Bytes) (hb : ∀ x ∈ p, x < 256) : toLe p.length (leValue p) = p := by
  induction p with
  | nil => rfl
  | cons b bs ih =>
    have h0 := hb b (by simp)
    simp only [List.length_cons, toLe, leValue]
    have h1 : (b + 256 * leValue bs) % 256 = b := by omega
    have h2 : (b + 256 * leValue bs) / 256 = leValue bs := by omega
    rw [h1, h2, ih (fun x hx => hb x (by simp [hx]))]

/-- a field inside the first `n` octets does not see the reduction modulo `256^n` -/
theorem field_mod (x n lo w : Nat) (h : lo + w ≤ 8 * n) : x % 256 ^ n / 2 ^ lo % 2 ^ w = x / 2 ^ lo % 2 ^ w := by
  have key : ∀ x : Nat, x / 2 ^ lo % 2 ^ w = x % 2 ^ (lo + w) / 2 ^ lo := by
    intro x; rw [Nat.pow_add, Nat.mod_mul_right_div_self]
  rw [key, key x]
  congr 1
  have e : (256 : Nat) ^ n = 2 ^ (lo + w) * 2 ^ (8 * n - (lo + w)) := by
    rw [← Nat.pow_add, show (256 : Nat) = 2 ^ 8 by rfl, ← Nat.pow_mul]
    congr 1; omega
  rw [e, Nat.mod_mul_right_mod]

/-- **S1** the field just set reads back as the value reduced to the field width -/
theorem field_setFieldBytes_same (p : Bytes) (lo w v : Nat) (h : lo + w ≤ 8 * p.length) :
    field (setFieldBytes p lo w v) lo w = v % 2 ^ w := by
  unfold field setFieldBytes
  rw [leValue_toLe, field_mod _ _ _ _ h, get_setField_same]

/-- **S2** every field that does not overlap the one set is unchanged -/
theorem field_setFieldBytes_other (p : Bytes) (lo w v lo' w' : Nat) (hd : lo + w ≤ lo' ∨ lo' + w' ≤ lo)
    (h : lo' + w' ≤ 8 * p.length) : field (setFieldBytes p lo w v) lo' w' = field p lo' w' := by
  unfold field setFieldBytes
  rw [leValue_toLe, field_mod _ _ _ _ h]
  rcases hd with hd | hd
  · exact get_setField_above _ _ _ _ _ _ hd
  · exact get_setField_below _ _ _ _ _ _ hd

theorem setFieldBytes_length (p : Bytes) (lo w v : Nat) : (setFieldBytes p lo w v).length = p.length := toLe_length _ _


theorem leValue_append (a b : Bytes) : leValue (a ++ b) = leValue a + 256 ^ a.length * leValue b := by
  induction a with
  | nil => simp [leValue]
  | cons x xs ih =>
    simp only [List.cons_append, leValue, ih, List.length_cons, Nat.pow_succ]
    rw [Nat.mul_add, ← Nat.mul_assoc, Nat.mul_comm 256 (256 ^ xs.length), Nat.add_assoc]

theorem two_pow_8mul (k : Nat) : (2 : Nat) ^ (8 * k) = 256 ^ k := by rw [Nat.pow_mul]

/-- **octet-aligned fields are list surgery**: writing the `m`-octet field at octet `pre.length` of
`pre ++ mid ++ post` with the little-endian value of `src` replaces `mid` by `src` -/
theorem setFieldBytes_aligned (pre mid post src : Bytes) (hm : src.length = mid.length)
    (hpre : ∀ x ∈ pre, x < 256) (hmid : ∀ x ∈ mid, x < 256) (hpost : ∀ x ∈ post, x < 256) (hsrc : ∀ x ∈ src, x < 256) :
    setFieldBytes (pre ++ mid ++ post) (8 * pre.length) (8 * mid.length) (leValue src) = pre ++ src ++ post := by
  have hA := leValue_lt pre hpre
  have hM := leValue_lt mid hmid
  have hS := leValue_lt src hsrc
  have pk : 0 < 256 ^ pre.length := Nat.pow_pos (by omega)
  have pm : 0 < 256 ^ mid.length := Nat.pow_pos (by omega)
  unfold setFieldBytes setField
  rw [← Nat.mul_add, two_pow_8mul, two_pow_8mul, two_pow_8mul, Nat.pow_add]
  have eN : leValue (pre ++ mid ++ post) = leValue pre + 256 ^ pre.length * (leValue mid + 256 ^ mid.length * leValue post) := by
    rw [List.append_assoc, leValue_append, leValue_append]
  have e1 : leValue (pre ++ mid ++ post) % 256 ^ pre.length = leValue pre := by
    rw [eN, Nat.add_mul_mod_self_left, Nat.mod_eq_of_lt hA]
  have e2 : leValue (pre ++ mid ++ post) / (256 ^ pre.length * 256 ^ mid.length) = leValue post := by
    rw [eN, ← Nat.div_div_eq_div_mul, Nat.add_mul_div_left _ _ pk, Nat.div_eq_of_lt hA, Nat.zero_add,
      Nat.add_mul_div_left _ _ pm, Nat.div_eq_of_lt hM, Nat.zero_add]
  have e3 : leValue src % 256 ^ mid.length = leValue src := Nat.mod_eq_of_lt (hm ▸ hS)
  rw [e1, e2, e3]
  have eR : leValue pre + 256 ^ pre.length * (leValue src + 256 ^ mid.length * leValue post) = leValue (pre ++ src ++ post) := by
    rw [List.append_assoc, leValue_append, leValue_append, hm]
  rw [eR]
  have hl : (pre ++ mid ++ post).length = (pre ++ src ++ post).length := by simp [hm]
  rw [hl]
  apply toLe_leValue
  intro x hx
  simp only [List.mem_append] at hx
  rcases hx with (hx | hx) | hx
  · exact hpre x hx
  · exact hsrc x hx
  · exact hpost x hx

/-- `toLe` of a value below `256^n` is its list of `n` little-endian octets: inverse of `leValue` -/
theorem leValue_toLe_lt (n v : Nat) (h : v < 256 ^ n) : leValue (toLe n v) = v := by
  rw [leValue_toLe, Nat.mod_eq_of_lt h]

end Spec.MacCmd

namespace Spec.MacCmd

/-- a sequence of field writes `(lo, w, v)` applied in order -/
def applyAll (p : Bytes) (cs : List (Nat × Nat × Nat)) : Bytes :=
  cs.foldl (fun p c => setFieldBytes p c.1 c.2.1 c.2.2) p

theorem applyAll_length (p : Bytes) (cs : List (Nat × Nat × Nat)) : (applyAll p cs).length = p.length := by
  induction cs generalizing p with
  | nil => rfl
  | cons c cs ih => simp only [applyAll, List.foldl_cons] at ih ⊢; rw [ih, setFieldBytes_length]

/-- **never disturbs other fields**: a field that none of the writes overlaps keeps its value through any sequence of writes -/
theorem field_applyAll_untouched (p : Bytes) (cs : List (Nat × Nat × Nat)) (lo w : Nat) (hfit : lo + w ≤ 8 * p.length)
    (h : ∀ c ∈ cs, c.1 + c.2.1 ≤ lo ∨ lo + w ≤ c.1) : field (applyAll p cs) lo w = field p lo w := by
  induction cs generalizing p with
  | nil => rfl
  | cons c cs ih =>
    simp only [applyAll, List.foldl_cons] at ih ⊢
    rw [ih _ (by rw [setFieldBytes_length]; exact hfit) (fun c' hc' => h c' (by simp [hc']))]
    exact field_setFieldBytes_other p c.1 c.2.1 c.2.2 lo w (h c (by simp)) hfit

/-- **exactly the value that was set, truncated to the field**: after any sequence of writes, a field reads as the value
of the last write to it (reduced modulo the field width), provided the later writes do not overlap it -/
theorem field_applyAll_last (p : Bytes) (pre post : List (Nat × Nat × Nat)) (lo w v : Nat) (hfit : lo + w ≤ 8 * p.length)
    (h : ∀ c ∈ post, c.1 + c.2.1 ≤ lo ∨ lo + w ≤ c.1) :
    field (applyAll p (pre ++ (lo, w, v) :: post)) lo w = v % 2 ^ w := by
  have e : applyAll p (pre ++ (lo, w, v) :: post) = applyAll (setFieldBytes (applyAll p pre) lo w v) post := by
    simp [applyAll, List.foldl_append]
  rw [e, field_applyAll_untouched _ post lo w (by rw [setFieldBytes_length, applyAll_length]; exact hfit) h]
  exact field_setFieldBytes_same _ lo w v (by rw [applyAll_length]; exact hfit)

end Spec.MacCmd
