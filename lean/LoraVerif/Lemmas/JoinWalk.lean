import LoraVerif.Lemmas.MacWF
/-!
The join-channel walk of the fixed plans (`AvailableChannels::get_next`): byte-level facts about
the availability mask (decided over all 256 byte values) and the invariant `AvInv`: banks are visited
in cyclic order, each visit takes one free channel of the bank visited, hence the bank visited next
always has a free channel (`avInv_next_nonempty`) until all 72 have been used and the mask is renewed.
-/
open Gen.Region Gen.Modulation

namespace Model

theorem byte_clear_all : ∀ b ∈ List.range 256, ∀ j ∈ List.range 8,
    (!b.testBit j || (byteCnt (b &&& (255 - (1 <<< j))) + 1 == byteCnt b)) = true := by decide +kernel

theorem byte_pos_all : ∀ b ∈ List.range 256, (byteCnt b == 0 || (List.range 8).any (fun j => b.testBit j)) = true := by
  decide +kernel

theorem byte_zero_all : ∀ b ∈ List.range 256, (byteCnt b != 0 || b == 0) = true := by decide +kernel

theorem byteCnt_255 : byteCnt 255 = 8 := by decide

theorem byte_clear {b j : Nat} (hb : b < 256) (hj : j < 8) (ht : b.testBit j = true) :
    byteCnt (b &&& (255 - (1 <<< j))) + 1 = byteCnt b := by
  have := byte_clear_all b (List.mem_range.mpr hb) j (List.mem_range.mpr hj)
  simpa [ht] using this

theorem byte_pos {b : Nat} (hb : b < 256) (hc : 1 ≤ byteCnt b) : ∃ j, j < 8 ∧ b.testBit j = true := by
  have := byte_pos_all b (List.mem_range.mpr hb)
  simp only [Bool.or_eq_true, beq_iff_eq, List.any_eq_true, List.mem_range] at this
  rcases this with h0 | ⟨j, hj, ht⟩
  · omega
  · exact ⟨j, hj, ht⟩

theorem byte_zero {b : Nat} (hb : b < 256) (hc : byteCnt b = 0) : b = 0 := by
  have := byte_zero_all b (List.mem_range.mpr hb)
  simp only [Bool.or_eq_true, bne_iff_ne, ne_eq, beq_iff_eq] at this
  rcases this with h0 | h0
  · exact absurd hc h0
  · exact h0

/-! ## the walk over the join channels of a fixed plan -/

theorem cyc_step {b0 b k : Nat} (hb0 : b0 < 9) (hb : b < 9) (hk : k < 9) (hne : (b + 1) % 9 ≠ b0) :
    (inCyc b0 ((b + 1) % 9) k ↔ inCyc b0 b k ∨ k = (b + 1) % 9) ∧ ¬ inCyc b0 b ((b + 1) % 9) := by
  unfold inCyc
  by_cases h1 : b0 ≤ b <;> by_cases h2 : b0 ≤ (b + 1) % 9 <;> simp only [h1, h2, if_true, if_false] <;>
    refine ⟨⟨fun h => ?_, fun h => ?_⟩, fun h => ?_⟩ <;> first | omega | (exact h.1.elim) | (simp at h; omega)

theorem cyc_full {b0 b k : Nat} (hb0 : b0 < 9) (hb : b < 9) (hk : k < 9) (he : (b + 1) % 9 = b0) : inCyc b0 b k := by
  unfold inCyc
  by_cases h1 : b0 ≤ b <;> simp only [h1, if_true, if_false] <;> omega

theorem cyc_single {b0 k : Nat} : inCyc b0 b0 k ↔ k = b0 := by
  unfold inCyc
  simp only [Nat.le_refl, if_true]; omega

theorem bankCnt_default (k : Nat) (hk : k < 9) : bankCnt Mask.default k = 8 := by
  have : k = 0 ∨ k = 1 ∨ k = 2 ∨ k = 3 ∨ k = 4 ∨ k = 5 ∨ k = 6 ∨ k = 7 ∨ k = 8 := by omega
  rcases this with rfl | rfl | rfl | rfl | rfl | rfl | rfl | rfl | rfl <;> decide

theorem default_lt : ∀ b ∈ Mask.default, b < 256 := by decide

theorem bankCnt_set (m : Mask) (i v k : Nat) (hi : i < m.length) :
    bankCnt (m.set i v) k = if k = i then byteCnt v else bankCnt m k := by
  unfold bankCnt
  by_cases hki : k = i
  · subst hki; simp [List.getElem?_set_self hi]
  · rw [List.getElem?_set_ne (Ne.symm hki)]; simp [hki]

/-- clearing a channel: the byte, the new mask, and what `is_enabled` said about it -/
theorem setChannel_false_spec (m : Mask) (ch : Nat) (hm : m.length = 9) (hch : ch < 72) :
    ∃ b, m[ch / 8]? = some b ∧ m.setChannel ch false = .ok (m.set (ch / 8) (b &&& (255 - (1 <<< (ch % 8))))) ∧
      m.isEnabled ch = .ok (b.testBit (ch % 8)) := by
  have hidx : ch / 8 < m.length := by omega
  refine ⟨m[ch / 8], List.getElem?_eq_getElem hidx, ?_, ?_⟩
  · unfold Mask.setChannel
    rw [List.getElem?_eq_getElem hidx]; simp
  · unfold Mask.isEnabled
    have : ¬ ch > m.length * 8 - 1 := by omega
    simp only [this, if_false]
    rw [List.getElem?_eq_getElem hidx]

theorem mem_set_lt (m : Mask) (i v : Nat) (hm : ∀ b ∈ m, b < 256) (hv : v < 256) : ∀ b ∈ m.set i v, b < 256 := by
  intro b hb
  rcases List.mem_or_eq_of_mem_set hb with h | h
  · exact hm b h
  · rw [h]; exact hv

theorem and_lt_256 (b x : Nat) : b &&& (255 - x) < 256 := by
  have := @Nat.and_le_right b (255 - x)
  omega

/-- the first pick on a fresh mask (also: the last biased join attempt, which initialises the walk) -/
theorem avInv_first (ch : Nat) (a' : Mask) (hch : ch < 72) (hs : Mask.default.setChannel ch false = .ok a') :
    AvInv a' (some ch) := by
  obtain ⟨b, hb, hset, _⟩ := setChannel_false_spec Mask.default ch (by decide) hch
  rw [hset] at hs
  cases hs
  have hb255 : b = 255 := by
    have : ch / 8 < 9 := by omega
    have h9 : ∀ k, k < 9 → Mask.default[k]? = some 255 := by
      intro k hk
      have : k = 0 ∨ k = 1 ∨ k = 2 ∨ k = 3 ∨ k = 4 ∨ k = 5 ∨ k = 6 ∨ k = 7 ∨ k = 8 := by omega
      rcases this with rfl | rfl | rfl | rfl | rfl | rfl | rfl | rfl | rfl <;> rfl
    rw [h9 _ this] at hb; cases hb; rfl
  subst hb255
  have hbit : (255 : Nat).testBit (ch % 8) = true := by
    have : ch % 8 < 8 := Nat.mod_lt _ (by decide)
    have h8 : ∀ j ∈ List.range 8, (255 : Nat).testBit j = true := by decide
    exact h8 _ (List.mem_range.mpr this)
  have hc := byte_clear (b := 255) (j := ch % 8) (by decide) (Nat.mod_lt _ (by decide)) hbit
  rw [byteCnt_255] at hc
  refine ⟨by simp [Mask.default], mem_set_lt _ _ _ default_lt (and_lt_256 _ _), hch, ch / 8, 1, by omega, by omega, by omega, ?_⟩
  intro k hk
  rw [bankCnt_set _ _ _ _ (by simp [Mask.default]; omega), bankCnt_default k hk]
  by_cases hki : k = ch / 8
  · simp only [hki, if_true, cyc_single.mpr rfl]; omega
  · have : ¬ inCyc (ch / 8) (ch / 8) k := fun h => hki (cyc_single.mp h)
    simp only [hki, this, if_false]

theorem not_exhausted {m : Mask} (hm : m.length = 9) (hlt : ∀ b ∈ m, b < 256) (h : availIsExhausted m = false) :
    ∃ k, k < 9 ∧ 1 ≤ bankCnt m k := by
  unfold availIsExhausted at h
  have : ¬ (∀ b ∈ m, (b == 0) = true) := by
    intro hall
    rw [List.all_eq_true.mpr hall] at h; cases h
  have : ∃ b ∈ m, b ≠ 0 := by
    apply Classical.byContradiction
    intro hne
    apply this
    intro b hb
    have : ¬ b ≠ 0 := fun hh => hne ⟨b, hb, hh⟩
    simpa using this
  obtain ⟨b, hb, hb0⟩ := this
  obtain ⟨k, hk, hkb⟩ := List.getElem_of_mem hb
  refine ⟨k, by omega, ?_⟩
  unfold bankCnt
  rw [List.getElem?_eq_getElem hk, hkb]
  simp only
  have := hlt b hb
  apply Classical.byContradiction
  intro hc
  exact hb0 (byte_zero this (by omega))

/-- the bank the walk turns to next still has a channel to offer -/
theorem avInv_next_nonempty (avail : Mask) (pv : Nat) (h : AvInv avail (some pv)) (hex : availIsExhausted avail = false) :
    1 ≤ bankCnt avail ((pv / 8 + 1) % 9) := by
  obtain ⟨hm, hlt, hpv, b0, t, hb0, ht1, ht8, hsh⟩ := h
  obtain ⟨k0, hk0, hc0⟩ := not_exhausted hm hlt hex
  have hb : pv / 8 < 9 := by omega
  have hnb : (pv / 8 + 1) % 9 < 9 := Nat.mod_lt _ (by decide)
  by_cases he : (pv / 8 + 1) % 9 = b0
  · have hall : ∀ k, k < 9 → bankCnt avail k = 8 - t := by
      intro k hk
      rw [hsh k hk]; simp only [cyc_full hb0 hb hk he, if_true]
    rw [hall _ hnb]
    rw [hall k0 hk0] at hc0
    exact hc0
  · rw [hsh _ hnb]
    simp only [(cyc_step hb0 hb hnb he).2, if_false]
    omega

/-- one step of the walk keeps the invariant: the channel taken lies in the next bank and was free -/
theorem avInv_next (avail a' : Mask) (pv ch : Nat) (h : AvInv avail (some pv)) (hex : availIsExhausted avail = false)
    (hch : ch < 72) (hbank : ch / 8 = (pv / 8 + 1) % 9) (hen : avail.isEnabled ch = .ok true)
    (hs : avail.setChannel ch false = .ok a') : AvInv a' (some ch) := by
  obtain ⟨hm, hlt, hpv, b0, t, hb0, ht1, ht8, hsh⟩ := h
  obtain ⟨k0, hk0, hc0⟩ := not_exhausted hm hlt hex
  obtain ⟨b, hb, hset, hie⟩ := setChannel_false_spec avail ch hm hch
  rw [hset] at hs
  cases hs
  rw [hie] at hen
  have hbit : b.testBit (ch % 8) = true := Except.ok.inj hen
  have hbl : b < 256 := hlt b (List.mem_of_getElem? hb)
  have hc := byte_clear hbl (Nat.mod_lt _ (by decide)) hbit
  have hcb : bankCnt avail (ch / 8) = byteCnt b := by unfold bankCnt; rw [hb]
  have hbk : pv / 8 < 9 := by omega
  have hnb : (pv / 8 + 1) % 9 < 9 := Nat.mod_lt _ (by decide)
  have hidx : ch / 8 < avail.length := by omega
  refine ⟨by simp [hm], mem_set_lt _ _ _ hlt (and_lt_256 _ _), hch, ?_⟩
  by_cases he : (pv / 8 + 1) % 9 = b0
  · -- a round is complete: every bank holds 8 − t; the next round starts at b0
    have hall : ∀ k, k < 9 → bankCnt avail k = 8 - t := by
      intro k hk
      rw [hsh k hk]; simp only [cyc_full hb0 hbk hk he, if_true]
    have ht7 : t ≤ 7 := by
      have := hall k0 hk0; omega
    refine ⟨b0, t + 1, hb0, by omega, by omega, ?_⟩
    intro k hk
    rw [bankCnt_set _ _ _ _ hidx]
    by_cases hki : k = ch / 8
    · have hin : inCyc b0 (ch / 8) k := by
        rw [hbank, he]; exact cyc_single.mpr (by omega)
      rw [if_pos hki, if_pos hin]
      have := hall (ch / 8) (by omega)
      omega
    · have hkb0 : k ≠ b0 := by omega
      have hnc : ¬ inCyc b0 (ch / 8) k := by
        rw [hbank, he]; exact fun h => hkb0 (cyc_single.mp h)
      rw [if_neg hki, if_neg hnc, hall k hk]; omega
  · obtain hstep := fun k hk => (cyc_step (k := k) hb0 hbk hk he)
    refine ⟨b0, t, hb0, ht1, ht8, ?_⟩
    intro k hk
    rw [bankCnt_set _ _ _ _ hidx]
    by_cases hki : k = ch / 8
    · have hin : inCyc b0 (ch / 8) k := by
        rw [hbank]; exact ((hstep k hk).1).mpr (Or.inr (by omega))
      have hcnt := hsh (ch / 8) (by omega)
      rw [hbank] at hcnt
      rw [if_neg (hstep _ hnb).2] at hcnt
      rw [if_pos hki, if_pos hin]
      rw [hbank] at hcb
      omega
    · have hiff : inCyc b0 (ch / 8) k ↔ inCyc b0 (pv / 8) k := by
        rw [hbank]
        constructor
        · intro h
          rcases ((hstep k hk).1).mp h with h | h
          · exact h
          · omega
        · intro h; exact ((hstep k hk).1).mpr (Or.inl h)
      rw [if_neg hki, hsh k hk]
      by_cases hc1 : inCyc b0 (pv / 8) k
      · rw [if_pos hc1, if_pos (hiff.mpr hc1)]
      · rw [if_neg hc1, if_neg (fun h => hc1 (hiff.mp h))]


end Model
