import LoraVerif.Lemmas.RefineNb
/-!
# The radio and timer calls of the async receive procedure

For C10 on the front-end: between the transmission and the end of the procedure, the calls the async
front-end logs fall into an RX1 segment followed by an RX2 segment; every window set-up of a segment
uses the window configuration the MAC handed out WITH the uplink (by value) and the board's window
buffer, every timer of a segment is `delay + tx_ms − lead` with the delay the MAC state had WHEN THE
FRAME WAS BUILT — nothing handled in between (Class C frames: MAC commands ignored; a frame in RX1
that is answered `NoUpdate`: nothing changed) moves it.
-/
set_option linter.unusedSimpArgs false
namespace Model

/-- a call of the segment of one window: sleep / RXC listening, the window set-up with configuration
`rf` and the board's buffer, the timer at `t`, the single reception -/
def WinCall (cfg : DevCfg) (rf : RfConfig) (t : Nat) (c : Call) : Prop :=
  c = .lowPower ∨ c = .rxSingle ∨ c = .rxContinuous ∨ (∃ rfc, c = .setupRx rfc none) ∨
    c = .setupRx rf (some cfg.buffer) ∨ c = .at t

def CallsSince (P : Call → Prop) (r r' : DevRun) : Prop := ∃ added, r'.calls = added ++ r.calls ∧ ∀ c ∈ added, P c

theorem CallsSince.refl (P : Call → Prop) (r : DevRun) : CallsSince P r r := ⟨[], rfl, by simp⟩

theorem CallsSince.trans {P : Call → Prop} {a b c : DevRun} (h1 : CallsSince P a b) (h2 : CallsSince P b c) : CallsSince P a c := by
  obtain ⟨x, hx, hx'⟩ := h1
  obtain ⟨y, hy, hy'⟩ := h2
  refine ⟨y ++ x, by rw [hy, hx, List.append_assoc], ?_⟩
  intro c hc
  rcases List.mem_append.mp hc with h | h
  · exact hy' c h
  · exact hx' c h

theorem CallsSince.one {P : Call → Prop} {r r' : DevRun} {c : Call} (h : r'.calls = c :: r.calls) (hp : P c) : CallsSince P r r' :=
  ⟨[c], h, by simpa using hp⟩

def Step.run {α} : Step α → DevRun
  | .cont _ r => r
  | .radioErr r => r
  | .macErr r => r

theorem rxcLoop_calls (cfg : DevCfg) (rf : RfConfig) (mp d : Nat) (fuel : Nat) (r : DevRun) (st : Step Unit)
    (h : rxcLoop mp d fuel r = .ok st) : CallsSince (WinCall cfg rf d) r st.run ∧ st.run.m.cfg = r.m.cfg := by
  induction fuel generalizing r with
  | zero => cases h
  | succ fuel ih =>
    unfold rxcLoop at h
    simp only [DevRun.next, DevRun.log] at h
    have hrc : WinCall cfg rf d .rxContinuous := Or.inr (Or.inr (Or.inl rfl))
    have hat : WinCall cfg rf d (.at d) := Or.inr (Or.inr (Or.inr (Or.inr (Or.inr rfl))))
    cases hs : r.script with
    | nil =>
      simp only [hs, pure, Except.pure, Except.ok.injEq] at h
      subst h
      exact ⟨⟨[.at d, .rxContinuous], rfl, by intro c hc; simp at hc; rcases hc with rfl | rfl <;> assumption⟩, rfl⟩
    | cons i rest =>
      cases i with
      | ok =>
        simp only [hs, pure, Except.pure, Except.ok.injEq] at h
        subst h
        exact ⟨⟨[.at d, .rxContinuous], rfl, by intro c hc; simp at hc; rcases hc with rfl | rfl <;> assumption⟩, rfl⟩
      | err =>
        simp only [hs, pure, Except.pure, Except.ok.injEq] at h
        subst h
        exact ⟨⟨[.at d, .rxContinuous], rfl, by intro c hc; simp at hc; rcases hc with rfl | rfl <;> assumption⟩, rfl⟩
      | frame snr v =>
        simp only [hs] at h
        obtain ⟨⟨o, m⟩, hrx, hk⟩ := Except.bind_eq_ok h
        have hcfg := macHandleRx_c_cfg _ _ _ _ _ _ hrx
        cases o with
        | none =>
          simp only [DevRun.deliver] at hk
          obtain ⟨h1, h2⟩ := ih _ hk
          exact ⟨(CallsSince.one (r' := ⟨m, rest, Call.rxContinuous :: r.calls, r.downlinks, r.dlCap⟩) rfl hrc).trans h1,
            by rw [h2]; exact hcfg⟩
        | some o =>
          simp only [deliver_some] at hk
          obtain ⟨h1, h2⟩ := ih _ hk
          exact ⟨(CallsSince.one (r' := ⟨m, rest, Call.rxContinuous :: r.calls, pushDl r.dlCap r.downlinks o, r.dlCap⟩) rfl hrc).trans h1,
            by rw [h2]; exact hcfg⟩

theorem simpleCall_calls (r : DevRun) (c : Call) : (r.simpleCall c).run.calls = c :: r.calls ∧ (r.simpleCall c).run.m = r.m := by
  rw [simpleCall_eq]
  split <;> exact ⟨rfl, rfl⟩

theorem betweenWindows_calls (cfg : DevCfg) (rf : RfConfig) (d : Nat) (r : DevRun) (st : Step Unit)
    (h : betweenWindows cfg d r = .ok st) : CallsSince (WinCall cfg rf d) r st.run ∧ st.run.m.cfg = r.m.cfg := by
  unfold betweenWindows at h
  cases hcc : cfg.classC with
  | true =>
    simp only [hcc, if_true] at h
    obtain ⟨rfc, _, hk⟩ := Except.bind_eq_ok h
    have hc : WinCall cfg rf d (.setupRx rfc none) := Or.inr (Or.inr (Or.inr (Or.inl ⟨rfc, rfl⟩)))
    rw [simpleCall_eq] at hk
    by_cases he : (nextItem r.script).1.isErr = true
    · simp only [he, if_true, pure, Except.pure, Except.ok.injEq] at hk
      subst hk
      exact ⟨CallsSince.one rfl hc, rfl⟩
    · simp only [he, Bool.false_eq_true, if_false] at hk
      obtain ⟨h1, h2⟩ := rxcLoop_calls cfg rf _ d 64 _ st hk
      exact ⟨(CallsSince.one (r' := afterCall r (.setupRx rfc none)) rfl hc).trans h1, h2⟩
  | false =>
    simp only [hcc, Bool.false_eq_true, if_false] at h
    have hc : WinCall cfg rf d .lowPower := Or.inl rfl
    have hat : WinCall cfg rf d (.at d) := Or.inr (Or.inr (Or.inr (Or.inr (Or.inr rfl))))
    rw [simpleCall_eq] at h
    by_cases he : (nextItem r.script).1.isErr = true
    · simp only [he, if_true, pure, Except.pure, Except.ok.injEq] at h
      subst h
      exact ⟨CallsSince.one rfl hc, rfl⟩
    · simp only [he, Bool.false_eq_true, if_false, pure, Except.pure, Except.ok.injEq] at h
      subst h
      exact ⟨⟨[.at d, .lowPower], rfl, by intro c hcm; simp at hcm; rcases hcm with rfl | rfl <;> assumption⟩, rfl⟩

theorem windowComplete_calls (cfg : DevCfg) (rf : RfConfig) (t : Nat) (r : DevRun) (st : Step Unit)
    (h : windowComplete cfg r = .ok st) : CallsSince (WinCall cfg rf t) r st.run ∧ st.run.m = r.m := by
  unfold windowComplete at h
  cases hcc : cfg.classC with
  | true =>
    simp only [hcc, if_true] at h
    obtain ⟨rfc, _, hk⟩ := Except.bind_eq_ok h
    simp only [pure, Except.pure, Except.ok.injEq] at hk
    subst hk
    obtain ⟨h1, h2⟩ := simpleCall_calls r (.setupRx rfc none)
    exact ⟨CallsSince.one h1 (Or.inr (Or.inr (Or.inr (Or.inl ⟨rfc, rfl⟩)))), h2⟩
  | false =>
    simp only [hcc, Bool.false_eq_true, if_false, pure, Except.pure, Except.ok.injEq] at h
    subst h
    obtain ⟨h1, h2⟩ := simpleCall_calls r .lowPower
    exact ⟨CallsSince.one h1 (Or.inl rfl), h2⟩

/-- the listening part: its calls, and — when the window produced no response — an unchanged MAC state -/
theorem rxListen_calls (cfg : DevCfg) (rf : RfConfig) (t : Nat) (r : DevRun) (st : Step (Option RxOut))
    (h : rxListen cfg rf r = .ok st) :
    CallsSince (WinCall cfg rf t) r st.run ∧ ∀ r', st = .cont none r' → r'.m = r.m := by
  have hrs : WinCall cfg rf t .rxSingle := Or.inr (Or.inl rfl)
  unfold rxListen at h
  simp only [DevRun.next, DevRun.log] at h
  have tail : ∀ (r2 : DevRun) (o : Option RxOut) (st2 : Step Unit), windowComplete cfg r2 = .ok st2 →
      CallsSince (WinCall cfg rf t) r r2 →
      (match st2 with
        | .cont _ r3 => (Step.cont o r3 : Step (Option RxOut))
        | .radioErr r3 => .radioErr r3
        | .macErr r3 => .macErr r3) = st →
      CallsSince (WinCall cfg rf t) r st.run ∧ st.run.m = r2.m := by
    intro r2 o st2 hwc hcs hst
    obtain ⟨h1, h2⟩ := windowComplete_calls cfg rf t r2 st2 hwc
    subst hst
    cases st2 <;> exact ⟨hcs.trans h1, h2⟩
  cases hs : r.script with
  | nil =>
    simp only [hs] at h
    obtain ⟨st2, hwc, hk⟩ := Except.bind_eq_ok h
    have := tail _ none st2 hwc (CallsSince.one rfl hrs) (by cases st2 <;> simpa [pure, Except.pure] using hk)
    exact ⟨this.1, fun r' e => by rw [e] at this; exact this.2⟩
  | cons i rest =>
    cases i with
    | ok =>
      simp only [hs] at h
      obtain ⟨st2, hwc, hk⟩ := Except.bind_eq_ok h
      have := tail _ none st2 hwc (CallsSince.one rfl hrs) (by cases st2 <;> simpa [pure, Except.pure] using hk)
      exact ⟨this.1, fun r' e => by rw [e] at this; exact this.2⟩
    | err =>
      simp only [hs, pure, Except.pure, Except.ok.injEq] at h
      subst h
      exact ⟨CallsSince.one rfl hrs, fun r' e => by cases e⟩
    | frame snr v =>
      simp only [hs] at h
      obtain ⟨⟨o, m⟩, hrx, hk⟩ := Except.bind_eq_ok h
      obtain ⟨st2, hwc, hk2⟩ := Except.bind_eq_ok hk
      have hdf := deliver_fields ({ m := m, script := rest, calls := Call.rxSingle :: r.calls, downlinks := r.downlinks, dlCap := r.dlCap } : DevRun) o
      have hcs : CallsSince (WinCall cfg rf t) r
          (({ m := m, script := rest, calls := Call.rxSingle :: r.calls, downlinks := r.downlinks, dlCap := r.dlCap } : DevRun).deliver o) :=
        CallsSince.one (by rw [hdf.2.2.1]) hrs
      have := tail _ (swallow o) st2 hwc hcs (by cases st2 <;> simpa [pure, Except.pure] using hk2)
      refine ⟨this.1, ?_⟩
      intro r' e
      rw [e] at this
      have hm := this.2
      simp only [Step.run] at hm
      rw [hm, hdf.1]
      -- the verdict was `none`: the frame was answered `NoUpdate`
      have hsw : swallow o = none := by
        cases st2 with
        | cont u r3 =>
          simp only [pure, Except.pure, Except.ok.injEq] at hk2
          rw [← hk2] at e
          simp only [Step.cont.injEq] at e
          exact e.1
        | radioErr r3 => simp only [pure, Except.pure, Except.ok.injEq] at hk2; rw [← hk2] at e; cases e
        | macErr r3 => simp only [pure, Except.pure, Except.ok.injEq] at hk2; rw [← hk2] at e; cases e
      cases o with
      | none => exact (macHandleRx_window_some _ _ _ _ _ hrx).elim
      | some o' =>
        simp only [swallow] at hsw
        split at hsw
        · rename_i hn
          exact macHandleRx_noUpdate_state _ _ _ _ _ _ hrx (by simpa using hn)
        · cases hsw

theorem startDelay_val {delay txMs lead t : Nat} (h : startDelay delay txMs lead = .ok t) : t = delay + txMs - lead := by
  unfold startDelay at h
  split at h
  · cases h
  · split at h
    · cases h
    · cases h; rfl

/-- **one window with what precedes it**: every call is one of the window's own, with configuration
`rf` and the timer `delay + tx_ms − lead` for the delay of the state the window procedure starts in;
if the window produced no response, the configuration of the MAC is what it was -/
theorem oneWindow_calls (cfg : DevCfg) (join second : Bool) (rf : RfConfig) (r : DevRun) (st : Step (Option RxOut))
    (h : oneWindow cfg join second rf r = .ok st) :
    CallsSince (WinCall cfg rf (macRxDelay r.m join second + cfg.txMs - cfg.lead)) r st.run ∧
      ∀ r', st = .cont none r' → r'.m.cfg = r.m.cfg := by
  unfold oneWindow at h
  obtain ⟨d, hd, hk⟩ := Except.bind_eq_ok h
  have hdv := startDelay_val hd
  subst hdv
  obtain ⟨stb, hb, hk2⟩ := Except.bind_eq_ok hk
  obtain ⟨hb1, hb2⟩ := betweenWindows_calls cfg rf _ r stb hb
  cases stb with
  | radioErr r1 =>
    simp only [pure, Except.pure, Except.ok.injEq] at hk2
    subst hk2
    exact ⟨hb1, fun r' e => by cases e⟩
  | macErr r1 =>
    simp only [pure, Except.pure, Except.ok.injEq] at hk2
    subst hk2
    exact ⟨hb1, fun r' e => by cases e⟩
  | cont u r1 =>
    simp only at hk2
    simp only [Step.run] at hb1 hb2
    rw [simpleCall_eq] at hk2
    have hsrx : WinCall cfg rf (macRxDelay r.m join second + cfg.txMs - cfg.lead) (.setupRx rf (some cfg.buffer)) :=
      Or.inr (Or.inr (Or.inr (Or.inr (Or.inl rfl))))
    by_cases he : (nextItem r1.script).1.isErr = true
    · simp only [he, if_true, pure, Except.pure, Except.ok.injEq] at hk2
      subst hk2
      exact ⟨hb1.trans (CallsSince.one (r' := afterCall r1 _) rfl hsrx), fun r' e => by cases e⟩
    · simp only [he, Bool.false_eq_true, if_false] at hk2
      obtain ⟨hl1, hl2⟩ := rxListen_calls cfg rf _ (afterCall r1 (.setupRx rf (some cfg.buffer))) st hk2
      refine ⟨(hb1.trans (CallsSince.one (r' := afterCall r1 _) rfl hsrx)).trans hl1, ?_⟩
      intro r' e
      rw [hl2 r' e]
      exact hb2

theorem macRxDelay_congr (m m' : MacState) (h : m'.cfg = m.cfg) (join second : Bool) :
    macRxDelay m' join second = macRxDelay m join second := by
  unfold macRxDelay; rw [h]

/-- **the receive procedure: an RX1 segment, then an RX2 segment**, each with the window
configuration handed out with the uplink and the timer of the delay in force when the procedure began -/
theorem rxDownlink_calls (cfg : DevCfg) (join : Bool) (tx : TxOut) (r : DevRun) (st : Step Response)
    (h : rxDownlink cfg join tx r = .ok st) :
    ∃ seg1 seg2, st.run.calls = seg2 ++ seg1 ++ r.calls ∧
      (∀ c ∈ seg1, WinCall cfg tx.rx1 (macRxDelay r.m join false + cfg.txMs - cfg.lead) c) ∧
      (∀ c ∈ seg2, WinCall cfg tx.rx2 (macRxDelay r.m join true + cfg.txMs - cfg.lead) c) := by
  unfold rxDownlink at h
  obtain ⟨st1, h1, hk⟩ := Except.bind_eq_ok h
  obtain ⟨⟨seg1, hs1, hp1⟩, hcfg1⟩ := oneWindow_calls cfg join false tx.rx1 r st1 h1
  cases st1 with
  | radioErr r1 =>
    simp only [pure, Except.pure, Except.ok.injEq] at hk
    subst hk
    exact ⟨seg1, [], (by simp only [Step.run] at hs1 ⊢; simpa using hs1), hp1, by simp⟩
  | macErr r1 =>
    simp only [pure, Except.pure, Except.ok.injEq] at hk
    subst hk
    exact ⟨seg1, [], (by simp only [Step.run] at hs1 ⊢; simpa using hs1), hp1, by simp⟩
  | cont o r1 =>
    cases o with
    | some o =>
      simp only [pure, Except.pure, Except.ok.injEq] at hk
      subst hk
      exact ⟨seg1, [], (by simp only [Step.run] at hs1 ⊢; simpa using hs1), hp1, by simp⟩
    | none =>
      simp only at hk
      simp only [Step.run] at hs1
      obtain ⟨st2, h2, hk2⟩ := Except.bind_eq_ok hk
      obtain ⟨⟨seg2, hs2, hp2⟩, _⟩ := oneWindow_calls cfg join true tx.rx2 r1 st2 h2
      rw [macRxDelay_congr r.m r1.m (hcfg1 r1 rfl)] at hp2
      have hcalls : st2.run.calls = seg2 ++ seg1 ++ r.calls := by rw [hs2, hs1, List.append_assoc]
      cases st2 with
      | radioErr r2 =>
        simp only [pure, Except.pure, Except.ok.injEq] at hk2
        subst hk2
        exact ⟨seg1, seg2, hcalls, hp1, hp2⟩
      | macErr r2 =>
        simp only [pure, Except.pure, Except.ok.injEq] at hk2
        subst hk2
        exact ⟨seg1, seg2, hcalls, hp1, hp2⟩
      | cont o2 r2 =>
        cases o2 with
        | some o =>
          simp only [pure, Except.pure, Except.ok.injEq] at hk2
          subst hk2
          exact ⟨seg1, seg2, hcalls, hp1, hp2⟩
        | none =>
          simp only [pure, Except.pure, Except.ok.injEq] at hk2
          subst hk2
          exact ⟨seg1, seg2, hcalls, hp1, hp2⟩

/-- the calls of one `send`: none if the MAC refuses; else the transmission of the frame `Mac::send`
built, with the radio configuration it returned, and — unless the radio refused it — the timer reset
and the two window segments -/
def SendCalls (cfg : DevCfg) (d d' : DevRun) (so : SendOut) (m1 : MacState) : Prop :=
  d'.calls = Call.tx so.tx (frameLen so.frame) :: d.calls ∨
  ∃ seg1 seg2, d'.calls = seg2 ++ seg1 ++ Call.reset :: Call.tx so.tx (frameLen so.frame) :: d.calls ∧
    (∀ c ∈ seg1, WinCall cfg so.tx.rx1 (macRxDelay m1 false false + cfg.txMs - cfg.lead) c) ∧
    (∀ c ∈ seg2, WinCall cfg so.tx.rx2 (macRxDelay m1 false true + cfg.txMs - cfg.lead) c)

theorem asyncSend_calls {σ} (g : Rng σ) (cfg : DevCfg) (d : DevRun) (data : List Nat) (port : Nat) (conf : Bool) (rs : σ)
    (res : DevResult) (d' : DevRun) (rs' : σ) (h : asyncSend g cfg d data port conf rs = .ok (res, d', rs')) :
    (∃ m1 rs1, macSend g d.m data port conf rs = .ok (none, m1, rs1) ∧ d'.calls = d.calls) ∨
    ∃ so m1 rs1, macSend g d.m data port conf rs = .ok (some so, m1, rs1) ∧ SendCalls cfg d d' so m1 := by
  unfold asyncSend at h
  obtain ⟨⟨o, m1, rs1⟩, hsend, hk⟩ := Except.bind_eq_ok h
  cases o with
  | none =>
    simp only [pure, Except.pure, Except.ok.injEq, Prod.mk.injEq] at hk
    obtain ⟨_, rfl, _⟩ := hk
    exact Or.inl ⟨m1, rs1, hsend, rfl⟩
  | some so =>
    refine Or.inr ⟨so, m1, rs1, hsend, ?_⟩
    simp only [simpleCall_eq] at hk
    by_cases he : (nextItem d.script).1.isErr = true
    · simp only [he, if_true, pure, Except.pure, Except.ok.injEq, Prod.mk.injEq] at hk
      obtain ⟨_, rfl, _⟩ := hk
      exact Or.inl rfl
    · simp only [he, Bool.false_eq_true, if_false] at hk
      obtain ⟨st, hrx, hk2⟩ := Except.bind_eq_ok hk
      obtain ⟨seg1, seg2, hc, hp1, hp2⟩ := rxDownlink_calls cfg false so.tx _ st hrx
      refine Or.inr ⟨seg1, seg2, ?_, hp1, hp2⟩
      cases st <;> simp only [pure, Except.pure, Except.ok.injEq, Prod.mk.injEq] at hk2 <;> obtain ⟨_, rfl, _⟩ := hk2 <;>
        exact hc

def JoinCalls (cfg : DevCfg) (d d' : DevRun) (jo : JoinOut) (m1 : MacState) : Prop :=
  d'.calls = Call.tx jo.tx 23 :: d.calls ∨
  ∃ seg1 seg2, d'.calls = seg2 ++ seg1 ++ Call.reset :: Call.tx jo.tx 23 :: d.calls ∧
    (∀ c ∈ seg1, WinCall cfg jo.tx.rx1 (macRxDelay m1 true false + cfg.txMs - cfg.lead) c) ∧
    (∀ c ∈ seg2, WinCall cfg jo.tx.rx2 (macRxDelay m1 true true + cfg.txMs - cfg.lead) c)

theorem asyncJoin_calls {σ} (g : Rng σ) (cfg : DevCfg) (d : DevRun) (rs : σ)
    (res : DevResult) (d' : DevRun) (rs' : σ) (h : asyncJoin g cfg d rs = .ok (res, d', rs')) :
    ∃ jo m1 rs1, macJoinOtaa g d.m rs = .ok (jo, m1, rs1) ∧ JoinCalls cfg d d' jo m1 := by
  unfold asyncJoin at h
  obtain ⟨⟨jo, m1, rs1⟩, hjoin, hk⟩ := Except.bind_eq_ok h
  refine ⟨jo, m1, rs1, hjoin, ?_⟩
  simp only [simpleCall_eq] at hk
  by_cases he : (nextItem d.script).1.isErr = true
  · simp only [he, if_true, pure, Except.pure, Except.ok.injEq, Prod.mk.injEq] at hk
    obtain ⟨_, rfl, _⟩ := hk
    exact Or.inl rfl
  · simp only [he, Bool.false_eq_true, if_false] at hk
    obtain ⟨st, hrx, hk2⟩ := Except.bind_eq_ok hk
    obtain ⟨seg1, seg2, hc, hp1, hp2⟩ := rxDownlink_calls cfg true jo.tx _ st hrx
    refine Or.inr ⟨seg1, seg2, ?_, hp1, hp2⟩
    cases st <;> simp only [pure, Except.pure, Except.ok.injEq, Prod.mk.injEq] at hk2 <;> obtain ⟨_, rfl, _⟩ := hk2 <;>
      exact hc

end Model
