import LoraVerif.Lemmas.PhyTieA
/-!
# Tie A for the PHY command encoders, continued (builder P): composition and finite case analysis

* `denote_bind` / `tie_bind`: the tie between a generated action and a hand-model program is
  compositional — if `m` is tied to `p` and, for every value, `f a` to `g a`, then `m >>= f` is tied
  to `p >>= g` (same requests, same chip, same `Ok` / `Err` / panic).  The per-method theorems of
  `Props/TieA/C13Sx127.lean` are proved once for the variant function and reused for the `RadioKind`
  method that calls it.
* `AllFrom` / `allFrom_elim`: a statement about every integer of an interval from its instances, for
  statements that are not decidable (they quantify over all chips and prefixes): the clamped power
  requests of `set_tx_power` are evaluated value by value.
-/
namespace TieA.Phy
open Model.Phy Rt.Phy

/-- the run of `p >>= g` is the run of `p` followed by the run of `g` on its value -/
theorem denote_bind {α β : Type} (p : Prog α) (g : α → Prog β) (c : Chip) (log : List Ev) :
    denote (Prog.bind p g) c log =
      match denote p c log with
      | none => none
      | some (.error e, c1, log1) => some (.error e, c1, log1)
      | some (.ok a, c1, log1) => denote (g a) c1 log1 := by
  induction p generalizing c log with
  | ret a => rfl
  | fail e => rfl
  | panic s => rfl
  | io req k ih =>
    cases req <;> simp only [Prog.bind, denote] <;> exact ih _ _ _
  | ioE req k ih =>
    cases req <;> simp only [Prog.bind, denote] <;> exact ih _ _ _

/-- the tie is compositional -/
theorem tie_bind {α β α' β' : Type} (va : α → α') (vb : β → β')
    (m : IoM Gen.PhyErr.RadioError Chip α) (f : α → IoM Gen.PhyErr.RadioError Chip β)
    (p : Prog α') (g : α' → Prog β') (c : Chip) (log : List Ev)
    (h1 : view va (m chipDev c log) = denote p c log)
    (h2 : ∀ a c1 log1, view vb (f a chipDev c1 log1) = denote (g (va a)) c1 log1) :
    view vb ((m >>= f) chipDev c log) = denote (Prog.bind p g) c log := by
  rw [denote_bind, ← h1, bind_def]
  simp only [IoM.bind]
  cases h : m chipDev c log with
  | none => rfl
  | some r =>
    obtain ⟨r, c1, l1⟩ := r
    cases r with
    | error e => rfl
    | ok a => exact h2 a c1 l1

/-- `P lo ∧ P (lo + 1) ∧ … ∧ P (lo + n - 1)` -/
def AllFrom (P : Int → Prop) : Int → Nat → Prop
  | _, 0 => True
  | lo, n + 1 => P lo ∧ AllFrom P (lo + 1) n

theorem allFrom_elim (P : Int → Prop) (lo : Int) (n : Nat) (h : AllFrom P lo n) :
    ∀ k, lo ≤ k → k < lo + n → P k := by
  induction n generalizing lo with
  | zero => intro k h1 h2; omega
  | succ n ih =>
    intro k h1 h2
    by_cases hk : k = lo
    · subst hk; exact h.1
    · exact ih (lo + 1) h.2 k (by omega) (by omega)

end TieA.Phy

/- from `hk : max lo (min hi p) = k` (the translation of `p.clamp(lo, hi)`): the same value written
`p.max(lo).min(hi)` / `p.min(hi).max(lo)`, so that a clamp spelled differently is evaluated as well -/
set_option hygiene false in
macro "clamp_forms" hk:ident lo:term:max hi:term:max p:term:max : tactic => `(tactic| (
  have hk2 : min (max $p $lo) $hi = max $lo (min $hi $p) := by omega
  have hk3 : max (min $p $hi) $lo = max $lo (min $hi $p) := by omega
  rw [$hk:ident] at hk2 hk3))
