import LoraVerif.Lemmas.PhyTieA
/-!
# Tie A for the PHY command encoders, continued (builder P): composition and finite case analysis

* `denote_bind` / `tie_bind`: the tie between a generated action and a hand-model program is
  compositional — if `m` is tied to `p` and, for every value, `f a` to `g a`, then `m >>= f` is tied
  to `p >>= g` (same requests, same chip, same `Ok` / `Err` / panic).  The per-method theorems of
  `Props/TieA/C13Sx127.lean` are proved once for the variant function and reused for the `RadioKind`
  method that calls it.
* `AllFrom` / `allFrom_elim`: a statement about every integer of an interval from its instances, for
  statements that are not decidable (they quantify over all chips and prefixes): the clamped power
  requests of `set_tx_power` are evaluated value by value.
-/
namespace TieA.Phy
open Model.Phy Rt.Phy

/-- the run of `p >>= g` is the run of `p` followed by the run of `g` on its value -/
theorem denote_bind {α β : Type} (p : Prog α) (g : α → Prog β) (c : Chip) (log : List Ev) :
    denote (Prog.bind p g) c log =
      match denote p c log with
      | none => none
      | some (.error e, c1, log1) => some (.error e, c1, log1)
      | some (.ok a, c1, log1) => denote (g a) c1 log1 := by
  induction p generalizing c log with
  | ret a => rfl
  | fail e => rfl
  | panic s => rfl
  | io req k ih =>
    cases req <;> simp only [Prog.bind, denote] <;> exact ih _ _ _
  | ioE req k ih =>
    cases req <;> simp only [Prog.bind, denote] <;> exact ih _ _ _

/-- the tie is compositional -/
theorem tie_bind {α β α' β' : Type} (va : α → α') (vb : β → β')
    (m : IoM Gen.PhyErr.RadioError Chip α) (f : α → IoM Gen.PhyErr.RadioError Chip β)
    (p : Prog α') (g : α' → Prog β') (c : Chip) (log : List Ev)
    (h1 : view va (m chipDev c log) = denote p c log)
    (h2 : ∀ a c1 log1, view vb (f a chipDev c1 log1) = denote (g (va a)) c1 log1) :
    view vb ((m >>= f) chipDev c log) = denote (Prog.bind p g) c log := by
  rw [denote_bind, ← h1, bind_def]
  simp only [IoM.bind]
  cases h : m chipDev c log with
  | none => rfl
  | some r =>
    obtain ⟨r, c1, l1⟩ := r
    cases r with
    | error e => rfl
    | ok a => exact h2 a c1 l1

/-! ## one register access at a time (SX127x): the generated `read_register` / `write_register` against the model's -/
open Gen.PhyCodes127 in
/-- what a generated `read_register(r)` must evaluate to on the chip (proved per unit by evaluation) -/
def IsRead127 (m : IoM Gen.PhyErr.RadioError Chip Int) (r : Gen.PhyCodes127.Register) : Prop :=
  ∀ (c : Chip) (log : List Ev), m chipDev c log =
    some (.ok ((byteAt (c.transact [Sx127x.rd r] 1).1 0 : Nat) : Int), (c.transact [Sx127x.rd r] 1).2,
      log ++ [Ev.spi [((Sx127x.rd r).toNat : Int)] 1, Ev.busy])

/-- what a generated `write_register(r, v)` must evaluate to on the chip -/
def IsWrite127 (m : IoM Gen.PhyErr.RadioError Chip Unit) (r : Gen.PhyCodes127.Register) (v : Int) : Prop :=
  ∀ (c : Chip) (log : List Ev), m chipDev c log =
    some (.ok (), (c.transact [Sx127x.wr r, byte v] 0).2, log ++ [Ev.spi [((Sx127x.wr r).toNat : Int), v] 0, Ev.busy])

theorem denote_readRegister_bind {β : Type} (r : Gen.PhyCodes127.Register) (g : UInt8 → Prog β) (c : Chip) (log : List Ev) :
    denote (Prog.bind (Sx127x.readRegister r) g) c log =
      denote (g (UInt8.ofNat (byteAt (c.transact [Sx127x.rd r] 1).1 0))) (c.transact [Sx127x.rd r] 1).2
        (log ++ [Ev.spi [((Sx127x.rd r).toNat : Int)] 1, Ev.busy]) := by
  simp only [Sx127x.readRegister, Model.Phy.bind_eq, Model.Phy.pure_eq_ret, prog_bind_assoc, denote_intfRead_bind, Model.Phy.bind_ret,
    toInts_cons, toInts_nil]

theorem denote_writeRegister_bind {β : Type} (r : Gen.PhyCodes127.Register) (u : UInt8) (g : Unit → Prog β) (c : Chip) (log : List Ev) :
    denote (Prog.bind (Sx127x.writeRegister r u) g) c log =
      denote (g ()) (c.transact [Sx127x.wr r, u] 0).2 (log ++ [Ev.spi [((Sx127x.wr r).toNat : Int), (u.toNat : Int)] 0, Ev.busy]) := by
  simp only [Sx127x.writeRegister, denote_intfWrite_bind, toInts_cons, toInts_nil, Bool.false_eq_true, if_false]

theorem denote_writeRegister (r : Gen.PhyCodes127.Register) (u : UInt8) (c : Chip) (log : List Ev) :
    denote (Sx127x.writeRegister r u) c log =
      some (.ok (), (c.transact [Sx127x.wr r, u] 0).2, log ++ [Ev.spi [((Sx127x.wr r).toNat : Int), (u.toNat : Int)] 0, Ev.busy]) := by
  simp only [Sx127x.writeRegister, denote_intfWrite, toInts_cons, toInts_nil, Bool.false_eq_true, if_false]

/-- a read on both sides: the continuations are compared for every byte the chip may answer -/
theorem tie_read {β β' : Type} (vb : β → β') (m : IoM Gen.PhyErr.RadioError Chip Int) (r : Gen.PhyCodes127.Register) (hm : IsRead127 m r)
    (f : Int → IoM Gen.PhyErr.RadioError Chip β) (g : UInt8 → Prog β') (c : Chip) (log : List Ev)
    (h : ∀ (b : UInt8) (c1 : Chip) (log1 : List Ev), view vb (f (b.toNat : Int) chipDev c1 log1) = denote (g b) c1 log1) :
    view vb ((m >>= f) chipDev c log) = denote (Prog.bind (Sx127x.readRegister r) g) c log := by
  rw [denote_readRegister_bind, bind_def]
  simp only [IoM.bind, hm c log]
  rw [← h]
  have e : byteAt (c.transact [Sx127x.rd r] 1).1 0 % 2 ^ 8 = byteAt (c.transact [Sx127x.rd r] 1).1 0 :=
    Nat.mod_eq_of_lt (byteAt_lt _ _)
  simp only [UInt8.toNat_ofNat', e]

/-- a write on both sides: the same byte (`v` is the value of the model's byte `u`), then the continuations -/
theorem tie_write {β β' : Type} (vb : β → β') (m : IoM Gen.PhyErr.RadioError Chip Unit) (r : Gen.PhyCodes127.Register) (v : Int) (hm : IsWrite127 m r v)
    (u : UInt8) (hv : v = (u.toNat : Int))
    (f : Unit → IoM Gen.PhyErr.RadioError Chip β) (g : Unit → Prog β') (c : Chip) (log : List Ev)
    (h : ∀ (c1 : Chip) (log1 : List Ev), view vb (f () chipDev c1 log1) = denote (g ()) c1 log1) :
    view vb ((m >>= f) chipDev c log) = denote (Prog.bind (Sx127x.writeRegister r u) g) c log := by
  rw [denote_writeRegister_bind, bind_def]
  simp only [IoM.bind, hm c log]
  subst hv
  rw [← h, byte_toNat]

/-- a write in tail position -/
theorem tie_write_last (m : IoM Gen.PhyErr.RadioError Chip Unit) (r : Gen.PhyCodes127.Register) (v : Int) (hm : IsWrite127 m r v)
    (u : UInt8) (hv : v = (u.toNat : Int)) (c : Chip) (log : List Ev) :
    view id (m chipDev c log) = denote (Sx127x.writeRegister r u) c log := by
  rw [denote_writeRegister, hm c log]
  subst hv
  simp only [view, byte_toNat, id]

/-- a write in tail position of the model, followed by nothing but `Ok(())` in the driver -/
theorem tie_write_end (m : IoM Gen.PhyErr.RadioError Chip Unit) (r : Gen.PhyCodes127.Register) (v : Int) (hm : IsWrite127 m r v)
    (u : UInt8) (hv : v = (u.toNat : Int)) (f : Unit → IoM Gen.PhyErr.RadioError Chip Unit)
    (hf : ∀ (c1 : Chip) (log1 : List Ev), f () chipDev c1 log1 = some (.ok (), c1, log1)) (c : Chip) (log : List Ev) :
    view id ((m >>= f) chipDev c log) = denote (Sx127x.writeRegister r u) c log := by
  rw [denote_writeRegister, bind_def]
  simp only [IoM.bind, hm c log, hf]
  subst hv
  simp only [view, byte_toNat, id]

/-- `action?; Ok(())` is the action -/
theorem bind_pure_unit {ε σ : Type} (m : IoM ε σ Unit) : (m >>= fun _ => (pure () : IoM ε σ Unit)) = m := by
  funext dev s log
  rw [bind_def]
  simp only [IoM.bind]
  cases h : m dev s log with
  | none => rfl
  | some r =>
    obtain ⟨r, s1, l1⟩ := r
    cases r <;> rfl

/-- both sides are done -/
theorem tie_done (c : Chip) (log : List Ev) :
    view id ((pure () : IoM Gen.PhyErr.RadioError Chip Unit) chipDev c log) = denote (Prog.ret ()) c log := rfl

/-- the values of byte expressions: the model's `UInt8` operations and the generated `Rt` operations on
non-negative integers meet in `Nat` -/
theorem andI_toNat (a b : Nat) : Rt.andI (a : Int) (b : Int) = ((a &&& b : Nat) : Int) := andI_nat a b
theorem orI_toNat (a b : Nat) : Rt.orI (a : Int) (b : Int) = ((a ||| b : Nat) : Int) := orI_nat a b
theorem andI_lit_r (a : Nat) (n : Nat) : Rt.andI (a : Int) (no_index (OfNat.ofNat n)) = ((a &&& n : Nat) : Int) := andI_nat a n
theorem orI_lit_r (a : Nat) (n : Nat) : Rt.orI (a : Int) (no_index (OfNat.ofNat n)) = ((a ||| n : Nat) : Int) := orI_nat a n
theorem orI_lit_l (a : Nat) (n : Nat) : Rt.orI (no_index (OfNat.ofNat n)) (a : Int) = ((n ||| a : Nat) : Int) := orI_nat n a
theorem andI_lit_l (a : Nat) (n : Nat) : Rt.andI (no_index (OfNat.ofNat n)) (a : Int) = ((n &&& a : Nat) : Int) := andI_nat n a

/-- `P lo ∧ P (lo + 1) ∧ … ∧ P (lo + n - 1)` -/
def AllFrom (P : Int → Prop) : Int → Nat → Prop
  | _, 0 => True
  | lo, n + 1 => P lo ∧ AllFrom P (lo + 1) n

theorem allFrom_elim (P : Int → Prop) (lo : Int) (n : Nat) (h : AllFrom P lo n) :
    ∀ k, lo ≤ k → k < lo + n → P k := by
  induction n generalizing lo with
  | zero => intro k h1 h2; omega
  | succ n ih =>
    intro k h1 h2
    by_cases hk : k = lo
    · subst hk; exact h.1
    · exact ih (lo + 1) h.2 k (by omega) (by omega)

end TieA.Phy

/- from `hk : max lo (min hi p) = k` (the translation of `p.clamp(lo, hi)`): the same value written
`p.max(lo).min(hi)` / `p.min(hi).max(lo)`, so that a clamp spelled differently is evaluated as well -/
set_option hygiene false in
macro "clamp_forms" hk:ident lo:term:max hi:term:max p:term:max : tactic => `(tactic| (
  have hk2 : min (max $p $lo) $hi = max $lo (min $hi $p) := by omega
  have hk3 : max (min $p $hi) $lo = max $lo (min $hi $p) := by omega
  rw [$hk:ident] at hk2 hk3))
