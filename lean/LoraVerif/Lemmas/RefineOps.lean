import LoraVerif.Lemmas.RefinePlain
/-!
# Sequences of application calls on the async front-end refine (extended) histories

`asyncOps` runs a list of application calls (`send` / `join` each with the script of radio answers
it meets, ABP activation, the setters) on the async front-end model; `abstractOp` maps each call to
one event; `asyncOps_sim`: the whole session is simulated by `runC` on the mapped list.  With no
frame heard between windows (every script in Class A) the events are those of `Model/History.lean`
and `runC` is `run` (`runC_plain`, `asyncOps_refines_run`).
-/
namespace Model

/-- an application call on the async device, with the script the radio answers it with -/
inductive AsyncOp where
  | send (data : List Nat) (port : Nat) (conf : Bool) (script : List ScriptItem)
  | join (script : List ScriptItem)
  | abp (devAddr nwk app : Nat)
  | setAdr (on : Bool)
  | setDr (dr : Nat)
  deriving Repr

/-- the data frame `send` hands to the radio in this state (`Mac::send` builds it before the first
radio call; the `tx` call is logged iff this is `some`) — what `Driver/Dev.lean` prints as `up=` and
the harness compares with the frame the real radio was given -/
def sentFrame {σ} (g : Rng σ) (m : MacState) (data : List Nat) (port : Nat) (conf : Bool) (rs : σ) : Option UplinkDesc :=
  match macSend g m data port conf rs with
  | .ok (some o, _, _) => some o.frame
  | _ => none

/-- what the application (and the radio) see of one call -/
structure OpObs where
  /-- the call's result (`none` for ABP activation and the setters, which cannot fail) -/
  res : Option DevResult
  /-- the data frame handed to the radio -/
  frame : Option UplinkDesc
  deriving Repr

def asyncOp {σ} (g : Rng σ) (cfg : DevCfg) (r : DevRun) (rs : σ) : AsyncOp → M (OpObs × DevRun × σ)
  | .send data port conf script => do
    let (res, r', rs') ← asyncSend g cfg { r with script := script } data port conf rs
    pure ({ res := some res, frame := sentFrame g r.m data port conf rs }, r', rs')
  | .join script => do
    let (res, r', rs') ← asyncJoin g cfg { r with script := script } rs
    pure ({ res := some res, frame := none }, r', rs')
  | .abp da nwk app => pure ({ res := none, frame := none }, { r with m := macJoinAbp r.m da nwk app }, rs)
  | .setAdr on => pure ({ res := none, frame := none }, { r with m := macSetAdr r.m on }, rs)
  | .setDr dr => pure ({ res := none, frame := none }, { r with m := macSetDatarate r.m dr }, rs)

/-- a session: the calls in order (radio/timer calls and the downlink queue accumulate in the `DevRun`) -/
def asyncOps {σ} (g : Rng σ) (cfg : DevCfg) : DevRun → σ → List AsyncOp → M (List OpObs × DevRun × σ)
  | r, rs, [] => pure ([], r, rs)
  | r, rs, op :: rest => do
    let (ob, r, rs) ← asyncOp g cfg r rs op
    let (obs, r, rs) ← asyncOps g cfg r rs rest
    pure (ob :: obs, r, rs)

/-- **the event of an application call** -/
def abstractOp (cfg : DevCfg) : AsyncOp → EvC
  | .send data port conf script => abstractSendC cfg script data port conf
  | .join script => abstractJoinC cfg script
  | .abp da nwk app => .base (.joinAbp da nwk app)
  | .setAdr on => .base (.setAdr on)
  | .setDr dr => .base (.setDr dr)

def Out.frame? : Out → Option UplinkDesc
  | .up o _ _ => some o.frame
  | _ => none

/-- observation of a call against the output of its event -/
def ObsRel (ob : OpObs) (oc : OutC) : Prop :=
  (match ob.res with
   | some res => RespRel res oc.out
   | none => oc.out = .done) ∧ ob.frame = oc.out.frame?

theorem stepC_send_frame {σ} (g : Rng σ) (m : MacState) (s : σ) (cfg : DevCfg) (script : List ScriptItem)
    (data : List Nat) (port : Nat) (conf : Bool) (ms' : MacState × σ) (oc : OutC)
    (h : stepC g (m, s) (abstractSendC cfg script data port conf) = .ok (ms', oc)) :
    sentFrame g m data port conf s = oc.out.frame? := by
  have key : ∀ cc fault c1 rx1 c2 rx2,
      stepC g (m, s) (.uplinkC cc data port conf fault c1 rx1 c2 rx2) = .ok (ms', oc) →
      sentFrame g m data port conf s = oc.out.frame? := by
    intro cc fault c1 rx1 c2 rx2 h
    simp only [stepC] at h
    obtain ⟨⟨o, m1, s1⟩, hsend, hk⟩ := Except.bind_eq_ok h
    unfold sentFrame
    rw [hsend]
    cases o with
    | none =>
      simp only [pure, Except.pure, Except.ok.injEq, Prod.mk.injEq] at hk
      obtain ⟨_, rfl⟩ := hk
      rfl
    | some o =>
      simp only at hk
      obtain ⟨⟨fin, heard, m2⟩, _, hk2⟩ := Except.bind_eq_ok hk
      cases fin <;> simp only [pure, Except.pure, Except.ok.injEq, Prod.mk.injEq] at hk2 <;>
        obtain ⟨_, rfl⟩ := hk2 <;> rfl
  unfold abstractSendC at h
  split at h <;> exact key _ _ _ _ _ _ h

theorem stepC_join_frame {σ} (g : Rng σ) (ms ms' : MacState × σ) (cfg : DevCfg) (script : List ScriptItem) (oc : OutC)
    (h : stepC g ms (abstractJoinC cfg script) = .ok (ms', oc)) : oc.out.frame? = none := by
  have key : ∀ cc fault c1 rx1 c2 rx2, stepC g ms (.joinC cc fault c1 rx1 c2 rx2) = .ok (ms', oc) → oc.out.frame? = none := by
    intro cc fault c1 rx1 c2 rx2 h
    simp only [stepC] at h
    obtain ⟨⟨o, m1, s1⟩, _, hk⟩ := Except.bind_eq_ok h
    obtain ⟨⟨fin, heard, m2⟩, _, hk2⟩ := Except.bind_eq_ok hk
    cases fin <;> simp only [pure, Except.pure, Except.ok.injEq, Prod.mk.injEq] at hk2 <;>
      obtain ⟨_, rfl⟩ := hk2 <;> rfl
  unfold abstractJoinC at h
  split at h <;> exact key _ _ _ _ _ _ h

/-- one call against one event -/
structure CallRel {σ} (a : OpObs × DevRun × σ) (b : (MacState × σ) × OutC) : Prop where
  m : a.2.1.m = b.1.1
  rng : a.2.2 = b.1.2
  obs : ObsRel a.1 b.2

theorem asyncOp_simX {σ} {X : Fault → Prop} (hXh : X (.hang "between_windows")) (g : Rng σ) (cfg : DevCfg) (r : DevRun)
    (rs : σ) (op : AsyncOp)
    (hXd : ∀ join second e, startDelay (macRxDelay r.m join second) cfg.txMs cfg.lead = .error e → X e) :
    SimX X (asyncOp g cfg r rs op) (stepC g (r.m, rs) (abstractOp cfg op)) CallRel := by
  cases op with
  | send data port conf script =>
    simp only [asyncOp, abstractOp]
    refine SimX.map_left (f := fun x => (({ res := some x.1, frame := sentFrame g r.m data port conf rs } : OpObs), x.2.1, x.2.2))
      (asyncSend_sim hXh g cfg { r with script := script } data port conf rs (hXd false)) ?_
    intro a b _ hst hrel
    exact ⟨hrel.m, hrel.rng, hrel.resp, stepC_send_frame g r.m rs cfg script data port conf b.1 b.2 hst⟩
  | join script =>
    simp only [asyncOp, abstractOp]
    refine SimX.map_left (f := fun x => (({ res := some x.1, frame := none } : OpObs), x.2.1, x.2.2))
      (asyncJoin_sim hXh g cfg { r with script := script } rs (hXd true)) ?_
    intro a b _ hst hrel
    exact ⟨hrel.m, hrel.rng, hrel.resp, (stepC_join_frame g _ b.1 cfg script b.2 hst).symm⟩
  | abp da nwk app => exact ⟨_, rfl, rfl, rfl, rfl, rfl⟩
  | setAdr on => exact ⟨_, rfl, rfl, rfl, rfl, rfl⟩
  | setDr dr => exact ⟨_, rfl, rfl, rfl, rfl, rfl⟩

theorem asyncOp_sim {σ} (g : Rng σ) (cfg : DevCfg) (r : DevRun) (rs : σ) (op : AsyncOp) :
    SimX Extra (asyncOp g cfg r rs op) (stepC g (r.m, rs) (abstractOp cfg op)) CallRel :=
  asyncOp_simX extra_hang g cfg r rs op (fun _ _ e he => startDelay_extra _ _ _ e he)

/-- pointwise relation of two lists of equal length -/
inductive AllRel {α β : Type} (R : α → β → Prop) : List α → List β → Prop
  | nil : AllRel R [] []
  | cons {a : α} {b : β} {as : List α} {bs : List β} : R a b → AllRel R as bs → AllRel R (a :: as) (b :: bs)

/-- a session against a history -/
structure SessRel {σ} (a : List OpObs × DevRun × σ) (b : (MacState × σ) × List OutC) : Prop where
  m : a.2.1.m = b.1.1
  rng : a.2.2 = b.1.2
  obs : AllRel ObsRel a.1 b.2

/-- sessions, for any set `X` of front-end failures and any invariant `I` of the history's steps that
confines the failures of the timer arithmetic to `X` -/
theorem asyncOps_simX {σ} {X : Fault → Prop} (hXh : X (.hang "between_windows")) (g : Rng σ) (cfg : DevCfg)
    (I : MacState → Prop)
    (hstep : ∀ m s ev ms' oc, I m → stepC g (m, s) ev = .ok (ms', oc) → I ms'.1)
    (hX : ∀ m join second e, I m → startDelay (macRxDelay m join second) cfg.txMs cfg.lead = .error e → X e)
    (r : DevRun) (rs : σ) (ops : List AsyncOp) (hI : I r.m) :
    SimX X (asyncOps g cfg r rs ops) (runC g (r.m, rs) (ops.map (abstractOp cfg))) SessRel := by
  induction ops generalizing r rs with
  | nil => exact SimX.pure ⟨rfl, rfl, .nil⟩
  | cons op rest ih =>
    unfold asyncOps
    simp only [List.map_cons, runC]
    refine SimX.bind_eq (asyncOp_simX hXh g cfg r rs op (fun join second e he => hX r.m join second e hI he)) ?_
    intro ⟨ob, r1, rs1⟩ ⟨⟨m1, s1⟩, oc⟩ _ hst hrel
    have hm : r1.m = m1 := hrel.m
    have hr : rs1 = s1 := hrel.rng
    subst hm hr
    refine SimX.bind (ih r1 rs1 (hstep r.m rs _ _ oc hI hst)) ?_
    intro ⟨obs, r2, rs2⟩ ⟨ms2, ocs⟩ hrel2
    exact SimX.pure ⟨hrel2.m, hrel2.rng, .cons hrel.obs hrel2.obs⟩

/-- **every session of the async front-end is simulated by the extended history of its calls** -/
theorem asyncOps_sim {σ} (g : Rng σ) (cfg : DevCfg) (r : DevRun) (rs : σ) (ops : List AsyncOp) :
    SimX Extra (asyncOps g cfg r rs ops) (runC g (r.m, rs) (ops.map (abstractOp cfg))) SessRel :=
  asyncOps_simX extra_hang g cfg (fun _ => True) (fun _ _ _ _ _ _ _ => trivial)
    (fun _ _ _ e _ he => startDelay_extra _ _ _ e he) r rs ops trivial

/-! ## back to `History.run` -/

/-- the `Ev` list of a list of extended events, along the run (each `plainOf` in the state reached) -/
def plainRun {σ} (g : Rng σ) : MacState × σ → List EvC → List Ev
  | _, [] => []
  | ms, ev :: rest =>
    plainOf g ms.1 ms.2 ev ::
      (match step g ms (plainOf g ms.1 ms.2 ev) with
       | .ok (ms', _) => plainRun g ms' rest
       | .error _ => [])

/-- **a run of extended events without frames heard in between is a run of `Model/History.lean`**:
same final state, same outputs -/
theorem runC_plain {σ} (g : Rng σ) (ms ms' : MacState × σ) (evs : List EvC) (hp : ∀ ev ∈ evs, ev.plain = true)
    (ocs : List OutC) (h : runC g ms evs = .ok (ms', ocs)) :
    run g ms (plainRun g ms evs) = .ok (ms', ocs.map (·.out)) := by
  induction evs generalizing ms ocs with
  | nil =>
    simp only [runC, pure, Except.pure, Except.ok.injEq, Prod.mk.injEq] at h
    obtain ⟨rfl, rfl⟩ := h
    rfl
  | cons ev rest ih =>
    unfold runC at h
    obtain ⟨⟨ms1, oc⟩, hstep, hk⟩ := Except.bind_eq_ok h
    obtain ⟨⟨ms2, ocs2⟩, hrun, hk2⟩ := Except.bind_eq_ok hk
    simp only [pure, Except.pure, Except.ok.injEq, Prod.mk.injEq] at hk2
    obtain ⟨rfl, rfl⟩ := hk2
    obtain ⟨m, s⟩ := ms
    have hs := stepC_plain g m s ev (hp ev List.mem_cons_self) ms1 oc hstep
    have hr := ih ms1 (fun e he => hp e (List.mem_cons_of_mem _ he)) ocs2 hrun
    simp only [plainRun, hs, run, hr, bind, Except.bind, pure, Except.pure, List.map_cons]

/-- no frame is heard between windows in any call of the session -/
def AsyncOp.plain (cfg : DevCfg) : AsyncOp → Bool
  | .send _ _ _ script => plainScript cfg script
  | .join script => plainScript cfg script
  | _ => true

theorem abstractOp_plain (cfg : DevCfg) (op : AsyncOp) : (abstractOp cfg op).plain = op.plain cfg := by
  cases op with
  | send data port conf script => exact abstractSendC_plain cfg script data port conf
  | join script => rfl
  | abp da nwk app => rfl
  | setAdr on => rfl
  | setDr dr => rfl

/-- **the history of a session** (`abstractAsync` call by call, in the states the history reaches) -/
def abstractSession {σ} (g : Rng σ) (cfg : DevCfg) (m : MacState) (rs : σ) (ops : List AsyncOp) : List Ev :=
  plainRun g (m, rs) (ops.map (abstractOp cfg))

/-- **every session of the async front-end in which no frame is heard between windows (every
session of a Class A device) refines `History.run`**: if the session returns, the history
`abstractSession` returns the same MAC and generator state, and its outputs are, call by call, the
front-end's answers and the frames it handed to the radio. -/
theorem asyncOps_refines_run {σ} (g : Rng σ) (cfg : DevCfg) (r : DevRun) (rs : σ) (ops : List AsyncOp)
    (hp : ∀ op ∈ ops, op.plain cfg = true) (obs : List OpObs) (r' : DevRun) (rs' : σ)
    (h : asyncOps g cfg r rs ops = .ok (obs, r', rs')) :
    ∃ outs, run g (r.m, rs) (abstractSession g cfg r.m rs ops) = .ok ((r'.m, rs'), outs) ∧
      AllRel (fun ob out => ObsRel ob { out := out }) obs outs := by
  obtain ⟨⟨ms', ocs⟩, hrun, hrel⟩ := (asyncOps_sim g cfg r rs ops).elim_ok h
  have hpl : ∀ ev ∈ ops.map (abstractOp cfg), ev.plain = true := by
    intro ev hev
    obtain ⟨op, hop, rfl⟩ := List.mem_map.mp hev
    rw [abstractOp_plain]; exact hp op hop
  have := runC_plain g (r.m, rs) ms' _ hpl ocs hrun
  have hm : ms' = (r'.m, rs') := by
    obtain ⟨m', s'⟩ := ms'
    have h1 := hrel.m; have h2 := hrel.rng
    simp only at h1 h2
    rw [h1, h2]
  subst hm
  refine ⟨ocs.map (fun x : OutC => x.out), this, ?_⟩
  have hobs := hrel.obs
  simp only at hobs
  clear this hrun hrel h
  induction hobs with
  | nil => exact .nil
  | cons hab _ ih => exact .cons hab ih

/-! ## validity of calls (the application contract, and well-formed decoded views in the script) -/

def ScriptItem.wf : ScriptItem → Bool
  | .frame _ v => viewWF v
  | _ => true

def scriptWF (s : List ScriptItem) : Bool := s.all ScriptItem.wf

/-- the application-side contract of a call (as `validEv`), plus the representation facts of the
decoded views the script contains -/
def AsyncOp.valid (r : RegionId) : AsyncOp → Bool
  | .send data port _ script => (port != 0 || data.isEmpty) && decide (data.length ≤ 222) && scriptWF script
  | .join script => scriptWF script
  | .abp _ _ _ => true
  | .setAdr _ => true
  | .setDr dr => isUplinkDatarate r dr

theorem nextItem_wf {s : List ScriptItem} (h : scriptWF s = true) :
    (nextItem s).1.wf = true ∧ scriptWF (nextItem s).2 = true := by
  cases s with
  | nil => exact ⟨rfl, rfl⟩
  | cons i rest =>
    simp only [scriptWF, List.all_cons, Bool.and_eq_true] at h
    exact ⟨h.1, h.2⟩

theorem leadFrames_wf {s : List ScriptItem} (h : scriptWF s = true) :
    csWF (leadFrames s).1 = true ∧ scriptWF (leadFrames s).2 = true := by
  induction s with
  | nil => exact ⟨rfl, rfl⟩
  | cons i rest ih =>
    simp only [scriptWF, List.all_cons, Bool.and_eq_true] at h
    cases i with
    | ok => exact ⟨rfl, h.2⟩
    | err => exact ⟨rfl, h.2⟩
    | frame snr v =>
      obtain ⟨h1, h2⟩ := ih h.2
      refine ⟨?_, h2⟩
      simp only [leadFrames, csWF, List.all_cons, Bool.and_eq_true]
      exact ⟨h.1, h1⟩

theorem frame_wf {i : ScriptItem} (h : i.wf = true) : rxWF i.frame? = true := by
  cases i with
  | ok => rfl
  | err => rfl
  | frame snr v => exact h

theorem parseWin_wf (cc : Bool) {s : List ScriptItem} (h : scriptWF s = true) :
    csWF (parseWin cc s).1.cs = true ∧ rxWF (parseWin cc s).1.f = true ∧ scriptWF (parseWin cc s).2 = true := by
  have hb : csWF (parseBetween cc s).2.1 = true ∧ scriptWF (parseBetween cc s).2.2 = true := by
    unfold parseBetween
    split
    · exact ⟨rfl, (nextItem_wf h).2⟩
    · split
      · exact leadFrames_wf (nextItem_wf h).2
      · exact ⟨rfl, (nextItem_wf h).2⟩
  unfold parseWin
  split
  · exact ⟨rfl, rfl, hb.2⟩
  · unfold parseListen
    have h1 := nextItem_wf hb.2
    have h2 := nextItem_wf h1.2
    have h3 := nextItem_wf h2.2
    split
    · exact ⟨hb.1, rfl, h1.2⟩
    · split
      · exact ⟨hb.1, rfl, h2.2⟩
      · exact ⟨hb.1, frame_wf h2.1, h3.2⟩

theorem abstractOp_valid (cfg : DevCfg) (r : RegionId) (op : AsyncOp) (h : op.valid r = true) :
    validEvC r (abstractOp cfg op) = true := by
  cases op with
  | send data port conf script =>
    simp only [AsyncOp.valid, Bool.and_eq_true] at h
    obtain ⟨⟨h0, hl⟩, hs⟩ := h
    have hw1 := parseWin_wf cfg.classC (nextItem_wf hs).2
    have hw2 := parseWin_wf cfg.classC hw1.2.2
    show validEvC r (abstractSendC cfg script data port conf) = true
    unfold abstractSendC
    split
    · simp [validEvC, h0, hl, csWF, rxWF]
    · simp only [validEvC, h0, hl, hw1.1, hw1.2.1, hw2.1, hw2.2.1, Bool.and_self]
  | join script =>
    simp only [AsyncOp.valid] at h
    have hw1 := parseWin_wf cfg.classC (nextItem_wf h).2
    have hw2 := parseWin_wf cfg.classC hw1.2.2
    show validEvC r (abstractJoinC cfg script) = true
    unfold abstractJoinC
    split
    · simp [validEvC, csWF, rxWF]
    · simp only [validEvC, hw1.1, hw1.2.1, hw2.1, hw2.2.1, Bool.and_self]
  | abp da nwk app => rfl
  | setAdr on => rfl
  | setDr dr => exact h

/-! ## a predicate on the decoded views of the scripts carries over to the abstracted events -/

def ScriptItem.allView (P : RxView → Bool) : ScriptItem → Bool
  | .frame _ v => P v
  | _ => true

def rxAll (P : RxView → Bool) : Option (RxView × Int) → Bool
  | some (v, _) => P v
  | none => true

theorem nextItem_all (P : RxView → Bool) {s : List ScriptItem} (h : s.all (ScriptItem.allView P) = true) :
    (nextItem s).1.allView P = true ∧ (nextItem s).2.all (ScriptItem.allView P) = true := by
  cases s with
  | nil => exact ⟨rfl, rfl⟩
  | cons i rest =>
    simp only [List.all_cons, Bool.and_eq_true] at h
    exact ⟨h.1, h.2⟩

theorem leadFrames_all (P : RxView → Bool) {s : List ScriptItem} (h : s.all (ScriptItem.allView P) = true) :
    (leadFrames s).2.all (ScriptItem.allView P) = true := by
  induction s with
  | nil => rfl
  | cons i rest ih =>
    simp only [List.all_cons, Bool.and_eq_true] at h
    cases i with
    | ok => exact h.2
    | err => exact h.2
    | frame snr v => exact ih h.2

/-- the frames of the two windows, as `abstractSendC` / `abstractJoinC` read them, satisfy what
every frame of the script satisfies -/
theorem parseWin_all (P : RxView → Bool) (cc : Bool) {s : List ScriptItem} (h : s.all (ScriptItem.allView P) = true) :
    rxAll P (parseWin cc s).1.f = true ∧ (parseWin cc s).2.all (ScriptItem.allView P) = true := by
  have hb : (parseBetween cc s).2.2.all (ScriptItem.allView P) = true := by
    unfold parseBetween
    split
    · exact (nextItem_all P h).2
    · split
      · exact leadFrames_all P (nextItem_all P h).2
      · exact (nextItem_all P h).2
  unfold parseWin
  split
  · exact ⟨rfl, hb⟩
  · unfold parseListen
    have h1 := nextItem_all P hb
    have h2 := nextItem_all P h1.2
    have h3 := nextItem_all P h2.2
    split
    · exact ⟨rfl, h1.2⟩
    · split
      · exact ⟨rfl, h2.2⟩
      · refine ⟨?_, h3.2⟩
        cases hi : (nextItem (nextItem (parseBetween cc s).2.2).2).1 with
        | ok => rfl
        | err => rfl
        | frame snr v =>
          have := h2.1
          rw [hi] at this
          exact this

/-- the RX1 / RX2 frames of an event of `Model/History.lean` -/
def Ev.rxs : Ev → List (Option (RxView × Int))
  | .uplink _ _ _ _ rx1 rx2 _ _ => [rx1, rx2]
  | .joinOtaa _ rx1 rx2 _ _ => [rx1, rx2]
  | _ => []

def AsyncOp.allView (P : RxView → Bool) : AsyncOp → Bool
  | .send _ _ _ script => script.all (ScriptItem.allView P)
  | .join script => script.all (ScriptItem.allView P)
  | _ => true

theorem plainOf_uplinkC_rxs {σ} (g : Rng σ) (m : MacState) (s : σ) (cc : Bool) (d : List Nat) (p : Nat) (c : Bool)
    (fault : Option FaultPos) (c1 c2 : List (RxView × Int)) (rx1 rx2 : Option (RxView × Int)) :
    (plainOf g m s (.uplinkC cc d p c fault c1 rx1 c2 rx2)).rxs = [rx1, rx2] := by
  simp only [plainOf]
  split <;> rfl

theorem plainOf_joinC_rxs {σ} (g : Rng σ) (m : MacState) (s : σ) (cc : Bool)
    (fault : Option FaultPos) (c1 c2 : List (RxView × Int)) (rx1 rx2 : Option (RxView × Int)) :
    (plainOf g m s (.joinC cc fault c1 rx1 c2 rx2)).rxs = [rx1, rx2] := by
  simp only [plainOf]
  split <;> rfl

theorem plainOf_abstractOp_rxs {σ} (g : Rng σ) (cfg : DevCfg) (P : RxView → Bool) (op : AsyncOp) (h : op.allView P = true)
    (m : MacState) (s : σ) : ∀ f ∈ (plainOf g m s (abstractOp cfg op)).rxs, rxAll P f = true := by
  cases op with
  | send data port conf script =>
    simp only [AsyncOp.allView] at h
    have hw1 := parseWin_all P cfg.classC (nextItem_all P h).2
    have hw2 := parseWin_all P cfg.classC hw1.2
    show ∀ f ∈ (plainOf g m s (abstractSendC cfg script data port conf)).rxs, rxAll P f = true
    unfold abstractSendC
    split
    · rw [plainOf_uplinkC_rxs]
      intro f hf
      simp only [List.mem_cons, List.not_mem_nil, or_false] at hf
      rcases hf with rfl | rfl <;> rfl
    · rw [plainOf_uplinkC_rxs]
      intro f hf
      simp only [List.mem_cons, List.not_mem_nil, or_false] at hf
      rcases hf with rfl | rfl
      · exact hw1.1
      · exact hw2.1
  | join script =>
    simp only [AsyncOp.allView] at h
    have hw1 := parseWin_all P cfg.classC (nextItem_all P h).2
    have hw2 := parseWin_all P cfg.classC hw1.2
    show ∀ f ∈ (plainOf g m s (abstractJoinC cfg script)).rxs, rxAll P f = true
    unfold abstractJoinC
    split
    · rw [plainOf_joinC_rxs]
      intro f hf
      simp only [List.mem_cons, List.not_mem_nil, or_false] at hf
      rcases hf with rfl | rfl <;> rfl
    · rw [plainOf_joinC_rxs]
      intro f hf
      simp only [List.mem_cons, List.not_mem_nil, or_false] at hf
      rcases hf with rfl | rfl
      · exact hw1.1
      · exact hw2.1
  | abp da nwk app => intro f hf; simp [abstractOp, plainOf, Ev.rxs] at hf
  | setAdr on => intro f hf; simp [abstractOp, plainOf, Ev.rxs] at hf
  | setDr dr => intro f hf; simp [abstractOp, plainOf, Ev.rxs] at hf

theorem plainRun_all {σ} (g : Rng σ) (Q : Ev → Prop) (evs : List EvC) (h : ∀ ev ∈ evs, ∀ m s, Q (plainOf g m s ev))
    (ms : MacState × σ) : ∀ e ∈ plainRun g ms evs, Q e := by
  induction evs generalizing ms with
  | nil => intro e he; cases he
  | cons ev rest ih =>
    intro e he
    simp only [plainRun, List.mem_cons] at he
    rcases he with rfl | he
    · exact h ev List.mem_cons_self _ _
    · split at he
      · exact ih (fun ev' hev => h ev' (List.mem_cons_of_mem _ hev)) _ e he
      · cases he

end Model
