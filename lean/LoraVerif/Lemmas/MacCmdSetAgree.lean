import LoraVerif.Lemmas.MacCmdAccAgree
import LoraVerif.Lemmas.FieldAlgebra
/-!
# The model's setters compute the specification's field update (`SetAgree`), per setter

For every fixed-length command and every setter the crate offers: on a creator whose payload octets are
`< 256`, the setter as coded (`Model/MacCmdCreators.lean`: masks, shifts, `copy_from_slice`) returns without
panic, gives the verdict the specification's policy gives (refusal of out-of-range values for the fallible
setters) and leaves exactly the payload `Spec.MacCmd.applySetter` describes (the field replaced, every other
bit kept).
-/
set_option linter.unusedSimpArgs false
set_option linter.unusedVariables false
namespace MacCmd

def toSpecRes : SetRes → Option String
  | .ok => none
  | .err e => some e

/-- the model setter and the specification's setter agree: same verdict, same payload afterwards, no panic -/
def SetAgree (m : Outcome (SetRes × Creator)) (cid : Nat) (s : Option (Option String × Bytes)) : Prop :=
  ∃ r p', m = .ok (r, { data := cid :: p', count := 0 }) ∧ s = some (toSpecRes r, p')

theorem pat_hi : ∀ o, o < 256 → ∀ v, v < 16 → (o &&& 15) ||| ((v <<< 4) % 256) = o % 16 + 16 * v := by decide +kernel
theorem pat_lo : ∀ o, o < 256 → ∀ v, v < 16 → (o &&& 240) ||| v = v + 16 * (o / 16) := by decide +kernel
theorem pat_flag : ∀ k, k < 8 → ∀ o, o < 256 → ∀ v, v < 2 →
    (o &&& (255 - (1 <<< k))) ||| ((v <<< k) % 256) = o % 2 ^ k + 2 ^ k * (v + 2 * (o / 2 ^ (k + 1))) := by decide +kernel
theorem pat_m2 : ∀ o, o < 256 → ∀ m, m < 4 → (o &&& 252) ||| m = m + 4 * (o / 4) := by decide +kernel
theorem pat_or4 : ∀ o, o < 256 → o ||| 4 = o % 4 + 4 * (1 + 2 * (o / 8)) := by decide +kernel
theorem pat_and251 : ∀ o, o < 256 → o &&& 251 = o % 4 + 4 * (0 + 2 * (o / 8)) := by decide +kernel
theorem pat_orbit : ∀ o, o < 256 → ∀ m, m < 4 → o ||| (1 <<< m) = if o / 2 ^ m % 2 = 1 then o else o + 2 ^ m := by decide +kernel

theorem set_LinkCheckAns_set_margin (wrap : Bytes → Bytes) (cid b0 b1 v : Nat) (h0 : b0 < 256) (h1 : b1 < 256) (hv : v < 256) :
    SetAgree (setLinkCheckAns { data := cid :: [b0, b1], count := 0 } "set_margin" (.n v)) cid
      (Spec.MacCmd.applySetter wrap "LinkCheckAns" [b0, b1] "set_margin" (.n v)) := by
  rw [show Spec.MacCmd.applySetter wrap "LinkCheckAns" [b0, b1] "set_margin" (.n v) = Spec.MacCmd.applyField 0 8 .mask [b0, b1] (.n v) from rfl]
  refine ⟨.ok, [v, b1], ?_, ?_⟩
  · simp [setLinkCheckAns, setRaw, setByte, okD]
  · simp [Spec.MacCmd.applyField, toSpecRes, Spec.MacCmd.setFieldBytes, Spec.MacCmd.setField, Spec.MacCmd.toLe, Spec.MacCmd.leValue]
    omega

theorem set_LinkCheckAns_set_gateway_count (wrap : Bytes → Bytes) (cid b0 b1 v : Nat) (h0 : b0 < 256) (h1 : b1 < 256) (hv : v < 256) :
    SetAgree (setLinkCheckAns { data := cid :: [b0, b1], count := 0 } "set_gateway_count" (.n v)) cid
      (Spec.MacCmd.applySetter wrap "LinkCheckAns" [b0, b1] "set_gateway_count" (.n v)) := by
  rw [show Spec.MacCmd.applySetter wrap "LinkCheckAns" [b0, b1] "set_gateway_count" (.n v) = Spec.MacCmd.applyField 8 8 .mask [b0, b1] (.n v) from rfl]
  refine ⟨.ok, [b0, v], ?_, ?_⟩
  · simp [setLinkCheckAns, setRaw, setByte, okD]
  · simp [Spec.MacCmd.applyField, toSpecRes, Spec.MacCmd.setFieldBytes, Spec.MacCmd.setField, Spec.MacCmd.toLe, Spec.MacCmd.leValue]
    omega

theorem set_LinkADRReq_set_data_rate (wrap : Bytes → Bytes) (cid b0 b1 b2 b3 v : Nat) (h0 : b0 < 256) (h1 : b1 < 256) (h2 : b2 < 256) (h3 : b3 < 256) (hv : v < 256) :
    SetAgree (setLinkADRReq { data := cid :: [b0, b1, b2, b3], count := 0 } "set_data_rate" (.n v)) cid
      (Spec.MacCmd.applySetter wrap "LinkADRReq" [b0, b1, b2, b3] "set_data_rate" (.n v)) := by
  rw [show Spec.MacCmd.applySetter wrap "LinkADRReq" [b0, b1, b2, b3] "set_data_rate" (.n v) = Spec.MacCmd.applyField 4 4 (.refuse "InvalidDataRate") [b0, b1, b2, b3] (.n v) from rfl]
  by_cases hr : v > 15
  · refine ⟨.err "InvalidDataRate", [b0, b1, b2, b3], ?_, ?_⟩
    · simp [setLinkADRReq, hr, refuse]
    · have : ¬ v < 16 := by omega
      simp [Spec.MacCmd.applyField, this, toSpecRes]
  · have hv' : v < 16 := by omega
    refine ⟨.ok, [b0 % 16 + 16 * v, b1, b2, b3], ?_, ?_⟩
    · have hp := pat_hi b0 h0 v hv'
      simp [setLinkADRReq, hr, modByte, index, setByte, okD] at hp ⊢
      omega
    · simp [Spec.MacCmd.applyField, toSpecRes, Spec.MacCmd.setFieldBytes, Spec.MacCmd.setField, Spec.MacCmd.toLe, Spec.MacCmd.leValue, hv']
      omega

theorem set_LinkADRReq_set_tx_power (wrap : Bytes → Bytes) (cid b0 b1 b2 b3 v : Nat) (h0 : b0 < 256) (h1 : b1 < 256) (h2 : b2 < 256) (h3 : b3 < 256) (hv : v < 256) :
    SetAgree (setLinkADRReq { data := cid :: [b0, b1, b2, b3], count := 0 } "set_tx_power" (.n v)) cid
      (Spec.MacCmd.applySetter wrap "LinkADRReq" [b0, b1, b2, b3] "set_tx_power" (.n v)) := by
  rw [show Spec.MacCmd.applySetter wrap "LinkADRReq" [b0, b1, b2, b3] "set_tx_power" (.n v) = Spec.MacCmd.applyField 0 4 (.refuse "InvalidTxPower") [b0, b1, b2, b3] (.n v) from rfl]
  by_cases hr : v > 15
  · refine ⟨.err "InvalidTxPower", [b0, b1, b2, b3], ?_, ?_⟩
    · simp [setLinkADRReq, setLowNibbleChecked, hr, refuse]
    · have : ¬ v < 16 := by omega
      simp [Spec.MacCmd.applyField, this, toSpecRes]
  · have hv' : v < 16 := by omega
    refine ⟨.ok, [v + 16 * (b0 / 16), b1, b2, b3], ?_, ?_⟩
    · have hp := pat_lo b0 h0 v hv'
      simp [setLinkADRReq, setLowNibbleChecked, hr, modByte, index, setByte, okD, and15, Nat.mod_eq_of_lt hv'] at hp ⊢
      omega
    · simp [Spec.MacCmd.applyField, toSpecRes, Spec.MacCmd.setFieldBytes, Spec.MacCmd.setField, Spec.MacCmd.toLe, Spec.MacCmd.leValue, hv']
      omega

theorem set_LinkADRReq_set_channel_mask (wrap : Bytes → Bytes) (cid b0 b1 b2 b3 c0 c1 : Nat) (h0 : b0 < 256) (h1 : b1 < 256) (h2 : b2 < 256) (h3 : b3 < 256) (g0 : c0 < 256) (g1 : c1 < 256) :
    SetAgree (setLinkADRReq { data := cid :: [b0, b1, b2, b3], count := 0 } "set_channel_mask" (.bytes [c0, c1])) cid
      (Spec.MacCmd.applySetter wrap "LinkADRReq" [b0, b1, b2, b3] "set_channel_mask" (.bytes [c0, c1])) := by
  rw [show Spec.MacCmd.applySetter wrap "LinkADRReq" [b0, b1, b2, b3] "set_channel_mask" (.bytes [c0, c1]) = Spec.MacCmd.applyField 8 16 .mask [b0, b1, b2, b3] (.bytes [c0, c1]) from rfl]
  refine ⟨.ok, [b0, c0, c1, b3], ?_, ?_⟩
  · simp [setLinkADRReq, setBytes, copyInto, index, setByte, okD]
  · simp [Spec.MacCmd.applyField, toSpecRes, Spec.MacCmd.setFieldBytes, Spec.MacCmd.setField, Spec.MacCmd.toLe, Spec.MacCmd.leValue]
    omega

theorem set_LinkADRReq_set_redundancy (wrap : Bytes → Bytes) (cid b0 b1 b2 b3 v : Nat) (h0 : b0 < 256) (h1 : b1 < 256) (h2 : b2 < 256) (h3 : b3 < 256) (hv : v < 256) :
    SetAgree (setLinkADRReq { data := cid :: [b0, b1, b2, b3], count := 0 } "set_redundancy" (.n v)) cid
      (Spec.MacCmd.applySetter wrap "LinkADRReq" [b0, b1, b2, b3] "set_redundancy" (.n v)) := by
  rw [show Spec.MacCmd.applySetter wrap "LinkADRReq" [b0, b1, b2, b3] "set_redundancy" (.n v) = Spec.MacCmd.applyField 24 8 .mask [b0, b1, b2, b3] (.n v) from rfl]
  refine ⟨.ok, [b0, b1, b2, v], ?_, ?_⟩
  · simp [setLinkADRReq, setRaw, setByte, okD]
  · simp [Spec.MacCmd.applyField, toSpecRes, Spec.MacCmd.setFieldBytes, Spec.MacCmd.setField, Spec.MacCmd.toLe, Spec.MacCmd.leValue]
    omega

theorem set_LinkADRAns_set_channel_mask_ack (wrap : Bytes → Bytes) (cid b0 v : Nat) (h0 : b0 < 256) (hv : v < 2) :
    SetAgree (setLinkADRAns { data := cid :: [b0], count := 0 } "set_channel_mask_ack" (.n v)) cid
      (Spec.MacCmd.applySetter wrap "LinkADRAns" [b0] "set_channel_mask_ack" (.n v)) := by
  rw [show Spec.MacCmd.applySetter wrap "LinkADRAns" [b0] "set_channel_mask_ack" (.n v) = Spec.MacCmd.applyField 0 1 .mask [b0] (.n v) from rfl]
  refine ⟨.ok, [b0 % 2 ^ 0 + 2 ^ 0 * (v + 2 * (b0 / 2 ^ (0 + 1)))], ?_, ?_⟩
  · have hp := pat_flag 0 (by omega) b0 h0 v hv
    simp [setLinkADRAns, setFlag, modByte, index, setByte, okD] at hp ⊢
    omega
  · simp [Spec.MacCmd.applyField, toSpecRes, Spec.MacCmd.setFieldBytes, Spec.MacCmd.setField, Spec.MacCmd.toLe, Spec.MacCmd.leValue]
    omega

theorem set_LinkADRAns_set_data_rate_ack (wrap : Bytes → Bytes) (cid b0 v : Nat) (h0 : b0 < 256) (hv : v < 2) :
    SetAgree (setLinkADRAns { data := cid :: [b0], count := 0 } "set_data_rate_ack" (.n v)) cid
      (Spec.MacCmd.applySetter wrap "LinkADRAns" [b0] "set_data_rate_ack" (.n v)) := by
  rw [show Spec.MacCmd.applySetter wrap "LinkADRAns" [b0] "set_data_rate_ack" (.n v) = Spec.MacCmd.applyField 1 1 .mask [b0] (.n v) from rfl]
  refine ⟨.ok, [b0 % 2 ^ 1 + 2 ^ 1 * (v + 2 * (b0 / 2 ^ (1 + 1)))], ?_, ?_⟩
  · have hp := pat_flag 1 (by omega) b0 h0 v hv
    simp [setLinkADRAns, setFlag, modByte, index, setByte, okD] at hp ⊢
    omega
  · simp [Spec.MacCmd.applyField, toSpecRes, Spec.MacCmd.setFieldBytes, Spec.MacCmd.setField, Spec.MacCmd.toLe, Spec.MacCmd.leValue]
    omega

theorem set_LinkADRAns_set_tx_power_ack (wrap : Bytes → Bytes) (cid b0 v : Nat) (h0 : b0 < 256) (hv : v < 2) :
    SetAgree (setLinkADRAns { data := cid :: [b0], count := 0 } "set_tx_power_ack" (.n v)) cid
      (Spec.MacCmd.applySetter wrap "LinkADRAns" [b0] "set_tx_power_ack" (.n v)) := by
  rw [show Spec.MacCmd.applySetter wrap "LinkADRAns" [b0] "set_tx_power_ack" (.n v) = Spec.MacCmd.applyField 2 1 .mask [b0] (.n v) from rfl]
  refine ⟨.ok, [b0 % 2 ^ 2 + 2 ^ 2 * (v + 2 * (b0 / 2 ^ (2 + 1)))], ?_, ?_⟩
  · have hp := pat_flag 2 (by omega) b0 h0 v hv
    simp [setLinkADRAns, setFlag, modByte, index, setByte, okD] at hp ⊢
    omega
  · simp [Spec.MacCmd.applyField, toSpecRes, Spec.MacCmd.setFieldBytes, Spec.MacCmd.setField, Spec.MacCmd.toLe, Spec.MacCmd.leValue]
    omega

theorem set_RXParamSetupAns_set_channel_ack (wrap : Bytes → Bytes) (cid b0 v : Nat) (h0 : b0 < 256) (hv : v < 2) :
    SetAgree (setRXParamSetupAns { data := cid :: [b0], count := 0 } "set_channel_ack" (.n v)) cid
      (Spec.MacCmd.applySetter wrap "RXParamSetupAns" [b0] "set_channel_ack" (.n v)) := by
  rw [show Spec.MacCmd.applySetter wrap "RXParamSetupAns" [b0] "set_channel_ack" (.n v) = Spec.MacCmd.applyField 0 1 .mask [b0] (.n v) from rfl]
  refine ⟨.ok, [b0 % 2 ^ 0 + 2 ^ 0 * (v + 2 * (b0 / 2 ^ (0 + 1)))], ?_, ?_⟩
  · have hp := pat_flag 0 (by omega) b0 h0 v hv
    simp [setRXParamSetupAns, setFlag, modByte, index, setByte, okD] at hp ⊢
    omega
  · simp [Spec.MacCmd.applyField, toSpecRes, Spec.MacCmd.setFieldBytes, Spec.MacCmd.setField, Spec.MacCmd.toLe, Spec.MacCmd.leValue]
    omega

theorem set_RXParamSetupAns_set_rx2_data_rate_ack (wrap : Bytes → Bytes) (cid b0 v : Nat) (h0 : b0 < 256) (hv : v < 2) :
    SetAgree (setRXParamSetupAns { data := cid :: [b0], count := 0 } "set_rx2_data_rate_ack" (.n v)) cid
      (Spec.MacCmd.applySetter wrap "RXParamSetupAns" [b0] "set_rx2_data_rate_ack" (.n v)) := by
  rw [show Spec.MacCmd.applySetter wrap "RXParamSetupAns" [b0] "set_rx2_data_rate_ack" (.n v) = Spec.MacCmd.applyField 1 1 .mask [b0] (.n v) from rfl]
  refine ⟨.ok, [b0 % 2 ^ 1 + 2 ^ 1 * (v + 2 * (b0 / 2 ^ (1 + 1)))], ?_, ?_⟩
  · have hp := pat_flag 1 (by omega) b0 h0 v hv
    simp [setRXParamSetupAns, setFlag, modByte, index, setByte, okD] at hp ⊢
    omega
  · simp [Spec.MacCmd.applyField, toSpecRes, Spec.MacCmd.setFieldBytes, Spec.MacCmd.setField, Spec.MacCmd.toLe, Spec.MacCmd.leValue]
    omega

theorem set_RXParamSetupAns_set_rx1_data_rate_offset_ack (wrap : Bytes → Bytes) (cid b0 v : Nat) (h0 : b0 < 256) (hv : v < 2) :
    SetAgree (setRXParamSetupAns { data := cid :: [b0], count := 0 } "set_rx1_data_rate_offset_ack" (.n v)) cid
      (Spec.MacCmd.applySetter wrap "RXParamSetupAns" [b0] "set_rx1_data_rate_offset_ack" (.n v)) := by
  rw [show Spec.MacCmd.applySetter wrap "RXParamSetupAns" [b0] "set_rx1_data_rate_offset_ack" (.n v) = Spec.MacCmd.applyField 2 1 .mask [b0] (.n v) from rfl]
  refine ⟨.ok, [b0 % 2 ^ 2 + 2 ^ 2 * (v + 2 * (b0 / 2 ^ (2 + 1)))], ?_, ?_⟩
  · have hp := pat_flag 2 (by omega) b0 h0 v hv
    simp [setRXParamSetupAns, setFlag, modByte, index, setByte, okD] at hp ⊢
    omega
  · simp [Spec.MacCmd.applyField, toSpecRes, Spec.MacCmd.setFieldBytes, Spec.MacCmd.setField, Spec.MacCmd.toLe, Spec.MacCmd.leValue]
    omega

theorem set_NewChannelAns_set_channel_frequency_ack (wrap : Bytes → Bytes) (cid b0 v : Nat) (h0 : b0 < 256) (hv : v < 2) :
    SetAgree (setNewChannelAns { data := cid :: [b0], count := 0 } "set_channel_frequency_ack" (.n v)) cid
      (Spec.MacCmd.applySetter wrap "NewChannelAns" [b0] "set_channel_frequency_ack" (.n v)) := by
  rw [show Spec.MacCmd.applySetter wrap "NewChannelAns" [b0] "set_channel_frequency_ack" (.n v) = Spec.MacCmd.applyField 0 1 .mask [b0] (.n v) from rfl]
  refine ⟨.ok, [b0 % 2 ^ 0 + 2 ^ 0 * (v + 2 * (b0 / 2 ^ (0 + 1)))], ?_, ?_⟩
  · have hp := pat_flag 0 (by omega) b0 h0 v hv
    simp [setNewChannelAns, setFlag, modByte, index, setByte, okD] at hp ⊢
    omega
  · simp [Spec.MacCmd.applyField, toSpecRes, Spec.MacCmd.setFieldBytes, Spec.MacCmd.setField, Spec.MacCmd.toLe, Spec.MacCmd.leValue]
    omega

theorem set_NewChannelAns_set_data_rate_range_ack (wrap : Bytes → Bytes) (cid b0 v : Nat) (h0 : b0 < 256) (hv : v < 2) :
    SetAgree (setNewChannelAns { data := cid :: [b0], count := 0 } "set_data_rate_range_ack" (.n v)) cid
      (Spec.MacCmd.applySetter wrap "NewChannelAns" [b0] "set_data_rate_range_ack" (.n v)) := by
  rw [show Spec.MacCmd.applySetter wrap "NewChannelAns" [b0] "set_data_rate_range_ack" (.n v) = Spec.MacCmd.applyField 1 1 .mask [b0] (.n v) from rfl]
  refine ⟨.ok, [b0 % 2 ^ 1 + 2 ^ 1 * (v + 2 * (b0 / 2 ^ (1 + 1)))], ?_, ?_⟩
  · have hp := pat_flag 1 (by omega) b0 h0 v hv
    simp [setNewChannelAns, setFlag, modByte, index, setByte, okD] at hp ⊢
    omega
  · simp [Spec.MacCmd.applyField, toSpecRes, Spec.MacCmd.setFieldBytes, Spec.MacCmd.setField, Spec.MacCmd.toLe, Spec.MacCmd.leValue]
    omega

theorem set_DlChannelAns_set_channel_frequency_ack (wrap : Bytes → Bytes) (cid b0 v : Nat) (h0 : b0 < 256) (hv : v < 2) :
    SetAgree (setDlChannelAns { data := cid :: [b0], count := 0 } "set_channel_frequency_ack" (.n v)) cid
      (Spec.MacCmd.applySetter wrap "DlChannelAns" [b0] "set_channel_frequency_ack" (.n v)) := by
  rw [show Spec.MacCmd.applySetter wrap "DlChannelAns" [b0] "set_channel_frequency_ack" (.n v) = Spec.MacCmd.applyField 0 1 .mask [b0] (.n v) from rfl]
  refine ⟨.ok, [b0 % 2 ^ 0 + 2 ^ 0 * (v + 2 * (b0 / 2 ^ (0 + 1)))], ?_, ?_⟩
  · have hp := pat_flag 0 (by omega) b0 h0 v hv
    simp [setDlChannelAns, setFlag, modByte, index, setByte, okD] at hp ⊢
    omega
  · simp [Spec.MacCmd.applyField, toSpecRes, Spec.MacCmd.setFieldBytes, Spec.MacCmd.setField, Spec.MacCmd.toLe, Spec.MacCmd.leValue]
    omega

theorem set_DlChannelAns_set_uplink_frequency_exists_ack (wrap : Bytes → Bytes) (cid b0 v : Nat) (h0 : b0 < 256) (hv : v < 2) :
    SetAgree (setDlChannelAns { data := cid :: [b0], count := 0 } "set_uplink_frequency_exists_ack" (.n v)) cid
      (Spec.MacCmd.applySetter wrap "DlChannelAns" [b0] "set_uplink_frequency_exists_ack" (.n v)) := by
  rw [show Spec.MacCmd.applySetter wrap "DlChannelAns" [b0] "set_uplink_frequency_exists_ack" (.n v) = Spec.MacCmd.applyField 1 1 .mask [b0] (.n v) from rfl]
  refine ⟨.ok, [b0 % 2 ^ 1 + 2 ^ 1 * (v + 2 * (b0 / 2 ^ (1 + 1)))], ?_, ?_⟩
  · have hp := pat_flag 1 (by omega) b0 h0 v hv
    simp [setDlChannelAns, setFlag, modByte, index, setByte, okD] at hp ⊢
    omega
  · simp [Spec.MacCmd.applyField, toSpecRes, Spec.MacCmd.setFieldBytes, Spec.MacCmd.setField, Spec.MacCmd.toLe, Spec.MacCmd.leValue]
    omega

theorem set_TXParamSetupReq_set_downlink_dwell_time (wrap : Bytes → Bytes) (cid b0 v : Nat) (h0 : b0 < 256) (hv : v < 2) :
    SetAgree (setTXParamSetupReq { data := cid :: [b0], count := 0 } "set_downlink_dwell_time" (.n v)) cid
      (Spec.MacCmd.applySetter wrap "TXParamSetupReq" [b0] "set_downlink_dwell_time" (.n v)) := by
  rw [show Spec.MacCmd.applySetter wrap "TXParamSetupReq" [b0] "set_downlink_dwell_time" (.n v) = Spec.MacCmd.applyField 5 1 .mask [b0] (.n v) from rfl]
  refine ⟨.ok, [b0 % 2 ^ 5 + 2 ^ 5 * (v + 2 * (b0 / 2 ^ (5 + 1)))], ?_, ?_⟩
  · have hp := pat_flag 5 (by omega) b0 h0 v hv
    simp [setTXParamSetupReq, setFlag, modByte, index, setByte, okD] at hp ⊢
    omega
  · simp [Spec.MacCmd.applyField, toSpecRes, Spec.MacCmd.setFieldBytes, Spec.MacCmd.setField, Spec.MacCmd.toLe, Spec.MacCmd.leValue]
    omega

theorem set_TXParamSetupReq_set_uplink_dwell_time (wrap : Bytes → Bytes) (cid b0 v : Nat) (h0 : b0 < 256) (hv : v < 2) :
    SetAgree (setTXParamSetupReq { data := cid :: [b0], count := 0 } "set_uplink_dwell_time" (.n v)) cid
      (Spec.MacCmd.applySetter wrap "TXParamSetupReq" [b0] "set_uplink_dwell_time" (.n v)) := by
  rw [show Spec.MacCmd.applySetter wrap "TXParamSetupReq" [b0] "set_uplink_dwell_time" (.n v) = Spec.MacCmd.applyField 4 1 .mask [b0] (.n v) from rfl]
  refine ⟨.ok, [b0 % 2 ^ 4 + 2 ^ 4 * (v + 2 * (b0 / 2 ^ (4 + 1)))], ?_, ?_⟩
  · have hp := pat_flag 4 (by omega) b0 h0 v hv
    simp [setTXParamSetupReq, setFlag, modByte, index, setByte, okD] at hp ⊢
    omega
  · simp [Spec.MacCmd.applyField, toSpecRes, Spec.MacCmd.setFieldBytes, Spec.MacCmd.setField, Spec.MacCmd.toLe, Spec.MacCmd.leValue]
    omega

theorem set_TXParamSetupReq_set_max_eirp (wrap : Bytes → Bytes) (cid b0 v : Nat) (h0 : b0 < 256) (hv : v < 256) :
    SetAgree (setTXParamSetupReq { data := cid :: [b0], count := 0 } "set_max_eirp" (.n v)) cid
      (Spec.MacCmd.applySetter wrap "TXParamSetupReq" [b0] "set_max_eirp" (.n v)) := by
  rw [show Spec.MacCmd.applySetter wrap "TXParamSetupReq" [b0] "set_max_eirp" (.n v) = Spec.MacCmd.applyField 0 4 (.refuse "MaxEirpOutOfRange") [b0] (.n v) from rfl]
  by_cases hr : v > 15
  · refine ⟨.err "MaxEirpOutOfRange", [b0], ?_, ?_⟩
    · simp [setTXParamSetupReq, setLowNibbleChecked, hr, refuse]
    · have : ¬ v < 16 := by omega
      simp [Spec.MacCmd.applyField, this, toSpecRes]
  · have hv' : v < 16 := by omega
    refine ⟨.ok, [v + 16 * (b0 / 16)], ?_, ?_⟩
    · have hp := pat_lo b0 h0 v hv'
      simp [setTXParamSetupReq, setLowNibbleChecked, hr, modByte, index, setByte, okD, and15, Nat.mod_eq_of_lt hv'] at hp ⊢
      omega
    · simp [Spec.MacCmd.applyField, toSpecRes, Spec.MacCmd.setFieldBytes, Spec.MacCmd.setField, Spec.MacCmd.toLe, Spec.MacCmd.leValue, hv']
      omega

theorem set_DutyCycleReq_set_max_duty_cycle (wrap : Bytes → Bytes) (cid b0 v : Nat) (h0 : b0 < 256) (hv : v < 256) :
    SetAgree (setDutyCycleReq { data := cid :: [b0], count := 0 } "set_max_duty_cycle" (.n v)) cid
      (Spec.MacCmd.applySetter wrap "DutyCycleReq" [b0] "set_max_duty_cycle" (.n v)) := by
  rw [show Spec.MacCmd.applySetter wrap "DutyCycleReq" [b0] "set_max_duty_cycle" (.n v) = Spec.MacCmd.applyField 0 4 (.refuse "MaxDutyCycleOutOfRange") [b0] (.n v) from rfl]
  by_cases hr : v > 15
  · refine ⟨.err "MaxDutyCycleOutOfRange", [b0], ?_, ?_⟩
    · simp [setDutyCycleReq, setLowNibbleChecked, hr, refuse]
    · have : ¬ v < 16 := by omega
      simp [Spec.MacCmd.applyField, this, toSpecRes]
  · have hv' : v < 16 := by omega
    refine ⟨.ok, [v + 16 * (b0 / 16)], ?_, ?_⟩
    · have hp := pat_lo b0 h0 v hv'
      simp [setDutyCycleReq, setLowNibbleChecked, hr, modByte, index, setByte, okD, and15, Nat.mod_eq_of_lt hv'] at hp ⊢
      omega
    · simp [Spec.MacCmd.applyField, toSpecRes, Spec.MacCmd.setFieldBytes, Spec.MacCmd.setField, Spec.MacCmd.toLe, Spec.MacCmd.leValue, hv']
      omega

theorem set_RXTimingSetupReq_set_delay (wrap : Bytes → Bytes) (cid b0 v : Nat) (h0 : b0 < 256) (hv : v < 256) :
    SetAgree (setRXTimingSetupReq { data := cid :: [b0], count := 0 } "set_delay" (.n v)) cid
      (Spec.MacCmd.applySetter wrap "RXTimingSetupReq" [b0] "set_delay" (.n v)) := by
  rw [show Spec.MacCmd.applySetter wrap "RXTimingSetupReq" [b0] "set_delay" (.n v) = Spec.MacCmd.applyField 0 4 (.refuse "DelayOutOfRange") [b0] (.n v) from rfl]
  by_cases hr : v > 15
  · refine ⟨.err "DelayOutOfRange", [b0], ?_, ?_⟩
    · simp [setRXTimingSetupReq, setLowNibbleChecked, hr, refuse]
    · have : ¬ v < 16 := by omega
      simp [Spec.MacCmd.applyField, this, toSpecRes]
  · have hv' : v < 16 := by omega
    refine ⟨.ok, [v + 16 * (b0 / 16)], ?_, ?_⟩
    · have hp := pat_lo b0 h0 v hv'
      simp [setRXTimingSetupReq, setLowNibbleChecked, hr, modByte, index, setByte, okD, and15, Nat.mod_eq_of_lt hv'] at hp ⊢
      omega
    · simp [Spec.MacCmd.applyField, toSpecRes, Spec.MacCmd.setFieldBytes, Spec.MacCmd.setField, Spec.MacCmd.toLe, Spec.MacCmd.leValue, hv']
      omega

theorem set_RXParamSetupReq_set_dl_settings (wrap : Bytes → Bytes) (cid b0 b1 b2 b3 v : Nat) (h0 : b0 < 256) (h1 : b1 < 256) (h2 : b2 < 256) (h3 : b3 < 256) (hv : v < 256) :
    SetAgree (setRXParamSetupReq { data := cid :: [b0, b1, b2, b3], count := 0 } "set_dl_settings" (.n v)) cid
      (Spec.MacCmd.applySetter wrap "RXParamSetupReq" [b0, b1, b2, b3] "set_dl_settings" (.n v)) := by
  rw [show Spec.MacCmd.applySetter wrap "RXParamSetupReq" [b0, b1, b2, b3] "set_dl_settings" (.n v) = Spec.MacCmd.applyField 0 8 .mask [b0, b1, b2, b3] (.n v) from rfl]
  refine ⟨.ok, [v, b1, b2, b3], ?_, ?_⟩
  · simp [setRXParamSetupReq, setRaw, setByte, okD]
  · simp [Spec.MacCmd.applyField, toSpecRes, Spec.MacCmd.setFieldBytes, Spec.MacCmd.setField, Spec.MacCmd.toLe, Spec.MacCmd.leValue]
    omega

theorem set_RXParamSetupReq_set_frequency (wrap : Bytes → Bytes) (cid b0 b1 b2 b3 c0 c1 c2 : Nat) (h0 : b0 < 256) (h1 : b1 < 256) (h2 : b2 < 256) (h3 : b3 < 256) (g0 : c0 < 256) (g1 : c1 < 256) (g2 : c2 < 256) :
    SetAgree (setRXParamSetupReq { data := cid :: [b0, b1, b2, b3], count := 0 } "set_frequency" (.bytes [c0, c1, c2])) cid
      (Spec.MacCmd.applySetter wrap "RXParamSetupReq" [b0, b1, b2, b3] "set_frequency" (.bytes [c0, c1, c2])) := by
  rw [show Spec.MacCmd.applySetter wrap "RXParamSetupReq" [b0, b1, b2, b3] "set_frequency" (.bytes [c0, c1, c2]) = Spec.MacCmd.applyField 8 24 .mask [b0, b1, b2, b3] (.bytes [c0, c1, c2]) from rfl]
  refine ⟨.ok, [b0, c0, c1, c2], ?_, ?_⟩
  · simp [setRXParamSetupReq, setBytes, copyInto, index, setByte, okD]
  · simp [Spec.MacCmd.applyField, toSpecRes, Spec.MacCmd.setFieldBytes, Spec.MacCmd.setField, Spec.MacCmd.toLe, Spec.MacCmd.leValue]
    omega

theorem set_DevStatusAns_set_battery (wrap : Bytes → Bytes) (cid b0 b1 v : Nat) (h0 : b0 < 256) (h1 : b1 < 256) (hv : v < 256) :
    SetAgree (setDevStatusAns { data := cid :: [b0, b1], count := 0 } "set_battery" (.n v)) cid
      (Spec.MacCmd.applySetter wrap "DevStatusAns" [b0, b1] "set_battery" (.n v)) := by
  rw [show Spec.MacCmd.applySetter wrap "DevStatusAns" [b0, b1] "set_battery" (.n v) = Spec.MacCmd.applyField 0 8 .mask [b0, b1] (.n v) from rfl]
  refine ⟨.ok, [v, b1], ?_, ?_⟩
  · simp [setDevStatusAns, setRaw, setByte, okD]
  · simp [Spec.MacCmd.applyField, toSpecRes, Spec.MacCmd.setFieldBytes, Spec.MacCmd.setField, Spec.MacCmd.toLe, Spec.MacCmd.leValue]
    omega

theorem set_NewChannelReq_set_channel_index (wrap : Bytes → Bytes) (cid b0 b1 b2 b3 b4 v : Nat) (h0 : b0 < 256) (h1 : b1 < 256) (h2 : b2 < 256) (h3 : b3 < 256) (h4 : b4 < 256) (hv : v < 256) :
    SetAgree (setNewChannelReq { data := cid :: [b0, b1, b2, b3, b4], count := 0 } "set_channel_index" (.n v)) cid
      (Spec.MacCmd.applySetter wrap "NewChannelReq" [b0, b1, b2, b3, b4] "set_channel_index" (.n v)) := by
  rw [show Spec.MacCmd.applySetter wrap "NewChannelReq" [b0, b1, b2, b3, b4] "set_channel_index" (.n v) = Spec.MacCmd.applyField 0 8 .mask [b0, b1, b2, b3, b4] (.n v) from rfl]
  refine ⟨.ok, [v, b1, b2, b3, b4], ?_, ?_⟩
  · simp [setNewChannelReq, setRaw, setByte, okD]
  · simp [Spec.MacCmd.applyField, toSpecRes, Spec.MacCmd.setFieldBytes, Spec.MacCmd.setField, Spec.MacCmd.toLe, Spec.MacCmd.leValue]
    omega

theorem set_NewChannelReq_set_frequency (wrap : Bytes → Bytes) (cid b0 b1 b2 b3 b4 c0 c1 c2 : Nat) (h0 : b0 < 256) (h1 : b1 < 256) (h2 : b2 < 256) (h3 : b3 < 256) (h4 : b4 < 256) (g0 : c0 < 256) (g1 : c1 < 256) (g2 : c2 < 256) :
    SetAgree (setNewChannelReq { data := cid :: [b0, b1, b2, b3, b4], count := 0 } "set_frequency" (.bytes [c0, c1, c2])) cid
      (Spec.MacCmd.applySetter wrap "NewChannelReq" [b0, b1, b2, b3, b4] "set_frequency" (.bytes [c0, c1, c2])) := by
  rw [show Spec.MacCmd.applySetter wrap "NewChannelReq" [b0, b1, b2, b3, b4] "set_frequency" (.bytes [c0, c1, c2]) = Spec.MacCmd.applyField 8 24 .mask [b0, b1, b2, b3, b4] (.bytes [c0, c1, c2]) from rfl]
  refine ⟨.ok, [b0, c0, c1, c2, b4], ?_, ?_⟩
  · simp [setNewChannelReq, setBytes, copyInto, index, setByte, okD]
  · simp [Spec.MacCmd.applyField, toSpecRes, Spec.MacCmd.setFieldBytes, Spec.MacCmd.setField, Spec.MacCmd.toLe, Spec.MacCmd.leValue]
    omega

theorem set_NewChannelReq_set_data_rate_range (wrap : Bytes → Bytes) (cid b0 b1 b2 b3 b4 v : Nat) (h0 : b0 < 256) (h1 : b1 < 256) (h2 : b2 < 256) (h3 : b3 < 256) (h4 : b4 < 256) (hv : v < 256) :
    SetAgree (setNewChannelReq { data := cid :: [b0, b1, b2, b3, b4], count := 0 } "set_data_rate_range" (.n v)) cid
      (Spec.MacCmd.applySetter wrap "NewChannelReq" [b0, b1, b2, b3, b4] "set_data_rate_range" (.n v)) := by
  rw [show Spec.MacCmd.applySetter wrap "NewChannelReq" [b0, b1, b2, b3, b4] "set_data_rate_range" (.n v) = Spec.MacCmd.applyField 32 8 .mask [b0, b1, b2, b3, b4] (.n v) from rfl]
  refine ⟨.ok, [b0, b1, b2, b3, v], ?_, ?_⟩
  · simp [setNewChannelReq, setRaw, setByte, okD]
  · simp [Spec.MacCmd.applyField, toSpecRes, Spec.MacCmd.setFieldBytes, Spec.MacCmd.setField, Spec.MacCmd.toLe, Spec.MacCmd.leValue]
    omega

theorem set_DlChannelReq_set_channel_index (wrap : Bytes → Bytes) (cid b0 b1 b2 b3 v : Nat) (h0 : b0 < 256) (h1 : b1 < 256) (h2 : b2 < 256) (h3 : b3 < 256) (hv : v < 256) :
    SetAgree (setDlChannelReq { data := cid :: [b0, b1, b2, b3], count := 0 } "set_channel_index" (.n v)) cid
      (Spec.MacCmd.applySetter wrap "DlChannelReq" [b0, b1, b2, b3] "set_channel_index" (.n v)) := by
  rw [show Spec.MacCmd.applySetter wrap "DlChannelReq" [b0, b1, b2, b3] "set_channel_index" (.n v) = Spec.MacCmd.applyField 0 8 .mask [b0, b1, b2, b3] (.n v) from rfl]
  refine ⟨.ok, [v, b1, b2, b3], ?_, ?_⟩
  · simp [setDlChannelReq, setRaw, setByte, okD]
  · simp [Spec.MacCmd.applyField, toSpecRes, Spec.MacCmd.setFieldBytes, Spec.MacCmd.setField, Spec.MacCmd.toLe, Spec.MacCmd.leValue]
    omega

theorem set_DlChannelReq_set_frequency (wrap : Bytes → Bytes) (cid b0 b1 b2 b3 c0 c1 c2 : Nat) (h0 : b0 < 256) (h1 : b1 < 256) (h2 : b2 < 256) (h3 : b3 < 256) (g0 : c0 < 256) (g1 : c1 < 256) (g2 : c2 < 256) :
    SetAgree (setDlChannelReq { data := cid :: [b0, b1, b2, b3], count := 0 } "set_frequency" (.bytes [c0, c1, c2])) cid
      (Spec.MacCmd.applySetter wrap "DlChannelReq" [b0, b1, b2, b3] "set_frequency" (.bytes [c0, c1, c2])) := by
  rw [show Spec.MacCmd.applySetter wrap "DlChannelReq" [b0, b1, b2, b3] "set_frequency" (.bytes [c0, c1, c2]) = Spec.MacCmd.applyField 8 24 .mask [b0, b1, b2, b3] (.bytes [c0, c1, c2]) from rfl]
  refine ⟨.ok, [b0, c0, c1, c2], ?_, ?_⟩
  · simp [setDlChannelReq, setBytes, copyInto, index, setByte, okD]
  · simp [Spec.MacCmd.applyField, toSpecRes, Spec.MacCmd.setFieldBytes, Spec.MacCmd.setField, Spec.MacCmd.toLe, Spec.MacCmd.leValue]
    omega

theorem set_DeviceTimeAns_set_seconds (wrap : Bytes → Bytes) (cid b0 b1 b2 b3 b4 v : Nat) (h0 : b0 < 256) (h1 : b1 < 256) (h2 : b2 < 256) (h3 : b3 < 256) (h4 : b4 < 256) (hv : v < 4294967296) :
    SetAgree (setDeviceTimeAns { data := cid :: [b0, b1, b2, b3, b4], count := 0 } "set_seconds" (.n v)) cid
      (Spec.MacCmd.applySetter wrap "DeviceTimeAns" [b0, b1, b2, b3, b4] "set_seconds" (.n v)) := by
  rw [show Spec.MacCmd.applySetter wrap "DeviceTimeAns" [b0, b1, b2, b3, b4] "set_seconds" (.n v) = Spec.MacCmd.applyField 0 32 .mask [b0, b1, b2, b3, b4] (.n v) from rfl]
  refine ⟨.ok, [v % 256, v / 256 % 256, v / 65536 % 256, v / 16777216 % 256, b4], ?_, ?_⟩
  · simp [setDeviceTimeAns, copyInto, toLeBytes, okD]
    omega
  · simp [Spec.MacCmd.applyField, toSpecRes, Spec.MacCmd.setFieldBytes, Spec.MacCmd.setField, Spec.MacCmd.toLe, Spec.MacCmd.leValue]
    omega

theorem set_RxAppCntAns_set_rx_app_cnt (wrap : Bytes → Bytes) (cid b0 b1 v : Nat) (h0 : b0 < 256) (h1 : b1 < 256) (hv : v < 65536) :
    SetAgree (setRxAppCntAns { data := cid :: [b0, b1], count := 0 } "set_rx_app_cnt" (.n v)) cid
      (Spec.MacCmd.applySetter wrap "RxAppCntAns" [b0, b1] "set_rx_app_cnt" (.n v)) := by
  rw [show Spec.MacCmd.applySetter wrap "RxAppCntAns" [b0, b1] "set_rx_app_cnt" (.n v) = Spec.MacCmd.applyField 0 16 .mask [b0, b1] (.n v) from rfl]
  refine ⟨.ok, [v % 256, v / 256 % 256], ?_, ?_⟩
  · simp [setRxAppCntAns, copyInto, toLeBytes, okD]
  · simp [Spec.MacCmd.applyField, toSpecRes, Spec.MacCmd.setFieldBytes, Spec.MacCmd.setField, Spec.MacCmd.toLe, Spec.MacCmd.leValue]
    omega

theorem set_PackageVersionAns_package_identifier (wrap : Bytes → Bytes) (cid b0 b1 v : Nat) (h0 : b0 < 256) (h1 : b1 < 256) (hv : v < 256) :
    SetAgree (setPackageVersionAns { data := cid :: [b0, b1], count := 0 } "package_identifier" (.n v)) cid
      (Spec.MacCmd.applySetter wrap "PackageVersionAns" [b0, b1] "package_identifier" (.n v)) := by
  rw [show Spec.MacCmd.applySetter wrap "PackageVersionAns" [b0, b1] "package_identifier" (.n v) = Spec.MacCmd.applyField 0 8 .mask [b0, b1] (.n v) from rfl]
  refine ⟨.ok, [v, b1], ?_, ?_⟩
  · simp [setPackageVersionAns, setRaw, setByte, okD]
  · simp [Spec.MacCmd.applyField, toSpecRes, Spec.MacCmd.setFieldBytes, Spec.MacCmd.setField, Spec.MacCmd.toLe, Spec.MacCmd.leValue]
    omega

theorem set_PackageVersionAns_package_version (wrap : Bytes → Bytes) (cid b0 b1 v : Nat) (h0 : b0 < 256) (h1 : b1 < 256) (hv : v < 256) :
    SetAgree (setPackageVersionAns { data := cid :: [b0, b1], count := 0 } "package_version" (.n v)) cid
      (Spec.MacCmd.applySetter wrap "PackageVersionAns" [b0, b1] "package_version" (.n v)) := by
  rw [show Spec.MacCmd.applySetter wrap "PackageVersionAns" [b0, b1] "package_version" (.n v) = Spec.MacCmd.applyField 8 8 .mask [b0, b1] (.n v) from rfl]
  refine ⟨.ok, [b0, v], ?_, ?_⟩
  · simp [setPackageVersionAns, setRaw, setByte, okD]
  · simp [Spec.MacCmd.applyField, toSpecRes, Spec.MacCmd.setFieldBytes, Spec.MacCmd.setField, Spec.MacCmd.toLe, Spec.MacCmd.leValue]
    omega

theorem set_McGroupStatusReq_req_group_mask (wrap : Bytes → Bytes) (cid b0 v : Nat) (h0 : b0 < 256) (hv : v < 256) :
    SetAgree (setMcGroupStatusReq { data := cid :: [b0], count := 0 } "req_group_mask" (.n v)) cid
      (Spec.MacCmd.applySetter wrap "McGroupStatusReq" [b0] "req_group_mask" (.n v)) := by
  rw [show Spec.MacCmd.applySetter wrap "McGroupStatusReq" [b0] "req_group_mask" (.n v) = Spec.MacCmd.applyField 0 4 .mask [b0] (.n v) from rfl]
  refine ⟨.ok, [v % 16 + 16 * (b0 / 16)], ?_, ?_⟩
  · have hp := pat_lo b0 h0 (v % 16) (Nat.mod_lt _ (by omega))
    simp [setMcGroupStatusReq, modByte, index, setByte, okD, and15] at hp ⊢
    omega
  · simp [Spec.MacCmd.applyField, toSpecRes, Spec.MacCmd.setFieldBytes, Spec.MacCmd.setField, Spec.MacCmd.toLe, Spec.MacCmd.leValue]
    omega

theorem set_McGroupSetupAns_mc_group_id_header (wrap : Bytes → Bytes) (cid b0 v : Nat) (h0 : b0 < 256) (hv : v < 256) :
    SetAgree (setMcGroupSetupAns { data := cid :: [b0], count := 0 } "mc_group_id_header" (.n v)) cid
      (Spec.MacCmd.applySetter wrap "McGroupSetupAns" [b0] "mc_group_id_header" (.n v)) := by
  rw [show Spec.MacCmd.applySetter wrap "McGroupSetupAns" [b0] "mc_group_id_header" (.n v) = Spec.MacCmd.applyField 0 2 .mask [b0] (.n v) from rfl]
  refine ⟨.ok, [v % 4 + 4 * (b0 / 4)], ?_, ?_⟩
  · have hp := pat_m2 b0 h0 (v % 4) (Nat.mod_lt _ (by omega))
    simp [setMcGroupSetupAns, modByte, index, setByte, okD, and3] at hp ⊢
    omega
  · simp [Spec.MacCmd.applyField, toSpecRes, Spec.MacCmd.setFieldBytes, Spec.MacCmd.setField, Spec.MacCmd.toLe, Spec.MacCmd.leValue]
    omega

theorem set_McGroupDeleteReq_mc_group_id_header (wrap : Bytes → Bytes) (cid b0 v : Nat) (h0 : b0 < 256) (hv : v < 256) :
    SetAgree (setMcGroupDeleteReq { data := cid :: [b0], count := 0 } "mc_group_id_header" (.n v)) cid
      (Spec.MacCmd.applySetter wrap "McGroupDeleteReq" [b0] "mc_group_id_header" (.n v)) := by
  rw [show Spec.MacCmd.applySetter wrap "McGroupDeleteReq" [b0] "mc_group_id_header" (.n v) = Spec.MacCmd.applyField 0 2 .mask [b0] (.n v) from rfl]
  refine ⟨.ok, [v % 4 + 4 * (b0 / 4)], ?_, ?_⟩
  · have hp := pat_m2 b0 h0 (v % 4) (Nat.mod_lt _ (by omega))
    simp [setMcGroupDeleteReq, modByte, index, setByte, okD, and3] at hp ⊢
    omega
  · simp [Spec.MacCmd.applyField, toSpecRes, Spec.MacCmd.setFieldBytes, Spec.MacCmd.setField, Spec.MacCmd.toLe, Spec.MacCmd.leValue]
    omega

theorem set_McGroupDeleteAns_mc_group_id_header (wrap : Bytes → Bytes) (cid b0 v : Nat) (h0 : b0 < 256) (hv : v < 256) :
    SetAgree (setMcGroupDeleteAns { data := cid :: [b0], count := 0 } "mc_group_id_header" (.n v)) cid
      (Spec.MacCmd.applySetter wrap "McGroupDeleteAns" [b0] "mc_group_id_header" (.n v)) := by
  rw [show Spec.MacCmd.applySetter wrap "McGroupDeleteAns" [b0] "mc_group_id_header" (.n v) = Spec.MacCmd.applyField 0 2 .mask [b0] (.n v) from rfl]
  refine ⟨.ok, [v % 4 + 4 * (b0 / 4)], ?_, ?_⟩
  · have hp := pat_m2 b0 h0 (v % 4) (Nat.mod_lt _ (by omega))
    simp [setMcGroupDeleteAns, modByte, index, setByte, okD, and3] at hp ⊢
    omega
  · simp [Spec.MacCmd.applyField, toSpecRes, Spec.MacCmd.setFieldBytes, Spec.MacCmd.setField, Spec.MacCmd.toLe, Spec.MacCmd.leValue]
    omega


theorem toLeBytes_eq (n v : Nat) : toLeBytes n v = Spec.MacCmd.toLe n v := by
  induction n generalizing v with
  | zero => rfl
  | succ n ih => simp [toLeBytes, Spec.MacCmd.toLe, ih]

theorem set_DutVersionsAns_set_versions_raw (wrap : Bytes → Bytes) (cid m0 m1 m2 m3 m4 m5 m6 m7 m8 m9 m10 m11 : Nat) (post : Bytes) (hpl : post.length = 0) (src : Bytes) (hs : src.length = 12) (hsb : ∀ x ∈ src, x < 256)
    (hpre : ∀ x ∈ [], x < 256) (hmid : ∀ x ∈ [m0, m1, m2, m3, m4, m5, m6, m7, m8, m9, m10, m11], x < 256) (hpost : ∀ x ∈ post, x < 256) :
    SetAgree (setDutVersionsAns { data := cid :: ([] ++ [m0, m1, m2, m3, m4, m5, m6, m7, m8, m9, m10, m11] ++ post), count := 0 } "set_versions_raw" (.bytes src)) cid
      (Spec.MacCmd.applySetter wrap "DutVersionsAns" ([] ++ [m0, m1, m2, m3, m4, m5, m6, m7, m8, m9, m10, m11] ++ post) "set_versions_raw" (.bytes src)) := by
  rw [show Spec.MacCmd.applySetter wrap "DutVersionsAns" ([] ++ [m0, m1, m2, m3, m4, m5, m6, m7, m8, m9, m10, m11] ++ post) "set_versions_raw" (.bytes src) = Spec.MacCmd.applyField 0 96 .mask ([] ++ [m0, m1, m2, m3, m4, m5, m6, m7, m8, m9, m10, m11] ++ post) (.bytes src) from rfl]
  refine ⟨.ok, [] ++ src ++ post, ?_, ?_⟩
  · simp [setDutVersionsAns, setBytes, copyInto, okD, hs]
  · have h := Spec.MacCmd.setFieldBytes_aligned [] [m0, m1, m2, m3, m4, m5, m6, m7, m8, m9, m10, m11] post src (by simp [hs]) hpre hmid hpost hsb
    simp only [List.length_cons, List.length_nil] at h
    simp only [Spec.MacCmd.applyField, toSpecRes]
    exact congrArg (fun x => some (none, x)) h

theorem set_McGroupSetupReq_mc_group_id_header (cph : Cipher) (cid m0 : Nat) (post : Bytes) (hpl : post.length = 28) (v : Nat) (hv : v < 256)
    (hpre : ∀ x ∈ [], x < 256) (hmid : ∀ x ∈ [m0], x < 256) (hpost : ∀ x ∈ post, x < 256) :
    SetAgree (setMcGroupSetupReq cph { data := cid :: ([] ++ [m0] ++ post), count := 0 } "mc_group_id_header" (.n v)) cid
      (Spec.MacCmd.applySetter cph.dec "McGroupSetupReq" ([] ++ [m0] ++ post) "mc_group_id_header" (.n v)) := by
  rw [show Spec.MacCmd.applySetter cph.dec "McGroupSetupReq" ([] ++ [m0] ++ post) "mc_group_id_header" (.n v) = Spec.MacCmd.applyField 0 2 .mask ([] ++ [m0] ++ post) (.n v) from rfl]
  have h0 : m0 < 256 := hmid m0 (by simp)
  refine ⟨.ok, [] ++ [v % 4 + 4 * (m0 / 4)] ++ post, ?_, ?_⟩
  · have hp := pat_m2 m0 h0 (v % 4) (Nat.mod_lt _ (by omega))
    simp [setMcGroupSetupReq, modByte, index, setByte, okD, and3] at hp ⊢
    omega
  · have hb : ∀ x ∈ [v % 4 + 4 * (m0 / 4)], x < 256 := by
      intro x hx
      simp at hx
      omega
    have h := Spec.MacCmd.setFieldBytes_aligned [] [m0] post [v % 4 + 4 * (m0 / 4)] (by simp) hpre hmid hpost hb
    simp only [List.length_cons, List.length_nil, Spec.MacCmd.leValue, Nat.mul_zero, Nat.add_zero] at h
    have key : Spec.MacCmd.setField (Spec.MacCmd.leValue ([] ++ [m0] ++ post)) 0 2 v
        = Spec.MacCmd.setField (Spec.MacCmd.leValue ([] ++ [m0] ++ post)) 0 (8 * (0 + 1)) (v % 4 + 4 * (m0 / 4) + 256 * 0) := by
      simp only [Spec.MacCmd.setField, List.nil_append, List.cons_append, Spec.MacCmd.leValue]
      generalize Spec.MacCmd.leValue post = L
      omega
    simp only [Spec.MacCmd.applyField, toSpecRes]
    unfold Spec.MacCmd.setFieldBytes at h ⊢
    rw [key]
    exact congrArg (fun x => some (none, x)) h

theorem set_McGroupSetupReq_mc_addr (cph : Cipher) (cid a0 m0 m1 m2 m3 : Nat) (post : Bytes) (hpl : post.length = 24) (src : Bytes) (hs : src.length = 4) (hsb : ∀ x ∈ src, x < 256)
    (hpre : ∀ x ∈ [a0], x < 256) (hmid : ∀ x ∈ [m0, m1, m2, m3], x < 256) (hpost : ∀ x ∈ post, x < 256) :
    SetAgree (setMcGroupSetupReq cph { data := cid :: ([a0] ++ [m0, m1, m2, m3] ++ post), count := 0 } "mc_addr" (.bytes src)) cid
      (Spec.MacCmd.applySetter cph.dec "McGroupSetupReq" ([a0] ++ [m0, m1, m2, m3] ++ post) "mc_addr" (.bytes src)) := by
  rw [show Spec.MacCmd.applySetter cph.dec "McGroupSetupReq" ([a0] ++ [m0, m1, m2, m3] ++ post) "mc_addr" (.bytes src) = Spec.MacCmd.applyField 8 32 .mask ([a0] ++ [m0, m1, m2, m3] ++ post) (.bytes src) from rfl]
  refine ⟨.ok, [a0] ++ src ++ post, ?_, ?_⟩
  · simp [setMcGroupSetupReq, setBytes, copyInto, okD, hs]
  · have h := Spec.MacCmd.setFieldBytes_aligned [a0] [m0, m1, m2, m3] post src (by simp [hs]) hpre hmid hpost hsb
    simp only [List.length_cons, List.length_nil] at h
    simp only [Spec.MacCmd.applyField, toSpecRes]
    exact congrArg (fun x => some (none, x)) h

theorem set_McGroupSetupReq_mc_key (cph : Cipher) (cid a0 a1 a2 a3 a4 m0 m1 m2 m3 m4 m5 m6 m7 m8 m9 m10 m11 m12 m13 m14 m15 : Nat) (post : Bytes) (hpl : post.length = 8) (k : Bytes) (hk : k.length = 16) (hd : (cph.dec k).length = 16) (hdb : ∀ x ∈ cph.dec k, x < 256)
    (hpre : ∀ x ∈ [a0, a1, a2, a3, a4], x < 256) (hmid : ∀ x ∈ [m0, m1, m2, m3, m4, m5, m6, m7, m8, m9, m10, m11, m12, m13, m14, m15], x < 256) (hpost : ∀ x ∈ post, x < 256) :
    SetAgree (setMcGroupSetupReq cph { data := cid :: ([a0, a1, a2, a3, a4] ++ [m0, m1, m2, m3, m4, m5, m6, m7, m8, m9, m10, m11, m12, m13, m14, m15] ++ post), count := 0 } "mc_key" (.bytes k)) cid
      (Spec.MacCmd.applySetter cph.dec "McGroupSetupReq" ([a0, a1, a2, a3, a4] ++ [m0, m1, m2, m3, m4, m5, m6, m7, m8, m9, m10, m11, m12, m13, m14, m15] ++ post) "mc_key" (.bytes k)) := by
  rw [show Spec.MacCmd.applySetter cph.dec "McGroupSetupReq" ([a0, a1, a2, a3, a4] ++ [m0, m1, m2, m3, m4, m5, m6, m7, m8, m9, m10, m11, m12, m13, m14, m15] ++ post) "mc_key" (.bytes k) = some (none, Spec.MacCmd.setFieldBytes ([a0, a1, a2, a3, a4] ++ [m0, m1, m2, m3, m4, m5, m6, m7, m8, m9, m10, m11, m12, m13, m14, m15] ++ post) 40 128 (Spec.MacCmd.leValue (cph.dec k))) from rfl]
  refine ⟨.ok, [a0, a1, a2, a3, a4] ++ cph.dec k ++ post, ?_, ?_⟩
  · simp [setMcGroupSetupReq, copyInto, slice, Cipher.decryptBlock, okD, hk, hd]
  · have h := Spec.MacCmd.setFieldBytes_aligned [a0, a1, a2, a3, a4] [m0, m1, m2, m3, m4, m5, m6, m7, m8, m9, m10, m11, m12, m13, m14, m15] post (cph.dec k) (by simp [hd]) hpre hmid hpost hdb
    simp only [List.length_cons, List.length_nil] at h
    simp only [toSpecRes]
    exact congrArg (fun x => some (none, x)) h

theorem set_McGroupSetupReq_min_mc_fcount (cph : Cipher) (cid a0 a1 a2 a3 a4 a5 a6 a7 a8 a9 a10 a11 a12 a13 a14 a15 a16 a17 a18 a19 a20 m0 m1 m2 m3 : Nat) (post : Bytes) (hpl : post.length = 4) (v : Nat) (hv : v < 4294967296)
    (hpre : ∀ x ∈ [a0, a1, a2, a3, a4, a5, a6, a7, a8, a9, a10, a11, a12, a13, a14, a15, a16, a17, a18, a19, a20], x < 256) (hmid : ∀ x ∈ [m0, m1, m2, m3], x < 256) (hpost : ∀ x ∈ post, x < 256) :
    SetAgree (setMcGroupSetupReq cph { data := cid :: ([a0, a1, a2, a3, a4, a5, a6, a7, a8, a9, a10, a11, a12, a13, a14, a15, a16, a17, a18, a19, a20] ++ [m0, m1, m2, m3] ++ post), count := 0 } "min_mc_fcount" (.n v)) cid
      (Spec.MacCmd.applySetter cph.dec "McGroupSetupReq" ([a0, a1, a2, a3, a4, a5, a6, a7, a8, a9, a10, a11, a12, a13, a14, a15, a16, a17, a18, a19, a20] ++ [m0, m1, m2, m3] ++ post) "min_mc_fcount" (.n v)) := by
  rw [show Spec.MacCmd.applySetter cph.dec "McGroupSetupReq" ([a0, a1, a2, a3, a4, a5, a6, a7, a8, a9, a10, a11, a12, a13, a14, a15, a16, a17, a18, a19, a20] ++ [m0, m1, m2, m3] ++ post) "min_mc_fcount" (.n v) = Spec.MacCmd.applyField 168 32 .mask ([a0, a1, a2, a3, a4, a5, a6, a7, a8, a9, a10, a11, a12, a13, a14, a15, a16, a17, a18, a19, a20] ++ [m0, m1, m2, m3] ++ post) (.n v) from rfl]
  refine ⟨.ok, [a0, a1, a2, a3, a4, a5, a6, a7, a8, a9, a10, a11, a12, a13, a14, a15, a16, a17, a18, a19, a20] ++ Spec.MacCmd.toLe 4 v ++ post, ?_, ?_⟩
  · simp [setMcGroupSetupReq, copyInto, okD, toLeBytes_eq, Spec.MacCmd.toLe_length]
  · have h := Spec.MacCmd.setFieldBytes_aligned [a0, a1, a2, a3, a4, a5, a6, a7, a8, a9, a10, a11, a12, a13, a14, a15, a16, a17, a18, a19, a20] [m0, m1, m2, m3] post (Spec.MacCmd.toLe 4 v) (by simp [Spec.MacCmd.toLe_length]) hpre hmid hpost (Spec.MacCmd.toLe_isBytes _ _)
    rw [Spec.MacCmd.leValue_toLe_lt 4 v (by omega)] at h
    simp only [List.length_cons, List.length_nil] at h
    simp only [Spec.MacCmd.applyField, toSpecRes]
    exact congrArg (fun x => some (none, x)) h

theorem set_McGroupSetupReq_max_mc_fcount (cph : Cipher) (cid a0 a1 a2 a3 a4 a5 a6 a7 a8 a9 a10 a11 a12 a13 a14 a15 a16 a17 a18 a19 a20 a21 a22 a23 a24 m0 m1 m2 m3 : Nat) (post : Bytes) (hpl : post.length = 0) (v : Nat) (hv : v < 4294967296)
    (hpre : ∀ x ∈ [a0, a1, a2, a3, a4, a5, a6, a7, a8, a9, a10, a11, a12, a13, a14, a15, a16, a17, a18, a19, a20, a21, a22, a23, a24], x < 256) (hmid : ∀ x ∈ [m0, m1, m2, m3], x < 256) (hpost : ∀ x ∈ post, x < 256) :
    SetAgree (setMcGroupSetupReq cph { data := cid :: ([a0, a1, a2, a3, a4, a5, a6, a7, a8, a9, a10, a11, a12, a13, a14, a15, a16, a17, a18, a19, a20, a21, a22, a23, a24] ++ [m0, m1, m2, m3] ++ post), count := 0 } "max_mc_fcount" (.n v)) cid
      (Spec.MacCmd.applySetter cph.dec "McGroupSetupReq" ([a0, a1, a2, a3, a4, a5, a6, a7, a8, a9, a10, a11, a12, a13, a14, a15, a16, a17, a18, a19, a20, a21, a22, a23, a24] ++ [m0, m1, m2, m3] ++ post) "max_mc_fcount" (.n v)) := by
  rw [show Spec.MacCmd.applySetter cph.dec "McGroupSetupReq" ([a0, a1, a2, a3, a4, a5, a6, a7, a8, a9, a10, a11, a12, a13, a14, a15, a16, a17, a18, a19, a20, a21, a22, a23, a24] ++ [m0, m1, m2, m3] ++ post) "max_mc_fcount" (.n v) = Spec.MacCmd.applyField 200 32 .mask ([a0, a1, a2, a3, a4, a5, a6, a7, a8, a9, a10, a11, a12, a13, a14, a15, a16, a17, a18, a19, a20, a21, a22, a23, a24] ++ [m0, m1, m2, m3] ++ post) (.n v) from rfl]
  refine ⟨.ok, [a0, a1, a2, a3, a4, a5, a6, a7, a8, a9, a10, a11, a12, a13, a14, a15, a16, a17, a18, a19, a20, a21, a22, a23, a24] ++ Spec.MacCmd.toLe 4 v ++ post, ?_, ?_⟩
  · simp [setMcGroupSetupReq, copyInto, okD, toLeBytes_eq, Spec.MacCmd.toLe_length]
  · have h := Spec.MacCmd.setFieldBytes_aligned [a0, a1, a2, a3, a4, a5, a6, a7, a8, a9, a10, a11, a12, a13, a14, a15, a16, a17, a18, a19, a20, a21, a22, a23, a24] [m0, m1, m2, m3] post (Spec.MacCmd.toLe 4 v) (by simp [Spec.MacCmd.toLe_length]) hpre hmid hpost (Spec.MacCmd.toLe_isBytes _ _)
    rw [Spec.MacCmd.leValue_toLe_lt 4 v (by omega)] at h
    simp only [List.length_cons, List.length_nil] at h
    simp only [Spec.MacCmd.applyField, toSpecRes]
    exact congrArg (fun x => some (none, x)) h


/-- DevStatusAns.set_margin: -32..=31 is stored as a 6-bit two's complement value; the two RFU bits of the octet are
written as 0, which is what they are in every reachable creator state (`b1 < 64`) -/
theorem set_DevStatusAns_set_margin (wrap : Bytes → Bytes) (cid b0 b1 : Nat) (m : Int) (h0 : b0 < 256) (h1 : b1 < 64) :
    SetAgree (setDevStatusAns { data := cid :: [b0, b1], count := 0 } "set_margin" (.i m)) cid
      (Spec.MacCmd.applySetter wrap "DevStatusAns" [b0, b1] "set_margin" (.i m)) := by
  by_cases hr : -32 ≤ m ∧ m ≤ 31
  · refine ⟨.ok, [b0, (m % 64).toNat], ?_, ?_⟩
    · simp [setDevStatusAns, hr, setByte, okD, Nat.shiftRight_eq_div_pow]
      omega
    · simp [Spec.MacCmd.applySetter, hr, Spec.MacCmd.applyField, toSpecRes, Spec.MacCmd.setFieldBytes, Spec.MacCmd.setField, Spec.MacCmd.toLe, Spec.MacCmd.leValue]
      omega
  · refine ⟨.err "MarginOutOfRange", [b0, b1], ?_, ?_⟩
    · simp [setDevStatusAns, hr, refuse]
    · simp [Spec.MacCmd.applySetter, hr, toSpecRes]

theorem set_DeviceTimeAns_set_nano_seconds (wrap : Bytes → Bytes) (cid b0 b1 b2 b3 b4 v : Nat)
    (h0 : b0 < 256) (h1 : b1 < 256) (h2 : b2 < 256) (h3 : b3 < 256) (h4 : b4 < 256) :
    SetAgree (setDeviceTimeAns { data := cid :: [b0, b1, b2, b3, b4], count := 0 } "set_nano_seconds" (.n v)) cid
      (Spec.MacCmd.applySetter wrap "DeviceTimeAns" [b0, b1, b2, b3, b4] "set_nano_seconds" (.n v)) := by
  by_cases hr : v > 1000000000
  · refine ⟨.err "NanoSecondsOutOfRange", [b0, b1, b2, b3, b4], ?_, ?_⟩
    · simp [setDeviceTimeAns, hr, refuse]
    · have : ¬ v ≤ 1000000000 := by omega
      simp [Spec.MacCmd.applySetter, this, toSpecRes]
  · have hle : v ≤ 1000000000 := by omega
    refine ⟨.ok, [b0, b1, b2, b3, v / 3906250 % 256], ?_, ?_⟩
    · simp [setDeviceTimeAns, hr, setByte, okD]
    · simp [Spec.MacCmd.applySetter, hle, Spec.MacCmd.applyField, toSpecRes, Spec.MacCmd.setFieldBytes, Spec.MacCmd.setField, Spec.MacCmd.toLe, Spec.MacCmd.leValue]
      generalize v / 3906250 = q
      omega

theorem set_McGroupStatusReq_req_group (wrap : Bytes → Bytes) (cid b0 v : Nat) (h0 : b0 < 256) :
    SetAgree (setMcGroupStatusReq { data := cid :: [b0], count := 0 } "req_group" (.n v)) cid
      (Spec.MacCmd.applySetter wrap "McGroupStatusReq" [b0] "req_group" (.n v)) := by
  have hm : v % 4 < 4 := Nat.mod_lt _ (by omega)
  have hp := pat_orbit b0 h0 (v % 4) hm
  refine ⟨.ok, [if b0 / 2 ^ (v % 4) % 2 = 1 then b0 else b0 + 2 ^ (v % 4)], ?_, ?_⟩
  · simp [setMcGroupStatusReq, modByte, index, setByte, okD, and3, hp]
  · have hc : v % 4 = 0 ∨ v % 4 = 1 ∨ v % 4 = 2 ∨ v % 4 = 3 := by omega
    rcases hc with hc | hc | hc | hc <;>
    · simp only [Spec.MacCmd.applySetter, hc, Spec.MacCmd.field, Spec.MacCmd.leValue]
      split <;> simp_all [Spec.MacCmd.applyField, toSpecRes, Spec.MacCmd.setFieldBytes, Spec.MacCmd.setField, Spec.MacCmd.toLe, Spec.MacCmd.leValue] <;> omega

theorem set_McGroupDeleteAns_mc_group_undefined (wrap : Bytes → Bytes) (cid b0 v : Nat) (h0 : b0 < 256) (hv : v < 2) :
    SetAgree (setMcGroupDeleteAns { data := cid :: [b0], count := 0 } "mc_group_undefined" (.n v)) cid
      (Spec.MacCmd.applySetter wrap "McGroupDeleteAns" [b0] "mc_group_undefined" (.n v)) := by
  rw [show Spec.MacCmd.applySetter wrap "McGroupDeleteAns" [b0] "mc_group_undefined" (.n v) = Spec.MacCmd.applyField 2 1 .mask [b0] (.n v) from rfl]
  have hc : v = 0 ∨ v = 1 := by omega
  rcases hc with rfl | rfl
  · refine ⟨.ok, [b0 % 4 + 4 * (0 + 2 * (b0 / 8))], ?_, ?_⟩
    · simp [setMcGroupDeleteAns, modByte, index, setByte, okD, pat_and251 b0 h0]
    · simp [Spec.MacCmd.applyField, toSpecRes, Spec.MacCmd.setFieldBytes, Spec.MacCmd.setField, Spec.MacCmd.toLe, Spec.MacCmd.leValue]
      omega
  · refine ⟨.ok, [b0 % 4 + 4 * (1 + 2 * (b0 / 8))], ?_, ?_⟩
    · simp [setMcGroupDeleteAns, modByte, index, setByte, okD, pat_or4 b0 h0]
    · simp [Spec.MacCmd.applyField, toSpecRes, Spec.MacCmd.setFieldBytes, Spec.MacCmd.setField, Spec.MacCmd.toLe, Spec.MacCmd.leValue]
      omega

end MacCmd
