import LoraVerif.Lemmas.MacWF
/-!
Totality (no panic, returns) and `regionWF`-preservation of the table look-ups and of every
operation that updates a channel plan: LinkADRReq mask handling, NewChannelReq, DlChannelReq,
JoinAccept CFList.  Tables are the GENERATED ones, so the finite facts are re-decided on every run.
-/
open Gen.Region Gen.Modulation

namespace Model

/-! ## tables -/

def isOk {α} (x : M α) : Bool := x.toOption.isSome

theorem isOk_iff {α} (x : M α) : isOk x = true ↔ ∃ a, x = .ok a := by
  cases x <;> simp [isOk, Except.toOption]

theorem RegionId.mem_all (r : RegionId) : r ∈ RegionId.all := by cases r <;> decide

theorem dr_mem_all (d : DR) : d ∈ DR.all := by cases d <;> decide

theorem window_mem_all (w : Window) : w ∈ Window.all := by cases w <;> decide

theorem datarates_length (r : RegionId) : (datarates r).length = 15 := by cases r <;> rfl

theorem indexDatarate_tot (r : RegionId) (dr : Nat) (h : dr < 15) : Tot (indexDatarate r dr) (fun _ => True) := by
  unfold indexDatarate
  rw [List.getElem?_eq_getElem (by rw [datarates_length]; exact h)]
  exact ⟨_, rfl, trivial⟩

theorem indexDatarate_of_get {r : RegionId} {dr : Nat} {d : Datarate} (h : getDatarate r dr = some d) :
    indexDatarate r dr = .ok (some d) := by
  unfold getDatarate at h
  unfold indexDatarate
  split at h
  · rename_i d' hd'; rw [h]
  · cases h

theorem getDatarate_lt {r : RegionId} {dr : Nat} (h : (getDatarate r dr).isSome = true) : dr < 15 := by
  unfold getDatarate at h
  split at h
  · rename_i d' hd'
    have := (List.getElem?_eq_some_iff.mp hd').1
    rw [datarates_length] at this; exact this
  · cases h

theorem isUplink_get {r : RegionId} {dr : Nat} (h : isUplinkDatarate r dr = true) :
    ∃ d, getDatarate r dr = some d ∧ dr < 15 := by
  unfold isUplinkDatarate at h
  simp only [Bool.and_eq_true] at h
  have h2 := h.2
  cases hg : getDatarate r dr with
  | none => rw [hg] at h2; cases h2
  | some d => exact ⟨d, rfl, getDatarate_lt (by rw [hg]; rfl)⟩

/-- the byte → DR conversion masks with `& 0x0f`: its `unreachable!()` arm is unreachable -/
theorem drOfNat_tot (n : Nat) : Tot (drOfNat n) (fun d => d.toInt.toNat = n % 16) := by
  have hk : n % 16 < 16 := Nat.mod_lt _ (by decide)
  have hand : Rt.andI (n : Int) 15 = ((n % 16 : Nat) : Int) := by
    unfold Rt.andI
    have h0 : (0 : Int) ≤ (n : Int) ∧ (0 : Int) ≤ 15 := ⟨Int.natCast_nonneg n, by decide⟩
    simp only [h0, and_self, if_true]
    have : (15 : Int).toNat = 15 := rfl
    rw [Int.toNat_natCast, this]
    exact congrArg _ (Nat.and_two_pow_sub_one_eq_mod n 4)
  unfold drOfNat u8.into_DR
  simp only [hand]
  generalize n % 16 = k at hk
  have : k = 0 ∨ k = 1 ∨ k = 2 ∨ k = 3 ∨ k = 4 ∨ k = 5 ∨ k = 6 ∨ k = 7 ∨ k = 8 ∨ k = 9 ∨ k = 10 ∨ k = 11 ∨
      k = 12 ∨ k = 13 ∨ k = 14 ∨ k = 15 := by omega
  rcases this with rfl | rfl | rfl | rfl | rfl | rfl | rfl | rfl | rfl | rfl | rfl | rfl | rfl | rfl | rfl | rfl <;>
    exact ⟨_, rfl, rfl⟩

theorem rx_datarate_all : ∀ r ∈ RegionId.all, ∀ d ∈ DR.all, ∀ off ∈ List.range 8, ∀ w ∈ Window.all,
    isOk (rxDatarate r d off w) = true := by decide

theorem rxDatarate_tot (r : RegionId) (d : DR) (off : Nat) (w : Window) (h : off < 8) :
    Tot (rxDatarate r d off w) (fun _ => True) := by
  have := rx_datarate_all r r.mem_all d (dr_mem_all d) off (List.mem_range.mpr h) w (window_mem_all w)
  obtain ⟨a, ha⟩ := (isOk_iff _).mp this
  exact ⟨a, ha, trivial⟩

theorem tx_power_all : ∀ r ∈ RegionId.all, ∀ p ∈ List.range 16, isOk (txPowerAdjust r p) = true := by decide

theorem txPowerAdjust_tot (r : RegionId) (p : Nat) (h : p < 16) : Tot (txPowerAdjust r p) (fun _ => True) := by
  have := tx_power_all r r.mem_all p (List.mem_range.mpr h)
  obtain ⟨a, ha⟩ := (isOk_iff _).mp this
  exact ⟨a, ha, trivial⟩

/-- whatever RX data rate the tables yield and whatever RX2 data rate is configured, the RX2
fallback of `build_rf_config` finds a defined data rate -/
theorem rx2_fallback_all : ∀ r ∈ RegionId.all, ∀ d ∈ DR.all, ∀ off ∈ List.range 8,
    (match rxDatarate r d off Window._2 with
     | .ok d2 => (getDatarate r d2.toInt.toNat).isSome
     | .error _ => false) = true := by decide

/-! ## channel-mask operations of LinkADRReq -/

theorem channelMaskUpdate_tot (rs : RegionState) (m : Mask) (cntl b0 b1 : Nat) (hm : m.length = 9) :
    Tot (channelMaskUpdate rs m cntl b0 b1) (fun r => ∀ m', r = some m' → m'.length = 9) := by
  unfold channelMaskUpdate
  have fin : ∀ {x : M Mask}, Tot x (fun m' => m'.length = 9) →
      Tot (x >>= fun m => (pure (some m) : M (Option Mask))) (fun r => ∀ m', r = some m' → m'.length = 9) := by
    intro x hx
    refine Tot.bind hx (fun a ha => Tot.pure ?_)
    intro m' e; cases e; exact ha
  have nn : Tot (pure none : M (Option Mask)) (fun r => ∀ m', r = some m' → m'.length = 9) :=
    Tot.pure (fun m' e => by cases e)
  cases rs.plan with
  | dyn p =>
    simp only
    split
    · refine Tot.bind (setBank_tot m 0 b0 hm (by omega)) (fun m1 h1 => ?_)
      exact fin (setBank_tot m1 1 b1 h1 (by omega))
    · split
      · exact fin (setBanks_range8_tot m _ hm)
      · exact nn
  | fix p =>
    simp only
    split
    · rename_i h3
      refine Tot.bind (setBank_tot m (cntl * 2) b0 hm (by omega)) (fun m1 h1 => ?_)
      exact fin (setBank_tot m1 (cntl * 2 + 1) b1 h1 (by omega))
    · split
      · exact fin (setBank_tot m 8 b0 hm (by omega))
      · split
        · refine Tot.bind (setBanks_range8_tot m _ hm) (fun m1 h1 => ?_)
          exact fin (setBank_tot m1 8 b0 h1 (by omega))
        · split
          · refine Tot.bind (setBanks_range8_tot m _ hm) (fun m1 h1 => ?_)
            exact Tot.bind (setBank_tot m1 8 b0 h1 (by omega)) (fun m2 h2 => Tot.pure (fun m' e => by cases e; exact h2))
          · split
            · refine Tot.bind (setBanks_range8_tot m _ hm) (fun m1 h1 => ?_)
              exact Tot.bind (setBank_tot m1 8 b0 h1 (by omega)) (fun m2 h2 => Tot.pure (fun m' e => by cases e; exact h2))
            · exact nn

theorem channelMaskGet_length (rs : RegionState) (h : regionWF rs = true) : (channelMaskGet rs).length = 9 := by
  unfold channelMaskGet
  cases hp : rs.plan with
  | dyn p => exact (dynWF_iff.mp ((regionWF_dyn hp).mp h).2).2.1
  | fix p => exact ((regionWF_fix hp).mp h).2.1

theorem channelMaskSet_wf (rs : RegionState) (m : Mask) (h : regionWF rs = true) (hm : m.length = 9) :
    regionWF (channelMaskSet rs m) = true ∧ (channelMaskSet rs m).id = rs.id := by
  unfold channelMaskSet
  cases hp : rs.plan with
  | dyn p =>
    have hw := (regionWF_dyn hp).mp h
    obtain ⟨h1, _, h3, h4⟩ := dynWF_iff.mp hw.2
    refine ⟨?_, rfl⟩
    exact (regionWF_dyn (rs := { rs with plan := .dyn { p with mask := m } }) rfl).mpr ⟨hw.1, dynWF_iff.mpr ⟨h1, hm, h3, h4⟩⟩
  | fix p =>
    have hw := (regionWF_fix hp).mp h
    obtain ⟨_, h2, _, _⟩ := jcWF_iff.mp hw.2.2
    refine ⟨?_, rfl⟩
    exact (regionWF_fix (rs := { rs with plan := .fix { mask := m, jc := p.jc.reset } }) rfl).mpr
      ⟨hw.1, hm, jcWF_iff.mpr ⟨by simp [JoinChannels.reset, Mask.default], h2, avInv_fresh,
        biasFresh_iff.mpr (fun _ _ => ⟨rfl, rfl⟩)⟩⟩

theorem channelMaskValidate_tot (rs : RegionState) (m : Mask) (dr : Option DR) (h : regionWF rs = true)
    (hm : m.length = 9) (hdr : ∀ d, dr = some d → d.toInt.toNat < 15) :
    Tot (channelMaskValidate rs m dr) (fun _ => True) := by
  unfold channelMaskValidate
  cases hp : rs.plan with
  | dyn p =>
    obtain ⟨h1, _, _⟩ := dynWF_iff.mp ((regionWF_dyn hp).mp h).2
    simp only
    apply anyM_tot
    intro i hi
    have hi' : i < 16 := List.mem_range.mp hi
    refine Tot.bind (isEnabled_tot m i hm (by omega)) (fun b _ => ?_)
    cases b
    · exact Tot.pure trivial
    · simp only [if_true]
      rw [List.getElem?_eq_getElem (by omega)]
      exact Tot.pure trivial
  | fix p =>
    simp only
    cases dr with
    | none => exact Tot.pure trivial
    | some d =>
      simp only
      refine Tot.bind (indexDatarate_tot rs.id _ (hdr d rfl)) (fun o _ => ?_)
      cases o with
      | none => exact Tot.pure trivial
      | some dd =>
        simp only
        split
        · apply anyM_tot
          intro i hi
          simp only [List.mem_map, List.mem_range] at hi
          obtain ⟨j, hj, rfl⟩ := hi
          exact isEnabled_tot m _ hm (by omega)
        · split
          · refine Tot.bind (countEnabled_tot m _ 0 hm (fun i hi => ?_)) (fun _ _ => Tot.pure trivial)
            have := List.mem_range.mp hi; omega
          · exact Tot.pure trivial

/-! ## plan updates keep the shape -/

theorem dyn_set_wf {r : RegionId} {p : DynPlan} (h : dynWF r p = true) (idx : Nat) (v : Option Channel) (m' : Mask)
    (hm' : m'.length = 9) (hv : idx < numJoinChannels r → ∃ c, v = some c) (hb : inBand r v = true) :
    dynWF r { channels := p.channels.set idx v, mask := m' } = true := by
  obtain ⟨h1, _, h3, h4⟩ := dynWF_iff.mp h
  refine dynWF_iff.mpr ⟨by simp [h1], hm', fun i hi => ?_, all_set _ _ _ _ h4 hb⟩
  obtain ⟨c, hc⟩ := h3 i hi
  by_cases hii : idx = i
  · subst hii
    obtain ⟨c', rfl⟩ := hv hi
    have hlt : idx < p.channels.length := by
      have := (List.getElem?_eq_some_iff.mp hc).1; exact this
    exact ⟨c', by simp [List.getElem?_set_self hlt]⟩
  · exact ⟨c, by simp only; rw [List.getElem?_set_ne hii]; exact hc⟩

theorem numJoinChannels_le (r : RegionId) : numJoinChannels r ≤ 3 := by cases r <;> decide

theorem channelDlUpdate_tot (rs : RegionState) (index freq : Nat) (h : regionWF rs = true) (hf : rs.id.isFixed = false) :
    Tot (channelDlUpdate rs index freq) (fun r => regionWF r.2 = true ∧ r.2.id = rs.id) := by
  obtain ⟨p, hp⟩ := (regionWF_isFixed h).2 hf
  have hw := (regionWF_dyn hp).mp h
  obtain ⟨h1, h2, _, h4⟩ := dynWF_iff.mp hw.2
  unfold channelDlUpdate
  simp only [hp]
  split
  · exact Tot.pure ⟨h, rfl⟩
  · rename_i hidx
    refine Tot.bind (isEnabled_tot p.mask index h2 (by omega)) (fun en _ => ?_)
    have hslot : p.channels[index]? = some (p.channels[index]'(by omega)) := List.getElem?_eq_getElem (by omega)
    rw [hslot]
    simp only
    split
    · rename_i c hc
      have hcb : inBand rs.id (some c) = true := by rw [← hc]; exact all_getElem? _ _ _ _ h4 hslot
      split
      · split
        · refine Tot.pure ⟨?_, rfl⟩
          exact (regionWF_dyn (rs := { rs with plan := .dyn { p with channels := p.channels.set index _ } }) rfl).mpr
            ⟨hw.1, dyn_set_wf hw.2 index _ p.mask h2 (fun _ => ⟨_, rfl⟩) hcb⟩
        · exact Tot.pure ⟨h, rfl⟩
      · exact Tot.pure ⟨h, rfl⟩
    · exact Tot.pure ⟨h, rfl⟩

theorem handleNewChannel_tot (rs : RegionState) (index freq : Nat) (drr : Option Nat) (h : regionWF rs = true)
    (hf : rs.id.isFixed = false) :
    Tot (handleNewChannel rs index freq drr) (fun r => regionWF r.2 = true ∧ r.2.id = rs.id) := by
  obtain ⟨p, hp⟩ := (regionWF_isFixed h).2 hf
  have hw := (regionWF_dyn hp).mp h
  obtain ⟨h1, h2, _⟩ := dynWF_iff.mp hw.2
  unfold handleNewChannel
  simp only [hp]
  split
  · exact Tot.pure ⟨h, rfl⟩
  · rename_i hlo
    split
    · exact Tot.pure ⟨h, rfl⟩
    · rename_i hhi
      split
      · refine Tot.bind (setChannel_tot p.mask index false h2 (by omega)) (fun m' hm' => Tot.pure ⟨?_, rfl⟩)
        exact (regionWF_dyn (rs := { rs with plan := .dyn { channels := p.channels.set index none, mask := m' } }) rfl).mpr
          ⟨hw.1, dyn_set_wf hw.2 index none m' hm' (fun hc => absurd hc hlo) rfl⟩
      · cases drr with
        | none => exact Tot.pure ⟨h, rfl⟩
        | some r =>
          simp only
          have hsup : Tot (if r / 16 < 15 then
              allM (fun c => do pure (← indexDatarate rs.id c).isSome) ((List.range (r / 16 + 1)).filter (· ≥ r % 16))
            else pure false) (fun _ => True) := by
            split
            · rename_i hd
              apply allM_tot
              intro c hc
              simp only [List.mem_filter, List.mem_range] at hc
              exact Tot.bind (indexDatarate_tot rs.id c (by omega)) (fun _ _ => Tot.pure trivial)
            · exact Tot.pure trivial
          refine Tot.bind hsup (fun sup _ => ?_)
          split
          · rename_i hboth
            have hfv : frequencyValid rs.id freq = true := by
              simp only [Bool.and_eq_true] at hboth; exact hboth.1
            refine Tot.bind (setChannel_tot p.mask index true h2 (by omega)) (fun m' hm' => Tot.pure ⟨?_, rfl⟩)
            exact (regionWF_dyn (rs := { rs with plan := .dyn { channels := p.channels.set index _, mask := m' } }) rfl).mpr
              ⟨hw.1, dyn_set_wf hw.2 index _ m' hm' (fun _ => ⟨_, rfl⟩) hfv⟩
          · exact Tot.pure ⟨h, rfl⟩

/-- the CFList loop: slots from the first non-default one on; never touches the default channels -/
theorem setChannelSlots_tot (r : RegionId) (chans : List (Option Channel)) (i : Nat) (fs : List Nat)
    (hl : chans.length = 16) (hi : i + fs.length ≤ 16) (hlo : numJoinChannels r ≤ i)
    (hd : ∀ j, j < numJoinChannels r → ∃ c, chans[j]? = some (some c)) (hb : chans.all (inBand r) = true) :
    Tot (setChannelSlots r chans i fs) (fun out => out.length = 16 ∧
      (∀ j, j < numJoinChannels r → ∃ c, out[j]? = some (some c)) ∧ out.all (inBand r) = true) := by
  induction fs generalizing chans i with
  | nil => exact ⟨chans, rfl, hl, hd, hb⟩
  | cons f rest ih =>
    unfold setChannelSlots
    simp only [List.length_cons] at hi
    have hlt : i < chans.length := by omega
    simp only [hlt, if_true]
    apply ih
    · split
      · simp [hl]
      · split
        · simp [hl]
        · exact hl
    · omega
    · omega
    · intro j hj
      obtain ⟨c, hc⟩ := hd j hj
      have hne : i ≠ j := by omega
      refine ⟨c, ?_⟩
      split
      · rw [List.getElem?_set_ne hne]; exact hc
      · split
        · rw [List.getElem?_set_ne hne]; exact hc
        · exact hc
    · split
      · exact all_set _ _ _ _ hb rfl
      · split
        · rename_i hv
          exact all_set _ _ _ _ hb (by simpa [inBand, mkChan] using hv)
        · exact hb

theorem processJoinAccept_tot (rs : RegionState) (cf : Option CfList) (h : regionWF rs = true) (hcf : cfListWF cf = true) :
    Tot (processJoinAccept rs cf) (fun rs' => regionWF rs' = true ∧ rs'.id = rs.id) := by
  unfold processJoinAccept
  cases hp : rs.plan with
  | dyn p =>
    have hw := (regionWF_dyn hp).mp h
    obtain ⟨h1, h2, h3, h4⟩ := dynWF_iff.mp hw.2
    cases cf with
    | none => exact Tot.pure ⟨h, rfl⟩
    | some c =>
      cases c with
      | fixedChannel m => exact Tot.pure ⟨h, rfl⟩
      | dynamicChannel fs =>
        simp only
        have hfs : fs.length = 5 := by simpa [cfListWF] using hcf
        have hn := numJoinChannels_le rs.id
        refine Tot.bind (setChannelSlots_tot rs.id p.channels (numJoinChannels rs.id) fs h1 (by omega) (Nat.le_refl _) h3 h4) ?_
        intro chans ⟨hc1, hc2, hc3⟩
        refine Tot.pure ⟨?_, rfl⟩
        exact (regionWF_dyn (rs := { rs with plan := .dyn { p with channels := chans } }) rfl).mpr
          ⟨hw.1, dynWF_iff.mpr ⟨hc1, h2, hc2, hc3⟩⟩
  | fix p =>
    have hw := (regionWF_fix hp).mp h
    obtain ⟨_, hsb, _, _⟩ := jcWF_iff.mp hw.2.2
    cases cf with
    | none => exact Tot.pure ⟨h, rfl⟩
    | some c =>
      cases c with
      | dynamicChannel fs => exact Tot.pure ⟨h, rfl⟩
      | fixedChannel m =>
        simp only
        have hm : m.length = 9 := by simpa [cfListWF] using hcf
        refine Tot.pure ⟨?_, rfl⟩
        exact (regionWF_fix (rs := { rs with plan := .fix { mask := m, jc := p.jc.reset } }) rfl).mpr
          ⟨hw.1, hm, jcWF_iff.mpr ⟨by simp [JoinChannels.reset, Mask.default], hsb, avInv_fresh,
            biasFresh_iff.mpr (fun _ _ => ⟨rfl, rfl⟩)⟩⟩

end Model
