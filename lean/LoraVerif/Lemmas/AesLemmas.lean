import LoraVerif.Model.Aes
/-!
# The Lean AES-128 is invertible: `decrypt k (encrypt k b) = b` and `encrypt k (decrypt k b) = b`

SubBytes / InvSubBytes by the 256-entry tables, ShiftRows by the index permutation, MixColumns by
GF(2)-linearity of `xtime` (proved structurally from the shift/xor laws and the two values of the top
bit — no 2^16 enumeration) plus sixteen single-variable coefficient identities over the 256 bytes,
AddRoundKey by `x ^ k ^ k = x`, and induction over the list of round keys (any key schedule).
-/
open Lora Lora.Aes
set_option maxRecDepth 100000

namespace Lora.AesLemmas

theorem uint8_forall' (P : UInt8 → Prop) (h : ∀ i : Fin 256, P (UInt8.ofNat i.val)) (x : UInt8) : P x := by
  have := h ⟨x.toNat, x.toNat_lt⟩
  simpa using this

/-- the reduction constant as a function of the top bit -/
def red (t : UInt8) : UInt8 := if t = 0 then 0 else 0x1b

theorem xtime_eq : ∀ a : UInt8, xtime a = (a <<< 1) ^^^ red (a >>> 7) := uint8_forall' _ (by decide +kernel)
theorem top_bit : ∀ a : UInt8, a >>> 7 = 0 ∨ a >>> 7 = 1 := uint8_forall' _ (by decide +kernel)

theorem xtime_xor (a b : UInt8) : xtime (a ^^^ b) = xtime a ^^^ xtime b := by
  rw [xtime_eq, xtime_eq a, xtime_eq b, UInt8.shiftLeft_xor, UInt8.shiftRight_xor]
  have hr : red (a >>> 7 ^^^ b >>> 7) = red (a >>> 7) ^^^ red (b >>> 7) := by
    rcases top_bit a with ha | ha <;> rcases top_bit b with hb | hb <;> rw [ha, hb] <;> decide
  rw [hr]
  ac_rfl

theorem xtime_zero : xtime 0 = 0 := by decide

/-- single-variable identities: the (0e 0b 0d 09) circulant inverts the (02 03 01 01) circulant -/
theorem inv_coeffs : ∀ x : UInt8,
    (mul14 (mul2 x) ^^^ mul11 x ^^^ mul13 x ^^^ mul9 (mul3 x) = x) ∧
    (mul14 (mul3 x) ^^^ mul11 (mul2 x) ^^^ mul13 x ^^^ mul9 x = 0) ∧
    (mul14 x ^^^ mul11 (mul3 x) ^^^ mul13 (mul2 x) ^^^ mul9 x = 0) ∧
    (mul14 x ^^^ mul11 x ^^^ mul13 (mul3 x) ^^^ mul9 (mul2 x) = 0) := uint8_forall' _ (by decide +kernel)

theorem mul2_xor (a b : UInt8) : mul2 (a ^^^ b) = mul2 a ^^^ mul2 b := xtime_xor a b
theorem mul3_xor (a b : UInt8) : mul3 (a ^^^ b) = mul3 a ^^^ mul3 b := by
  simp only [mul3, xtime_xor]; ac_rfl
theorem mul9_xor (a b : UInt8) : mul9 (a ^^^ b) = mul9 a ^^^ mul9 b := by
  simp only [mul9, xtime_xor]; ac_rfl
theorem mul11_xor (a b : UInt8) : mul11 (a ^^^ b) = mul11 a ^^^ mul11 b := by
  simp only [mul11, xtime_xor]; ac_rfl
theorem mul13_xor (a b : UInt8) : mul13 (a ^^^ b) = mul13 a ^^^ mul13 b := by
  simp only [mul13, xtime_xor]; ac_rfl
theorem mul14_xor (a b : UInt8) : mul14 (a ^^^ b) = mul14 a ^^^ mul14 b := by
  simp only [mul14, xtime_xor]; ac_rfl

/-- one column: InvMixColumns undoes MixColumns (first output byte; the others by rotation) -/
theorem imc_mc (a b c d : UInt8) : imc (mc a b c d) (mc b c d a) (mc c d a b) (mc d a b c) = a := by
  obtain ⟨ha, _, _, _⟩ := inv_coeffs a
  obtain ⟨_, hb, _, _⟩ := inv_coeffs b
  obtain ⟨_, _, hc, _⟩ := inv_coeffs c
  obtain ⟨_, _, _, hd⟩ := inv_coeffs d
  have h : imc (mc a b c d) (mc b c d a) (mc c d a b) (mc d a b c)
      = (mul14 (mul2 a) ^^^ mul11 a ^^^ mul13 a ^^^ mul9 (mul3 a))
        ^^^ (mul14 (mul3 b) ^^^ mul11 (mul2 b) ^^^ mul13 b ^^^ mul9 b)
        ^^^ (mul14 c ^^^ mul11 (mul3 c) ^^^ mul13 (mul2 c) ^^^ mul9 c)
        ^^^ (mul14 d ^^^ mul11 d ^^^ mul13 (mul3 d) ^^^ mul9 (mul2 d)) := by
    simp only [imc, mc, mul9_xor, mul11_xor, mul13_xor, mul14_xor]
    ac_rfl
  rw [h, ha, hb, hc, hd]
  simp

theorem vec16_eta (s : Block) :
    #v[s[0], s[1], s[2], s[3], s[4], s[5], s[6], s[7], s[8], s[9], s[10], s[11], s[12], s[13], s[14], s[15]] = s := by
  rcases s with ⟨⟨l⟩, h⟩
  obtain ⟨x0, l, rfl⟩ : ∃ x l', l = x :: l' := by cases l with | nil => simp at h | cons x l => exact ⟨x, l, rfl⟩
  obtain ⟨x1, l, rfl⟩ : ∃ x l', l = x :: l' := by cases l with | nil => simp at h | cons x l => exact ⟨x, l, rfl⟩
  obtain ⟨x2, l, rfl⟩ : ∃ x l', l = x :: l' := by cases l with | nil => simp at h | cons x l => exact ⟨x, l, rfl⟩
  obtain ⟨x3, l, rfl⟩ : ∃ x l', l = x :: l' := by cases l with | nil => simp at h | cons x l => exact ⟨x, l, rfl⟩
  obtain ⟨x4, l, rfl⟩ : ∃ x l', l = x :: l' := by cases l with | nil => simp at h | cons x l => exact ⟨x, l, rfl⟩
  obtain ⟨x5, l, rfl⟩ : ∃ x l', l = x :: l' := by cases l with | nil => simp at h | cons x l => exact ⟨x, l, rfl⟩
  obtain ⟨x6, l, rfl⟩ : ∃ x l', l = x :: l' := by cases l with | nil => simp at h | cons x l => exact ⟨x, l, rfl⟩
  obtain ⟨x7, l, rfl⟩ : ∃ x l', l = x :: l' := by cases l with | nil => simp at h | cons x l => exact ⟨x, l, rfl⟩
  obtain ⟨x8, l, rfl⟩ : ∃ x l', l = x :: l' := by cases l with | nil => simp at h | cons x l => exact ⟨x, l, rfl⟩
  obtain ⟨x9, l, rfl⟩ : ∃ x l', l = x :: l' := by cases l with | nil => simp at h | cons x l => exact ⟨x, l, rfl⟩
  obtain ⟨x10, l, rfl⟩ : ∃ x l', l = x :: l' := by cases l with | nil => simp at h | cons x l => exact ⟨x, l, rfl⟩
  obtain ⟨x11, l, rfl⟩ : ∃ x l', l = x :: l' := by cases l with | nil => simp at h | cons x l => exact ⟨x, l, rfl⟩
  obtain ⟨x12, l, rfl⟩ : ∃ x l', l = x :: l' := by cases l with | nil => simp at h | cons x l => exact ⟨x, l, rfl⟩
  obtain ⟨x13, l, rfl⟩ : ∃ x l', l = x :: l' := by cases l with | nil => simp at h | cons x l => exact ⟨x, l, rfl⟩
  obtain ⟨x14, l, rfl⟩ : ∃ x l', l = x :: l' := by cases l with | nil => simp at h | cons x l => exact ⟨x, l, rfl⟩
  obtain ⟨x15, l, rfl⟩ : ∃ x l', l = x :: l' := by cases l with | nil => simp at h | cons x l => exact ⟨x, l, rfl⟩
  cases l with
  | nil => rfl
  | cons y l => simp at h

theorem xorB_xorB (a k : Block) : xorB (xorB a k) k = a := by
  conv => rhs; rw [← vec16_eta a]
  simp [xorB, UInt8.xor_assoc]

theorem sub_inv : ∀ x : UInt8, invSub (sub x) = x ∧ sub (invSub x) = x := uint8_forall' _ (by decide +kernel)

theorem invSubBytes_subBytes (s : Block) : invSubBytes (subBytes s) = s := by
  conv => rhs; rw [← vec16_eta s]
  simp [subBytes, invSubBytes, (sub_inv _).1]

theorem invShiftRows_shiftRows (s : Block) : invShiftRows (shiftRows s) = s := by
  conv => rhs; rw [← vec16_eta s]
  simp [shiftRows, invShiftRows]

theorem invMixColumns_mixColumns (s : Block) : invMixColumns (mixColumns s) = s := by
  conv => rhs; rw [← vec16_eta s]
  simp [mixColumns, invMixColumns, imc_mc]

theorem decRound_encRound (s k : Block) : decRound k (encRound s k) = s := by
  simp [decRound, encRound, xorB_xorB, invMixColumns_mixColumns, invShiftRows_shiftRows, invSubBytes_subBytes]

theorem foldr_foldl (ks : List Block) (s : Block) : ks.foldr decRound (ks.foldl encRound s) = s := by
  induction ks generalizing s with
  | nil => rfl
  | cons k ks ih => simp only [List.foldl_cons, List.foldr_cons, ih, decRound_encRound]

/-- **AES-128 decryption inverts encryption** (for the Lean AES of `Model/Aes.lean`, any key schedule) -/
theorem decrypt_encrypt (k b : Block) : decrypt k (encrypt k b) = b := by
  simp [decrypt, encrypt, decryptWith, encryptWith, xorB_xorB, invShiftRows_shiftRows, invSubBytes_subBytes, foldr_foldl]

theorem fwd_coeffs : ∀ x : UInt8,
    (mul2 (mul14 x) ^^^ mul3 (mul9 x) ^^^ mul13 x ^^^ mul11 x = x) ∧
    (mul2 (mul11 x) ^^^ mul3 (mul14 x) ^^^ mul9 x ^^^ mul13 x = 0) ∧
    (mul2 (mul13 x) ^^^ mul3 (mul11 x) ^^^ mul14 x ^^^ mul9 x = 0) ∧
    (mul2 (mul9 x) ^^^ mul3 (mul13 x) ^^^ mul11 x ^^^ mul14 x = 0) := uint8_forall' _ (by decide +kernel)

theorem mc_imc (a b c d : UInt8) : mc (imc a b c d) (imc b c d a) (imc c d a b) (imc d a b c) = a := by
  obtain ⟨ha, _, _, _⟩ := fwd_coeffs a
  obtain ⟨_, hb, _, _⟩ := fwd_coeffs b
  obtain ⟨_, _, hc, _⟩ := fwd_coeffs c
  obtain ⟨_, _, _, hd⟩ := fwd_coeffs d
  have h : mc (imc a b c d) (imc b c d a) (imc c d a b) (imc d a b c)
      = (mul2 (mul14 a) ^^^ mul3 (mul9 a) ^^^ mul13 a ^^^ mul11 a)
        ^^^ (mul2 (mul11 b) ^^^ mul3 (mul14 b) ^^^ mul9 b ^^^ mul13 b)
        ^^^ (mul2 (mul13 c) ^^^ mul3 (mul11 c) ^^^ mul14 c ^^^ mul9 c)
        ^^^ (mul2 (mul9 d) ^^^ mul3 (mul13 d) ^^^ mul11 d ^^^ mul14 d) := by
    simp only [imc, mc, mul2_xor, mul3_xor]
    ac_rfl
  rw [h, ha, hb, hc, hd]
  simp

theorem subBytes_invSubBytes (s : Block) : subBytes (invSubBytes s) = s := by
  conv => rhs; rw [← vec16_eta s]
  simp [subBytes, invSubBytes, (sub_inv _).2]

theorem shiftRows_invShiftRows (s : Block) : shiftRows (invShiftRows s) = s := by
  conv => rhs; rw [← vec16_eta s]
  simp [shiftRows, invShiftRows]

theorem mixColumns_invMixColumns (s : Block) : mixColumns (invMixColumns s) = s := by
  conv => rhs; rw [← vec16_eta s]
  simp [mixColumns, invMixColumns, mc_imc]

theorem encRound_decRound (s k : Block) : encRound (decRound k s) k = s := by
  simp [decRound, encRound, xorB_xorB, mixColumns_invMixColumns, shiftRows_invShiftRows, subBytes_invSubBytes]

theorem foldl_foldr (ks : List Block) (s : Block) : ks.foldl encRound (ks.foldr decRound s) = s := by
  induction ks generalizing s with
  | nil => rfl
  | cons k ks ih => simp only [List.foldl_cons, List.foldr_cons, encRound_decRound, ih]

/-- **AES-128 encryption inverts decryption** -/
theorem encrypt_decrypt (k b : Block) : encrypt k (decrypt k b) = b := by
  simp [decrypt, encrypt, decryptWith, encryptWith, xorB_xorB, shiftRows_invShiftRows, subBytes_invSubBytes, foldl_foldr]

end Lora.AesLemmas

namespace Lora
/-- the Lean AES is a lawful cipher: the hypothesis of `C02.join_accept_round_trip` is discharged for it -/
theorem aes_lawful : LawfulCipher aes :=
  ⟨AesLemmas.decrypt_encrypt, AesLemmas.encrypt_decrypt⟩
end Lora
