import LoraVerif.Model.MacCmdFields
import LoraVerif.Lemmas.MacCmdIter
/-! No accessor of a payload that is at least as long as the accessors reach (`need`) panics; the
generated tables give every payload type at least that length (used by `Props/C03.accessors_no_panic`). -/
namespace MacCmd

def IsBytes (d : Bytes) : Prop := ∀ x ∈ d, x < 256
def AllOk (l : List (String × Outcome Val)) : Prop := ∀ a ∈ l, a.2.isOk = true

@[simp] theorem isBytes_cons (a : Nat) (d : Bytes) : IsBytes (a :: d) ↔ a < 256 ∧ IsBytes d := by
  simp [IsBytes]
@[simp] theorem isBytes_nil : IsBytes [] := by simp [IsBytes]
theorem IsBytes.append {a b : Bytes} : IsBytes (a ++ b) ↔ IsBytes a ∧ IsBytes b := by
  simp [IsBytes, or_imp, forall_and]
theorem IsBytes.flatten {l : List Bytes} (h : IsBytes l.flatten) : ∀ x ∈ l, IsBytes x := by
  intro x hx y hy
  exact h y (List.mem_flatten.mpr ⟨x, hx, hy⟩)

theorem and15_le (x : Nat) : x &&& 15 ≤ 15 := Nat.and_le_right
theorem and15_lt32 (x : Nat) : x &&& 15 < 32 := Nat.lt_of_le_of_lt Nat.and_le_right (by decide)
theorem ckU32_ok {s : String} {v : Nat} (h : v < 4294967296) : ckU32 s v = .ok v := by simp [ckU32, h]

theorem maxEirp_some (m : Nat) (h : m ≤ 15) : ∃ v, maxEirpTable[m]? = some v := by
  have : ∀ m, m < 16 → (maxEirpTable[m]?).isSome = true := by decide
  exact Option.isSome_iff_exists.mp (this m (by omega))

theorem periodicity_some (v : Nat) (h1 : v ≠ 0) (h2 : v ≤ 10) : ∃ s, periodicityTable[v - 1]? = some s := by
  have : ∀ m, m < 10 → (periodicityTable[m]?).isSome = true := by decide
  exact Option.isSome_iff_exists.mp (this (v - 1) (by omega))

theorem groupItems_ok : ∀ (fuel : Nat) (data : Bytes) (pos : Nat), ∃ l, groupItems fuel data pos = .ok l := by
  intro fuel
  induction fuel with
  | zero => intro data pos; exact ⟨_, rfl⟩
  | succ fuel ih =>
    intro data pos
    unfold groupItems
    split
    · exact ⟨_, rfl⟩
    · rename_i h
      rw [slice_ok (by omega) (by omega)]
      simp only [Outcome.ok_bind]
      have hl : ((data.drop pos).take (pos + 5 - pos)).length = 5 := by simp; omega
      generalize (data.drop pos).take (pos + 5 - pos) = it at hl
      rcases it with _ | ⟨b0, _ | ⟨b1, _ | ⟨b2, _ | ⟨b3, _ | ⟨b4, _ | ⟨b5, r⟩⟩⟩⟩⟩⟩ <;> simp at hl
      obtain ⟨l, hl⟩ := ih data (pos + 5)
      simp [index, slice, exact, hl]

theorem accLinkCheckAns_ok {p : Bytes} (h : 2 ≤ p.length) : AllOk (accLinkCheckAns p) := by
  rcases p with _ | ⟨a0, _ | ⟨a1, rest⟩⟩ <;> simp at h
  simp [AllOk, accLinkCheckAns, index]

theorem accLinkADRReq_ok {p : Bytes} (h : 4 ≤ p.length) : AllOk (accLinkADRReq p) := by
  rcases p with _ | ⟨a0, _ | ⟨a1, _ | ⟨a2, _ | ⟨a3, rest⟩⟩⟩⟩ <;> simp at h
  simp [AllOk, accLinkADRReq, index, slice, channelMask2, drFrom, and15_le]

theorem accDutyCycleReq_ok {p : Bytes} (h : 1 ≤ p.length) : AllOk (accDutyCycleReq p) := by
  rcases p with _ | ⟨a0, rest⟩ <;> simp at h
  simp [AllOk, accDutyCycleReq, index, dutyCycleBits, and15_lt32]

theorem accRXParamSetupReq_ok {p : Bytes} (h : 4 ≤ p.length) (hb : IsBytes p) : AllOk (accRXParamSetupReq p) := by
  rcases p with _ | ⟨a0, _ | ⟨a1, _ | ⟨a2, _ | ⟨a3, rest⟩⟩⟩⟩ <;> simp at h
  simp at hb
  obtain ⟨h0, h1, h2, h3, _⟩ := hb
  simp [AllOk, accRXParamSetupReq, index, sliceFrom, drFrom, and15_le, frequencyValue, Nat.shiftLeft_eq]
  simp (disch := omega) [ckU32_ok]

theorem accNewChannelReq_ok {p : Bytes} (h : 5 ≤ p.length) (hb : IsBytes p) : AllOk (accNewChannelReq p) := by
  rcases p with _ | ⟨a0, _ | ⟨a1, _ | ⟨a2, _ | ⟨a3, _ | ⟨a4, rest⟩⟩⟩⟩⟩ <;> simp at h
  simp at hb
  obtain ⟨h0, h1, h2, h3, h4, _⟩ := hb
  simp [AllOk, accNewChannelReq, index, slice, frequencyValue, Nat.shiftLeft_eq]
  simp (disch := omega) [ckU32_ok]
  refine ⟨?_, ?_, ?_⟩ <;> (split <;> rfl)

theorem accRXTimingSetupReq_ok {p : Bytes} (h : 1 ≤ p.length) : AllOk (accRXTimingSetupReq p) := by
  rcases p with _ | ⟨a0, rest⟩ <;> simp at h
  simp [AllOk, accRXTimingSetupReq, index]

theorem accDlChannelReq_ok {p : Bytes} (h : 4 ≤ p.length) (hb : IsBytes p) : AllOk (accDlChannelReq p) := by
  rcases p with _ | ⟨a0, _ | ⟨a1, _ | ⟨a2, _ | ⟨a3, rest⟩⟩⟩⟩ <;> simp at h
  simp at hb
  obtain ⟨h0, h1, h2, h3, _⟩ := hb
  simp [AllOk, accDlChannelReq, index, slice, frequencyValue, Nat.shiftLeft_eq]
  simp (disch := omega) [ckU32_ok]

theorem accDeviceTimeAns_ok {p : Bytes} (h : 5 ≤ p.length) (hb : IsBytes p) : AllOk (accDeviceTimeAns p) := by
  rcases p with _ | ⟨a0, _ | ⟨a1, _ | ⟨a2, _ | ⟨a3, _ | ⟨a4, rest⟩⟩⟩⟩⟩ <;> simp at h
  simp at hb
  obtain ⟨h0, h1, h2, h3, h4, _⟩ := hb
  simp [AllOk, accDeviceTimeAns, index]
  simp (disch := omega) [ckU32_ok]

theorem accLinkADRAns_ok {p : Bytes} (h : 1 ≤ p.length) : AllOk (accLinkADRAns p) := by
  rcases p with _ | ⟨a0, rest⟩ <;> simp at h
  simp [AllOk, accLinkADRAns, index]

theorem accRXParamSetupAns_ok {p : Bytes} (h : 1 ≤ p.length) : AllOk (accRXParamSetupAns p) := by
  rcases p with _ | ⟨a0, rest⟩ <;> simp at h
  simp [AllOk, accRXParamSetupAns, index]

theorem accDevStatusAns_ok {p : Bytes} (h : 2 ≤ p.length) : AllOk (accDevStatusAns p) := by
  rcases p with _ | ⟨a0, _ | ⟨a1, rest⟩⟩ <;> simp at h
  simp [AllOk, accDevStatusAns, index]

theorem accNewChannelAns_ok {p : Bytes} (h : 1 ≤ p.length) : AllOk (accNewChannelAns p) := by
  rcases p with _ | ⟨a0, rest⟩ <;> simp at h
  simp [AllOk, accNewChannelAns, index]

theorem accDlChannelAns_ok {p : Bytes} (h : 1 ≤ p.length) : AllOk (accDlChannelAns p) := by
  rcases p with _ | ⟨a0, rest⟩ <;> simp at h
  simp [AllOk, accDlChannelAns, index]

theorem accAdrBitChangeReq_ok {p : Bytes} (h : 1 ≤ p.length) : AllOk (accAdrBitChangeReq p) := by
  rcases p with _ | ⟨a0, rest⟩ <;> simp at h
  simp [AllOk, accAdrBitChangeReq, index]

theorem accTxFramesCtrlReq_ok {p : Bytes} (h : 1 ≤ p.length) : AllOk (accTxFramesCtrlReq p) := by
  rcases p with _ | ⟨a0, rest⟩ <;> simp at h
  simp [AllOk, accTxFramesCtrlReq, index]

theorem accEchoIncPayloadReq_ok {p : Bytes} (h : 1 ≤ p.length) : AllOk (accEchoIncPayloadReq p) := by
  rcases p with _ | ⟨a0, rest⟩ <;> simp at h
  simp [AllOk, accEchoIncPayloadReq, slice]

theorem accMcGroupStatusReq_ok {p : Bytes} (h : 1 ≤ p.length) : AllOk (accMcGroupStatusReq p) := by
  rcases p with _ | ⟨a0, rest⟩ <;> simp at h
  simp [AllOk, accMcGroupStatusReq, index]

theorem accMcGroupDeleteReq_ok {p : Bytes} (h : 1 ≤ p.length) : AllOk (accMcGroupDeleteReq p) := by
  rcases p with _ | ⟨a0, rest⟩ <;> simp at h
  simp [AllOk, accMcGroupDeleteReq, index]

theorem accPackageVersionAns_ok {p : Bytes} (h : 2 ≤ p.length) : AllOk (accPackageVersionAns p) := by
  rcases p with _ | ⟨a0, _ | ⟨a1, rest⟩⟩ <;> simp at h
  simp [AllOk, accPackageVersionAns, index]

theorem accMcGroupSetupAns_ok {p : Bytes} (h : 1 ≤ p.length) : AllOk (accMcGroupSetupAns p) := by
  rcases p with _ | ⟨a0, rest⟩ <;> simp at h
  simp [AllOk, accMcGroupSetupAns, index]

theorem accMcGroupDeleteAns_ok {p : Bytes} (h : 1 ≤ p.length) : AllOk (accMcGroupDeleteAns p) := by
  rcases p with _ | ⟨a0, rest⟩ <;> simp at h
  simp [AllOk, accMcGroupDeleteAns, index]

theorem accTXParamSetupReq_ok {p : Bytes} (h : 1 ≤ p.length) : AllOk (accTXParamSetupReq p) := by
  rcases p with _ | ⟨a0, rest⟩ <;> simp at h
  obtain ⟨v, hv⟩ := maxEirp_some (a0 &&& 15) (and15_le a0)
  simp [AllOk, accTXParamSetupReq, index, hv]

theorem accTxPeriodicityChangeReq_ok {p : Bytes} (h : 1 ≤ p.length) : AllOk (accTxPeriodicityChangeReq p) := by
  rcases p with _ | ⟨a0, rest⟩ <;> simp at h
  simp only [AllOk, accTxPeriodicityChangeReq, index, List.mem_cons, List.mem_nil_iff, or_false, forall_eq,
    List.getElem?_cons_zero, Outcome.ok_bind]
  split
  · rfl
  · split
    · rfl
    · rename_i h1 h2
      obtain ⟨s, hs⟩ := periodicity_some a0 h2 (by omega)
      simp [hs]

theorem accEchoIncPayloadAns_ok (p : Bytes) : AllOk (accEchoIncPayloadAns p) := by
  simp [AllOk, accEchoIncPayloadAns]

theorem accMcGroupStatusAns_ok {p : Bytes} (h : 1 ≤ p.length) : AllOk (accMcGroupStatusAns p) := by
  rcases p with _ | ⟨a0, rest⟩ <;> simp at h
  obtain ⟨l, hl⟩ := groupItems_ok (rest.length + 1) rest 0
  simp [AllOk, accMcGroupStatusAns, index, sliceFrom, hl]

theorem u32FromLe_ok {s : String} {d : Bytes} (h : d.length = 4) : ∃ v, u32FromLe s d = .ok v := by
  rcases d with _ | ⟨b0, _ | ⟨b1, _ | ⟨b2, _ | ⟨b3, _ | ⟨b4, r⟩⟩⟩⟩⟩ <;> simp at h
  simp [u32FromLe, exact]

theorem accMcGroupSetupReq_ok (cph : Cipher) {p : Bytes} (h : 29 ≤ p.length) : AllOk (accMcGroupSetupReq cph p) := by
  have e1 : ((p.drop 1).take (5 - 1)).length = 4 := by simp; omega
  have e2 : ((p.drop 5).take (21 - 5)).length = 16 := by simp; omega
  obtain ⟨v1, hv1⟩ := u32FromLe_ok (s := "min_mc_fcount: try_into().unwrap()") (d := (p.drop 21).take (25 - 21)) (by simp; omega)
  obtain ⟨v2, hv2⟩ := u32FromLe_ok (s := "max_mc_fcount: try_into().unwrap()") (d := (p.drop 25).take (29 - 25)) (by simp; omega)
  have i0 : index "self.0[i]" p 0 = .ok p[0] := by simp [index]; rw [List.getElem?_eq_getElem (by omega)]
  simp only [AllOk, accMcGroupSetupReq, List.mem_cons, List.mem_nil_iff, or_false, forall_eq_or_imp, forall_eq, i0,
    slice_ok (show 1 ≤ 5 by omega) (show 5 ≤ p.length by omega), slice_ok (show 5 ≤ 21 by omega) (show 21 ≤ p.length by omega),
    slice_ok (show 21 ≤ 25 by omega) (show 25 ≤ p.length by omega), slice_ok (show 25 ≤ 29 by omega) (show 29 ≤ p.length by omega),
    Outcome.ok_bind, exact, e1, e2, if_true, hv1, hv2, Cipher.encryptBlock, Outcome.isOk_ok, and_self]

/-- the number of payload octets the accessors of a payload type reach -/
def need : String → Nat
  | "LinkCheckAnsPayload" => 2
  | "LinkADRReqPayload" => 4
  | "DutyCycleReqPayload" => 1
  | "RXParamSetupReqPayload" => 4
  | "NewChannelReqPayload" => 5
  | "RXTimingSetupReqPayload" => 1
  | "TXParamSetupReqPayload" => 1
  | "DlChannelReqPayload" => 4
  | "DeviceTimeAnsPayload" => 5
  | "LinkADRAnsPayload" => 1
  | "RXParamSetupAnsPayload" => 1
  | "DevStatusAnsPayload" => 2
  | "NewChannelAnsPayload" => 1
  | "DlChannelAnsPayload" => 1
  | "AdrBitChangeReqPayload" => 1
  | "TxPeriodicityChangeReqPayload" => 1
  | "TxFramesCtrlReqPayload" => 1
  | "EchoIncPayloadReqPayload" => 1
  | "EchoIncPayloadAnsPayload" => 0
  | "McGroupStatusReqPayload" => 1
  | "McGroupSetupReqPayload" => 29
  | "McGroupDeleteReqPayload" => 1
  | "PackageVersionAnsPayload" => 2
  | "McGroupStatusAnsPayload" => 1
  | "McGroupSetupAnsPayload" => 1
  | "McGroupDeleteAnsPayload" => 1
  | _ => 0

theorem accessors_ok (cph : Cipher) (ty : String) (p : Bytes) (h : need ty ≤ p.length) (hb : IsBytes p) :
    AllOk (accessors cph ty p) := by
  unfold accessors
  split <;> simp only [need] at h
  · exact accLinkCheckAns_ok h
  · exact accLinkADRReq_ok h
  · exact accDutyCycleReq_ok h
  · exact accRXParamSetupReq_ok h hb
  · exact accNewChannelReq_ok h hb
  · exact accRXTimingSetupReq_ok h
  · exact accTXParamSetupReq_ok h
  · exact accDlChannelReq_ok h hb
  · exact accDeviceTimeAns_ok h hb
  · exact accLinkADRAns_ok h
  · exact accRXParamSetupAns_ok h
  · exact accDevStatusAns_ok h
  · exact accNewChannelAns_ok h
  · exact accDlChannelAns_ok h
  · exact accAdrBitChangeReq_ok h
  · exact accTxPeriodicityChangeReq_ok h
  · exact accTxFramesCtrlReq_ok h
  · exact accEchoIncPayloadReq_ok h
  · exact accEchoIncPayloadAns_ok p
  · exact accMcGroupStatusReq_ok h
  · exact accMcGroupSetupReq_ok cph h
  · exact accMcGroupDeleteReq_ok h
  · exact accPackageVersionAns_ok h
  · exact accMcGroupStatusAns_ok h
  · exact accMcGroupSetupAns_ok h
  · exact accMcGroupDeleteAns_ok h
  · intro a ha; simp at ha

theorem varLen_pos {ty : String} {rest : Bytes} {n : Nat} (h : varLen ty rest = .ok n) : 1 ≤ n := by
  unfold varLen at h
  split at h
  · simp at h; omega
  · simp at h; omega
  · simp at h; omega
  · cases rest with
    | nil => simp at h
    | cons x xs => simp at h; omega
  · simp at h

theorem run_payload_isBytes {T : Table} {vl : VarLen} {s : Iter} {r : Run} (ok : RunOk T vl s r) (hb : IsBytes s.data)
    (c : Cmd) (hc : Item.cmd c ∈ r.items) : IsBytes c.payload := by
  rw [← ok.prefix_eq] at hb
  have h1 := (IsBytes.append.mp hb).1
  have h2 := IsBytes.flatten h1 (Item.cmd c).wire (List.mem_map_of_mem hc)
  simp [Item.wire, Cmd.wire] at h2
  exact h2.2

end MacCmd
