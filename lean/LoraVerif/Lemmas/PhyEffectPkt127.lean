import LoraVerif.Lemmas.PhyEffect127
/-!
# SX127x packet parameters and IRQ mask: register effect against `sx127x_set_lora_pkt_params` /
`sx127x_set_irq_mask` (C13)
-/
open Model.Phy Spec.Semtech
namespace C13
open Gen.PhyCodes127

/-- the compared bits of a packet-parameter effect (= `eff_mask("pktparams", a)`): preamble, header
type and CRC bits, and — in implicit-header mode, the only one in which lora-phy writes it — the
payload length -/
def pktMask (implicit : Bool) (a : Nat) : UInt8 :=
  if a = 0x1d ∨ a = 0x1e ∨ a = 0x20 ∨ a = 0x21 then 0xff else if a = 0x22 then (if implicit then 0xff else 0) else 0

theorem pkt_mask_close (imp : Bool) (L R : Nat → UInt8) (h29 : L 29 = R 29) (h30 : L 30 = R 30) (h32 : L 32 = R 32)
    (h33 : L 33 = R 33) (h34 : imp = true → L 34 = R 34) (a : Nat) :
    L a &&& pktMask imp a = R a &&& pktMask imp a := by
  unfold pktMask
  by_cases h1 : a = 29; · subst h1; simp [h29]
  by_cases h2 : a = 30; · subst h2; simp [h30]
  by_cases h3 : a = 32; · subst h3; simp [h32]
  by_cases h4 : a = 33; · subst h4; simp [h33]
  by_cases h5 : a = 34
  · subst h5
    cases imp
    · simp
    · simp [h34 rfl]
  simp [h1, h2, h3, h4, h5]

macro "bytes'" : tactic =>
  `(tactic| (first | rfl | (generalize Chip.regs _ _ = r; revert r; exact u8_forall _ (by decide +kernel))))

set_option maxHeartbeats 4000000 in
/-- **SX127x packet parameters**, both variants: every preamble length, header mode, payload length,
CRC and IQ flag, every prior register content. -/
theorem sx127x_packet_params_effect_eq (cfg : Sx127x.Config) (p : PacketParams) (c : Chip) (hk : c.kind = .sx127x) (a : Nat) :
    (trace (Sx127x.setPacketParams cfg p) c).2.1.regs a &&& pktMask p.implicitHeader a =
      (trace (S127.setLoraPktParams (cfg.chip == .sx1272) p.preambleLength p.implicitHeader (UInt8.ofNat p.payloadLength) p.crcOn) c).2.1.regs a
        &&& pktMask p.implicitHeader a := by
  obtain ⟨pre, imp, len, crc, iq⟩ := p
  simp only
  revert a
  cases hc : cfg.chip <;> cases imp <;> cases crc <;> cases iq <;>
  · apply pkt_mask_close <;>
      eff127 [Sx127x.setPacketParams, Sx127x.variantSetPacketParams, hc, S127.setLoraPktParams, S127.setStandby, S127.setOpMode,
        S127.REG_OP_MODE, S127.REG_LORA_FIFO_TX_BASE_ADDR, S127.REG_LORA_MODEM_CONFIG_1, S127.REG_LORA_PREAMBLE_MSB,
        S127.REG_LORA_PAYLOAD_LENGTH, hk, hi8, lo8, b2u] <;>
      bytes'

/-! ### IRQ mask -/

/-- the `SX127X_IRQ_*` set the reference is given for each driver mode -/
def refIrqOf : Option RadioMode → Nat
  | some .transmit => 0x0001                       -- TX_DONE
  | some (.receive _) => 0x0002 ||| 0x0200 ||| 0x0040 ||| 0x0010   -- RX_DONE | TIMEOUT | CRC_ERROR | HEADER_VALID
  | some .cad => 0x0080 ||| 0x0100                 -- CAD_DONE | CAD_DETECTED
  | _ => 0

/-- **SX127x IRQ mask**: for every mode lora-phy's `set_irq_params` leaves in RegIrqFlagsMask what
`sx127x_set_irq_mask` computes for the corresponding interrupt set (the DIO mapping that lora-phy
programs alongside belongs to the reference's `set_tx` / `set_rx`) -/
theorem sx127x_irq_mask_effect_eq (mode : Option RadioMode) (c : Chip) (hk : c.kind = .sx127x) :
    (trace (Sx127x.setIrqParams mode) c).2.1.regs 0x11 = (trace (S127.setIrqMask (refIrqOf mode)) c).2.1.regs 0x11 := by
  have go : ∀ m : Option RadioMode, (∀ rm, m ≠ some (.receive rm)) →
      (trace (Sx127x.setIrqParams m) c).2.1.regs 0x11 = (trace (S127.setIrqMask (refIrqOf m)) c).2.1.regs 0x11 := by
    intro m hm
    rcases m with _ | m
    · eff127 [Sx127x.setIrqParams, Sx127x.clearIrqStatus, S127.setIrqMask, refIrqOf, hk, Sx127x.v8, IrqMask.value, IrqMask.toInt,
        S127.REG_LORA_IRQ_FLAGS_MASK]
    · cases m <;> first
        | exact absurd rfl (hm _)
        | eff127 [Sx127x.setIrqParams, Sx127x.clearIrqStatus, S127.setIrqMask, refIrqOf, hk, Sx127x.v8, IrqMask.value, IrqMask.toInt,
            S127.REG_LORA_IRQ_FLAGS_MASK]
  rcases mode with _ | m
  · exact go none (fun _ h => by cases h)
  · cases m with
    | receive rm =>
      eff127 [Sx127x.setIrqParams, Sx127x.clearIrqStatus, S127.setIrqMask, refIrqOf, hk, Sx127x.v8, IrqMask.value, IrqMask.toInt,
        S127.REG_LORA_IRQ_FLAGS_MASK]
    | _ => exact go _ (fun _ h => by cases h)

end C13
