import LoraVerif.Lemmas.RefineOps
import LoraVerif.Lemmas.GhostC
/-!
# From sessions of the async front-end to extended histories, for the history-level theorems

`asyncOps_sim` (`Lemmas/RefineOps.lean`): every session of the async front-end model — either class,
ANY script of radio answers — is simulated by `runC` on the events `abstractOp` reads off the calls.
This file packages what the lifted history theorems (`historyC_*`) need to be stated for the
front-end: the run of the extended history (`asyncOps_runC`), and that frames with 16-bit wire counters
in the scripts give events satisfying `evOkC` (`abstractOps_evOkC`), valid calls valid events.
-/
namespace Model

theorem leadFrames_cs_all (P : RxView → Bool) {s : List ScriptItem} (h : s.all (ScriptItem.allView P) = true) :
    (leadFrames s).1.all (fun c => P c.1) = true := by
  induction s with
  | nil => rfl
  | cons i rest ih =>
    simp only [List.all_cons, Bool.and_eq_true] at h
    cases i with
    | ok => rfl
    | err => rfl
    | frame snr v =>
      simp only [leadFrames, List.all_cons, Bool.and_eq_true]
      exact ⟨h.1, ih h.2⟩

/-- the frames heard between the windows, as `abstractSendC` / `abstractJoinC` read them, satisfy what
every frame of the script satisfies -/
theorem parseWin_cs_all (P : RxView → Bool) (cc : Bool) {s : List ScriptItem} (h : s.all (ScriptItem.allView P) = true) :
    (parseWin cc s).1.cs.all (fun c => P c.1) = true := by
  have hb : (parseBetween cc s).2.1.all (fun c => P c.1) = true := by
    unfold parseBetween
    split
    · rfl
    · split
      · exact leadFrames_cs_all P (nextItem_all P h).2
      · rfl
  unfold parseWin
  split
  · rfl
  · unfold parseListen
    split
    · exact hb
    · split
      · exact hb
      · exact hb

theorem rxOk_of_rxAll {f : Option (RxView × Int)} (h : rxAll viewOk f = true) : rxOk f = true := by
  cases f with
  | none => rfl
  | some p => exact h

/-- scripts whose frames carry 16-bit wire counters give events whose frames do -/
theorem abstractOp_evOkC (cfg : DevCfg) (op : AsyncOp) (h : op.allView viewOk = true) : evOkC (abstractOp cfg op) = true := by
  cases op with
  | send data port conf script =>
    simp only [AsyncOp.allView] at h
    have hw1 := parseWin_all viewOk cfg.classC (nextItem_all viewOk h).2
    have hc1 := parseWin_cs_all viewOk cfg.classC (nextItem_all viewOk h).2
    have hw2 := parseWin_all viewOk cfg.classC hw1.2
    have hc2 := parseWin_cs_all viewOk cfg.classC hw1.2
    show evOkC (abstractSendC cfg script data port conf) = true
    unfold abstractSendC
    split
    · rfl
    · simp only [evOkC, Bool.and_eq_true]
      exact ⟨⟨⟨hc1, rxOk_of_rxAll hw1.1⟩, hc2⟩, rxOk_of_rxAll hw2.1⟩
  | join script =>
    simp only [AsyncOp.allView] at h
    have hw1 := parseWin_all viewOk cfg.classC (nextItem_all viewOk h).2
    have hc1 := parseWin_cs_all viewOk cfg.classC (nextItem_all viewOk h).2
    have hw2 := parseWin_all viewOk cfg.classC hw1.2
    have hc2 := parseWin_cs_all viewOk cfg.classC hw1.2
    show evOkC (abstractJoinC cfg script) = true
    unfold abstractJoinC
    split
    · rfl
    · simp only [evOkC, Bool.and_eq_true]
      exact ⟨⟨⟨hc1, rxOk_of_rxAll hw1.1⟩, hc2⟩, rxOk_of_rxAll hw2.1⟩
  | abp da nwk app => rfl
  | setAdr on => rfl
  | setDr dr => rfl

theorem abstractOps_evOkC (cfg : DevCfg) (ops : List AsyncOp) (h : ∀ op ∈ ops, op.allView viewOk = true) :
    ∀ ev ∈ ops.map (abstractOp cfg), evOkC ev = true := by
  intro ev hev
  obtain ⟨op, hop, rfl⟩ := List.mem_map.mp hev
  exact abstractOp_evOkC cfg op (h op hop)

/-- the extended history of a session of the async front-end -/
def abstractSessionC (cfg : DevCfg) (ops : List AsyncOp) : List EvC := ops.map (abstractOp cfg)

/-- **every session of the async front-end (either class, any script) that returns IS a run of the
extended history of its calls**: same final MAC state and generator state, and the outputs are, call by
call, the front-end's answers and the frames it handed to the radio -/
theorem asyncOps_runC {σ} (g : Rng σ) (cfg : DevCfg) (d : DevRun) (rs : σ) (ops : List AsyncOp)
    (obs : List OpObs) (d' : DevRun) (rs' : σ) (h : asyncOps g cfg d rs ops = .ok (obs, d', rs')) :
    ∃ ocs, runC g (d.m, rs) (abstractSessionC cfg ops) = .ok ((d'.m, rs'), ocs) ∧ AllRel ObsRel obs ocs := by
  obtain ⟨⟨ms', ocs⟩, hrun, hrel⟩ := (asyncOps_sim g cfg d rs ops).elim_ok h
  have hm : ms' = (d'.m, rs') := by
    obtain ⟨m', s'⟩ := ms'
    have h1 := hrel.m; have h2 := hrel.rng
    simp only at h1 h2
    rw [h1, h2]
  subst hm
  exact ⟨ocs, hrun, hrel.obs⟩

end Model
