import LoraVerif.Lemmas.CycleC
/-!
# The reference session tracker over the extended histories

`ghNextC` moves the tracker `Gh` of `Lemmas/Ghost.lean` across an annotated extended event: events of
`Model/History.lean` by `ghStep`; a join procedure as the plain `joinOtaa` it amounts to
(`joinPlain`); `send` + receive procedure of a device with a session to the counter the REFERENCE
procedure ends with (`upRefC`: every frame of `c1`, RX1, `c2`, RX2 judged under the counter held at
that point).  `stepC_ghRel`: every step of every extended history keeps the tracker tied to the state.
-/
namespace Model

def ghNextC (gh : Gh) (e : EvL) (out : OutC) : Gh :=
  match e.2 with
  | .base ev => ghStep gh ev
  | .uplinkC cc _ _ conf fault c1 rx1 c2 rx2 =>
    (match gh, out.out with
     | some last, .up so _ _ => some (upRefC cc last conf e.1 fault c1 rx1 c2 rx2 so).st.last
     | _, _ => gh)
  | .joinC cc fault c1 rx1 c2 rx2 => ghStep gh (joinPlain fault rx1 rx2)

theorem evOk_joinPlain {cc : Bool} {fault : Option FaultPos} {c1 c2 : List (RxView × Int)} {rx1 rx2 : Option (RxView × Int)}
    (h : evOkC (.joinC cc fault c1 rx1 c2 rx2) = true) : evOk (joinPlain fault rx1 rx2) = true := by
  simp only [evOkC, Bool.and_eq_true] at h
  simp only [joinPlain, evOk, Bool.and_eq_true]
  exact ⟨h.1.1.2, h.2⟩

/-- **the tracker follows the state along every extended step** -/
theorem stepC_ghRel {σ} (g : Rng σ) (m m' : MacState) (rs rs' : σ) (ev : EvC) (out : OutC) (gh : Gh)
    (hr : GhRel m gh) (hv : evOkC ev = true) (h : stepC g (m, rs) ev = .ok ((m', rs'), out)) :
    GhRel m' (ghNextC gh (rxcMp m, ev) out) := by
  cases ev with
  | base e =>
    obtain ⟨hs, _⟩ := stepC_base g _ _ e out h
    exact step_ghRel g m m' rs rs' e out.out gh hr hv hs
  | joinC cc fault c1 rx1 c2 rx2 =>
    obtain ⟨hs, _⟩ := stepC_joinC_plain g _ _ cc fault c1 rx1 c2 rx2 out h
    exact step_ghRel g m m' rs rs' _ out.out gh hr (evOk_joinPlain hv) hs
  | uplinkC cc data fport conf fault c1 rx1 c2 rx2 =>
    cases gh with
    | none =>
      obtain ⟨rfl, _, rfl⟩ := stepC_uplinkC_notJoined g m m' rs rs' hr cc data fport conf fault c1 rx1 c2 rx2 out h
      exact hr
    | some last =>
      obtain ⟨s, hst, rfl, hl⟩ := hr
      obtain ⟨so, m1, _, _, _, _, _, rfl, _, s', hst', hp', hl'⟩ :=
        stepC_uplinkC_joined g m m' rs rs' s hst hl cc data fport conf fault c1 rx1 c2 rx2 hv out h
      simp only [ghNextC]
      rw [← hp']
      exact ⟨s', hst', rfl, hl'⟩

end Model
