import LoraVerif.Lemmas.CodecLemmas
/-!
# Lemmas for C01: the data-frame builder writes exactly the specification's frame
-/
open Lora Lora.Codec Lora.CodecLemmas

namespace Lora.C01Lemmas

theorem mic_tail (c : Cipher) (nwk : Key) (fcnt : UInt32) (W R : Bytes) (total : Nat)
    (mh a1 a2 a3 a4 : UInt8) (rest : Bytes) (hW : W = mh :: a1 :: a2 :: a3 :: a4 :: rest)
    (htot : total = W.length + 4) (hR : R.length = 4) :
    writeDataMic ⟨c, nwk⟩ (W ++ R) total fcnt =
    Outcome.ok (W ++ (c.cmac nwk (((#v[(0x49 : UInt8), 0, 0, 0, 0, (mh &&& 0x20) >>> 5, a1, a2, a3, a4,
               (fcnt &&& 0xff).toUInt8, ((fcnt >>> 8) &&& 0xff).toUInt8, ((fcnt >>> 16) &&& 0xff).toUInt8,
               ((fcnt >>> 24) &&& 0xff).toUInt8, 0, 0] : Block).set 15 (UInt8.ofNat W.length)).toList ++ W)).toList.take 4) := by
  have hu : usizeSub total 4 = .ok W.length := by
    unfold usizeSub; subst htot; simp
  unfold writeDataMic
  simp only [bind, Outcome.bind, hu]
  rw [slice_prefix W R _ rfl]
  simp only []
  have hc : calculateDataMic { cipher := c, key := nwk } W fcnt = .ok
      ((c.cmac nwk (((#v[(0x49 : UInt8), 0, 0, 0, 0, (mh &&& 0x20) >>> 5, a1, a2, a3, a4,
               (fcnt &&& 0xff).toUInt8, ((fcnt >>> 8) &&& 0xff).toUInt8, ((fcnt >>> 16) &&& 0xff).toUInt8,
               ((fcnt >>> 24) &&& 0xff).toUInt8, 0, 0] : Block).set 15 (UInt8.ofNat W.length)).toList ++ W)).toList.take 4) := by
    unfold calculateDataMic
    subst hW
    rw [helper_spec]
    rfl
  rw [hc]
  simp only []
  rw [copy_next _ _ _ _ _ rfl (by simp [hR]) (by simp [hR])]
  simp [hR]

theorem toSpec_ftype (d : DataFrame) : d.toSpec.ftype = d.frameType := rfl
theorem toSpec_devAddr (d : DataFrame) : d.toSpec.devAddr = d.devAddr.value := rfl
theorem toSpec_fcnt (d : DataFrame) : d.toSpec.fcnt = d.fcnt := rfl

theorem hdr_eq (d : DataFrame) (hfo : d.fOpts.length ≤ 15) :
    [d.mhdr] ++ d.devAddr.toList ++ [d.fctrl] ++ u16ToLe d.fcnt.toUInt16 ++ d.fOpts
      = Spec.mhdrData d.frameType :: Spec.fhdr d.toSpec := by
  rw [mhdr_eq, fctrl_eq d hfo, u16ToLe_fcnt, ← le_devAddr]
  simp [Spec.fhdr, DataFrame.toSpec]

theorem encrypt_if (cr : Crypto) (pre pl post : Bytes) (fcnt : UInt32) (a0 : Block) (start stop : Nat)
    (hstart : start = pre.length) (hstop : stop = start + pl.length)
    (ha : generateHelperBlock (pre ++ pl ++ post) 0x01 fcnt Block.zero = .ok a0) (hmax : pl.length ≤ 4064) :
    encryptIfNonEmpty cr (pre ++ pl ++ post) start pl fcnt
      = .ok (pre ++ List.zipWith (· ^^^ ·) pl ((List.range pl.length).map (ksByte cr a0)) ++ post) := by
  unfold encryptIfNonEmpty
  cases pl with
  | nil => simp
  | cons x xs =>
    simp only [List.isEmpty_cons, Bool.not_false, if_true]
    subst hstop
    exact encryptFrm_spec cr pre (x :: xs) post fcnt a0 start _ hstart rfl ha hmax

/-- what the specification assembles once the key is decided -/
def specFrame (c : Cipher) (d : DataFrame) (nwk : Key) (fPort : Option UInt8) (frm : Bytes) (encKey : Key) : Bytes :=
  let s := d.toSpec
  let msg := Spec.mhdrData s.ftype :: (Spec.fhdr s ++
    match fPort with
    | none => []
    | some port => port :: Spec.cryptPayload c encKey (Spec.dirOf s.ftype) s.devAddr s.fcnt frm)
  msg ++ Spec.dataMic c nwk (Spec.dirOf s.ftype) s.devAddr s.fcnt msg

theorem take_split (buf : Bytes) (n : Nat) (h : n ≤ buf.length) : (buf.take n).length = n := by
  simp; omega

theorem writeFrame_ok (c : Cipher) (d : DataFrame) (buf : Bytes) (nwk : Key)
    (fPort : Option UInt8) (frm : Bytes) (encKey : Key)
    (hfo : d.fOpts.length ≤ 15) (hfrm : frm.length ≤ 4064) (hport : fPort = none → frm = [])
    (hbuf : 1 + (7 + d.fOpts.length) + portLen fPort + frm.length + 4 ≤ buf.length) :
    d.writeFrame c buf nwk fPort frm encKey = .ok (specFrame c d nwk fPort frm encKey) := by
  unfold DataFrame.writeFrame
  simp only [hbuf, if_true, bind, Outcome.bind, pure]
  generalize hout : buf.take _ = out0
  have hlen0 : out0.length = 1 + (7 + d.fOpts.length) + portLen fPort + frm.length + 4 := by
    rw [← hout]; exact take_split _ _ hbuf
  clear hout hbuf
  have hsp : Spec.le 4 (d.devAddr.value).toNat = d.devAddr.toList := le_devAddr _
  have hdr := hdr_eq d hfo
  have hdir := dir_eq d
  have hal : d.devAddr.toList.length = 4 := by simp
  generalize d.devAddr.toList = al at *
  match al, hal with
  | [a1, a2, a3, a4], _ =>
  have e1 := set_next [] out0 0 d.mhdr rfl (by omega)
  simp only [List.nil_append] at e1
  simp only [e1]
  rw [copy_next _ _ _ _ _ (by simp) (by simp) (by simp; omega)]
  simp only []
  rw [set_next _ _ _ _ (by simp) (by simp; omega)]
  simp only []
  rw [copy_next _ _ _ _ _ (by simp) (by simp [u16ToLe]) (by simp [u16ToLe]; omega)]
  simp only []
  rw [copy_next _ _ _ _ _ (by simp [u16ToLe]) (by simp [u16ToLe]) (by simp [u16ToLe]; omega)]
  simp only []
  simp only [List.drop_drop]
  generalize hR : List.drop _ out0 = R
  have hRl : R.length = portLen fPort + frm.length + 4 := by
    rw [← hR]; simp [u16ToLe]; omega
  clear hR e1 hlen0
  -- the header is written; from here on only its first five bytes and its length matter
  have hH5 : ∃ rest, [d.mhdr] ++ [a1, a2, a3, a4] ++ [d.fctrl] ++ u16ToLe d.fcnt.toUInt16 ++ d.fOpts
      = d.mhdr :: a1 :: a2 :: a3 :: a4 :: rest := ⟨d.fctrl :: (u16ToLe d.fcnt.toUInt16 ++ d.fOpts), by simp⟩
  obtain ⟨hrest, hH5⟩ := hH5
  have hHl : ([d.mhdr] ++ [a1, a2, a3, a4] ++ [d.fctrl] ++ u16ToLe d.fcnt.toUInt16 ++ d.fOpts).length
      = 1 + (7 + d.fOpts.length) := by simp [u16ToLe]; omega
  generalize [d.mhdr] ++ [a1, a2, a3, a4] ++ [d.fctrl] ++ u16ToLe d.fcnt.toUInt16 ++ d.fOpts = H at *
  have hA : ∀ i, (#v[(0x01 : UInt8), 0, 0, 0, 0, (d.mhdr &&& 0x20) >>> 5, a1, a2, a3, a4,
               (d.fcnt &&& 0xff).toUInt8, ((d.fcnt >>> 8) &&& 0xff).toUInt8, ((d.fcnt >>> 16) &&& 0xff).toUInt8,
               ((d.fcnt >>> 24) &&& 0xff).toUInt8, 0, 0] : Block).set 15 (UInt8.ofNat i)
      = Spec.blockA (Spec.dirOf d.frameType) d.devAddr.value d.fcnt i := by
    intro i; rw [hdir]; exact blockA_eq _ _ _ _ _ _ _ _ hsp
  cases fPort with
  | none =>
    have hf : frm = [] := hport rfl
    subst hf
    simp only [portLen, List.length_nil, Nat.add_zero, Nat.zero_add] at hRl
    simp only []
    rw [copy_next _ _ _ _ _ (by simp [hHl]) (by simp) (by simp)]
    simp only [encryptIfNonEmpty, List.isEmpty_nil, Bool.not_true, Bool.false_eq_true, if_false, List.append_nil, List.length_nil, List.drop_zero,
      portLen, Nat.add_zero]
    rw [mic_tail c nwk d.fcnt H R _ _ _ _ _ _ _ hH5 (by omega) hRl]
    simp only [specFrame, Spec.dataMic, toSpec_ftype, toSpec_devAddr, toSpec_fcnt, List.append_nil]
    rw [hdir, blockB0_eq _ _ _ _ _ _ _ _ hsp, hdr]
  | some port =>
    simp only []
    rw [set_next _ _ _ _ (by simp [hHl]) (by simp [hRl, portLen])]
    simp only []
    rw [copy_next _ _ _ _ _ (by simp [hHl]) rfl (by simp [hRl, portLen]; try omega)]
    simp only []
    rw [encrypt_if ⟨c, encKey⟩ (H ++ [port]) frm _ d.fcnt _ _ _ (by simp [hHl]) rfl
      (by rw [hH5]; simp only [List.cons_append]; exact helper_spec ..) hfrm]
    simp only []
    rw [mic_tail c nwk d.fcnt _ _ _ _ _ _ _ _ _ (by rw [hH5]; simp only [List.cons_append]; rfl) (by simp [hHl, portLen]; omega)
      (by simp [hRl, portLen]; omega)]
    simp only [specFrame, Spec.dataMic, toSpec_ftype, toSpec_devAddr, toSpec_fcnt]
    rw [crypt_eq c encKey _ _ _ _ hA]
    rw [hdir, blockB0_eq _ _ _ _ _ _ _ _ hsp, hdr]
    simp

theorem writeFrame_short (c : Cipher) (d : DataFrame) (buf : Bytes) (nwk : Key)
    (fPort : Option UInt8) (frm : Bytes) (encKey : Key)
    (hbuf : ¬ (1 + (7 + d.fOpts.length) + portLen fPort + frm.length + 4 ≤ buf.length)) :
    d.writeFrame c buf nwk fPort frm encKey = .err .bufferTooShort := by
  unfold DataFrame.writeFrame
  simp only [hbuf, if_false, bind, Outcome.bind]

theorem le_length (n v : Nat) : (Spec.le n v).length = n := by
  induction n generalizing v with
  | zero => rfl
  | succ n ih => simp [Spec.le, ih]

theorem fhdr_length (s : Spec.DataDesc) : (Spec.fhdr s).length = 7 + s.fopts.length := by
  simp [Spec.fhdr, le_length]; omega

theorem keystream_length (c : Cipher) (k : Key) (dir : UInt8) (a f : UInt32) (n : Nat) :
    (Spec.keystream c k dir a f n).length = 16 * n := flatMap_blocks_length _ n

theorem cryptPayload_length (c : Cipher) (k : Key) (dir : UInt8) (a f : UInt32) (p : Bytes) :
    (Spec.cryptPayload c k dir a f p).length = p.length := by
  simp [Spec.cryptPayload, Spec.xorBytes, keystream_length]; omega

/-- length of the FRMPayload of a description -/
def payloadLen (d : DataFrame) : Nat :=
  match d.payload with
  | .none => 0
  | .data _ _ b => b.length
  | .macCommands b => b.length

/-- the frame the specification defines for a description whose key question is settled -/
theorem specFrame_eq (c : Cipher) (d : DataFrame) (nwk : Key) (fPort : Option UInt8) (frm : Bytes) (encKey : Key)
    (hbody : d.toSpec.body = fPort.map (·, frm)) :
    specFrame c d nwk fPort frm encKey
      = Spec.dataMsg c encKey d.toSpec ++ Spec.dataMic c nwk (Spec.dirOf d.toSpec.ftype) d.toSpec.devAddr d.toSpec.fcnt
          (Spec.dataMsg c encKey d.toSpec) := by
  unfold specFrame Spec.dataMsg
  rw [hbody]
  cases fPort <;> rfl

theorem dataMsg_length (c : Cipher) (d : DataFrame) (fPort : Option UInt8) (frm : Bytes) (encKey : Key)
    (hbody : d.toSpec.body = fPort.map (·, frm)) (hport : fPort = none → frm = []) :
    (Spec.dataMsg c encKey d.toSpec).length = 1 + (7 + d.fOpts.length) + portLen fPort + frm.length := by
  unfold Spec.dataMsg
  rw [hbody]
  cases fPort with
  | none => simp [fhdr_length, portLen, hport rfl, DataFrame.toSpec]; omega
  | some p => simp [fhdr_length, portLen, cryptPayload_length, DataFrame.toSpec]; omega

/-- model = specification once the payload kind and the key are decided -/
theorem writeFrame_eq (c : Cipher) (d : DataFrame) (buf : Bytes) (nwk : Key)
    (fPort : Option UInt8) (frm : Bytes) (encKey : Key)
    (hfo : d.fOpts.length ≤ 15) (hfrm : frm.length ≤ 4064) (hport : fPort = none → frm = [])
    (hbody : d.toSpec.body = fPort.map (·, frm)) :
    d.writeFrame c buf nwk fPort frm encKey
      = Outcome.ofExcept (
          let msg := Spec.dataMsg c encKey d.toSpec
          if buf.length < msg.length + 4 then .error .bufferTooShort
          else .ok (msg ++ Spec.dataMic c nwk (Spec.dirOf d.toSpec.ftype) d.toSpec.devAddr d.toSpec.fcnt msg)) := by
  simp only [dataMsg_length c d fPort frm encKey hbody hport]
  by_cases hb : 1 + (7 + d.fOpts.length) + portLen fPort + frm.length + 4 ≤ buf.length
  · rw [writeFrame_ok c d buf nwk fPort frm encKey hfo hfrm hport hb, specFrame_eq c d nwk fPort frm encKey hbody]
    have : ¬ buf.length < 1 + (7 + d.fOpts.length) + portLen fPort + frm.length + 4 := by omega
    simp only [this, if_false, Outcome.ofExcept]
  · rw [writeFrame_short c d buf nwk fPort frm encKey hb]
    have : buf.length < 1 + (7 + d.fOpts.length) + portLen fPort + frm.length + 4 := by omega
    simp only [this, if_true, Outcome.ofExcept]

/-! ## join frames -/

theorem ofList?_take16 (bs : Bytes) (h : 16 ≤ bs.length) : ∃ b : Block, Block.ofList? (bs.take 16) = some b ∧ b.toList = bs.take 16 := by
  unfold Block.ofList?
  have : (bs.take 16).length = 16 := by simp; omega
  simp only [this, dite_true]
  exact ⟨_, rfl, rfl⟩

theorem forChunks16_block (f : Block → Block) (g : Bytes → Outcome Bytes)
    (hg : ∀ bs, g bs = match Block.ofList? bs with | some b => .ok (f b).toList | none => .panic)
    (n : Nat) (bs : Bytes) (h : 16 * n ≤ bs.length) :
    forChunks16 g n bs = .ok (Spec.ecb f n bs) := by
  induction n generalizing bs with
  | zero => rfl
  | succ n ih =>
    obtain ⟨b, hb, _⟩ := ofList?_take16 bs (by omega)
    simp only [forChunks16, Spec.ecb, hg, hb, bind, Outcome.bind, pure]
    rw [ih (bs.drop 16) (by simp; omega)]

theorem and_0f (x : UInt8) : x &&& 0x0f = UInt8.ofNat (x.toNat % 16) := by
  apply UInt8.toNat_inj.mp
  have := Nat.and_two_pow_sub_one_eq_mod x.toNat 4
  simp at this
  simp [this]
  omega

theorem vec3_toList (v : Vector UInt8 3) : v.toList.length = 3 := by simp
theorem le_u64 (l : Bytes) (h : l.length = 8) : Spec.le 8 (UInt64.ofNat (leValue l)).toNat = l := by
  have h1 := leValue_lt l
  rw [h] at h1
  have : (UInt64.ofNat (leValue l)).toNat = leValue l := by
    simp [UInt64.toNat_ofNat']; omega
  rw [this, ← h]; exact le_leValue l

theorem le_u16 (l : Bytes) (h : l.length = 2) : Spec.le 2 (UInt16.ofNat (leValue l)).toNat = l := by
  have h1 := leValue_lt l
  rw [h] at h1
  have : (UInt16.ofNat (leValue l)).toNat = leValue l := by
    simp [UInt16.toNat_ofNat']; omega
  rw [this, ← h]; exact le_leValue l

theorem writeMic_tail (cr : Crypto) (W R : Bytes) (hR : R.length = 4) :
    writeMic cr (W ++ R) = .ok (W ++ (cr.cipher.cmac cr.key W).toList.take 4) := by
  unfold writeMic
  have hu : usizeSub (W ++ R).length 4 = .ok W.length := by
    unfold usizeSub; simp [hR]
  simp only [bind, Outcome.bind, hu]
  rw [slice_prefix W R _ rfl]
  simp only []
  rw [copy_next _ _ _ _ _ rfl (by simp [hR, calculateMic, Crypto.calculateMic]) (by simp [hR, calculateMic, Crypto.calculateMic])]
  simp [hR, calculateMic, Crypto.calculateMic]


theorem ecb_length (f : Block → Block) (n : Nat) (bs : Bytes) (h : 16 * n ≤ bs.length) :
    (Spec.ecb f n bs).length = bs.length := by
  induction n generalizing bs with
  | zero => rfl
  | succ n ih =>
    obtain ⟨b, hb, _⟩ := ofList?_take16 bs (by omega)
    simp only [Spec.ecb, hb, List.length_append, Vector.length_toList]
    rw [ih (bs.drop 16) (by simp; omega)]
    simp; omega

theorem slice_tail (x : UInt8) (T : Bytes) (n : Nat) (hn : n = T.length + 1) : slice (x :: T) 1 n = .ok T := by
  subst hn
  unfold slice
  simp

theorem ja_finish (c : Cipher) (k : Key) (T : Bytes) (hT : 16 * (T.length / 16) ≤ T.length) :
    decryptTail ⟨c, k⟩ ((0x20 : UInt8) :: T) = .ok (0x20 :: Spec.ecb (c.dec k) (T.length / 16) T) := by
  unfold decryptTail
  simp only [bind, Outcome.bind]
  rw [slice_tail _ _ _ (by simp)]
  simp only []
  rw [forChunks16_block (c.dec k) _ (fun bs => by rfl) _ _ hT]
  simp only []
  have hl := ecb_length (c.dec k) (T.length / 16) T hT
  have := copy_next [(0x20 : UInt8)] T (Spec.ecb (c.dec k) (T.length / 16) T) 1 ((0x20 : UInt8) :: T).length rfl
    (by simp [hl]; omega) (by omega)
  simp only [List.singleton_append] at this
  rw [this]
  simp [hl]

theorem vec5_toList {α} (v : Vector α 5) : v.toList = [v[0], v[1], v[2], v[3], v[4]] := by
  rcases v with ⟨⟨l⟩, h⟩
  match l, h with
  | [a, b, c, d, e], _ => rfl

theorem le3 (v : Vector UInt8 3) : Spec.le 3 (leValue v.toList) = v.toList := by
  have := le_leValue v.toList
  simpa using this

theorem le9 (v : Vector UInt8 9) : Spec.le 9 (leValue v.toList) = v.toList := by
  have := le_leValue v.toList
  simpa using this

theorem ja_fixed (d : JoinAccept) (out0 : Bytes) (h : 13 ≤ out0.length) :
    d.writeFixedFields out0 = .ok (
      (0x20 :: (Spec.le 3 d.toSpec.joinNonce ++ Spec.le 3 d.toSpec.netId ++ Spec.le 4 d.toSpec.devAddr.toNat
            ++ [d.toSpec.dlSettings, UInt8.ofNat (d.toSpec.rxDelay.toNat % 16)])) ++ out0.drop 13) := by
  unfold JoinAccept.writeFixedFields
  simp only [bind, Outcome.bind]
  have e1 := set_next [] out0 0 0x20 rfl (by omega)
  simp only [List.nil_append] at e1
  simp only [e1]
  rw [copy_next _ _ _ _ _ (by simp) (by simp) (by simp; omega)]
  simp only []
  rw [copy_next _ _ _ _ _ (by simp) (by simp) (by simp; omega)]
  simp only []
  rw [copy_next _ _ _ _ _ (by simp) (by simp) (by simp; omega)]
  simp only []
  rw [set_next _ _ _ _ (by simp) (by simp; omega)]
  simp only []
  rw [set_next _ _ _ _ (by simp) (by simp; omega)]
  simp only [List.drop_drop, JoinAccept.toSpec, le3, le_devAddr, and_0f]
  simp

theorem ja_msg_length (s : Spec.JoinAcceptDesc) :
    (Spec.joinAcceptMsg s).length = match s.cfList with | none => 13 | some _ => 29 := by
  simp only [Spec.joinAcceptMsg]
  cases s.cfList with
  | none => simp [le_length]
  | some l => cases l <;> simp [le_length, Spec.encodeCfList]

end Lora.C01Lemmas
